import Pixman.Spec.CompositeRegion
import Pixman.Spec.Canon
/-! Helper lemmas for C03. -/
namespace Pixman.CompositeRegion
open Pixman.Region

theorem c32_min : c32.min = -2147483648 := by decide
theorem c32_max : c32.max = 2147483647 := by decide

/-- a value that fits `int32_t` is not changed by the conversion -/
theorem wrap32_id {v : Int} (h1 : -2147483648 ≤ v) (h2 : v ≤ 2147483647) : wrap32 v = v := by
  unfold wrap32 wrapS
  simp only [Int.reducePow]
  omega

example : wrap32 2147483648 = -2147483648 ∧ wrap32 (-5) = -5 := by decide

theorem mem_single (b : Box) (x y : Int) : (⟨b, .single⟩ : Region).Mem x y ↔ b.Mem x y := by
  simp [Region.Mem, MemL, Region.rects]

theorem not_mem_emptyStatic (e : Box) (x y : Int) : ¬ (⟨e, .emptyStatic⟩ : Region).Mem x y := by
  simp [Region.Mem, MemL, Region.rects]

theorem canon_single {b : Box} (h : goodRect b = true) : Canon ⟨b, .single⟩ := h

theorem goodRect_iff (b : Box) : goodRect b = true ↔ b.x1 < b.x2 ∧ b.y1 < b.y2 := by
  simp [goodRect]

end Pixman.CompositeRegion

namespace Pixman.CompositeRegion
open Pixman.Region

/-- the point is representable (the range `translate` keeps) -/
def In32 (x y : Int) : Prop := c32.min ≤ x ∧ x < c32.max ∧ c32.min ≤ y ∧ y < c32.max

/-- rectangle coordinates of a 32-bit region are `int32_t` values -/
def WF32 (r : Region) : Prop :=
  ∀ b ∈ r.rects, c32.min ≤ b.x1 ∧ b.x2 ≤ c32.max ∧ c32.min ≤ b.y1 ∧ b.y2 ≤ c32.max

/-- `box + (dx,dy)` does not overflow `int` for any rectangle of the region -/
def ShiftOK (r : Region) (dx dy : Int) : Prop :=
  ∀ b ∈ r.rects, c32.min ≤ b.x1 + dx ∧ b.x2 + dx ≤ c32.max ∧ c32.min ≤ b.y1 + dy ∧ b.y2 + dy ≤ c32.max

instance (r : Region) : Decidable (WF32 r) := by unfold WF32; infer_instance
instance (r : Region) (dx dy : Int) : Decidable (ShiftOK r dx dy) := by unfold ShiftOK; infer_instance

/-- The facts about the region model that C03 uses (proved in Props/C05 — intersect — and
    Props/C07 — translate, not_empty); bundled so that this development builds on its own. -/
structure RegionAlgebra : Prop where
  intersect_ok : ∀ a b : Region, Canon a → Canon b → (intersect false a a b).2 = true
  intersect_canon : ∀ a b : Region, Canon a → Canon b → Canon (intersect false a a b).1
  intersect_mem : ∀ a b : Region, Canon a → Canon b → ∀ x y,
    (intersect false a a b).1.Mem x y ↔ a.Mem x y ∧ b.Mem x y
  translate_canon : ∀ (r : Region) (dx dy : Int), Canon r → Canon (translate c32 r dx dy)
  translate_mem : ∀ (r : Region) (dx dy : Int), Canon r → ∀ x y,
    (translate c32 r dx dy).Mem x y ↔ r.Mem (x - dx) (y - dy) ∧ In32 x y
  notEmpty_iff : ∀ r : Region, Canon r → (notEmpty r = true ↔ ∃ x y, r.Mem x y)

/-- What a clipping step establishes about its result `p`, for the target point set `P`:
    on TRUE the region is canonical and denotes `P`; TRUE is returned iff `P` is inhabited. -/
def Outcome (P : Int → Int → Prop) (p : Region × Bool) : Prop :=
  (p.2 = true → Canon p.1 ∧ ∀ x y, p.1.Mem x y ↔ P x y) ∧ (p.2 = true ↔ ∃ x y, P x y)

theorem canon_numRects_one {r : Region} (h : Canon r) (h1 : r.numRects = 1) :
    ∃ e, r = ⟨e, .single⟩ ∧ goodRect e = true := by
  obtain ⟨e, d⟩ := r
  cases d with
  | single => exact ⟨e, rfl, h⟩
  | emptyStatic => simp [Region.numRects, Region.rects] at h1
  | broken => exact absurd h (by simp [Canon])
  | heap l =>
    have h2 : 2 ≤ l.length := h.1
    simp [Region.numRects, Region.rects] at h1
    omega

theorem box_mem_iff (b : Box) (x y : Int) :
    b.Mem x y ↔ b.x1 ≤ x ∧ x < b.x2 ∧ b.y1 ≤ y ∧ y < b.y2 := Iff.rfl

theorem clip_shortcut {re ce : Box} (hre : goodRect re = true) (hce : goodRect ce = true)
    (dx dy : Int)
    (hs : c32.min ≤ ce.x1 + dx ∧ ce.x2 + dx ≤ c32.max ∧ c32.min ≤ ce.y1 + dy ∧ ce.y2 + dy ≤ c32.max) :
    Outcome (fun x y => re.Mem x y ∧ ce.Mem (x - dx) (y - dy))
      (clipGeneralImage ⟨re, .single⟩ ⟨ce, .single⟩ dx dy) := by
  rw [goodRect_iff] at hre hce
  rw [c32_min, c32_max] at hs
  have w1 : wrap32 (ce.x1 + dx) = ce.x1 + dx := wrap32_id (by omega) (by omega)
  have w2 : wrap32 (ce.x2 + dx) = ce.x2 + dx := wrap32_id (by omega) (by omega)
  have w3 : wrap32 (ce.y1 + dy) = ce.y1 + dy := wrap32_id (by omega) (by omega)
  have w4 : wrap32 (ce.y2 + dy) = ce.y2 + dy := wrap32_id (by omega) (by omega)
  simp only [clipGeneralImage, Region.numRects, Region.rects, List.length_singleton, beq_self_eq_true,
    Bool.and_self, if_true, w1, w2, w3, w4]
  have hX1 : ∀ v, (v = if re.x1 < ce.x1 + dx then ce.x1 + dx else re.x1) →
      (re.x1 ≤ v ∧ ce.x1 + dx ≤ v ∧ (v = re.x1 ∨ v = ce.x1 + dx)) := by intro v hv; split at hv <;> omega
  have hX2 : ∀ v, (v = if re.x2 > ce.x2 + dx then ce.x2 + dx else re.x2) →
      (v ≤ re.x2 ∧ v ≤ ce.x2 + dx ∧ (v = re.x2 ∨ v = ce.x2 + dx)) := by intro v hv; split at hv <;> omega
  have hY1 : ∀ v, (v = if re.y1 < ce.y1 + dy then ce.y1 + dy else re.y1) →
      (re.y1 ≤ v ∧ ce.y1 + dy ≤ v ∧ (v = re.y1 ∨ v = ce.y1 + dy)) := by intro v hv; split at hv <;> omega
  have hY2 : ∀ v, (v = if re.y2 > ce.y2 + dy then ce.y2 + dy else re.y2) →
      (v ≤ re.y2 ∧ v ≤ ce.y2 + dy ∧ (v = re.y2 ∨ v = ce.y2 + dy)) := by intro v hv; split at hv <;> omega
  generalize hx1 : (if re.x1 < ce.x1 + dx then ce.x1 + dx else re.x1) = X1
  generalize hx2 : (if re.x2 > ce.x2 + dx then ce.x2 + dx else re.x2) = X2
  generalize hy1 : (if re.y1 < ce.y1 + dy then ce.y1 + dy else re.y1) = Y1
  generalize hy2 : (if re.y2 > ce.y2 + dy then ce.y2 + dy else re.y2) = Y2
  have a1 := hX1 X1 hx1.symm
  have a2 := hX2 X2 hx2.symm
  have a3 := hY1 Y1 hy1.symm
  have a4 := hY2 Y2 hy2.symm
  clear hX1 hX2 hY1 hY2 hx1 hx2 hy1 hy2 w1 w2 w3 w4
  split
  · rename_i hd
    simp only [Bool.or_eq_true, decide_eq_true_eq, ge_iff_le] at hd
    refine ⟨fun h => absurd h (by simp), ?_⟩
    constructor
    · intro h; simp at h
    · rintro ⟨x, y, h1, h2⟩
      rw [box_mem_iff] at h1 h2
      omega
  · rename_i hd
    simp only [Bool.or_eq_true, decide_eq_true_eq, ge_iff_le, not_or, Int.not_le] at hd
    simp only [setOnlyBox, notEmpty, Region.nil, Bool.not_false]
    refine ⟨fun _ => ⟨?_, ?_⟩, ?_⟩
    · apply canon_single; rw [goodRect_iff]; exact hd
    · intro x y
      rw [mem_single]
      show _ ↔ re.Mem x y ∧ ce.Mem (x - dx) (y - dy)
      simp only [box_mem_iff]
      omega
    · refine ⟨fun _ => ⟨X1, Y1, ?_, ?_⟩, fun _ => rfl⟩
      · rw [box_mem_iff]; omega
      · rw [box_mem_iff]; omega

theorem clipGeneralImage_spec (A : RegionAlgebra) {region clip : Region}
    (hr : Canon region) (hc : Canon clip)
    (hb : ∀ x y, region.Mem x y → In32 x y) (hw : WF32 clip)
    (dx dy : Int) (hs : ShiftOK clip dx dy)
    (hdx : c32.min < dx ∧ dx ≤ c32.max) (hdy : c32.min < dy ∧ dy ≤ c32.max) :
    Outcome (fun x y => region.Mem x y ∧ clip.Mem (x - dx) (y - dy))
      (clipGeneralImage region clip dx dy) := by
  by_cases h1 : region.numRects = 1 ∧ clip.numRects = 1
  · obtain ⟨re, rfl, hre⟩ := canon_numRects_one hr h1.1
    obtain ⟨ce, rfl, hce⟩ := canon_numRects_one hc h1.2
    have h := clip_shortcut hre hce dx dy (hs ce (by simp [Region.rects]))
    simp only [mem_single]
    exact h
  · have hcond : (region.numRects == 1 && clip.numRects == 1) = false := by
      cases h2 : (region.numRects == 1 && clip.numRects == 1)
      · rfl
      · simp only [Bool.and_eq_true, beq_iff_eq] at h2; exact absurd h2 h1
    unfold clipGeneralImage
    rw [hcond]
    simp only [Bool.false_eq_true, if_false]
    rw [c32_min, c32_max] at hdx hdy
    have hr1 : ∀ r1, r1 = (if (dx != 0 || dy != 0) = true then
          translate c32 region (wrap32 (-dx)) (wrap32 (-dy)) else region) →
        Canon r1 ∧ ∀ x y, r1.Mem x y ↔ region.Mem (x + dx) (y + dy) ∧ In32 x y := by
      intro r1 e
      by_cases ht : (dx != 0 || dy != 0) = true
      · rw [if_pos ht] at e; subst e
        have wx : wrap32 (-dx) = -dx := wrap32_id (by omega) (by omega)
        have wy : wrap32 (-dy) = -dy := wrap32_id (by omega) (by omega)
        refine ⟨A.translate_canon _ _ _ hr, fun x y => ?_⟩
        rw [A.translate_mem _ _ _ hr, wx, wy]
        have e1 : x - -dx = x + dx := by omega
        have e2 : y - -dy = y + dy := by omega
        rw [e1, e2]
      · rw [if_neg ht] at e; subst e
        have hz : dx = 0 ∧ dy = 0 := by
          simp only [Bool.or_eq_true, bne_iff_ne, ne_eq, not_or, Decidable.not_not] at ht
          exact ht
        refine ⟨hr, fun x y => ?_⟩
        obtain ⟨rfl, rfl⟩ := hz
        simp only [Int.add_zero]
        exact ⟨fun h => ⟨h, hb x y h⟩, fun h => h.1⟩
    generalize hg : (if (dx != 0 || dy != 0) = true then
          translate c32 region (wrap32 (-dx)) (wrap32 (-dy)) else region) = r1
    obtain ⟨cr1, mr1⟩ := hr1 r1 hg.symm
    clear hr1 hg
    have iok := A.intersect_ok r1 clip cr1 hc
    have ican := A.intersect_canon r1 clip cr1 hc
    have imem := A.intersect_mem r1 clip cr1 hc
    generalize intersect false r1 r1 clip = p at iok ican imem
    -- clip points are representable
    have hclip32 : ∀ u v, clip.Mem u v → In32 u v := by
      intro u v ⟨b, hbm, hm⟩
      have := hw b hbm
      rw [box_mem_iff] at hm
      unfold In32
      omega
    have hr3 : ∀ r3, r3 = (if (dx != 0 || dy != 0) = true then translate c32 p.fst dx dy else p.fst) →
        Canon r3 ∧ ∀ x y, r3.Mem x y ↔ region.Mem x y ∧ clip.Mem (x - dx) (y - dy) := by
      intro r3 e
      by_cases ht : (dx != 0 || dy != 0) = true
      · rw [if_pos ht] at e; subst e
        refine ⟨A.translate_canon _ _ _ ican, fun x y => ?_⟩
        rw [A.translate_mem _ _ _ ican, imem, mr1]
        have e1 : x - dx + dx = x := by omega
        have e2 : y - dy + dy = y := by omega
        rw [e1, e2]
        constructor
        · rintro ⟨⟨⟨h1, _⟩, h2⟩, _⟩; exact ⟨h1, h2⟩
        · rintro ⟨h1, h2⟩; exact ⟨⟨⟨h1, hclip32 _ _ h2⟩, h2⟩, hb x y h1⟩
      · rw [if_neg ht] at e; subst e
        have hz : dx = 0 ∧ dy = 0 := by
          simp only [Bool.or_eq_true, bne_iff_ne, ne_eq, not_or, Decidable.not_not] at ht
          exact ht
        refine ⟨ican, fun x y => ?_⟩
        obtain ⟨rfl, rfl⟩ := hz
        rw [imem, mr1]
        simp only [Int.add_zero, Int.sub_zero]
        constructor
        · rintro ⟨⟨h1, _⟩, h2⟩; exact ⟨h1, h2⟩
        · rintro ⟨h1, h2⟩; exact ⟨⟨h1, hb x y h1⟩, h2⟩
    generalize hg : (if (dx != 0 || dy != 0) = true then translate c32 p.fst dx dy else p.fst) = r3
    obtain ⟨cr3, mr3⟩ := hr3 r3 hg.symm
    clear hr3 hg
    by_cases hne : notEmpty clip = true
    · simp only [hne, Bool.not_true, Bool.false_eq_true, if_false, iok]
      refine ⟨fun _ => ⟨cr3, mr3⟩, ?_⟩
      show notEmpty r3 = true ↔ _
      rw [A.notEmpty_iff r3 cr3]
      constructor
      · rintro ⟨x, y, h⟩; exact ⟨x, y, (mr3 x y).1 h⟩
      · rintro ⟨x, y, h⟩; exact ⟨x, y, (mr3 x y).2 h⟩
    · have hne' : notEmpty clip = false := by cases h : notEmpty clip <;> simp_all
      simp only [hne', Bool.not_false, if_true]
      refine ⟨fun h => absurd h (by simp), ?_⟩
      constructor
      · intro h; simp at h
      · rintro ⟨x, y, _, h2⟩
        exact absurd ((A.notEmpty_iff clip hc).2 ⟨_, _, h2⟩) hne
theorem Outcome.congr {P P' : Int → Int → Prop} {p : Region × Bool} (h : Outcome P p)
    (e : ∀ x y, P x y ↔ P' x y) : Outcome P' p := by
  have : P = P' := by funext x y; exact propext (e x y)
  exact this ▸ h

theorem andThen_outcome {P Q : Int → Int → Prop} {p : Region × Bool} {f : Region → Region × Bool}
    (hp : Outcome P p)
    (hf : ∀ r, Canon r → (∀ x y, r.Mem x y ↔ P x y) → (∃ x y, P x y) →
      Outcome (fun x y => P x y ∧ Q x y) (f r)) :
    Outcome (fun x y => P x y ∧ Q x y) (andThen p f) := by
  unfold andThen
  by_cases h : p.2 = true
  · rw [if_pos h]
    exact hf p.1 (hp.1 h).1 (hp.1 h).2 (hp.2.1 h)
  · rw [if_neg h]
    refine ⟨fun h' => absurd h' h, fun h' => absurd h' h, ?_⟩
    rintro ⟨x, y, h1, _⟩
    exact absurd (hp.2.2 ⟨x, y, h1⟩) h

/-- everything a clip region and its translation must satisfy for the `int` arithmetic of
    `clip_general_image` to be exact -/
def ClipOK (clip : Region) (tx ty : Int) : Prop :=
  Canon clip ∧ WF32 clip ∧ ShiftOK clip tx ty ∧
  (c32.min < tx ∧ tx ≤ c32.max) ∧ (c32.min < ty ∧ ty ≤ c32.max)

theorem condClip_outcome (A : RegionAlgebra) {P : Int → Int → Prop} {r : Region}
    (hr : Canon r) (hm : ∀ x y, r.Mem x y ↔ P x y) (hne : ∃ x y, P x y)
    (hb : ∀ x y, P x y → In32 x y)
    (cond : Bool) (clip : Region) (tx ty : Int) (hyp : cond = true → ClipOK clip tx ty) :
    Outcome (fun x y => P x y ∧ (cond = true → clip.Mem (x - tx) (y - ty)))
      (if cond = true then clipGeneralImage r clip tx ty else (r, true)) := by
  cases cond with
  | false =>
    simp only [Bool.false_eq_true, if_false, false_imp_iff, and_true]
    exact ⟨fun _ => ⟨hr, hm⟩, fun _ => hne, fun _ => rfl⟩
  | true =>
    obtain ⟨h1, h2, h3, h4, h5⟩ := hyp rfl
    simp only [if_true, true_imp_iff]
    have := clipGeneralImage_spec A hr h1 (fun x y h => hb x y ((hm x y).1 h)) h2 tx ty h3 h4 h5
    exact this.congr (fun x y => by rw [hm])

/-- boolean form of `clipApplies` -/
def ImageCore.appliesB (i : ImageCore) : Bool := i.haveClip && i.clipSources && i.clientClip

theorem appliesB_iff (i : ImageCore) : i.appliesB = true ↔ i.clipApplies := by
  simp [ImageCore.appliesB, ImageCore.clipApplies, and_assoc]

theorem srcStep_eq (src : Image) (sx sy dx dy : Int) (r : Region) :
    srcStep src sx sy dx dy r =
      if src.appliesB = true then clipGeneralImage r src.clip (wrap32 (dx - sx)) (wrap32 (dy - sy))
      else (r, true) := by
  unfold srcStep clipSourceImage ImageCore.appliesB
  cases src.haveClip <;> cases src.clipSources <;> cases src.clientClip <;> simp

theorem srcAlphaStep_some_eq (src : Image) (a : AlphaMap) (ha : src.alphaMap = some a)
    (sx sy dx dy : Int) (r : Region) :
    srcAlphaStep src sx sy dx dy r =
      if a.img.appliesB = true then
        clipGeneralImage r a.img.clip (wrap32 (dx - wrap32 (sx - a.ox))) (wrap32 (dy - wrap32 (sy - a.oy)))
      else (r, true) := by
  unfold srcAlphaStep clipSourceImage ImageCore.appliesB
  rw [ha]
  obtain ⟨⟨w, h, clip, hc, cs, cc⟩, ox, oy⟩ := a
  cases hc <;> cases cs <;> cases cc <;> simp

theorem srcStep_outcome (A : RegionAlgebra) {P : Int → Int → Prop} {r : Region}
    (hr : Canon r) (hm : ∀ x y, r.Mem x y ↔ P x y) (hne : ∃ x y, P x y)
    (hb : ∀ x y, P x y → In32 x y) (src : Image) (sx sy dx dy : Int)
    (hyp : src.clipApplies → ClipOK src.clip (dx - sx) (dy - sy)) :
    Outcome (fun x y => P x y ∧ (src.clipApplies → src.clip.Mem (x - (dx - sx)) (y - (dy - sy))))
      (srcStep src sx sy dx dy r) := by
  rw [srcStep_eq]
  by_cases hap : src.appliesB = true
  · have hc := hyp ((appliesB_iff _).1 hap)
    have r1 := hc.2.2.2.1; have r2 := hc.2.2.2.2
    rw [c32_min, c32_max] at r1 r2
    rw [wrap32_id (by omega) (by omega), wrap32_id (by omega) (by omega)]
    have := condClip_outcome A hr hm hne hb src.appliesB src.clip (dx - sx) (dy - sy)
      (fun h => hyp ((appliesB_iff _).1 h))
    exact this.congr (fun x y => by rw [appliesB_iff])
  · rw [if_neg hap]
    have hn : ¬ src.clipApplies := fun h => hap ((appliesB_iff _).2 h)
    exact ⟨fun _ => ⟨hr, fun x y => by rw [hm]; exact ⟨fun h => ⟨h, fun h' => absurd h' hn⟩, fun h => h.1⟩⟩,
      fun _ => by obtain ⟨x, y, h⟩ := hne; exact ⟨x, y, h, fun h' => absurd h' hn⟩, fun _ => rfl⟩

theorem outcome_skip {P Q : Int → Int → Prop} {r : Region}
    (hr : Canon r) (hm : ∀ x y, r.Mem x y ↔ P x y) (hne : ∃ x y, P x y)
    (hq : ∀ x y, P x y → Q x y) (hqp : ∀ x y, Q x y → P x y) : Outcome Q (r, true) :=
  ⟨fun _ => ⟨hr, fun x y => by rw [hm]; exact ⟨hq x y, hqp x y⟩⟩,
    fun _ => by obtain ⟨x, y, h⟩ := hne; exact ⟨x, y, hq x y h⟩, fun _ => rfl⟩

/-- hypotheses for the clip of the alpha map of a source-side image -/
def AlphaOK (a : AlphaMap) (sx sy dx dy : Int) : Prop :=
  a.img.clipApplies →
    ClipOK a.img.clip (dx - (sx - a.ox)) (dy - (sy - a.oy)) ∧
    (c32.min ≤ sx - a.ox ∧ sx - a.ox ≤ c32.max) ∧ (c32.min ≤ sy - a.oy ∧ sy - a.oy ≤ c32.max)

theorem srcAlphaStep_outcome (A : RegionAlgebra) {P : Int → Int → Prop} {r : Region}
    (hr : Canon r) (hm : ∀ x y, r.Mem x y ↔ P x y) (hne : ∃ x y, P x y)
    (hb : ∀ x y, P x y → In32 x y) (src : Image) (sx sy dx dy : Int)
    (hyp : ∀ a, src.alphaMap = some a → AlphaOK a sx sy dx dy) :
    Outcome (fun x y => P x y ∧ (∀ a, src.alphaMap = some a → a.img.clipApplies →
        a.img.clip.Mem (x - (dx - (sx - a.ox))) (y - (dy - (sy - a.oy)))))
      (srcAlphaStep src sx sy dx dy r) := by
  cases hal : src.alphaMap with
  | none =>
    have e : srcAlphaStep src sx sy dx dy r = (r, true) := by unfold srcAlphaStep; rw [hal]
    rw [e]
    exact outcome_skip hr hm hne (fun x y h => ⟨h, fun a ha => nomatch ha⟩) (fun x y h => h.1)
  | some a =>
    rw [srcAlphaStep_some_eq src a hal]
    by_cases hap : a.img.appliesB = true
    · obtain ⟨hc, q1, q2⟩ := hyp a hal ((appliesB_iff _).1 hap)
      have r1 := hc.2.2.2.1; have r2 := hc.2.2.2.2
      rw [c32_min, c32_max] at r1 r2 q1 q2
      rw [wrap32_id (v := sx - a.ox) (by omega) (by omega), wrap32_id (v := sy - a.oy) (by omega) (by omega),
        wrap32_id (by omega) (by omega), wrap32_id (by omega) (by omega)]
      have := condClip_outcome A hr hm hne hb a.img.appliesB a.img.clip (dx - (sx - a.ox)) (dy - (sy - a.oy))
        (fun _ => hc)
      refine this.congr (fun x y => ?_)
      rw [appliesB_iff]
      constructor
      · rintro ⟨h1, h2⟩; exact ⟨h1, fun a' ha' hc' => by cases ha'; exact h2 hc'⟩
      · rintro ⟨h1, h2⟩; exact ⟨h1, fun hc' => h2 a rfl hc'⟩
    · rw [if_neg hap]
      have hn : ¬ a.img.clipApplies := fun h => hap ((appliesB_iff _).2 h)
      exact outcome_skip hr hm hne (fun x y h => ⟨h, fun a' ha' hc' => by cases ha'; exact absurd hc' hn⟩)
        (fun x y h => h.1)

theorem maskStep_outcome (A : RegionAlgebra) {P : Int → Int → Prop} {r : Region}
    (hr : Canon r) (hm : ∀ x y, r.Mem x y ↔ P x y) (hne : ∃ x y, P x y)
    (hb : ∀ x y, P x y → In32 x y) (mask : Option Image) (mx my dx dy : Int)
    (hyp1 : ∀ m, mask = some m → m.clipApplies → ClipOK m.clip (dx - mx) (dy - my))
    (hyp2 : ∀ m a, mask = some m → m.haveClip = true → m.alphaMap = some a → AlphaOK a mx my dx dy) :
    Outcome (fun x y => P x y ∧
        ((∀ m, mask = some m → m.clipApplies → m.clip.Mem (x - (dx - mx)) (y - (dy - my))) ∧
         (∀ m a, mask = some m → m.haveClip = true → m.alphaMap = some a → a.img.clipApplies →
            a.img.clip.Mem (x - (dx - (mx - a.ox))) (y - (dy - (my - a.oy))))))
      (maskStep mask mx my dx dy r) := by
  cases mask with
  | none =>
    show Outcome _ (r, true)
    exact outcome_skip hr hm hne (fun x y h => ⟨h, ⟨fun m hm' => (by cases hm'), fun m a hm' => (by cases hm')⟩⟩)
      (fun x y h => h.1)
  | some m =>
    by_cases hh : m.haveClip = true
    · have e : maskStep (some m) mx my dx dy r =
          andThen (srcStep m mx my dx dy r) (srcAlphaStep m mx my dx dy) := by
        simp only [maskStep, srcStep, hh, if_true]
      rw [e]
      have s1 := srcStep_outcome A hr hm hne hb m mx my dx dy (hyp1 m rfl)
      have s2 := andThen_outcome (Q := fun x y => ∀ a, m.alphaMap = some a → a.img.clipApplies →
          a.img.clip.Mem (x - (dx - (mx - a.ox))) (y - (dy - (my - a.oy)))) s1
        (fun r' hr' hm' hne' => srcAlphaStep_outcome A hr' hm' hne' (fun x y h => hb x y h.1) m mx my dx dy
          (fun a ha => hyp2 m a rfl hh ha))
      refine s2.congr (fun x y => ?_)
      constructor
      · rintro ⟨⟨h1, h2⟩, h3⟩
        exact ⟨h1, fun m' e' => by cases e'; exact h2, fun m' a e' _ ha => by cases e'; exact h3 a ha⟩
      · rintro ⟨h1, h2, h3⟩
        exact ⟨⟨h1, h2 m rfl⟩, fun a ha => h3 m a rfl hh ha⟩
    · have e : maskStep (some m) mx my dx dy r = (r, true) := by
        simp only [maskStep, hh, Bool.false_eq_true, if_false]
      rw [e]
      exact outcome_skip hr hm hne (fun x y h =>
        ⟨h, fun m' e' hc => (by cases e'; exact absurd hc.1 hh), fun m' a e' h' => (by cases e'; exact absurd h' hh)⟩)
        (fun x y h => h.1)

theorem destClipStep_outcome (A : RegionAlgebra) {P : Int → Int → Prop} {r : Region}
    (hr : Canon r) (hm : ∀ x y, r.Mem x y ↔ P x y) (hne : ∃ x y, P x y)
    (hb : ∀ x y, P x y → In32 x y) (dest : Image)
    (hyp : dest.haveClip = true → Canon dest.clip ∧ WF32 dest.clip) :
    Outcome (fun x y => P x y ∧ (dest.haveClip = true → dest.clip.Mem x y)) (destClipStep dest r) := by
  have := condClip_outcome A hr hm hne hb dest.haveClip dest.clip 0 0 (fun h => by
    obtain ⟨h1, h2⟩ := hyp h
    refine ⟨h1, h2, fun b hb' => ?_, by rw [c32_min, c32_max]; omega, by rw [c32_min, c32_max]; omega⟩
    have := h2 b hb'
    omega)
  simp only [Int.sub_zero] at this
  exact this

/-- the one-rectangle region `pixman_region32_intersect_rect` builds -/
theorem rectRegion_spec (x0 y0 w h : Int) :
    let e : Box := ⟨x0, y0, x0 + w, y0 + h⟩
    let rr : Region := ⟨e, if (!goodRect e) = true then .emptyStatic else .single⟩
    Canon rr ∧ ∀ x y, rr.Mem x y ↔ InRect x0 y0 w h x y := by
  intro e rr
  by_cases hg : goodRect e = true
  · have e1 : rr = ⟨e, .single⟩ := by simp only [rr, hg, Bool.not_true, Bool.false_eq_true, if_false]
    rw [e1]
    exact ⟨hg, fun x y => by rw [mem_single]; rfl⟩
  · have hg' : goodRect e = false := by cases h' : goodRect e <;> simp_all
    have e1 : rr = ⟨e, .emptyStatic⟩ := by simp only [rr, hg', Bool.not_false, if_true]
    rw [e1]
    refine ⟨trivial, fun x y => ⟨fun hh => absurd hh (not_mem_emptyStatic _ _ _), fun hh => ?_⟩⟩
    exfalso
    apply hg
    rw [goodRect_iff]
    unfold InRect at hh
    show x0 < x0 + w ∧ y0 < y0 + h
    omega

/-- hypotheses for the alpha map of the destination -/
def DestAlphaOK (a : AlphaMap) : Prop :=
  0 ≤ a.img.width ∧ 0 ≤ a.img.height ∧ a.img.width ≤ c32.max ∧ a.img.height ≤ c32.max ∧
  c32.min < a.ox ∧ a.ox + a.img.width ≤ c32.max ∧ c32.min < a.oy ∧ a.oy + a.img.height ≤ c32.max ∧
  (a.img.haveClip = true → ClipOK a.img.clip (-a.ox) (-a.oy))

theorem toUnsigned_cast {v : Int} (h0 : 0 ≤ v) (h1 : v ≤ 2147483647) : ((toUnsigned v : Nat) : Int) = v := by
  unfold toUnsigned
  simp only [Int.reducePow]
  omega

theorem destAlphaStep_outcome (A : RegionAlgebra) {P : Int → Int → Prop} {r : Region}
    (hr : Canon r) (hm : ∀ x y, r.Mem x y ↔ P x y) (hne : ∃ x y, P x y)
    (hb : ∀ x y, P x y → In32 x y) (dest : Image)
    (hyp : ∀ a, dest.alphaMap = some a → DestAlphaOK a) :
    Outcome (fun x y => P x y ∧
        ((∀ a, dest.alphaMap = some a → InRect a.ox a.oy a.img.width a.img.height x y) ∧
         (∀ a, dest.alphaMap = some a → a.img.haveClip = true → a.img.clip.Mem (x + a.ox) (y + a.oy))))
      (destAlphaStep dest r) := by
  cases hal : dest.alphaMap with
  | none =>
    have e : destAlphaStep dest r = (r, true) := by unfold destAlphaStep; rw [hal]
    rw [e]
    exact outcome_skip hr hm hne (fun x y h => ⟨h, ⟨fun a ha => (by cases ha), fun a ha => (by cases ha)⟩⟩)
      (fun x y h => h.1)
  | some a =>
    obtain ⟨w0, h0, w1, h1, ox1, ox2, oy1, oy2, hclip⟩ := hyp a hal
    rw [c32_min] at ox1 oy1
    rw [c32_max] at ox2 oy2 w1 h1
    unfold destAlphaStep
    rw [hal]
    have k1 : wrapS c32.bits a.ox = a.ox := wrap32_id (by omega) (by omega)
    have k2 : wrapS c32.bits a.oy = a.oy := wrap32_id (by omega) (by omega)
    have k3 : wrapS c32.bits (a.ox + a.img.width) = a.ox + a.img.width := wrap32_id (by omega) (by omega)
    have k4 : wrapS c32.bits (a.oy + a.img.height) = a.oy + a.img.height := wrap32_id (by omega) (by omega)
    simp only [intersectRect, toUnsigned_cast w0 w1, toUnsigned_cast h0 h1, k1, k2, k3, k4]
    obtain ⟨crr, mrr⟩ := rectRegion_spec a.ox a.oy a.img.width a.img.height
    generalize (⟨⟨a.ox, a.oy, a.ox + a.img.width, a.oy + a.img.height⟩,
      if (!goodRect ⟨a.ox, a.oy, a.ox + a.img.width, a.oy + a.img.height⟩) = true then Data.emptyStatic
      else Data.single⟩ : Region) = rr at crr mrr
    have iok := A.intersect_ok r rr hr crr
    have ican := A.intersect_canon r rr hr crr
    have imem := A.intersect_mem r rr hr crr
    generalize intersect false r r rr = p at iok ican imem
    simp only [iok, Bool.not_true, Bool.false_eq_true, if_false]
    have final : ∀ x y, (P x y ∧ InRect a.ox a.oy a.img.width a.img.height x y) ∧
          (a.img.haveClip = true → a.img.clip.Mem (x - -a.ox) (y - -a.oy)) ↔
        P x y ∧ ((∀ a', some a = some a' → InRect a'.ox a'.oy a'.img.width a'.img.height x y) ∧
          (∀ a', some a = some a' → a'.img.haveClip = true → a'.img.clip.Mem (x + a'.ox) (y + a'.oy))) := by
      intro x y
      have e1 : x - -a.ox = x + a.ox := by omega
      have e2 : y - -a.oy = y + a.oy := by omega
      rw [e1, e2]
      constructor
      · rintro ⟨⟨h1, h2⟩, h3⟩
        exact ⟨h1, fun a' e' => (by cases e'; exact h2), fun a' e' => (by cases e'; exact h3)⟩
      · rintro ⟨h1, h2, h3⟩
        exact ⟨⟨h1, h2 a rfl⟩, h3 a rfl⟩
    by_cases hne2 : notEmpty p.1 = true
    · simp only [hne2, Bool.not_true, Bool.false_eq_true, if_false]
      have hne3 := (A.notEmpty_iff p.1 ican).1 hne2
      have := condClip_outcome A (P := fun x y => P x y ∧ InRect a.ox a.oy a.img.width a.img.height x y)
        ican (fun x y => by rw [imem, hm, mrr]) (by obtain ⟨x, y, h⟩ := hne3; exact ⟨x, y, by rw [← hm, ← mrr, ← imem]; exact h⟩)
        (fun x y h => hb x y h.1) a.img.haveClip a.img.clip (-a.ox) (-a.oy) hclip
      have w1 : wrap32 (-a.ox) = -a.ox := wrap32_id (by omega) (by omega)
      have w2 : wrap32 (-a.oy) = -a.oy := wrap32_id (by omega) (by omega)
      rw [w1, w2]
      exact this.congr final
    · have hne' : notEmpty p.1 = false := by cases h : notEmpty p.1 <;> simp_all
      simp only [hne', Bool.not_false, if_true]
      refine ⟨fun h => absurd h (by simp), fun h => absurd h (by simp), ?_⟩
      rintro ⟨x, y, h1, h2, _⟩
      exfalso
      apply hne2
      rw [A.notEmpty_iff p.1 ican]
      exact ⟨x, y, by rw [imem, hm, mrr]; exact ⟨h1, h2 a rfl⟩⟩
theorem initialBox_spec (dest : ImageCore) (dx dy w h : Int)
    (hx : c32.min ≤ dx + w ∧ dx + w ≤ c32.max) (hy : c32.min ≤ dy + h ∧ dy + h ≤ c32.max) :
    match initialBox dest dx dy w h with
    | none => ∀ x y, ¬ (InRect dx dy w h x y ∧ InRect 0 0 dest.width dest.height x y)
    | some b => goodRect b = true ∧
        ∀ x y, b.Mem x y ↔ InRect dx dy w h x y ∧ InRect 0 0 dest.width dest.height x y := by
  rw [c32_min, c32_max] at hx hy
  unfold initialBox
  rw [wrap32_id hx.1 hx.2, wrap32_id hy.1 hy.2]
  simp only
  have a1 : ∀ v, (v = if dx > 0 then dx else 0) → (dx ≤ v ∧ 0 ≤ v ∧ (v = dx ∨ v = 0)) := by
    intro v hv; split at hv <;> omega
  have a2 : ∀ v, (v = if dy > 0 then dy else 0) → (dy ≤ v ∧ 0 ≤ v ∧ (v = dy ∨ v = 0)) := by
    intro v hv; split at hv <;> omega
  have a3 : ∀ v, (v = if dx + w < dest.width then dx + w else dest.width) →
      (v ≤ dx + w ∧ v ≤ dest.width ∧ (v = dx + w ∨ v = dest.width)) := by
    intro v hv; split at hv <;> omega
  have a4 : ∀ v, (v = if dy + h < dest.height then dy + h else dest.height) →
      (v ≤ dy + h ∧ v ≤ dest.height ∧ (v = dy + h ∨ v = dest.height)) := by
    intro v hv; split at hv <;> omega
  generalize h1 : (if dx > 0 then dx else 0) = X1
  generalize h2 : (if dy > 0 then dy else 0) = Y1
  generalize h3 : (if dx + w < dest.width then dx + w else dest.width) = X2
  generalize h4 : (if dy + h < dest.height then dy + h else dest.height) = Y2
  have b1 := a1 X1 h1.symm
  have b2 := a2 Y1 h2.symm
  have b3 := a3 X2 h3.symm
  have b4 := a4 Y2 h4.symm
  clear a1 a2 a3 a4 h1 h2 h3 h4
  by_cases hd : (decide (X1 ≥ X2) || decide (Y1 ≥ Y2)) = true
  · rw [if_pos hd]
    simp only [Bool.or_eq_true, decide_eq_true_eq, ge_iff_le] at hd
    intro x y
    unfold InRect
    omega
  · rw [if_neg hd]
    simp only [Bool.or_eq_true, decide_eq_true_eq, ge_iff_le, not_or, Int.not_le] at hd
    refine ⟨by rw [goodRect_iff]; exact hd, fun x y => ?_⟩
    rw [box_mem_iff]
    unfold InRect
    simp only
    omega

/-- The range in which the `int` arithmetic of the C code is exact, and the well-formedness of
    the clip regions involved (canonical, `int32_t` coordinates). -/
structure RangeOK (src : Image) (mask : Option Image) (dest : Image)
    (sx sy mx my dx dy w h : Int) : Prop where
  dest_w : dest.width ≤ c32.max
  dest_h : dest.height ≤ c32.max
  req_x : c32.min ≤ dx + w ∧ dx + w ≤ c32.max
  req_y : c32.min ≤ dy + h ∧ dy + h ≤ c32.max
  dest_clip : dest.haveClip = true → Canon dest.clip ∧ WF32 dest.clip
  dest_alpha : ∀ a, dest.alphaMap = some a → DestAlphaOK a
  src_clip : src.clipApplies → ClipOK src.clip (dx - sx) (dy - sy)
  src_alpha : ∀ a, src.alphaMap = some a → AlphaOK a sx sy dx dy
  mask_clip : ∀ m, mask = some m → m.clipApplies → ClipOK m.clip (dx - mx) (dy - my)
  mask_alpha : ∀ m a, mask = some m → m.haveClip = true → m.alphaMap = some a → AlphaOK a mx my dx dy

theorem compute_outcome (A : RegionAlgebra) {src : Image} {mask : Option Image} {dest : Image}
    {sx sy mx my dx dy w h : Int} (H : RangeOK src mask dest sx sy mx my dx dy w h) :
    Outcome (RCode src mask dest sx sy mx my dx dy w h)
      (computeCompositeRegion32 src mask dest sx sy mx my dx dy w h) := by
  unfold computeCompositeRegion32
  have ib := initialBox_spec dest.toImageCore dx dy w h H.req_x H.req_y
  cases hib : initialBox dest.toImageCore dx dy w h with
  | none =>
    rw [hib] at ib
    simp only
    refine ⟨fun h => absurd h (by simp), fun h => absurd h (by simp), ?_⟩
    rintro ⟨x, y, hr, _⟩
    exact absurd ⟨hr.1, hr.2.1⟩ (ib x y)
  | some b =>
    rw [hib] at ib
    simp only at ib ⊢
    obtain ⟨gb, mb⟩ := ib
    -- the running point set
    let P0 : Int → Int → Prop := fun x y => InRect dx dy w h x y ∧ InRect 0 0 dest.width dest.height x y
    have hb0 : ∀ x y, P0 x y → In32 x y := by
      intro x y hp
      have h1 := H.dest_w; have h2 := H.dest_h
      rw [c32_max] at h1 h2
      have := hp.2
      unfold InRect at this
      unfold In32
      rw [c32_min, c32_max]
      omega
    have hr0 : Canon (⟨b, .single⟩ : Region) := gb
    have hm0 : ∀ x y, (⟨b, .single⟩ : Region).Mem x y ↔ P0 x y := fun x y => by rw [mem_single]; exact mb x y
    have hne0 : ∃ x y, P0 x y := by
      rw [goodRect_iff] at gb
      exact ⟨b.x1, b.y1, (mb _ _).1 (by rw [box_mem_iff]; omega)⟩
    have s1 := destClipStep_outcome A hr0 hm0 hne0 hb0 dest H.dest_clip
    have s2 := andThen_outcome s1 (fun r hr hm hne =>
      destAlphaStep_outcome A hr hm hne (fun x y h => hb0 x y h.1) dest H.dest_alpha)
    have s3 := andThen_outcome s2 (fun r hr hm hne =>
      srcStep_outcome A hr hm hne (fun x y h => hb0 x y h.1.1) src sx sy dx dy H.src_clip)
    have s4 := andThen_outcome s3 (fun r hr hm hne =>
      srcAlphaStep_outcome A hr hm hne (fun x y h => hb0 x y h.1.1.1) src sx sy dx dy H.src_alpha)
    have s5 := andThen_outcome s4 (fun r hr hm hne =>
      maskStep_outcome A hr hm hne (fun x y h => hb0 x y h.1.1.1.1) mask mx my dx dy H.mask_clip H.mask_alpha)
    refine s5.congr (fun x y => ?_)
    unfold RCode R AlphaClips
    constructor
    · rintro ⟨⟨⟨⟨⟨⟨h1, h2⟩, h3⟩, h4, h5⟩, h6⟩, h7⟩, h8, h9⟩
      exact ⟨⟨h1, h2, h3, h4, h6, h8⟩, h5, h7, h9⟩
    · rintro ⟨⟨h1, h2, h3, h4, h6, h8⟩, h5, h7, h9⟩
      exact ⟨⟨⟨⟨⟨⟨h1, h2⟩, h3⟩, h4, h5⟩, h6⟩, h7⟩, h8, h9⟩
theorem wrap32_sub_wrap32 (a b : Int) (h1 : -2147483648 ≤ a - b) (h2 : a - b ≤ 2147483647) :
    wrap32 (wrap32 a - b) = a - b := by
  unfold wrap32 wrapS
  simp only [Int.reducePow]
  omega

/-- the rectangles of a composite region lie inside the destination: non-negative `int32_t` -/
def BoxesIn32 (r : Region) : Prop :=
  ∀ b ∈ r.rects, 0 ≤ b.x1 ∧ b.x1 ≤ b.x2 ∧ b.x2 ≤ c32.max ∧ 0 ≤ b.y1 ∧ b.y1 ≤ b.y2 ∧ b.y2 ≤ c32.max

end Pixman.CompositeRegion

import Pixman.Model.Simd
import Pixman.Lemmas.Lanes
/-! Lane lemmas for the SSE2/MMX kernels: the `mulhi` rounding trick, negate, saturating byte add,
`packus`, and the closed forms of `over` / `in_over` / `pix_add_multiply`. -/
namespace Pixman.Lemmas.Simd
open Pixman.Model.Simd Pixman.Spec Pixman.Lemmas

/-- `((ab + 128) * 257) >> 16` is `ab/255` rounded to nearest -/
theorem pixMultiply1_eq_rnd (x a : Nat) (hx : x ≤ 255) (ha : a ≤ 255) : Sse2.pixMultiply1 x a = rnd x a := by
  unfold Sse2.pixMultiply1 mulhiU16 addsU16 mullo16 rnd
  have h : x * a ≤ 255 * 255 := Nat.mul_le_mul hx ha
  generalize x * a = p at h ⊢
  have e1 : p % 65536 = p := Nat.mod_eq_of_lt (by omega)
  rw [e1]
  have e2 : ¬ (p + 128 > 65535) := by omega
  simp only [e2, if_false]
  omega

theorem mmx_pixMultiply1_eq (x a : Nat) : Mmx.pixMultiply1 x a = Sse2.pixMultiply1 x a := rfl

theorem pixMultiply1_le (x a : Nat) (hx : x ≤ 255) (ha : a ≤ 255) : Sse2.pixMultiply1 x a ≤ 255 := by
  rw [pixMultiply1_eq_rnd x a hx ha]; exact rnd_le x a hx ha

set_option maxRecDepth 20000 in
theorem xor00ff_eq : ∀ a, a < 256 → xor00ff a = 255 - a := by decide

theorem xor00ff_le (a : Nat) (ha : a ≤ 255) : xor00ff a ≤ 255 := by
  rw [xor00ff_eq a (by omega)]; omega

theorem addsU8lane_bytes (x y : Nat) (hx : x ≤ 255) (hy : y ≤ 255) : addsU8lane x y = sat x y := by
  unfold addsU8lane addsU8 sat
  have e1 : x / 256 % 256 = 0 := by omega
  have e2 : y / 256 % 256 = 0 := by omega
  have e3 : x % 256 = x := by omega
  have e4 : y % 256 = y := by omega
  rw [e1, e2, e3, e4]
  have e5 : (if 0 + 0 > 255 then 255 else 0 + 0) = 0 := by decide
  rw [e5]
  by_cases h : x + y > 255
  · simp only [h, if_true]; omega
  · simp only [h, if_false]; omega

theorem packus_byte (x : Nat) (hx : x ≤ 255) : packus x = x := by
  unfold packus
  have e : x % 65536 = x := by omega
  rw [e]
  have h1 : ¬ (x ≥ 32768) := by omega
  have h2 : ¬ (x > 255) := by omega
  simp only [h1, h2, if_false]

theorem packus_sat (x : Nat) (hx : x < 32768) : packus x = min 255 x := by
  unfold packus
  have e : x % 65536 = x := by omega
  rw [e]
  have h1 : ¬ (x ≥ 32768) := by omega
  simp only [h1, if_false]
  split <;> omega

theorem packus_neg (x : Nat) (h1 : 32768 ≤ x) (h2 : x < 65536) : packus x = 0 := by
  unfold packus
  have e : x % 65536 = x := by omega
  rw [e]
  simp only [ge_iff_le, h1, if_true]

/-- one lane of `over`: `min 255 (s + rnd d (255 - a))` -/
theorem over_lane (s a d : Nat) (hs : s ≤ 255) (ha : a ≤ 255) (hd : d ≤ 255) :
    addsU8lane s (Sse2.pixMultiply1 d (xor00ff a)) = sat (rnd d (255 - a)) s := by
  rw [xor00ff_eq a (by omega), addsU8lane_bytes s _ hs (pixMultiply1_le d _ hd (by omega)),
    pixMultiply1_eq_rnd d _ hd (by omega)]
  unfold sat; omega

/-- one lane of `pix_add_multiply` -/
theorem addmul_lane (s ad d as : Nat) (hs : s ≤ 255) (had : ad ≤ 255) (hd : d ≤ 255) (has : as ≤ 255) :
    addsU8lane (Sse2.pixMultiply1 s ad) (Sse2.pixMultiply1 d as) = sat (rnd s ad) (rnd d as) := by
  rw [addsU8lane_bytes _ _ (pixMultiply1_le s ad hs had) (pixMultiply1_le d as hd has),
    pixMultiply1_eq_rnd s ad hs had, pixMultiply1_eq_rnd d as hd has]

theorem unpack32_b (p : Nat) : (unpack32 p).b = cB p := rfl
theorem unpack32_g (p : Nat) : (unpack32 p).g = cG p := rfl
theorem unpack32_r (p : Nat) : (unpack32 p).r = cR p := rfl
theorem unpack32_a (p : Nat) : (unpack32 p).a = cA p := rfl

theorem pack32_bytes (b g r a : Nat) (hb : b ≤ 255) (hg : g ≤ 255) (hr : r ≤ 255) (ha : a ≤ 255) :
    pack32 ⟨b, g, r, a⟩ = pack4 a r g b := by
  unfold pack32 pack4
  simp only [packus_byte b hb, packus_byte g hg, packus_byte r hr, packus_byte a ha]
  omega

end Pixman.Lemmas.Simd

import Pixman.Model.Fetch
import Pixman.Spec.Sampling
import Pixman.Props.C04Core
/-! Helper lemmas for C08: taps, positions of the scanline loops. -/
namespace Pixman.Lemmas.Fetch
open Pixman.Sample Pixman.Matrix Pixman.Model.Fetch Pixman.Spec.Fixed
open Pixman.Spec.Sampling (Mode mapCoord pixelAt)

/-- the Spec's name of a repeat mode -/
def specMode : RepeatMode → Mode
  | .none => .none | .normal => .normal | .pad => .pad | .reflect => .reflect

theorem repeat_eq_mapCoord (mode : RepeatMode) (c size : Int) (hs : 0 < size) :
    «repeat» mode c size = mapCoord (specMode mode) c size := by
  cases mode
  · exact Pixman.Props.C04Core.repeat_none c size
  · exact Pixman.Props.C04Core.repeat_normal_spec c size hs
  · exact Pixman.Props.C04Core.repeat_pad_spec c size
  · exact Pixman.Props.C04Core.repeat_reflect_spec c size hs

/-- every tap of every filter reads the pixel the Spec's repeat semantics denotes -/
theorem tap_eq_pixelAt (b : Bits) (x y : Int) (hw : 0 < b.width) (hh : 0 < b.height) :
    tap b x y = pixelAt (specMode b.rep) b.width b.height b.fetch x y := by
  unfold tap pixelAt
  by_cases hr : b.rep = .none
  · simp only [hr, ne_eq, not_true_eq_false, ↓reduceIte, specMode, mapCoord, getPixel]
    by_cases hx : 0 ≤ x ∧ x < b.width <;> by_cases hy : 0 ≤ y ∧ y < b.height
    · have : ¬ (x < 0 ∨ x ≥ b.width ∨ y < 0 ∨ y ≥ b.height) := by omega
      simp [hx, hy, this]
    · have : (x < 0 ∨ x ≥ b.width ∨ y < 0 ∨ y ≥ b.height) := by omega
      simp [hx, hy, this]
    · have : (x < 0 ∨ x ≥ b.width ∨ y < 0 ∨ y ≥ b.height) := by omega
      simp [hx, hy, this]
    · have : (x < 0 ∨ x ≥ b.width ∨ y < 0 ∨ y ≥ b.height) := by omega
      simp [hx, hy, this]
  · obtain ⟨rx, ex, _⟩ := Pixman.Props.C04Core.repeat_in_range b.rep x b.width hw hr
    obtain ⟨ry, ey, _⟩ := Pixman.Props.C04Core.repeat_in_range b.rep y b.height hh hr
    have mx := repeat_eq_mapCoord b.rep x b.width hw
    have my := repeat_eq_mapCoord b.rep y b.height hh
    simp only [ne_eq, hr, not_false_eq_true, ↓reduceIte, getPixel, repeatCoord]
    rw [← mx, ← my]
    simp [ex, ey]

/-! ### the scanline loops visit `stepped` coordinates -/

theorem affineLoop_eq (b : Bits) (ux uy : Int) (n : Nat) (x y : Int) :
    affineLoop b ux uy n x y =
      (List.range n).map fun i => fetchFiltered b (stepped x ux i) (stepped y uy i) := by
  induction n generalizing x y with
  | zero => simp [affineLoop]
  | succ m ih =>
    have hs : ∀ (x0 u : Int) (i : Nat), stepped (wrapS32 (x0 + u)) u i = stepped x0 u (i + 1) := by
      intro x0 u i
      induction i with
      | zero => simp [stepped]
      | succ k ihk => simp only [stepped] at ihk ⊢; rw [ihk]
    rw [affineLoop, ih, List.range_succ_eq_map, List.map_cons, List.map_map]
    congr 1
    apply List.map_congr_left
    intro i _
    simp only [Function.comp, hs]

theorem generalLoop_eq (b : Bits) (ux uy uw : Int) (n : Nat) (x y w : Int) :
    generalLoop b ux uy uw n x y w =
      (List.range n).map fun i =>
        fetchFiltered b (divW (stepped x ux i) (stepped w uw i)) (divW (stepped y uy i) (stepped w uw i)) := by
  induction n generalizing x y w with
  | zero => simp [generalLoop]
  | succ m ih =>
    have hs : ∀ (x0 u : Int) (i : Nat), stepped (wrapS32 (x0 + u)) u i = stepped x0 u (i + 1) := by
      intro x0 u i
      induction i with
      | zero => simp [stepped]
      | succ k ihk => simp only [stepped] at ihk ⊢; rw [ihk]
    rw [generalLoop, ih, List.range_succ_eq_map, List.map_cons, List.map_map]
    congr 1
    apply List.map_congr_left
    intro i _
    simp only [Function.comp, hs]

end Pixman.Lemmas.Fetch

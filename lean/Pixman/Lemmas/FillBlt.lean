import Pixman.Lemmas.FillPattern
/-! Executing a SIMD blt row program: bit-level result of the chunked copies. -/
namespace Pixman.Lemmas.FillBlt
open Pixman.Model.Fill Pixman.Lemmas.Fill Pixman.Lemmas.FillSimd Pixman.Lemmas.FillPattern

theorem byte_testBit (m : Mem) (a : Int) (j : Nat) (hj : j < 8) :
    (m.byte a).testBit j = m.bit (a * 8 + j) := by
  unfold Mem.byte Mem.bit
  have e : (256 : Nat) = 2 ^ 8 := by decide
  rw [e, Nat.testBit_mod_two_pow, Nat.testBit_shiftRight]
  have h1 : (a * 8 + (j : Int)) / 32 = a / 4 := by omega
  have h2 : ((a * 8 + (j : Int)) % 32).toNat = 8 * (a % 4).toNat + j := by omega
  rw [h1, h2]
  simp [hj]

/-- a copy of `n` bytes to `a` from `a + delta` -/
theorem copyBytes_bit (src : Mem) (delta a : Int) (n : Nat) (m : Mem) (i : Int) :
    (copyBytes src delta a n m).bit i =
      if a ≤ i / 8 ∧ i / 8 < a + n then src.bit (i + 8 * delta) else m.bit i := by
  induction n with
  | zero => rw [copyBytes, if_neg (by omega)]
  | succ n ih =>
    rw [copyBytes, store8_bit, ih]
    by_cases h : i / 8 = a + n
    · rw [if_pos h, if_pos (by omega), byte_testBit _ _ _ (by omega)]
      congr 1; omega
    · rw [if_neg h]
      by_cases h2 : a ≤ i / 8 ∧ i / 8 < a + n
      · rw [if_pos h2, if_pos (by omega)]
      · rw [if_neg h2, if_neg (by omega)]

/-- executing a tiling of `[a, b)`: exactly those bytes are copied -/
theorem execCopy_bit (src : Mem) (delta : Int) (i : Int) :
    ∀ (l : List Store) (a b : Int) (m : Mem), Tiles a l b →
      (execCopy src delta l m).bit i =
        if a ≤ i / 8 ∧ i / 8 < b then src.bit (i + 8 * delta) else m.bit i := by
  intro l
  induction l with
  | nil =>
    intro a b m ht
    simp only [Tiles] at ht
    rw [execCopy, if_neg (by omega)]
  | cons st rest ih =>
    intro a b m ht
    obtain ⟨h1, h2, h3⟩ := ht
    have hle := tiles_le _ _ _ h3
    rw [execCopy, ih (a + st.size) b _ h3, h1, copyBytes_bit]
    by_cases c1 : a + (st.size : Int) ≤ i / 8 ∧ i / 8 < b
    · rw [if_pos c1, if_pos (by omega)]
    · rw [if_neg c1]
      by_cases c2 : a ≤ i / 8 ∧ i / 8 < a + st.size
      · rw [if_pos c2, if_pos (by omega)]
      · rw [if_neg c2, if_neg (by omega)]

/-- the row loop of a blt: bytes outside every destination row are untouched; a byte of
destination row `r` that no later row covers holds the byte of source row `r` -/
theorem bltRows_bit (rowProg : Int → Int → Nat → List Store) (al : Int) (src : Mem) (W : Nat)
    (sstr dstr : Int)
    (hT : ∀ d : Int, (2 : Int) ∣ d → Tiles d (rowProg al d W) (d + W)) (hds : (2 : Int) ∣ dstr)
    (i : Int) :
    ∀ (h : Nat) (m : Mem) (s d : Int), (2 : Int) ∣ d →
      ((¬ ∃ r : Nat, r < h ∧ d + r * dstr ≤ i / 8 ∧ i / 8 < d + r * dstr + W) →
        (bltRows rowProg al src W sstr dstr h m s d).bit i = m.bit i) ∧
      (∀ r : Nat, r < h → (d + r * dstr ≤ i / 8 ∧ i / 8 < d + r * dstr + W) →
        (∀ r' : Nat, r < r' → r' < h → ¬ (d + r' * dstr ≤ i / 8 ∧ i / 8 < d + r' * dstr + W)) →
        (bltRows rowProg al src W sstr dstr h m s d).bit i =
          src.bit (i + 8 * ((s + r * sstr) - (d + r * dstr)))) := by
  intro h
  induction h with
  | zero =>
    intro m s d _
    exact ⟨fun _ => rfl, fun r hr => absurd hr (by omega)⟩
  | succ h ih =>
    intro m s d hd
    have ed : ∀ r : Nat, d + ((r + 1 : Nat) : Int) * dstr = d + dstr + r * dstr := by intro r; grind
    have es : ∀ r : Nat, s + ((r + 1 : Nat) : Int) * sstr = s + sstr + r * sstr := by intro r; grind
    have e0 : d + ((0 : Nat) : Int) * dstr = d := by simp
    have e0s : s + ((0 : Nat) : Int) * sstr = s := by simp
    obtain ⟨ih1, ih2⟩ := ih (execCopy src (s - d) (rowProg al d W) m) (s + sstr) (d + dstr)
      (Int.dvd_add hd hds)
    have hrow := execCopy_bit src (s - d) i (rowProg al d W) d (d + W) m (hT d hd)
    constructor
    · intro hn
      show (bltRows rowProg al src W sstr dstr h _ (s + sstr) (d + dstr)).bit i = m.bit i
      rw [ih1 (by
        rintro ⟨r, hr, hc⟩
        exact hn ⟨r + 1, by omega, by rw [ed r]; exact hc⟩), hrow, if_neg]
      intro hc
      exact hn ⟨0, by omega, by rw [e0]; exact hc⟩
    · intro r hr hc hlater
      show (bltRows rowProg al src W sstr dstr h _ (s + sstr) (d + dstr)).bit i = _
      cases r with
      | zero =>
        rw [e0] at hc
        rw [ih1 (by
          rintro ⟨r', hr', hc'⟩
          exact hlater (r' + 1) (by omega) (by omega) (by rw [ed r']; exact hc')), hrow, if_pos hc,
          e0, e0s]
      | succ r0 =>
        rw [ed r0] at hc
        rw [ih2 r0 (by omega) hc (by
          intro r' h1 h2 hc'
          exact hlater (r' + 1) (by omega) (by omega) (by rw [ed r']; exact hc')), ed r0, es r0]

end Pixman.Lemmas.FillBlt

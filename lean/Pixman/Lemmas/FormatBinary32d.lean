import Pixman.Lemmas.FormatBinary32c
/-! The bridge from the bit patterns of the binary32 model to rational values (C10): the value `toRat` of
`unorm_to_float (u, n)` is within a relative `2^-23` (one unit in the last place) of `u / (2^n - 1)` and strictly
increasing in `u` — for the widths that occur in pixel formats (1..8 and 10).  Rational arithmetic in the kernel is
slower than the natural-number tables, hence the restriction; the natural-number form of the same bound is proved
for every width 1..11 (`facts`). -/
namespace Pixman.Lemmas.Binary32
open Pixman.Model.Format Pixman.Model.Binary32

def ratChk (n u : Nat) : Bool :=
  let x := toRat (unormToFloat32 u n)
  let q := (u : Rat) / (((2 ^ n - 1 : Nat)) : Rat)
  decide ((x - q) * 8388608 ≤ q ∧ (q - x) * 8388608 ≤ q ∧ (u + 1 < 2 ^ n → x < toRat (unormToFloat32 (u + 1) n)))

theorem ratSmall1 : allPow (ratChk 1) 1 0 = true := by decide +kernel
theorem ratSmall2 : allPow (ratChk 2) 2 0 = true := by decide +kernel
theorem ratSmall3 : allPow (ratChk 3) 3 0 = true := by decide +kernel
theorem ratSmall4 : allPow (ratChk 4) 4 0 = true := by decide +kernel
theorem ratSmall5 : allPow (ratChk 5) 5 0 = true := by decide +kernel
theorem ratSmall6 : allPow (ratChk 6) 6 0 = true := by decide +kernel
theorem ratSmall7 : allPow (ratChk 7) 7 0 = true := by decide +kernel
theorem ratSmall8 : allPow (ratChk 8) 8 0 = true := by decide +kernel
theorem ratBlock10_0 : allPow (ratChk 10) 8 (256 * 0) = true := by decide +kernel
theorem ratBlock10_1 : allPow (ratChk 10) 8 (256 * 1) = true := by decide +kernel
theorem ratBlock10_2 : allPow (ratChk 10) 8 (256 * 2) = true := by decide +kernel
theorem ratBlock10_3 : allPow (ratChk 10) 8 (256 * 3) = true := by decide +kernel

theorem ratFacts (n u : Nat) (hn : (1 ≤ n ∧ n ≤ 8) ∨ n = 10) (hu : u < 2 ^ n) : ratChk n u = true := by
  have h : n = 1 ∨ n = 2 ∨ n = 3 ∨ n = 4 ∨ n = 5 ∨ n = 6 ∨ n = 7 ∨ n = 8 ∨ n = 10 := by omega
  rcases h with h | h | h | h | h | h | h | h | h <;> subst h
  · exact allPow_spec _ 1 0 ratSmall1 u (Nat.zero_le _) (by simpa using hu)
  · exact allPow_spec _ 2 0 ratSmall2 u (Nat.zero_le _) (by simpa using hu)
  · exact allPow_spec _ 3 0 ratSmall3 u (Nat.zero_le _) (by simpa using hu)
  · exact allPow_spec _ 4 0 ratSmall4 u (Nat.zero_le _) (by simpa using hu)
  · exact allPow_spec _ 5 0 ratSmall5 u (Nat.zero_le _) (by simpa using hu)
  · exact allPow_spec _ 6 0 ratSmall6 u (Nat.zero_le _) (by simpa using hu)
  · exact allPow_spec _ 7 0 ratSmall7 u (Nat.zero_le _) (by simpa using hu)
  · exact allPow_spec _ 8 0 ratSmall8 u (Nat.zero_le _) (by simpa using hu)
  · simp only [Nat.reducePow] at hu
    have hj : (256 * 0 ≤ u ∧ u < 256 * 0 + 256) ∨ (256 * 1 ≤ u ∧ u < 256 * 1 + 256) ∨ (256 * 2 ≤ u ∧ u < 256 * 2 + 256) ∨
        (256 * 3 ≤ u ∧ u < 256 * 3 + 256) := by omega
    rcases hj with h | h | h | h
    · exact allPow_spec _ 8 _ ratBlock10_0 u h.1 (by simpa using h.2)
    · exact allPow_spec _ 8 _ ratBlock10_1 u h.1 (by simpa using h.2)
    · exact allPow_spec _ 8 _ ratBlock10_2 u h.1 (by simpa using h.2)
    · exact allPow_spec _ 8 _ ratBlock10_3 u h.1 (by simpa using h.2)

end Pixman.Lemmas.Binary32

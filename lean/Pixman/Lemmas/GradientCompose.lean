import Pixman.Model.Gradient
import Pixman.Spec.Gradient
import Pixman.Lemmas.GradientSafety
import Pixman.Lemmas.GradientWalker
/-! G2 composition: for non-decreasing stop positions in [0, 1] the colour painted after a fresh stop
    search at `pos` is `Spec.colourAt` at `pos / 65536`, for every repeat mode.

    Hard-edge convention (what the code does, and what the Spec says): after folding the parameter
    by the repeat mode, segments are LEFT-CLOSED in the folded parameter `u`: `u = stop position`
    belongs to the segment starting there (`x < stops[n].x` ends the search).  In the mirrored periods
    of REFLECT (`u = 2 - f`) this makes them RIGHT-CLOSED in the unfolded parameter — the fresh search
    of the code does exactly that, and so does `Spec.fold` followed by `leftOf/rightOf`.  (The segment
    CACHE of the walker is left-closed in the unfolded parameter everywhere; that history dependence at
    hard edges in mirrored periods is outside this theorem, which is about `walkerReset` at `pos`.) -/
namespace Pixman.Model.Gradient
open Pixman.Matrix (wrapS32)

/-! ### arithmetic helpers -/

theorem floor_div_pow (p : Int) (k : Int) (hk : 0 < k) : ((p : Rat) / (k : Rat)).floor = p / k := by
  have hk' : (0 : Rat) < (k : Rat) := by exact_mod_cast hk
  apply Int.le_antisymm
  · have : ((p : Rat) / (k : Rat)).floor < p / k + 1 := by
      rw [Rat.floor_lt_iff]
      have h1 : p < (p / k + 1) * k := Int.lt_ediv_add_one_mul_self p hk
      have h2 : (p : Rat) < ((p / k + 1 : Int) : Rat) * (k : Rat) := by exact_mod_cast h1
      rw [Rat.div_lt_iff hk']
      exact h2
    omega
  · rw [Rat.le_floor_iff]
    have h1 : p / k * k ≤ p := Int.ediv_mul_le p (by omega)
    have h2 : ((p / k : Int) : Rat) * (k : Rat) ≤ (p : Rat) := by exact_mod_cast h1
    rw [← Rat.not_lt, Rat.div_lt_iff hk', Rat.not_lt]
    exact h2

theorem floor_div_lit (p : Int) (k : Int) (hk : 0 < k) (kq : Rat) (hkq : kq = (k : Rat)) : ((p : Rat) / kq).floor = p / k := by
  subst hkq; exact floor_div_pow p k hk

theorem lo16_wrap (p : Int) : lo16 (wrapS32 p) = p % 65536 := by unfold lo16 wrapS32; omega
theorem bit16_wrap (p : Int) : bit16 (wrapS32 p) = ((p / 65536) % 2 == 1) := by
  unfold bit16 wrapS32
  have : ((p + 2147483648) % 4294967296 - 2147483648) / 65536 % 2 = p / 65536 % 2 := by omega
  rw [this]

theorem fold_normal (pos : Int) :
    S.fold .normal ((pos : Rat) / 65536) = ((foldPos .normal pos : Int) : Rat) / 65536 := by
  have hf := floor_div_lit pos 65536 (by decide) 65536 (by rfl)
  simp only [S.fold, Pixman.Spec.Gradient.fold, foldPos, lo16_wrap, hf]
  have hm : pos % 65536 = pos - 65536 * (pos / 65536) := by omega
  rw [hm]
  simp only [Rat.intCast_sub, Rat.intCast_mul]
  have : ((65536 : Int) : Rat) = 65536 := by rfl
  rw [this]
  grind

theorem fold_reflect (pos : Int) :
    S.fold .reflect ((pos : Rat) / 65536) = ((foldPos .reflect pos : Int) : Rat) / 65536 := by
  have e2 : (pos : Rat) / 65536 / 2 = (pos : Rat) / 131072 := by grind
  have hf := floor_div_lit pos 131072 (by decide) 131072 (by rfl)
  simp only [S.fold, Pixman.Spec.Gradient.fold, foldPos, lo16_wrap, bit16_wrap, e2, hf]
  have hq : pos / 131072 = (pos / 65536) / 2 := by omega
  have hdecomp : pos = 131072 * (pos / 131072) + 65536 * ((pos / 65536) % 2) + pos % 65536 := by omega
  have hb : (pos / 65536) % 2 = 0 ∨ (pos / 65536) % 2 = 1 := by omega
  have hlo : 0 ≤ pos % 65536 ∧ pos % 65536 < 65536 := by omega
  generalize pos / 131072 = q at *
  generalize pos % 65536 = lo at *
  have hc : (pos : Rat) = 131072 * (q : Rat) + 65536 * (((pos / 65536) % 2 : Int) : Rat) + (lo : Rat) := by
    have := congrArg (fun z : Int => (z : Rat)) hdecomp
    simp only [Rat.intCast_add, Rat.intCast_mul] at this
    have h1 : ((131072 : Int) : Rat) = 131072 := by rfl
    have h2 : ((65536 : Int) : Rat) = 65536 := by rfl
    rw [h1, h2] at this
    exact this
  have hlo0 : (0 : Rat) ≤ (lo : Rat) := by exact_mod_cast hlo.1
  have hlo1 : (lo : Rat) < 65536 := by
    have : (lo : Rat) < ((65536 : Int) : Rat) := Rat.intCast_lt_intCast.mpr hlo.2
    exact this
  rcases hb with hb | hb
  · rw [hb] at hc ⊢
    simp only [show ((0 : Int) == 1) = false from rfl]
    have hfle : (pos : Rat) / 65536 - 2 * (q : Rat) ≤ 1 := by
      rw [hc]; simp; grind
    simp only [hfle, if_true]
    rw [hc]; simp; grind
  · rw [hb] at hc ⊢
    simp only [show ((1 : Int) == 1) = true from rfl, if_true]
    by_cases hz : lo = 0
    · subst hz
      have hfle : (pos : Rat) / 65536 - 2 * (q : Rat) ≤ 1 := by
        rw [hc]; simp; grind
      simp only [hfle, if_true]
      rw [hc]; simp; grind
    · have hpos : (0 : Rat) < (lo : Rat) := by
        have : 0 < lo := by omega
        exact_mod_cast this
      have hfgt : ¬ ((pos : Rat) / 65536 - 2 * (q : Rat) ≤ 1) := by
        rw [hc]; simp; grind
      simp only [hfgt, if_false]
      rw [hc]; simp only [Rat.intCast_sub]; simp; grind
theorem ext_mid (rep : Repeat) (stops : Array Stop) (k : Nat) (hk : k < stops.size) :
    (extStops rep stops)[k + 1]? = some (stops.getD k default) := by
  simp [extStops, Array.getElem?_append, Array.getD_eq_getD_getElem?, hk]
  rw [Array.getElem?_push_lt hk]

theorem ext_first (rep : Repeat) (stops : Array Stop) :
    (extStops rep stops)[0]? = some (sentinels rep stops).1 := by
  simp [extStops, Array.getElem?_append]

theorem ext_last (rep : Repeat) (stops : Array Stop) :
    (extStops rep stops)[stops.size + 1]? = some (sentinels rep stops).2 := by
  simp [extStops, Array.getElem?_append]

theorem filter_eq_take {α} (p : α → Bool) : ∀ (L : List α) (n : Nat),
    (∀ k s, k < n → L[k]? = some s → p s = true) → (∀ k s, n ≤ k → L[k]? = some s → p s = false) →
    L.filter p = L.take n
  | [], n, _, _ => by simp
  | a :: t, 0, _, h2 => by
    simp only [List.take_zero, List.filter_eq_nil_iff]
    intro s hs
    obtain ⟨k, hk⟩ := List.getElem?_of_mem hs
    simp [h2 k s (Nat.zero_le _) hk]
  | a :: t, n + 1, h1, h2 => by
    have ha : p a = true := h1 0 a (by omega) rfl
    simp only [List.filter_cons, ha, if_true, List.take_succ_cons]
    congr 1
    apply filter_eq_take p t n
    · intro k s hk hs; exact h1 (k + 1) s (by omega) (by simpa using hs)
    · intro k s hk hs; exact h2 (k + 1) s (by omega) (by simpa using hs)

theorem filter_eq_drop {α} (p : α → Bool) : ∀ (L : List α) (n : Nat),
    (∀ k s, k < n → L[k]? = some s → p s = false) → (∀ k s, n ≤ k → L[k]? = some s → p s = true) →
    L.filter p = L.drop n
  | [], n, _, _ => by simp
  | a :: t, 0, _, h2 => by
    simp only [List.drop_zero, List.filter_eq_self]
    intro s hs
    obtain ⟨k, hk⟩ := List.getElem?_of_mem hs
    exact h2 k s (Nat.zero_le _) hk
  | a :: t, n + 1, h1, h2 => by
    have ha : p a = false := h1 0 a (by omega) rfl
    simp only [List.filter_cons, ha, List.drop_succ_cons]
    apply filter_eq_drop p t n
    · intro k s hk hs; exact h1 (k + 1) s (by omega) (by simpa using hs)
    · intro k s hk hs; exact h2 (k + 1) s (by omega) (by simpa using hs)

/-! ### the stop list of the model as the Spec sees it -/

/-- non-decreasing positions within `[0, 1]` (16.16), at least one stop -/
structure WellFormed (stops : Array Stop) : Prop where
  nonempty : 0 < stops.size
  sorted : ∀ i j, i ≤ j → j < stops.size → (stops.getD i default).x ≤ (stops.getD j default).x
  lo : ∀ i, i < stops.size → 0 ≤ (stops.getD i default).x
  hi : ∀ i, i < stops.size → (stops.getD i default).x ≤ 65536

def nc (c : Color) : S.NColor := ⟨(c.a : Rat) / 65535, (c.r : Rat) / 65535, (c.g : Rat) / 65535, (c.b : Rat) / 65535⟩
def toSpec (s : Stop) : S.Stop := ⟨(s.x : Rat) / 65536, nc s.c⟩
def specStops (stops : Array Stop) : List S.Stop := stops.toList.map toSpec
def toP (c : ColorQ) : S.PColor := ⟨c.a, c.r, c.g, c.b⟩
def toSpecRep : Repeat → S.Repeat
  | .none => .none | .normal => .normal | .pad => .pad | .reflect => .reflect

theorem px_lt (a b : Int) : (a : Rat) / 65536 < (b : Rat) / 65536 ↔ a < b := by
  rw [Rat.div_lt_iff (by decide)]
  have : (b : Rat) / 65536 * 65536 = (b : Rat) := by grind
  rw [this]; exact Rat.intCast_lt_intCast

theorem px_le (a b : Int) : (a : Rat) / 65536 ≤ (b : Rat) / 65536 ↔ a ≤ b := by
  rw [← Rat.not_lt, px_lt]; omega

theorem specStops_get (stops : Array Stop) (k : Nat) (s : S.Stop) (h : (specStops stops)[k]? = some s) :
    k < stops.size ∧ s = toSpec (stops.getD k default) := by
  unfold specStops at h
  rw [List.getElem?_map] at h
  by_cases hk : k < stops.size
  · refine ⟨hk, ?_⟩
    simp [Array.getD_eq_getD_getElem?, hk] at h ⊢
    exact h.symm
  · simp [hk] at h

theorem specStops_get' (stops : Array Stop) (k : Nat) (hk : k < stops.size) :
    (specStops stops)[k]? = some (toSpec (stops.getD k default)) := by
  unfold specStops
  rw [List.getElem?_map]
  simp [Array.getD_eq_getD_getElem?, hk]

theorem specStops_length (stops : Array Stop) : (specStops stops).length = stops.size := by
  simp [specStops]

/-- the Spec's neighbours of `x / 65536` are the stops around the index where the search stops -/
theorem spec_neighbours (stops : Array Stop) (hwf : WellFormed stops) (x : Int) (n : Nat) (hn : n ≤ stops.size)
    (hlow : ∀ k, k < n → (stops.getD k default).x ≤ x)
    (hhigh : n < stops.size → x < (stops.getD n default).x) :
    S.leftOf (specStops stops) ((x : Rat) / 65536) =
      (if n = 0 then none else some (toSpec (stops.getD (n - 1) default))) ∧
    S.rightOf (specStops stops) ((x : Rat) / 65536) =
      (if n < stops.size then some (toSpec (stops.getD n default)) else none) := by
  have hall : ∀ k, n ≤ k → k < stops.size → x < (stops.getD k default).x := by
    intro k hk hks
    have h1 := hhigh (by omega)
    have h2 := hwf.sorted n k hk hks
    omega
  constructor
  · unfold S.leftOf
    rw [filter_eq_take _ (specStops stops) n]
    · by_cases h0 : n = 0
      · simp [h0]
      · simp only [h0, if_false]
        rw [List.getLast?_eq_getElem?, List.length_take, specStops_length, Nat.min_eq_left hn,
          List.getElem?_take_of_lt (by omega), specStops_get' stops (n - 1) (by omega)]
    · intro k s hk hs
      obtain ⟨_, rfl⟩ := specStops_get stops k s hs
      simp only [toSpec]
      exact decide_eq_true ((px_le _ _).mpr (hlow k hk))
    · intro k s hk hs
      obtain ⟨hks, rfl⟩ := specStops_get stops k s hs
      simp only [toSpec]
      exact decide_eq_false (Rat.not_le.mpr ((px_lt _ _).mpr (hall k hk hks)))
  · unfold S.rightOf
    rw [filter_eq_drop _ (specStops stops) n]
    · rw [List.head?_drop]
      by_cases h0 : n < stops.size
      · simp only [h0, if_true]; exact specStops_get' stops n h0
      · simp only [h0, if_false]
        rw [List.getElem?_eq_none]; rw [specStops_length]; omega
    · intro k s hk hs
      obtain ⟨_, rfl⟩ := specStops_get stops k s hs
      simp only [toSpec]
      exact decide_eq_false (Rat.not_lt.mpr ((px_le _ _).mpr (hlow k hk)))
    · intro k s hk hs
      obtain ⟨hks, rfl⟩ := specStops_get stops k s hs
      simp only [toSpec]
      exact decide_eq_true ((px_lt _ _).mpr (hall k hk hks))


/-! ### what the search and the two reads return, in terms of the user's stops -/

theorem ext_getD_mid (rep : Repeat) (stops : Array Stop) (k : Nat) (hk : k < stops.size) :
    (extStops rep stops).getD (k + 1) default = stops.getD k default := by
  rw [Array.getD_eq_getD_getElem?, ext_mid rep stops k hk]; rfl

/-- the index found by the search brackets the folded position among the user's stops -/
theorem search_brackets (rep : Repeat) (stops : Array Stop) (x : Int) :
    let n := searchFrom (extStops rep stops) stops.size x 0
    n ≤ stops.size ∧ (∀ k, k < n → (stops.getD k default).x ≤ x) ∧ (n < stops.size → x < (stops.getD n default).x) := by
  intro n
  have hn : n ≤ stops.size := searchFrom_le' _ _ _ 0 (Nat.zero_le _)
  have hb := searchFrom_brackets (extStops rep stops) stops.size x 0 (by intro k hk; omega)
  refine ⟨hn, ?_, ?_⟩
  · intro k hk
    have := hb.1 k hk
    rwa [ext_getD_mid rep stops k (by omega)] at this
  · intro h
    have := hb.2 h
    rwa [ext_getD_mid rep stops n h] at this

theorem stopAt_left (rep : Repeat) (stops : Array Stop) (n : Nat) (hn : n ≤ stops.size) :
    (stopAt (extStops rep stops) ((n : Int) - 1)).1 =
      if n = 0 then (sentinels rep stops).1 else stops.getD (n - 1) default := by
  unfold stopAt
  have h0 : (0 : Int) ≤ (n : Int) - 1 + 1 := by omega
  simp only [h0, if_true]
  by_cases hz : n = 0
  · subst hz
    simp only [if_true]
    have : ((0 : Nat) : Int) - 1 + 1 = 0 := by omega
    rw [this]
    simp [ext_first]
  · simp only [hz, if_false]
    have : ((n : Int) - 1 + 1).toNat = (n - 1) + 1 := by omega
    rw [this, ext_mid rep stops (n - 1) (by omega)]

theorem stopAt_right (rep : Repeat) (stops : Array Stop) (n : Nat) (hn : n ≤ stops.size) :
    (stopAt (extStops rep stops) (n : Int)).1 =
      if n < stops.size then stops.getD n default else (sentinels rep stops).2 := by
  unfold stopAt
  have h0 : (0 : Int) ≤ (n : Int) + 1 := by omega
  simp only [h0, if_true]
  have : ((n : Int) + 1).toNat = n + 1 := by omega
  rw [this]
  by_cases hz : n < stops.size
  · simp only [hz, if_true]; rw [ext_mid rep stops n hz]
  · simp only [hz, if_false]
    have : n = stops.size := by omega
    subst this
    rw [ext_last]

/-! ### interval colour against the Spec's interpolation -/

theorem ratio_scale (a b : Rat) (hb : b ≠ 0) : (a / 65536) / (b / 65536) = a / b := by grind

/-- proper interval: the painted colour is `premul (lerp …)` of the two Spec stops, provided the
    interval `[leftX, rightX)` and `pos` are the Spec stops and parameter shifted by a common `d` -/
theorem proper_eq_spec (sel : Sel) (pos d : Int) (Lx Rx U : Rat)
    (h : sel.rightX ≠ sel.leftX) (h1 : sel.leftX ≠ INT32_MIN) (h2 : sel.rightX ≠ INT32_MAX)
    (hL : Lx = ((sel.leftX - d : Int) : Rat) / 65536) (hR : Rx = ((sel.rightX - d : Int) : Rat) / 65536)
    (hU : U = ((pos - d : Int) : Rat) / 65536) :
    toP (evalCoeffs (resetCoeffs sel) sel.leftX pos) =
      S.premul (S.lerp ⟨Lx, nc sel.leftC⟩ ⟨Rx, nc sel.rightC⟩ U) := by
  rw [interval_colour sel pos h h1 h2]
  have hne : ((sel.rightX : Rat) - (sel.leftX : Rat)) ≠ 0 := by
    intro e
    have : (sel.rightX : Rat) = (sel.leftX : Rat) := by grind
    exact h (by exact_mod_cast this)
  have hw : (U - Lx) / (Rx - Lx) = ((pos : Rat) - (sel.leftX : Rat)) / ((sel.rightX : Rat) - (sel.leftX : Rat)) := by
    subst hL hR hU
    simp only [Rat.intCast_sub]
    rw [← ratio_scale _ _ hne]
    grind
  unfold lerpChan toP S.premul S.lerp nc
  simp only [hw]
  generalize ((pos : Rat) - (sel.leftX : Rat)) / ((sel.rightX : Rat) - (sel.leftX : Rat)) = wt
  simp only [Pixman.Spec.Gradient.PColor.mk.injEq]
  refine ⟨?_, ?_, ?_, ?_⟩ <;> grind

/-- proper interval of a mirrored REFLECT period: left and right are swapped and the interval is
    the mirror image (about `e / 2`) of the Spec stops -/
theorem mirrored_eq_spec (sel : Sel) (pos e : Int) (Lx Rx U : Rat)
    (h : sel.rightX ≠ sel.leftX) (h1 : sel.leftX ≠ INT32_MIN) (h2 : sel.rightX ≠ INT32_MAX)
    (hL : Lx = ((e - sel.rightX : Int) : Rat) / 65536) (hR : Rx = ((e - sel.leftX : Int) : Rat) / 65536)
    (hU : U = ((e - pos : Int) : Rat) / 65536) :
    toP (evalCoeffs (resetCoeffs sel) sel.leftX pos) =
      S.premul (S.lerp ⟨Lx, nc sel.rightC⟩ ⟨Rx, nc sel.leftC⟩ U) := by
  rw [interval_colour sel pos h h1 h2]
  have hne : ((sel.rightX : Rat) - (sel.leftX : Rat)) ≠ 0 := by
    intro e
    have : (sel.rightX : Rat) = (sel.leftX : Rat) := by grind
    exact h (by exact_mod_cast this)
  have hw : (U - Lx) / (Rx - Lx) = 1 - ((pos : Rat) - (sel.leftX : Rat)) / ((sel.rightX : Rat) - (sel.leftX : Rat)) := by
    subst hL hR hU
    simp only [Rat.intCast_sub]
    rw [← ratio_scale _ _ hne]
    grind
  unfold lerpChan toP S.premul S.lerp nc
  simp only [hw]
  generalize ((pos : Rat) - (sel.leftX : Rat)) / ((sel.rightX : Rat) - (sel.leftX : Rat)) = wt
  simp only [Pixman.Spec.Gradient.PColor.mk.injEq]
  refine ⟨?_, ?_, ?_, ?_⟩ <;> grind

/-- degenerate interval with the same colour on both sides: that colour, premultiplied -/
theorem degenerate_eq_spec (sel : Sel) (pos : Int) (hc : sel.leftC = sel.rightC)
    (hd : sel.rightX = sel.leftX ∨ sel.leftX = INT32_MIN ∨ sel.rightX = INT32_MAX) :
    toP (evalCoeffs (resetCoeffs sel) sel.leftX pos) = S.premul (nc sel.leftC) := by
  rw [degenerate_colour sel pos hc hd]
  rfl

/-- interpolating between two stops of the same colour gives that colour -/
theorem lerp_same (l r : S.Stop) (u : Rat) (h : l.c = r.c) : S.lerp l r u = l.c := by
  unfold S.lerp
  rw [h]
  cases hr : r.c
  simp
  refine ⟨?_, ?_, ?_, ?_⟩ <;> grind


/-! ### the composition, one repeat mode at a time -/

theorem resetSel_init (rep : Repeat) (stops : Array Stop) (pos : Int) :
    resetSel (walkerInit rep stops) pos =
      (let x := foldPos rep pos
       let n := searchFrom (extStops rep stops) stops.size x 0
       let l := stopAt (extStops rep stops) ((n : Int) - 1)
       let r := stopAt (extStops rep stops) (n : Int)
       let oob := l.2 || r.2
       match rep with
       | .normal => ⟨l.1.x + (pos - x), r.1.x + (pos - x), l.1.c, r.1.c, oob⟩
       | .reflect =>
         if bit16 (wrapS32 pos) then
           ⟨wrapS32 (65536 - r.1.x) + (pos - (65536 - x)), 65536 - l.1.x + (pos - (65536 - x)), r.1.c, l.1.c, oob⟩
         else ⟨l.1.x + (pos - x), r.1.x + (pos - x), l.1.c, r.1.c, oob⟩
       | .none =>
         if n = 0 then ⟨l.1.x, r.1.x, l.1.c, l.1.c, oob⟩
         else if n = stops.size then ⟨l.1.x, r.1.x, r.1.c, r.1.c, oob⟩
         else ⟨l.1.x, r.1.x, l.1.c, r.1.c, oob⟩
       | .pad => ⟨l.1.x, r.1.x, l.1.c, r.1.c, oob⟩) := by
  cases rep <;> rfl

/-- `stops[n - 1]` and `stops[n]` as read by the reset, for the index `n` -/
def leftStop (rep : Repeat) (stops : Array Stop) (n : Nat) : Stop :=
  if n = 0 then (sentinels rep stops).1 else stops.getD (n - 1) default
def rightStop (rep : Repeat) (stops : Array Stop) (n : Nat) : Stop :=
  if n < stops.size then stops.getD n default else (sentinels rep stops).2

theorem pad_core (stops : Array Stop) (hwf : WellFormed stops) (pos : Int) (n : Nat) (oob : Bool) (hn : n ≤ stops.size)
    (hlow : ∀ k, k < n → (stops.getD k default).x ≤ pos) (hhigh : n < stops.size → pos < (stops.getD n default).x) :
    toP (evalCoeffs (resetCoeffs ⟨(leftStop .pad stops n).x, (rightStop .pad stops n).x,
        (leftStop .pad stops n).c, (rightStop .pad stops n).c, oob⟩) (leftStop .pad stops n).x pos) =
      S.colourAt .pad (specStops stops) ((pos : Rat) / 65536) := by
  obtain ⟨hl, hr⟩ := spec_neighbours stops hwf pos n hn hlow hhigh
  have hsz := hwf.nonempty
  unfold S.colourAt
  simp only [S.fold, Pixman.Spec.Gradient.fold, hl, hr, leftStop, rightStop]
  by_cases h0 : n = 0
  · subst h0
    simp only [if_true, hsz, sentinels]
    rw [degenerate_eq_spec _ pos rfl (Or.inr (Or.inl rfl))]
    rfl
  · by_cases h1 : n < stops.size
    · simp only [h0, h1, if_true, if_false]
      have hlo := hlow (n - 1) (by omega)
      have hhi := hhigh h1
      have b1 := hwf.lo (n - 1) (by omega)
      have b2 := hwf.hi n h1
      rw [proper_eq_spec _ pos 0 ((stops.getD (n - 1) default).x / 65536) ((stops.getD n default).x / 65536) ((pos : Rat) / 65536)
        (by simp only []; omega) (by simp only [INT32_MIN]; omega) (by simp only [INT32_MAX]; omega)
        (by simp) (by simp) (by simp)]
      rfl
    · have hnz : n = stops.size := by omega
      subst hnz
      simp only [h0, if_false, Nat.lt_irrefl, sentinels]
      rw [degenerate_eq_spec _ pos rfl (Or.inr (Or.inr rfl))]
      rfl

theorem walker_eq_spec_pad (stops : Array Stop) (hwf : WellFormed stops) (pos : Int) :
    toP (walkerEval (walkerReset (walkerInit .pad stops) pos) pos) =
      S.colourAt .pad (specStops stops) ((pos : Rat) / 65536) := by
  rw [walkerEval_reset, resetSel_init]
  obtain ⟨hn, hlow, hhigh⟩ := search_brackets .pad stops (foldPos .pad pos)
  simp only [stopAt_left .pad stops _ hn, stopAt_right .pad stops _ hn]
  exact pad_core stops hwf pos _ _ hn hlow hhigh

theorem premul_transparent : S.premul (nc transparentBlack) = S.transparent := by
  simp [S.premul, nc, transparentBlack, S.transparent, Pixman.Spec.Gradient.premul, Pixman.Spec.Gradient.transparent]
  constructor <;> grind

theorem none_core (stops : Array Stop) (hwf : WellFormed stops) (pos : Int) (n : Nat) (oob : Bool) (hn : n ≤ stops.size)
    (hlow : ∀ k, k < n → (stops.getD k default).x ≤ pos) (hhigh : n < stops.size → pos < (stops.getD n default).x) :
    let l := leftStop .none stops n
    let r := rightStop .none stops n
    let sel : Sel := if n = 0 then ⟨l.x, r.x, l.c, l.c, oob⟩ else if n = stops.size then ⟨l.x, r.x, r.c, r.c, oob⟩
      else ⟨l.x, r.x, l.c, r.c, oob⟩
    toP (evalCoeffs (resetCoeffs sel) sel.leftX pos) = S.colourAt .none (specStops stops) ((pos : Rat) / 65536) := by
  intro l r sel
  obtain ⟨hl, hr⟩ := spec_neighbours stops hwf pos n hn hlow hhigh
  have hsz := hwf.nonempty
  unfold S.colourAt
  simp only [S.fold, Pixman.Spec.Gradient.fold, hl, hr, sel, l, r, leftStop, rightStop]
  by_cases h0 : n = 0
  · subst h0
    simp only [if_true, hsz, sentinels]
    rw [degenerate_eq_spec _ pos rfl (Or.inr (Or.inl rfl))]
    exact premul_transparent
  · by_cases h1 : n < stops.size
    · have hne : n ≠ stops.size := by omega
      simp only [h0, h1, hne, if_true, if_false]
      have hlo := hlow (n - 1) (by omega)
      have hhi := hhigh h1
      have b1 := hwf.lo (n - 1) (by omega)
      have b2 := hwf.hi n h1
      rw [proper_eq_spec _ pos 0 ((stops.getD (n - 1) default).x / 65536) ((stops.getD n default).x / 65536) ((pos : Rat) / 65536)
        (by simp only []; omega) (by simp only [INT32_MIN]; omega) (by simp only [INT32_MAX]; omega)
        (by simp) (by simp) (by simp)]
      rfl
    · have hnz : n = stops.size := by omega
      subst hnz
      simp only [h0, if_false, if_true, Nat.lt_irrefl, sentinels]
      rw [degenerate_eq_spec _ pos rfl (Or.inr (Or.inr rfl))]
      exact premul_transparent

theorem walker_eq_spec_none (stops : Array Stop) (hwf : WellFormed stops) (pos : Int) :
    toP (walkerEval (walkerReset (walkerInit .none stops) pos) pos) =
      S.colourAt .none (specStops stops) ((pos : Rat) / 65536) := by
  rw [walkerEval_reset, resetSel_init]
  obtain ⟨hn, hlow, hhigh⟩ := search_brackets .none stops (foldPos .none pos)
  simp only [stopAt_left .none stops _ hn, stopAt_right .none stops _ hn]
  exact none_core stops hwf pos _ _ hn hlow hhigh

theorem specStops_getLast (stops : Array Stop) (h : 0 < stops.size) :
    (specStops stops).getLast? = some (toSpec (stops.getD (stops.size - 1) default)) := by
  rw [List.getLast?_eq_getElem?, specStops_length, specStops_get' stops _ (by omega)]

theorem specStops_head (stops : Array Stop) (h : 0 < stops.size) :
    (specStops stops).head? = some (toSpec (stops.getD 0 default)) := by
  rw [List.head?_eq_getElem?, specStops_get' stops 0 h]

theorem wrapS32_id (v : Int) (h1 : -2147483648 ≤ v) (h2 : v ≤ 2147483647) : wrapS32 v = v := by
  unfold wrapS32; omega

/-- the range of positions for which the shifted interval ends cannot collide with the
    `INT32_MIN` / `INT32_MAX` marks of the PAD/NONE sentinels (outside it the C code would take its
    "sentinel" branch for a NORMAL/REFLECT interval: a quirk at |t| ≈ 32768) -/
def PosOk (pos : Int) : Prop := -2147221504 < pos ∧ pos < 2147221504

theorem normal_core (stops : Array Stop) (hwf : WellFormed stops) (pos x : Int) (n : Nat) (oob : Bool)
    (hpos : PosOk pos) (hx : x = pos % 65536) (hn : n ≤ stops.size)
    (hlow : ∀ k, k < n → (stops.getD k default).x ≤ x) (hhigh : n < stops.size → x < (stops.getD n default).x) :
    toP (evalCoeffs (resetCoeffs ⟨(leftStop .normal stops n).x + (pos - x), (rightStop .normal stops n).x + (pos - x),
        (leftStop .normal stops n).c, (rightStop .normal stops n).c, oob⟩) ((leftStop .normal stops n).x + (pos - x)) pos) =
      S.colourAt .normal (specStops stops) ((pos : Rat) / 65536) := by
  obtain ⟨hl, hr⟩ := spec_neighbours stops hwf x n hn hlow hhigh
  have hsz := hwf.nonempty
  have hf : S.fold .normal ((pos : Rat) / 65536) = (x : Rat) / 65536 := by
    rw [fold_normal]; simp only [foldPos, lo16_wrap, hx]
  have hx0 : 0 ≤ x ∧ x < 65536 := by omega
  have hfirst0 := hwf.lo 0 hsz
  have hfirst1 := hwf.hi 0 hsz
  have hlast0 := hwf.lo (stops.size - 1) (by omega)
  have hlast1 := hwf.hi (stops.size - 1) (by omega)
  unfold PosOk at hpos
  unfold S.colourAt
  simp only [hf, hl, hr, leftStop, rightStop, specStops_getLast stops hsz, specStops_head stops hsz]
  by_cases h0 : n = 0
  · subst h0
    have hhi := hhigh hsz
    simp only [if_true, hsz, sentinels, Pixman.Matrix.fixed1]
    rw [wrapS32_id _ (by omega) (by omega)]
    rw [proper_eq_spec _ pos (pos - x) ((stops.getD (stops.size - 1) default).x / 65536 + -1) ((stops.getD 0 default).x / 65536) ((x : Rat) / 65536)
      (by simp only []; omega) (by simp only [INT32_MIN]; omega) (by simp only [INT32_MAX]; omega)
      (by simp only [Rat.intCast_sub, Rat.intCast_add]; have : ((65536 : Int) : Rat) = 65536 := rfl; rw [this]; grind)
      (by simp only [Rat.intCast_sub, Rat.intCast_add]; grind)
      (by simp only [Rat.intCast_sub]; grind)]
    rfl
  · by_cases h1 : n < stops.size
    · simp only [h0, h1, if_true, if_false]
      have hlo := hlow (n - 1) (by omega)
      have hhi := hhigh h1
      have b1 := hwf.lo (n - 1) (by omega)
      have b2 := hwf.hi n h1
      rw [proper_eq_spec _ pos (pos - x) ((stops.getD (n - 1) default).x / 65536) ((stops.getD n default).x / 65536) ((x : Rat) / 65536)
        (by simp only []; omega) (by simp only [INT32_MIN]; omega) (by simp only [INT32_MAX]; omega)
        (by simp only [Rat.intCast_sub, Rat.intCast_add]; grind)
        (by simp only [Rat.intCast_sub, Rat.intCast_add]; grind)
        (by simp only [Rat.intCast_sub]; grind)]
      rfl
    · have hnz : n = stops.size := by omega
      subst hnz
      have hlo := hlow (stops.size - 1) (by omega)
      simp only [h0, if_false, Nat.lt_irrefl, sentinels, Pixman.Matrix.fixed1]
      rw [wrapS32_id _ (by omega) (by omega)]
      rw [proper_eq_spec _ pos (pos - x) ((stops.getD (stops.size - 1) default).x / 65536) ((stops.getD 0 default).x / 65536 + 1) ((x : Rat) / 65536)
        (by simp only []; omega) (by simp only [INT32_MIN]; omega) (by simp only [INT32_MAX]; omega)
        (by simp only [Rat.intCast_sub, Rat.intCast_add]; grind)
        (by simp only [Rat.intCast_sub, Rat.intCast_add]; have : ((65536 : Int) : Rat) = 65536 := rfl; rw [this]; grind)
        (by simp only [Rat.intCast_sub]; grind)]
      rfl

theorem walker_eq_spec_normal (stops : Array Stop) (hwf : WellFormed stops) (pos : Int) (hpos : PosOk pos) :
    toP (walkerEval (walkerReset (walkerInit .normal stops) pos) pos) =
      S.colourAt .normal (specStops stops) ((pos : Rat) / 65536) := by
  rw [walkerEval_reset, resetSel_init]
  obtain ⟨hn, hlow, hhigh⟩ := search_brackets .normal stops (foldPos .normal pos)
  simp only [stopAt_left .normal stops _ hn, stopAt_right .normal stops _ hn]
  exact normal_core stops hwf pos _ _ _ hpos (by simp only [foldPos, lo16_wrap]) hn hlow hhigh

/-- the same colour on both sides: that colour, whatever the interval -/
theorem same_colour_eq_spec (sel : Sel) (pos : Int) (hc : sel.leftC = sel.rightC) :
    toP (evalCoeffs (resetCoeffs sel) sel.leftX pos) = S.premul (nc sel.leftC) := by
  by_cases hd : sel.rightX = sel.leftX ∨ sel.leftX = INT32_MIN ∨ sel.rightX = INT32_MAX
  · exact degenerate_eq_spec sel pos hc hd
  · have h : sel.rightX ≠ sel.leftX := fun e => hd (Or.inl e)
    have h1 : sel.leftX ≠ INT32_MIN := fun e => hd (Or.inr (Or.inl e))
    have h2 : sel.rightX ≠ INT32_MAX := fun e => hd (Or.inr (Or.inr e))
    rw [proper_eq_spec sel pos 0 _ _ _ h h1 h2 rfl rfl rfl, lerp_same _ _ _ (by simp only [hc])]

theorem foldPos_reflect_range (pos : Int) : 0 ≤ foldPos .reflect pos ∧ foldPos .reflect pos ≤ 65536 := by
  simp only [foldPos, lo16_wrap, bit16_wrap]
  split <;> omega

theorem reflect_core (stops : Array Stop) (hwf : WellFormed stops) (pos x : Int) (n : Nat) (oob : Bool) (b : Bool)
    (hpos : PosOk pos) (hx : x = foldPos .reflect pos) (hn : n ≤ stops.size)
    (hlow : ∀ k, k < n → (stops.getD k default).x ≤ x) (hhigh : n < stops.size → x < (stops.getD n default).x) :
    let l := leftStop .reflect stops n
    let r := rightStop .reflect stops n
    let sel : Sel :=
      if b then ⟨wrapS32 (65536 - r.x) + (pos - (65536 - x)), 65536 - l.x + (pos - (65536 - x)), r.c, l.c, oob⟩
      else ⟨l.x + (pos - x), r.x + (pos - x), l.c, r.c, oob⟩
    toP (evalCoeffs (resetCoeffs sel) sel.leftX pos) = S.colourAt .reflect (specStops stops) ((pos : Rat) / 65536) := by
  intro l r sel
  obtain ⟨hl, hr⟩ := spec_neighbours stops hwf x n hn hlow hhigh
  have hsz := hwf.nonempty
  have hf : S.fold .reflect ((pos : Rat) / 65536) = (x : Rat) / 65536 := by rw [fold_reflect, hx]
  have hx0 := foldPos_reflect_range pos
  rw [← hx] at hx0
  have hfirst0 := hwf.lo 0 hsz
  have hfirst1 := hwf.hi 0 hsz
  have hlast0 := hwf.lo (stops.size - 1) (by omega)
  have hlast1 := hwf.hi (stops.size - 1) (by omega)
  unfold PosOk at hpos
  unfold S.colourAt
  simp only [hf, hl, hr]
  by_cases h0 : n = 0
  · -- before the first stop: the mirror image of the first stop on the left, its colour throughout
    subst h0
    simp only [if_true, hsz]
    have hc : sel.leftC = sel.rightC := by
      simp only [sel, l, r, leftStop, rightStop, hsz, if_true, sentinels]; cases b <;> rfl
    rw [same_colour_eq_spec sel pos hc]
    simp only [sel, l, r, leftStop, rightStop, hsz, if_true, sentinels]
    cases b <;> rfl
  · by_cases h1 : n < stops.size
    · simp only [h0, h1, if_true, if_false]
      have hlo := hlow (n - 1) (by omega)
      have hhi := hhigh h1
      have b1 := hwf.lo (n - 1) (by omega)
      have b2 := hwf.hi n h1
      have b3 := hwf.hi (n - 1) (by omega)
      have b4 := hwf.lo n h1
      cases b
      · simp only [sel, l, r, leftStop, rightStop, h0, h1, if_true, if_false, Bool.false_eq_true]
        rw [proper_eq_spec _ pos (pos - x) ((stops.getD (n - 1) default).x / 65536) ((stops.getD n default).x / 65536) ((x : Rat) / 65536)
          (by simp only []; omega) (by simp only [INT32_MIN]; omega) (by simp only [INT32_MAX]; omega)
          (by simp only [Rat.intCast_sub, Rat.intCast_add]; grind)
          (by simp only [Rat.intCast_sub, Rat.intCast_add]; grind)
          (by simp only [Rat.intCast_sub]; grind)]
        rfl
      · simp only [sel, l, r, leftStop, rightStop, h0, h1, if_true, if_false]
        rw [wrapS32_id _ (by omega) (by omega)]
        rw [mirrored_eq_spec _ pos (pos + x) ((stops.getD (n - 1) default).x / 65536) ((stops.getD n default).x / 65536) ((x : Rat) / 65536)
          (by simp only []; omega) (by simp only [INT32_MIN]; omega) (by simp only [INT32_MAX]; omega)
          (by simp only []; congr 1; congr 1; omega)
          (by simp only []; congr 1; congr 1; omega)
          (by congr 1; congr 1; omega)]
        rfl
    · -- from the last stop on: its mirror image on the right, its colour throughout
      have hnz : n = stops.size := by omega
      subst hnz
      simp only [h0, if_false, Nat.lt_irrefl]
      have hc : sel.leftC = sel.rightC := by
        simp only [sel, l, r, leftStop, rightStop, h0, Nat.lt_irrefl, if_false, sentinels]; cases b <;> rfl
      rw [same_colour_eq_spec sel pos hc]
      simp only [sel, l, r, leftStop, rightStop, h0, Nat.lt_irrefl, if_false, sentinels]
      cases b <;> rfl

theorem walker_eq_spec_reflect (stops : Array Stop) (hwf : WellFormed stops) (pos : Int) (hpos : PosOk pos) :
    toP (walkerEval (walkerReset (walkerInit .reflect stops) pos) pos) =
      S.colourAt .reflect (specStops stops) ((pos : Rat) / 65536) := by
  rw [walkerEval_reset, resetSel_init]
  obtain ⟨hn, hlow, hhigh⟩ := search_brackets .reflect stops (foldPos .reflect pos)
  simp only [stopAt_left .reflect stops _ hn, stopAt_right .reflect stops _ hn]
  exact reflect_core stops hwf pos _ _ _ _ hpos rfl hn hlow hhigh

/-- G2, all repeat modes -/
theorem walker_eq_spec (rep : Repeat) (stops : Array Stop) (hwf : WellFormed stops) (pos : Int)
    (hpos : rep = .normal ∨ rep = .reflect → PosOk pos) :
    toP (walkerEval (walkerReset (walkerInit rep stops) pos) pos) =
      S.colourAt (toSpecRep rep) (specStops stops) ((pos : Rat) / 65536) := by
  cases rep
  · exact walker_eq_spec_none stops hwf pos
  · exact walker_eq_spec_normal stops hwf pos (hpos (Or.inl rfl))
  · exact walker_eq_spec_pad stops hwf pos
  · exact walker_eq_spec_reflect stops hwf pos (hpos (Or.inr rfl))

end Pixman.Model.Gradient

import Pixman.Model.Filter
import Pixman.Spec.Filter
/-! C18/W4: the separable-convolution arithmetic on a constant image. -/
namespace Pixman.Lemmas.Filter
open Pixman.Model.Filter Pixman.Spec.Filter

/-- sum of the rounded products of one row -/
def rowW (fy : Int) : List Int → Int
  | [] => 0
  | fx :: r => prodRound fy fx + rowW fy r

def allW (fxs : List Int) : List Int → Int
  | [] => 0
  | fy :: r => rowW fy fxs + allW fxs r

theorem prodRound_zero_right (fy : Int) : prodRound fy 0 = 0 := by
  simp [prodRound]
theorem prodRound_zero_left (fx : Int) : prodRound 0 fx = 0 := by
  simp [prodRound]

theorem prodRound_bounds (fy fx : Int) :
    -32768 ≤ 65536 * prodRound fy fx - fy * fx ∧ 65536 * prodRound fy fx - fy * fx ≤ 32768 := by
  unfold prodRound
  generalize fy * fx = t
  omega

/-- skipping zero coefficients changes nothing: their rounded product is 0 -/
theorem rowAcc_eq (c fy : Int) (fxs : List Int) : rowAcc c fy fxs = c * rowW fy fxs := by
  induction fxs with
  | nil => simp [rowAcc, rowW]
  | cons fx r ih =>
    simp only [rowAcc, rowW]
    rw [ih, Int.mul_add]
    by_cases h : fx = 0
    · subst h; simp [prodRound_zero_right]
    · simp [h]

theorem rowW_zero (fxs : List Int) : rowW 0 fxs = 0 := by
  induction fxs with
  | nil => rfl
  | cons fx r ih => simp [rowW, ih, prodRound_zero_left]

theorem convAcc_eq (c : Int) (fxs fys : List Int) : convAcc c fxs fys = c * allW fxs fys := by
  induction fys with
  | nil => simp [convAcc, allW]
  | cons fy r ih =>
    simp only [convAcc, allW]
    rw [ih, Int.mul_add, rowAcc_eq]
    by_cases h : fy = 0
    · subst h; simp [rowW_zero]
    · simp [h]

theorem rowW_bounds (fy : Int) (fxs : List Int) :
    -(32768 * (fxs.length : Int)) ≤ 65536 * rowW fy fxs - fy * sumList fxs ∧
      65536 * rowW fy fxs - fy * sumList fxs ≤ 32768 * (fxs.length : Int) := by
  induction fxs with
  | nil => simp [rowW, sumList]
  | cons fx r ih =>
    simp only [rowW, sumList, List.length_cons]
    have hb := prodRound_bounds fy fx
    rw [Int.mul_add fy, Int.mul_add 65536]
    generalize prodRound fy fx = a at *
    generalize rowW fy r = b at *
    generalize fy * fx = t at *
    generalize fy * sumList r = u at *
    push_cast
    omega

theorem allW_bounds (fxs fys : List Int) :
    -(32768 * ((fxs.length * fys.length : Nat) : Int)) ≤ 65536 * allW fxs fys - sumList fys * sumList fxs ∧
      65536 * allW fxs fys - sumList fys * sumList fxs ≤ 32768 * ((fxs.length * fys.length : Nat) : Int) := by
  induction fys with
  | nil => simp [allW, sumList]
  | cons fy r ih =>
    simp only [allW, sumList, List.length_cons]
    have hb := rowW_bounds fy fxs
    rw [Int.add_mul, Int.mul_add 65536, Nat.mul_succ]
    generalize rowW fy fxs = a at *
    generalize allW fxs r = b at *
    generalize fy * sumList fxs = t at *
    generalize sumList r * sumList fxs = u at *
    generalize fxs.length * r.length = n at *
    generalize fxs.length = l at *
    push_cast
    omega

end Pixman.Lemmas.Filter

import Pixman.Model.Trap
import Pixman.Spec.SampleGrid
import Pixman.Lemmas.Trap
import Pixman.Lemmas.TrapRow
import Pixman.Lemmas.TrapFill
import Pixman.Lemmas.TrapRows
/-! Lemmas for C12, R3 continued: `pixman_rasterize_edges` over ALL sample rows of a shape adds the
    Spec's per-pixel sample count (induction over the sample rows).
    The property theorems are restated in `Pixman/Props/C12.lean`. -/
namespace Pixman.Lemmas.TrapShape
open Pixman.Trap
open Pixman.Gen.SampleGrid
open Pixman.Spec.SampleGrid
open Pixman.Lemmas.Trap
open Pixman.Lemmas.TrapRow
open Pixman.Lemmas.TrapFill
open Pixman.Lemmas.TrapRows

/-! ### one loop for the three depths -/

/-- the row body of `rasterize_edges_N` (for 8: without the span-fill bookkeeping) -/
def rowOp (n : Nat) (row : Array Nat) (width lx rx : Int) : Array Nat :=
  if n == 1 then row1 row width lx rx else if n == 8 then row8 row width lx rx else row4 row width lx rx

/-- `edgesLoop` (depths 1, 4) and `edgesLoop8Naive` (depth 8) written once -/
def naiveLoop (n : Nat) (b : Int) : Nat → Int → Edge → Edge → Img → Img
  | 0, _, _, _, img => { img with runaway := true }
  | fuel + 1, y, l, r, img =>
    let img := img.modifyRow (fixedToInt y) fun row => rowOp n row img.width l.x r.x
    if y == b then img
    else if n != 1 && fixedFrac y != yFracLast n then
      naiveLoop n b fuel (wrap32 (y + stepYSmall n)) (stepSmall l) (stepSmall r) img
    else
      naiveLoop n b fuel (wrap32 (y + stepYBig n)) (stepBig l) (stepBig r) img

theorem edgesLoop_eq_naiveLoop (n : Nat) (hn : n = 1 ∨ n = 4) (b : Int) (fuel : Nat) (y : Int) (l r : Edge) (img : Img) :
    edgesLoop n b fuel y l r img = naiveLoop n b fuel y l r img := by
  induction fuel generalizing y l r img with
  | zero => rfl
  | succ fuel ih =>
    rcases hn with h | h <;> subst h <;> simp only [edgesLoop, naiveLoop, rowOp, ih] <;> rfl

theorem edgesLoop8Naive_eq_naiveLoop (b : Int) (fuel : Nat) (y : Int) (l r : Edge) (img : Img) :
    edgesLoop8Naive b fuel y l r img = naiveLoop 8 b fuel y l r img := by
  induction fuel generalizing y l r img with
  | zero => rfl
  | succ fuel ih =>
    simp only [edgesLoop8Naive, naiveLoop, rowOp, ih]; rfl

/-! ### pixels of an array of rows -/

/-- pixel `(r, c)` of an array of rows (0 outside) -/
def px (rows : Array (Array Nat)) (r c : Nat) : Nat := (rows[r]?.getD #[])[c]?.getD 0

/-- a well-formed alpha image of depth `n`: `height` rows of `width ≤ 32767` values `≤ MAX_ALPHA (n)` -/
structure ImgWF (n : Nat) (img : Img) : Prop where
  rows_size : img.rows.size = img.height
  cols : ∀ r, r < img.height → (img.rows[r]?.getD #[]).size = img.width
  hw : img.width ≤ 32767
  vals : ∀ r c, px img.rows r c ≤ (maxAlpha n).toNat

theorem px_mk' (w h v r c : Nat) : px (Img.mk' w h v).rows r c = if r < h ∧ c < w then v else 0 := by
  simp only [px, Img.mk']
  by_cases hr : r < h
  · by_cases hc : c < w
    · simp [hr, hc]
    · simp [hr, hc]
  · simp [hr]

theorem imgWF_mk' (n w h v : Nat) (hw : w ≤ 32767) (hv : v ≤ (maxAlpha n).toNat) : ImgWF n (Img.mk' w h v) := by
  refine ⟨by simp [Img.mk'], ?_, hw, ?_⟩
  · intro r hr
    have hr' : r < h := hr
    simp [Img.mk', hr']
  · intro r c
    rw [px_mk']
    split <;> omega

theorem getD_modify (rows : Array (Array Nat)) (k : Nat) (F : Array Nat → Array Nat) (r : Nat) (hk : k < rows.size) :
    (rows.modify k F)[r]?.getD #[] = if k = r then F (rows[r]?.getD #[]) else rows[r]?.getD #[] := by
  rw [Array.getElem?_modify]
  by_cases h : k = r
  · subst h
    simp [hk]
  · simp [h]

theorem px_modify (rows : Array (Array Nat)) (k : Nat) (F : Array Nat → Array Nat) (r c : Nat) (hk : k < rows.size) :
    px (rows.modify k F) r c = if k = r then (F (rows[r]?.getD #[]))[c]?.getD 0 else px rows r c := by
  unfold px
  rw [getD_modify _ _ _ _ hk]
  split <;> rfl

theorem getD_of_lt (row : Array Nat) (c : Nat) (h : c < row.size) : row[c]?.getD 0 = row[c] := by
  simp [h]

theorem getD_of_ge (row : Array Nat) (c : Nat) (h : row.size ≤ c) : row[c]?.getD 0 = 0 := by
  simp [h]

theorem rowOp_size (n : Nat) (row : Array Nat) (width lx rx : Int) : (rowOp n row width lx rx).size = row.size := by
  simp only [rowOp]
  split
  · exact row1_size ..
  · split
    · exact row8_size ..
    · exact row4_size ..

/-- R3 for the three depths, in `getD` form -/
theorem rowOp_spec (n : Nat) (hn : Depth n) (row : Array Nat) (width : Nat) (lx rx : Int) (hsize : row.size = width)
    (hw : width ≤ 32767) (hv : ∀ c : Nat, row[c]?.getD 0 ≤ (maxAlpha n).toNat)
    (h1 : n = 1 → (-2147483648 ≤ lx ∧ lx ≤ 2147450880) ∧ (-2147483648 ≤ rx ∧ rx ≤ 2147450880))
    (c : Nat) (hc : c < width) :
    (rowOp n row width lx rx)[c]?.getD 0 = pixelValue n (row[c]?.getD 0) (rowCount n lx rx c) := by
  have hc' : c < row.size := by omega
  have hvc := hv c
  rw [getD_of_lt _ _ hc'] at hvc ⊢
  rw [getD_of_lt _ _ (by rw [rowOp_size]; exact hc')]
  rcases hn with h | h | h <;> subst h <;> simp only [rowOp]
  · exact row1_spec row width lx rx hsize hw (h1 rfl).1 (h1 rfl).2 c hc hvc
  · exact row4_spec row width lx rx hsize hw c hc hvc
  · exact row8_spec row width lx rx hsize hw c hc hvc

theorem pixelValue_le (n : Nat) (o a : Nat) : pixelValue n o a ≤ (maxAlpha n).toNat := by
  unfold pixelValue; omega

theorem pixelValue_zero (n : Nat) (o : Nat) (h : o ≤ (maxAlpha n).toNat) : pixelValue n o 0 = o := by
  unfold pixelValue; omega

/-! ### sums over the sample rows of one pixel row -/

theorem sum_spike (N k0 v : Nat) : ((List.range N).map fun k => if k = k0 then v else 0).sum = if k0 < N then v else 0 := by
  induction N with
  | zero => simp
  | succ N ih =>
    rw [List.range_succ, List.map_append, List.sum_append, ih]
    simp only [List.map_cons, List.map_nil, List.sum_cons, List.sum_nil, Nat.add_zero]
    by_cases h1 : k0 < N
    · have : ¬ N = k0 := by omega
      simp [h1, this]; omega
    · by_cases h2 : N = k0
      · simp [h2]
      · have : ¬ k0 < N + 1 := by omega
        simp [h1, h2, this]

theorem sum_map_congr (l : List Nat) (f g : Nat → Nat) (h : ∀ k ∈ l, f k = g k) : (l.map f).sum = (l.map g).sum := by
  rw [List.map_congr_left h]

theorem sum_map_zero (l : List Nat) : (l.map fun _ => 0).sum = 0 := by
  induction l with
  | nil => rfl
  | cons x t ih => simp only [List.map_cons, List.sum_cons, ih]

/-- the position of a sample row determines its pixel row and its sub-row -/
theorem rowPos_inj (n : Nat) (hn : Depth n) (r r' : Int) (k k' : Nat) (hk : (k : Int) < nYFrac n) (hk' : (k' : Int) < nYFrac n) :
    rowPos n r k = rowPos n r' k' ↔ r = r' ∧ k = k' := by
  constructor
  · intro h
    rcases hn with h' | h' | h' <;> subst h' <;> simp only [rowPos, yFracFirst, stepYSmall, nYFrac] at * <;>
      (by_cases hr : r ≤ r' - 1
       · omega
       · by_cases hr2 : r ≤ r'
         · omega
         · omega)
  · rintro ⟨rfl, rfl⟩; rfl

theorem rowPos_div (n : Nat) (hn : Depth n) (r : Int) (k : Nat) (hk : (k : Int) < nYFrac n) : rowPos n r k / 65536 = r := by
  rcases hn with h' | h' | h' <;> subst h' <;> simp only [rowPos, yFracFirst, stepYSmall, nYFrac] at * <;> omega

/-- a function of the sample row, summed over the sample rows of pixel row `ρ` that equal `y` -/
theorem sum_row_spike (n : Nat) (hn : Depth n) (y : Int) (hy : IsGridRow n y) (ρ : Int) (v : Nat) :
    ((List.range (nYFrac n).toNat).map fun k => if rowPos n ρ k = y then v else 0).sum = if y / 65536 = ρ then v else 0 := by
  obtain ⟨r0, k0, hk0, rfl⟩ := hy
  rw [rowPos_div n hn r0 k0 hk0]
  by_cases hr : r0 = ρ
  · subst hr
    rw [sum_map_congr _ _ (fun k => if k = k0 then v else 0)]
    · rw [sum_spike]; simp only [if_true]; rw [if_pos (by omega)]
    · intro k hk
      have hk' : (k : Int) < nYFrac n := by have := List.mem_range.mp hk; omega
      have := rowPos_inj n hn r0 r0 k k0 hk' hk0
      by_cases h : k = k0
      · simp [h]
      · have h2 : ¬ rowPos n r0 k = rowPos n r0 k0 := fun e => h (this.mp e).2
        simp [h, h2]
  · rw [if_neg hr, sum_map_congr _ _ (fun _ => 0)]
    · exact sum_map_zero _
    · intro k hk
      have hk' : (k : Int) < nYFrac n := by have := List.mem_range.mp hk; omega
      have := rowPos_inj n hn ρ r0 k k0 hk' hk0
      have h2 : ¬ rowPos n ρ k = rowPos n r0 k0 := fun e => hr (this.mp e).1.symm
      simp [h2]

/-- sum of `f` over the sample rows `lo ≤ y ≤ hi` of pixel row `ρ` -/
def rowsSum (n : Nat) (lo hi : Int) (f : Int → Nat) (ρ : Int) : Nat :=
  ((List.range (nYFrac n).toNat).map fun k =>
    if lo ≤ rowPos n ρ k ∧ rowPos n ρ k ≤ hi then f (rowPos n ρ k) else 0).sum

theorem rowsSum_last (n : Nat) (hn : Depth n) (b : Int) (hb : IsGridRow n b) (f : Int → Nat) (ρ : Int) :
    rowsSum n b b f ρ = if b / 65536 = ρ then f b else 0 := by
  rw [← sum_row_spike n hn b hb ρ (f b)]
  unfold rowsSum
  apply sum_map_congr
  intro k _
  by_cases h : rowPos n ρ k = b
  · simp [h]
  · have : ¬ (b ≤ rowPos n ρ k ∧ rowPos n ρ k ≤ b) := by omega
    simp [h, this]

theorem rowsSum_step (n : Nat) (hn : Depth n) (y b : Int) (hy : IsGridRow n y) (hb : IsGridRow n b) (hlt : y < b)
    (f : Int → Nat) (ρ : Int) :
    rowsSum n y b f ρ = (if y / 65536 = ρ then f y else 0) + rowsSum n (nextY n y) b f ρ := by
  rw [← sum_row_spike n hn y hy ρ (f y)]
  unfold rowsSum
  symm
  apply sum_map_add
  intro k hk
  have hk' : (k : Int) < nYFrac n := by have := List.mem_range.mp hk; omega
  have hg : IsGridRow n (rowPos n ρ k) := ⟨ρ, k, hk', rfl⟩
  obtain ⟨_, g2, g3, _, g5, _⟩ := nextY_grid n hn y b hy hb hlt
  by_cases h : rowPos n ρ k = y
  · have : ¬ (nextY n y ≤ y ∧ y ≤ b) := by omega
    simp [h, this]; omega
  · by_cases h2 : y ≤ rowPos n ρ k
    · have := g5 _ hg (by omega)
      by_cases h3 : rowPos n ρ k ≤ b
      · simp [h, h2, h3, this]
      · simp [h, h3]
    · have : ¬ nextY n y ≤ rowPos n ρ k := by omega
      simp [h, h2, this]

/-! ### induction over the sample rows -/

theorem fuel_step (n : Nat) (hn : Depth n) (y y' b : Int) (fuel : Nat) (h1 : stepYSmall n ≤ y' - y) (_h2 : y' ≤ b)
    (hf : (b - y) / stepYSmall n + 1 ≤ ((fuel + 1 : Nat) : Int)) : (b - y') / stepYSmall n + 1 ≤ (fuel : Int) := by
  rcases hn with h | h | h <;> subst h <;> simp only [stepYSmall] at *
  · have : (b - y') / 65536 ≤ (b - y - 65536) / 65536 := Int.ediv_le_ediv (by decide) (by omega)
    omega
  · have : (b - y') / 21845 ≤ (b - y - 21845) / 21845 := Int.ediv_le_ediv (by decide) (by omega)
    omega
  · have : (b - y') / 4369 ≤ (b - y - 4369) / 4369 := Int.ediv_le_ediv (by decide) (by omega)
    omega

theorem fuel_ne_zero (n : Nat) (hn : Depth n) (y b : Int) (hyb : y ≤ b) (hf : (b - y) / stepYSmall n + 1 ≤ ((0 : Nat) : Int)) :
    False := by
  have : 0 ≤ (b - y) / stepYSmall n := Int.ediv_nonneg (by omega) (by
    rcases hn with h | h | h <;> subst h <;> simp only [stepYSmall] <;> omega)
  omega

/-- the loop's next `y` is `nextY` (no `int` wrap below the last row) -/
theorem loop_next (n : Nat) (y : Int) :
    (if (n != 1 && fixedFrac y != yFracLast n) = true then y + stepYSmall n else y + stepYBig n) = nextY n y := by
  simp only [nextY]

/-- the abscissae of the two walked edges on every visited row are `xl`, `xr` -/
def WalkIs (n : Nat) (b : Int) (fuel : Nat) (y : Int) (l r : Edge) (xl xr : Int → Int) : Prop :=
  ∀ p ∈ walkRows n b fuel y l r, p.2.1 = xl p.1 ∧ p.2.2 = xr p.1

/-- no-overflow condition of the a1 row body (`x + X_FRAC_FIRST (1) - e` fits an `int`) -/
def X1Ok (n : Nat) (lo hi : Int) (xl xr : Int → Int) : Prop :=
  n = 1 → ∀ g, lo ≤ g → g ≤ hi →
    (-2147483648 ≤ xl g ∧ xl g ≤ 2147450880) ∧ (-2147483648 ≤ xr g ∧ xr g ≤ 2147450880)

theorem naiveLoop_spec (n : Nat) (hn : Depth n) (b : Int) (hb : IsGridRow n b) (hb2 : b ≤ 2147483647) (xl xr : Int → Int) :
    ∀ (fuel : Nat) (y : Int) (l r : Edge) (img : Img), ImgWF n img → IsGridRow n y → y ≤ b → 0 ≤ y →
      b / 65536 < (img.height : Int) → (b - y) / stepYSmall n + 1 ≤ (fuel : Int) →
      WalkIs n b fuel y l r xl xr → X1Ok n y b xl xr →
      ImgWF n (naiveLoop n b fuel y l r img) ∧
      (naiveLoop n b fuel y l r img).width = img.width ∧ (naiveLoop n b fuel y l r img).height = img.height ∧
      (naiveLoop n b fuel y l r img).oob = img.oob ∧ (naiveLoop n b fuel y l r img).runaway = img.runaway ∧
      ∀ ρ c : Nat, ρ < img.height → c < img.width →
        px (naiveLoop n b fuel y l r img).rows ρ c =
          pixelValue n (px img.rows ρ c) (rowsSum n y b (fun g => rowCount n (xl g) (xr g) c) ρ) := by
  intro fuel
  induction fuel with
  | zero => intro y l r img _ _ hyb _ _ hf; exact (fuel_ne_zero n hn y b hyb hf).elim
  | succ fuel ih =>
    intro y l r img hwf hy hyb hy0 hbh hf hwalk hx1
    have hline0 : 0 ≤ fixedToInt y := Int.ediv_nonneg hy0 (by decide)
    have hlineb : fixedToInt y ≤ b / 65536 := Int.ediv_le_ediv (by decide) hyb
    have hin : 0 ≤ fixedToInt y ∧ fixedToInt y < (img.height : Int) := ⟨hline0, by omega⟩
    have hk : (fixedToInt y).toNat < img.rows.size := by rw [hwf.rows_size]; omega
    -- the image after this row
    have hwalk0 := hwalk (y, l.x, r.x) (by simp only [walkRows]; exact List.mem_cons_self ..)
    simp only at hwalk0
    have hrow : ∀ c : Nat, c < img.width →
        (rowOp n (img.rows[(fixedToInt y).toNat]?.getD #[]) img.width l.x r.x)[c]?.getD 0 =
          pixelValue n (px img.rows (fixedToInt y).toNat c) (rowCount n (xl y) (xr y) c) := by
      intro c hc
      rw [hwalk0.1, hwalk0.2]
      exact rowOp_spec n hn _ img.width (xl y) (xr y) (hwf.cols _ (by omega)) hwf.hw
        (fun c => hwf.vals (fixedToInt y).toNat c) (fun h => hx1 h y (by omega) hyb) c hc
    generalize himg1 : (img.modifyRow (fixedToInt y) fun row => rowOp n row img.width l.x r.x) = img1
    have himg1' : img1 = { img with rows := img.rows.modify (fixedToInt y).toNat fun row => rowOp n row img.width l.x r.x } := by
      rw [← himg1]; simp only [Img.modifyRow, hin, and_self, if_true]
    have hpx1 : ∀ ρ c : Nat, c < img.width → px img1.rows ρ c =
        if (fixedToInt y).toNat = ρ then pixelValue n (px img.rows ρ c) (rowCount n (xl y) (xr y) c) else px img.rows ρ c := by
      intro ρ c hc
      rw [himg1']
      simp only
      rw [px_modify _ _ _ _ _ hk]
      by_cases h : (fixedToInt y).toNat = ρ
      · subst h; simp only [if_true]; exact hrow c hc
      · simp only [h, if_false]
    have hwf1 : ImgWF n img1 := by
      rw [himg1']
      refine ⟨?_, ?_, hwf.hw, ?_⟩
      · simp only [Array.size_modify]; exact hwf.rows_size
      · intro ρ hρ
        simp only
        rw [getD_modify _ _ _ _ hk]
        split
        · rw [rowOp_size]; exact hwf.cols ρ hρ
        · exact hwf.cols ρ hρ
      · intro ρ c
        simp only
        rw [px_modify _ _ _ _ _ hk]
        split
        · next h =>
          by_cases hc : c < img.width
          · rw [← h, hrow c hc]; exact pixelValue_le ..
          · rw [getD_of_ge]
            · omega
            · rw [rowOp_size, hwf.cols ρ (by omega)]; omega
        · exact hwf.vals ρ c
    have hdims : img1.width = img.width ∧ img1.height = img.height ∧ img1.oob = img.oob ∧ img1.runaway = img.runaway := by
      rw [himg1']; exact ⟨rfl, rfl, rfl, rfl⟩
    simp only [naiveLoop]
    rw [himg1]
    by_cases hyeq : y = b
    · have hbe : (y == b) = true := by simp [hyeq]
      simp only [hbe, if_true]
      refine ⟨hwf1, hdims.1, hdims.2.1, hdims.2.2.1, hdims.2.2.2, ?_⟩
      intro ρ c hρ hc
      rw [hpx1 ρ c hc]
      subst hyeq
      rw [rowsSum_last n hn y hy]
      have : (fixedToInt y).toNat = ρ ↔ y / 65536 = (ρ : Int) := by simp only [fixedToInt] at hline0 ⊢; omega
      by_cases h : (fixedToInt y).toNat = ρ
      · rw [if_pos h, if_pos (this.mp h)]
      · rw [if_neg h, if_neg (fun e => h (this.mpr e)), pixelValue_zero _ _ (hwf.vals ρ c)]
    · have hbe : (y == b) = false := by simp [hyeq]
      simp only [hbe, Bool.false_eq_true, if_false]
      obtain ⟨g1, g2, g3, g4, _, _⟩ := nextY_grid n hn y b hy hb (by omega)
      have hw : wrap32 (nextY n y) = nextY n y := wrap32_id _ (by omega) (by omega)
      have hfuel := fuel_step n hn y (nextY n y) b fuel g4 g3 hf
      have hx1' : X1Ok n (nextY n y) b xl xr := fun h g h1 h2 => hx1 h g (by omega) h2
      have hstep : ∀ ρ c : Nat, ρ < img.height → c < img.width →
          pixelValue n (px img1.rows ρ c) (rowsSum n (nextY n y) b (fun g => rowCount n (xl g) (xr g) c) ρ) =
          pixelValue n (px img.rows ρ c) (rowsSum n y b (fun g => rowCount n (xl g) (xr g) c) ρ) := by
        intro ρ c hρ hc
        rw [hpx1 ρ c hc, rowsSum_step n hn y b hy hb (by omega)]
        have : (fixedToInt y).toNat = ρ ↔ y / 65536 = (ρ : Int) := by simp only [fixedToInt] at hline0 ⊢; omega
        by_cases h : (fixedToInt y).toNat = ρ
        · rw [if_pos h, if_pos (this.mp h), pixelValue_add]
        · rw [if_neg h, if_neg (fun e => h (this.mpr e)), Nat.zero_add]
      rcases Bool.eq_false_or_eq_true (n != 1 && fixedFrac y != yFracLast n) with hc | hc
      · have hny : nextY n y = y + stepYSmall n := by simp only [nextY, hc, if_true]
        have hwalk' : WalkIs n b fuel (nextY n y) (stepSmall l) (stepSmall r) xl xr := by
          intro p hp
          apply hwalk p
          simp only [walkRows, hbe, hc, Bool.false_eq_true, if_false, if_true, ← hny, hw]
          exact List.mem_cons_of_mem _ hp
        simp only [hc, if_true, ← hny, hw]
        obtain ⟨q1, q2, q3, q4, q5, q6⟩ := ih (nextY n y) (stepSmall l) (stepSmall r) img1 hwf1 g1 g3 (by omega)
          (by rw [hdims.2.1]; exact hbh) hfuel hwalk' hx1'
        refine ⟨q1, q2.trans hdims.1, q3.trans hdims.2.1, q4.trans hdims.2.2.1, q5.trans hdims.2.2.2, ?_⟩
        intro ρ c hρ hc'
        rw [q6 ρ c (by rw [hdims.2.1]; exact hρ) (by rw [hdims.1]; exact hc'), hstep ρ c hρ hc']
      · have hny : nextY n y = y + stepYBig n := by simp only [nextY, hc, Bool.false_eq_true, if_false]
        have hwalk' : WalkIs n b fuel (nextY n y) (stepBig l) (stepBig r) xl xr := by
          intro p hp
          apply hwalk p
          simp only [walkRows, hbe, hc, Bool.false_eq_true, if_false, ← hny, hw]
          exact List.mem_cons_of_mem _ hp
        simp only [hc, Bool.false_eq_true, if_false, ← hny, hw]
        obtain ⟨q1, q2, q3, q4, q5, q6⟩ := ih (nextY n y) (stepBig l) (stepBig r) img1 hwf1 g1 g3 (by omega)
          (by rw [hdims.2.1]; exact hbh) hfuel hwalk' hx1'
        refine ⟨q1, q2.trans hdims.1, q3.trans hdims.2.1, q4.trans hdims.2.2.1, q5.trans hdims.2.2.2, ?_⟩
        intro ρ c hρ hc'
        rw [q6 ρ c (by rw [hdims.2.1]; exact hρ) (by rw [hdims.1]; exact hc'), hstep ρ c hρ hc']

/-! ### the whole shape -/

/-- `Spec.addShape` for arbitrary per-row abscissae `xl`, `xr` (the Spec uses the lines' `snapX`) -/
def addSpans (n : Nat) (w h : Nat) (img : Array (Array Nat)) (top bottom : Int) (xl xr : Int → Int) : Array (Array Nat) :=
  (Array.range h).map fun (r : Nat) => (Array.range w).map fun (c : Nat) =>
    pixelValue n ((img[r]?.getD #[])[c]?.getD 0)
      ((List.range (nYFrac n).toNat).map fun k =>
        let sy := rowPos n (r : Int) k
        if top ≤ sy ∧ sy < bottom then rowCount n (xl sy) (xr sy) (c : Int) else 0).sum

theorem addShape_eq_addSpans (n w h : Nat) (img : Array (Array Nat)) (s : Shape) :
    addShape n w h img s = addSpans n w h img s.top s.bottom s.left.snapX s.right.snapX := rfl

theorem addSpans_px (n w h : Nat) (img : Array (Array Nat)) (top bottom : Int) (xl xr : Int → Int) (ρ c : Nat)
    (hρ : ρ < h) (hc : c < w) :
    px (addSpans n w h img top bottom xl xr) ρ c =
      pixelValue n (px img ρ c)
        ((List.range (nYFrac n).toNat).map fun k =>
          if top ≤ rowPos n (ρ : Int) k ∧ rowPos n (ρ : Int) k < bottom then
            rowCount n (xl (rowPos n (ρ : Int) k)) (xr (rowPos n (ρ : Int) k)) (c : Int) else 0).sum := by
  simp [px, addSpans, hρ, hc]

theorem rows_ext (rows rows' : Array (Array Nat)) (h w : Nat) (h1 : rows.size = h) (h2 : rows'.size = h)
    (c1 : ∀ r, r < h → (rows[r]?.getD #[]).size = w) (c2 : ∀ r, r < h → (rows'[r]?.getD #[]).size = w)
    (hpx : ∀ ρ c, ρ < h → c < w → px rows ρ c = px rows' ρ c) : rows = rows' := by
  apply Array.ext (by omega)
  intro r hr hr'
  have e1 : rows[r]?.getD #[] = rows[r] := by simp [hr]
  have e2 : rows'[r]?.getD #[] = rows'[r] := by simp [hr']
  have s1 := c1 r (by omega)
  have s2 := c2 r (by omega)
  rw [e1] at s1
  rw [e2] at s2
  apply Array.ext (by omega)
  intro c hc hc'
  have := hpx r c (by omega) (by omega)
  simp only [px, e1, e2] at this
  rw [getD_of_lt _ _ hc, getD_of_lt _ _ hc'] at this
  exact this

theorem img_ext (a b : Img) (h1 : a.width = b.width) (h2 : a.height = b.height) (h3 : a.rows = b.rows)
    (h4 : a.oob = b.oob) (h5 : a.runaway = b.runaway) : a = b := by
  cases a; cases b; simp_all

theorem rasterizeEdges_eq_naiveLoop (n : Nat) (hn : Depth n) (img : Img) (l r : Edge) (t b : Int)
    (ht : IsGridRow n t) (hb : IsGridRow n b) (htb : t ≤ b) (ht0 : -2147483648 ≤ t) (hb2 : b ≤ 2147483647) :
    rasterizeEdges n img l r t b = naiveLoop n b (rowFuel n t b) t l r img := by
  rcases hn with h | h | h <;> subst h <;> simp only [rasterizeEdges]
  · exact edgesLoop_eq_naiveLoop 1 (Or.inl rfl) ..
  · exact edgesLoop_eq_naiveLoop 4 (Or.inr rfl) ..
  · rw [edgesLoop8_eq_naive t b l r img ht hb htb ht0 hb2]; exact edgesLoop8Naive_eq_naiveLoop ..

/-- R3 over all sample rows: `pixman_rasterize_edges` between the grid rows `t ≤ b` of an image adds,
    to every pixel, the number of samples between the walked abscissae `xl`, `xr` of its rows -/
theorem rasterizeEdges_rows (n : Nat) (hn : Depth n) (img : Img) (hwf : ImgWF n img) (l r : Edge) (t b : Int)
    (ht : IsGridRow n t) (hb : IsGridRow n b) (htb : t ≤ b) (ht0 : 0 ≤ t) (hbh : b / 65536 < (img.height : Int))
    (hb2 : b ≤ 2147483647) (top bottom : Int) (xl xr : Int → Int)
    (hrows : ∀ g, IsGridRow n g → 0 ≤ g / 65536 → g / 65536 < (img.height : Int) →
      ((top ≤ g ∧ g < bottom) ↔ (t ≤ g ∧ g ≤ b)))
    (hwalk : WalkIs n b (rowFuel n t b) t l r xl xr) (hx1 : X1Ok n t b xl xr) :
    rasterizeEdges n img l r t b = { img with rows := addSpans n img.width img.height img.rows top bottom xl xr } := by
  rw [rasterizeEdges_eq_naiveLoop n hn img l r t b ht hb htb (by omega) hb2]
  have hfuel : (b - t) / stepYSmall n + 1 ≤ ((rowFuel n t b : Nat) : Int) := by
    have : 0 ≤ (b - t) / stepYSmall n := Int.ediv_nonneg (by omega) (by
      rcases hn with h | h | h <;> subst h <;> simp only [stepYSmall] <;> omega)
    simp only [rowFuel]; omega
  obtain ⟨q1, q2, q3, q4, q5, q6⟩ := naiveLoop_spec n hn b hb hb2 xl xr (rowFuel n t b) t l r img hwf ht htb ht0 hbh
    hfuel hwalk hx1
  refine img_ext _ _ q2 q3 ?_ q4 q5
  show (naiveLoop n b (rowFuel n t b) t l r img).rows = addSpans n img.width img.height img.rows top bottom xl xr
  apply rows_ext _ _ img.height img.width (by rw [q1.rows_size, q3]) (by simp [addSpans])
    (fun r hr => by rw [q1.cols r (by omega), q2]) (fun r hr => by simp [addSpans, hr])
  intro ρ c hρ hc
  rw [q6 ρ c hρ hc, addSpans_px _ _ _ _ _ _ _ _ _ _ hρ hc]
  congr 1
  unfold rowsSum
  apply sum_map_congr
  intro k hk
  have hk' : (k : Int) < nYFrac n := by have := List.mem_range.mp hk; omega
  have hg : IsGridRow n (rowPos n ρ k) := ⟨ρ, k, hk', rfl⟩
  have hd := rowPos_div n hn ρ k hk'
  have := hrows _ hg (by omega) (by omega)
  by_cases h : top ≤ rowPos n ρ k ∧ rowPos n ρ k < bottom
  · rw [if_pos h, if_pos (this.mp h)]
  · rw [if_neg h, if_neg (fun e => h (this.mpr e))]

/-! ### the edge walker over the rows of the loop -/

theorem stepBy_fields (e : Edge) (sx dxs : Int) :
    (stepBy e sx dxs).dy = e.dy ∧ (stepBy e sx dxs).signdx = e.signdx ∧ (stepBy e sx dxs).stepx = e.stepx ∧
    (stepBy e sx dxs).dx = e.dx ∧ (stepBy e sx dxs).stepxSmall = e.stepxSmall ∧ (stepBy e sx dxs).stepxBig = e.stepxBig ∧
    (stepBy e sx dxs).dxSmall = e.dxSmall ∧ (stepBy e sx dxs).dxBig = e.dxBig := by
  simp only [stepBy]; split <;> simp

theorem slopeInv_stepBy (n : Nat) (e : Edge) (DX sx dxs : Int) (hS : SlopeInv e DX n) : SlopeInv (stepBy e sx dxs) DX n := by
  obtain ⟨f1, f2, f3, f4, f5, f6, f7, f8⟩ := stepBy_fields e sx dxs
  obtain ⟨b, s, g⟩ := hS
  exact ⟨by rw [f3, f1, f2, f4]; exact b, by rw [f5, f1, f2, f7]; exact s, by rw [f6, f1, f2, f8]; exact g⟩

/-- the represented abscissa `M / dy` fits an `int` with one unit to spare below -/
def FitAt (dy M : Int) : Prop := -2147483648 ≤ M / dy - 1 ∧ M / dy ≤ 2147483647

theorem stepSmall_inv (n : Nat) (e : Edge) (N DX : Int) (hI : EdgeInv e N) (hS : SlopeInv e DX n)
    (hfit : FitAt e.dy (N + stepYSmall n * DX)) :
    EdgeInv (stepSmall e) (N + stepYSmall n * DX) ∧ SlopeInv (stepSmall e) DX n ∧
    (stepSmall e).dy = e.dy ∧ (stepSmall e).signdx = e.signdx := by
  rw [stepSmall_eq]
  exact ⟨stepBy_inv e N _ _ _ hI hS.small.1 hS.small.2.1 hS.small.2.2 hfit, slopeInv_stepBy n e DX _ _ hS,
    (stepBy_fields ..).1, (stepBy_fields ..).2.1⟩

theorem stepBig_inv (n : Nat) (e : Edge) (N DX : Int) (hI : EdgeInv e N) (hS : SlopeInv e DX n)
    (hfit : FitAt e.dy (N + stepYBig n * DX)) :
    EdgeInv (stepBig e) (N + stepYBig n * DX) ∧ SlopeInv (stepBig e) DX n ∧
    (stepBig e).dy = e.dy ∧ (stepBig e).signdx = e.signdx := by
  rw [stepBig_eq]
  exact ⟨stepBy_inv e N _ _ _ hI hS.big.1 hS.big.2.1 hS.big.2.2 hfit, slopeInv_stepBy n e DX _ _ hS,
    (stepBy_fields ..).1, (stepBy_fields ..).2.1⟩

/-- an edge of integral slope in its initial error state: `RENDER_EDGE_STEP_SMALL/BIG` never change `e`,
    so the history-dependent state `e = 0` (abscissa represented one lattice unit to the left) is
    never entered -/
def Stiff (e : Edge) : Prop := e.dxSmall = 0 ∧ e.dxBig = 0 ∧ e.e = -e.dy

theorem stiff_stepBy (e : Edge) (sx : Int) (h0 : 0 < e.dy) (h1 : e.dy < 2147483648) (he : e.e = -e.dy) :
    (stepBy e sx 0).e = -e.dy := by
  have : wrap32 (e.e + 0) = -e.dy := by rw [Int.add_zero, he]; exact wrap32_id _ (by omega) (by omega)
  simp only [stepBy, this]
  rw [if_neg (by omega)]

theorem stiff_stepSmall (e : Edge) (h0 : 0 < e.dy) (h1 : e.dy < 2147483648) (h : Stiff e) : Stiff (stepSmall e) := by
  obtain ⟨f1, _, _, _, _, _, f7, f8⟩ := stepBy_fields e e.stepxSmall e.dxSmall
  rw [stepSmall_eq]
  refine ⟨f7.trans h.1, f8.trans h.2.1, ?_⟩
  rw [f1, h.1]; exact stiff_stepBy e _ h0 h1 h.2.2

theorem stiff_stepBig (e : Edge) (h0 : 0 < e.dy) (h1 : e.dy < 2147483648) (h : Stiff e) : Stiff (stepBig e) := by
  obtain ⟨f1, _, _, _, _, _, f7, f8⟩ := stepBy_fields e e.stepxBig e.dxBig
  rw [stepBig_eq]
  refine ⟨f7.trans h.1, f8.trans h.2.1, ?_⟩
  rw [f1, h.2.1]; exact stiff_stepBy e _ h0 h1 h.2.2

/-- R2 along the row loop: if the two edges represent the abscissae `(Al + y·DXl) / dy`, `(Ar + y·DXr) / dy`
    on the first row, then on every visited row `g` (a grid row between `y` and `b`) the walked
    `x` values are those of edge states representing `(Al + g·DXl) / dy`, `(Ar + g·DXr) / dy` -/
theorem walkRows_inv (n : Nat) (hn : Depth n) (b : Int) (hb : IsGridRow n b) (hb2 : b ≤ 2147483647)
    (Al DXl Ar DXr dyl dyr sl sr : Int) :
    ∀ (fuel : Nat) (y : Int) (l r : Edge), IsGridRow n y → y ≤ b → -2147483648 ≤ y →
      EdgeInv l (Al + y * DXl) → SlopeInv l DXl n → l.dy = dyl → l.signdx = sl →
      EdgeInv r (Ar + y * DXr) → SlopeInv r DXr n → r.dy = dyr → r.signdx = sr →
      (∀ g, IsGridRow n g → y ≤ g → g ≤ b → FitAt dyl (Al + g * DXl) ∧ FitAt dyr (Ar + g * DXr)) →
      ∀ p ∈ walkRows n b fuel y l r, IsGridRow n p.1 ∧ y ≤ p.1 ∧ p.1 ≤ b ∧
        ∃ el er : Edge, el.x = p.2.1 ∧ er.x = p.2.2 ∧
          EdgeInv el (Al + p.1 * DXl) ∧ el.dy = dyl ∧ el.signdx = sl ∧
          EdgeInv er (Ar + p.1 * DXr) ∧ er.dy = dyr ∧ er.signdx = sr ∧
          (Stiff l → el.e = -dyl) ∧ (Stiff r → er.e = -dyr) := by
  intro fuel
  induction fuel with
  | zero => intro y l r _ _ _ _ _ _ _ _ _ _ _ _ p hp; simp [walkRows] at hp
  | succ fuel ih =>
    intro y l r hy hyb hy0 hIl hSl hdl hsl hIr hSr hdr hsr hfit p hp
    simp only [walkRows, List.mem_cons] at hp
    rcases hp with hp | hp
    · subst hp
      exact ⟨hy, Int.le_refl _, hyb, l, r, rfl, rfl, hIl, hdl, hsl, hIr, hdr, hsr,
        fun h => by rw [← hdl]; exact h.2.2, fun h => by rw [← hdr]; exact h.2.2⟩
    · by_cases hyeq : y = b
      · simp [hyeq] at hp
      · have hbe : (y == b) = false := by simp [hyeq]
        simp only [hbe, Bool.false_eq_true, if_false] at hp
        obtain ⟨g1, g2, g3, g4, _, _⟩ := nextY_grid n hn y b hy hb (by omega)
        have hw : wrap32 (nextY n y) = nextY n y := wrap32_id _ (by omega) (by omega)
        have hfit' : ∀ g, IsGridRow n g → nextY n y ≤ g → g ≤ b → FitAt dyl (Al + g * DXl) ∧ FitAt dyr (Ar + g * DXr) :=
          fun g h1 h2 h3 => hfit g h1 (by omega) h3
        have hfn := hfit (nextY n y) g1 (by omega) g3
        rcases Bool.eq_false_or_eq_true (n != 1 && fixedFrac y != yFracLast n) with hc | hc
        · have hny : nextY n y = y + stepYSmall n := by simp only [nextY, hc, if_true]
          simp only [hc, if_true, ← hny, hw] at hp
          have el : Al + nextY n y * DXl = Al + y * DXl + stepYSmall n * DXl := by rw [hny, Int.add_mul]; omega
          have er : Ar + nextY n y * DXr = Ar + y * DXr + stepYSmall n * DXr := by rw [hny, Int.add_mul]; omega
          obtain ⟨a1, a2, a3, a4⟩ := stepSmall_inv n l _ DXl hIl hSl (by rw [hdl, ← el]; exact hfn.1)
          obtain ⟨b1, b2, b3, b4⟩ := stepSmall_inv n r _ DXr hIr hSr (by rw [hdr, ← er]; exact hfn.2)
          obtain ⟨r1, r2, r3, r4⟩ := ih (nextY n y) (stepSmall l) (stepSmall r) g1 g3 (by omega)
            (by rw [el]; exact a1) a2 (a3.trans hdl) (a4.trans hsl) (by rw [er]; exact b1) b2 (b3.trans hdr) (b4.trans hsr) hfit' p hp
          obtain ⟨el', er', u1, u2, u3, u4, u5, u6, u7, u8, u9, u10⟩ := r4
          exact ⟨r1, by omega, r3, el', er', u1, u2, u3, u4, u5, u6, u7, u8,
            fun h => u9 (stiff_stepSmall l hIl.dy_pos hIl.dy_lt h), fun h => u10 (stiff_stepSmall r hIr.dy_pos hIr.dy_lt h)⟩
        · have hny : nextY n y = y + stepYBig n := by simp only [nextY, hc, Bool.false_eq_true, if_false]
          simp only [hc, Bool.false_eq_true, if_false, ← hny, hw] at hp
          have el : Al + nextY n y * DXl = Al + y * DXl + stepYBig n * DXl := by rw [hny, Int.add_mul]; omega
          have er : Ar + nextY n y * DXr = Ar + y * DXr + stepYBig n * DXr := by rw [hny, Int.add_mul]; omega
          obtain ⟨a1, a2, a3, a4⟩ := stepBig_inv n l _ DXl hIl hSl (by rw [hdl, ← el]; exact hfn.1)
          obtain ⟨b1, b2, b3, b4⟩ := stepBig_inv n r _ DXr hIr hSr (by rw [hdr, ← er]; exact hfn.2)
          obtain ⟨r1, r2, r3, r4⟩ := ih (nextY n y) (stepBig l) (stepBig r) g1 g3 (by omega)
            (by rw [el]; exact a1) a2 (a3.trans hdl) (a4.trans hsl) (by rw [er]; exact b1) b2 (b3.trans hdr) (b4.trans hsr) hfit' p hp
          obtain ⟨el', er', u1, u2, u3, u4, u5, u6, u7, u8, u9, u10⟩ := r4
          exact ⟨r1, by omega, r3, el', er', u1, u2, u3, u4, u5, u6, u7, u8,
            fun h => u9 (stiff_stepBig l hIl.dy_pos hIl.dy_lt h), fun h => u10 (stiff_stepBig r hIr.dy_pos hIr.dy_lt h)⟩

/-! ### composition: invariant at the first row ⇒ sample count of the whole shape -/

/-- `N = X·dy` of the line at height `y` -/
def lineNum (e : EdgeLine) (y : Int) : Int := e.xTop * (e.yBot - e.yTop) + (y - e.yTop) * (e.xBot - e.xTop)

theorem lineNum_eq (e : EdgeLine) (y : Int) :
    lineNum e y = (e.xTop * (e.yBot - e.yTop) - e.yTop * (e.xBot - e.xTop)) + y * (e.xBot - e.xTop) := by
  simp only [lineNum, Int.sub_mul]; omega

/-- `edge_x_eq_snapX` with the third case: integral slope and the error term not in the state `e = 0` -/
theorem edge_x_eq_snapX' (e : Edge) (l : EdgeLine) (y : Int) (hdy : 0 < l.yBot - l.yTop)
    (hdyeq : e.dy = l.yBot - l.yTop) (hI : EdgeInv e (lineNum l y))
    (hnotie : lineNum l y % (l.yBot - l.yTop) ≠ 0 ∨ (e.signdx = -1 ∧ l.xBot - l.xTop < 0) ∨
              (e.e ≠ 0 ∧ (l.xBot - l.xTop) % (l.yBot - l.yTop) = 0)) :
    e.x = l.snapX y := by
  rcases hnotie with h | h | h
  · exact edge_x_eq_snapX e l y hdy hdyeq hI (Or.inl h)
  · exact edge_x_eq_snapX e l y hdy hdyeq hI (Or.inr h)
  · have h1 := edge_x_of_inv e _ hI
    rw [hdyeq] at h1
    have hN : lineNum l y / (l.yBot - l.yTop) = l.xTop + (y - l.yTop) * (l.xBot - l.xTop) / (l.yBot - l.yTop) := by
      show (l.xTop * (l.yBot - l.yTop) + (y - l.yTop) * (l.xBot - l.xTop)) / (l.yBot - l.yTop) = _
      rw [Int.add_comm, Int.mul_comm l.xTop, Int.add_mul_ediv_left _ _ (Int.ne_of_gt hdy)]; omega
    have hs : l.snapX y = l.xTop + (y - l.yTop) * (l.xBot - l.xTop) / (l.yBot - l.yTop) := by
      simp only [EdgeLine.snapX, h.2, Int.mul_zero, ne_eq, not_true_eq_false, and_false, if_false]
    rcases h1 with h1 | h1
    · rw [h1.1, hN, hs]
    · exact absurd h1.2.1 h.1

/-- the exact-invariant form: edges that represent `(Al + t·DXl)/dyl`, `(Ar + t·DXr)/dyr` on the first row
    (`Al`, `Ar` may contain the fraction lost by `pixman_edge_step`) and never pass through a lattice
    point while leaning right: the result is the sample count between `⌊(Al + g·DXl)/dyl⌋` and
    `⌊(Ar + g·DXr)/dyr⌋` on every row `g` -/
theorem rasterizeEdges_walked (n : Nat) (hn : Depth n) (img : Img) (hwf : ImgWF n img) (l r : Edge) (t b : Int)
    (ht : IsGridRow n t) (hb : IsGridRow n b) (htb : t ≤ b) (ht0 : 0 ≤ t) (hbh : b / 65536 < (img.height : Int))
    (hb2 : b ≤ 2147483647) (top bottom : Int)
    (hrows : ∀ g, IsGridRow n g → 0 ≤ g / 65536 → g / 65536 < (img.height : Int) →
      ((top ≤ g ∧ g < bottom) ↔ (t ≤ g ∧ g ≤ b)))
    (Al DXl Ar DXr : Int)
    (hIl : EdgeInv l (Al + t * DXl)) (hSl : SlopeInv l DXl n) (hIr : EdgeInv r (Ar + t * DXr)) (hSr : SlopeInv r DXr n)
    (hfit : ∀ g, IsGridRow n g → t ≤ g → g ≤ b → FitAt l.dy (Al + g * DXl) ∧ FitAt r.dy (Ar + g * DXr))
    (hnotie : ∀ g, IsGridRow n g → t ≤ g → g ≤ b →
      ((Al + g * DXl) % l.dy ≠ 0 ∨ l.signdx = -1 ∨ Stiff l) ∧ ((Ar + g * DXr) % r.dy ≠ 0 ∨ r.signdx = -1 ∨ Stiff r))
    (hx1 : X1Ok n t b (fun g => (Al + g * DXl) / l.dy) (fun g => (Ar + g * DXr) / r.dy)) :
    rasterizeEdges n img l r t b =
      { img with rows := (addSpans n img.width img.height img.rows top bottom
          (fun g => (Al + g * DXl) / l.dy) (fun g => (Ar + g * DXr) / r.dy)) } := by
  apply rasterizeEdges_rows n hn img hwf l r t b ht hb htb ht0 hbh hb2 top bottom _ _ hrows _ hx1
  intro p hp
  obtain ⟨g1, g2, g3, el, er, e1, e2, i1, d1, s1, i2, d2, s2, t1, t2⟩ :=
    walkRows_inv n hn b hb hb2 Al DXl Ar DXr l.dy r.dy l.signdx r.signdx (rowFuel n t b) t l r ht htb (by omega)
      hIl hSl rfl rfl hIr hSr rfl rfl hfit p hp
  obtain ⟨n1, n2⟩ := hnotie p.1 g1 g2 g3
  have x1 := edge_x_of_inv el _ i1
  have x2 := edge_x_of_inv er _ i2
  have p1 := hIl.dy_pos
  have p2 := hIr.dy_pos
  rw [d1, s1] at x1
  rw [d2, s2] at x2
  simp only
  constructor
  · rw [← e1]
    rcases x1 with x1 | x1
    · exact x1.1
    · rcases n1 with n1 | n1 | n1
      · exact absurd x1.2.2.1 n1
      · omega
      · have := t1 n1; omega
  · rw [← e2]
    rcases x2 with x2 | x2
    · exact x2.1
    · rcases n2 with n2 | n2 | n2
      · exact absurd x2.2.2.1 n2
      · omega
      · have := t2 n2; omega

/-- R3 for a whole shape: edges that represent the exact abscissae of the shape's lines on the first
    row (nothing lost by `pixman_edge_step`), no lattice tie of a right-leaning edge on a visited
    row: `pixman_rasterize_edges` = `Spec.addShape` -/
theorem rasterizeEdges_eq_addShape (n : Nat) (hn : Depth n) (img : Img) (hwf : ImgWF n img) (s : Shape) (l r : Edge)
    (t b : Int) (ht : IsGridRow n t) (hb : IsGridRow n b) (htb : t ≤ b) (ht0 : 0 ≤ t)
    (hbh : b / 65536 < (img.height : Int)) (hb2 : b ≤ 2147483647)
    (hrows : ∀ g, IsGridRow n g → 0 ≤ g / 65536 → g / 65536 < (img.height : Int) →
      ((s.top ≤ g ∧ g < s.bottom) ↔ (t ≤ g ∧ g ≤ b)))
    (hdyl : 0 < s.left.yBot - s.left.yTop) (hdyr : 0 < s.right.yBot - s.right.yTop)
    (hdl : l.dy = s.left.yBot - s.left.yTop) (hdr : r.dy = s.right.yBot - s.right.yTop)
    (hIl : EdgeInv l (lineNum s.left t)) (hSl : SlopeInv l (s.left.xBot - s.left.xTop) n)
    (hIr : EdgeInv r (lineNum s.right t)) (hSr : SlopeInv r (s.right.xBot - s.right.xTop) n)
    (hfit : ∀ g, IsGridRow n g → t ≤ g → g ≤ b → FitAt l.dy (lineNum s.left g) ∧ FitAt r.dy (lineNum s.right g))
    (hnotie : ∀ g, IsGridRow n g → t ≤ g → g ≤ b →
      (lineNum s.left g % (s.left.yBot - s.left.yTop) ≠ 0 ∨ (l.signdx = -1 ∧ s.left.xBot - s.left.xTop < 0) ∨
        (Stiff l ∧ (s.left.xBot - s.left.xTop) % (s.left.yBot - s.left.yTop) = 0)) ∧
      (lineNum s.right g % (s.right.yBot - s.right.yTop) ≠ 0 ∨ (r.signdx = -1 ∧ s.right.xBot - s.right.xTop < 0) ∨
        (Stiff r ∧ (s.right.xBot - s.right.xTop) % (s.right.yBot - s.right.yTop) = 0)))
    (hx1 : X1Ok n t b s.left.snapX s.right.snapX) :
    rasterizeEdges n img l r t b = { img with rows := addShape n img.width img.height img.rows s } := by
  rw [addShape_eq_addSpans]
  apply rasterizeEdges_rows n hn img hwf l r t b ht hb htb ht0 hbh hb2 s.top s.bottom _ _ hrows _ hx1
  intro p hp
  obtain ⟨g1, g2, g3, el, er, e1, e2, i1, d1, s1, i2, d2, s2, t1, t2⟩ :=
    walkRows_inv n hn b hb hb2 _ (s.left.xBot - s.left.xTop) _ (s.right.xBot - s.right.xTop) l.dy r.dy l.signdx r.signdx
      (rowFuel n t b) t l r ht htb (by omega)
      (by rw [← lineNum_eq]; exact hIl) hSl rfl rfl (by rw [← lineNum_eq]; exact hIr) hSr rfl rfl
      (fun g h1 h2 h3 => by rw [← lineNum_eq, ← lineNum_eq]; exact hfit g h1 h2 h3) p hp
  obtain ⟨n1, n2⟩ := hnotie p.1 g1 g2 g3
  rw [← lineNum_eq] at i1 i2
  rw [← e1, ← e2]
  exact ⟨edge_x_eq_snapX' el s.left p.1 hdyl (d1.trans hdl) i1 (by
            rcases n1 with n1 | n1 | n1
            · exact Or.inl n1
            · exact Or.inr (Or.inl (by rw [s1]; exact n1))
            · exact Or.inr (Or.inr ⟨by rw [t1 n1.1, hdl]; omega, n1.2⟩)),
         edge_x_eq_snapX' er s.right p.1 hdyr (d2.trans hdr) i2 (by
            rcases n2 with n2 | n2 | n2
            · exact Or.inl n2
            · exact Or.inr (Or.inl (by rw [s2]; exact n2))
            · exact Or.inr (Or.inr ⟨by rw [t2 n2.1, hdr]; omega, n2.2⟩))⟩

end Pixman.Lemmas.TrapShape

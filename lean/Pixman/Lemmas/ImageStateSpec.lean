import Pixman.Spec.ImageState
import Pixman.Lemmas.ImageState
/-! Refinement: each model step changes creation constants / properties / alpha counts exactly as
the assignment semantics of the Spec. -/
namespace Pixman.Spec.ImageState
open Pixman.Model.ImageState

theorem toSpec_upd (w : World) (i : Nat) (f : Image → Image) (g : Props → Props)
    (h : ∀ im, (f im).cr = im.cr ∧ (f im).props = g im.props ∧ (f im).alphaCount = im.alphaCount) :
    toSpec (upd w i f) = assign (toSpec w) i g := by
  funext k
  unfold toSpec assign
  by_cases hk : k = i
  · subst hk
    simp only [upd_same, if_pos]
    obtain ⟨a, b, c⟩ := h (w.get k)
    rw [a, b, c]
  · simp only [upd_other _ _ _ _ hk, if_neg hk]

theorem toSpec_upd_id (w : World) (i : Nat) (f : Image → Image)
    (h : ∀ im, (f im).cr = im.cr ∧ (f im).props = im.props ∧ (f im).alphaCount = im.alphaCount) :
    toSpec (upd w i f) = toSpec w := by
  rw [toSpec_upd w i f id h]
  funext k; unfold assign; split
  · rename_i hk; subst hk; rfl
  · rfl

theorem refines_setRepeat (w : World) (i : Nat) (r : Int) :
    toSpec (step w (.setRepeat i r)) = sstep (toSpec w) (.setRepeat i r) := by
  show toSpec (upd w i (fun im => setRepeatI im r)) = assign (toSpec w) i (fun p => { p with repeat_ := r })
  apply toSpec_upd
  intro im
  simp only [setRepeatI, imagePropertyChanged]
  split
  · rename_i h
    have : im.props.repeat_ = r := by simpa using h
    subst this
    exact ⟨rfl, rfl, rfl⟩
  · exact ⟨rfl, rfl, rfl⟩

theorem refines_setTransform (w : World) (i : Nat) (t : Option Transform) :
    toSpec (step w (.setTransform i t)) = sstep (toSpec w) (.setTransform i t) := by
  show toSpec (upd w i (fun im => setTransformI im t)) = assign (toSpec w) i (fun p => { p with transform := normTransform t })
  apply toSpec_upd
  intro im
  rcases im with ⟨cr, p, ac, d, der⟩
  cases t with
  | none =>
    cases hp : p.transform with
    | none => simp [setTransformI, imagePropertyChanged, normTransform, hp]; rw [← hp]
    | some t0 => simp [setTransformI, imagePropertyChanged, normTransform, hp]
  | some t1 =>
    by_cases hid : t1 = Transform.id
    · simp [setTransformI, imagePropertyChanged, normTransform, hid]
    · by_cases heq : p.transform = some t1
      · simp [setTransformI, imagePropertyChanged, normTransform, hid, heq]; rw [← heq]
      · simp [setTransformI, imagePropertyChanged, normTransform, hid, heq]

theorem refines_setFilter (w : World) (i : Nat) (f : Int) (ps : Option (List Int)) (n : Int) :
    toSpec (step w (.setFilter i f ps n)) = sstep (toSpec w) (.setFilter i f ps n) := by
  show toSpec (upd w i (fun im => setFilterI im f ps n)) =
    (if ps = none ∧ (w.get i).props.filterParams = none ∧ f = (w.get i).props.filter then toSpec w
     else if f = Pixman.Gen.ImageFlags.PIXMAN_FILTER_SEPARABLE_CONVOLUTION ∧ sepConvParamsOk (ps.getD []) n = false then toSpec w
     else assign (toSpec w) i fun p => { p with filter := f, filterParams := ps, nFilterParams := n })
  have hnoop : ∀ (c : Prop), c → (∀ im, im = w.get i → c → setFilterI im f ps n = im) →
      toSpec (upd w i (fun im => setFilterI im f ps n)) = toSpec w := by
    intro c hc h
    funext k
    unfold toSpec
    by_cases hk : k = i
    · subst hk; rw [upd_same, h _ rfl hc]
    · rw [upd_other _ _ _ _ hk]
  split
  · rename_i hc
    refine hnoop _ hc (fun im him hc => ?_)
    subst him
    simp [setFilterI, hc.1, hc.2.1, hc.2.2]
  · rename_i hc0
    split
    · rename_i hc
      refine hnoop _ hc (fun im him hc => ?_)
      simp only [setFilterI]
      split
      · rfl
      · rw [if_pos (by simp [hc.1, hc.2])]
    · rename_i hc
      funext k
      unfold toSpec assign
      by_cases hk : k = i
      · subst hk
        simp only [upd_same, if_pos]
        simp only [setFilterI, imagePropertyChanged]
        rw [if_neg, if_neg]
        · intro h
          simp only [Bool.and_eq_true, beq_iff_eq, Bool.not_eq_true'] at h
          exact hc ⟨h.1, by simpa using h.2⟩
        · intro h
          simp only [Bool.and_eq_true, Option.isNone_iff_eq_none, beq_iff_eq] at h
          exact hc0 ⟨h.1.1, h.1.2, h.2⟩
      · simp only [upd_other _ _ _ _ hk, if_neg hk]

/-- single-image setters whose early return is `current value == argument` -/
theorem refines_setSourceClipping (w : World) (i : Nat) (v : Int) :
    toSpec (step w (.setSourceClipping i v)) = sstep (toSpec w) (.setSourceClipping i v) := by
  show toSpec (upd w i (fun im => setSourceClippingI im v)) = assign (toSpec w) i (fun p => { p with clipSources := v })
  apply toSpec_upd
  intro im
  simp only [setSourceClippingI, imagePropertyChanged]
  split
  · rename_i h
    have : im.props.clipSources = v := by simpa using h
    subst this
    exact ⟨rfl, rfl, rfl⟩
  · exact ⟨rfl, rfl, rfl⟩

theorem refines_setComponentAlpha (w : World) (i : Nat) (v : Int) :
    toSpec (step w (.setComponentAlpha i v)) = sstep (toSpec w) (.setComponentAlpha i v) := by
  show toSpec (upd w i (fun im => setComponentAlphaI im v)) = assign (toSpec w) i (fun p => { p with componentAlpha := v })
  apply toSpec_upd
  intro im
  simp only [setComponentAlphaI, imagePropertyChanged]
  split
  · rename_i h
    have : im.props.componentAlpha = v := by simpa using h
    subst this
    exact ⟨rfl, rfl, rfl⟩
  · exact ⟨rfl, rfl, rfl⟩

theorem refines_setIndexed (w : World) (i : Nat) (v : Nat) :
    toSpec (step w (.setIndexed i v)) = sstep (toSpec w) (.setIndexed i v) := by
  show toSpec (upd w i (fun im => setIndexedI im v)) = assign (toSpec w) i (fun p => { p with indexed := v })
  apply toSpec_upd
  intro im
  simp only [setIndexedI, imagePropertyChanged]
  split
  · rename_i h
    have : im.props.indexed = v := by simpa using h
    subst this
    exact ⟨rfl, rfl, rfl⟩
  · exact ⟨rfl, rfl, rfl⟩

theorem refines_setHasClientClip (w : World) (i : Nat) (v : Int) :
    toSpec (step w (.setHasClientClip i v)) = sstep (toSpec w) (.setHasClientClip i v) := by
  show toSpec (upd w i (fun im => setHasClientClipI im v)) = assign (toSpec w) i (fun p => { p with clientClip := v })
  apply toSpec_upd
  intro im
  exact ⟨rfl, rfl, rfl⟩

theorem refines_setClipRegion (w : World) (i : Nat) (r : Option (List CBox)) :
    toSpec (step w (.setClipRegion i r)) = sstep (toSpec w) (.setClipRegion i r) := by
  cases r with
  | none =>
    show toSpec (upd w i (fun im => setClipRegionI im none)) = assign (toSpec w) i (fun p => { p with haveClip := false })
    apply toSpec_upd
    intro im
    exact ⟨rfl, rfl, rfl⟩
  | some b =>
    show toSpec (upd w i (fun im => setClipRegionI im (some b))) = assign (toSpec w) i (fun p => { p with clipRegion := b, haveClip := true })
    apply toSpec_upd
    intro im
    exact ⟨rfl, rfl, rfl⟩

theorem toSpec_upd_cond (w : World) (i : Nat) (f : Image → Image) (g : Props → Props) (c : Creation → Prop) [DecidablePred c]
    (h : ∀ im, (f im).cr = im.cr ∧ (f im).props = (if c im.cr then g im.props else im.props) ∧ (f im).alphaCount = im.alphaCount) :
    toSpec (upd w i f) = (if c (w.get i).cr then assign (toSpec w) i g else toSpec w) := by
  split
  · rename_i hc
    funext k
    unfold toSpec assign
    by_cases hk : k = i
    · subst hk
      simp only [upd_same, if_pos]
      obtain ⟨a, b, d⟩ := h (w.get k)
      rw [a, b, d, if_pos hc]
    · simp only [upd_other _ _ _ _ hk, if_neg hk]
  · rename_i hc
    funext k
    unfold toSpec
    by_cases hk : k = i
    · subst hk
      simp only [upd_same]
      obtain ⟨a, b, d⟩ := h (w.get k)
      rw [a, b, d, if_neg hc]
    · simp only [upd_other _ _ _ _ hk]

theorem refines_setDither (w : World) (i : Nat) (v : Int) :
    toSpec (step w (.setDither i v)) = sstep (toSpec w) (.setDither i v) := by
  show toSpec (upd w i (fun im => setDitherI im v)) =
    (if (w.get i).cr.kind = .bits then assign (toSpec w) i (fun p => { p with dither := v }) else toSpec w)
  apply toSpec_upd_cond w i _ _ (fun cr => cr.kind = .bits)
  intro im
  simp only [setDitherI, imagePropertyChanged]
  by_cases hk : im.cr.kind = .bits
  · simp only [hk, beq_self_eq_true, if_true]
    split
    · rename_i h
      have : im.props.dither = v := by simpa using h
      subst this
      exact ⟨rfl, rfl, rfl⟩
    · exact ⟨rfl, rfl, rfl⟩
  · have : (im.cr.kind == Kind.bits) = false := by simpa using hk
    simp only [this, if_neg hk]
    exact ⟨rfl, rfl, rfl⟩

theorem refines_setDitherOffset (w : World) (i : Nat) (x y : Int) :
    toSpec (step w (.setDitherOffset i x y)) = sstep (toSpec w) (.setDitherOffset i x y) := by
  show toSpec (upd w i (fun im => setDitherOffsetI im x y)) =
    (if (w.get i).cr.kind = .bits then assign (toSpec w) i (fun p => { p with ditherOffX := toU32 x, ditherOffY := toU32 y }) else toSpec w)
  apply toSpec_upd_cond w i _ _ (fun cr => cr.kind = .bits)
  intro im
  simp only [setDitherOffsetI, imagePropertyChanged]
  by_cases hk : im.cr.kind = .bits
  · simp only [hk, beq_self_eq_true, if_true]
    split
    · rename_i h
      simp only [Bool.and_eq_true, beq_iff_eq] at h
      obtain ⟨h1, h2⟩ := h
      refine ⟨rfl, ?_, rfl⟩
      rw [← h1, ← h2]
    · exact ⟨rfl, rfl, rfl⟩
  · have : (im.cr.kind == Kind.bits) = false := by simpa using hk
    simp only [this, if_neg hk]
    exact ⟨rfl, rfl, rfl⟩

theorem refines_setAccessors (w : World) (i : Nat) (r wr : Nat) :
    toSpec (step w (.setAccessors i r wr)) = sstep (toSpec w) (.setAccessors i r wr) := by
  show toSpec (upd w i (fun im => setAccessorsI im r wr)) =
    (if (w.get i).cr.kind = .bits ∧ ¬ (fmtBpp (w.get i).cr.format > 32 ∧ ¬ (r = 0 ∧ wr = 0)) then
      assign (toSpec w) i (fun p => { p with readFunc := r, writeFunc := wr }) else toSpec w)
  apply toSpec_upd_cond w i _ _ (fun cr => cr.kind = .bits ∧ ¬ (fmtBpp cr.format > 32 ∧ ¬ (r = 0 ∧ wr = 0)))
  intro im
  simp only [setAccessorsI, imagePropertyChanged]
  by_cases hk : im.cr.kind = .bits
  · simp only [hk, beq_self_eq_true, if_true, true_and]
    by_cases h1 : fmtBpp im.cr.format > 32 <;> by_cases h2 : r = 0 <;> by_cases h3 : wr = 0 <;>
      simp [h1, h2, h3]
  · have : (im.cr.kind == Kind.bits) = false := by simpa using hk
    simp only [this, hk, false_and, if_false]
    exact ⟨rfl, rfl, rfl⟩

theorem refines_use (w : World) (ids : List Nat) : toSpec (step w (.use ids)) = sstep (toSpec w) (.use ids) := by
  show toSpec (useAll w ids) = toSpec w
  funext k
  unfold toSpec
  obtain ⟨a, b, c⟩ := useAll_get ids w k
  rw [a, b, c]

theorem refines_setAlphaMap (w : World) (i : Nat) (am : Option Nat) (x y : Int) :
    toSpec (step w (.setAlphaMap i am x y)) = sstep (toSpec w) (.setAlphaMap i am x y) := by
  funext k
  show toSpec (setAlphaMap w i am x y) k = sstep (toSpec w) (.setAlphaMap i am x y) k
  cases am with
  | none =>
    simp only [setAlphaMap, sstep, alphaMapAccepted, if_true]
    cases hold : (w.get i).props.alphaMap with
    | none =>
      by_cases hk : k = i
      · subst hk; simp [toSpec, upd_get, hold, imagePropertyChanged]
      · simp [toSpec, upd_get, hold, hk]
    | some o =>
      by_cases hk : k = i <;> by_cases hko : k = o
      · subst hk; subst hko; simp [toSpec, upd_get, hold, imagePropertyChanged]
      · subst hk; simp [toSpec, upd_get, hold, imagePropertyChanged, hko]
        rw [if_neg (fun h => hko h.symm)]; omega
      · subst hko; simp [toSpec, upd_get, hold, hk]
      · simp [toSpec, upd_get, hold, hk, hko]
        rw [if_neg (fun h => hko h.symm)]; omega
  | some j =>
    simp only [setAlphaMap, sstep, alphaMapAccepted]
    by_cases h1' : ¬ (w.get j).cr.kind = .bits
    · simp [toSpec, h1']
    have h1 : (w.get j).cr.kind = .bits := Classical.not_not.mp h1'
    by_cases h2 : j = i
    · simp [toSpec, h1, h2]
    by_cases h3 : (w.get i).alphaCount > 0
    · simp [toSpec, h1, h2, h3]
    cases h4 : (w.get j).props.alphaMap with
    | some z => simp [toSpec, h1, h2, h3, h4]
    | none =>
      have hki : ∀ {k}, k = j → ¬ k = i := fun h h' => h2 (h.symm.trans h')
      cases hold : (w.get i).props.alphaMap with
      | none =>
        by_cases hk : k = i <;> by_cases hkj : k = j
        · exact absurd hk (hki hkj)
        · subst hk
          have hjk : ¬ j = k := fun h => hkj h.symm
          simp [toSpec, upd_get, hold, h1, h2, h3, h4, imagePropertyChanged, hkj, hjk]
        · subst hkj; simp [toSpec, upd_get, hold, h1, h2, h3, h4, hk]
        · have hjk : ¬ j = k := fun h => hkj h.symm
          simp [toSpec, upd_get, hold, h1, h2, h3, h4, hk, hkj, hjk]
      | some o =>
        by_cases hoj : o = j
        · subst hoj
          by_cases hk : k = i
          · subst hk; simp [toSpec, upd_get, hold, h1, h2, h3, h4, imagePropertyChanged]
          · simp [toSpec, upd_get, hold, h1, h2, h3, h4, hk]
        · have hjo : ¬ j = o := fun h => hoj h.symm
          by_cases hk : k = i <;> by_cases hkj : k = j <;> by_cases hko : k = o
          · exact absurd hk (hki hkj)
          · exact absurd hk (hki hkj)
          · subst hk; subst hko
            have hjk : ¬ j = k := fun h => hkj h.symm
            simp [toSpec, upd_get, hold, h1, h2, h3, h4, imagePropertyChanged, hoj, hkj, hjk, hjo]
          · subst hk
            have hjk : ¬ j = k := fun h => hkj h.symm
            have hok : ¬ o = k := fun h => hko h.symm
            simp [toSpec, upd_get, hold, h1, h2, h3, h4, imagePropertyChanged, hoj, hkj, hko, hjk, hok, hjo]
          · exact absurd (hko.symm.trans hkj) hoj
          · subst hkj
            have hok : ¬ o = k := fun h => hko h.symm
            simp [toSpec, upd_get, hold, h1, h2, h3, h4, hoj, hk, hko, hok, hjo]
          · subst hko
            have hjk : ¬ j = k := fun h => hkj h.symm
            simp [toSpec, upd_get, hold, h1, h2, h3, h4, hoj, hk, hkj, hjk, hjo]
          · have hjk : ¬ j = k := fun h => hkj h.symm
            have hok : ¬ o = k := fun h => hko h.symm
            simp [toSpec, upd_get, hold, h1, h2, h3, h4, hoj, hk, hkj, hko, hjk, hok, hjo]

theorem step_refines (w : World) (op : Op) : toSpec (step w op) = sstep (toSpec w) op := by
  cases op with
  | setTransform i t => exact refines_setTransform w i t
  | setRepeat i r => exact refines_setRepeat w i r
  | setFilter i f p n => exact refines_setFilter w i f p n
  | setClipRegion i r => exact refines_setClipRegion w i r
  | setHasClientClip i v => exact refines_setHasClientClip w i v
  | setSourceClipping i v => exact refines_setSourceClipping w i v
  | setAlphaMap i am x y => exact refines_setAlphaMap w i am x y
  | setComponentAlpha i v => exact refines_setComponentAlpha w i v
  | setAccessors i r wr => exact refines_setAccessors w i r wr
  | setIndexed i p => exact refines_setIndexed w i p
  | setDither i d => exact refines_setDither w i d
  | setDitherOffset i x y => exact refines_setDitherOffset w i x y
  | use ids => exact refines_use w ids

end Pixman.Spec.ImageState

import Pixman.Model.Dispatch
/-! Lemmas about the table walk, the move-to-front cache and the delegation loops. -/
namespace Pixman.Lemmas.Dispatch
open Pixman.Model.Dispatch

/-- every cache entry is the table answer for its key -/
def CacheInv (c : Chain) (cache : Cache) : Prop := ∀ p ∈ cache, tableWalk c p.1 = some p.2

theorem cacheFind_spec (s : Nat) (cache : Cache) (k : Key) (j : Nat) (a : Ans)
    (h : cacheFind s cache k = some (j, a)) : (k, a) ∈ cache ∧ s ≤ j ∧ j < s + cache.length := by
  induction cache generalizing s with
  | nil => simp [cacheFind] at h
  | cons p rest ih =>
    obtain ⟨k', a'⟩ := p
    unfold cacheFind at h
    split at h
    · rename_i hk
      simp only [Option.some.injEq, Prod.mk.injEq] at h
      obtain ⟨h1, h2⟩ := h
      subst hk h1 h2
      simp
    · have := ih (s + 1) h
      obtain ⟨m, h1, h2⟩ := this
      refine ⟨List.mem_cons_of_mem _ m, by omega, ?_⟩
      simp only [List.length_cons]; omega

theorem lookupCached_fst (c : Chain) (cache : Cache) (k : Key) (h : CacheInv c cache) :
    (lookupCached c cache k).1 = tableWalk c k := by
  unfold lookupCached
  split
  · rename_i i a hf
    have hm := (cacheFind_spec 0 cache k i a hf).1
    have := h (k, a) hm
    simp only at this
    simp [this]
  · split <;> simp_all

theorem lookupCached_inv (c : Chain) (cache : Cache) (k : Key) (h : CacheInv c cache) :
    CacheInv c (lookupCached c cache k).2 := by
  unfold lookupCached
  split
  · rename_i i a hf
    have hm := (cacheFind_spec 0 cache k i a hf).1
    have hka := h (k, a) hm
    split
    · exact h
    · intro p hp
      rcases List.mem_cons.mp hp with rfl | hp
      · exact hka
      · exact h p (List.mem_of_mem_eraseIdx hp)
  · split
    · rename_i a hw
      intro p hp
      have hp' := List.mem_of_mem_take hp
      rcases List.mem_cons.mp hp' with rfl | hp'
      · exact hw
      · exact h p hp'
    · exact h

theorem lookupCached_length (c : Chain) (cache : Cache) (k : Key) (h : cache.length ≤ nCached) :
    (lookupCached c cache k).2.length ≤ nCached := by
  unfold lookupCached
  split
  · rename_i i a hf
    have hlt := (cacheFind_spec 0 cache k i a hf).2.2
    split
    · exact h
    · simp only [List.length_cons, List.length_eraseIdx]
      split <;> omega
  · split
    · simp only [List.length_take]; omega
    · exact h

theorem lookupHistory_fst (c : Chain) (cache : Cache) (ks : List Key) (h : CacheInv c cache) :
    (lookupHistory c cache ks).1 = ks.map (tableWalk c) := by
  induction ks generalizing cache with
  | nil => simp [lookupHistory]
  | cons k ks ih =>
    simp only [lookupHistory, List.map_cons]
    rw [lookupCached_fst c cache k h, ih _ (lookupCached_inv c cache k h)]

/-! ### the walk -/

theorem findFrom_spec (i : Nat) (t : Table) (k : Key) (j : Nat) (e : Entry)
    (h : findFrom i t k = some (j, e)) : e ∈ t ∧ admits e k = true := by
  induction t generalizing i with
  | nil => simp [findFrom] at h
  | cons x xs ih =>
    unfold findFrom at h
    split at h
    · rename_i hx
      simp only [Option.some.injEq, Prod.mk.injEq] at h
      obtain ⟨_, rfl⟩ := h
      exact ⟨List.mem_cons_self, hx⟩
    · have := ih (i + 1) h
      exact ⟨List.mem_cons_of_mem _ this.1, this.2⟩

theorem findFrom_isSome (i : Nat) (t : Table) (k : Key) (e : Entry) (he : e ∈ t) (ha : admits e k = true) :
    (findFrom i t k).isSome = true := by
  induction t generalizing i with
  | nil => simp at he
  | cons x xs ih =>
    unfold findFrom
    split
    · rfl
    · rename_i hx
      rcases List.mem_cons.mp he with rfl | he
      · exact absurd ha hx
      · exact ih (i + 1) he

theorem walkFrom_spec (l : Nat) (c : Chain) (k : Key) (a : Ans) (h : walkFrom l c k = some a) :
    ∃ t ∈ c, a.entry ∈ t ∧ admits a.entry k = true := by
  induction c generalizing l with
  | nil => simp [walkFrom] at h
  | cons t ts ih =>
    unfold walkFrom at h
    split at h
    · rename_i i e hf
      simp only [Option.some.injEq] at h
      subst h
      have := findFrom_spec 0 t k i e hf
      exact ⟨t, List.mem_cons_self, this.1, this.2⟩
    · obtain ⟨t', ht', h1, h2⟩ := ih (l + 1) h
      exact ⟨t', List.mem_cons_of_mem _ ht', h1, h2⟩

theorem walkFrom_isSome (l : Nat) (c : Chain) (k : Key) (t : Table) (ht : t ∈ c) (e : Entry) (he : e ∈ t)
    (ha : admits e k = true) : (walkFrom l c k).isSome = true := by
  induction c generalizing l with
  | nil => simp at ht
  | cons x xs ih =>
    unfold walkFrom
    split
    · rfl
    · rename_i hn
      rcases List.mem_cons.mp ht with rfl | ht
      · have := findFrom_isSome 0 t k e he ha
        rw [hn] at this
        simp at this
      · exact ih (l + 1) ht

/-! ### rendering through the chain -/

/-- every table entry refines the general path on the requests its guard admits -/
def EntrySound {Req Pic : Type} (run : Nat → Req → Pic) (general : Req → Pic) (key : Req → Key) (c : Chain) : Prop :=
  ∀ t ∈ c, ∀ e ∈ t, ∀ r, admits e (key r) = true → run e.func r = general r

/-- some entry of the chain admits every request (general's `{ PIXMAN_OP_any, PIXMAN_any, 0, ... }`) -/
def HasCatchAll (c : Chain) : Prop := ∃ t ∈ c, ∃ e ∈ t, ∀ k, admits e k = true

/-- composite dispatch: look the request up, run the function found -/
def dispatch {Req Pic : Type} (run : Nat → Req → Pic) (key : Req → Key) (c : Chain) (r : Req) : Option Pic :=
  (tableWalk c (key r)).map fun a => run a.entry.func r

theorem dispatch_eq_general {Req Pic : Type} (run : Nat → Req → Pic) (general : Req → Pic) (key : Req → Key)
    (c : Chain) (hs : EntrySound run general key c) (hc : HasCatchAll c) (r : Req) :
    dispatch run key c r = some (general r) := by
  unfold dispatch tableWalk
  obtain ⟨t, ht, e, he, ha⟩ := hc
  have hsome := walkFrom_isSome 0 c (key r) t ht e he (ha _)
  cases hw : walkFrom 0 c (key r) with
  | none => rw [hw] at hsome; simp at hsome
  | some a =>
    obtain ⟨t', ht', h1, h2⟩ := walkFrom_spec 0 c (key r) a hw
    simp only [Option.map_some]
    rw [hs t' ht' a.entry h1 r h2]

theorem mem_disableWholeops (c : Chain) (t : Table) (h : t ∈ disableWholeops c) : t = [] ∨ t ∈ c := by
  fun_induction disableWholeops c with
  | case1 => simp at h
  | case2 g => right; exact h
  | case3 x y ys ih =>
    rcases List.mem_cons.mp h with rfl | h
    · left; rfl
    · rcases ih h with h | h
      · left; exact h
      · right; exact List.mem_cons_of_mem _ h

theorem getLast_disableWholeops (c : Chain) : (disableWholeops c).getLast? = c.getLast? := by
  fun_induction disableWholeops c with
  | case1 => rfl
  | case2 g => rfl
  | case3 x y ys ih =>
    have hne : disableWholeops (y :: ys) ≠ [] := by
      cases ys <;> simp [disableWholeops]
    rw [List.getLast?_cons_cons]
    cases hd : disableWholeops (y :: ys) with
    | nil => exact absurd hd hne
    | cons z zs => rw [List.getLast?_cons_cons, ← hd, ih]

/-! ### delegation loops -/

/-- a member that reports failure has not written -/
def DeclineClean {Mem : Type} (ops : List (MemOp Mem)) : Prop :=
  ∀ f, some f ∈ ops → ∀ m, (f m).1 = false → (f m).2 = m

theorem delegate_false {Mem : Type} (ops : List (MemOp Mem)) (m : Mem) (hc : DeclineClean ops) :
    (delegate ops m).1 = false ↔ ∀ f, some f ∈ ops → (f m).1 = false := by
  induction ops with
  | nil => simp [delegate]
  | cons o rest ih =>
    have hc' : DeclineClean rest := fun f hf => hc f (List.mem_cons_of_mem _ hf)
    cases o with
    | none =>
      simp only [delegate]
      rw [ih hc']
      constructor
      · intro h f hf
        rcases List.mem_cons.mp hf with hf | hf
        · cases hf
        · exact h f hf
      · intro h f hf; exact h f (List.mem_cons_of_mem _ hf)
    | some g =>
      simp only [delegate]
      by_cases hg : (g m).1 = true
      · simp only [hg, if_true]
        constructor
        · intro h; cases h
        · intro h
          have := h g List.mem_cons_self
          rw [hg] at this; cases this
      · have hg' : (g m).1 = false := by simpa using hg
        have hm : (g m).2 = m := hc g List.mem_cons_self m hg'
        simp only [hg', Bool.false_eq_true, if_false, hm]
        rw [ih hc']
        constructor
        · intro h f hf
          rcases List.mem_cons.mp hf with hf | hf
          · cases hf; exact hg'
          · exact h f hf
        · intro h f hf; exact h f (List.mem_cons_of_mem _ hf)

theorem delegate_false_mem {Mem : Type} (ops : List (MemOp Mem)) (m : Mem) (hc : DeclineClean ops)
    (h : (delegate ops m).1 = false) : (delegate ops m).2 = m := by
  induction ops with
  | nil => simp [delegate]
  | cons o rest ih =>
    have hc' : DeclineClean rest := fun f hf => hc f (List.mem_cons_of_mem _ hf)
    cases o with
    | none => simp only [delegate] at h ⊢; exact ih hc' h
    | some g =>
      simp only [delegate] at h ⊢
      by_cases hg : (g m).1 = true
      · simp [hg] at h
      · have hg' : (g m).1 = false := by simpa using hg
        have hm : (g m).2 = m := hc g List.mem_cons_self m hg'
        simp only [hg', Bool.false_eq_true, if_false, hm] at h ⊢
        exact ih hc' h

end Pixman.Lemmas.Dispatch

/-
  Operation histories over a register file of regions (C15, F3): whatever the failure schedule and
  whatever the sequence of operations (with every aliasing pattern, since operands are register
  indices), the live blocks are exactly the blocks held by the registers, no block is freed twice,
  and after `fini` of every register nothing is live.
-/
import Pixman.Lemmas.RegionAllocValidate
namespace Pixman.Model.RegionAlloc
open Pixman.Region

inductive Cmd where
  | union (d a b : Nat)
  | intersect (d a b : Nat)
  | subtract (d a b : Nat)
  | inverse (d a : Nat) (box : Box)
  | unionRect (d a : Nat) (x y : Int) (w h : Nat)
  | intersectRect (d a : Nat) (x y : Int) (w h : Nat)
  | copy (d a : Nat)
  | fini (d : Nat)            -- pixman_region_fini followed by pixman_region_init
  | initRects (d : Nat) (boxes : List Box)                 -- fini, then init_rects into the storage (validate inside)
  | translate (d : Nat) (dx dy : Int)                      -- may re-validate
  | fromImage (d : Nat) (w : Nat) (rows : List (List Bool))  -- fini, then init_from_image
  | to16 (d a : Nat)          -- pixman_region16_copy_from_region32
  | to32 (d a : Nat)          -- pixman_region32_copy_from_region16
deriving Repr

def aliasOf (d a b : Nat) : Alias := if d = a then .first else if d = b then .second else .none

def Cmd.dest : Cmd → Nat
  | .union d _ _ | .intersect d _ _ | .subtract d _ _ | .inverse d _ _ | .unionRect d _ _ _ _ _
  | .intersectRect d _ _ _ _ _ | .copy d _ | .fini d | .initRects d _ | .translate d _ _
  | .fromImage d _ _ | .to16 d _ | .to32 d _ => d

/-- the new value of the destination register and the heap -/
def evalCmd (c : Cfg) (s : Sched) (st : List RegionA) (h : Heap) : Cmd → RegionA × Heap
  | .union d a b =>
    let r := unionA c s (a == b) (aliasOf d a b) (st.getD d initA) (st.getD a initA) (st.getD b initA) h
    (r.2.1, r.2.2)
  | .intersect d a b =>
    let r := intersectA c s (a == b) (aliasOf d a b) (st.getD d initA) (st.getD a initA) (st.getD b initA) h
    (r.2.1, r.2.2)
  | .subtract d a b =>
    let r := subtractA c s (a == b) (aliasOf d a b) (st.getD d initA) (st.getD a initA) (st.getD b initA) h
    (r.2.1, r.2.2)
  | .inverse d a box =>
    let r := inverseA c s (d == a) (st.getD d initA) (st.getD a initA) box h
    (r.2.1, r.2.2)
  | .unionRect d a x y w hh =>
    let r := unionRectA c s (d == a) (st.getD d initA) (st.getD a initA) x y w hh h
    (r.2.1, r.2.2)
  | .intersectRect d a x y w hh =>
    let r := intersectRectA c s (d == a) (st.getD d initA) (st.getD a initA) x y w hh h
    (r.2.1, r.2.2)
  | .copy d a =>
    let r := copyA c s (d == a) (st.getD d initA) (st.getD a initA) h
    (r.2.1, r.2.2)
  | .fini d => (initA, finiA (st.getD d initA) h)
  | .initRects d boxes =>
    let r := initRectsA c s boxes (finiA (st.getD d initA) h)
    (r.2.1, r.2.2)
  | .translate d dx dy => translateA c s (st.getD d initA) dx dy h
  | .fromImage d w rows => initFromImageA c s w rows (finiA (st.getD d initA) h)
  | .to16 d a =>
    let r := region16From32A s (st.getD d initA) (st.getD a initA) h
    (r.2.1, r.2.2)
  | .to32 d a =>
    let r := region32From16A s (st.getD d initA) (st.getD a initA) h
    (r.2.1, r.2.2)

def stepCmd (c : Cfg) (s : Sched) (st : List RegionA) (h : Heap) (cmd : Cmd) : List RegionA × Heap :=
  if cmd.dest < st.length then
    let r := evalCmd c s st h cmd
    (st.set cmd.dest r.1, r.2)
  else (st, h)

def runCmds (c : Cfg) (s : Sched) : List Cmd → List RegionA → Heap → List RegionA × Heap
  | [], st, h => (st, h)
  | cmd :: t, st, h =>
    let p := stepCmd c s st h cmd
    runCmds c s t p.1 p.2

def finiAllA : List RegionA → Heap → Heap
  | [], h => h
  | r :: t, h => finiAllA t (finiA r h)


theorem regIds_split : ∀ (st : List RegionA) (d : Nat), d < st.length →
    (regIds st).Perm ((st.getD d initA).ids ++ regIds (st.eraseIdx d))
  | [], d, hd => by simp at hd
  | x :: t, 0, _ => by simp
  | x :: t, d + 1, hd => by
    have ih := regIds_split t d (by simpa using hd)
    simp only [regIds_cons, List.getD_cons_succ, List.eraseIdx_cons_succ]
    exact (List.Perm.append_left _ ih).trans (List.perm_append_comm_assoc _ _ _)

theorem regIds_set : ∀ (st : List RegionA) (d : Nat) (r : RegionA), d < st.length →
    (regIds (st.set d r)).Perm (r.ids ++ regIds (st.eraseIdx d))
  | [], d, _, hd => by simp at hd
  | x :: t, 0, r, _ => by simp
  | x :: t, d + 1, r, hd => by
    have ih := regIds_set t d r (by simpa using hd)
    simp only [List.set_cons_succ, regIds_cons, List.eraseIdx_cons_succ]
    exact (List.Perm.append_left _ ih).trans (List.perm_append_comm_assoc _ _ _)

theorem Own.evalCmd {c : Cfg} {s : Sched} {st : List RegionA} {h : Heap} {rest : List Nat} (cmd : Cmd)
    (o : Own h ((st.getD cmd.dest initA).ids ++ rest)) :
    Own (evalCmd c s st h cmd).2 ((evalCmd c s st h cmd).1.ids ++ rest) := by
  cases cmd <;> simp only [RegionAlloc.evalCmd, Cmd.dest] at o ⊢
  · exact o.unionA
  · exact o.intersectA
  · exact o.subtractA
  · exact o.inverseA
  · exact o.unionRectA
  · exact o.intersectRectA
  · exact o.copyA
  · exact o.finiA
  · exact initRectsA_own c s _ _ o.finiA
  · exact translateA_own c s _ _ _ h o
  · exact initFromImageA_own c s _ _ _ o.finiA
  · exact region16From32A_own s _ _ h o
  · exact region32From16A_own s _ _ h o

theorem Own.stepCmd {c : Cfg} {s : Sched} {st : List RegionA} {h : Heap} (cmd : Cmd)
    (o : Own h (regIds st)) :
    Own (stepCmd c s st h cmd).2 (regIds (stepCmd c s st h cmd).1) := by
  unfold RegionAlloc.stepCmd
  split
  · next hd =>
    have o1 := o.of_perm (regIds_split st cmd.dest hd)
    have o2 := Own.evalCmd (c := c) (s := s) cmd o1
    exact o2.of_perm (regIds_set st cmd.dest _ hd).symm
  · exact o

theorem Own.runCmds {c : Cfg} {s : Sched} : ∀ (cmds : List Cmd) (st : List RegionA) (h : Heap),
    Own h (regIds st) → Own (runCmds c s cmds st h).2 (regIds (runCmds c s cmds st h).1)
  | [], _, _, o => o
  | cmd :: t, st, h, o => by
    simp only [RegionAlloc.runCmds]
    exact Own.runCmds t _ _ (Own.stepCmd cmd o)

theorem Own.finiAllA : ∀ (st : List RegionA) (h : Heap), Own h (regIds st) → Own (finiAllA st h) []
  | [], _, o => o
  | r :: t, h, o => by
    simp only [RegionAlloc.finiAllA]
    exact Own.finiAllA t _ (Own.finiA (by simpa using o))

theorem regIds_replicate_init (n : Nat) : regIds (List.replicate n initA) = [] := by
  induction n with
  | zero => rfl
  | succ n ih => simp [List.replicate_succ, ih]

end Pixman.Model.RegionAlloc

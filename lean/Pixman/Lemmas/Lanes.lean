import Pixman.Model.Lanes
import Pixman.Spec.PorterDuff
/-! Helper lemmas for the packed-lane arithmetic of `pixman-combine32.h`: masks as div/mod,
disjoint `|||` as `+`, the shared rounding tail, and the closed forms of the three `UN8_rb_*`
macros.  Property theorems are in `Pixman/Props/C01.lean`. -/
namespace Pixman.Lemmas
open Pixman.Arith Pixman.Lanes Pixman.Spec

/-- two 8-bit lanes 16 bits apart -/
def pack (h l : Nat) : Nat := h * 65536 + l
/-- four 8-bit channels of an a8r8g8b8 word -/
def pack4 (a r g b : Nat) : Nat := a * 16777216 + r * 65536 + g * 256 + b

theorem rnd_le (x y : Nat) (hx : x ≤ 255) (hy : y ≤ 255) : rnd x y ≤ 255 := by
  unfold rnd
  have h : x * y ≤ 255 * 255 := Nat.mul_le_mul hx hy
  generalize x * y = p at h
  omega

theorem rnd_le_left (x y : Nat) (hy : y ≤ 255) : rnd x y ≤ x := by
  unfold rnd
  have h : x * y ≤ x * 255 := Nat.mul_le_mul_left x hy
  generalize x * y = p at h
  omega

theorem rnd_255 (x : Nat) : rnd x 255 = x := by unfold rnd; omega
theorem rnd_255_left (x : Nat) : rnd 255 x = x := by unfold rnd; omega
theorem rnd_zero (x : Nat) : rnd x 0 = 0 := by simp [rnd]
theorem rnd_zero_left (x : Nat) : rnd 0 x = 0 := by simp [rnd]
theorem rnd_comm (x y : Nat) : rnd x y = rnd y x := by unfold rnd; rw [Nat.mul_comm x y]

/-! ### masks -/

theorem and_ff (x : Nat) : x &&& 0xff = x % 256 := Nat.and_two_pow_sub_one_eq_mod x 8

theorem and_ff00ff (x : Nat) : x &&& 0xff00ff = pack (x / 65536 % 256) (x % 256) := by
  have hd : (x &&& 0xff00ff) / 2^16 = (x / 2^16) &&& 0xff := by rw [Nat.and_div_two_pow]
  have hm : (x &&& 0xff00ff) % 2^16 = (x % 2^16) &&& 0xff := by rw [Nat.and_mod_two_pow]
  have e1 : (x / 2^16) &&& 0xff = x / 2^16 % 256 := Nat.and_two_pow_sub_one_eq_mod _ 8
  have e2 : (x % 2^16) &&& 0xff = x % 2^16 % 256 := Nat.and_two_pow_sub_one_eq_mod _ 8
  have := Nat.div_add_mod (x &&& 0xff00ff) (2^16)
  rw [hd, hm, e1, e2] at this
  unfold pack
  omega

theorem and_ff0000 (x : Nat) : x &&& 0xff0000 = (x / 65536 % 256) * 65536 := by
  have hd : (x &&& 0xff0000) / 2^16 = (x / 2^16) &&& 0xff := by rw [Nat.and_div_two_pow]
  have hm : (x &&& 0xff0000) % 2^16 = (x % 2^16) &&& 0 := by rw [Nat.and_mod_two_pow]
  have e1 : (x / 2^16) &&& 0xff = x / 2^16 % 256 := Nat.and_two_pow_sub_one_eq_mod _ 8
  have e2 : (x % 2^16) &&& 0 = 0 := Nat.and_zero _
  have := Nat.div_add_mod (x &&& 0xff0000) (2^16)
  rw [hd, hm, e1, e2] at this
  omega

/-! ### disjoint or -/

theorem or_pack (h l : Nat) (hl : l < 65536) : h * 65536 ||| l = pack h l := by
  have := Nat.two_pow_add_eq_or_of_lt (i := 16) (b := l) (by omega) h
  unfold pack
  rw [Nat.mul_comm]; exact this.symm

theorem or_shift8 (x y : Nat) (hx : x < 256) : x ||| y * 256 = y * 256 + x := by
  have := Nat.two_pow_add_eq_or_of_lt (i := 8) (b := x) (by omega) y
  rw [Nat.or_comm, Nat.mul_comm]; exact this.symm

/-! ### small div/mod facts about lanes -/

theorem div_lane (P c : Nat) (hc : c < 256) : (P * 256 + c) / 65536 = P / 256 := by
  have h : (P * 256 + c) / 65536 = (P * 256 + c) / 256 / 256 := by
    rw [Nat.div_div_eq_div_mul]
  rw [h]
  have : (P * 256 + c) / 256 = P := by omega
  rw [this]

theorem mod_lane (P c : Nat) (hc : c < 256) : (P * 256 + c) % 256 = c := by omega

theorem pack_div256 (h l : Nat) (_hl : l < 65536) : pack h l / 256 = h * 256 + l / 256 := by
  unfold pack; omega

theorem pack_div65536 (h l : Nat) (hl : l < 65536) : pack h l / 65536 = h := by
  unfold pack; omega

theorem pack_mod256 (h l : Nat) : pack h l % 256 = l % 256 := by
  unfold pack; omega

theorem pack_mod65536 (h l : Nat) (hl : l < 65536) : pack h l % 65536 = l := by
  unfold pack; omega

/-- `((t >> 8) & RB_MASK)` of two 16-bit lanes: the two high bytes. -/
theorem shr8_and_pack (P Q : Nat) (hP : P < 65536) (hQ : Q < 65536) :
    (pack P Q / 256) &&& 0xff00ff = pack (P / 256) (Q / 256) := by
  rw [pack_div256 P Q hQ, and_ff00ff (P * 256 + Q / 256)]
  have hq : Q / 256 < 256 := by omega
  rw [div_lane P (Q / 256) hq, mod_lane P (Q / 256) hq]
  have : P / 256 % 256 = P / 256 := by omega
  rw [this]

/-- the scalar rounding step `((p+128) + ((p+128)>>8)) >> 8` is `p/255` to nearest. -/
theorem div255_round (p : Nat) (hp : p ≤ 65025) :
    ((p + 128) + (p + 128) / 256) / 256 = (2 * p + 255) / 510 := by omega

/-- shared tail of `UN8_rb_MUL_UN8` and `UN8_rb_MUL_UN8_rb`:
`t += RB_ONE_HALF; x = (t + ((t >> 8) & RB_MASK)) >> 8; x &= RB_MASK`, lanes `P`, `Q` ≤ 255². -/
theorem rb_round (P Q : Nat) (hP : P ≤ 65025) (hQ : Q ≤ 65025) :
    ((((pack P Q + 0x800080) % 4294967296
        + ((((pack P Q + 0x800080) % 4294967296) >>> 8) &&& 0xff00ff)) % 4294967296) >>> 8)
      &&& 0xff00ff
    = pack ((2 * P + 255) / 510) ((2 * Q + 255) / 510) := by
  simp only [Nat.shiftRight_eq_div_pow, Nat.reducePow]
  have t0 : (pack P Q + 0x800080) % 4294967296 = pack (P + 128) (Q + 128) := by
    unfold pack; omega
  rw [t0]
  generalize hP' : P + 128 = P'
  generalize hQ' : Q + 128 = Q'
  have bP : P' ≤ 65153 := by omega
  have bQ : Q' ≤ 65153 := by omega
  rw [shr8_and_pack P' Q' (by omega) (by omega)]
  have t4 : (pack P' Q' + pack (P' / 256) (Q' / 256)) % 4294967296
      = pack (P' + P' / 256) (Q' + Q' / 256) := by
    have hu : P' / 256 ≤ 254 := by omega
    have hv : Q' / 256 ≤ 254 := by omega
    generalize P' / 256 = u at hu ⊢
    generalize Q' / 256 = v at hv ⊢
    unfold pack
    omega
  rw [t4]
  clear t4 t0
  have bA : P' + P' / 256 ≤ 65407 := by omega
  have bB : Q' + Q' / 256 ≤ 65407 := by omega
  rw [shr8_and_pack _ _ (by omega) (by omega)]
  subst hP' hQ'
  rw [div255_round P hP, div255_round Q hQ]

theorem rbMulUn8_eq (x a : Nat) (ha : a ≤ 255) :
    rbMulUn8 x a = pack (rnd (x / 65536 % 256) a) (rnd (x % 256) a) := by
  unfold rbMulUn8
  simp only []
  rw [and_ff00ff x]
  generalize hr : x / 65536 % 256 = r
  generalize hb : x % 256 = b
  have br : r ≤ 255 := by omega
  have bb : b ≤ 255 := by omega
  have h1 : r * a ≤ 255 * 255 := Nat.mul_le_mul br ha
  have h2 : b * a ≤ 255 * 255 := Nat.mul_le_mul bb ha
  have e0 : (pack r b * a) % 4294967296 = pack (r * a) (b * a) := by
    have : pack r b * a = pack (r * a) (b * a) := by
      unfold pack; rw [Nat.add_mul, Nat.mul_right_comm]
    rw [this]
    generalize r * a = p at h1 ⊢
    generalize b * a = q at h2 ⊢
    unfold pack; omega
  rw [e0, rb_round (r * a) (b * a) h1 h2]
  rfl

theorem rbMulUn8rb_eq (x a : Nat) :
    rbMulUn8rb x a
      = pack (rnd (x / 65536 % 256) (a / 65536 % 256)) (rnd (x % 256) (a % 256)) := by
  unfold rbMulUn8rb rnd
  simp only [Nat.shiftRight_eq_div_pow, Nat.reducePow]
  rw [and_ff x, and_ff a, and_ff (a / 65536), and_ff0000 x]
  generalize hr : x / 65536 % 256 = r
  generalize hb : x % 256 = b
  generalize hr' : a / 65536 % 256 = r'
  generalize hb' : a % 256 = b'
  have br : r ≤ 255 := by omega
  have bb : b ≤ 255 := by omega
  have br' : r' ≤ 255 := by omega
  have bb' : b' ≤ 255 := by omega
  have h1 : r * r' ≤ 255 * 255 := Nat.mul_le_mul br br'
  have h2 : b * b' ≤ 255 * 255 := Nat.mul_le_mul bb bb'
  have e1 : r * 65536 * r' = (r * r') * 65536 := by rw [Nat.mul_right_comm]
  rw [e1]
  generalize r * r' = p at h1 ⊢
  generalize b * b' = q at h2 ⊢
  have e2 : q % 4294967296 = q := by omega
  have e3 : p * 65536 % 4294967296 = p * 65536 := by omega
  rw [e2, e3, Nat.or_comm, or_pack p q (by omega)]
  have := rb_round p q h1 h2
  simp only [Nat.shiftRight_eq_div_pow, Nat.reducePow] at this
  rw [this]

set_option maxRecDepth 8192 in
/-- one lane of the saturating add: `(S | (0x100 - (S >> 8))) & 0xff = min 255 S`. -/
theorem sat_lane : ∀ S, S < 511 → (S ||| (256 - S / 256)) % 256 = min 255 S := by decide

theorem rbAddUn8rb_eq (h l h' l' : Nat) (hh : h ≤ 255) (hl : l ≤ 255) (hh' : h' ≤ 255)
    (hl' : l' ≤ 255) :
    rbAddUn8rb (pack h l) (pack h' l') = pack (min 255 (h + h')) (min 255 (l + l')) := by
  unfold rbAddUn8rb
  simp only [Nat.shiftRight_eq_div_pow, Nat.reducePow]
  have e0 : (pack h l + pack h' l') % 4294967296 = pack (h + h') (l + l') := by
    unfold pack; omega
  rw [e0]
  generalize hS : h + h' = S
  generalize hT : l + l' = T
  have bS : S ≤ 510 := by omega
  have bT : T ≤ 510 := by omega
  rw [shr8_and_pack S T (by omega) (by omega)]
  have e1 : (0x1000100 + 4294967296 - pack (S / 256) (T / 256) % 4294967296) % 4294967296
      = pack (256 - S / 256) (256 - T / 256) := by
    unfold pack; omega
  rw [e1, and_ff00ff]
  have d1 : (pack S T ||| pack (256 - S / 256) (256 - T / 256)) / 65536
      = S ||| (256 - S / 256) := by
    have := @Nat.or_div_two_pow (pack S T) (pack (256 - S / 256) (256 - T / 256)) 16
    simp only [Nat.reducePow] at this
    rw [this, pack_div65536 S T (by omega), pack_div65536 _ _ (by omega)]
  have d2 : (pack S T ||| pack (256 - S / 256) (256 - T / 256)) % 256
      = (T ||| (256 - T / 256)) % 256 := by
    have h8 := @Nat.or_mod_two_pow (pack S T) (pack (256 - S / 256) (256 - T / 256)) 8
    have h8' := @Nat.or_mod_two_pow T (256 - T / 256) 8
    simp only [Nat.reducePow] at h8 h8'
    rw [h8, h8', pack_mod256, pack_mod256]
  rw [d1, d2, sat_lane S (by omega), sat_lane T (by omega)]

/-- `r1 | (r2 << 8)` reassembles the four channels. -/
theorem or_shl8_pack (a r g b : Nat) (ha : a ≤ 255) (hr : r ≤ 255) (hg : g ≤ 255) (hb : b ≤ 255) :
    pack r b ||| ((pack a g <<< 8) % 4294967296) = pack4 a r g b := by
  rw [Nat.shiftLeft_eq]
  simp only [Nat.reducePow]
  have e : pack a g * 256 % 4294967296 = pack a g * 256 := by
    apply Nat.mod_eq_of_lt; unfold pack; omega
  rw [e]
  clear e
  -- split pack r b into its two bytes' positions: use bitwise extensionality through div/mod 2^8, 2^16
  have hlow : (pack r b ||| pack a g * 256) % 65536 = g * 256 + b := by
    have h := @Nat.or_mod_two_pow (pack r b) (pack a g * 256) 16
    simp only [Nat.reducePow] at h
    have m1 : pack r b % 65536 = b := pack_mod65536 r b (by omega)
    have m2 : pack a g * 256 % 65536 = g * 256 := by unfold pack; omega
    rw [h, m1, m2, or_shift8 b g (by omega)]
  have hhigh : (pack r b ||| pack a g * 256) / 65536 = a * 256 + r := by
    have h := @Nat.or_div_two_pow (pack r b) (pack a g * 256) 16
    simp only [Nat.reducePow] at h
    have m1 : pack r b / 65536 = r := pack_div65536 r b (by omega)
    have m2 : pack a g * 256 / 65536 = a * 256 := by unfold pack; omega
    rw [h, m1, m2, or_shift8 r a (by omega)]
  have := Nat.div_add_mod (pack r b ||| pack a g * 256) 65536
  rw [hlow, hhigh] at this
  unfold pack4
  omega

/-! ### channels -/

/-- saturating add of two channels -/
def sat (x y : Nat) : Nat := min 255 (x + y)

theorem sat_le (x y : Nat) : sat x y ≤ 255 := by unfold sat; omega

def cA (x : Nat) : Nat := x / 16777216 % 256
def cR (x : Nat) : Nat := x / 65536 % 256
def cG (x : Nat) : Nat := x / 256 % 256
def cB (x : Nat) : Nat := x % 256

theorem cA_le (x : Nat) : cA x ≤ 255 := by unfold cA; omega
theorem cR_le (x : Nat) : cR x ≤ 255 := by unfold cR; omega
theorem cG_le (x : Nat) : cG x ≤ 255 := by unfold cG; omega
theorem cB_le (x : Nat) : cB x ≤ 255 := by unfold cB; omega

theorem chan_a (x : Nat) : chan .a x = cA x := rfl
theorem chan_r (x : Nat) : chan .r x = cR x := rfl
theorem chan_g (x : Nat) : chan .g x = cG x := rfl
theorem chan_b (x : Nat) : chan .b x = cB x := rfl

theorem rbMulUn8_c (x a : Nat) (ha : a ≤ 255) :
    rbMulUn8 x a = pack (rnd (cR x) a) (rnd (cB x) a) := rbMulUn8_eq x a ha
theorem rbMulUn8rb_c (x a : Nat) :
    rbMulUn8rb x a = pack (rnd (cR x) (cR a)) (rnd (cB x) (cB a)) := rbMulUn8rb_eq x a
theorem shr8_cR (x : Nat) : cR (x >>> 8) = cA x := by
  simp only [Nat.shiftRight_eq_div_pow, Nat.reducePow, cA, cR]
  rw [Nat.div_div_eq_div_mul]
theorem shr8_cB (x : Nat) : cB (x >>> 8) = cG x := by
  simp only [Nat.shiftRight_eq_div_pow, Nat.reducePow, cG, cB]

theorem and_rb (x : Nat) : x &&& 0xff00ff = pack (cR x) (cB x) := and_ff00ff x

theorem shr8_hi (x : Nat) : (x >>> 8) / 65536 % 256 = cA x := by
  simp only [Nat.shiftRight_eq_div_pow, Nat.reducePow, cA]
  rw [Nat.div_div_eq_div_mul]

theorem shr8_lo (x : Nat) : (x >>> 8) % 256 = cG x := by
  simp only [Nat.shiftRight_eq_div_pow, Nat.reducePow, cG]

theorem shr8_and_rb (x : Nat) : (x >>> 8) &&& 0xff00ff = pack (cA x) (cG x) := by
  rw [and_ff00ff, shr8_hi, shr8_lo]

theorem pack4_lt (a r g b : Nat) (ha : a ≤ 255) (hr : r ≤ 255) (hg : g ≤ 255) (hb : b ≤ 255) :
    pack4 a r g b < 4294967296 := by unfold pack4; omega

theorem cA_pack4 (a r g b : Nat) (ha : a ≤ 255) (hr : r ≤ 255) (hg : g ≤ 255) (hb : b ≤ 255) :
    cA (pack4 a r g b) = a := by unfold cA pack4; omega
theorem cR_pack4 (a r g b : Nat) (hr : r ≤ 255) (hg : g ≤ 255) (hb : b ≤ 255) :
    cR (pack4 a r g b) = r := by unfold cR pack4; omega
theorem cG_pack4 (a r g b : Nat) (hg : g ≤ 255) (hb : b ≤ 255) :
    cG (pack4 a r g b) = g := by unfold cG pack4; omega
theorem cB_pack4 (a r g b : Nat) (hb : b ≤ 255) :
    cB (pack4 a r g b) = b := by unfold cB pack4; omega

/-- a 32-bit word is its four channels -/
theorem pack4_chans (x : Nat) (hx : x < 4294967296) : pack4 (cA x) (cR x) (cG x) (cB x) = x := by
  unfold pack4 cA cR cG cB; omega

/-! ### closed forms of the `UN8x4_*` macros -/

theorem un8x4MulUn8_eq (x a : Nat) (ha : a ≤ 255) :
    un8x4MulUn8 x a = pack4 (rnd (cA x) a) (rnd (cR x) a) (rnd (cG x) a) (rnd (cB x) a) := by
  unfold un8x4MulUn8
  simp only []
  rw [rbMulUn8_c x a ha, rbMulUn8_c (x >>> 8) a ha, shr8_cR, shr8_cB]
  exact or_shl8_pack _ _ _ _ (rnd_le _ _ (cA_le x) ha) (rnd_le _ _ (cR_le x) ha)
    (rnd_le _ _ (cG_le x) ha) (rnd_le _ _ (cB_le x) ha)

theorem un8x4MulUn8x4_eq (x a : Nat) :
    un8x4MulUn8x4 x a
      = pack4 (rnd (cA x) (cA a)) (rnd (cR x) (cR a)) (rnd (cG x) (cG a)) (rnd (cB x) (cB a)) := by
  unfold un8x4MulUn8x4
  simp only []
  rw [rbMulUn8rb_c x a, rbMulUn8rb_c (x >>> 8) (a >>> 8), shr8_cR, shr8_cB, shr8_cR, shr8_cB]
  exact or_shl8_pack _ _ _ _ (rnd_le _ _ (cA_le x) (cA_le a)) (rnd_le _ _ (cR_le x) (cR_le a))
    (rnd_le _ _ (cG_le x) (cG_le a)) (rnd_le _ _ (cB_le x) (cB_le a))

theorem un8x4AddUn8x4_eq (x y : Nat) :
    un8x4AddUn8x4 x y
      = pack4 (sat (cA x) (cA y)) (sat (cR x) (cR y)) (sat (cG x) (cG y)) (sat (cB x) (cB y)) := by
  unfold un8x4AddUn8x4
  simp only []
  rw [and_rb x, and_rb y, shr8_and_rb x, shr8_and_rb y,
    rbAddUn8rb_eq _ _ _ _ (cR_le x) (cB_le x) (cR_le y) (cB_le y),
    rbAddUn8rb_eq _ _ _ _ (cA_le x) (cG_le x) (cA_le y) (cG_le y)]
  exact or_shl8_pack _ _ _ _ (sat_le _ _) (sat_le _ _) (sat_le _ _) (sat_le _ _)

theorem un8x4MulUn8AddUn8x4_eq (x a y : Nat) (ha : a ≤ 255) :
    un8x4MulUn8AddUn8x4 x a y
      = pack4 (sat (rnd (cA x) a) (cA y)) (sat (rnd (cR x) a) (cR y))
          (sat (rnd (cG x) a) (cG y)) (sat (rnd (cB x) a) (cB y)) := by
  unfold un8x4MulUn8AddUn8x4
  simp only []
  rw [and_rb y, shr8_and_rb y, rbMulUn8_c x a ha, rbMulUn8_c (x >>> 8) a ha, shr8_cR, shr8_cB,
    rbAddUn8rb_eq _ _ _ _ (rnd_le _ _ (cR_le x) ha) (rnd_le _ _ (cB_le x) ha) (cR_le y) (cB_le y),
    rbAddUn8rb_eq _ _ _ _ (rnd_le _ _ (cA_le x) ha) (rnd_le _ _ (cG_le x) ha) (cA_le y) (cG_le y)]
  exact or_shl8_pack _ _ _ _ (sat_le _ _) (sat_le _ _) (sat_le _ _) (sat_le _ _)

theorem un8x4MulUn8AddUn8x4MulUn8_eq (x a y b : Nat) (ha : a ≤ 255) (hb : b ≤ 255) :
    un8x4MulUn8AddUn8x4MulUn8 x a y b
      = pack4 (sat (rnd (cA x) a) (rnd (cA y) b)) (sat (rnd (cR x) a) (rnd (cR y) b))
          (sat (rnd (cG x) a) (rnd (cG y) b)) (sat (rnd (cB x) a) (rnd (cB y) b)) := by
  unfold un8x4MulUn8AddUn8x4MulUn8
  simp only []
  rw [rbMulUn8_c x a ha, rbMulUn8_c (x >>> 8) a ha, rbMulUn8_c y b hb,
    rbMulUn8_c (y >>> 8) b hb, shr8_cR, shr8_cB, shr8_cR, shr8_cB,
    rbAddUn8rb_eq _ _ _ _ (rnd_le _ _ (cR_le x) ha) (rnd_le _ _ (cB_le x) ha)
      (rnd_le _ _ (cR_le y) hb) (rnd_le _ _ (cB_le y) hb),
    rbAddUn8rb_eq _ _ _ _ (rnd_le _ _ (cA_le x) ha) (rnd_le _ _ (cG_le x) ha)
      (rnd_le _ _ (cA_le y) hb) (rnd_le _ _ (cG_le y) hb)]
  exact or_shl8_pack _ _ _ _ (sat_le _ _) (sat_le _ _) (sat_le _ _) (sat_le _ _)

theorem un8x4MulUn8x4AddUn8x4_eq (x a y : Nat) :
    un8x4MulUn8x4AddUn8x4 x a y
      = pack4 (sat (rnd (cA x) (cA a)) (cA y)) (sat (rnd (cR x) (cR a)) (cR y))
          (sat (rnd (cG x) (cG a)) (cG y)) (sat (rnd (cB x) (cB a)) (cB y)) := by
  unfold un8x4MulUn8x4AddUn8x4
  simp only []
  rw [and_rb y, shr8_and_rb y, rbMulUn8rb_c x a, rbMulUn8rb_c (x >>> 8) (a >>> 8),
    shr8_cR, shr8_cB, shr8_cR, shr8_cB,
    rbAddUn8rb_eq _ _ _ _ (rnd_le _ _ (cR_le x) (cR_le a)) (rnd_le _ _ (cB_le x) (cB_le a))
      (cR_le y) (cB_le y),
    rbAddUn8rb_eq _ _ _ _ (rnd_le _ _ (cA_le x) (cA_le a)) (rnd_le _ _ (cG_le x) (cG_le a))
      (cA_le y) (cG_le y)]
  exact or_shl8_pack _ _ _ _ (sat_le _ _) (sat_le _ _) (sat_le _ _) (sat_le _ _)

theorem un8x4MulUn8x4AddUn8x4MulUn8_eq (x a y b : Nat) (hb : b ≤ 255) :
    un8x4MulUn8x4AddUn8x4MulUn8 x a y b
      = pack4 (sat (rnd (cA x) (cA a)) (rnd (cA y) b)) (sat (rnd (cR x) (cR a)) (rnd (cR y) b))
          (sat (rnd (cG x) (cG a)) (rnd (cG y) b)) (sat (rnd (cB x) (cB a)) (rnd (cB y) b)) := by
  unfold un8x4MulUn8x4AddUn8x4MulUn8
  simp only []
  rw [rbMulUn8rb_c x a, rbMulUn8rb_c (x >>> 8) (a >>> 8), rbMulUn8_c y b hb,
    rbMulUn8_c (y >>> 8) b hb, shr8_cR, shr8_cB, shr8_cR, shr8_cB, shr8_cR, shr8_cB,
    rbAddUn8rb_eq _ _ _ _ (rnd_le _ _ (cR_le x) (cR_le a)) (rnd_le _ _ (cB_le x) (cB_le a))
      (rnd_le _ _ (cR_le y) hb) (rnd_le _ _ (cB_le y) hb),
    rbAddUn8rb_eq _ _ _ _ (rnd_le _ _ (cA_le x) (cA_le a)) (rnd_le _ _ (cG_le x) (cG_le a))
      (rnd_le _ _ (cA_le y) hb) (rnd_le _ _ (cG_le y) hb)]
  exact or_shl8_pack _ _ _ _ (sat_le _ _) (sat_le _ _) (sat_le _ _) (sat_le _ _)

end Pixman.Lemmas

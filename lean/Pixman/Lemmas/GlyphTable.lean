import Pixman.Model.Glyph
/-!
  List-level lemmas for the glyph-cache table: the glyphs stored in a table (`entries`), the
  number of tombstones (`tombs`) and of empty slots (`empties`), and how a single-slot update
  changes them.
-/
namespace Pixman.Glyph

def Slot.glyph? : Slot → Option G
  | .entry g => some g
  | _ => none

def Slot.isEntry : Slot → Bool | .entry _ => true | _ => false

/-- the glyph of a slot as a list of length 0 or 1 -/
def Slot.gl : Slot → List G
  | .entry g => [g]
  | _ => []
def Slot.tb (s : Slot) : Nat := if s.isTomb then 1 else 0
def Slot.eb (s : Slot) : Nat := if s.isEmpty then 1 else 0

/-- the glyph objects stored in a table, in slot order -/
def entries (t : List Slot) : List G := t.filterMap Slot.glyph?
/-- number of tombstone slots -/
def tombs (t : List Slot) : Nat := t.countP Slot.isTomb
/-- number of empty slots -/
def empties (t : List Slot) : Nat := t.countP Slot.isEmpty

theorem entries_append (a b : List Slot) : entries (a ++ b) = entries a ++ entries b := by
  simp [entries]

theorem tombs_append (a b : List Slot) : tombs (a ++ b) = tombs a + tombs b := by
  simp [tombs]

theorem empties_append (a b : List Slot) : empties (a ++ b) = empties a + empties b := by
  simp [empties]

theorem entries_cons (s : Slot) (t : List Slot) :
    entries (s :: t) = s.gl ++ entries t := by
  cases s <;> simp [entries, Slot.glyph?, Slot.gl, List.filterMap_cons]

theorem tombs_cons (s : Slot) (t : List Slot) :
    tombs (s :: t) = s.tb + tombs t := by
  cases s <;> simp [tombs, Slot.isTomb, Slot.tb, List.countP_cons] <;> omega

theorem empties_cons (s : Slot) (t : List Slot) :
    empties (s :: t) = s.eb + empties t := by
  cases s <;> simp [empties, Slot.isEmpty, Slot.eb, List.countP_cons] <;> omega

theorem mem_entries {t : List Slot} {g : G} : g ∈ entries t ↔ Slot.entry g ∈ t := by
  simp only [entries, List.mem_filterMap]
  constructor
  · rintro ⟨s, hs, h⟩
    cases s <;> simp [Slot.glyph?] at h
    subst h; exact hs
  · intro h; exact ⟨_, h, rfl⟩

theorem entries_replicate_empty (n : Nat) : entries (List.replicate n .empty) = [] := by
  induction n with
  | zero => rfl
  | succ n ih => rw [List.replicate_succ, entries_cons]; simpa [Slot.gl] using ih

theorem tombs_replicate_empty (n : Nat) : tombs (List.replicate n .empty) = 0 := by
  induction n with
  | zero => rfl
  | succ n ih => rw [List.replicate_succ, tombs_cons]; simpa [Slot.isTomb, Slot.tb] using ih

/-- every slot is an entry, a tombstone or empty -/
theorem count_total (t : List Slot) : (entries t).length + tombs t + empties t = t.length := by
  induction t with
  | nil => rfl
  | cons s t ih =>
    rw [entries_cons, tombs_cons, empties_cons]
    cases s <;> simp [Slot.isTomb, Slot.isEmpty, Slot.gl, Slot.tb, Slot.eb] <;> omega

theorem empties_pos_iff (t : List Slot) : 0 < empties t ↔ Slot.empty ∈ t := by
  induction t with
  | nil => simp [empties]
  | cons s t ih =>
    rw [empties_cons]
    cases s <;> simp [Slot.isEmpty, Slot.eb, ih] <;> omega

/-- splitting a table at slot `i` -/
theorem split_at (t : List Slot) (i : Nat) (h : i < t.length) :
    t = t.take i ++ t[i] :: t.drop (i + 1) := by
  rw [← List.drop_eq_getElem_cons h, List.take_append_drop]

theorem set_split (t : List Slot) (i : Nat) (h : i < t.length) (s : Slot) :
    t.set i s = t.take i ++ s :: t.drop (i + 1) := by
  rw [List.set_eq_take_append_cons_drop, if_pos h]

/-- effect of one slot update on the three measures, in a list-free form -/
theorem set_measures (t : List Slot) (i : Nat) (h : i < t.length) (s : Slot) :
    ∃ A B : List G, ∃ n m : Nat,
      entries t = A ++ t[i].gl ++ B ∧
      entries (t.set i s) = A ++ s.gl ++ B ∧
      tombs t = n + t[i].tb ∧
      tombs (t.set i s) = n + s.tb ∧
      empties t = m + t[i].eb ∧
      empties (t.set i s) = m + s.eb := by
  refine ⟨entries (t.take i), entries (t.drop (i + 1)),
          tombs (t.take i) + tombs (t.drop (i + 1)), empties (t.take i) + empties (t.drop (i + 1)), ?_⟩
  rw [set_split t i h s]
  refine ⟨?_, ?_, ?_, ?_, ?_, ?_⟩
  · conv => lhs; rw [split_at t i h]
    rw [entries_append, entries_cons, List.append_assoc]
  · rw [entries_append, entries_cons, List.append_assoc]
  · conv => lhs; rw [split_at t i h]
    rw [tombs_append, tombs_cons]; omega
  · rw [tombs_append, tombs_cons]; omega
  · conv => lhs; rw [split_at t i h]
    rw [empties_append, empties_cons]; omega
  · rw [empties_append, empties_cons]; omega

/-- MRU-list facts -/
theorem filter_ne_perm {l : List G} {g : G} (hn : l.Nodup) (hg : g ∈ l) :
    (g :: l.filter (· ≠ g)).Perm l := by
  induction l with
  | nil => cases hg
  | cons a l ih =>
    rw [List.nodup_cons] at hn
    by_cases h : a = g
    · subst h
      have : l.filter (· ≠ a) = l := by
        rw [List.filter_eq_self]; intro x hx; simp; intro hxa; subst hxa; exact hn.1 hx
      rw [List.filter_cons_of_neg (by simp), this]
    · have hg' : g ∈ l := by
        cases hg with
        | head => exact absurd rfl h
        | tail _ h' => exact h'
      have := ih hn.2 hg'
      simp only [List.filter_cons, ne_eq, h, not_false_eq_true, decide_true, if_true]
      exact (List.Perm.swap a g _).trans (List.Perm.cons a this)

theorem filter_ne_of_perm_middle {l A B : List G} {g : G} (hp : l.Perm (A ++ g :: B))
    (hn : (A ++ g :: B).Nodup) : (l.filter (· ≠ g)).Perm (A ++ B) := by
  have h1 := hp.filter (· ≠ g)
  have h2 : (A ++ g :: B).filter (· ≠ g) = A ++ B := by
    rw [List.nodup_append] at hn
    obtain ⟨_, hB, hAB⟩ := hn
    rw [List.nodup_cons] at hB
    rw [List.filter_append, List.filter_cons]
    simp only [ne_eq, not_true_eq_false, decide_false, Bool.false_eq_true, if_false]
    congr 1
    · rw [List.filter_eq_self]; intro x hx; simp; intro hxg; subst hxg
      exact hAB x hx x (List.mem_cons_self) rfl
    · rw [List.filter_eq_self]; intro x hx; simp; intro hxg; subst hxg; exact hB.1 hx
  rw [h2] at h1; exact h1

end Pixman.Glyph

import Pixman.Lemmas.RegionCanon
/-! The rectangles of a canonical region are pairwise disjoint (used by the glyph-drawing
    decomposition: a composite loop over the boxes of a region touches each pixel once). -/
namespace Pixman.Region

/-- two boxes share no point -/
def BoxDisj (a b : Box) : Prop := ∀ x y, ¬(a.Mem x y ∧ b.Mem x y)

theorem spansSep_head_gap : ∀ {t : List Box} {a : Box}, SpansSep (a :: t) → ∀ b ∈ t, a.x2 < b.x1 := by
  intro t
  induction t with
  | nil => intro a _ b hb; cases hb
  | cons c t ih =>
    intro a h b hb
    obtain ⟨_, h2, h3⟩ := h
    rcases List.mem_cons.1 hb with rfl | hb
    · exact h2
    · have := ih h3 b hb
      have := spansSep_good h3 c (List.mem_cons_self ..)
      omega

theorem spansSep_pairwise_gap : ∀ {l : List Box}, SpansSep l → l.Pairwise (fun a b => a.x2 < b.x1) := by
  intro l
  induction l with
  | nil => intro _; exact List.Pairwise.nil
  | cons a t ih =>
    intro h
    exact List.Pairwise.cons (spansSep_head_gap h) (ih (spansSep_tail h))

theorem bandsOK_head_y : ∀ {t : List Band} {a : Band}, BandsOK (a :: t) → ∀ b ∈ t, a.2.1 ≤ b.1 := by
  intro t
  induction t with
  | nil => intro a _ b hb; cases hb
  | cons c t ih =>
    intro a h b hb
    obtain ⟨y1, y2, l⟩ := a
    obtain ⟨y1', y2', l'⟩ := c
    obtain ⟨_, h2, _, h4⟩ := h
    rcases List.mem_cons.1 hb with rfl | hb
    · exact h2
    · have := ih h4 b hb
      have := (bandsOK_head h4).2.1
      simp only at *
      omega

theorem bandsOK_pairwise_y : ∀ {bs : List Band}, BandsOK bs → bs.Pairwise (fun a b => a.2.1 ≤ b.1) := by
  intro bs
  induction bs with
  | nil => intro _; exact List.Pairwise.nil
  | cons a t ih =>
    intro h
    exact List.Pairwise.cons (bandsOK_head_y h) (ih (bandsOK_tail h))

theorem canonList_disjoint {l : List Box} (h : CanonList l) : l.Pairwise BoxDisj := by
  obtain ⟨bs, hk, rfl⟩ := h
  rw [List.pairwise_flatten]
  constructor
  · intro l hl
    rw [List.mem_map] at hl
    obtain ⟨a, ha, rfl⟩ := hl
    have hband := bandsOK_all hk a ha
    refine (spansSep_pairwise_gap hband.2.2.2).imp ?_
    intro p q hpq x y hxy
    have := hxy.1.2.1; have := hxy.2.1
    omega
  · rw [List.pairwise_map]
    refine (bandsOK_pairwise_y hk).imp_of_mem ?_
    intro a b ha hb hab p hp q hq x y hxy
    have h1 := (bandsOK_all hk a ha).2.2.1 p hp
    have h2 := (bandsOK_all hk b hb).2.2.1 q hq
    have := hxy.1.2.2.2; have := hxy.2.2.2.1
    omega

theorem canon_rects_disjoint {r : Region} (h : Canon r) : r.rects.Pairwise BoxDisj :=
  canonList_disjoint (canon_canonList h)

end Pixman.Region

/-
  C15: constructors as allocation sequences (F4), broken operands (F2), the failure exits of
  validate / init_rects / init_from_image / translate.
-/
import Pixman.Lemmas.RegionAllocRefine
namespace Pixman.Model.RegionAlloc
open Pixman.Region

/-! ### F4 -/

theorem Own.freeAll {rest : List Nat} : ∀ (ids : List Nat) (h : Heap), Own h (ids ++ rest) → Own (freeAll ids h) rest
  | [], _, o => o
  | id :: t, h, o => by
    simp only [RegionAlloc.freeAll]
    exact Own.freeAll t _ (Own.free o)

theorem Own.seqAllocGo {s : Sched} {rest : List Nat} : ∀ (m : Nat) (got : List Nat) (h : Heap),
    Own h (got ++ rest) →
    match seqAllocGo s m got h with
    | (some ids, h') => Own h' (ids ++ rest) ∧ ids.length = m + got.length
    | (none, h') => Own h' rest
  | 0, got, h, o => by simp only [RegionAlloc.seqAllocGo]; exact ⟨o, by simp⟩
  | m + 1, got, h, o => by
    simp only [RegionAlloc.seqAllocGo]
    cases hm : h.malloc s with
    | mk oid h1 =>
      cases oid with
      | none => simp only; exact Own.freeAll got _ (o.malloc_none hm)
      | some id =>
        simp only
        have ih := Own.seqAllocGo (s := s) (rest := rest) m (id :: got) h1 (o.malloc_some hm)
        cases hg : RegionAlloc.seqAllocGo s m (id :: got) h1 with
        | mk oids h2 =>
          rw [hg] at ih
          cases oids with
          | none => exact ih
          | some ids => exact ⟨ih.1, by have := ih.2; simp at this; omega⟩

/-! ### F2 -/

theorem nil_of_nar {r : RegionA} (h : r.nar = true) : r.nil = true := by
  obtain ⟨e, d⟩ := r; cases d <;> simp_all [RegionA.nar, RegionA.nil, RegionA.erase, DataA.erase, Region.nar, Region.nil]

theorem intersectA_broken {c : Cfg} {s : Sched} {same12 : Bool} {al : Alias} {nr r1 r2 : RegionA} {h : Heap}
    (hb : r1.nar = true ∨ r2.nar = true) :
    (intersectA c s same12 al nr r1 r2 h).1 = false ∧ (intersectA c s same12 al nr r1 r2 h).2.1.isBroken = true := by
  have hn : (r1.nil || r2.nil || !extentCheck r1.extents r2.extents) = true := by
    rcases hb with hb | hb <;> simp [nil_of_nar hb]
  have hn2 : (r1.nar || r2.nar) = true := by rcases hb with hb | hb <;> simp [hb]
  simp [intersectA, hn, hn2]

theorem inverseA_broken {c : Cfg} {s : Sched} {same : Bool} {nr r1 : RegionA} {b : Box} {h : Heap}
    (hb : r1.nar = true) :
    (inverseA c s same nr r1 b h).1 = false ∧ (inverseA c s same nr r1 b h).2.1 = brkA := by
  simp [inverseA, nil_of_nar hb, hb, pixmanBreak]

theorem subtractA_broken_subtrahend {c : Cfg} {s : Sched} {sameMS : Bool} {al : Alias} {rd rm rs : RegionA} {h : Heap}
    (hb : rs.nar = true) :
    (subtractA c s sameMS al rd rm rs h).1 = false ∧ (subtractA c s sameMS al rd rm rs h).2.1 = brkA := by
  simp [subtractA, nil_of_nar hb, hb, pixmanBreak]

/-- a broken minuend with a sound subtrahend: the C code copies it — the result is broken but the
    call returns TRUE (mirrors `pixman_region_copy` of a broken source) -/
theorem subtractA_broken_minuend {c : Cfg} {s : Sched} {sameMS : Bool} {rd rm rs : RegionA} {h : Heap}
    (hb : rm.data = .broken) (hs : rs.nar = false) :
    (subtractA c s sameMS .none rd rm rs h).1 = true ∧ (subtractA c s sameMS .none rd rm rs h).2.1.data = .broken := by
  obtain ⟨me, md⟩ := rm
  simp only at hb; subst hb
  simp [subtractA, RegionA.nil, RegionA.erase, DataA.erase, Region.nil, hs, copyA]

theorem unionA_broken_first {c : Cfg} {s : Sched} {al : Alias} {nr r1 r2 : RegionA} {h : Heap}
    (hb : r1.nar = true) :
    (unionA c s false al nr r1 r2 h).1 = false ∧ (unionA c s false al nr r1 r2 h).2.1 = brkA := by
  simp [unionA, nil_of_nar hb, hb, pixmanBreak]

theorem unionA_broken_second {c : Cfg} {s : Sched} {al : Alias} {nr r1 r2 : RegionA} {h : Heap}
    (hn : r1.nil = false) (hb : r2.nar = true) :
    (unionA c s false al nr r1 r2 h).1 = false ∧ (unionA c s false al nr r1 r2 h).2.1 = brkA := by
  simp [unionA, hn, nil_of_nar hb, hb, pixmanBreak]

/-- union of an *empty* first operand with a broken second one copies the broken region: result
    broken, return value TRUE (as the C code does) -/
theorem unionA_empty_broken {c : Cfg} {s : Sched} {nr r1 r2 : RegionA} {h : Heap}
    (h1 : r1.data = .emptyStatic) (h2 : r2.data = .broken) :
    (unionA c s false .none nr r1 r2 h).1 = true ∧ (unionA c s false .none nr r1 r2 h).2.1.data = .broken := by
  obtain ⟨e1, d1⟩ := r1; obtain ⟨e2, d2⟩ := r2
  simp only at h1 h2; subst h1; subst h2
  simp [unionA, RegionA.nil, RegionA.nar, RegionA.erase, DataA.erase, Region.nil, Region.nar, copyA]

theorem copyA_broken_source {c : Cfg} {s : Sched} {dst src : RegionA} {h : Heap} (hb : src.data = .broken) :
    (copyA c s false dst src h).1 = true ∧ (copyA c s false dst src h).2.1 = ⟨src.extents, .broken⟩ := by
  obtain ⟨e, d⟩ := src
  simp only at hb; subst hb
  simp [copyA]

theorem translateA_keeps_broken {c : Cfg} {s : Sched} {r : RegionA} {dx dy : Int} {h : Heap}
    (hb : r.isBroken = true) : (translateA c s r dx dy h).1.data = .broken ∧ (translateA c s r dx dy h).2 = h := by
  obtain ⟨e, d⟩ := r
  have hd : d = .broken := by
    cases d <;> simp_all [RegionA.isBroken]
  subst hd
  simp only [translateA, RegionA.nar, RegionA.erase, DataA.erase, Region.nar]
  split
  · exact ⟨rfl, rfl⟩
  · split
    · exact ⟨rfl, rfl⟩
    · exact ⟨rfl, rfl⟩

/-! ### failure exits of validate / init_rects / init_from_image -/

theorem validateA_false {c : Cfg} {s : Sched} {id size : Nat} {l : List Box} {h : Heap}
    (hf : (validateA c s id size l h).1 = false) : (validateA c s id size l h).2.1 = brkA := by
  revert hf
  simp only [validateA]
  cases quickSortRects l with
  | nil => intro hf; simp at hf
  | cons b t =>
    simp only
    generalize scatterA c s _ t h = sc
    obtain ⟨res, h1⟩ := sc
    cases res with
    | bail ids arr => intro _; rfl
    | ok st =>
      simp only
      generalize mergeAllA c s _ _ _ = mg
      obtain ⟨om, h2⟩ := mg
      cases om with
      | none => intro _; rfl
      | some rl => cases rl <;> (intro hf; simp at hf)

theorem initRectsA_false {c : Cfg} {s : Sched} {boxes : List Box} {h : Heap}
    (hf : (initRectsA c s boxes h).1 = false) : (initRectsA c s boxes h).2.1 = brkA := by
  revert hf
  unfold initRectsA
  split
  · intro hf; simp at hf
  · intro hf; simp at hf
  · generalize allocData c s boxes.length h = ad
    obtain ⟨oid, h1⟩ := ad
    cases oid with
    | none => intro _; rfl
    | some id =>
      simp only
      generalize List.filter _ boxes = fl
      split
      · intro hf; simp at hf
      · intro hf; simp at hf
      · exact validateA_false

/-- init_from_image (void): the result is either the broken region or has the failure-free
    rectangles and extents -/
theorem initFromImageA_cases (c : Cfg) (s : Sched) (w : Nat) (rows : List (List Bool)) (h : Heap) :
    (initFromImageA c s w rows h).1 = brkA ∨
    ((initFromImageA c s w rows h).1.erase.extents = (initFromImage w rows).extents ∧
     (initFromImageA c s w rows h).1.erase.rects = (initFromImage w rows).rects ∨
     (initFromImageA c s w rows h).1.erase.nil = true) := by
  simp only [initFromImageA]
  generalize runEventsFromEmpty c s _ h = re
  obtain ⟨o, h1⟩ := re
  cases o with
  | none => left; rfl
  | some ob =>
    right
    cases ob with
    | none => right; rfl
    | some b =>
      simp only
      cases hg : (initFromImage w rows).data with
      | heap l => left; simp [RegionA.erase, DataA.erase, Region.rects, hg]
      | single => left; simp [RegionA.erase, DataA.erase, Region.rects, hg]
      | emptyStatic => right; rfl
      | broken => right; rfl

end Pixman.Model.RegionAlloc

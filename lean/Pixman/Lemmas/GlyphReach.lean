import Pixman.Lemmas.GlyphStep
/-!
  Refinement of the glyph cache to a finite map: the reachability invariant (every live entry can
  be reached from its hash slot without crossing an empty slot), uniqueness of keys, and
  correctness of lookup.
-/
namespace Pixman.Glyph

/-! ### slot access after an update -/

theorem get_congr (p : Params) (c : Cache) {y y' : Nat} (hy : y % p.hashSize = y' % p.hashSize) :
    c.get p y = c.get p y' := by
  unfold Cache.get; rw [hy]

theorem get_of_table {p : Params} {c c' : Cache} (ht : c'.table = c.table) (y : Nat) :
    c'.get p y = c.get p y := by
  unfold Cache.get; rw [ht]

theorem get_set {p : Params} {c : Cache} (hl : c.table.length = p.hashSize) (hp : 0 < p.hashSize)
    (x : Nat) (s : Slot) (y : Nat) :
    (c.set p x s).get p y = if y % p.hashSize = x % p.hashSize then s else c.get p y := by
  unfold Cache.get Cache.set
  simp only [List.getD_eq_getElem?_getD, List.getElem?_set]
  have hx : x % p.hashSize < c.table.length := mod_lt_len hl hp x
  by_cases h : y % p.hashSize = x % p.hashSize
  · simp [h, hx]
  · have h' : ¬ x % p.hashSize = y % p.hashSize := fun e => h e.symm
    simp [h, h']

theorem succ_mod_congr {n a b : Nat} (h : a % n = b % n) : (a + 1) % n = (b + 1) % n := by
  rw [Nat.add_mod a 1 n, Nat.add_mod b 1 n, h]

/-- a glyph object occupies one slot only -/
theorem entries_nodup_index : ∀ (t : List Slot) (i j : Nat) (hi : i < t.length) (hj : j < t.length) (g : G),
    (entries t).Nodup → t[i] = .entry g → t[j] = .entry g → i = j := by
  intro t
  induction t with
  | nil => intro i j hi; simp at hi
  | cons s t ih =>
    intro i j hi hj g hnd h1 h2
    rw [entries_cons] at hnd
    cases i with
    | zero =>
      cases j with
      | zero => rfl
      | succ j =>
        simp only [List.getElem_cons_zero] at h1
        simp only [List.getElem_cons_succ] at h2
        subst h1
        simp only [Slot.gl, List.singleton_append, List.nodup_cons] at hnd
        exact absurd (mem_entries.mpr (h2 ▸ List.getElem_mem _)) hnd.1
    | succ i =>
      cases j with
      | zero =>
        simp only [List.getElem_cons_zero] at h2
        simp only [List.getElem_cons_succ] at h1
        subst h2
        simp only [Slot.gl, List.singleton_append, List.nodup_cons] at hnd
        exact absurd (mem_entries.mpr (h1 ▸ List.getElem_mem _)) hnd.1
      | succ j =>
        simp only [List.getElem_cons_succ] at h1 h2
        have := ih i j (by simpa using hi) (by simpa using hj) g ((List.nodup_append.mp hnd).2.1) h1 h2
        omega

theorem slot_unique {p : Params} {k : Nat} {c : Cache} (hp : 0 < p.hashSize) (hc : TableOK p k c)
    {y y' : Nat} {g : G} (h1 : c.get p y = .entry g) (h2 : c.get p y' = .entry g) :
    y % p.hashSize = y' % p.hashSize := by
  rw [get_eq hc.len hp] at h1 h2
  exact entries_nodup_index c.table _ _ _ _ g hc.nodup h1 h2

theorem mem_iff_get {p : Params} {c : Cache} (hl : c.table.length = p.hashSize) (hp : 0 < p.hashSize)
    (s : Slot) : s ∈ c.table ↔ ∃ y, c.get p y = s := by
  constructor
  · intro hs; obtain ⟨j, _, hj⟩ := mem_probe hl hp hs 0; exact ⟨_, hj⟩
  · rintro ⟨y, hy⟩; rw [← hy]; exact get_mem hl hp y

/-! ### the invariants -/

/-- every live entry is reachable from its hash slot without crossing an empty slot -/
def Reach (p : Params) (h : Nat → Nat → Nat) (c : Cache) : Prop :=
  ∀ y g, c.get p y = .entry g →
    ∃ d, d < p.hashSize ∧ c.get p (h g.font g.key + d) = .entry g ∧
      ∀ j, j < d → c.get p (h g.font g.key + j) ≠ .empty

/-- at most one live entry per (font key, glyph key) -/
def KeysUnique (p : Params) (c : Cache) : Prop :=
  ∀ y y' g g', c.get p y = .entry g → c.get p y' = .entry g' →
    g.font = g'.font → g.key = g'.key → g = g'

/-- `c'` holds no entry that `c` does not hold in the same slot -/
def Sub (p : Params) (c' c : Cache) : Prop := ∀ y g, c'.get p y = .entry g → c.get p y = .entry g

theorem Sub.refl (p : Params) (c : Cache) : Sub p c c := fun _ _ h => h
theorem Sub.trans {p : Params} {a b c : Cache} (h1 : Sub p a b) (h2 : Sub p b c) : Sub p a c :=
  fun y g h => h2 y g (h1 y g h)

theorem KeysUnique.sub {p : Params} {c c' : Cache} (hk : KeysUnique p c) (hs : Sub p c' c) :
    KeysUnique p c' :=
  fun y y' g g' h1 h2 => hk y y' g g' (hs y g h1) (hs y' g' h2)

/-! ### lookup is correct -/

theorem lookupFrom_finds (p : Params) (c : Cache) (font key : Nat) (g : G)
    (hk : g.font = font ∧ g.key = key)
    (hu : ∀ y g', c.get p y = .entry g' → g'.font = font → g'.key = key → g' = g) :
    ∀ fuel idx, (∃ d, d < fuel ∧ c.get p (idx + d) = .entry g ∧
        ∀ j, j < d → c.get p (idx + j) ≠ .empty) →
      lookupFrom p c font key fuel idx = some (some g) := by
  intro fuel
  induction fuel with
  | zero => rintro idx ⟨d, hd, _⟩; omega
  | succ fuel ih =>
    rintro idx ⟨d, hd, hg, hpath⟩
    have next : c.get p idx ≠ .entry g →
        ∃ d, d < fuel ∧ c.get p (idx + 1 + d) = .entry g ∧ ∀ j, j < d → c.get p (idx + 1 + j) ≠ .empty := by
      intro hne
      cases d with
      | zero => exact absurd hg hne
      | succ d =>
        refine ⟨d, by omega, by rw [← hg]; congr 1; omega, fun j hj => ?_⟩
        have := hpath (j + 1) (by omega)
        rw [show idx + 1 + j = idx + (j + 1) by omega]; exact this
    unfold lookupFrom
    split
    · rename_i he
      cases d with
      | zero => rw [Nat.add_zero, he] at hg; cases hg
      | succ d => exact absurd he (hpath 0 (by omega))
    · rename_i ht; exact ih _ (next (by rw [ht]; simp))
    · rename_i g' hs
      split
      · rename_i hm
        rw [hu idx g' hs hm.1 hm.2]
      · rename_i hm
        apply ih _ (next _)
        rw [hs]; intro he
        simp only [Slot.entry.injEq] at he
        subst he; exact hm hk

theorem lookupFrom_absent (p : Params) (c : Cache) (font key : Nat)
    (hn : ∀ y g, c.get p y = .entry g → ¬(g.font = font ∧ g.key = key)) (fuel idx : Nat)
    (ht : lookupFrom p c font key fuel idx ≠ none) :
    lookupFrom p c font key fuel idx = some none := by
  cases hr : lookupFrom p c font key fuel idx with
  | none => exact absurd hr ht
  | some r =>
    cases r with
    | none => rfl
    | some g =>
      obtain ⟨⟨i, hi⟩, h1, h2⟩ := lookupFrom_some p c font key g _ _ hr
      exact absurd ⟨h1, h2⟩ (hn i g hi)

/-! ### preservation of reachability by single-slot updates -/

theorem reach_insert {p : Params} {h : Nat → Nat → Nat} {c c' : Cache} {g : G} {i : Nat}
    (hget : ∀ y, c'.get p y = if y % p.hashSize = i % p.hashSize then .entry g else c.get p y)
    (hne : (c.get p i).isEntry = false)
    (hpath : ∃ d, d < p.hashSize ∧ i = h g.font g.key + d ∧
      ∀ j, j < d → (c.get p (h g.font g.key + j)).isEntry = true)
    (hR : Reach p h c) : Reach p h c' := by
  intro y g' hy
  rw [hget] at hy
  split at hy
  · simp only [Slot.entry.injEq] at hy
    subst hy
    obtain ⟨d, hd, hi, hp'⟩ := hpath
    refine ⟨d, hd, ?_, fun j hj => ?_⟩
    · rw [hget, ← hi, if_pos rfl]
    · rw [hget]
      split
      · simp
      · have := hp' j hj
        intro he; rw [he] at this; simp [Slot.isEntry] at this
  · rename_i hyi
    obtain ⟨d, hd, hg, hp'⟩ := hR y g' hy
    refine ⟨d, hd, ?_, fun j hj => ?_⟩
    · rw [hget]
      split
      · rename_i heq
        rw [get_congr p c heq] at hg
        rw [hg] at hne; simp [Slot.isEntry] at hne
      · exact hg
    · rw [hget]
      split
      · simp
      · exact hp' j hj

theorem reach_tomb {p : Params} {h : Nat → Nat → Nat} {c c' : Cache} {g : G} {i : Nat}
    (hget : ∀ y, c'.get p y = if y % p.hashSize = i % p.hashSize then .tomb else c.get p y)
    (hgi : c.get p i = .entry g)
    (hsu : ∀ y, c.get p y = .entry g → y % p.hashSize = i % p.hashSize)
    (hR : Reach p h c) : Reach p h c' := by
  intro y g' hy
  rw [hget] at hy
  split at hy
  · cases hy
  · rename_i hyi
    obtain ⟨d, hd, hg, hp'⟩ := hR y g' hy
    refine ⟨d, hd, ?_, fun j hj => ?_⟩
    · rw [hget]
      split
      · rename_i heq
        rw [get_congr p c heq, hgi] at hg
        simp only [Slot.entry.injEq] at hg
        subst hg
        exact absurd (hsu y hy) hyi
      · exact hg
    · rw [hget]
      split
      · simp
      · exact hp' j hj

theorem reach_clear {p : Params} {h : Nat → Nat → Nat} {c c' : Cache} {x : Nat}
    (hget : ∀ y, c'.get p y = if y % p.hashSize = x % p.hashSize then .empty else c.get p y)
    (hx : c.get p x = .tomb) (hx1 : c.get p (x + 1) = .empty)
    (hR : Reach p h c) : Reach p h c' := by
  intro y g' hy
  rw [hget] at hy
  split at hy
  · cases hy
  · obtain ⟨d, hd, hg, hp'⟩ := hR y g' hy
    have key : ∀ j, j ≤ d → (h g'.font g'.key + j) % p.hashSize ≠ x % p.hashSize := by
      intro j hj heq
      rcases Nat.lt_or_ge j d with hlt | hge
      · have h1 : c.get p (h g'.font g'.key + j + 1) = .empty := by
          rw [get_congr p c (succ_mod_congr heq)]; exact hx1
        rcases Nat.lt_or_ge (j + 1) d with hlt' | hge'
        · exact hp' (j + 1) hlt' (by rw [← h1]; congr 1)
        · have : j + 1 = d := by omega
          subst this
          rw [show h g'.font g'.key + (j + 1) = h g'.font g'.key + j + 1 by omega, h1] at hg
          cases hg
      · have : j = d := by omega
        subst this
        rw [get_congr p c heq, hx] at hg
        cases hg
    refine ⟨d, hd, ?_, fun j hj => ?_⟩
    · rw [hget, if_neg (key d (Nat.le_refl _))]; exact hg
    · rw [hget, if_neg (key j (Nat.le_of_lt hj))]; exact hp' j hj

/-! ### insert_glyph, remove_glyph, eviction -/

theorem findFree_first (p : Params) (c : Cache) :
    ∀ fuel idx i, findFree p c fuel idx = some i →
      ∃ d, d < fuel ∧ i = idx + d ∧ ∀ j, j < d → (c.get p (idx + j)).isEntry = true := by
  intro fuel
  induction fuel with
  | zero => intro idx i h; simp [findFree] at h
  | succ fuel ih =>
    intro idx i h
    unfold findFree at h
    split at h
    · rename_i g hs
      obtain ⟨d, hd, hi, hp'⟩ := ih _ _ h
      refine ⟨d + 1, by omega, by omega, fun j hj => ?_⟩
      cases j with
      | zero => rw [Nat.add_zero, hs]; rfl
      | succ j =>
        have := hp' j (by omega)
        rw [show idx + (j + 1) = idx + 1 + j by omega]; exact this
    · simp only [Option.some.injEq] at h
      exact ⟨0, by omega, by omega, fun j hj => by omega⟩

theorem get_set' {p : Params} {c X : Cache} (ht : X.table = c.table) (hl : c.table.length = p.hashSize)
    (hp : 0 < p.hashSize) (x : Nat) (s : Slot) (y : Nat) :
    (X.set p x s).get p y = if y % p.hashSize = x % p.hashSize then s else c.get p y := by
  rw [get_set (by rw [ht]; exact hl) hp, get_of_table ht]

/-- insert_glyph keeps every entry reachable and, for a fresh key, the keys unique -/
theorem insertGlyph_reach {p : Params} {h : Nat → Nat → Nat} {c c0 c' : Cache} {g : G}
    (hp : 0 < p.hashSize) (hl : c.table.length = p.hashSize) (ht0 : c0.table = c.table)
    (hR : Reach p h c) (hi : insertGlyph p h c0 g = some c') :
    Reach p h c' ∧
      ∃ i, (c.get p i).isEntry = false ∧
        ∀ y, c'.get p y = if y % p.hashSize = i % p.hashSize then .entry g else c.get p y := by
  unfold insertGlyph at hi
  split at hi
  · simp at hi
  · rename_i i hf
    simp only [Option.some.injEq] at hi
    have hl0 : c0.table.length = p.hashSize := by rw [ht0]; exact hl
    have hne : (c.get p i).isEntry = false := by
      rw [← get_of_table (p := p) ht0 i]; exact findFree_some _ _ _ _ _ hf
    obtain ⟨d, hd, hid, hpath⟩ := findFree_first _ _ _ _ _ hf
    have hget : ∀ y, c'.get p y = if y % p.hashSize = i % p.hashSize then .entry g else c.get p y := by
      intro y
      rw [← hi]
      apply get_set' _ hl hp
      show (if (c0.get p i).isTomb then ({ c0 with nTomb := c0.nTomb - 1 } : Cache) else c0).table = c.table
      split <;> exact ht0
    refine ⟨reach_insert hget hne ⟨d, hd, hid, fun j hj => ?_⟩ hR, i, hne, hget⟩
    rw [← get_of_table (p := p) ht0]; exact hpath j hj


theorem clearTombs_reach {p : Params} {h : Nat → Nat → Nat} (hp : 0 < p.hashSize) :
    ∀ fuel (c : Cache) idx, c.table.length = p.hashSize → Reach p h c → c.get p (idx + 1) = .empty →
      Reach p h (clearTombs p fuel c idx) ∧ Sub p (clearTombs p fuel c idx) c := by
  intro fuel
  induction fuel with
  | zero => intro c idx _ hR _; exact ⟨hR, Sub.refl p c⟩
  | succ fuel ih =>
    intro c idx hl hR h1
    unfold clearTombs
    split
    · rename_i ht
      have hs : c.get p idx = .tomb := by
        cases hh : c.get p idx <;> rw [hh] at ht <;> simp [Slot.isTomb] at ht
      have hget : ∀ y, (({ c with nTomb := c.nTomb - 1 } : Cache).set p idx .empty).get p y =
          if y % p.hashSize = idx % p.hashSize then .empty else c.get p y :=
        fun y => get_set' rfl hl hp idx .empty y
      have hR2 := reach_clear hget hs h1 hR
      have hl2 : (({ c with nTomb := c.nTomb - 1 } : Cache).set p idx .empty).table.length = p.hashSize := by
        rw [set_table, List.length_set]; exact hl
      have h12 : (({ c with nTomb := c.nTomb - 1 } : Cache).set p idx .empty).get p (idx + p.hashSize - 1 + 1) = .empty := by
        rw [hget, if_pos]
        have : idx + p.hashSize - 1 + 1 = idx + p.hashSize := by omega
        rw [this, Nat.add_mod_right]
      obtain ⟨r1, r2⟩ := ih _ (idx + p.hashSize - 1) hl2 hR2 h12
      refine ⟨r1, r2.trans ?_⟩
      intro y g hy
      rw [hget] at hy
      split at hy
      · cases hy
      · exact hy
    · exact ⟨hR, Sub.refl p c⟩

theorem removeGlyph_reach {p : Params} {h : Nat → Nat → Nat} {k : Nat} {c c1 : Cache} {g : G}
    (hp : 0 < p.hashSize) (hc : TableOK p k c) (hR : Reach p h c) (hr : removeGlyph p h c g = some c1) :
    Reach p h c1 ∧ Sub p c1 c := by
  unfold removeGlyph at hr
  split at hr
  · simp at hr
  · rename_i i hf
    have hgi := findGlyph_some _ _ _ _ _ _ hf
    have hget : ∀ y, (({ c with nTomb := c.nTomb + 1, nGlyphs := c.nGlyphs - 1 } : Cache).set p i .tomb).get p y =
        if y % p.hashSize = i % p.hashSize then .tomb else c.get p y :=
      fun y => get_set' rfl hc.len hp i .tomb y
    have hR1 := reach_tomb hget hgi (fun y hy => slot_unique hp hc hy hgi) hR
    have hsub : Sub p (({ c with nTomb := c.nTomb + 1, nGlyphs := c.nGlyphs - 1 } : Cache).set p i .tomb) c := by
      intro y g' hy
      rw [hget] at hy
      split at hy
      · cases hy
      · exact hy
    have hl1 : (({ c with nTomb := c.nTomb + 1, nGlyphs := c.nGlyphs - 1 } : Cache).set p i .tomb).table.length = p.hashSize := by
      rw [set_table, List.length_set]; exact hc.len
    simp only at hr
    split at hr
    · rename_i he
      simp only [Option.some.injEq] at hr
      subst hr
      have he' : (({ c with nTomb := c.nTomb + 1, nGlyphs := c.nGlyphs - 1 } : Cache).set p i .tomb).get p (i + 1) = .empty := by
        cases hh : (({ c with nTomb := c.nTomb + 1, nGlyphs := c.nGlyphs - 1 } : Cache).set p i .tomb).get p (i + 1) <;>
          rw [hh] at he <;> simp [Slot.isEmpty] at he
      obtain ⟨r1, r2⟩ := clearTombs_reach (h := h) hp p.hashSize _ i hl1 hR1 he'
      exact ⟨r1, r2.trans hsub⟩
    · simp only [Option.some.injEq] at hr
      subst hr
      exact ⟨hR1, hsub⟩


theorem Reach.of_table {p : Params} {h : Nat → Nat → Nat} {c c' : Cache} (ht : c'.table = c.table)
    (hR : Reach p h c) : Reach p h c' := by
  intro y g hy
  rw [get_of_table ht] at hy
  obtain ⟨d, hd, hg, hp'⟩ := hR y g hy
  exact ⟨d, hd, by rw [get_of_table ht]; exact hg, fun j hj => by rw [get_of_table ht]; exact hp' j hj⟩

theorem Sub.of_table {p : Params} {c c' : Cache} (ht : c'.table = c.table) : Sub p c' c :=
  fun y g hy => by rw [get_of_table ht] at hy; exact hy

theorem KeysUnique.of_table {p : Params} {c c' : Cache} (ht : c'.table = c.table)
    (hk : KeysUnique p c) : KeysUnique p c' := hk.sub (Sub.of_table ht)

theorem filter_ne_getLast {l : List G} {g : G} (hn : l.Nodup) (hg : l.getLast? = some g) :
    l.filter (· ≠ g) = l.dropLast := by
  obtain ⟨ys, rfl⟩ := List.getLast?_eq_some_iff.mp hg
  rw [List.filter_append, List.dropLast_concat]
  have h1 : ys.filter (· ≠ g) = ys := by
    rw [List.filter_eq_self]
    intro x hx
    simp only [ne_eq, decide_eq_true_eq]
    intro hxg; subst hxg
    exact (List.nodup_append.mp hn).2.2 x hx x (List.mem_singleton.mpr rfl) rfl
  rw [h1]
  simp

theorem evict_refine {p : Params} {h : Nat → Nat → Nat} {k : Nat} (hp : 0 < p.hashSize) :
    ∀ fuel (c c' : Cache), CountedB p k c → Reach p h c → evict p h fuel c = some c' →
      Reach p h c' ∧ Sub p c' c ∧
        (c.nGlyphs ≤ (p.low : Int) + fuel → c'.mru = c.mru.take p.low) := by
  intro fuel
  induction fuel with
  | zero =>
    intro c c' hc hR he
    simp only [evict, Option.some.injEq] at he
    subst he
    refine ⟨hR, Sub.refl p c, fun hle => ?_⟩
    have hlen : c.mru.length = (entries c.table).length := hc.mru.length_eq
    have hgl := hc.tab.glyphs
    rw [List.take_of_length_le]; omega
  | succ fuel ih =>
    intro c c' hc hR he
    have hlen : c.mru.length = (entries c.table).length := hc.mru.length_eq
    have hgl := hc.tab.glyphs
    unfold evict at he
    split at he
    · rename_i hgt
      split at he
      · cases he
      · rename_i g hg
        split at he
        · cases he
        · rename_i c1 hr
          obtain ⟨u1, u2, u3, u4, u5⟩ := remove_unlink_counted hp hc hr
          obtain ⟨r1, r2⟩ := removeGlyph_reach hp hc.tab hR hr
          obtain ⟨m1, m2, _⟩ := removeGlyph_ok hp hc.tab hr
          have hR' : Reach p h (unlink c1 g) := Reach.of_table rfl r1
          obtain ⟨i1, i2, i3⟩ := ih _ _ u1 hR' he
          refine ⟨i1, (i2.trans (Sub.of_table rfl)).trans r2, fun hle => ?_⟩
          rw [i3 (by omega)]
          have hm : (unlink c1 g).mru = c.mru.dropLast := by
            show c1.mru.filter (· ≠ g) = _
            rw [m2]
            exact filter_ne_getLast (hc.mru.nodup_iff.mpr hc.tab.nodup) hg
          rw [hm, List.dropLast_eq_take, List.take_take]
          congr 1
          omega
    · simp only [Option.some.injEq] at he
      subst he
      refine ⟨hR, Sub.refl p c, fun _ => ?_⟩
      rw [List.take_of_length_le]; omega


end Pixman.Glyph

import Pixman.Lemmas.GlyphInv
/-!
  Preservation of the accounting invariant by remove_glyph, the eviction loop and every API call;
  no operation hangs while an empty slot exists.
-/
namespace Pixman.Glyph

/-! ### remove_glyph -/

theorem clearTombs_ok {p : Params} {k : Nat} (hp : 0 < p.hashSize) :
    ∀ fuel (c : Cache) idx, TableOK p k c →
      TableOK p k (clearTombs p fuel c idx) ∧
      entries (clearTombs p fuel c idx).table = entries c.table ∧
      (clearTombs p fuel c idx).mru = c.mru ∧ (clearTombs p fuel c idx).freeze = c.freeze ∧
      (clearTombs p fuel c idx).clock = c.clock ∧ (clearTombs p fuel c idx).nGlyphs = c.nGlyphs ∧
      (clearTombs p fuel c idx).nTomb ≤ c.nTomb := by
  intro fuel
  induction fuel with
  | zero => intro c idx hc; exact ⟨hc, rfl, rfl, rfl, rfl, rfl, Int.le_refl _⟩
  | succ fuel ih =>
    intro c idx hc
    unfold clearTombs
    split
    · rename_i ht
      have hs : c.get p idx = .tomb := by
        cases hh : c.get p idx <;> rw [hh] at ht <;> simp [Slot.isTomb] at ht
      obtain ⟨h1, h2⟩ := tableOK_set (c' := ({ c with nTomb := c.nTomb - 1 } : Cache).set p idx .empty)
        hp hc idx .empty rfl (by rw [hs]; rfl) rfl rfl (by rw [hs]; simp [Slot.tb, Slot.isTomb, Cache.set])
      obtain ⟨i1, i2, i3, i4, i5, i6, i7⟩ := ih _ (idx + p.hashSize - 1) h1
      refine ⟨i1, i2.trans h2, i3, i4, i5, i6, ?_⟩
      have : (({ c with nTomb := c.nTomb - 1 } : Cache).set p idx .empty).nTomb = c.nTomb - 1 := rfl
      omega
    · exact ⟨hc, rfl, rfl, rfl, rfl, rfl, Int.le_refl _⟩

theorem removeGlyph_ok {p : Params} {h : Nat → Nat → Nat} {k : Nat} {c c1 : Cache} {g : G}
    (hp : 0 < p.hashSize) (hc : TableOK p k c) (hr : removeGlyph p h c g = some c1) :
    TableOK p k c1 ∧ c1.mru = c.mru ∧ c1.freeze = c.freeze ∧ c1.clock = c.clock ∧
      c1.nGlyphs = c.nGlyphs - 1 ∧ c1.nTomb ≤ c.nTomb + 1 ∧
      ∃ A B, entries c.table = A ++ g :: B ∧ entries c1.table = A ++ B := by
  unfold removeGlyph at hr
  split at hr
  · simp at hr
  · rename_i i hf
    have hget := findGlyph_some _ _ _ _ _ _ hf
    obtain ⟨h1, A, B, hA, hB⟩ :=
      tableOK_remove (c' := ({ c with nTomb := c.nTomb + 1, nGlyphs := c.nGlyphs - 1 } : Cache).set p i .tomb)
        hp hc i hget rfl rfl rfl
    simp only at hr
    split at hr
    · simp only [Option.some.injEq] at hr
      subst hr
      obtain ⟨i1, i2, i3, i4, i5, i6, i7⟩ := clearTombs_ok hp p.hashSize _ i h1
      refine ⟨i1, i3, i4, i5, i6, ?_, A, B, hA, i2.trans hB⟩
      exact Int.le_trans i7 (Int.le_refl _)
    · simp only [Option.some.injEq] at hr
      subst hr
      exact ⟨h1, rfl, rfl, rfl, rfl, Int.le_refl _, A, B, hA, hB⟩

theorem removeGlyph_ne_none {p : Params} {h : Nat → Nat → Nat} {k : Nat} {c : Cache} {g : G}
    (hp : 0 < p.hashSize) (hc : TableOK p k c) (hg : g ∈ entries c.table) :
    removeGlyph p h c g ≠ none := by
  unfold removeGlyph
  have := findGlyph_ne_none p c g p.hashSize (h g.font g.key)
    (mem_probe hc.len hp (mem_entries.mp hg) _)
  split
  · rename_i hn; exact absurd hn this
  · simp only; split <;> simp

/-- remove_glyph followed by free_glyph -/
theorem remove_unlink_counted {p : Params} {h : Nat → Nat → Nat} {k : Nat} {c c1 : Cache} {g : G}
    (hp : 0 < p.hashSize) (hc : CountedB p k c) (hr : removeGlyph p h c g = some c1) :
    CountedB p k (unlink c1 g) ∧ (unlink c1 g).freeze = c.freeze ∧ (unlink c1 g).clock = c.clock ∧
      (unlink c1 g).nGlyphs = c.nGlyphs - 1 ∧ (unlink c1 g).nTomb ≤ c.nTomb + 1 := by
  obtain ⟨h1, h2, h3, h4, h5, h6, A, B, hA, hB⟩ := removeGlyph_ok hp hc.tab hr
  refine ⟨⟨⟨h1.len, h1.glyphs, h1.tombs, h1.nodup, h1.ids⟩, ?_⟩, h3, h4, h5, h6⟩
  show (c1.mru.filter (· ≠ g)).Perm (entries c1.table)
  rw [hB, h2]
  have hm := hc.mru
  have hn := hc.tab.nodup
  rw [hA] at hm hn
  exact filter_ne_of_perm_middle hm hn

/-! ### eviction loop -/

theorem evict_ok {p : Params} {h : Nat → Nat → Nat} {k : Nat} (hp : 0 < p.hashSize) :
    ∀ fuel (c : Cache), CountedB p k c →
      ∃ c', evict p h fuel c = some c' ∧ CountedB p k c' ∧ c'.freeze = c.freeze ∧
        c'.clock = c.clock ∧ c'.nGlyphs ≤ c.nGlyphs ∧ c'.nGlyphs + c'.nTomb ≤ c.nGlyphs + c.nTomb ∧
        (c.nGlyphs ≤ (p.low : Int) + fuel → c'.nGlyphs ≤ (p.low : Int)) := by
  intro fuel
  induction fuel with
  | zero =>
    intro c hc
    exact ⟨c, rfl, hc, rfl, rfl, Int.le_refl _, Int.le_refl _, fun h => by simpa using h⟩
  | succ fuel ih =>
    intro c hc
    unfold evict
    split
    · rename_i hgt
      have hlen : c.mru.length = (entries c.table).length := hc.mru.length_eq
      have hgl := hc.tab.glyphs
      have hne : c.mru ≠ [] := by
        intro h0; rw [h0] at hlen; simp only [List.length_nil] at hlen; omega
      obtain ⟨g, hg⟩ : ∃ g, c.mru.getLast? = some g := by
        cases hl : c.mru.getLast? with
        | none => exact absurd (List.getLast?_eq_none_iff.mp hl) hne
        | some g => exact ⟨g, rfl⟩
      have hgm : g ∈ c.mru := List.mem_of_getLast? hg
      have hge : g ∈ entries c.table := hc.mru.mem_iff.mp hgm
      rw [hg]
      simp only
      cases hr : removeGlyph p h c g with
      | none => exact absurd hr (removeGlyph_ne_none hp hc.tab hge)
      | some c1 =>
        simp only
        obtain ⟨u1, u2, u3, u4, u5⟩ := remove_unlink_counted hp hc hr
        obtain ⟨c', e1, e2, e3, e4, e5, e6, e7⟩ := ih _ u1
        refine ⟨c', e1, e2, e3.trans u2, e4.trans u3, by omega, by omega, ?_⟩
        intro hle
        apply e7
        omega
    · rename_i hle
      exact ⟨c, rfl, hc, rfl, rfl, Int.le_refl _, Int.le_refl _, fun _ => by omega⟩

/-! ### API calls -/

theorem CountedB.congr {p : Params} {k : Nat} {c c' : Cache} (hc : CountedB p k c)
    (ht : c'.table = c.table) (hg : c'.nGlyphs = c.nGlyphs) (hn : c'.nTomb = c.nTomb)
    (hm : c'.mru = c.mru) : CountedB p k c' := by
  refine ⟨⟨?_, ?_, ?_, ?_, ?_⟩, ?_⟩
  · rw [ht]; exact hc.tab.len
  · rw [ht, hg]; exact hc.tab.glyphs
  · rw [ht, hn]; exact hc.tab.tombs
  · rw [ht]; exact hc.tab.nodup
  · rw [ht]; exact hc.tab.ids
  · rw [ht, hm]; exact hc.mru

theorem clearTable_counted (p : Params) (k : Nat) (c : Cache) : CountedB p k (clearTable p c) := by
  refine ⟨⟨?_, ?_, ?_, ?_, ?_⟩, ?_⟩ <;>
    simp [clearTable, entries_replicate_empty, tombs_replicate_empty]

theorem lookup_ne_none {p : Params} {h : Nat → Nat → Nat} {k : Nat} {c : Cache} (hp : 0 < p.hashSize)
    (hc : TableOK p k c) (he : HasEmpty p c) (font key : Nat) : lookup p h c font key ≠ none :=
  lookupFrom_ne_none p c font key _ _ (mem_probe hc.len hp ((hasEmpty_iff hc).mp he) _)

theorem lookup_some_mem {p : Params} {h : Nat → Nat → Nat} {k : Nat} {c : Cache} (hp : 0 < p.hashSize)
    (hc : TableOK p k c) {font key : Nat} {g : G} (hl : lookup p h c font key = some (some g)) :
    g ∈ entries c.table := by
  obtain ⟨⟨i, hi⟩, _⟩ := lookupFrom_some p c font key g _ _ hl
  rw [mem_entries, ← hi]; exact get_mem hc.len hp i

theorem stepCore_thaw {p : Params} {h : Nat → Nat → Nat} {c : Cache} (hp : 0 < p.hashSize)
    (hc : Counted p c) :
    CountedB p c.clock (stepCore p h c .thaw).1 ∧ (stepCore p h c .thaw).2 ≠ .hang ∧
    (HasEmpty p c → HasEmpty p (stepCore p h c .thaw).1) := by
  generalize hr : stepCore p h c .thaw = r
  unfold stepCore at hr
  simp only at hr
  have hc0 : CountedB p c.clock ({ c with freeze := c.freeze - 1 } : Cache) := hc.congr rfl rfl rfl rfl
  have hg0 := hc.tab.glyphs
  have ht0 := hc.tab.tombs
  split at hr
  · generalize hc1e : (if c.nTomb > (p.high : Int) then clearTable p ({ c with freeze := c.freeze - 1 } : Cache)
        else ({ c with freeze := c.freeze - 1 } : Cache)) = c1 at hr
    have hc1 : CountedB p c.clock c1 ∧ c1.nGlyphs + c1.nTomb ≤ c.nGlyphs + c.nTomb := by
      split at hc1e
      · subst hc1e; refine ⟨clearTable_counted _ _ _, ?_⟩
        show (0 : Int) + 0 ≤ _
        omega
      · subst hc1e; exact ⟨hc0, Int.le_refl _⟩
    obtain ⟨c', e1, e2, e3, e4, e5, e6, e7⟩ := evict_ok (h := h) hp (p.hashSize + 1) c1 hc1.1
    rw [e1] at hr
    simp only at hr
    subst hr
    refine ⟨e2, by simp, ?_⟩
    intro he
    unfold HasEmpty at he ⊢
    have := hc1.2
    show c'.nGlyphs + c'.nTomb ≤ _
    omega
  · subst hr
    exact ⟨hc0, by simp, fun he => he⟩


theorem insertGlyph_ne_none {p : Params} {h : Nat → Nat → Nat} {c : Cache} {g : G} (hp : 0 < p.hashSize)
    (hl : c.table.length = p.hashSize) (he : Slot.empty ∈ c.table) : insertGlyph p h c g ≠ none := by
  unfold insertGlyph
  have : findFree p c p.hashSize (h g.font g.key) ≠ none := by
    apply findFree_ne_none
    obtain ⟨j, hj, hs⟩ := mem_probe hl hp he (h g.font g.key)
    exact ⟨j, hj, by rw [hs]; rfl⟩
  split
  · rename_i hn; exact absurd hn this
  · simp

/-- a failed insertion (the private image copy cannot be allocated) returns NULL and leaves the
    cache exactly as it was, on each of the three paths of the C function -/
theorem stepCore_insertFail (p : Params) (h : Nat → Nat → Nat) (c : Cache) (font key : Nat) :
    stepCore p h c (.insertFail font key) = (c, .refused) := by
  simp only [stepCore]
  split
  · rfl
  · split <;> rfl

theorem stepCore_ok {p : Params} {h : Nat → Nat → Nat} {c : Cache} (hp : 0 < p.hashSize)
    (hc : Counted p c) (o : Op) :
    CountedB p (c.clock + 1) (stepCore p h c o).1 ∧
      (HasEmpty p c → (stepCore p h c o).2 ≠ .hang ∧ HasEmpty p (stepCore p h c o).1) := by
  have hc' : CountedB p (c.clock + 1) c := CountedB.mono hc (Nat.le_succ _)
  cases o with
  | freeze => exact ⟨hc'.congr rfl rfl rfl rfl, fun he => ⟨by simp [stepCore], he⟩⟩
  | thaw =>
    obtain ⟨h1, h2, h3⟩ := stepCore_thaw (h := h) hp hc
    exact ⟨h1.mono (Nat.le_succ _), fun he => ⟨h2, h3 he⟩⟩
  | insert font key =>
    generalize hr : stepCore p h c (.insert font key) = r
    unfold stepCore at hr
    simp only at hr
    split at hr
    · subst hr; exact ⟨hc', fun he => ⟨by simp, he⟩⟩
    · split at hr
      · subst hr; exact ⟨hc', fun he => ⟨by simp, he⟩⟩
      · rename_i hnf
        cases hi : insertGlyph p h { c with mru := (⟨c.clock, font, key⟩ : G) :: c.mru } ⟨c.clock, font, key⟩ with
        | none =>
          rw [hi] at hr; subst hr
          refine ⟨hc', fun he => ?_⟩
          exact absurd hi (insertGlyph_ne_none hp hc.tab.len ((hasEmpty_iff hc.tab).mp he))
        | some c' =>
          rw [hi] at hr; subst hr
          obtain ⟨i1, i2, i3, i4⟩ := insertGlyph_counted (g := ⟨c.clock, font, key⟩) hp hc (Nat.le_refl _) hi
          refine ⟨i1, fun he => ⟨by simp, ?_⟩⟩
          simp only [full, ge_iff_le, decide_eq_true_eq] at hnf
          unfold HasEmpty
          show c'.nGlyphs + c'.nTomb ≤ _
          omega
  | lookup font key =>
    generalize hr : stepCore p h c (.lookup font key) = r
    unfold stepCore at hr
    simp only at hr
    split at hr
    · subst hr; exact ⟨hc', fun he => ⟨by simp, he⟩⟩
    · rename_i hn
      subst hr; exact ⟨hc', fun he => absurd hn (lookup_ne_none hp hc.tab he font key)⟩
  | remove font key =>
    generalize hr : stepCore p h c (.remove font key) = r
    unfold stepCore at hr
    simp only at hr
    split at hr
    · rename_i hn
      subst hr; exact ⟨hc', fun he => absurd hn (lookup_ne_none hp hc.tab he font key)⟩
    · subst hr; exact ⟨hc', fun he => ⟨by simp, he⟩⟩
    · rename_i g hl
      have hg := lookup_some_mem hp hc.tab hl
      cases hrm : removeGlyph p h c g with
      | none => exact absurd hrm (removeGlyph_ne_none hp hc.tab hg)
      | some c1 =>
        rw [hrm] at hr; subst hr
        obtain ⟨u1, u2, u3, u4, u5⟩ := remove_unlink_counted hp hc' hrm
        refine ⟨u1, fun he => ⟨by simp, ?_⟩⟩
        unfold HasEmpty at he ⊢
        show (unlink c1 g).nGlyphs + (unlink c1 g).nTomb ≤ _
        omega
  | touch font key =>
    generalize hr : stepCore p h c (.touch font key) = r
    unfold stepCore at hr
    simp only at hr
    split at hr
    · rename_i g hl
      have hg := lookup_some_mem hp hc.tab hl
      subst hr
      refine ⟨⟨⟨hc'.tab.len, hc'.tab.glyphs, hc'.tab.tombs, hc'.tab.nodup, hc'.tab.ids⟩, ?_⟩,
        fun he => ⟨by simp, he⟩⟩
      show (g :: c.mru.filter (· ≠ g)).Perm _
      have hm := hc.mru
      exact (filter_ne_perm (hm.nodup_iff.mpr hc.tab.nodup) (hm.mem_iff.mpr hg)).trans hm
    · subst hr; exact ⟨hc', fun he => ⟨by simp, he⟩⟩
    · rename_i hn
      subst hr; exact ⟨hc', fun he => absurd hn (lookup_ne_none hp hc.tab he font key)⟩
  | insertFail font key =>
    rw [stepCore_insertFail]
    exact ⟨hc', fun he => ⟨by simp, he⟩⟩


/-! ### step and run -/

theorem step_ok {p : Params} {h : Nat → Nat → Nat} {c : Cache} (hp : 0 < p.hashSize)
    (hc : Counted p c) (o : Op) :
    Counted p (step p h c o).1 ∧
      (HasEmpty p c → (step p h c o).2 ≠ .hang ∧ HasEmpty p (step p h c o).1) := by
  obtain ⟨h1, h2⟩ := stepCore_ok (h := h) hp hc o
  exact ⟨h1.congr rfl rfl rfl rfl, h2⟩

theorem create_counted (p : Params) : Counted p (create p) := by
  refine ⟨⟨?_, ?_, ?_, ?_, ?_⟩, ?_⟩ <;>
    simp [create, entries_replicate_empty, tombs_replicate_empty]

theorem create_hasEmpty {p : Params} (hp : 0 < p.hashSize) : HasEmpty p (create p) := by
  unfold HasEmpty
  show (0 : Int) + 0 ≤ _
  omega

theorem run_ok {p : Params} {h : Nat → Nat → Nat} (hp : 0 < p.hashSize) :
    ∀ (ops : List Op) (c : Cache), Counted p c → HasEmpty p c →
      Counted p (run p h c ops).1 ∧ HasEmpty p (run p h c ops).1 ∧ Res.hang ∉ (run p h c ops).2 := by
  intro ops
  induction ops with
  | nil => intro c hc he; exact ⟨hc, he, by simp [run]⟩
  | cons o os ih =>
    intro c hc he
    obtain ⟨s1, s2⟩ := step_ok (h := h) hp hc o
    obtain ⟨s2, s3⟩ := s2 he
    obtain ⟨r1, r2, r3⟩ := ih _ s1 s3
    unfold run
    simp only
    refine ⟨r1, r2, ?_⟩
    intro hm
    rcases List.mem_cons.mp hm with hm | hm
    · exact s2 hm.symm
    · exact r3 hm

end Pixman.Glyph

/-
  Ownership transfer of every model function (C15, F3): with `rest` the blocks the function does
  not touch, `Own h (dest.ids ++ rest)` before implies `Own h' (result.ids ++ rest)` after — for
  every failure schedule.
-/
import Pixman.Lemmas.RegionAllocHeap
namespace Pixman.Model.RegionAlloc
open Pixman.Region

theorem ids_heap (e : Box) (id sz : Nat) (l : List Box) : (RegionA.mk e (.heap id sz l)).ids = [id] := rfl
@[simp] theorem ids_single (e : Box) : (RegionA.mk e .single).ids = [] := rfl
@[simp] theorem ids_empty (e : Box) : (RegionA.mk e .emptyStatic).ids = [] := rfl
@[simp] theorem ids_broken (e : Box) : (RegionA.mk e .broken).ids = [] := rfl
@[simp] theorem ids_brkA : brkA.ids = [] := rfl
@[simp] theorem ids_initA : initA.ids = [] := rfl

theorem Own.allocData_some {c : Cfg} {s : Sched} {n : Nat} {h h' : Heap} {ids : List Nat} {id : Nat}
    (o : Own h ids) (e : allocData c s n h = (some id, h')) : Own h' (id :: ids) := by
  unfold allocData at e
  split at e
  · injection e with e1 _; cases e1
  · exact o.malloc_some e

theorem Own.allocData_none {c : Cfg} {s : Sched} {n : Nat} {h h' : Heap} {ids : List Nat}
    (o : Own h ids) (e : allocData c s n h = (none, h')) : Own h' ids := by
  unfold allocData at e
  split at e
  · injection e with _ e2; subst e2; exact o
  · exact o.malloc_none e

theorem Own.freeData {r : RegionA} {h : Heap} {rest : List Nat} (o : Own h (r.ids ++ rest)) :
    Own (freeData r h) rest := by
  obtain ⟨e, d⟩ := r
  cases d <;> simp only [RegionAlloc.freeData] <;> first | exact o | exact Own.free o

theorem Own.freeOld {old : Option Nat} {h : Heap} {rest : List Nat} (o : Own h (old.toList ++ rest)) :
    Own (freeOld old h) rest := by
  cases old <;> simp only [RegionAlloc.freeOld] <;> first | exact o | exact Own.free o

theorem Own.pixmanBreak {r : RegionA} {h : Heap} {rest : List Nat} (o : Own h (r.ids ++ rest)) :
    Own (pixmanBreak r h).2 ((pixmanBreak r h).1.ids ++ rest) := by
  simp only [RegionAlloc.pixmanBreak, ids_brkA, List.nil_append]
  exact o.freeData

theorem Own.rectAlloc {c : Cfg} {s : Sched} {r : RegionA} {n : Nat} {h : Heap} {rest : List Nat}
    (o : Own h (r.ids ++ rest)) :
    Own (rectAlloc c s r n h).2.2 ((rectAlloc c s r n h).2.1.ids ++ rest) := by
  obtain ⟨e, d⟩ := r
  cases d with
  | single =>
    simp only [RegionAlloc.rectAlloc]
    split
    · next heq => exact (o.allocData_some heq)
    · next heq => exact (o.allocData_none heq)
  | emptyStatic =>
    simp only [RegionAlloc.rectAlloc]
    split
    · next heq => exact (o.allocData_some heq)
    · next heq => exact (o.allocData_none heq)
  | broken =>
    simp only [RegionAlloc.rectAlloc]
    split
    · next heq => exact (o.allocData_some heq)
    · next heq => exact (o.allocData_none heq)
  | heap id sz l =>
    simp only [RegionAlloc.rectAlloc]
    have o' : Own h (id :: rest) := o
    split
    · exact Own.free o'
    · have hr := o'.realloc s (List.mem_cons_self ..)
      split
      · next heq => rw [heq] at hr; exact hr
      · next heq => rw [heq] at hr; exact Own.free hr

theorem Own.addBlk {c : Cfg} {s : Sched} {b : Blk} {n : Nat} {h : Heap} {rest : List Nat}
    (o : Own h (b.id :: rest)) :
    match addBlk c s b n h with
    | (some b', h') => b'.id = b.id ∧ Own h' (b.id :: rest)
    | (none, h') => Own h' rest := by
  by_cases hgt : b.num + n > b.size
  · by_cases hz : (szof c (growTo b.num n) == 0) = true
    · simp only [RegionAlloc.addBlk, hgt, hz, if_true]; exact Own.free o
    · have hr := o.realloc s (List.mem_cons_self ..)
      cases hre : h.realloc s b.id with
      | mk ok h1 =>
        rw [hre] at hr
        cases ok
        · simp only [RegionAlloc.addBlk, hgt, hz, if_true, if_false, hre]; exact Own.free hr
        · simp only [RegionAlloc.addBlk, hgt, hz, if_true, if_false, hre]; exact ⟨by first | rfl | trivial, hr⟩
  · simp only [RegionAlloc.addBlk, hgt, if_false]; exact ⟨by first | rfl | trivial, o⟩

theorem Own.runEvents {c : Cfg} {s : Sched} {rest : List Nat} :
    ∀ (evs : List Ev) (b : Blk) (h : Heap), Own h (b.id :: rest) →
    match runEvents c s evs b h with
    | (some b', h') => b'.id = b.id ∧ Own h' (b.id :: rest)
    | (none, h') => Own h' rest
  | [], b, h, o => by simp only [RegionAlloc.runEvents]; exact ⟨by first | rfl | trivial, o⟩
  | .add n :: t, b, h, o => by
    have ha := o.addBlk (c := c) (s := s) (n := n)
    cases hab : RegionAlloc.addBlk c s b n h with
    | mk ob h1 =>
      rw [hab] at ha
      cases ob with
      | none => simp only [RegionAlloc.runEvents, hab]; exact ha
      | some b1 =>
        simp only [RegionAlloc.runEvents, hab]
        have ih := Own.runEvents (c := c) (s := s) t b1 h1 (by rw [ha.1]; exact ha.2)
        cases hre : RegionAlloc.runEvents c s t b1 h1 with
        | mk ob2 h2 =>
          rw [hre] at ih
          cases ob2 with
          | none => exact ih
          | some b2 => exact ⟨ih.1.trans ha.1, by rw [← ha.1]; exact ih.2⟩
  | .sub n :: t, b, h, o => by
    simp only [RegionAlloc.runEvents]
    exact Own.runEvents (c := c) (s := s) t { b with num := b.num - n } h o

theorem Own.downsize {c : Cfg} {s : Sched} {b : Blk} {num : Nat} {h : Heap} {rest : List Nat}
    (o : Own h (b.id :: rest)) :
    (downsize c s b num h).1.id = b.id ∧ Own (downsize c s b num h).2 (b.id :: rest) := by
  unfold RegionAlloc.downsize
  split
  · split
    · exact ⟨rfl, o⟩
    · have hr := o.realloc s (List.mem_cons_self ..)
      split
      · next heq => rw [heq] at hr; exact ⟨rfl, hr⟩
      · next heq => rw [heq] at hr; exact ⟨rfl, hr⟩
  · exact ⟨rfl, o⟩

theorem Own.fresh {c : Cfg} {s : Sched} {n : Nat} {e : Box} {sl : List Box} {h : Heap} {rest : List Nat}
    (o : Own h rest) :
    Own (match allocData c s n h with
          | (some id, h') => (true, (⟨e, .heap id n sl⟩ : RegionA), h')
          | (none, h') => (false, brkA, h')).2.2
        ((match allocData c s n h with
          | (some id, h') => (true, (⟨e, .heap id n sl⟩ : RegionA), h')
          | (none, h') => (false, brkA, h')).2.1.ids ++ rest) := by
  cases hal : allocData c s n h with
  | mk oid h1 =>
    cases oid with
    | none => exact o.allocData_none hal
    | some id => exact o.allocData_some hal

theorem Own.copyA {c : Cfg} {s : Sched} {same : Bool} {dst src : RegionA} {h : Heap} {rest : List Nat}
    (o : Own h (dst.ids ++ rest)) :
    Own (copyA c s same dst src h).2.2 ((copyA c s same dst src h).2.1.ids ++ rest) := by
  obtain ⟨de, dd⟩ := dst
  obtain ⟨se, sd⟩ := src
  cases same
  case true => simp only [RegionAlloc.copyA, if_true]; exact o
  case false =>
    cases sd with
    | heap sid ssz sl =>
      cases dd with
      | heap did dsz dl =>
        simp only [RegionAlloc.copyA, Bool.false_eq_true, if_false]
        split
        · exact Own.fresh (Own.free o)
        · exact o
      | single => simp only [RegionAlloc.copyA, Bool.false_eq_true, if_false]; exact Own.fresh o
      | emptyStatic =>
        simp only [RegionAlloc.copyA, Bool.false_eq_true, if_false]
        split
        · exact Own.fresh o
        · exact o
      | broken =>
        simp only [RegionAlloc.copyA, Bool.false_eq_true, if_false]
        split
        · exact Own.fresh o
        · exact o
    | single => simp only [RegionAlloc.copyA, Bool.false_eq_true, if_false]; exact o.freeData
    | emptyStatic => simp only [RegionAlloc.copyA, Bool.false_eq_true, if_false]; exact o.freeData
    | broken => simp only [RegionAlloc.copyA, Bool.false_eq_true, if_false]; exact o.freeData

theorem opPrologue_ids (al : Alias) (newReg : RegionA) (n1 n2 : Nat) :
    (opPrologue al newReg n1 n2).1.toList ++ (opPrologue al newReg n1 n2).2.ids = newReg.ids := by
  obtain ⟨e, d⟩ := newReg
  unfold opPrologue
  cases hu : ((al == Alias.first && decide (n1 > 1)) || (al == Alias.second && decide (n2 > 1))) <;>
    cases d <;> simp [RegionA.ids]

theorem opPrologue_ext (al : Alias) (newReg : RegionA) (n1 n2 : Nat) :
    (opPrologue al newReg n1 n2).2.extents = newReg.extents := by
  obtain ⟨e, d⟩ := newReg
  unfold opPrologue
  cases hu : ((al == Alias.first && decide (n1 > 1)) || (al == Alias.second && decide (n2 > 1))) <;>
    cases d <;> simp

theorem Own.opFinish {c : Cfg} {s : Sched} {ext : Box} {l : List Box} {b : Blk} {h : Heap} {rest : List Nat}
    (o : Own h (b.id :: rest)) :
    Own (opFinish c s ext l b h).2 ((opFinish c s ext l b h).1.ids ++ rest) := by
  unfold RegionAlloc.opFinish
  split
  · exact Own.free o
  · exact Own.free o
  · have d := o.downsize (c := c) (s := s) (num := l.length)
    simp only [ids_heap, d.1]
    exact d.2

theorem Own.opBody {c : Cfg} {s : Sched} {evs : List Ev} {l : List Box} {old : Option Nat} {ext : Box}
    {first : Bool × RegionA × Heap} {rest : List Nat}
    (o : Own first.2.2 (first.2.1.ids ++ (old.toList ++ rest))) :
    Own (opBody c s evs l old ext first).2.2 ((opBody c s evs l old ext first).2.1.ids ++ rest) := by
  obtain ⟨ok, r, h⟩ := first
  obtain ⟨re, rd⟩ := r
  have drop : ∀ {h' : Heap}, Own h' (old.toList ++ rest) → Own (RegionAlloc.freeOld old h') rest := fun o => o.freeOld
  cases ok
  case false =>
    simp only [RegionAlloc.opBody, Bool.not_false, if_true]
    -- the failed first allocation leaves whatever `first` holds; old_data is freed
    have o2 : Own h (old.toList ++ (RegionA.ids ⟨re, rd⟩ ++ rest)) :=
      o.of_perm (by simp only [← List.append_assoc]; exact List.Perm.append_right _ List.perm_append_comm)
    have := o2.freeOld
    exact this
  case true =>
    cases rd with
    | heap id sz rl =>
      simp only [RegionAlloc.opBody, Bool.not_true, Bool.false_eq_true, if_false]
      have o1 : Own h (id :: (old.toList ++ rest)) := o
      have hr := Own.runEvents (c := c) (s := s) evs ⟨id, sz, 0⟩ h o1
      cases hre : RegionAlloc.runEvents c s evs ⟨id, sz, 0⟩ h with
      | mk ob h1 =>
        rw [hre] at hr
        cases ob with
        | none => exact drop hr
        | some b =>
          simp only
          have o2 : Own h1 (old.toList ++ (b.id :: rest)) := by
            rw [hr.1]
            exact hr.2.of_perm (List.perm_middle.symm)
          exact Own.opFinish (Own.freeOld o2)
    | single =>
      simp only [RegionAlloc.opBody, Bool.not_true, Bool.false_eq_true, if_false]
      exact drop o
    | emptyStatic =>
      simp only [RegionAlloc.opBody, Bool.not_true, Bool.false_eq_true, if_false]
      exact drop o
    | broken =>
      simp only [RegionAlloc.opBody, Bool.not_true, Bool.false_eq_true, if_false]
      exact drop o

theorem Own.firstAlloc {c : Cfg} {s : Sched} {r : RegionA} {n : Nat} {h : Heap} {R : List Nat}
    (o : Own h (r.ids ++ R)) :
    Own (if n > r.size then RegionAlloc.rectAlloc c s r n h else (true, r, h)).2.2
      ((if n > r.size then RegionAlloc.rectAlloc c s r n h else (true, r, h)).2.1.ids ++ R) := by
  by_cases hn : n > r.size
  · simp only [hn, if_true]; exact o.rectAlloc
  · simp only [hn, if_false]; exact o

theorem Own.pixmanOpA {c : Cfg} {s : Sched} {k : OpKind} {app1 app2 : Bool} {al : Alias}
    {newReg reg1 reg2 : RegionA} {h : Heap} {rest : List Nat}
    (o : Own h (newReg.ids ++ rest)) :
    Own (pixmanOpA c s k app1 app2 al newReg reg1 reg2 h).2.2
      ((pixmanOpA c s k app1 app2 al newReg reg1 reg2 h).2.1.ids ++ rest) := by
  unfold RegionAlloc.pixmanOpA
  split
  · exact o.pixmanBreak
  · apply Own.opBody
    have hid := opPrologue_ids al newReg reg1.rects.length reg2.rects.length
    have o1 : Own h ((opPrologue al newReg reg1.rects.length reg2.rects.length).2.ids ++
        ((opPrologue al newReg reg1.rects.length reg2.rects.length).1.toList ++ rest)) := by
      apply o.of_perm
      rw [← hid, List.append_assoc]
      simp only [← List.append_assoc]
      exact List.Perm.append_right _ List.perm_append_comm
    exact o1.firstAlloc

@[simp] theorem ids_setExtentsA (r : RegionA) : (setExtentsA r).ids = r.ids := by
  obtain ⟨e, d⟩ := r; cases d <;> rfl

theorem ids_mk_data (e e' : Box) (d : DataA) : (RegionA.mk e d).ids = (RegionA.mk e' d).ids := by
  cases d <;> rfl

theorem Own.post {p : Bool × RegionA × Heap} {f : RegionA → RegionA} {rest : List Nat}
    (hf : ∀ r, (f r).ids = r.ids) (o : Own p.2.2 (p.2.1.ids ++ rest)) :
    Own (post p f).2.2 ((post p f).2.1.ids ++ rest) := by
  obtain ⟨ok, r, h⟩ := p
  cases ok
  · simp only [RegionAlloc.post, Bool.not_false, if_true]; exact o
  · simp only [RegionAlloc.post, Bool.not_true, Bool.false_eq_true, if_false, hf]; exact o

/-- closes the leaves of the public wrappers -/
macro "own_leaf" o:ident : tactic =>
  `(tactic| first
    | exact Own.copyA $o
    | exact Own.pixmanOpA $o
    | exact Own.freeData $o
    | exact Own.pixmanBreak $o
    | exact $o
    | exact Own.post ids_setExtentsA (Own.pixmanOpA $o)
    | exact Own.post (fun r => ids_mk_data _ _ r.data) (Own.pixmanOpA $o))

theorem Own.intersectA {c : Cfg} {s : Sched} {same12 : Bool} {al : Alias} {newReg reg1 reg2 : RegionA}
    {h : Heap} {rest : List Nat} (o : Own h (newReg.ids ++ rest)) :
    Own (intersectA c s same12 al newReg reg1 reg2 h).2.2
      ((intersectA c s same12 al newReg reg1 reg2 h).2.1.ids ++ rest) := by
  unfold RegionAlloc.intersectA
  repeat' split
  all_goals own_leaf o

theorem Own.unionA {c : Cfg} {s : Sched} {same12 : Bool} {al : Alias} {newReg reg1 reg2 : RegionA}
    {h : Heap} {rest : List Nat} (o : Own h (newReg.ids ++ rest)) :
    Own (unionA c s same12 al newReg reg1 reg2 h).2.2
      ((unionA c s same12 al newReg reg1 reg2 h).2.1.ids ++ rest) := by
  unfold RegionAlloc.unionA
  repeat' split
  all_goals own_leaf o

theorem Own.subtractA {c : Cfg} {s : Sched} {sameMS : Bool} {al : Alias} {regD regM regS : RegionA}
    {h : Heap} {rest : List Nat} (o : Own h (regD.ids ++ rest)) :
    Own (subtractA c s sameMS al regD regM regS h).2.2
      ((subtractA c s sameMS al regD regM regS h).2.1.ids ++ rest) := by
  unfold RegionAlloc.subtractA
  repeat' split
  all_goals own_leaf o

theorem Own.inverseA {c : Cfg} {s : Sched} {same : Bool} {newReg reg1 : RegionA} {invRect : Box}
    {h : Heap} {rest : List Nat} (o : Own h (newReg.ids ++ rest)) :
    Own (inverseA c s same newReg reg1 invRect h).2.2
      ((inverseA c s same newReg reg1 invRect h).2.1.ids ++ rest) := by
  unfold RegionAlloc.inverseA
  repeat' split
  all_goals own_leaf o

theorem Own.intersectRectA {c : Cfg} {s : Sched} {same : Bool} {dest source : RegionA} {x y : Int} {w hh : Nat}
    {h : Heap} {rest : List Nat} (o : Own h (dest.ids ++ rest)) :
    Own (intersectRectA c s same dest source x y w hh h).2.2
      ((intersectRectA c s same dest source x y w hh h).2.1.ids ++ rest) := by
  unfold RegionAlloc.intersectRectA
  exact o.intersectA

theorem Own.unionRectA {c : Cfg} {s : Sched} {same : Bool} {dest source : RegionA} {x y : Int} {w hh : Nat}
    {h : Heap} {rest : List Nat} (o : Own h (dest.ids ++ rest)) :
    Own (unionRectA c s same dest source x y w hh h).2.2
      ((unionRectA c s same dest source x y w hh h).2.1.ids ++ rest) := by
  by_cases hg : (!goodRect (rectOf c x y w hh)) = true
  · simp only [RegionAlloc.unionRectA, hg, if_true]; exact o.copyA
  · simp only [RegionAlloc.unionRectA, hg, Bool.false_eq_true, if_false]; exact o.unionA

theorem Own.finiA {r : RegionA} {h : Heap} {rest : List Nat} (o : Own h (r.ids ++ rest)) :
    Own (finiA r h) rest := o.freeData

end Pixman.Model.RegionAlloc

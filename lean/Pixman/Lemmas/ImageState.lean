import Pixman.Model.ImageState
/-! Helper lemmas for C14: the derive-relevant core of the properties, stability of setters,
the invariant `Inv`, and `_pixman_image_validate`. -/
namespace Pixman.Model.ImageState

/-! ## world updates -/
@[simp] theorem upd_same (w : World) (i : Nat) (f : Image → Image) : (upd w i f).get i = f (w.get i) := by
  simp [upd]

@[simp] theorem upd_other (w : World) (i k : Nat) (f : Image → Image) (h : k ≠ i) : (upd w i f).get k = w.get k := by
  simp [upd, h]

theorem upd_get (w : World) (i k : Nat) (f : Image → Image) :
    (upd w i f).get k = if k = i then f (w.get i) else w.get k := by
  simp [upd]

/-! ## the part of the properties `compute_image_info` and the hooks read -/
structure Core where
  transform : Option Transform
  repeat_ : Int
  filter : Int
  componentAlpha : Int
  readFunc : Nat
  writeFunc : Nat
  alphaMap : Option Nat
  deriving DecidableEq

def Props.core (p : Props) : Core :=
  ⟨p.transform, p.repeat_, p.filter, p.componentAlpha, p.readFunc, p.writeFunc, p.alphaMap⟩

/-- `derive` reads nothing but the core -/
theorem derive_core (cr : Creation) (p p' : Props) (amf : Option Nat) (h : p'.core = p.core) :
    derive cr p' amf = derive cr p amf := by
  cases p; cases p'
  simp only [Props.core, Core.mk.injEq] at h
  obtain ⟨h1, h2, h3, h4, h5, h6, _⟩ := h
  subst h1 h2 h3 h4 h5 h6
  rfl

theorem deriveAt_congr (w w' : World) (i : Nat) (hcr : ∀ k, (w'.get k).cr = (w.get k).cr)
    (hc : (w'.get i).props.core = (w.get i).props.core) : deriveAt w' i = deriveAt w i := by
  unfold deriveAt
  have ham : (w'.get i).props.alphaMap = (w.get i).props.alphaMap := congrArg Core.alphaMap hc
  have hf : (fun j => (w'.get j).cr.format) = (fun j => (w.get j).cr.format) := by
    funext j; rw [hcr j]
  show derive (w'.get i).cr (w'.get i).props (Option.map (fun j => (w'.get j).cr.format) (w'.get i).props.alphaMap) = _
  rw [hcr i, ham, hf]
  exact derive_core _ _ _ _ hc

/-! ## setters never touch derived state, and leave the image dirty unless the core is unchanged -/
def SetterOK (f : Image → Image) : Prop :=
  ∀ im, (f im).cr = im.cr ∧ (f im).derived = im.derived ∧
    ((f im).dirty = false → im.dirty = false ∧ (f im).props.core = im.props.core)

theorem setterOK_id : SetterOK id := fun _ => ⟨rfl, rfl, fun h => ⟨h, rfl⟩⟩

theorem setTransformI_ok (t : Option Transform) : SetterOK (fun im => setTransformI im t) := by
  intro im; simp only [setTransformI, imagePropertyChanged]
  repeat' split
  all_goals simp

theorem setRepeatI_ok (r : Int) : SetterOK (fun im => setRepeatI im r) := by
  intro im; simp only [setRepeatI, imagePropertyChanged]
  repeat' split
  all_goals simp

theorem setDitherI_ok (d : Int) : SetterOK (fun im => setDitherI im d) := by
  intro im; simp only [setDitherI, imagePropertyChanged]
  repeat' split
  all_goals simp

theorem setDitherOffsetI_ok (x y : Int) : SetterOK (fun im => setDitherOffsetI im x y) := by
  intro im; simp only [setDitherOffsetI, imagePropertyChanged]
  repeat' split
  all_goals simp

theorem setFilterI_ok (f : Int) (p : Option (List Int)) (n : Int) : SetterOK (fun im => setFilterI im f p n) := by
  intro im; simp only [setFilterI, imagePropertyChanged]
  repeat' split
  all_goals simp

theorem setSourceClippingI_ok (v : Int) : SetterOK (fun im => setSourceClippingI im v) := by
  intro im; simp only [setSourceClippingI, imagePropertyChanged]
  repeat' split
  all_goals simp

/-- the one setter without `image_property_changed`: it writes a field `derive` does not read -/
theorem setHasClientClipI_ok (v : Int) : SetterOK (fun im => setHasClientClipI im v) := by
  intro im
  exact ⟨rfl, rfl, fun h => ⟨h, rfl⟩⟩

theorem setClipRegionI_ok (r : Option (List CBox)) : SetterOK (fun im => setClipRegionI im r) := by
  intro im; simp only [setClipRegionI, imagePropertyChanged]
  repeat' split
  all_goals simp

theorem setIndexedI_ok (p : Nat) : SetterOK (fun im => setIndexedI im p) := by
  intro im; simp only [setIndexedI, imagePropertyChanged]
  repeat' split
  all_goals simp

theorem setComponentAlphaI_ok (v : Int) : SetterOK (fun im => setComponentAlphaI im v) := by
  intro im; simp only [setComponentAlphaI, imagePropertyChanged]
  repeat' split
  all_goals simp

theorem setAccessorsI_ok (r w : Nat) : SetterOK (fun im => setAccessorsI im r w) := by
  intro im; simp only [setAccessorsI, imagePropertyChanged]
  repeat' split
  all_goals simp

theorem alphaCountUpd_ok (d : Int) : SetterOK (fun im => { im with alphaCount := im.alphaCount + d }) :=
  fun _ => ⟨rfl, rfl, fun h => ⟨h, rfl⟩⟩

theorem alphaCountDec_ok : SetterOK (fun im => { im with alphaCount := im.alphaCount - 1 }) :=
  fun _ => ⟨rfl, rfl, fun h => ⟨h, rfl⟩⟩

theorem alphaCountInc_ok : SetterOK (fun im => { im with alphaCount := im.alphaCount + 1 }) :=
  fun _ => ⟨rfl, rfl, fun h => ⟨h, rfl⟩⟩

theorem dirtying_ok (g : Image → Image) (hcr : ∀ im, (g im).cr = im.cr) (hd : ∀ im, (g im).derived = im.derived) :
    SetterOK (fun im => imagePropertyChanged (g im)) :=
  fun im => ⟨hcr im, hd im, fun h => by simp [imagePropertyChanged] at h⟩

/-! ## stability of worlds under setters -/
/-- `w'` arises from `w` by setter activity: creation constants and derived fields are untouched;
whatever is clean in `w'` was clean in `w` and has the same core. -/
def Stable (w w' : World) : Prop :=
  ∀ k, (w'.get k).cr = (w.get k).cr ∧ (w'.get k).derived = (w.get k).derived ∧
    ((w'.get k).dirty = false → (w.get k).dirty = false ∧ (w'.get k).props.core = (w.get k).props.core)

theorem Stable.refl (w : World) : Stable w w := fun _ => ⟨rfl, rfl, fun h => ⟨h, rfl⟩⟩

theorem Stable.trans {a b c : World} (h1 : Stable a b) (h2 : Stable b c) : Stable a c := by
  intro k
  obtain ⟨c1, d1, e1⟩ := h1 k
  obtain ⟨c2, d2, e2⟩ := h2 k
  refine ⟨c2.trans c1, d2.trans d1, fun h => ?_⟩
  obtain ⟨hb, hc⟩ := e2 h
  obtain ⟨ha, hc'⟩ := e1 hb
  exact ⟨ha, hc.trans hc'⟩

theorem stable_upd (w : World) (i : Nat) (f : Image → Image) (hf : SetterOK f) : Stable w (upd w i f) := by
  intro k
  by_cases hk : k = i
  · subst hk; rw [upd_same]; exact hf (w.get k)
  · rw [upd_other _ _ _ _ hk]; exact ⟨rfl, rfl, fun h => ⟨h, rfl⟩⟩

/-! ## the invariant -/
/-- H1: whatever is not dirty carries exactly the derived state of its current properties -/
def Inv (w : World) : Prop := ∀ i, (w.get i).dirty = false → (w.get i).derived = deriveAt w i

theorem inv_of_stable {w w' : World} (hI : Inv w) (hs : Stable w w') : Inv w' := by
  intro i hd
  obtain ⟨_, hder, hc⟩ := hs i
  obtain ⟨hd0, hcore⟩ := hc hd
  rw [hder, hI i hd0]
  exact (deriveAt_congr w w' i (fun k => (hs k).1) hcore).symm

/-! ## validate -/
/-- the write `_pixman_image_validate` makes to a dirty image -/
def clean (w : World) (i : Nat) : World :=
  if (w.get i).dirty then upd w i (fun im => { im with derived := deriveAt w i, dirty := false }) else w

theorem validateFuel_succ (n : Nat) (w : World) (i : Nat) :
    validateFuel (n + 1) w i = match ((clean w i).get i).props.alphaMap with
      | some j => validateFuel n (clean w i) j
      | none => clean w i := rfl

theorem clean_get (w : World) (i k : Nat) :
    ((clean w i).get k).cr = (w.get k).cr ∧ ((clean w i).get k).props = (w.get k).props ∧
    ((clean w i).get k).alphaCount = (w.get k).alphaCount := by
  unfold clean
  split
  · by_cases hk : k = i
    · subst hk; rw [upd_same]; exact ⟨rfl, rfl, rfl⟩
    · rw [upd_other _ _ _ _ hk]; exact ⟨rfl, rfl, rfl⟩
  · exact ⟨rfl, rfl, rfl⟩

theorem clean_dirty_self (w : World) (i : Nat) : ((clean w i).get i).dirty = false := by
  unfold clean
  split
  · rw [upd_same]
  · rename_i h; simpa using h

theorem clean_keeps_clean (w : World) (i k : Nat) (h : (w.get k).dirty = false) : ((clean w i).get k).dirty = false := by
  by_cases hk : k = i
  · subst hk; exact clean_dirty_self w k
  · unfold clean; split
    · rw [upd_other _ _ _ _ hk]; exact h
    · exact h

theorem deriveAt_clean (w : World) (i k : Nat) : deriveAt (clean w i) k = deriveAt w k :=
  deriveAt_congr w (clean w i) k (fun j => (clean_get w i j).1) (by rw [(clean_get w i k).2.1])

theorem inv_clean (w : World) (i : Nat) (hI : Inv w) : Inv (clean w i) := by
  intro k hd
  rw [deriveAt_clean]
  unfold clean at hd ⊢
  split
  · rename_i hdirty
    rw [if_pos hdirty] at hd
    by_cases hk : k = i
    · subst hk; rw [upd_same]
    · rw [upd_other _ _ _ _ hk] at hd ⊢; exact hI k hd
  · rename_i hdirty
    rw [if_neg hdirty] at hd
    exact hI k hd

/-- validation never writes a property, a creation constant or a reference count -/
theorem validateFuel_get (n : Nat) : ∀ (w : World) (i k : Nat),
    ((validateFuel n w i).get k).cr = (w.get k).cr ∧ ((validateFuel n w i).get k).props = (w.get k).props ∧
    ((validateFuel n w i).get k).alphaCount = (w.get k).alphaCount := by
  induction n with
  | zero => intro w i k; exact ⟨rfl, rfl, rfl⟩
  | succ n ih =>
    intro w i k
    rw [validateFuel_succ]
    split
    · rename_i j _
      obtain ⟨a, b, c⟩ := ih (clean w i) j k
      obtain ⟨a', b', c'⟩ := clean_get w i k
      exact ⟨a.trans a', b.trans b', c.trans c'⟩
    · exact clean_get w i k

theorem inv_validateFuel (n : Nat) : ∀ (w : World) (i : Nat), Inv w → Inv (validateFuel n w i) := by
  induction n with
  | zero => intro w i h; exact h
  | succ n ih =>
    intro w i h
    rw [validateFuel_succ]
    split
    · exact ih _ _ (inv_clean w i h)
    · exact inv_clean w i h

theorem validateFuel_keeps_clean (n : Nat) : ∀ (w : World) (i k : Nat), (w.get k).dirty = false →
    ((validateFuel n w i).get k).dirty = false := by
  induction n with
  | zero => intro w i k h; exact h
  | succ n ih =>
    intro w i k h
    rw [validateFuel_succ]
    split
    · exact ih _ _ _ (clean_keeps_clean w i k h)
    · exact clean_keeps_clean w i k h

theorem validateFuel_self_clean (n : Nat) (w : World) (i : Nat) : ((validateFuel (n + 1) w i).get i).dirty = false := by
  rw [validateFuel_succ]
  split
  · exact validateFuel_keeps_clean _ _ _ _ (clean_dirty_self w i)
  · exact clean_dirty_self w i

theorem validateFuel_map_clean (n : Nat) (w : World) (i j : Nat) (h : (w.get i).props.alphaMap = some j) :
    ((validateFuel (n + 2) w i).get j).dirty = false := by
  rw [validateFuel_succ]
  have : ((clean w i).get i).props.alphaMap = some j := by rw [(clean_get w i i).2.1]; exact h
  rw [this]
  exact validateFuel_self_clean n (clean w i) j

/-! ## uses -/
theorem useAll_get : ∀ (ids : List Nat) (w : World) (k : Nat),
    ((useAll w ids).get k).cr = (w.get k).cr ∧ ((useAll w ids).get k).props = (w.get k).props ∧
    ((useAll w ids).get k).alphaCount = (w.get k).alphaCount := by
  intro ids
  induction ids with
  | nil => intro w k; exact ⟨rfl, rfl, rfl⟩
  | cons i is ih =>
    intro w k
    obtain ⟨a, b, c⟩ := ih (validate w i) k
    obtain ⟨a', b', c'⟩ := validateFuel_get 2 w i k
    exact ⟨a.trans a', b.trans b', c.trans c'⟩

theorem inv_useAll : ∀ (ids : List Nat) (w : World), Inv w → Inv (useAll w ids) := by
  intro ids
  induction ids with
  | nil => intro w h; exact h
  | cons i is ih => intro w h; exact ih _ (inv_validateFuel 2 w i h)

theorem useAll_keeps_clean : ∀ (ids : List Nat) (w : World) (k : Nat), (w.get k).dirty = false →
    ((useAll w ids).get k).dirty = false := by
  intro ids
  induction ids with
  | nil => intro w k h; exact h
  | cons i is ih => intro w k h; exact ih _ _ (validateFuel_keeps_clean 2 w i k h)

/-- the images a use validates: the listed ones and their alpha maps -/
def touched (w : World) (ids : List Nat) (k : Nat) : Prop :=
  k ∈ ids ∨ ∃ i, i ∈ ids ∧ (w.get i).props.alphaMap = some k

theorem useAll_touched_clean : ∀ (ids : List Nat) (w : World) (k : Nat), touched w ids k →
    ((useAll w ids).get k).dirty = false := by
  intro ids
  induction ids with
  | nil => intro w k h; rcases h with h | ⟨i, hi, _⟩ <;> simp at *
  | cons i is ih =>
    intro w k h
    show ((useAll (validate w i) is).get k).dirty = false
    rcases h with h | ⟨i', hi', ham⟩
    · rcases List.mem_cons.mp h with h | h
      · subst h; exact useAll_keeps_clean is _ _ (validateFuel_self_clean 1 w k)
      · exact ih _ _ (Or.inl h)
    · rcases List.mem_cons.mp hi' with h | h
      · subst h; exact useAll_keeps_clean is _ _ (validateFuel_map_clean 0 w i' k ham)
      · refine ih _ _ (Or.inr ⟨i', h, ?_⟩)
        show ((validateFuel 2 w i).get i').props.alphaMap = some k
        rw [(validateFuel_get 2 w i i').2.1]; exact ham

end Pixman.Model.ImageState

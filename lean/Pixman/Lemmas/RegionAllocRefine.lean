/-
  Refinement of the allocation-aware region model to `Pixman.Region` (C15, F1/F2):
  FALSE ⇒ the result is the broken region; TRUE ⇒ the result, with capacities and block ids
  forgotten, is the failure-free result — for every failure schedule.
-/
import Pixman.Lemmas.RegionAllocOwn
namespace Pixman.Model.RegionAlloc
open Pixman.Region

@[simp] theorem isBroken_brkA : brkA.isBroken = true := by decide
@[simp] theorem isBroken_collapse (e : Box) : (RegionA.mk (collapse e) .broken).isBroken = true := by
  simp [RegionA.isBroken, collapse]

@[simp] theorem erase_brkA : brkA.erase = brk := rfl
@[simp] theorem erase_initA : initA.erase = init := rfl

theorem nar_iff (r : RegionA) : r.nar = (r.data == .broken) := by
  obtain ⟨e, d⟩ := r; cases d <;> rfl

theorem single_iff (r : RegionA) : (r.data == DataA.single) = decide (r.erase.data = Data.single) := by
  obtain ⟨e, d⟩ := r; cases d <;> simp [RegionA.erase, DataA.erase] <;> rfl

/-! ### pixman_rect_alloc -/

theorem rectAlloc_false {c : Cfg} {s : Sched} {r : RegionA} {n : Nat} {h : Heap}
    (hf : (rectAlloc c s r n h).1 = false) : (rectAlloc c s r n h).2.1 = brkA := by
  obtain ⟨e, d⟩ := r
  cases d with
  | heap id sz l =>
    simp only [rectAlloc] at hf ⊢
    by_cases hz : (szof c (growTo l.length n) == 0) = true
    · simp only [hz, if_true]
    · cases hre : h.realloc s id with
      | mk ok h1 => cases ok <;> simp_all
  | single =>
    simp only [rectAlloc] at hf ⊢
    cases hal : allocData c s (n + 1) h with
    | mk oid h1 => cases oid <;> simp_all
  | emptyStatic =>
    simp only [rectAlloc] at hf ⊢
    cases hal : allocData c s n h with
    | mk oid h1 => cases oid <;> simp_all
  | broken =>
    simp only [rectAlloc] at hf ⊢
    cases hal : allocData c s n h with
    | mk oid h1 => cases oid <;> simp_all

/-- a successful pixman_rect_alloc keeps the extents and the rectangles (of a `single` region:
    its one box) -/
theorem rectAlloc_true {c : Cfg} {s : Sched} {r : RegionA} {n : Nat} {h : Heap}
    (ht : (rectAlloc c s r n h).1 = true) :
    (rectAlloc c s r n h).2.1.extents = r.extents ∧ (rectAlloc c s r n h).2.1.rects = r.rects := by
  obtain ⟨e, d⟩ := r
  cases d with
  | heap id sz l =>
    simp only [rectAlloc] at ht ⊢
    by_cases hz : (szof c (growTo l.length n) == 0) = true
    · simp [hz] at ht
    · cases hre : h.realloc s id with
      | mk ok h1 =>
        cases ok
        · simp [hz, hre] at ht
        · simp [hz, RegionA.rects, RegionA.erase, DataA.erase]
  | single =>
    simp only [rectAlloc] at ht ⊢
    cases hal : allocData c s (n + 1) h with
    | mk oid h1 =>
      cases oid
      · simp [hal] at ht
      · simp [RegionA.rects, RegionA.erase, DataA.erase, Region.rects]
  | emptyStatic =>
    simp only [rectAlloc] at ht ⊢
    cases hal : allocData c s n h with
    | mk oid h1 =>
      cases oid
      · simp [hal] at ht
      · simp [RegionA.rects, RegionA.erase, DataA.erase, Region.rects]
  | broken =>
    simp only [rectAlloc] at ht ⊢
    cases hal : allocData c s n h with
    | mk oid h1 =>
      cases oid
      · simp [hal] at ht
      · simp [RegionA.rects, RegionA.erase, DataA.erase, Region.rects]

/-- the overflow guard: a request for more rectangles than PIXREGION_SZOF can size breaks the
    region without consulting the allocator -/
theorem szof_guard {c : Cfg} {s : Sched} {r : RegionA} {n : Nat} {h : Heap}
    (hd : r.data = .emptyStatic) (hz : szof c n = 0) :
    (rectAlloc c s r n h).1 = false ∧ (rectAlloc c s r n h).2.1 = brkA ∧ (rectAlloc c s r n h).2.2.k = h.k := by
  obtain ⟨e, d⟩ := r
  simp only at hd; subst hd
  simp [rectAlloc, allocData, hz]

/-! ### pixman_region_copy -/

theorem copyA_false {c : Cfg} {s : Sched} {same : Bool} {dst src : RegionA} {h : Heap}
    (hf : (copyA c s same dst src h).1 = false) : (copyA c s same dst src h).2.1 = brkA := by
  obtain ⟨de, dd⟩ := dst
  obtain ⟨se, sd⟩ := src
  cases same
  case true => simp [copyA] at hf
  case false =>
    cases sd with
    | heap sid ssz sl =>
      cases dd with
      | heap did dsz dl =>
        simp only [copyA, Bool.false_eq_true, if_false] at hf ⊢
        by_cases hlt : dsz < sl.length
        · simp only [hlt, if_true] at hf ⊢
          cases hal : allocData c s sl.length (h.free did) with
          | mk oid h1 => cases oid <;> simp_all
        · simp [hlt] at hf
      | single =>
        simp only [copyA, Bool.false_eq_true, if_false] at hf ⊢
        cases hal : allocData c s sl.length h with
        | mk oid h1 => cases oid <;> simp_all
      | emptyStatic =>
        simp only [copyA, Bool.false_eq_true, if_false] at hf ⊢
        by_cases hlt : 0 < sl.length
        · simp only [hlt, if_true] at hf ⊢
          cases hal : allocData c s sl.length h with
          | mk oid h1 => cases oid <;> simp_all
        · simp [hlt] at hf
      | broken =>
        simp only [copyA, Bool.false_eq_true, if_false] at hf ⊢
        by_cases hlt : 0 < sl.length
        · simp only [hlt, if_true] at hf ⊢
          cases hal : allocData c s sl.length h with
          | mk oid h1 => cases oid <;> simp_all
        · simp [hlt] at hf
    | single => simp [copyA] at hf
    | emptyStatic => simp [copyA] at hf
    | broken => simp [copyA] at hf

/-- TRUE ⇒ the destination has the source's value (`Region.copy`).  `same` must be honest. -/
theorem copyA_true {c : Cfg} {s : Sched} {same : Bool} {dst src : RegionA} {h : Heap}
    (hs : same = true → dst = src) (hne : ∀ id sz, src.data ≠ .heap id sz [])
    (ht : (copyA c s same dst src h).1 = true) :
    (copyA c s same dst src h).2.1.erase = copy dst.erase src.erase := by
  obtain ⟨de, dd⟩ := dst
  obtain ⟨se, sd⟩ := src
  cases same
  case true => have := hs rfl; simp [copyA, copy, this]
  case false =>
    cases sd with
    | heap sid ssz sl =>
      cases dd with
      | heap did dsz dl =>
        simp only [copyA, Bool.false_eq_true, if_false] at ht ⊢
        by_cases hlt : dsz < sl.length
        · simp only [hlt, if_true] at ht ⊢
          cases hal : allocData c s sl.length (h.free did) with
          | mk oid h1 => cases oid <;> simp_all [copy, RegionA.erase, DataA.erase]
        · simp [hlt, copy, RegionA.erase, DataA.erase]
      | single =>
        simp only [copyA, Bool.false_eq_true, if_false] at ht ⊢
        cases hal : allocData c s sl.length h with
        | mk oid h1 => cases oid <;> simp_all [copy, RegionA.erase, DataA.erase]
      | emptyStatic =>
        simp only [copyA, Bool.false_eq_true, if_false] at ht ⊢
        by_cases hlt : 0 < sl.length
        · simp only [hlt, if_true] at ht ⊢
          cases hal : allocData c s sl.length h with
          | mk oid h1 => cases oid <;> simp_all [copy, RegionA.erase, DataA.erase]
        · have : sl = [] := by cases sl <;> simp_all
          subst this
          exact absurd rfl (hne sid ssz)
      | broken =>
        simp only [copyA, Bool.false_eq_true, if_false] at ht ⊢
        by_cases hlt : 0 < sl.length
        · simp only [hlt, if_true] at ht ⊢
          cases hal : allocData c s sl.length h with
          | mk oid h1 => cases oid <;> simp_all [copy, RegionA.erase, DataA.erase]
        · have : sl = [] := by cases sl <;> simp_all
          subst this
          exact absurd rfl (hne sid ssz)
    | single => simp [copyA, copy, RegionA.erase, DataA.erase]
    | emptyStatic => simp [copyA, copy, RegionA.erase, DataA.erase]
    | broken => simp [copyA, copy, RegionA.erase, DataA.erase]

/-! ### pixman_op -/

/-- the three result shapes of pixman_op, in the failure-free model -/
def shape (ext : Box) (l : List Box) : Region :=
  match l with
  | [] => ⟨ext, .emptyStatic⟩
  | [b] => ⟨b, .single⟩
  | _ => ⟨ext, .heap l⟩

theorem opFinish_erase (c : Cfg) (s : Sched) (ext : Box) (l : List Box) (b : Blk) (h : Heap) :
    (opFinish c s ext l b h).1.erase = shape ext l := by
  unfold opFinish shape
  split <;> simp [RegionA.erase, DataA.erase]

theorem opBody_false {c : Cfg} {s : Sched} {evs : List Ev} {l : List Box} {old : Option Nat} {ext : Box}
    {first : Bool × RegionA × Heap} (hfirst : first.1 = false → first.2.1 = brkA)
    (hf : (opBody c s evs l old ext first).1 = false) : (opBody c s evs l old ext first).2.1 = brkA := by
  obtain ⟨ok, r, h⟩ := first
  obtain ⟨re, rd⟩ := r
  cases ok
  · simp only [opBody, Bool.not_false, if_true]; exact hfirst rfl
  · cases rd with
    | heap id sz rl =>
      simp only [opBody, Bool.not_true, Bool.false_eq_true, if_false] at hf ⊢
      cases hre : runEvents c s evs ⟨id, sz, 0⟩ h with
      | mk ob h1 => cases ob <;> simp_all
    | single => simp [opBody]
    | emptyStatic => simp [opBody]
    | broken => simp [opBody]

theorem opBody_true {c : Cfg} {s : Sched} {evs : List Ev} {l : List Box} {old : Option Nat} {ext : Box}
    {first : Bool × RegionA × Heap}
    (ht : (opBody c s evs l old ext first).1 = true) : (opBody c s evs l old ext first).2.1.erase = shape ext l := by
  obtain ⟨ok, r, h⟩ := first
  obtain ⟨re, rd⟩ := r
  cases ok
  · simp [opBody] at ht
  · cases rd with
    | heap id sz rl =>
      simp only [opBody, Bool.not_true, Bool.false_eq_true, if_false] at ht ⊢
      cases hre : runEvents c s evs ⟨id, sz, 0⟩ h with
      | mk ob h1 =>
        cases ob
        · simp [hre] at ht
        · simp only [opFinish_erase]
    | single => simp [opBody] at ht
    | emptyStatic => simp [opBody] at ht
    | broken => simp [opBody] at ht

theorem pixmanOp_shape (k : OpKind) (a1 a2 : Bool) (nr r1 r2 : Region) (hn : (r1.nar || r2.nar) = false) :
    pixmanOp k a1 a2 nr r1 r2 = (shape nr.extents (pixmanOpRects k a1 a2 r1.rects r2.rects), true) := by
  unfold pixmanOp shape
  simp only [hn, Bool.false_eq_true, if_false]
  split <;> simp_all

theorem firstAlloc_false {c : Cfg} {s : Sched} {r : RegionA} {n : Nat} {h : Heap} :
    (if n > r.size then rectAlloc c s r n h else (true, r, h)).1 = false →
    (if n > r.size then rectAlloc c s r n h else (true, r, h)).2.1 = brkA := by
  by_cases hn : n > r.size
  · simp only [hn, if_true]; exact rectAlloc_false
  · simp [hn]

theorem pixmanOpA_false {c : Cfg} {s : Sched} {k : OpKind} {a1 a2 : Bool} {al : Alias}
    {nr r1 r2 : RegionA} {h : Heap}
    (hf : (pixmanOpA c s k a1 a2 al nr r1 r2 h).1 = false) :
    (pixmanOpA c s k a1 a2 al nr r1 r2 h).2.1 = brkA := by
  unfold pixmanOpA at hf ⊢
  split
  · rfl
  · next hn =>
    simp only [hn, if_false] at hf
    exact opBody_false firstAlloc_false hf

theorem pixmanOpA_true {c : Cfg} {s : Sched} {k : OpKind} {a1 a2 : Bool} {al : Alias}
    {nr r1 r2 : RegionA} {h : Heap}
    (ht : (pixmanOpA c s k a1 a2 al nr r1 r2 h).1 = true) :
    ((pixmanOpA c s k a1 a2 al nr r1 r2 h).2.1.erase, true) = pixmanOp k a1 a2 nr.erase r1.erase r2.erase := by
  unfold pixmanOpA at ht ⊢
  split
  · next hn => simp [hn] at ht
  · next hn =>
    simp only [hn, if_false] at ht
    have hn' : (r1.erase.nar || r2.erase.nar) = false := by simpa [RegionA.nar] using hn
    rw [pixmanOp_shape _ _ _ _ _ _ hn', opBody_true ht, opPrologue_ext]
    rfl

theorem pixmanOpA_nar {c : Cfg} {s : Sched} {k : OpKind} {a1 a2 : Bool} {al : Alias}
    {nr r1 r2 : RegionA} {h : Heap} (hn : (r1.nar || r2.nar) = true) :
    (pixmanOpA c s k a1 a2 al nr r1 r2 h).1 = false ∧ (pixmanOpA c s k a1 a2 al nr r1 r2 h).2.1 = brkA := by
  unfold pixmanOpA
  simp [hn, pixmanBreak]

/-! ### public wrappers -/

@[simp] theorem erase_extents (r : RegionA) : r.erase.extents = r.extents := rfl

theorem post_false {p : Bool × RegionA × Heap} {f : RegionA → RegionA} (hf : (post p f).1 = false) :
    p.1 = false ∧ (post p f).2.1 = p.2.1 := by
  obtain ⟨ok, r, h⟩ := p
  cases ok <;> simp_all [post]

theorem post_true {p : Bool × RegionA × Heap} {f : RegionA → RegionA} (ht : (post p f).1 = true) :
    p.1 = true ∧ (post p f).2.1 = f p.2.1 := by
  obtain ⟨ok, r, h⟩ := p
  cases ok <;> simp_all [post]

theorem setExtents_data (x : Region) : (setExtents x).data = x.data := by
  unfold setExtents
  repeat' split
  all_goals rfl

theorem setExtentsA_erase (r : RegionA) : (setExtentsA r).erase = setExtents r.erase := by
  have h := setExtents_data r.erase
  cases hx : setExtents r.erase with
  | mk e d =>
    rw [hx] at h
    simp only at h
    have hx' : (setExtents r.erase).extents = e := by rw [hx]
    simp only [setExtentsA, RegionA.erase] at hx' ⊢
    rw [hx', h]; rfl

/-- honest alias flags -/
structure AliasOK (al : Alias) (same12 : Bool) (nr r1 r2 : RegionA) : Prop where
  first : al = .first → nr = r1
  second : al = .second → nr = r2
  same : same12 = true → r1 = r2

/-- no malloc'ed block without rectangles (none is ever produced) -/
def NoEmptyHeap (r : RegionA) : Prop := ∀ id sz, r.data ≠ .heap id sz []

/-- leaves of the wrappers, FALSE side -/
macro "false_leaf" : tactic =>
  `(tactic| (intro hf; first
    | (simp at hf; done)
    | (simp; done)
    | (rw [copyA_false hf]; rfl)
    | (have hp := post_false hf; rw [hp.2, pixmanOpA_false hp.1]; rfl)
    | (simp [pixmanBreak]; done)))

theorem intersectA_false {c : Cfg} {s : Sched} {same12 : Bool} {al : Alias} {nr r1 r2 : RegionA} {h : Heap}
    (hf : (intersectA c s same12 al nr r1 r2 h).1 = false) :
    (intersectA c s same12 al nr r1 r2 h).2.1.isBroken = true := by
  revert hf
  unfold intersectA
  repeat' split
  all_goals false_leaf

theorem unionA_false {c : Cfg} {s : Sched} {same12 : Bool} {al : Alias} {nr r1 r2 : RegionA} {h : Heap}
    (hf : (unionA c s same12 al nr r1 r2 h).1 = false) :
    (unionA c s same12 al nr r1 r2 h).2.1.isBroken = true := by
  revert hf
  unfold unionA
  repeat' split
  all_goals false_leaf

theorem subtractA_false {c : Cfg} {s : Sched} {sameMS : Bool} {al : Alias} {rd rm rs : RegionA} {h : Heap}
    (hf : (subtractA c s sameMS al rd rm rs h).1 = false) :
    (subtractA c s sameMS al rd rm rs h).2.1.isBroken = true := by
  revert hf
  unfold subtractA
  repeat' split
  all_goals false_leaf

theorem inverseA_false {c : Cfg} {s : Sched} {same : Bool} {nr r1 : RegionA} {b : Box} {h : Heap}
    (hf : (inverseA c s same nr r1 b h).1 = false) :
    (inverseA c s same nr r1 b h).2.1.isBroken = true := by
  revert hf
  unfold inverseA
  repeat' split
  all_goals false_leaf

theorem intersectRectA_false {c : Cfg} {s : Sched} {same : Bool} {d a : RegionA} {x y : Int} {w hh : Nat} {h : Heap}
    (hf : (intersectRectA c s same d a x y w hh h).1 = false) :
    (intersectRectA c s same d a x y w hh h).2.1.isBroken = true := intersectA_false hf

theorem unionRectA_false {c : Cfg} {s : Sched} {same : Bool} {d a : RegionA} {x y : Int} {w hh : Nat} {h : Heap}
    (hf : (unionRectA c s same d a x y w hh h).1 = false) :
    (unionRectA c s same d a x y w hh h).2.1.isBroken = true := by
  revert hf
  by_cases hg : (!goodRect (rectOf c x y w hh)) = true
  · simp only [unionRectA, hg, if_true]; intro hf; rw [copyA_false hf]; rfl
  · simp only [unionRectA, hg, Bool.false_eq_true, if_false]; exact unionA_false

theorem AliasOK.c1 {al : Alias} {same12 : Bool} {nr r1 r2 : RegionA} (ok : AliasOK al same12 nr r1 r2) :
    (al == Alias.first) = true → nr = r1 := fun h => ok.first (by simpa using h)
theorem AliasOK.c2 {al : Alias} {same12 : Bool} {nr r1 r2 : RegionA} (ok : AliasOK al same12 nr r1 r2) :
    (al == Alias.second) = true → nr = r2 := fun h => ok.second (by simpa using h)

theorem post_pixmanOp_true {c : Cfg} {s : Sched} {k : OpKind} {a1 a2 : Bool} {al : Alias}
    {nr r1 r2 : RegionA} {h : Heap} {f : RegionA → RegionA}
    (ht : (post (pixmanOpA c s k a1 a2 al nr r1 r2 h) f).1 = true) :
    pixmanOp k a1 a2 nr.erase r1.erase r2.erase = ((pixmanOpA c s k a1 a2 al nr r1 r2 h).2.1.erase, true) ∧
    (post (pixmanOpA c s k a1 a2 al nr r1 r2 h) f).2.1 = f (pixmanOpA c s k a1 a2 al nr r1 r2 h).2.1 := by
  have hp := post_true ht
  exact ⟨(pixmanOpA_true hp.1).symm, hp.2⟩

theorem intersectA_true {c : Cfg} {s : Sched} {same12 : Bool} {al : Alias} {nr r1 r2 : RegionA} {h : Heap}
    (ok : AliasOK al same12 nr r1 r2) (n1 : NoEmptyHeap r1) (n2 : NoEmptyHeap r2)
    (ht : (intersectA c s same12 al nr r1 r2 h).1 = true) :
    ((intersectA c s same12 al nr r1 r2 h).2.1.erase, true) = intersect same12 nr.erase r1.erase r2.erase := by
  revert ht
  unfold intersectA intersect
  simp only [single_iff, RegionA.nil, RegionA.nar, erase_extents]
  by_cases h1 : (r1.erase.nil || r2.erase.nil || !extentCheck r1.extents r2.extents) = true
  · simp only [h1, if_true]
    by_cases hn : (r1.erase.nar || r2.erase.nar) = true
    · simp only [hn, if_true]; intro ht; cases ht
    · simp only [hn, Bool.false_eq_true, if_false]; intro _; rfl
  · simp only [h1, Bool.false_eq_true, if_false]
    by_cases h2 : (decide (r1.erase.data = Data.single) && decide (r2.erase.data = Data.single)) = true
    · simp only [h2, if_true]; intro _; simp [RegionA.erase, DataA.erase]
    · simp only [h2, Bool.false_eq_true, if_false]
      by_cases h3 : (decide (r2.erase.data = Data.single) && subsumes r2.extents r1.extents) = true
      · simp only [h3, if_true]; intro ht; rw [copyA_true ok.c1 n1 ht]
      · simp only [h3, Bool.false_eq_true, if_false]
        by_cases h4 : (decide (r1.erase.data = Data.single) && subsumes r1.extents r2.extents) = true
        · simp only [h4, if_true]; intro ht; rw [copyA_true ok.c2 n2 ht]
        · simp only [h4, Bool.false_eq_true, if_false]
          cases same12
          · simp only [Bool.false_eq_true, if_false]
            intro ht
            have hp := post_pixmanOp_true ht
            rw [hp.1, hp.2, setExtentsA_erase]; simp
          · simp only [if_true]; intro ht; rw [copyA_true ok.c1 n1 ht]

theorem unionA_true {c : Cfg} {s : Sched} {same12 : Bool} {al : Alias} {nr r1 r2 : RegionA} {h : Heap}
    (ok : AliasOK al same12 nr r1 r2) (n1 : NoEmptyHeap r1) (n2 : NoEmptyHeap r2)
    (ht : (unionA c s same12 al nr r1 r2 h).1 = true) :
    ((unionA c s same12 al nr r1 r2 h).2.1.erase, true) = union same12 al nr.erase r1.erase r2.erase := by
  revert ht
  unfold unionA union
  simp only [single_iff, RegionA.nil, RegionA.nar, erase_extents]
  cases same12
  case true => simp only [if_true]; intro ht; rw [copyA_true ok.c1 n1 ht]
  case false =>
    simp only [Bool.false_eq_true, if_false]
    by_cases h1 : r1.erase.nil = true
    · simp only [h1, if_true]
      by_cases hn : r1.erase.nar = true
      · simp only [hn, if_true]; intro ht; cases ht
      · simp only [hn, Bool.false_eq_true, if_false]; intro ht; rw [copyA_true ok.c2 n2 ht]
    · simp only [h1, Bool.false_eq_true, if_false]
      by_cases h2 : r2.erase.nil = true
      · simp only [h2, if_true]
        by_cases hn : r2.erase.nar = true
        · simp only [hn, if_true]; intro ht; cases ht
        · simp only [hn, Bool.false_eq_true, if_false]; intro ht; rw [copyA_true ok.c1 n1 ht]
      · simp only [h2, Bool.false_eq_true, if_false]
        by_cases h3 : (decide (r1.erase.data = Data.single) && subsumes r1.extents r2.extents) = true
        · simp only [h3, if_true]; intro ht; rw [copyA_true ok.c1 n1 ht]
        · simp only [h3, Bool.false_eq_true, if_false]
          by_cases h4 : (decide (r2.erase.data = Data.single) && subsumes r2.extents r1.extents) = true
          · simp only [h4, if_true]; intro ht; rw [copyA_true ok.c2 n2 ht]
          · simp only [h4, Bool.false_eq_true, if_false]
            intro ht
            have hp := post_pixmanOp_true ht
            rw [hp.1, hp.2]
            simp [RegionA.erase, unionExtents]

theorem subtractA_true {c : Cfg} {s : Sched} {sameMS : Bool} {al : Alias} {rd rm rs : RegionA} {h : Heap}
    (ok : AliasOK al sameMS rd rm rs) (nm : NoEmptyHeap rm)
    (ht : (subtractA c s sameMS al rd rm rs h).1 = true) :
    ((subtractA c s sameMS al rd rm rs h).2.1.erase, true) = subtract sameMS rd.erase rm.erase rs.erase := by
  revert ht
  unfold subtractA subtract
  simp only [RegionA.nil, RegionA.nar, erase_extents]
  by_cases h1 : (rm.erase.nil || rs.erase.nil || !extentCheck rm.extents rs.extents) = true
  · simp only [h1, if_true]
    by_cases hn : rs.erase.nar = true
    · simp only [hn, if_true]; intro ht; cases ht
    · simp only [hn, Bool.false_eq_true, if_false]; intro ht; rw [copyA_true ok.c1 nm ht]
  · simp only [h1, Bool.false_eq_true, if_false]
    cases sameMS
    · simp only [Bool.false_eq_true, if_false]
      intro ht
      have hp := post_pixmanOp_true ht
      rw [hp.1, hp.2, setExtentsA_erase]; simp
    · simp only [if_true]; intro _; rfl

theorem inverseA_true {c : Cfg} {s : Sched} {same : Bool} {nr r1 : RegionA} {b : Box} {h : Heap}
    (ht : (inverseA c s same nr r1 b h).1 = true) :
    ((inverseA c s same nr r1 b h).2.1.erase, true) = inverse nr.erase r1.erase b := by
  revert ht
  unfold inverseA inverse
  simp only [RegionA.nil, RegionA.nar, erase_extents]
  by_cases h1 : (r1.erase.nil || !extentCheck b r1.extents) = true
  · simp only [h1, if_true]
    by_cases hn : r1.erase.nar = true
    · simp only [hn, if_true]; intro ht; cases ht
    · simp only [hn, Bool.false_eq_true, if_false]; intro _; rfl
  · simp only [h1, Bool.false_eq_true, if_false]
    intro ht
    have hp := post_pixmanOp_true ht
    have he : (RegionA.mk b DataA.single).erase = ⟨b, .single⟩ := rfl
    rw [he] at hp
    rw [hp.1, hp.2, setExtentsA_erase]; simp

end Pixman.Model.RegionAlloc

import Pixman.Model.Filter
import Pixman.Spec.Filter
/-! Helper lemmas for C18: memory reads/writes, the store loops, one phase, one table. -/
namespace Pixman.Lemmas.Filter
open Pixman.Model.Filter Pixman.Spec.Filter

theorem wr_size (m : Mem) (i : Nat) (v : Int) : (wr m i v).size = m.size := by
  simp [wr]

theorem rd_wr_ne (m : Mem) (i j : Nat) (v : Int) (h : i ≠ j) : rd (wr m i v) j = rd m j := by
  simp [rd, wr, Array.getD_eq_getD_getElem?, h]

theorem rd_wr_same (m : Mem) (i : Nat) (v : Int) (h : i < m.size) : rd (wr m i v) i = v := by
  simp [rd, wr, Array.getD_eq_getD_getElem?, h]

theorem wrap32_id (v : Int) (h : InI32 v) : wrap32 v = v := by
  unfold InI32 at h; unfold wrap32; omega

theorem wrap32_inI32 (v : Int) : InI32 (wrap32 v) := by
  unfold InI32 wrap32; omega

theorem wrap32_add (x y : Int) : wrap32 (wrap32 x + y) = wrap32 (x + y) := by
  unfold wrap32; omega

/-! ## sums of cells (front recursion) -/

/-- the same sum, peeling the first cell -/
def sumCellsF (m : Mem) : (p n : Nat) → Int
  | _, 0 => 0
  | p, n + 1 => rd m p + sumCellsF m (p + 1) n

theorem sumCellsF_snoc (m : Mem) (p n : Nat) : sumCellsF m p (n + 1) = sumCellsF m p n + rd m (p + n) := by
  induction n generalizing p with
  | zero => simp [sumCellsF]
  | succ n ih =>
    have h1 : sumCellsF m p (n + 1 + 1) = rd m p + sumCellsF m (p + 1) (n + 1) := rfl
    have h2 : sumCellsF m p (n + 1) = rd m p + sumCellsF m (p + 1) n := rfl
    rw [h1, ih (p + 1), h2]
    have : p + 1 + n = p + (n + 1) := by omega
    rw [this]; omega

theorem sumCells_eq_F (m : Mem) (p n : Nat) : sumCells m p n = sumCellsF m p n := by
  induction n with
  | zero => rfl
  | succ n ih => rw [sumCellsF_snoc, ← ih]; rfl

theorem sumCellsF_congr (m m' : Mem) (p n : Nat) (h : ∀ i, i < n → rd m (p + i) = rd m' (p + i)) :
    sumCellsF m p n = sumCellsF m' p n := by
  induction n generalizing p with
  | zero => rfl
  | succ n ih =>
    have h0 := h 0 (by omega)
    simp only [Nat.add_zero] at h0
    have hr : sumCellsF m (p + 1) n = sumCellsF m' (p + 1) n := by
      apply ih; intro i hi
      have := h (i + 1) (by omega)
      have e : p + (i + 1) = p + 1 + i := by omega
      rw [e] at this; exact this
    show rd m p + sumCellsF m (p + 1) n = rd m' p + sumCellsF m' (p + 1) n
    rw [h0, hr]

theorem sumCells_congr (m m' : Mem) (p n : Nat) (h : ∀ j, p ≤ j → j < p + n → rd m j = rd m' j) :
    sumCells m p n = sumCells m' p n := by
  rw [sumCells_eq_F, sumCells_eq_F]
  apply sumCellsF_congr; intro i hi; apply h <;> omega

theorem sumCellsF_vals (m : Mem) (vals : Nat → Int) (p k n : Nat)
    (h : ∀ i, i < n → rd m (p + i) = vals (k + i)) : sumCellsF m p n = sumFrom vals k n := by
  induction n generalizing p k with
  | zero => rfl
  | succ n ih =>
    have h0 := h 0 (by omega)
    simp only [Nat.add_zero] at h0
    have hr : sumCellsF m (p + 1) n = sumFrom vals (k + 1) n := by
      apply ih; intro i hi
      have := h (i + 1) (by omega)
      have e1 : p + (i + 1) = p + 1 + i := by omega
      have e2 : k + (i + 1) = k + 1 + i := by omega
      rw [e1, e2] at this; exact this
    show rd m p + sumCellsF m (p + 1) n = vals k + sumFrom vals (k + 1) n
    rw [h0, hr]

/-! ## the store loop -/

theorem storeLoop_fst (vals : Nat → Int) (n k p : Nat) (t : Int) (m : Mem) :
    (storeLoop vals n k p t m).1 = p + n := by
  induction n generalizing k p t m with
  | zero => rfl
  | succ n ih => simp only [storeLoop]; rw [ih]; omega

theorem storeLoop_size (vals : Nat → Int) (n k p : Nat) (t : Int) (m : Mem) :
    (storeLoop vals n k p t m).2.2.size = m.size := by
  induction n generalizing k p t m with
  | zero => rfl
  | succ n ih => simp only [storeLoop]; rw [ih, wr_size]

theorem storeLoop_outside (vals : Nat → Int) (n k p : Nat) (t : Int) (m : Mem) (j : Nat)
    (h : j < p ∨ p + n ≤ j) : rd (storeLoop vals n k p t m).2.2 j = rd m j := by
  induction n generalizing k p t m with
  | zero => rfl
  | succ n ih =>
    simp only [storeLoop]
    rw [ih _ _ _ _ (by omega), rd_wr_ne _ _ _ _ (by omega)]

theorem storeLoop_inside (vals : Nat → Int) (n k p : Nat) (t : Int) (m : Mem) (i : Nat)
    (hs : p + n ≤ m.size) (hi : i < n) : rd (storeLoop vals n k p t m).2.2 (p + i) = vals (k + i) := by
  induction n generalizing k p t m i with
  | zero => omega
  | succ n ih =>
    simp only [storeLoop]
    cases i with
    | zero =>
      rw [storeLoop_outside _ _ _ _ _ _ _ (by omega)]
      exact rd_wr_same _ _ _ (by omega)
    | succ i =>
      have e1 : p + (i + 1) = p + 1 + i := by omega
      have e2 : k + (i + 1) = k + 1 + i := by omega
      rw [e1, e2]
      apply ih
      · rw [wr_size]; omega
      · omega

theorem storeLoop_total (vals : Nat → Int) (n k p : Nat) (t : Int) (m : Mem)
    (h : ∀ j, j ≤ n → InI32 (t + sumFrom vals k j)) :
    (storeLoop vals n k p t m).2.1 = t + sumFrom vals k n := by
  induction n generalizing k p t m with
  | zero => simp [storeLoop, sumFrom]
  | succ n ih =>
    simp only [storeLoop]
    have h1 := h 1 (by omega)
    have s1 : sumFrom vals k 1 = vals k := by simp [sumFrom]
    rw [s1] at h1
    rw [wrap32_id _ h1, ih]
    · show t + vals k + sumFrom vals (k + 1) n = t + (vals k + sumFrom vals (k + 1) n)
      omega
    · intro j hj
      have := h (j + 1) (by omega)
      have e : sumFrom vals k (j + 1) = vals k + sumFrom vals (k + 1) j := rfl
      rw [e] at this
      have e2 : t + vals k + sumFrom vals (k + 1) j = t + (vals k + sumFrom vals (k + 1) j) := by omega
      rw [e2]; exact this

end Pixman.Lemmas.Filter

import Pixman.Lemmas.RegionExtents
/-! The public set operations on canonical region objects. -/
set_option linter.unusedSimpArgs false
set_option linter.unusedVariables false
namespace Pixman.Region

/-! ### canonical region objects -/

theorem canonList_single' {e : Box} (h : goodRect e = true) : CanonList [e] := by
  have ⟨h1, h2⟩ := (goodRect_iff e).1 h
  refine ⟨[(e.y1, e.y2, [e])], ?_, rfl⟩
  simp only [BandsOK, IsBand, SpansSep, ne_eq, List.cons_ne_self, not_false_eq_true,
    List.mem_singleton, forall_eq, and_self, true_and, h1, h2, reduceCtorEq]

theorem canonList_nil' : CanonList [] := ⟨[], trivial, rfl⟩

theorem Canon.rects_canon {r : Region} (h : Canon r) : CanonList r.rects := by
  unfold Canon at h; unfold Region.rects
  split <;> simp_all [canonList_single', canonList_nil']

theorem Canon.nar {r : Region} (h : Canon r) : r.nar = false := by
  unfold Canon at h; unfold Region.nar
  split <;> simp_all

theorem Canon.nil_iff {r : Region} (h : Canon r) : r.nil = true ↔ r.rects = [] := by
  unfold Canon at h; unfold Region.nil Region.rects
  split <;> simp_all

theorem Canon.nil_false {r : Region} (h : Canon r) (hn : r.nil = false) : r.rects ≠ [] := by
  intro e; rw [(h.nil_iff).2 e] at hn; cases hn

theorem Canon.not_mem_of_nil {r : Region} (h : Canon r) (hn : r.nil = true) (x y : Int) :
    ¬ r.Mem x y := by
  simp only [Region.Mem, (h.nil_iff).1 hn, memL_nil', not_false_eq_true]

theorem Canon.ptBBox {r : Region} (h : Canon r) (hn : r.nil = false) : PtBBox r.extents r.Mem := by
  unfold Canon at h
  unfold Region.Mem Region.rects
  unfold Region.nil at hn
  split at h
  · rename_i hd; simp only [hd]; exact ptBBox_single h
  · rename_i hd; simp only [hd] at hn; cases hn
  · exact absurd h id
  · rename_i l hd
    simp only [hd]
    exact (isBBox_iff_ptBBox (canonList_good' h.2.1) _).1 h.2.2

theorem Canon.mem_extents {r : Region} (h : Canon r) {x y : Int} (hm : r.Mem x y) :
    r.extents.Mem x y := by
  cases hn : r.nil with
  | true => exact absurd hm (h.not_mem_of_nil hn x y)
  | false => exact (h.ptBBox hn).1 x y hm

theorem mem_single (e : Box) (x y : Int) : (Region.mk e .single).Mem x y ↔ e.Mem x y := by
  simp [Region.Mem, Region.rects, memL_cons', memL_nil']

theorem mem_of_single {r : Region} (h : r.data = .single) (x y : Int) :
    r.Mem x y ↔ r.extents.Mem x y := by
  simp [Region.Mem, Region.rects, h, memL_cons', memL_nil']

theorem mem_emptyStatic (e : Box) (x y : Int) : ¬ (Region.mk e .emptyStatic).Mem x y := by
  simp [Region.Mem, Region.rects, memL_nil']

theorem canon_emptyStatic (e : Box) : Canon ⟨e, .emptyStatic⟩ := trivial

theorem canon_single {e : Box} (h : goodRect e = true) : Canon ⟨e, .single⟩ := h

theorem canon_single_good {r : Region} (h : Canon r) (hd : r.data = .single) :
    goodRect r.extents = true := by
  unfold Canon at h; simp only [hd] at h; exact h

theorem extentCheck_iff' (a b : Box) :
    extentCheck a b = true ↔ b.x1 < a.x2 ∧ a.x1 < b.x2 ∧ b.y1 < a.y2 ∧ a.y1 < b.y2 := by
  simp only [extentCheck, Bool.not_eq_true', Bool.or_eq_false_iff, decide_eq_false_iff_not,
    Int.not_le, ge_iff_le, and_assoc]

theorem extentCheck_of_common {a b : Box} {x y : Int} (ha : a.Mem x y) (hb : b.Mem x y) :
    extentCheck a b = true := by
  rw [extentCheck_iff']; simp only [Box.Mem] at ha hb; omega

theorem subsumes_iff' (a b : Box) :
    subsumes a b = true ↔ a.x1 ≤ b.x1 ∧ b.x2 ≤ a.x2 ∧ a.y1 ≤ b.y1 ∧ b.y2 ≤ a.y2 := by
  simp only [subsumes, Bool.and_eq_true, decide_eq_true_eq, ge_iff_le, and_assoc]

/-! ### pixman_op -/

theorem pixmanOp_spec (k : OpKind) (app1 app2 : Bool) (hk : Compat k app1 app2)
    (newReg reg1 reg2 : Region) (h1 : Canon reg1) (h2 : Canon reg2) (n1 : reg1.nil = false)
    (n2 : reg2.nil = false) :
    (pixmanOp k app1 app2 newReg reg1 reg2).2 = true ∧
    CanonData (pixmanOp k app1 app2 newReg reg1 reg2).1 ∧
    (∀ x y, (pixmanOp k app1 app2 newReg reg1 reg2).1.Mem x y ↔
      k.sem (reg1.Mem x y) (reg2.Mem x y)) ∧
    ((pixmanOp k app1 app2 newReg reg1 reg2).1.data ≠ .single →
      (pixmanOp k app1 app2 newReg reg1 reg2).1.extents = newReg.extents) := by
  have ⟨hC, hM⟩ := pixmanOpRects_spec k app1 app2 hk reg1.rects reg2.rects h1.rects_canon
    h2.rects_canon (h1.nil_false n1) (h2.nil_false n2)
  simp only [pixmanOp, h1.nar, h2.nar, Bool.or_self, Bool.false_eq_true, if_false]
  generalize pixmanOpRects k app1 app2 reg1.rects reg2.rects = l at hC hM
  match l, hC, hM with
  | [], hC, hM =>
    refine ⟨rfl, trivial, fun x y => ?_, fun _ => rfl⟩
    show _ ↔ k.sem (MemL reg1.rects x y) (MemL reg2.rects x y)
    rw [← hM]; simp [Region.Mem, Region.rects]
  | [b], hC, hM =>
    refine ⟨rfl, canonList_good' hC b List.mem_cons_self, fun x y => ?_, fun h => absurd rfl h⟩
    show _ ↔ k.sem (MemL reg1.rects x y) (MemL reg2.rects x y)
    rw [← hM]; simp [Region.Mem, Region.rects]
  | b :: c :: t, hC, hM =>
    refine ⟨rfl, ⟨by simp, hC⟩, fun x y => ?_, fun _ => rfl⟩
    show _ ↔ k.sem (MemL reg1.rects x y) (MemL reg2.rects x y)
    rw [← hM]; simp [Region.Mem, Region.rects]

/-- `pixman_op` followed by `pixman_set_extents` -/
theorem opSetExtents_spec (k : OpKind) (app1 app2 : Bool) (hk : Compat k app1 app2)
    (newReg reg1 reg2 : Region) (h1 : Canon reg1) (h2 : Canon reg2) (n1 : reg1.nil = false)
    (n2 : reg2.nil = false) :
    (if !(pixmanOp k app1 app2 newReg reg1 reg2).2 then pixmanOp k app1 app2 newReg reg1 reg2
      else (setExtents (pixmanOp k app1 app2 newReg reg1 reg2).1, true)) =
      (setExtents (pixmanOp k app1 app2 newReg reg1 reg2).1, true) ∧
    Canon (setExtents (pixmanOp k app1 app2 newReg reg1 reg2).1) ∧
    ∀ x y, (setExtents (pixmanOp k app1 app2 newReg reg1 reg2).1).Mem x y ↔
      k.sem (reg1.Mem x y) (reg2.Mem x y) := by
  have ⟨a, b, c, _⟩ := pixmanOp_spec k app1 app2 hk newReg reg1 reg2 h1 h2 n1 n2
  refine ⟨by simp only [a, Bool.not_true, Bool.false_eq_true, if_false], setExtents_canon b,
    fun x y => ?_⟩
  rw [← c]; simp only [Region.Mem, setExtents_rects]


/-! ### pixman_region_intersect -/

theorem intersect_spec (same12 : Bool) (newReg reg1 reg2 : Region) (h1 : Canon reg1)
    (h2 : Canon reg2) (hs : same12 = true → reg1 = reg2) :
    (intersect same12 newReg reg1 reg2).2 = true ∧ Canon (intersect same12 newReg reg1 reg2).1 ∧
    ∀ x y, (intersect same12 newReg reg1 reg2).1.Mem x y ↔ reg1.Mem x y ∧ reg2.Mem x y := by
  unfold intersect
  cases hc1 : (reg1.nil || reg2.nil || !extentCheck reg1.extents reg2.extents) with
  | true =>
    simp only [if_true, h1.nar, h2.nar, Bool.or_self, Bool.false_eq_true, if_false]
    refine ⟨trivial, trivial, fun x y => ?_⟩
    simp only [Bool.or_eq_true, Bool.not_eq_true'] at hc1
    constructor
    · intro h; exact absurd h (mem_emptyStatic _ x y)
    · rintro ⟨m1, m2⟩
      exfalso
      rcases hc1 with (n | n) | n
      · exact h1.not_mem_of_nil n x y m1
      · exact h2.not_mem_of_nil n x y m2
      · rw [extentCheck_of_common (h1.mem_extents m1) (h2.mem_extents m2)] at n; cases n
  | false =>
    simp only [Bool.or_eq_false_iff, Bool.not_eq_false'] at hc1
    obtain ⟨⟨n1, n2⟩, hec⟩ := hc1
    have hec' := (extentCheck_iff' _ _).1 hec
    simp only [Bool.false_eq_true, if_false]
    cases hc2 : (decide (reg1.data = .single) && decide (reg2.data = .single)) with
    | true =>
      simp only [if_true]
      simp only [Bool.and_eq_true, decide_eq_true_eq] at hc2
      have g1 := (goodRect_iff _).1 (canon_single_good h1 hc2.1)
      have g2 := (goodRect_iff _).1 (canon_single_good h2 hc2.2)
      refine ⟨trivial, ?_, fun x y => ?_⟩
      · exact (goodRect_iff _).2 (by simp only; omega)
      · rw [mem_single, mem_of_single hc2.1, mem_of_single hc2.2]
        simp only [Box.Mem]; omega
    | false =>
      simp only [Bool.false_eq_true, if_false]
      cases hc3 : (decide (reg2.data = .single) && subsumes reg2.extents reg1.extents) with
      | true =>
        simp only [if_true, copy]
        simp only [Bool.and_eq_true, decide_eq_true_eq] at hc3
        refine ⟨trivial, h1, fun x y => ⟨fun m => ⟨m, ?_⟩, fun m => m.1⟩⟩
        rw [mem_of_single hc3.1]
        have := h1.mem_extents m
        have := (subsumes_iff' _ _).1 hc3.2
        simp only [Box.Mem] at *; omega
      | false =>
        simp only [Bool.false_eq_true, if_false]
        cases hc4 : (decide (reg1.data = .single) && subsumes reg1.extents reg2.extents) with
        | true =>
          simp only [if_true, copy]
          simp only [Bool.and_eq_true, decide_eq_true_eq] at hc4
          refine ⟨trivial, h2, fun x y => ⟨fun m => ⟨?_, m⟩, fun m => m.2⟩⟩
          rw [mem_of_single hc4.1]
          have := h2.mem_extents m
          have := (subsumes_iff' _ _).1 hc4.2
          simp only [Box.Mem] at *; omega
        | false =>
          simp only [Bool.false_eq_true, if_false]
          cases hc5 : same12 with
          | true =>
            simp only [if_true, copy]
            have := hs hc5
            subst this
            exact ⟨trivial, h1, fun x y => ⟨fun m => ⟨m, m⟩, fun m => m.1⟩⟩
          | false =>
            simp only [Bool.false_eq_true, if_false]
            have ⟨e, hC, hM⟩ := opSetExtents_spec .inter false false (Or.inr (Or.inl ⟨rfl, rfl, rfl⟩))
              newReg reg1 reg2 h1 h2 n1 n2
            rw [e]
            exact ⟨rfl, hC, hM⟩


/-! ### pixman_region_subtract, pixman_region_inverse -/

theorem subtract_spec (same : Bool) (regD regM regS : Region) (hM : Canon regM) (hS : Canon regS)
    (hs : same = true → regM = regS) :
    (subtract same regD regM regS).2 = true ∧ Canon (subtract same regD regM regS).1 ∧
    ∀ x y, (subtract same regD regM regS).1.Mem x y ↔ regM.Mem x y ∧ ¬ regS.Mem x y := by
  unfold subtract
  cases hc1 : (regM.nil || regS.nil || !extentCheck regM.extents regS.extents) with
  | true =>
    simp only [if_true, hS.nar, Bool.false_eq_true, if_false, copy]
    refine ⟨trivial, hM, fun x y => ⟨fun m => ⟨m, fun m2 => ?_⟩, fun m => m.1⟩⟩
    simp only [Bool.or_eq_true, Bool.not_eq_true'] at hc1
    rcases hc1 with (n | n) | n
    · exact hM.not_mem_of_nil n x y m
    · exact hS.not_mem_of_nil n x y m2
    · rw [extentCheck_of_common (hM.mem_extents m) (hS.mem_extents m2)] at n; cases n
  | false =>
    simp only [Bool.or_eq_false_iff, Bool.not_eq_false'] at hc1
    obtain ⟨⟨n1, n2⟩, hec⟩ := hc1
    simp only [Bool.false_eq_true, if_false]
    cases hc2 : same with
    | true =>
      simp only [if_true]
      have := hs hc2
      subst this
      refine ⟨trivial, trivial, fun x y => ⟨fun m => absurd m (mem_emptyStatic _ x y), fun m => absurd m.1 m.2⟩⟩
    | false =>
      simp only [Bool.false_eq_true, if_false]
      have ⟨e, hC, hMm⟩ := opSetExtents_spec .sub true false (Or.inr (Or.inr ⟨rfl, rfl, rfl⟩))
        regD regM regS hM hS n1 n2
      rw [e]
      exact ⟨rfl, hC, hMm⟩

theorem inverse_spec (newReg reg1 : Region) (invRect : Box) (h1 : Canon reg1)
    (hg : goodRect invRect = true) :
    (inverse newReg reg1 invRect).2 = true ∧ Canon (inverse newReg reg1 invRect).1 ∧
    ∀ x y, (inverse newReg reg1 invRect).1.Mem x y ↔ invRect.Mem x y ∧ ¬ reg1.Mem x y := by
  unfold inverse
  cases hc1 : (reg1.nil || !extentCheck invRect reg1.extents) with
  | true =>
    simp only [if_true, h1.nar, Bool.false_eq_true, if_false]
    refine ⟨trivial, hg, fun x y => ?_⟩
    rw [mem_single]
    refine ⟨fun m => ⟨m, fun m2 => ?_⟩, fun m => m.1⟩
    simp only [Bool.or_eq_true, Bool.not_eq_true'] at hc1
    rcases hc1 with n | n
    · exact h1.not_mem_of_nil n x y m2
    · rw [extentCheck_of_common m (h1.mem_extents m2)] at n; cases n
  | false =>
    simp only [Bool.or_eq_false_iff, Bool.not_eq_false'] at hc1
    simp only [Bool.false_eq_true, if_false]
    have ⟨e, hC, hMm⟩ := opSetExtents_spec .sub true false (Or.inr (Or.inr ⟨rfl, rfl, rfl⟩))
      newReg ⟨invRect, .single⟩ reg1 (canon_single hg) h1 rfl hc1.1
    rw [e]
    refine ⟨rfl, hC, fun x y => ?_⟩
    rw [hMm, mem_single]; rfl

/-! ### pixman_region_union -/

theorem region_with_bbox (p : Region) (U : Box) (S : Int → Int → Prop) (hcd : CanonData p)
    (hm : ∀ x y, p.Mem x y ↔ S x y) (hU : PtBBox U S) (hsingle : p.data = .single → p.extents = U) :
    Canon ⟨U, p.data⟩ ∧ ∀ x y, (Region.mk U p.data).Mem x y ↔ S x y := by
  unfold CanonData at hcd
  cases hd : p.data with
  | single =>
    have he := hsingle hd
    simp only [hd] at hcd
    refine ⟨by rw [← he]; exact hcd, fun x y => ?_⟩
    rw [← hm, mem_single, mem_of_single hd, he]
  | emptyStatic =>
    refine ⟨trivial, fun x y => ?_⟩
    rw [← hm]; simp only [Region.Mem, Region.rects, hd]
  | broken => simp only [hd] at hcd
  | heap l =>
    simp only [hd] at hcd
    have hml : ∀ x y, MemL l x y ↔ S x y := by
      intro x y; rw [← hm]; simp only [Region.Mem, Region.rects, hd]
    refine ⟨⟨hcd.1, hcd.2, ?_⟩, fun x y => ?_⟩
    · exact (isBBox_iff_ptBBox (canonList_good' hcd.2) U).2 (hU.congr (fun x y => (hml x y).symm))
    · rw [← hml]; simp only [Region.Mem, Region.rects]

theorem union_spec (same12 : Bool) (al : Alias) (newReg reg1 reg2 : Region) (h1 : Canon reg1)
    (h2 : Canon reg2) (hs : same12 = true → reg1 = reg2) (ha1 : al = .first → newReg = reg1)
    (ha2 : al = .second → newReg = reg2) :
    (union same12 al newReg reg1 reg2).2 = true ∧ Canon (union same12 al newReg reg1 reg2).1 ∧
    ∀ x y, (union same12 al newReg reg1 reg2).1.Mem x y ↔ reg1.Mem x y ∨ reg2.Mem x y := by
  unfold union
  cases hc0 : same12 with
  | true =>
    simp only [if_true, copy]
    have := hs hc0
    subst this
    exact ⟨trivial, h1, fun x y => ⟨fun m => Or.inl m, fun m => m.elim id id⟩⟩
  | false =>
  simp only [Bool.false_eq_true, if_false]
  cases n1 : reg1.nil with
  | true =>
    simp only [if_true, h1.nar, Bool.false_eq_true, if_false, copy]
    exact ⟨trivial, h2, fun x y => ⟨fun m => Or.inr m,
      fun m => m.elim (fun m => absurd m (h1.not_mem_of_nil n1 x y)) id⟩⟩
  | false =>
  simp only [Bool.false_eq_true, if_false]
  cases n2 : reg2.nil with
  | true =>
    simp only [if_true, h2.nar, Bool.false_eq_true, if_false, copy]
    exact ⟨trivial, h1, fun x y => ⟨fun m => Or.inl m,
      fun m => m.elim id (fun m => absurd m (h2.not_mem_of_nil n2 x y))⟩⟩
  | false =>
  simp only [Bool.false_eq_true, if_false]
  cases hc3 : (decide (reg1.data = .single) && subsumes reg1.extents reg2.extents) with
  | true =>
    simp only [if_true, copy]
    simp only [Bool.and_eq_true, decide_eq_true_eq] at hc3
    refine ⟨trivial, h1, fun x y => ⟨fun m => Or.inl m, fun m => m.elim id (fun m => ?_)⟩⟩
    rw [mem_of_single hc3.1]
    have := h2.mem_extents m
    have := (subsumes_iff' _ _).1 hc3.2
    simp only [Box.Mem] at *; omega
  | false =>
  simp only [Bool.false_eq_true, if_false]
  cases hc4 : (decide (reg2.data = .single) && subsumes reg2.extents reg1.extents) with
  | true =>
    simp only [if_true, copy]
    simp only [Bool.and_eq_true, decide_eq_true_eq] at hc4
    refine ⟨trivial, h2, fun x y => ⟨fun m => Or.inr m, fun m => m.elim (fun m => ?_) id⟩⟩
    rw [mem_of_single hc4.1]
    have := h1.mem_extents m
    have := (subsumes_iff' _ _).1 hc4.2
    simp only [Box.Mem] at *; omega
  | false =>
  simp only [Bool.false_eq_true, if_false]
  have ⟨pa, pb, pc, pd⟩ := pixmanOp_spec .union true true (Or.inl ⟨rfl, rfl, rfl⟩) newReg reg1 reg2
    h1 h2 n1 n2
  simp only [pa, Bool.not_true, Bool.false_eq_true, if_false]
  generalize pixmanOp .union true true newReg reg1 reg2 = p at pa pb pc pd
  have hU : PtBBox (bboxUnion reg1.extents reg2.extents) (fun x y => reg1.Mem x y ∨ reg2.Mem x y) :=
    ptBBox_union (h1.ptBBox n1) (h2.ptBBox n2) (fun _ _ => Iff.rfl)
  have hpc : ∀ x y, p.1.Mem x y ↔ reg1.Mem x y ∨ reg2.Mem x y := pc
  have hsingle : p.1.data = .single → p.1.extents = bboxUnion reg1.extents reg2.extents := by
    intro hd
    have hg : goodRect p.1.extents = true := by
      have := pb; unfold CanonData at this; simp only [hd] at this; exact this
    have hb : PtBBox p.1.extents p.1.Mem :=
      (ptBBox_single hg).congr (fun x y => by rw [mem_of_single hd]; simp [memL_cons', memL_nil'])
    exact (hb.congr hpc).unique hU
  have hext : ∀ e1 e2 : Box,
      (e1 = reg1.extents ∨ e1 = bboxUnion reg1.extents reg2.extents) →
      (e2 = reg2.extents ∨ e2 = bboxUnion reg1.extents reg2.extents) →
      Box.mk (min e1.x1 e2.x1) (min e1.y1 e2.y1) (max e1.x2 e2.x2) (max e1.y2 e2.y2) =
        bboxUnion reg1.extents reg2.extents := by
    intro e1 e2 he1 he2
    rcases he1 with rfl | rfl <;> rcases he2 with rfl | rfl <;>
      simp only [bboxUnion] <;> apply Box.ext' <;> simp only <;> omega
  have hE1 : (if al = .first then p.1.extents else reg1.extents) = reg1.extents ∨
      (if al = .first then p.1.extents else reg1.extents) = bboxUnion reg1.extents reg2.extents := by
    by_cases ha : al = .first
    · simp only [ha, if_true]
      by_cases hd : p.1.data = .single
      · exact Or.inr (hsingle hd)
      · exact Or.inl ((pd hd).trans (by rw [ha1 ha]))
    · rw [if_neg ha]; exact Or.inl rfl
  have hE2 : (if al = .second then p.1.extents else reg2.extents) = reg2.extents ∨
      (if al = .second then p.1.extents else reg2.extents) = bboxUnion reg1.extents reg2.extents := by
    by_cases ha : al = .second
    · simp only [ha, if_true]
      by_cases hd : p.1.data = .single
      · exact Or.inr (hsingle hd)
      · exact Or.inl ((pd hd).trans (by rw [ha2 ha]))
    · rw [if_neg ha]; exact Or.inl rfl
  have hbox := hext _ _ hE1 hE2
  have hR := region_with_bbox p.1 (bboxUnion reg1.extents reg2.extents)
    (fun x y => reg1.Mem x y ∨ reg2.Mem x y) pb hpc hU hsingle
  have hres : ∀ B : Box, B = bboxUnion reg1.extents reg2.extents →
      Canon ⟨B, p.1.data⟩ ∧ ∀ x y, (Region.mk B p.1.data).Mem x y ↔ reg1.Mem x y ∨ reg2.Mem x y := by
    intro B hB; subst hB; exact hR
  refine ⟨trivial, ?_⟩
  apply hres
  rw [← hbox]
  cases al <;> simp only [reduceCtorEq, if_true, if_false]


/-! ### rectangles given as (x, y, width, height); the small constructors -/

/-- the rectangle `x, y, width, height` as the C code stores it (sums truncated to the
    coordinate type) -/
def rectBox (c : Cfg) (x y : Int) (w h : Nat) : Box :=
  ⟨wrapS c.bits x, wrapS c.bits y, wrapS c.bits (x + w), wrapS c.bits (y + h)⟩

theorem wrapS_id' (n : Nat) (hn : 1 ≤ n) (v : Int) (h1 : -(2 ^ (n - 1) : Int) ≤ v)
    (h2 : v < (2 ^ (n - 1) : Int)) : wrapS n v = v := by
  have hm : (2 ^ n : Int) = 2 * 2 ^ (n - 1) := by
    have : n = (n - 1) + 1 := by omega
    conv => lhs; rw [this, Int.pow_succ]
    omega
  have hpos : (0 : Int) < 2 ^ (n - 1) := Int.pow_pos (by decide)
  simp only [wrapS, hm]
  generalize (2 ^ (n - 1) : Int) = H at *
  have hdiv : 2 * H / 2 = H := by omega
  rw [hdiv]
  by_cases hv : 0 ≤ v
  · have : v % (2 * H) = v := Int.emod_eq_of_lt hv (by omega)
    rw [this]; simp only [ge_iff_le]; split <;> omega
  · have e : v % (2 * H) = v + 2 * H := by
      have : (v + 2 * H) % (2 * H) = v % (2 * H) := Int.add_mul_emod_self_left v (2 * H) 1 ▸ by simp
      rw [← this]; exact Int.emod_eq_of_lt (by omega) (by omega)
    rw [e]; simp only [ge_iff_le]; split <;> omega

theorem Cfg.min_eq (c : Cfg) : c.min = -(2 ^ (c.bits - 1) : Int) := rfl
theorem Cfg.max_eq (c : Cfg) : c.max = (2 ^ (c.bits - 1) : Int) - 1 := rfl

/-- inside the coordinate range nothing is truncated -/
theorem rectBox_inRange (c : Cfg) (hb : 1 ≤ c.bits) (x y : Int) (w h : Nat) (hx : c.min ≤ x)
    (hy : c.min ≤ y) (hx2 : x + w ≤ c.max) (hy2 : y + h ≤ c.max) :
    rectBox c x y w h = ⟨x, y, x + w, y + h⟩ := by
  rw [Cfg.min_eq] at hx hy
  rw [Cfg.max_eq] at hx2 hy2
  simp only [rectBox]
  rw [wrapS_id' _ hb x (by omega) (by omega), wrapS_id' _ hb y (by omega) (by omega),
    wrapS_id' _ hb (x + w) (by omega) (by omega), wrapS_id' _ hb (y + h) (by omega) (by omega)]

theorem not_mem_of_not_good {e : Box} (h : goodRect e = false) (x y : Int) : ¬ e.Mem x y := by
  intro m
  have : ¬ (e.x1 < e.x2 ∧ e.y1 < e.y2) := by rw [← goodRect_iff]; simp [h]
  simp only [Box.Mem] at m; omega

theorem canon_init : Canon init := trivial
theorem not_mem_init (x y : Int) : ¬ init.Mem x y := mem_emptyStatic _ x y

theorem initWithExtents_spec (e : Box) :
    Canon (initWithExtents e) ∧ ∀ x y, (initWithExtents e).Mem x y ↔ e.Mem x y := by
  unfold initWithExtents
  cases hg : goodRect e with
  | true =>
    simp only [Bool.not_true, Bool.false_eq_true, if_false]
    exact ⟨hg, fun x y => mem_single e x y⟩
  | false =>
    simp only [Bool.not_false, if_true]
    exact ⟨canon_init, fun x y => ⟨fun m => absurd m (not_mem_init x y),
      fun m => absurd m (not_mem_of_not_good hg x y)⟩⟩

theorem initRect_spec (c : Cfg) (x y : Int) (w h : Nat) :
    Canon (initRect c x y w h) ∧
    ∀ px py, (initRect c x y w h).Mem px py ↔ (rectBox c x y w h).Mem px py :=
  initWithExtents_spec (rectBox c x y w h)

theorem reset_spec (b : Box) (hg : goodRect b = true) :
    Canon (reset b) ∧ ∀ x y, (reset b).Mem x y ↔ b.Mem x y :=
  ⟨hg, fun x y => mem_single b x y⟩

theorem intersectRect_spec (c : Cfg) (dest source : Region) (x y : Int) (w h : Nat)
    (hs : Canon source) :
    (intersectRect c dest source x y w h).2 = true ∧
    Canon (intersectRect c dest source x y w h).1 ∧
    ∀ px py, (intersectRect c dest source x y w h).1.Mem px py ↔
      source.Mem px py ∧ (rectBox c x y w h).Mem px py := by
  unfold intersectRect
  cases hg : goodRect (rectBox c x y w h) with
  | true =>
    have hg' : goodRect ⟨wrapS c.bits x, wrapS c.bits y, wrapS c.bits (x + w), wrapS c.bits (y + h)⟩ = true := hg
    simp only [hg', Bool.not_true, Bool.false_eq_true, if_false]
    have ⟨a, b, d⟩ := intersect_spec false dest source ⟨rectBox c x y w h, .single⟩ hs
      (canon_single hg) (fun e => by cases e)
    refine ⟨a, b, fun px py => ?_⟩
    rw [← mem_single (rectBox c x y w h)]; exact d px py
  | false =>
    have hg' : goodRect ⟨wrapS c.bits x, wrapS c.bits y, wrapS c.bits (x + w), wrapS c.bits (y + h)⟩ = false := hg
    simp only [hg', Bool.not_false, if_true]
    have ⟨a, b, d⟩ := intersect_spec false dest source ⟨rectBox c x y w h, .emptyStatic⟩ hs
      (canon_emptyStatic _) (fun e => by cases e)
    refine ⟨a, b, fun px py => ?_⟩
    have := d px py
    constructor
    · intro m; exact absurd ((this.1 m).2) (mem_emptyStatic _ px py)
    · intro m; exact absurd m.2 (not_mem_of_not_good hg px py)

theorem unionRect_spec (c : Cfg) (al : Alias) (dest source : Region) (x y : Int) (w h : Nat)
    (hs : Canon source) (ha1 : al = .first → dest = source) (ha2 : al ≠ .second) :
    (unionRect c al dest source x y w h).2 = true ∧
    Canon (unionRect c al dest source x y w h).1 ∧
    ∀ px py, (unionRect c al dest source x y w h).1.Mem px py ↔
      source.Mem px py ∨ (rectBox c x y w h).Mem px py := by
  unfold unionRect
  cases hg : goodRect (rectBox c x y w h) with
  | true =>
    have hg' : goodRect ⟨wrapS c.bits x, wrapS c.bits y, wrapS c.bits (x + w), wrapS c.bits (y + h)⟩ = true := hg
    simp only [hg', Bool.not_true, Bool.false_eq_true, if_false]
    have ⟨a, b, d⟩ := union_spec false al dest source ⟨rectBox c x y w h, .single⟩ hs
      (canon_single hg) (fun e => by cases e) ha1 (fun e => absurd e ha2)
    refine ⟨a, b, fun px py => ?_⟩
    rw [← mem_single (rectBox c x y w h)]; exact d px py
  | false =>
    have hg' : goodRect ⟨wrapS c.bits x, wrapS c.bits y, wrapS c.bits (x + w), wrapS c.bits (y + h)⟩ = false := hg
    simp only [hg', Bool.not_false, if_true, copy]
    exact ⟨trivial, hs, fun px py => ⟨Or.inl, fun m => m.elim id
      (fun m => absurd m (not_mem_of_not_good hg px py))⟩⟩

end Pixman.Region

import Pixman.Lemmas.RegionQuery
/-! Lemmas for `pixman_region_translate` (C07). -/
namespace Pixman.Region

theorem pow_bits (n : Nat) (h : 1 ≤ n) : (2 : Int) ^ n = 2 * 2 ^ (n - 1) := by
  have : n = (n - 1) + 1 := by omega
  rw [this, Int.pow_succ, Nat.add_sub_cancel, Int.mul_comm]

theorem pow_pos' (n : Nat) : (0 : Int) < 2 ^ n := Int.pow_pos (by omega)

theorem cfg_min_lt_max (c : Cfg) : c.min < c.max := by
  have := pow_pos' (c.bits - 1)
  unfold Cfg.min Cfg.max
  omega

/-- The conversion to the coordinate type is the identity on representable values. -/
theorem wrapS_id (c : Cfg) (hc : 1 ≤ c.bits) (v : Int) (h1 : c.min ≤ v) (h2 : v ≤ c.max) :
    wrapS c.bits v = v := by
  unfold Cfg.min at h1
  unfold Cfg.max at h2
  unfold wrapS
  simp only [pow_bits c.bits hc]
  generalize (2 : Int) ^ (c.bits - 1) = h at *
  have hh : (2 * h) / 2 = h := Int.mul_ediv_cancel_left h (by omega)
  rw [hh]
  by_cases hv : 0 ≤ v
  · have : v % (2 * h) = v := Int.emod_eq_of_lt hv (by omega)
    rw [this, if_neg (by omega)]
  · have : v % (2 * h) = v + 2 * h := by
      rw [← Int.add_emod_right]
      exact Int.emod_eq_of_lt (by omega) (by omega)
    rw [this, if_pos (by omega)]
    omega

theorem orSign_nonneg (a b c d : Int) :
    orSign [a, b, c, d] ≥ 0 ↔ 0 ≤ a ∧ 0 ≤ b ∧ 0 ≤ c ∧ 0 ≤ d := by
  unfold orSign
  simp only [List.any_cons, List.any_nil, Bool.or_false, List.all_cons, List.all_nil,
    Bool.and_true]
  by_cases ha : a < 0 <;> by_cases hb : b < 0 <;> by_cases hc : c < 0 <;> by_cases hd : d < 0 <;>
    simp [ha, hb, hc, hd] <;> (try split) <;> omega

/-- the box moved by `(dx, dy)`, without any conversion -/
def shiftBox (b : Box) (dx dy : Int) : Box := ⟨b.x1 + dx, b.y1 + dy, b.x2 + dx, b.y2 + dy⟩

theorem shiftBox_mem (b : Box) (dx dy x y : Int) :
    (shiftBox b dx dy).Mem x y ↔ b.Mem (x - dx) (y - dy) := by
  simp only [shiftBox, Box.Mem]; omega

/-- `[min, max)²` -/
def InRange (c : Cfg) (x y : Int) : Prop := c.min ≤ x ∧ x < c.max ∧ c.min ≤ y ∧ y < c.max

theorem outOfRange_iff (c : Cfg) (x1 y1 x2 y2 : Int) :
    outOfRange c x1 y1 x2 y2 = true ↔ (x2 ≤ c.min ∨ y2 ≤ c.min ∨ x1 ≥ c.max ∨ y1 ≥ c.max) := by
  simp only [outOfRange, Bool.or_eq_true, decide_eq_true_eq, or_assoc]

theorem outOfRange_no_point {c : Cfg} {b : Box} {dx dy : Int}
    (h : outOfRange c (b.x1 + dx) (b.y1 + dy) (b.x2 + dx) (b.y2 + dy) = true) (x y : Int) :
    ¬ (b.Mem (x - dx) (y - dy) ∧ InRange c x y) := by
  rw [outOfRange_iff] at h
  rintro ⟨⟨_, _, _, _⟩, _, _, _, _⟩
  omega

theorem clampBox_mem {c : Cfg} {b : Box} {dx dy : Int} (x y : Int) :
    (clampBox c (b.x1 + dx) (b.y1 + dy) (b.x2 + dx) (b.y2 + dy)).Mem x y ↔
      (b.Mem (x - dx) (y - dy) ∧ InRange c x y) := by
  simp only [clampBox, Box.Mem, InRange]
  split <;> split <;> split <;> split <;> omega

theorem clampBox_good {c : Cfg} {b : Box} {dx dy : Int} (hg : b.x1 < b.x2 ∧ b.y1 < b.y2)
    (h : outOfRange c (b.x1 + dx) (b.y1 + dy) (b.x2 + dx) (b.y2 + dy) = false) :
    goodRect (clampBox c (b.x1 + dx) (b.y1 + dy) (b.x2 + dx) (b.y2 + dy)) = true := by
  have hn : ¬ _ := fun h' => by rw [(outOfRange_iff ..).2 h'] at h; cases h
  simp only [not_or, Int.not_le, ge_iff_le] at hn
  have := cfg_min_lt_max c
  simp only [clampBox, goodRect, Bool.and_eq_true]
  split <;> split <;> split <;> split <;> simp only [decide_eq_true_eq] <;> omega

/-- the rectangle list built by the slow path -/
def clampList (c : Cfg) (dx dy : Int) (l : List Box) : List Box :=
  l.filterMap fun b =>
    let bx1 := b.x1 + dx
    let by1 := b.y1 + dy
    let bx2 := b.x2 + dx
    let by2 := b.y2 + dy
    if outOfRange c bx1 by1 bx2 by2 then none
    else some (clampBox c bx1 by1 bx2 by2)

theorem clampList_mem (c : Cfg) (dx dy : Int) (l : List Box) (x y : Int) :
    MemL (clampList c dx dy l) x y ↔ (MemL l (x - dx) (y - dy) ∧ InRange c x y) := by
  induction l with
  | nil => simp [clampList, MemL]
  | cons b t ih =>
    unfold clampList at ih ⊢
    rw [List.filterMap_cons]
    by_cases ho : outOfRange c (b.x1 + dx) (b.y1 + dy) (b.x2 + dx) (b.y2 + dy) = true
    · simp only [ho, if_true]
      rw [ih, memL_cons]
      have := outOfRange_no_point ho x y
      constructor
      · rintro ⟨m, r⟩; exact ⟨.inr m, r⟩
      · rintro ⟨m | m, r⟩
        · exact absurd ⟨m, r⟩ this
        · exact ⟨m, r⟩
    · simp only [ho, Bool.false_eq_true, if_false]
      rw [memL_cons, memL_cons, ih, clampBox_mem]
      constructor
      · rintro (⟨m, r⟩ | ⟨m, r⟩)
        · exact ⟨.inl m, r⟩
        · exact ⟨.inr m, r⟩
      · rintro ⟨m | m, r⟩
        · exact .inl ⟨m, r⟩
        · exact .inr ⟨m, r⟩

theorem clampList_good (c : Cfg) (dx dy : Int) (l : List Box)
    (hg : ∀ b ∈ l, b.x1 < b.x2 ∧ b.y1 < b.y2) :
    ∀ b ∈ clampList c dx dy l, goodRect b = true := by
  intro b hb
  unfold clampList at hb
  obtain ⟨a, ha, he⟩ := List.mem_filterMap.1 hb
  by_cases ho : outOfRange c (a.x1 + dx) (a.y1 + dy) (a.x2 + dx) (a.y2 + dy) = true
  · simp [ho] at he
  · simp only [ho, Bool.false_eq_true, if_false, Option.some.injEq] at he
    rw [← he]
    exact clampBox_good (hg a ha) (by simpa using ho)

theorem canon_mem_extents {r : Region} (h : Canon r) {x y : Int} (m : r.Mem x y) :
    r.extents.Mem x y := by
  obtain ⟨e, d⟩ := r
  cases d with
  | broken => exact h.elim
  | emptyStatic => obtain ⟨b, hb, _⟩ := m; cases hb
  | single => obtain ⟨b, hb, m⟩ := m; rw [List.mem_singleton.1 hb] at m; exact m
  | heap l => exact isBBox_mem h.2.2 m

theorem memL_map_shift (l : List Box) (dx dy x y : Int) :
    MemL (l.map (shiftBox · dx dy)) x y ↔ MemL l (x - dx) (y - dy) := by
  induction l with
  | nil => simp [MemL]
  | cons b t ih => rw [List.map_cons, memL_cons, memL_cons, ih, shiftBox_mem]

/-- the test of the fast path: the translated extents are representable -/
def FastCond (c : Cfg) (r : Region) (dx dy : Int) : Prop :=
  c.min ≤ r.extents.x1 + dx ∧ c.min ≤ r.extents.y1 + dy ∧
  r.extents.x2 + dx ≤ c.max ∧ r.extents.y2 + dy ≤ c.max

instance (c : Cfg) (r : Region) (dx dy : Int) : Decidable (FastCond c r dx dy) := by
  unfold FastCond; infer_instance

theorem fastCond_iff (c : Cfg) (r : Region) (dx dy : Int) :
    orSign [r.extents.x1 + dx - c.min, r.extents.y1 + dy - c.min, c.max - (r.extents.x2 + dx),
      c.max - (r.extents.y2 + dy)] ≥ 0 ↔ FastCond c r dx dy := by
  rw [orSign_nonneg]; unfold FastCond; omega

/-- fast path: every rectangle is moved, no conversion changes a value -/
theorem translate_fast (c : Cfg) (hc : 1 ≤ c.bits) {r : Region} (h : Canon r) (dx dy : Int)
    (hf : FastCond c r dx dy) :
    (translate c r dx dy).rects = r.rects.map (shiftBox · dx dy) ∧
    (translate c r dx dy).extents = shiftBox r.extents dx dy := by
  have hf' := (fastCond_iff c r dx dy).2 hf
  obtain ⟨e, d⟩ := r
  unfold translate
  simp only at hf'
  simp only [hf', if_true]
  cases d with
  | broken => exact h.elim
  | emptyStatic => simp [Region.rects, shiftBox]
  | single => simp [Region.rects, shiftBox]
  | heap l =>
    simp only [Region.rects, shiftBox, and_true]
    apply List.map_congr_left
    intro b hb
    have hbb := h.2.2.1 b hb
    have hg := canonList_good h.2.1 b hb
    unfold FastCond at hf
    simp only at hf hbb
    rw [wrapS_id c hc _ (by omega) (by omega), wrapS_id c hc _ (by omega) (by omega),
      wrapS_id c hc _ (by omega) (by omega), wrapS_id c hc _ (by omega) (by omega)]

theorem translate_mem_fast' (c : Cfg) (hc : 1 ≤ c.bits) {r : Region} (h : Canon r)
    (dx dy : Int) (hf : FastCond c r dx dy) (x y : Int) :
    (translate c r dx dy).Mem x y ↔ (r.Mem (x - dx) (y - dy) ∧ InRange c x y) := by
  unfold Region.Mem
  rw [(translate_fast c hc h dx dy hf).1, memL_map_shift]
  constructor
  · intro m
    refine ⟨m, ?_⟩
    obtain ⟨_, _, _, _⟩ := canon_mem_extents h m
    unfold FastCond at hf
    unfold InRange
    omega
  · exact And.left

/-- empty path: the translated extents miss the representable range altogether -/
theorem translate_out (c : Cfg) (r : Region) (dx dy : Int) (hf : ¬ FastCond c r dx dy)
    (ho : outOfRange c (r.extents.x1 + dx) (r.extents.y1 + dy) (r.extents.x2 + dx)
      (r.extents.y2 + dy) = true) (hn : r.nar = false) :
    translate c r dx dy =
      ⟨⟨r.extents.x1, r.extents.y1, r.extents.x1, r.extents.y1⟩, .emptyStatic⟩ := by
  have hf' := mt (fastCond_iff c r dx dy).1 hf
  unfold translate
  simp only [hf', if_false, ho, if_true, hn, Bool.false_eq_true]

/-- a canonical region is not the broken region -/
theorem canon_not_nar {r : Region} (h : Canon r) : r.nar = false := by
  obtain ⟨e, d⟩ := r
  cases d <;> simp_all [Canon, Region.nar]

theorem translate_mem_out' (c : Cfg) {r : Region} (h : Canon r) (dx dy : Int)
    (hf : ¬ FastCond c r dx dy)
    (ho : outOfRange c (r.extents.x1 + dx) (r.extents.y1 + dy) (r.extents.x2 + dx)
      (r.extents.y2 + dy) = true) (x y : Int) :
    (translate c r dx dy).Mem x y ↔ (r.Mem (x - dx) (y - dy) ∧ InRange c x y) := by
  rw [translate_out c r dx dy hf ho (canon_not_nar h)]
  constructor
  · rintro ⟨b, hb, _⟩; cases hb
  · rintro ⟨m, hr⟩
    exact absurd ⟨canon_mem_extents h m, hr⟩ (outOfRange_no_point ho x y)

/-- slow path: rectangles are moved, those wholly outside dropped, the others clamped; what
    `validate` does with two or more clamped rectangles is the hypothesis `hv`. -/
theorem translate_mem_slow' (c : Cfg) {r : Region} (h : Canon r) (dx dy : Int)
    (hf : ¬ FastCond c r dx dy)
    (ho : outOfRange c (r.extents.x1 + dx) (r.extents.y1 + dy) (r.extents.x2 + dx)
      (r.extents.y2 + dy) = false)
    (hv : 2 ≤ (clampList c dx dy r.rects).length → ∀ x y,
      (validateRects (clampList c dx dy r.rects)).Mem x y ↔ MemL (clampList c dx dy r.rects) x y)
    (x y : Int) :
    (translate c r dx dy).Mem x y ↔ (r.Mem (x - dx) (y - dy) ∧ InRange c x y) := by
  have hf' := mt (fastCond_iff c r dx dy).1 hf
  obtain ⟨e, d⟩ := r
  unfold translate
  simp only at hf' ho
  simp only [hf', if_false, ho, Bool.false_eq_true]
  cases d with
  | broken => exact h.elim
  | emptyStatic => simp [Region.Mem, Region.rects, MemL]
  | single =>
    simp only [Region.Mem, Region.rects]
    rw [MemL, MemL]
    simp only [List.mem_singleton, exists_eq_left]
    exact clampBox_mem x y
  | heap l =>
    have hne : l.isEmpty = false := by
      have := h.1
      cases l with
      | nil => simp at this
      | cons _ _ => rfl
    simp only [hne, Bool.false_eq_true, if_false]
    have hm := clampList_mem c dx dy l x y
    simp only [Region.rects] at hv
    unfold clampList at hm hv
    simp only [Region.Mem] at hv ⊢
    revert hv hm
    generalize (List.filterMap _ l) = l'
    intro hv hm
    match l', hm, hv with
    | [], hm, _ => simp only [Region.rects]; exact hm
    | [b], hm, _ => simp only [Region.rects]; exact hm
    | a :: b :: t, hm, hv =>
      simp only
      rw [hv (by simp) x y]; exact hm

/-! ### the canonical form is kept -/

theorem spansSep_shift (dx dy : Int) : ∀ {l : List Box}, SpansSep l →
    SpansSep (l.map (shiftBox · dx dy))
  | [], _ => trivial
  | [a], h => by simp only [List.map_cons, List.map_nil, SpansSep, shiftBox] at h ⊢; omega
  | a :: b :: t, h => by
    have ih := spansSep_shift dx dy (l := b :: t) h.2.2
    simp only [List.map_cons] at ih ⊢
    refine ⟨?_, ?_, ih⟩
    · have := h.1; simp only [shiftBox]; omega
    · have := h.2.1; simp only [shiftBox]; omega

theorem sameSpans_shift (dx dy : Int) : ∀ {l l' : List Box},
    SameSpans (l.map (shiftBox · dx dy)) (l'.map (shiftBox · dx dy)) → SameSpans l l'
  | [], [], _ => trivial
  | [], _ :: _, h => h.elim
  | _ :: _, [], h => h.elim
  | a :: t, a' :: t', h => by
    simp only [List.map_cons, SameSpans, shiftBox] at h
    exact ⟨by omega, by omega, sameSpans_shift dx dy h.2.2⟩

theorem isBand_shift (dx dy : Int) {y1 y2 : Int} {l : List Box} (h : IsBand y1 y2 l) :
    IsBand (y1 + dy) (y2 + dy) (l.map (shiftBox · dx dy)) := by
  obtain ⟨h1, h2, h3, h4⟩ := h
  refine ⟨by simpa using h1, by omega, ?_, spansSep_shift dx dy h4⟩
  intro b hb
  obtain ⟨a, ha, rfl⟩ := List.mem_map.1 hb
  have := h3 a ha
  simp only [shiftBox]
  omega

def shiftBand (dx dy : Int) (a : Band) : Band := (a.1 + dy, a.2.1 + dy, a.2.2.map (shiftBox · dx dy))

theorem bandsOK_shift (dx dy : Int) : ∀ {bs : List Band}, BandsOK bs →
    BandsOK (bs.map (shiftBand dx dy))
  | [], _ => trivial
  | [(y1, y2, l)], h => isBand_shift dx dy (y1 := y1) (y2 := y2) h
  | (y1, y2, l) :: (y1', y2', l') :: t, h => by
    have ih := bandsOK_shift dx dy (bs := (y1', y2', l') :: t) h.2.2.2
    simp only [List.map_cons] at ih ⊢
    refine ⟨isBand_shift dx dy h.1, ?_, ?_, ih⟩
    · have := h.2.1; simp only; omega
    · intro e hs
      exact h.2.2.1 (by simp only at e; omega) (sameSpans_shift dx dy hs)

theorem flat_shift (dx dy : Int) (bs : List Band) :
    flat (bs.map (shiftBand dx dy)) = (flat bs).map (shiftBox · dx dy) := by
  induction bs with
  | nil => rfl
  | cons a t ih => rw [List.map_cons, flat_cons, flat_cons, List.map_append, ih]; rfl

theorem canonList_shift (dx dy : Int) {l : List Box} (h : CanonList l) :
    CanonList (l.map (shiftBox · dx dy)) := by
  obtain ⟨bs, hk, rfl⟩ := h
  exact ⟨bs.map (shiftBand dx dy), bandsOK_shift dx dy hk, (flat_shift dx dy bs).symm⟩

theorem isBBox_shift (dx dy : Int) {e : Box} {l : List Box} (h : IsBBox e l) :
    IsBBox (shiftBox e dx dy) (l.map (shiftBox · dx dy)) := by
  obtain ⟨h0, ⟨b1, m1, e1⟩, ⟨b2, m2, e2⟩, ⟨b3, m3, e3⟩, ⟨b4, m4, e4⟩⟩ := h
  refine ⟨?_, ⟨_, List.mem_map.2 ⟨b1, m1, rfl⟩, ?_⟩, ⟨_, List.mem_map.2 ⟨b2, m2, rfl⟩, ?_⟩,
    ⟨_, List.mem_map.2 ⟨b3, m3, rfl⟩, ?_⟩, ⟨_, List.mem_map.2 ⟨b4, m4, rfl⟩, ?_⟩⟩
  · intro b hb
    obtain ⟨a, ha, rfl⟩ := List.mem_map.1 hb
    have := h0 a ha
    simp only [shiftBox]
    omega
  all_goals simp only [shiftBox]; omega

/-- the region moved by `(dx, dy)`, representation kept -/
def shiftRegion (r : Region) (dx dy : Int) : Region :=
  ⟨shiftBox r.extents dx dy,
    match r.data with
    | .heap l => .heap (l.map (shiftBox · dx dy))
    | d => d⟩

theorem canon_shiftRegion {r : Region} (h : Canon r) (dx dy : Int) :
    Canon (shiftRegion r dx dy) := by
  obtain ⟨e, d⟩ := r
  cases d with
  | broken => exact h.elim
  | emptyStatic => trivial
  | single =>
    have hg : e.x1 < e.x2 ∧ e.y1 < e.y2 := by simpa [Canon, goodRect] using h
    show goodRect ⟨e.x1 + dx, e.y1 + dy, e.x2 + dx, e.y2 + dy⟩ = true
    simp only [goodRect, Bool.and_eq_true, decide_eq_true_eq]
    omega
  | heap l =>
    exact ⟨by simpa using h.1, canonList_shift dx dy h.2.1, isBBox_shift dx dy h.2.2⟩

theorem translate_fast_eq (c : Cfg) (hc : 1 ≤ c.bits) {r : Region} (h : Canon r) (dx dy : Int)
    (hf : FastCond c r dx dy) : translate c r dx dy = shiftRegion r dx dy := by
  have hf' := (fastCond_iff c r dx dy).2 hf
  have hr := (translate_fast c hc h dx dy hf).1
  obtain ⟨e, d⟩ := r
  unfold translate at hr ⊢
  simp only at hf'
  simp only [hf', if_true] at hr ⊢
  cases d with
  | broken => exact h.elim
  | emptyStatic => rfl
  | single => rfl
  | heap l =>
    simp only [Region.rects] at hr
    simp only [shiftRegion, shiftBox, hr]

theorem translate_canon' (c : Cfg) (hc : 1 ≤ c.bits) {r : Region} (h : Canon r) (dx dy : Int)
    (hv : 2 ≤ (clampList c dx dy r.rects).length →
      Canon (validateRects (clampList c dx dy r.rects))) :
    Canon (translate c r dx dy) := by
  by_cases hf : FastCond c r dx dy
  · rw [translate_fast_eq c hc h dx dy hf]; exact canon_shiftRegion h dx dy
  · cases ho : outOfRange c (r.extents.x1 + dx) (r.extents.y1 + dy) (r.extents.x2 + dx)
        (r.extents.y2 + dy)
    · have hf' := mt (fastCond_iff c r dx dy).1 hf
      obtain ⟨e, d⟩ := r
      unfold translate
      simp only at hf' ho
      simp only [hf', if_false, ho, Bool.false_eq_true]
      cases d with
      | broken => exact h.elim
      | emptyStatic => trivial
      | single =>
        have hg : e.x1 < e.x2 ∧ e.y1 < e.y2 := by simpa [Canon, goodRect] using h
        exact clampBox_good hg ho
      | heap l =>
        have hne : l.isEmpty = false := by
          have := h.1
          cases l with
          | nil => simp at this
          | cons _ _ => rfl
        simp only [hne, Bool.false_eq_true, if_false]
        have hg := clampList_good c dx dy l (canonList_good h.2.1)
        simp only [Region.rects] at hv
        unfold clampList at hg hv
        revert hv hg
        generalize (List.filterMap _ l) = l'
        intro hv hg
        match l', hv, hg with
        | [], _, _ => trivial
        | [b], _, hg => exact hg b (List.mem_singleton.2 rfl)
        | a :: b :: t, hv, _ => exact hv (by simp)
    · rw [translate_out c r dx dy hf ho (canon_not_nar h)]; trivial

end Pixman.Region

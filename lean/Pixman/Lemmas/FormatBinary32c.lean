import Pixman.Lemmas.FormatBinary32b
import Pixman.Lemmas.FormatYuv
/-! More consequences of the binary32 model (C10): formats without A/R/G/B bit counts (YUV, indexed), clamping of
`float_to_unorm`, and the bridge from bit patterns to rational values. -/
namespace Pixman.Lemmas.Binary32
open Pixman.Model.Format Pixman.Model.Binary32 Pixman.Spec.Format Pixman.Lemmas.FormatCodec Pixman.Lemmas.FormatWide Pixman.Lemmas.FormatMem

/-- one channel of `pixman_expand_to_float` for an 8-bit field = `unorm_to_float` of that byte (binary32) -/
theorem chan8_32 (v S : Nat) :
    mul32 (ofNat32 ((v >>> S) &&& ((1 <<< 8) - 1))) (multiplier32 8) = unormToFloat32 (field v S 8) 8 := by
  unfold unormToFloat32 multiplier32 field
  simp only [force_eq]
  have hu : (v >>> S) &&& (2 ^ 8 - 1) < 65536 := by
    rw [Nat.and_two_pow_sub_one_eq_mod]
    exact Nat.lt_of_lt_of_le (Nat.mod_lt _ (by decide)) (by decide)
  have e : ((v >>> S) &&& (2 ^ 8 - 1)) % 65536 &&& ((1 <<< 8) - 1) = (v >>> S) &&& ((1 <<< 8) - 1) := by
    rw [Nat.mod_eq_of_lt hu, Nat.one_shiftLeft, Nat.and_assoc, Nat.and_self]
  rw [e, if_neg (by decide)]

theorem expand32_novis (f v : Nat) (h : fmtVis f = 0) :
    expandToFloat32 f v = ⟨unormToFloat32 (field v 24 8) 8, unormToFloat32 (field v 16 8) 8,
      unormToFloat32 (field v 8 8) 8, unormToFloat32 (field v 0 8) 8⟩ := by
  have hA : fmtA A8R8G8B8 = 8 := by decide
  have hR : fmtR A8R8G8B8 = 8 := by decide
  have hG : fmtG A8R8G8B8 = 8 := by decide
  have hB : fmtB A8R8G8B8 = 8 := by decide
  unfold expandToFloat32
  simp only [h, if_true, hA, hR, hG, hB]
  have hm : ((1 <<< 8) - 1 : Nat) ≠ 0 := by decide
  rw [if_pos hm]
  rw [show (32 - 8 : Nat) = 24 from rfl, show (24 - 8 : Nat) = 16 from rfl, show (16 - 8 : Nat) = 8 from rfl,
    show (8 - 8 : Nat) = 0 from rfl, chan8_32, chan8_32, chan8_32, chan8_32]

theorem contract32_expand_novis (f v : Nat) (h : fmtVis f = 0) (hv : v < 2 ^ 32) :
    contractFromFloat32 (expandToFloat32 f v) = v := by
  rw [expand32_novis f v h]
  unfold contractFromFloat32
  simp only []
  rw [rt32_8 _ (field_lt v 24 8), rt32_8 _ (field_lt v 16 8), rt32_8 _ (field_lt v 8 8), rt32_8 _ (field_lt v 0 8),
    Nat.shiftLeft_zero]
  rw [pack8 _ _ _ _ (field_lt v 16 8) (field_lt v 8 8) (field_lt v 0 8)]
  simp only [field_eq_mod, Nat.shiftRight_eq_div_pow, Nat.reducePow, Nat.pow_zero, Nat.div_one] at hv ⊢
  omega

/-- `float_to_unorm` of anything above 1.0f is `float_to_unorm (1.0f)` -/
theorem clamp_hi (f n : Nat) (h : gt32 f one = true) : floatToUnorm32 f n = floatToUnorm32 one n := by
  unfold floatToUnorm32
  simp only [force_eq]
  have h11 : gt32 one one = false := by decide
  rw [if_pos h, h11]
  simp

theorem signBit_le (x : Nat) : signBit x = 0 ∨ signBit x = 1 := by
  unfold signBit
  have := Nat.and_one_is_mod (x >>> 31)
  omega

/-- `float_to_unorm` of anything below 0 is `float_to_unorm (0.0f)` -/
theorem clamp_lo (f n : Nat) (h : lt32 f zero = true) : floatToUnorm32 f n = floatToUnorm32 zero n := by
  have hs : signBit f = 1 := by
    unfold lt32 at h
    cases signBit_le f with
    | inl h0 =>
      rw [if_pos h0] at h
      have : mag zero = 0 := by decide
      simp [this] at h
    | inr h1 => exact h1
  have hg : gt32 f one = false := by
    unfold gt32 lt32
    have s1 : signBit one = 0 := by decide
    rw [if_pos s1, hs]
    simp
  unfold floatToUnorm32
  simp only [force_eq]
  have h00 : gt32 zero one = false := by decide
  have h01 : lt32 zero zero = false := by decide
  rw [hg]
  simp only [Bool.false_eq_true, if_false, h, if_true, h00, h01]

end Pixman.Lemmas.Binary32

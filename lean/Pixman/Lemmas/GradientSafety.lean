import Pixman.Model.Gradient
/-! G1 (safety): every stop index used by `gradient_walker_reset` lies inside the allocated block of
    `n + 2` stops, for ARBITRARY stop lists (unsorted, repeated, out of range), any position, any
    repeat mode; the search loop ends after at most `count` iterations. -/
namespace Pixman.Model.Gradient

theorem searchFrom_ge (ext : Array Stop) (count : Nat) (x : Int) (n : Nat) :
    n ≤ searchFrom ext count x n := by
  fun_induction searchFrom ext count x n with
  | case1 n h hx => exact Nat.le_refl _
  | case2 n h hx ih => omega
  | case3 n h => exact Nat.le_refl _

theorem searchFrom_le' (ext : Array Stop) (count : Nat) (x : Int) (n : Nat) (hn : n ≤ count) :
    searchFrom ext count x n ≤ count := by
  fun_induction searchFrom ext count x n with
  | case1 n h hx => omega
  | case2 n h hx ih => exact ih (by omega)
  | case3 n h => omega

/-- the loop with an explicit iteration budget: `none` = budget exhausted -/
def searchFuel (ext : Array Stop) (count : Nat) (x : Int) : Nat → Nat → Option Nat
  | fuel, n =>
    if n < count then
      if x < (ext.getD (n + 1) default).x then some n
      else match fuel with
        | 0 => none
        | f + 1 => searchFuel ext count x f (n + 1)
    else some n

theorem searchFuel_eq (ext : Array Stop) (count : Nat) (x : Int) (n : Nat) (fuel : Nat) (hf : count - n ≤ fuel) :
    searchFuel ext count x fuel n = some (searchFrom ext count x n) := by
  fun_induction searchFrom ext count x n generalizing fuel with
  | case1 n h hx => unfold searchFuel; simp only [h, hx, if_true]
  | case2 n h hx ih =>
    unfold searchFuel
    simp only [h, hx, if_true, if_false]
    cases fuel with
    | zero => omega
    | succ f => exact ih f (by omega)
  | case3 n h => unfold searchFuel; simp [h]

theorem extStops_size (rep : Repeat) (stops : Array Stop) : (extStops rep stops).size = stops.size + 2 := by
  simp [extStops]; omega

theorem stopAt_in (ext : Array Stop) (k : Int) (h0 : -1 ≤ k) (h1 : k + 1 < ext.size) : (stopAt ext k).2 = false := by
  unfold stopAt
  have : 0 ≤ k + 1 := by omega
  simp only [this, if_true]
  have hlt : (k + 1).toNat < ext.size := by omega
  simp [Array.getElem?_eq_getElem hlt]

/-- the walker invariant needed for safety: the block has `numStops + 2` entries -/
def Walker.BlockOk (w : Walker) : Prop := w.ext.size = w.numStops + 2

theorem walkerInit_blockOk (rep : Repeat) (stops : Array Stop) : (walkerInit rep stops).BlockOk := by
  simp [Walker.BlockOk, walkerInit, extStops_size]

theorem walkerReset_ext (w : Walker) (pos : Int) :
    (walkerReset w pos).ext = w.ext ∧ (walkerReset w pos).numStops = w.numStops ∧ (walkerReset w pos).rep = w.rep :=
  ⟨rfl, rfl, rfl⟩

theorem resetSel_oob (w : Walker) (pos : Int) (h : w.BlockOk) : (resetSel w pos).oob = false := by
  have hn := searchFrom_le' w.ext w.numStops (foldPos w.rep pos) 0 (Nat.zero_le _)
  have h1 := stopAt_in w.ext ((searchFrom w.ext w.numStops (foldPos w.rep pos) 0 : Nat) - 1) (by omega)
    (by unfold Walker.BlockOk at h; omega)
  have h2 := stopAt_in w.ext (searchFrom w.ext w.numStops (foldPos w.rep pos) 0 : Nat) (by omega)
    (by unfold Walker.BlockOk at h; omega)
  unfold resetSel
  simp only []
  split
  · simp [h1, h2]
  · split <;> simp [h1, h2]
  · split
    · simp [h1, h2]
    · split <;> simp [h1, h2]
  · simp [h1, h2]

theorem walkerReset_oob (w : Walker) (pos : Int) (h : w.BlockOk) : (walkerReset w pos).oob = w.oob := by
  have := resetSel_oob w pos h
  simp [walkerReset, this]

theorem walkerSeek_inv (w : Walker) (x : Int) (h : w.BlockOk) :
    (walkerSeek w x).BlockOk ∧ (walkerSeek w x).oob = w.oob := by
  unfold walkerSeek
  split
  · refine ⟨?_, walkerReset_oob w x h⟩
    exact h
  · exact ⟨h, rfl⟩

theorem rowNarrow_oob (w : Walker) (ps : List Px) (h : w.BlockOk) : (rowNarrow w ps).1.oob = w.oob := by
  induction ps generalizing w with
  | nil => simp [rowNarrow]
  | cons p r ih =>
    cases p with
    | clear => simp only [rowNarrow]; exact ih w h
    | pos t =>
      simp only [rowNarrow, walkerPixel32]
      have := walkerSeek_inv w t h
      rw [ih _ this.1, this.2]

theorem rowWide_oob (w : Walker) (ps : List Px) (h : w.BlockOk) : (rowWide w ps).1.oob = w.oob := by
  induction ps generalizing w with
  | nil => simp [rowWide]
  | cons p r ih =>
    cases p with
    | clear => simp only [rowWide]; exact ih w h
    | pos t =>
      simp only [rowWide, walkerPixelFloat]
      have := walkerSeek_inv w t h
      rw [ih _ this.1, this.2]

end Pixman.Model.Gradient

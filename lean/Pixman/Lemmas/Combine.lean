import Pixman.Lemmas.Lanes
import Pixman.Model.Combine32
/-! Channel-level rewriting rules for the `UN8x4_*` macros and the mask helpers of
`pixman-combine32.c`: `chan c (macro args) = scalar expression` and `macro args < 2^32`. -/
namespace Pixman.Lemmas
open Pixman.Arith Pixman.Lanes Pixman.Spec Pixman.Combine32

theorem chan_le (c : Chan) (x : Nat) : chan c x ≤ 255 := by
  cases c <;> simp only [chan] <;> omega

theorem ofChannels_eq (f : Chan → Nat) : ofChannels f = pack4 (f .a) (f .r) (f .g) (f .b) := rfl

theorem chan_pack4 (c : Chan) (a r g b : Nat) (ha : a ≤ 255) (hr : r ≤ 255) (hg : g ≤ 255)
    (hb : b ≤ 255) :
    chan c (pack4 a r g b) = (match c with | .a => a | .r => r | .g => g | .b => b) := by
  cases c
  · exact cA_pack4 a r g b ha hr hg hb
  · exact cR_pack4 a r g b hr hg hb
  · exact cG_pack4 a r g b hg hb
  · exact cB_pack4 a r g b hb

theorem chan_ofChannels (f : Chan → Nat) (hf : ∀ c, f c ≤ 255) (c : Chan) :
    chan c (ofChannels f) = f c := by
  rw [ofChannels_eq, chan_pack4 c _ _ _ _ (hf _) (hf _) (hf _) (hf _)]
  cases c <;> rfl

theorem ofChannels_lt (f : Chan → Nat) (hf : ∀ c, f c ≤ 255) : ofChannels f < 4294967296 :=
  pack4_lt _ _ _ _ (hf _) (hf _) (hf _) (hf _)

theorem ofChannels_chan (x : Nat) (hx : x < 4294967296) : ofChannels (fun c => chan c x) = x :=
  pack4_chans x hx

/-- two 32-bit words with the same channels are equal -/
theorem eq_of_chan_eq (x y : Nat) (hx : x < 4294967296) (hy : y < 4294967296)
    (h : ∀ c, chan c x = chan c y) : x = y := by
  rw [← ofChannels_chan x hx, ← ofChannels_chan y hy]
  simp only [h]

theorem chan_zero (c : Chan) : chan c 0 = 0 := by cases c <;> rfl
theorem chan_ones (c : Chan) : chan c 4294967295 = 255 := by cases c <;> rfl

/-! ### scalar helpers -/

theorem alpha8_eq (x : Nat) (hx : x < 4294967296) : alpha8 x = chan .a x := by
  simp only [alpha8, chan, Nat.shiftRight_eq_div_pow, Nat.reducePow]; omega

theorem shr24_eq (x : Nat) (hx : x < 4294967296) : x >>> 24 = chan .a x := alpha8_eq x hx

theorem not32_lt (x : Nat) : not32 x < 4294967296 := by unfold not32; omega

theorem chan_not32 (c : Chan) (x : Nat) (hx : x < 4294967296) :
    chan c (not32 x) = 255 - chan c x := by
  have e : x % 4294967296 = x := Nat.mod_eq_of_lt hx
  unfold not32
  rw [e]
  clear e
  cases c <;> simp only [chan] <;> omega

theorem not32_eq_zero (x : Nat) (hx : x < 4294967296) (h : not32 x = 0) : x = 4294967295 := by
  have e : x % 4294967296 = x := Nat.mod_eq_of_lt hx
  unfold not32 at h
  rw [e] at h
  clear e
  omega

theorem not32_eq_ones (x : Nat) (h : not32 x = 4294967295) : x % 4294967296 = 0 := by
  unfold not32 at h; omega

set_option maxRecDepth 8192 in
theorem xor_ff : ∀ a, a < 256 → a ^^^ 0xff = 255 - a := by decide

/-- `x |= x << 8; x |= x << 16` replicates a byte into the four channels -/
theorem replicate_byte (x : Nat) (hx : x ≤ 255) :
    (x ||| ((x <<< 8) % 4294967296)) ||| (((x ||| ((x <<< 8) % 4294967296)) <<< 16) % 4294967296)
      = pack4 x x x x := by
  simp only [Nat.shiftLeft_eq, Nat.reducePow]
  have e1 : x * 256 % 4294967296 = x * 256 := by apply Nat.mod_eq_of_lt; omega
  rw [e1, or_shift8 x x (by omega)]
  have e2 : (x * 256 + x) * 65536 % 4294967296 = (x * 256 + x) * 65536 := by
    apply Nat.mod_eq_of_lt; omega
  rw [e2, Nat.or_comm, or_pack (x * 256 + x) (x * 256 + x) (by omega)]
  unfold pack pack4
  omega

/-! ### channel rules for the macros -/

section macros
variable (c : Chan)

theorem chan_mulUn8 (x a : Nat) (ha : a ≤ 255) :
    chan c (un8x4MulUn8 x a) = rnd (chan c x) a := by
  rw [un8x4MulUn8_eq x a ha]
  exact chan_ofChannels (fun c => rnd (chan c x) a) (fun c => rnd_le _ _ (chan_le c x) ha) c

theorem lt_mulUn8 (x a : Nat) (ha : a ≤ 255) : un8x4MulUn8 x a < 4294967296 := by
  rw [un8x4MulUn8_eq x a ha]
  exact ofChannels_lt (fun c => rnd (chan c x) a) (fun c => rnd_le _ _ (chan_le c x) ha)

theorem chan_mulUn8x4 (x a : Nat) :
    chan c (un8x4MulUn8x4 x a) = rnd (chan c x) (chan c a) := by
  rw [un8x4MulUn8x4_eq x a]
  exact chan_ofChannels (fun c => rnd (chan c x) (chan c a))
    (fun c => rnd_le _ _ (chan_le c x) (chan_le c a)) c

theorem lt_mulUn8x4 (x a : Nat) : un8x4MulUn8x4 x a < 4294967296 := by
  rw [un8x4MulUn8x4_eq x a]
  exact ofChannels_lt (fun c => rnd (chan c x) (chan c a))
    (fun c => rnd_le _ _ (chan_le c x) (chan_le c a))

theorem chan_addUn8x4 (x y : Nat) :
    chan c (un8x4AddUn8x4 x y) = sat (chan c x) (chan c y) := by
  rw [un8x4AddUn8x4_eq x y]
  exact chan_ofChannels (fun c => sat (chan c x) (chan c y)) (fun _ => sat_le _ _) c

theorem lt_addUn8x4 (x y : Nat) : un8x4AddUn8x4 x y < 4294967296 := by
  rw [un8x4AddUn8x4_eq x y]
  exact ofChannels_lt (fun c => sat (chan c x) (chan c y)) (fun _ => sat_le _ _)

theorem chan_mulUn8Add (x a y : Nat) (ha : a ≤ 255) :
    chan c (un8x4MulUn8AddUn8x4 x a y) = sat (rnd (chan c x) a) (chan c y) := by
  rw [un8x4MulUn8AddUn8x4_eq x a y ha]
  exact chan_ofChannels (fun c => sat (rnd (chan c x) a) (chan c y)) (fun _ => sat_le _ _) c

theorem lt_mulUn8Add (x a y : Nat) (ha : a ≤ 255) : un8x4MulUn8AddUn8x4 x a y < 4294967296 := by
  rw [un8x4MulUn8AddUn8x4_eq x a y ha]
  exact ofChannels_lt (fun c => sat (rnd (chan c x) a) (chan c y)) (fun _ => sat_le _ _)

theorem chan_mulUn8AddMulUn8 (x a y b : Nat) (ha : a ≤ 255) (hb : b ≤ 255) :
    chan c (un8x4MulUn8AddUn8x4MulUn8 x a y b) = sat (rnd (chan c x) a) (rnd (chan c y) b) := by
  rw [un8x4MulUn8AddUn8x4MulUn8_eq x a y b ha hb]
  exact chan_ofChannels (fun c => sat (rnd (chan c x) a) (rnd (chan c y) b))
    (fun _ => sat_le _ _) c

theorem lt_mulUn8AddMulUn8 (x a y b : Nat) (ha : a ≤ 255) (hb : b ≤ 255) :
    un8x4MulUn8AddUn8x4MulUn8 x a y b < 4294967296 := by
  rw [un8x4MulUn8AddUn8x4MulUn8_eq x a y b ha hb]
  exact ofChannels_lt (fun c => sat (rnd (chan c x) a) (rnd (chan c y) b)) (fun _ => sat_le _ _)

theorem chan_mulUn8x4Add (x a y : Nat) :
    chan c (un8x4MulUn8x4AddUn8x4 x a y) = sat (rnd (chan c x) (chan c a)) (chan c y) := by
  rw [un8x4MulUn8x4AddUn8x4_eq x a y]
  exact chan_ofChannels (fun c => sat (rnd (chan c x) (chan c a)) (chan c y))
    (fun _ => sat_le _ _) c

theorem lt_mulUn8x4Add (x a y : Nat) : un8x4MulUn8x4AddUn8x4 x a y < 4294967296 := by
  rw [un8x4MulUn8x4AddUn8x4_eq x a y]
  exact ofChannels_lt (fun c => sat (rnd (chan c x) (chan c a)) (chan c y)) (fun _ => sat_le _ _)

theorem chan_mulUn8x4AddMulUn8 (x a y b : Nat) (hb : b ≤ 255) :
    chan c (un8x4MulUn8x4AddUn8x4MulUn8 x a y b)
      = sat (rnd (chan c x) (chan c a)) (rnd (chan c y) b) := by
  rw [un8x4MulUn8x4AddUn8x4MulUn8_eq x a y b hb]
  exact chan_ofChannels (fun c => sat (rnd (chan c x) (chan c a)) (rnd (chan c y) b))
    (fun _ => sat_le _ _) c

theorem lt_mulUn8x4AddMulUn8 (x a y b : Nat) (hb : b ≤ 255) :
    un8x4MulUn8x4AddUn8x4MulUn8 x a y b < 4294967296 := by
  rw [un8x4MulUn8x4AddUn8x4MulUn8_eq x a y b hb]
  exact ofChannels_lt (fun c => sat (rnd (chan c x) (chan c a)) (rnd (chan c y) b))
    (fun _ => sat_le _ _)

end macros

/-! ### mask helpers -/

theorem chan_combineMask (c : Chan) (s m : Nat) (hm : m < 4294967296) :
    chan c (combineMask s (some m)) = rnd (chan c s) (chan .a m) := by
  unfold combineMask
  simp only []
  rw [shr24_eq m hm]
  split
  · next h => rw [h, rnd_zero, chan_zero]
  · exact chan_mulUn8 c s _ (chan_le .a m)

theorem lt_combineMask (s : Nat) (mask : Option Nat) (hs : s < 4294967296)
    (hm : ∀ m, mask = some m → m < 4294967296) : combineMask s mask < 4294967296 := by
  unfold combineMask
  cases mask with
  | none => exact hs
  | some m =>
    simp only []
    rw [shr24_eq m (hm m rfl)]
    split
    · omega
    · exact lt_mulUn8 s _ (chan_le .a m)

theorem chan_pack4_same (c : Chan) (x : Nat) (hx : x ≤ 255) : chan c (pack4 x x x x) = x := by
  rw [chan_pack4 c x x x x hx hx hx hx]; cases c <;> rfl

theorem combineMaskCa_spec (s m : Nat) (hs : s < 4294967296) (hm : m < 4294967296) :
    (∀ c, chan c (combineMaskCa s m).1 = rnd (chan c s) (chan c m)) ∧
    (∀ c, chan c (combineMaskCa s m).2 = rnd (chan c m) (chan .a s)) ∧
    (combineMaskCa s m).1 < 4294967296 ∧ (combineMaskCa s m).2 < 4294967296 := by
  unfold combineMaskCa
  simp only []
  split
  · next h =>
    subst h
    refine ⟨fun c => ?_, fun c => ?_, by omega, by omega⟩
    · simp [chan_zero, rnd_zero]
    · simp [chan_zero, rnd_zero_left]
  · split
    · next h =>
      subst h
      rw [shr24_eq s hs, replicate_byte _ (chan_le .a s)]
      refine ⟨fun c => ?_, fun c => ?_, hs, pack4_lt _ _ _ _ (chan_le _ _) (chan_le _ _) (chan_le _ _) (chan_le _ _)⟩
      · rw [chan_ones, rnd_255]
      · rw [chan_ones, rnd_255_left, chan_pack4_same c _ (chan_le .a s)]
    · have hxa : (s >>> 24) % 65536 = chan .a s := by
        rw [shr24_eq s hs]; have := chan_le .a s; omega
      rw [hxa]
      refine ⟨fun c => chan_mulUn8x4 c s m, fun c => chan_mulUn8 c m _ (chan_le .a s),
        lt_mulUn8x4 s m, lt_mulUn8 m _ (chan_le .a s)⟩

theorem chan_combineMaskValueCa (c : Chan) (s m : Nat) :
    chan c (combineMaskValueCa s m) = rnd (chan c s) (chan c m) := by
  unfold combineMaskValueCa
  simp only []
  split
  · next h => subst h; simp [chan_zero, rnd_zero]
  · split
    · next h => subst h; rw [chan_ones, rnd_255]
    · exact chan_mulUn8x4 c s m

theorem lt_combineMaskValueCa (s m : Nat) (hs : s < 4294967296) :
    combineMaskValueCa s m < 4294967296 := by
  unfold combineMaskValueCa
  simp only []
  split
  · omega
  · split
    · exact hs
    · exact lt_mulUn8x4 s m

theorem chan_combineMaskAlphaCa (c : Chan) (s m : Nat) (hs : s < 4294967296) :
    chan c (combineMaskAlphaCa s m) = rnd (chan c m) (chan .a s) := by
  unfold combineMaskAlphaCa
  simp only []
  rw [shr24_eq s hs]
  split
  · next h => subst h; simp [chan_zero, rnd_zero_left]
  · split
    · next h => rw [h, rnd_255]
    · split
      · next h =>
        subst h
        rw [replicate_byte _ (chan_le .a s), chan_ones, rnd_255_left,
          chan_pack4_same c _ (chan_le .a s)]
      · exact chan_mulUn8 c m _ (chan_le .a s)

theorem lt_combineMaskAlphaCa (s m : Nat) (hs : s < 4294967296) (hm : m < 4294967296) :
    combineMaskAlphaCa s m < 4294967296 := by
  unfold combineMaskAlphaCa
  simp only []
  rw [shr24_eq s hs]
  split
  · exact hm
  · split
    · exact hm
    · split
      · rw [replicate_byte _ (chan_le .a s)]
        exact pack4_lt _ _ _ _ (chan_le _ _) (chan_le _ _) (chan_le _ _) (chan_le _ _)
      · exact lt_mulUn8 m _ (chan_le .a s)

end Pixman.Lemmas

namespace Pixman.Lemmas
open Pixman.Arith Pixman.Lanes Pixman.Spec Pixman.Combine32

theorem chan_combineMask' (c : Chan) (s : Nat) (mask : Option Nat)
    (hm : ∀ m, mask = some m → m < 4294967296) :
    chan c (combineMask s mask) = maskedU c s mask := by
  cases mask with
  | none => rfl
  | some m => exact chan_combineMask c s m (hm m rfl)

theorem maskedU_le (c : Chan) (s : Nat) (mask : Option Nat) : maskedU c s mask ≤ 255 := by
  cases mask with
  | none => exact chan_le c s
  | some m => exact rnd_le _ _ (chan_le c s) (chan_le .a m)

theorem channel_le (op : Op) (s sa d da : Nat) : channel op s sa d da ≤ 255 := by
  unfold channel; omega

end Pixman.Lemmas

import Pixman.Lemmas.RegionBands
/-! FIND_BAND on canonical lists; COALESCE keeps the output canonical and adds exactly the band. -/
set_option linter.unusedSimpArgs false
set_option linter.unusedVariables false
namespace Pixman.Region

/-! ### FIND_BAND -/

theorem splitBandGo_append (y : Int) (l1 l2 : List Box) (h1 : ∀ b ∈ l1, b.y1 = y)
    (h2 : ∀ b, l2.head? = some b → b.y1 ≠ y) : splitBandGo y (l1 ++ l2) = (l1, l2) := by
  induction l1 with
  | nil =>
    cases l2 with
    | nil => rfl
    | cons c t => simp only [List.nil_append, splitBandGo, h2 c rfl, if_false]
  | cons a t ih =>
    have := ih (fun b hb => h1 b (List.mem_cons_of_mem _ hb))
    simp only [List.cons_append, splitBandGo, h1 a (List.mem_cons_self), if_true, this]

theorem IsBand'.ne_nil {b : Band'} (h : IsBand' b) : b.2.2 ≠ [] := h.1
theorem IsBand'.lt {b : Band'} (h : IsBand' b) : b.1 < b.2.1 := h.2.1
theorem IsBand'.sep {b : Band'} (h : IsBand' b) : SpansSep b.2.2 := h.2.2.2

theorem flat_head_y1 {bs : List Band'} (h : BandsOK bs) (c : Box) (hc : (flat' bs).head? = some c) :
    ∃ b t, bs = b :: t ∧ c.y1 = b.1 ∧ c.y2 = b.2.1 := by
  cases bs with
  | nil => simp [flat_nil'] at hc
  | cons b t =>
    have hb := ((bandsOK_cons' _ _).1 h).1
    refine ⟨b, t, rfl, ?_⟩
    rw [flat_cons'] at hc
    cases hl : b.2.2 with
    | nil => exact absurd hl hb.ne_nil
    | cons d ds =>
      rw [hl] at hc
      simp only [List.cons_append, List.head?_cons, Option.some.injEq] at hc
      subst hc
      exact hb.allY d (by rw [hl]; exact List.mem_cons_self)

theorem splitBand_flat {b : Band'} {bs : List Band'} (h : BandsOK (b :: bs)) :
    splitBand (flat' (b :: bs)) = (b.2.2, flat' bs) := by
  have ⟨hb, hadj, hbs⟩ := (bandsOK_cons' _ _).1 h
  rw [flat_cons']
  cases hl : b.2.2 with
  | nil => exact absurd hl hb.ne_nil
  | cons d ds =>
    have hall := hb.allY
    rw [hl] at hall
    have hd := (allY_cons.1 hall).1.1
    simp only [List.cons_append, splitBand]
    rw [splitBandGo_append d.y1 ds (flat' bs)]
    · intro e he; rw [hd]; exact ((allY_cons.1 hall).2 e he).1
    · intro c hc
      obtain ⟨b', t, rfl, e1, _⟩ := flat_head_y1 hbs c hc
      have := (hadj b' rfl).1
      have := hb.lt
      omega

theorem headY1_flat {b : Band'} {bs : List Band'} (h : BandsOK (b :: bs)) :
    headY1 (flat' (b :: bs)) = b.1 := by
  have hb := ((bandsOK_cons' _ _).1 h).1
  rw [flat_cons']
  cases hl : b.2.2 with
  | nil => exact absurd hl hb.ne_nil
  | cons d ds => exact (hb.allY d (by rw [hl]; exact List.mem_cons_self)).1

theorem headY2_flat {b : Band'} {bs : List Band'} (h : BandsOK (b :: bs)) :
    headY2 (flat' (b :: bs)) = b.2.1 := by
  have hb := ((bandsOK_cons' _ _).1 h).1
  rw [flat_cons']
  cases hl : b.2.2 with
  | nil => exact absurd hl hb.ne_nil
  | cons d ds => exact (hb.allY d (by rw [hl]; exact List.mem_cons_self)).2

theorem flat_cons_ne_nil {b : Band'} {bs : List Band'} (h : BandsOK (b :: bs)) :
    flat' (b :: bs) ≠ [] := by
  have hb := ((bandsOK_cons' _ _).1 h).1
  rw [flat_cons']
  intro e
  exact hb.ne_nil (List.append_eq_nil_iff.1 e).1

theorem flat_length_lt {b : Band'} {bs : List Band'} (h : BandsOK (b :: bs)) :
    (flat' bs).length < (flat' (b :: bs)).length := by
  have hb := ((bandsOK_cons' _ _).1 h).1
  rw [flat_cons', List.length_append]
  have := List.length_pos_iff.2 hb.ne_nil
  omega

/-! ### same spans -/

theorem sameSpans_iff' (a b : List Box) : sameSpans a b = true ↔ SameSpans a b := by
  induction a generalizing b with
  | nil => cases b <;> simp [sameSpans, SameSpans]
  | cons x xs ih =>
    cases b with
    | nil => simp [sameSpans, SameSpans]
    | cons y ys => simp [sameSpans, SameSpans, ih, and_assoc]

theorem SameSpans.length_eq {a b : List Box} (h : SameSpans a b) : a.length = b.length := by
  induction a generalizing b with
  | nil => cases b with
    | nil => rfl
    | cons y ys => exact absurd h (by simp [SameSpans])
  | cons x xs ih =>
    cases b with
    | nil => exact absurd h (by simp [SameSpans])
    | cons y ys => simp only [SameSpans] at h; simp [ih h.2.2]

theorem SameSpans.inSpans {a b : List Box} (h : SameSpans a b) (x : Int) :
    InSpans a x ↔ InSpans b x := by
  induction a generalizing b with
  | nil => cases b with
    | nil => exact Iff.rfl
    | cons y ys => exact absurd h (by simp [SameSpans])
  | cons x' xs ih =>
    cases b with
    | nil => exact absurd h (by simp [SameSpans])
    | cons y ys =>
      simp only [SameSpans] at h
      rw [inSpans_cons', inSpans_cons', ih h.2.2, h.1, h.2.1]

/-- `f` keeps the horizontal extent of every box -/
def KeepsX' (f : Box → Box) : Prop := ∀ b, (f b).x1 = b.x1 ∧ (f b).x2 = b.x2

theorem sameSpans_map_right' {f : Box → Box} (hf : KeepsX' f) (a b : List Box) :
    SameSpans a (b.map f) ↔ SameSpans a b := by
  induction a generalizing b with
  | nil => cases b <;> simp [SameSpans]
  | cons x xs ih =>
    cases b with
    | nil => simp [SameSpans]
    | cons y ys => simp only [List.map_cons, SameSpans, ih, (hf y).1, (hf y).2]

theorem sameSpans_map_left {f : Box → Box} (hf : KeepsX' f) (a b : List Box) :
    SameSpans (a.map f) b ↔ SameSpans a b := by
  induction a generalizing b with
  | nil => cases b <;> simp [SameSpans]
  | cons x xs ih =>
    cases b with
    | nil => simp [SameSpans]
    | cons y ys => simp only [List.map_cons, SameSpans, ih, (hf x).1, (hf x).2]

theorem sep_map {f : Box → Box} (hf : KeepsX' f) (v : Int) (l : List Box) :
    Sep v (l.map f) ↔ Sep v l := by
  induction l generalizing v with
  | nil => simp [Sep]
  | cons a t ih => simp only [List.map_cons, Sep, ih, (hf a).1, (hf a).2]

theorem spansSep_map' {f : Box → Box} (hf : KeepsX' f) (l : List Box) :
    SpansSep (l.map f) ↔ SpansSep l := by
  simp only [spansSep_iff, sep_map hf]

theorem inSpans_map {f : Box → Box} (hf : KeepsX' f) (l : List Box) (x : Int) :
    InSpans (l.map f) x ↔ InSpans l x := by
  induction l with
  | nil => simp [inSpans_nil']
  | cons a t ih => simp only [List.map_cons, inSpans_cons', ih, (hf a).1, (hf a).2]


theorem SameSpans.congr_left {a b : List Box} (h : SameSpans a b) (c : List Box) :
    SameSpans a c ↔ SameSpans b c := by
  induction a generalizing b c with
  | nil => cases b with
    | nil => exact Iff.rfl
    | cons y ys => exact absurd h (by simp [SameSpans])
  | cons x xs ih =>
    cases b with
    | nil => exact absurd h (by simp [SameSpans])
    | cons y ys =>
      simp only [SameSpans] at h
      cases c with
      | nil => simp [SameSpans]
      | cons z zs => simp only [SameSpans, ih h.2.2 zs, h.1, h.2.1]

theorem sameSpans_refl_map {f : Box → Box} (hf : KeepsX' f) (l : List Box) :
    SameSpans (l.map f) l := by
  induction l with
  | nil => trivial
  | cons a t ih => exact ⟨(hf a).1, (hf a).2, ih⟩

/-! ### the output under construction -/

/-- `o` holds a canonical list all of whose bands end at or above `lim`; when the previous band
    was closed (`prev = []`) they end strictly above `lim`. -/
def OutOK (o : Out) (lim : Int) : Prop :=
  ∃ bs : List Band', o.done.reverse = flat' bs ∧
    (o.prev = [] → BandsOK bs ∧ ∀ b ∈ bs, b.2.1 < lim) ∧
    (o.prev ≠ [] → ∃ y1 y2, BandsOK (bs ++ [(y1, y2, o.prev)]) ∧ y2 ≤ lim)

theorem OutOK.mono {o : Out} {lim lim' : Int} (h : OutOK o lim) (hl : lim ≤ lim') :
    OutOK o lim' := by
  obtain ⟨bs, hd, h1, h2⟩ := h
  refine ⟨bs, hd, fun e => ?_, fun e => ?_⟩
  · have ⟨a, b⟩ := h1 e
    exact ⟨a, fun c hc => by have := b c hc; omega⟩
  · obtain ⟨y1, y2, a, b⟩ := h2 e
    exact ⟨y1, y2, a, by omega⟩

theorem OutOK.init (lim : Int) : OutOK ⟨[], []⟩ lim :=
  ⟨[], rfl, fun _ => ⟨bandsOK_nil, fun b hb => by cases hb⟩, fun h => absurd rfl h⟩

/-- the band list behind an `OutOK` output -/
theorem OutOK.bands {o : Out} {lim : Int} (h : OutOK o lim) :
    ∃ bs, BandsOK bs ∧ o.toList = flat' bs ∧ (∀ b ∈ bs, b.2.1 ≤ lim) ∧
      (o.prev ≠ [] → ∃ l, bs.getLast? = some l ∧ l.2.2 = o.prev) := by
  obtain ⟨bs, hd, h1, h2⟩ := h
  by_cases e : o.prev = []
  · have ⟨a, b⟩ := h1 e
    refine ⟨bs, a, by simp [Out.toList, hd, e], fun c hc => by have := b c hc; omega,
      fun h => absurd e h⟩
  · obtain ⟨y1, y2, a, b⟩ := h2 e
    refine ⟨bs ++ [(y1, y2, o.prev)], a, by simp [Out.toList, hd, flat_append', flat_cons', flat_nil'],
      ?_, fun _ => ⟨(y1, y2, o.prev), by simp, rfl⟩⟩
    intro c hc
    rcases List.mem_append.1 hc with hc | hc
    · have := bandsOK_snoc_y2_le a c hc
      have := ((bandsOK_snoc' _ _).1 a).2.1.lt
      simp only at *
      omega
    · simp only [List.mem_singleton] at hc
      subst hc; exact b

theorem OutOK.canon {o : Out} {lim : Int} (h : OutOK o lim) : CanonList o.toList := by
  obtain ⟨bs, a, b, _⟩ := h.bands
  exact ⟨bs, a, b⟩

theorem OutOK.memL_lt {o : Out} {lim : Int} (h : OutOK o lim) {x y : Int}
    (hm : MemL o.toList x y) : y < lim := by
  obtain ⟨bs, a, b, c, _⟩ := h.bands
  rw [b] at hm
  obtain ⟨d, hd, _, h2, _⟩ := (memL_flat' a x y).1 hm
  have := c d hd
  omega

theorem keepsX_setY2 (v : Int) : KeepsX' (fun r : Box => { r with y2 := v }) := fun _ => ⟨rfl, rfl⟩

theorem coalesce_spec (o : Out) (cur : List Box) (t b lim : Int) (ho : OutOK o lim)
    (hlt : lim ≤ t) (htb : t < b) (hY : AllY t b cur) (hS : SpansSep cur) :
    OutOK (coalesce o cur) b ∧
    (∀ x y, MemL (coalesce o cur).toList x y ↔ MemL o.toList x y ∨ (t ≤ y ∧ y < b ∧ InSpans cur x)) ∧
    (cur ≠ [] → (coalesce o cur).prev ≠ [] ∧ SameSpans (coalesce o cur).prev cur ∧
      ∀ p ∈ (coalesce o cur).prev, p.y2 = b) := by
  obtain ⟨bs, hd, hnil, hcons⟩ := ho
  cases cur with
  | nil =>
    refine ⟨?_, ?_, fun h => absurd rfl h⟩
    · by_cases e : o.prev = []
      · have ⟨h1, h2⟩ := hnil e
        refine ⟨bs, by simp [coalesce, e, hd], fun _ => ⟨h1, fun c hc => ?_⟩, fun h => absurd rfl h⟩
        have := h2 c hc; omega
      · obtain ⟨y1, y2, h1, h2⟩ := hcons e
        refine ⟨bs ++ [(y1, y2, o.prev)], by simp [coalesce, hd, flat_append', flat_cons', flat_nil'],
          fun _ => ⟨h1, fun c hc => ?_⟩, fun h => absurd rfl h⟩
        rcases List.mem_append.1 hc with hc | hc
        · have := bandsOK_snoc_y2_le h1 c hc
          have := ((bandsOK_snoc' _ _).1 h1).2.1.lt
          simp only at *
          omega
        · simp only [List.mem_singleton] at hc
          subst hc; simp only; omega
    · intro x y
      simp [coalesce, Out.toList, inSpans_nil']
  | cons c cs =>
    have hband : IsBand' (t, b, c :: cs) := ⟨List.cons_ne_nil _ _, htb, hY, hS⟩
    have hmem := memL_of_allY hY
    cases hp : o.prev with
    | nil =>
      have ⟨h1, h2⟩ := hnil hp
      have hco : coalesce o (c :: cs) = ⟨o.done, c :: cs⟩ := by simp [coalesce, hp]
      rw [hco]
      refine ⟨⟨bs, hd, fun h => absurd h (List.cons_ne_nil _ _), fun _ => ⟨t, b, ?_, Int.le_refl _⟩⟩,
        ?_, fun _ => ⟨List.cons_ne_nil _ _, ?_, fun p hp => (hY p hp).2⟩⟩
      · refine (bandsOK_snoc' _ _).2 ⟨h1, hband, fun a ha => ⟨?_, fun e => ?_⟩⟩
        · have := h2 a (List.mem_of_getLast? ha); simp only; omega
        · have := h2 a (List.mem_of_getLast? ha); simp only at e; omega
      · intro x y
        simp only [Out.toList, hp, List.append_nil, memL_append', hmem]
      · exact (sameSpans_iff' _ _).1 (by
          have : ∀ l : List Box, sameSpans l l = true := by
            intro l; induction l with
            | nil => rfl
            | cons a t ih => simp [sameSpans, ih]
          exact this _)
    | cons p ps =>
      have hne : o.prev ≠ [] := by rw [hp]; exact List.cons_ne_nil _ _
      obtain ⟨y1, y2, h1, h2⟩ := hcons hne
      have ⟨hB, hP, hadj⟩ := (bandsOK_snoc' _ _).1 h1
      have hPy := hP.allY
      simp only at hPy
      have hpy2 : p.y2 = y2 := (hPy p (by rw [hp]; exact List.mem_cons_self)).2
      have hcy1 : c.y1 = t := (hY c List.mem_cons_self).1
      have hcy2 : c.y2 = b := (hY c List.mem_cons_self).2
      have hmemP := memL_of_allY hPy
      by_cases hc : (o.prev.length = (c :: cs).length && p.y2 == c.y1 && sameSpans o.prev (c :: cs)) = true
      · have hco : coalesce o (c :: cs) = ⟨o.done, o.prev.map fun r => { r with y2 := c.y2 }⟩ := by
          simp only [coalesce, hp]; rw [hp] at hc; simp only [hc, if_true]
        simp only [Bool.and_eq_true, decide_eq_true_eq, beq_iff_eq] at hc
        obtain ⟨⟨hlen, hy⟩, hss⟩ := hc
        have hss := (sameSpans_iff' _ _).1 hss
        have hkx := keepsX_setY2 c.y2
        have hyt : y2 = t := by omega
        have hY' : AllY y1 b (o.prev.map fun r => { r with y2 := c.y2 }) := by
          intro q hq
          obtain ⟨q', hq', rfl⟩ := List.mem_map.1 hq
          exact ⟨(hPy q' hq').1, hcy2⟩
        have hne' : (o.prev.map fun r : Box => { r with y2 := c.y2 }) ≠ [] := by
          rw [hp]; simp
        rw [hco]
        refine ⟨⟨bs, hd, fun h => absurd h hne', fun _ => ⟨y1, b, ?_, Int.le_refl _⟩⟩, ?_,
          fun _ => ⟨hne', ?_, fun q hq => (hY' q hq).2⟩⟩
        · refine (bandsOK_snoc' _ _).2 ⟨hB, ⟨hne', ?_, hY', (spansSep_map' hkx _).2 hP.sep⟩,
            fun a ha => ⟨(hadj a ha).1, fun e => ?_⟩⟩
          · have := hP.lt; simp only at this ⊢; omega
          · simp only [sameSpans_map_right' hkx]
            exact (hadj a ha).2 e
        · intro x y
          have := hP.lt
          simp only at this
          simp only [Out.toList, memL_append', hmem, hmemP, memL_of_allY hY', inSpans_map hkx,
            hss.inSpans x]
          by_cases hA : InSpans (c :: cs) x <;> simp only [hA, and_true, and_false, or_false] <;>
          by_cases hD : MemL o.done.reverse x y <;> simp only [hD, true_or, false_or] <;> omega
        · exact (SameSpans.congr_left (sameSpans_refl_map hkx o.prev) _).2 hss
      · have hco : coalesce o (c :: cs) = ⟨o.prev.reverse ++ o.done, c :: cs⟩ := by
          simp only [coalesce, hp]; rw [hp] at hc; simp only [hc]; rfl
        rw [hco]
        refine ⟨⟨bs ++ [(y1, y2, o.prev)], by simp [hd, flat_append', flat_cons', flat_nil'],
          fun h => absurd h (List.cons_ne_nil _ _), fun _ => ⟨t, b, ?_, Int.le_refl _⟩⟩,
          ?_, fun _ => ⟨List.cons_ne_nil _ _, ?_, fun p hp => (hY p hp).2⟩⟩
        · refine (bandsOK_snoc' _ _).2 ⟨h1, hband, fun a ha => ?_⟩
          simp only [List.getLast?_append, List.getLast?_singleton, Option.some_or,
            Option.some.injEq] at ha
          subst ha
          refine ⟨by simp only; omega, fun e hss => hc ?_⟩
          simp only at e hss
          simp only [Bool.and_eq_true, decide_eq_true_eq, beq_iff_eq]
          exact ⟨⟨hss.length_eq, by omega⟩, (sameSpans_iff' _ _).2 hss⟩
        · intro x y
          simp only [Out.toList, List.reverse_append, List.reverse_reverse, memL_append', hmem,
            or_assoc]
        · exact (sameSpans_iff' _ _).1 (by
            have : ∀ l : List Box, sameSpans l l = true := by
              intro l; induction l with
              | nil => rfl
              | cons a t ih => simp [sameSpans, ih]
            exact this _)

end Pixman.Region

import Pixman.Model.FetchFast
import Pixman.Props.C04Core
import Pixman.Lemmas.Matrix
import Pixman.Lemmas.FetchProj
import Pixman.Lemmas.ExtentPad
import Pixman.Props.C04
/-! C08 (specialised paths): the scanline functions of FAST_NEAREST as index sequences. -/
namespace Pixman.Lemmas.FetchFast
open Pixman.Sample Pixman.Matrix Pixman.Model.Fetch Pixman.Model.FetchFast Pixman.Model.Extent
open Pixman.Lemmas.ExtentPad

theorem wrapDown_spec (x swf : Int) (hs : 0 < swf) :
    wrapDown x swf = if x < 0 then x else x % swf - swf := by
  fun_induction wrapDown x swf with
  | case1 x h ih =>
    rw [ih]
    have hx : ¬ x < 0 := by omega
    simp only [hx, ↓reduceIte]
    split
    · rename_i h1
      rw [Int.emod_eq_of_lt (by omega) (by omega)]
    · rw [Int.sub_emod_right]
  | case2 x h =>
    have hx : x < 0 := by omega
    simp only [hx, ↓reduceIte]

/-- no NORMAL wrap, no `int32_t` wrap at the pixels actually read: offset `i` is `⌊(vx + i·unit_x)/65536⌋` -/
theorem scanline_plain (swf ux : Int) (n : Nat) (v : Int) (h : ∀ k : Nat, k < n → isI32 (v + k * ux)) :
    nearestScanline false swf ux n v = (List.range n).map fun (i : Nat) => fixedToInt (v + i * ux) := by
  induction n generalizing v with
  | zero => rfl
  | succ m ih =>
    rw [nearestScanline, List.range_succ_eq_map, List.map_cons, List.map_map]
    simp only [Bool.false_eq_true, ↓reduceIte, Int.natCast_zero, Int.zero_mul, Int.add_zero]
    congr 1
    cases m with
    | zero => rfl
    | succ m' =>
      have h1 := h 1 (by omega)
      simp only [Int.natCast_one, Int.one_mul] at h1
      rw [wrapS32_of_range _ h1, ih (v + ux) (fun k hk => by
        have := h (k + 1) (by omega)
        rw [Int.natCast_add, Int.add_mul] at this
        simp only [Int.natCast_one, Int.one_mul] at this
        have e : v + ux + (k : Int) * ux = v + ((k : Int) * ux + ux) := by omega
        rw [e]; exact this)]
      apply List.map_congr_left
      intro i _
      simp only [Function.comp, Nat.succ_eq_add_one, Int.natCast_add, Int.natCast_one, Int.add_mul, Int.one_mul]
      congr 1; omega

/-- the pad calls: `vx = -pixman_fixed_e`, `unit_x = 0`: always offset −1 -/
theorem scanline_const (swf : Int) (n : Nat) : nearestScanline false swf 0 n (-1) = List.replicate n (-1) := by
  induction n with
  | zero => rfl
  | succ m ih =>
    rw [nearestScanline]
    simp only [Bool.false_eq_true, ↓reduceIte, Int.add_zero]
    have : wrapS32 (-1) = -1 := by decide
    rw [this, ih]
    rfl

/-- NORMAL: starting inside `[-swf, 0)` the offsets are those of the coordinate reduced modulo the
    image width, shifted by `-swf` (the caller passes `src + width`) -/
theorem scanline_normal (swf ux : Int) (hs : 0 < swf ∧ swf ≤ 2147483648) (hux : 0 < ux ∧ ux ≤ 2147483647)
    (n : Nat) (v : Int) (hv : -swf ≤ v ∧ v < 0) :
    nearestScanline true swf ux n v =
      (List.range n).map fun (i : Nat) => fixedToInt ((v + swf + i * ux) % swf - swf) := by
  induction n generalizing v with
  | zero => rfl
  | succ m ih =>
    rw [nearestScanline, List.range_succ_eq_map, List.map_cons, List.map_map]
    simp only [↓reduceIte, Int.natCast_zero, Int.zero_mul, Int.add_zero]
    have e0 : (v + swf) % swf = v + swf := Int.emod_eq_of_lt (by omega) (by omega)
    rw [e0]
    congr 1
    · congr 1; omega
    · have hw : wrapS32 (v + ux) = v + ux := wrapS32_of_range _ (by omega)
      have hv' : wrapDown (v + ux) swf = (v + ux + swf) % swf - swf := by
        rw [wrapDown_spec _ _ hs.1]
        split
        · rw [Int.emod_eq_of_lt (by omega) (by omega)]; omega
        · rw [← Int.emod_eq_add_self_emod]
      rw [hw, hv']
      have hm := Int.emod_nonneg (v + ux + swf) (by omega : swf ≠ 0)
      have hm2 := Int.emod_lt_of_pos (v + ux + swf) hs.1
      rw [ih _ (by omega)]
      apply List.map_congr_left
      intro i _
      simp only [Function.comp, Nat.succ_eq_add_one, Int.natCast_add, Int.natCast_one]
      congr 2
      have : (v + ux + swf) % swf - swf + swf + (i : Int) * ux = (v + ux + swf) % swf + (i : Int) * ux := by omega
      rw [this, Int.emod_add_emod]
      congr 1
      rw [Int.add_mul]; omega

/-! ### taps per repeat mode -/

theorem tap_none (b : Bits) (hr : b.rep = .none) (x y : Int) :
    tap b x y = if 0 ≤ x ∧ x < b.width ∧ 0 ≤ y ∧ y < b.height then b.fetch x y else 0 := by
  unfold tap getPixel
  by_cases h : 0 ≤ x ∧ x < b.width ∧ 0 ≤ y ∧ y < b.height
  · have h' : ¬ (x < 0 ∨ x ≥ b.width ∨ y < 0 ∨ y ≥ b.height) := by omega
    simp [hr, h, h']
  · have h' : (x < 0 ∨ x ≥ b.width ∨ y < 0 ∨ y ≥ b.height) := by omega
    simp [hr, h, h']

theorem tap_pad (b : Bits) (hr : b.rep = .pad) (x y : Int) :
    tap b x y = b.fetch (CLIP x 0 (b.width - 1)) (CLIP y 0 (b.height - 1)) := by
  unfold tap getPixel repeatCoord «repeat»
  simp [hr]

theorem tap_normal (b : Bits) (hr : b.rep = .normal) (hw : 0 < b.width) (hh : 0 < b.height) (x y : Int) :
    tap b x y = b.fetch (x % b.width) (y % b.height) := by
  unfold tap getPixel repeatCoord
  rw [hr, Pixman.Props.C04Core.repeat_normal_spec x _ hw, Pixman.Props.C04Core.repeat_normal_spec y _ hh]
  simp [Pixman.Spec.Repeat.normal]

/-- inside the image every repeat mode reads the pixel itself -/
theorem tap_inside (b : Bits) (x y : Int) (hx : 0 ≤ x ∧ x < b.width) (hy : 0 ≤ y ∧ y < b.height) :
    tap b x y = b.fetch x y := by
  cases hr : b.rep with
  | none => rw [tap_none b hr]; simp [hx, hy]
  | pad => rw [tap_pad b hr]; unfold CLIP; congr 1 <;> (split <;> (try split) <;> omega)
  | normal =>
    rw [tap_normal b hr (by omega) (by omega), Int.emod_eq_of_lt hx.1 hx.2, Int.emod_eq_of_lt hy.1 hy.2]
  | reflect =>
    unfold tap getPixel repeatCoord
    rw [hr, Pixman.Props.C04Core.repeat_reflect_spec x _ (by omega), Pixman.Props.C04Core.repeat_reflect_spec y _ (by omega)]
    unfold Pixman.Spec.Repeat.reflect
    have e1 : x % (2 * b.width) = x := Int.emod_eq_of_lt hx.1 (by omega)
    have e2 : y % (2 * b.height) = y := Int.emod_eq_of_lt hy.1 (by omega)
    simp [e1, e2, hx.2, hy.2]

/-! ### the middle call: `scanline_func (dst + left_pad, src + width, width, vx - src_width_fixed, unit_x, …)` -/

theorem fixedToInt_shift (c W : Int) : W + fixedToInt (c - W * 65536) = fixedToInt c := by
  unfold fixedToInt; omega

/-- all coordinates inside `[0, width·65536)`: the call reads `src[⌊c_k⌋]`, `c_k = vx + k·unit_x` -/
theorem middle_plain (b : Bits) (hW : 0 < b.width ∧ b.width ≤ 32767) (y vx ux : Int) (w : Nat)
    (hin : ∀ k : Nat, k < w → 0 ≤ vx + k * ux ∧ vx + k * ux < b.width * 65536) :
    ((nearestScanline false (intToFixed b.width) ux w (wrapS32 (vx - intToFixed b.width))).map
        fun x => b.fetch (b.width + x) y) =
      (List.range w).map fun (k : Nat) => b.fetch (fixedToInt (vx + k * ux)) y := by
  have hswf : intToFixed b.width = b.width * 65536 := by
    unfold intToFixed; exact wrapS32_of_range _ (by omega)
  rw [hswf]
  cases w with
  | zero => rfl
  | succ m =>
    have h0 := hin 0 (by omega)
    simp only [Int.natCast_zero, Int.zero_mul, Int.add_zero] at h0
    rw [wrapS32_of_range _ (by omega), scanline_plain _ _ _ _ (fun k hk => by
      have := hin k hk
      have e : vx - b.width * 65536 + (k : Int) * ux = vx + (k : Int) * ux - b.width * 65536 := by omega
      rw [e]; unfold isI32; omega)]
    rw [List.map_map]
    apply List.map_congr_left
    intro k _
    simp only [Function.comp]
    have e : vx - b.width * 65536 + (k : Int) * ux = vx + (k : Int) * ux - b.width * 65536 := by omega
    rw [e, fixedToInt_shift]

/-- NORMAL: `vx` already reduced into `[0, width·65536)`; the call reads `src[⌊c_k⌋ mod width]` -/
theorem middle_normal (b : Bits) (hW : 0 < b.width ∧ b.width ≤ 32767) (y vx ux : Int) (w : Nat)
    (hux : 0 < ux ∧ ux ≤ 2147483647) (hv : 0 ≤ vx ∧ vx < b.width * 65536) :
    ((nearestScanline true (intToFixed b.width) ux w (wrapS32 (vx - intToFixed b.width))).map
        fun x => b.fetch (b.width + x) y) =
      (List.range w).map fun (k : Nat) => b.fetch (fixedToInt (vx + k * ux) % b.width) y := by
  have hswf : intToFixed b.width = b.width * 65536 := by
    unfold intToFixed; exact wrapS32_of_range _ (by omega)
  rw [hswf, wrapS32_of_range _ (by omega),
      scanline_normal _ _ (by omega) hux _ _ (by omega), List.map_map]
  apply List.map_congr_left
  intro k _
  simp only [Function.comp]
  have e : vx - b.width * 65536 + b.width * 65536 + (k : Int) * ux = vx + (k : Int) * ux := by omega
  rw [e, fixedToInt_shift]
  congr 1
  unfold fixedToInt
  exact Pixman.Lemmas.FetchProj.emod_mul_ediv _ _ hW.1

/-! ### pad_repeat_get_scanline_bounds: the right pad lies beyond the image -/

theorem mul_mono (a c u : Int) (h : a ≤ c) (hu : 0 ≤ u) : a * u ≤ c * u :=
  Int.mul_le_mul_of_nonneg_right h hu

/-- complement of `Props.C04.pad_bounds`: EVERY left-pad pixel has a negative coordinate and EVERY
    right-pad pixel a coordinate at or beyond `source_width·65536` -/
theorem pad_outside (srcW vx ux width : Int) (hux : 0 < ux) (hw : 0 ≤ width ∧ width ≤ 2147483647) :
    let r := padRepeatGetScanlineBounds srcW vx ux width
    (∀ k : Int, 0 ≤ k → k < r.2.1 → vx + k * ux < 0) ∧
    (∀ k : Int, r.2.1 + r.1 ≤ k → k < width → srcW * 65536 ≤ vx + k * ux) := by
  have pb := Pixman.Props.C04.pad_bounds srcW vx ux width hux hw
  simp only at pb
  obtain ⟨p1, p2, p3, p4, _, p6⟩ := pb
  have hl := padLeft_spec vx ux width hux hw
  simp only at hl
  constructor
  · intro k k0 k1
    have h1 := p6 (by omega)
    have h2 := mul_mono k ((padRepeatGetScanlineBounds srcW vx ux width).2.1 - 1) ux (by omega) (by omega)
    omega
  · revert p1 p2 p3 p4 p6
    unfold padRepeatGetScanlineBounds
    simp only
    generalize padLeft vx ux width = lw at *
    obtain ⟨l, w1⟩ := lw
    simp only at hl ⊢
    obtain ⟨l0, w0, lsum, _, _, _⟩ := hl
    generalize hN : ux - 1 - vx + srcW * 65536 = N
    rcases (by omega : N < 0 ∨ 0 ≤ N) with hneg | hpos
    · intro q1 q2 _ _ _ k hk1 hk2
      have hk0 : 0 ≤ k := by omega
      have := Int.mul_nonneg hk0 (by omega : 0 ≤ ux)
      omega
    · rw [tdiv_nonneg_eq N ux hpos]
      have hq := ediv_bounds N ux hux
      generalize N / ux = q at *
      have beyond : ∀ k : Int, q ≤ k → srcW * 65536 ≤ vx + k * ux := by
        intro k hk
        have := mul_mono q k ux hk (by omega)
        omega
      split
      · simp only; intro _ _ _ _ _ k hk1 hk2; exact beyond k (by omega)
      · split
        · simp only; intro _ _ _ _ _ k hk1 hk2; omega
        · rename_i h1 h2
          rw [wrapS32_of_range (q - l) (by omega), wrapS32_of_range (w1 - (q - l)) (by omega)]
          simp only
          intro _ _ _ _ _ k hk1 hk2
          exact beyond k (by omega)

end Pixman.Lemmas.FetchFast

import Pixman.Model.Lifetime
/-! Specification vocabulary of C20, independent of how the library counts: who refers to an image. -/
namespace Pixman.Spec.Lifetime
open Pixman.Model.Lifetime

/-- image `i` exists and its struct has not been freed -/
def Allocated (h : Heap) (i : Nat) : Prop := i < h.nimg ∧ (h.img i).freed = 0

instance (h : Heap) (i : Nat) : Decidable (Allocated h i) := by unfold Allocated; exact inferInstance

/-- somebody still refers to image `i`: the client holds a reference, or an allocated image has it as
    alpha map, or a glyph-cache entry owns it -/
def Referenced (h : Heap) (i : Nat) : Prop :=
  0 < h.ext i ∨ (∃ p, Allocated h p ∧ (h.img p).alphaMap = some i) ∨
  (∃ c g, h.cache = some c ∧ g ∈ c.entries ∧ g.image = i)

/-- a block of an owning field was handed out and freed exactly once -/
def Cell.FreedOnce (c : Cell) (g : Nat) : Prop := g < c.allocated ∧ c.frees g = 1

/-- the owning fields of an image -/
def cells (im : Image) : List Cell := [im.freeMe, im.transform, im.filterParams, im.clipData, im.stops]

end Pixman.Spec.Lifetime

import Pixman.Spec.Repeat
import Pixman.Spec.FixedRound
/-!
  Spec of transformed sampling (C08), independent of the fetchers' code.

  Positions are rationals with denominator 65536 written as their numerator `X` (so `x = X / 65536`
  pixels, `e = 1/65536` is one unit); the exact image of a pixel centre under a matrix row
  `(a b c)` (entries in 16.16) is `dot a b c cx cy 65536 / 2^32` with `cx = 65536·x + 32768` the
  centre in 16.16 — `Spec.Fixed.dot` — and the position used is that value rounded ONCE to the
  nearest 1/65536 (ties up): `round16`.
-/
namespace Pixman.Spec.Sampling
open Pixman.Spec.Fixed

/-- the repeat modes on ℤ: `none` = outside under NONE (transparent) -/
inductive Mode where
  | none | normal | pad | reflect
deriving DecidableEq, Repr

def mapCoord (m : Mode) (c size : Int) : Option Int :=
  match m with
  | .none => if 0 ≤ c ∧ c < size then some c else Option.none
  | .normal => some (Pixman.Spec.Repeat.normal c size)
  | .pad => some (Pixman.Spec.Repeat.pad c size)
  | .reflect => some (Pixman.Spec.Repeat.reflect c size)

/-- the pixel an integer coordinate pair denotes: transparent black where NONE maps it outside -/
def pixelAt (m : Mode) (width height : Int) (img : Int → Int → Nat) (x y : Int) : Nat :=
  match mapCoord m x width, mapCoord m y height with
  | some x', some y' => img x' y'
  | _, _ => 0

/-- position of the image of a point whose exact homogeneous numerator is `N` (units 2^-32):
    rounded once to 1/65536, ties towards +∞ -/
def round16 (N : Int) : Int := roundHalfUp N 65536

/-- 16.16 centre of pixel `i` -/
def centre (i : Int) : Int := i * 65536 + 32768

/-- NEAREST: `⌊x − e⌋` -/
def nearestIndex (X : Int) : Int := (X - 1) / 65536

/-- BILINEAR: first tap `⌊x − ½⌋` (the second is the next pixel) -/
def bilinearIndex (X : Int) : Int := (X - 32768) / 65536
/-- BILINEAR: 7-bit weight of the second tap, `⌊frac (x − ½) · 128⌋`, in 1/256 (i.e. doubled) -/
def bilinearWeight (X : Int) : Int := 2 * (((X - 32768) % 65536) / 512)

/-- BILINEAR: one channel: `(Σ tap · weight) >> 16`, the four weights being the products of
    `256 − d`, `d` per axis (they sum to 2^16) -/
def bilinearChannel (tl tr bl br : Nat) (dx dy : Nat) : Nat :=
  (tl * ((256 - dx) * (256 - dy)) + tr * (dx * (256 - dy)) + bl * ((256 - dx) * dy) + br * (dx * dy)) / 65536

/-- CONVOLUTION (rounding.txt): index of the first pixel under a kernel of width `w`:
    `k = ⌊x − (w − 1)/2 − e⌋` -/
def convFirst (X w : Int) : Int := (X - 1 - (w - 1) * 32768) / 65536

/-- SEPARABLE_CONVOLUTION (rounding.txt): `x` is first rounded to the middle of one of `2^bits`
    subpixel phases: phase number `⌊frac (x) · 2^bits⌋` … -/
def phase (X : Int) (bits : Nat) : Int := (X % 65536) / 2 ^ (16 - bits)
/-- … and the rounded position (`bits ≤ 15`) -/
def phaseCentre (X : Int) (bits : Nat) : Int := (X / 2 ^ (16 - bits)) * 2 ^ (16 - bits) + 2 ^ (16 - bits) / 2

/-- result of a weighted channel sum (weights in 16.16): rounded to nearest (ties up), clamped to a byte -/
def reduceChannel (sum : Int) : Int :=
  let v := (sum + 32768) / 65536
  if v < 0 then 0 else if v > 255 then 255 else v

end Pixman.Spec.Sampling

/-! # Specification vocabulary for C18 (separable-convolution filter tables), independent of the model's algorithm. -/
namespace Pixman.Spec.Filter

/-- `w` is `⌈rw + a·sw / 65536⌉` (`a` = |scale| in 1/65536 units): the least integer not below the real value -/
def IsCeilWidth (rw sw a w : Nat) : Prop :=
  rw * 65536 + a * sw ≤ w * 65536 ∧ w * 65536 < rw * 65536 + a * sw + 65536

instance (rw sw a w : Nat) : Decidable (IsCeilWidth rw sw a w) := by unfold IsCeilWidth; infer_instance

/-- `x` is `⌈(2i+1)/(2n) − w/2 − 1/2⌉`: the least integer with `2n·x ≥ (2i+1) − w·n − n` -/
def IsFirstTap (w n i : Nat) (x : Int) : Prop :=
  (2 * (i : Int) + 1) - w * n - n ≤ 2 * n * x ∧ 2 * n * (x - 1) < (2 * (i : Int) + 1) - w * n - n

/-- a value representable as `int32_t` -/
def InI32 (v : Int) : Prop := -2147483648 ≤ v ∧ v < 2147483648

instance (v : Int) : Decidable (InI32 v) := by unfold InI32; infer_instance

/-- sum of `n` values starting at index `k` -/
def sumFrom (vals : Nat → Int) : (k n : Nat) → Int
  | _, 0 => 0
  | k, n + 1 => vals k + sumFrom vals (k + 1) n

def sumList : List Int → Int
  | [] => 0
  | a :: r => a + sumList r

/-- pixman_fixed_1 -/
def one : Int := 65536

end Pixman.Spec.Filter

import Pixman.Model.Threads
import Pixman.Gen.Globals
/-! Specification side of C16.

* "every thread obtains exactly the result it would obtain running alone": `AsAlone`.
* which objects with static storage duration are compatible with concurrent drawing: `GlobalClass`
  and `accepts` — the hypothesis of the determinism theorem (process-wide locations are never written
  by a drawing request; the fast-path cache is per thread) stated on the attributes that
  tools/gen_globals.py extracts from the source. -/
namespace Pixman.Spec.Threads
open Pixman.Model.Threads

/-- every thread's observations in the interleaved execution are those of its program run alone
    from the same initial state -/
def AsAlone (es : List Event) (σ : State) : Prop :=
  ∀ t, observe t es σ = observe t (solo t es) σ

/-- why a non-const object with static storage duration cannot be the subject of a data race between
    drawing requests -/
inductive GlobalClass where
  /-- `__thread` (PIXMAN_DEFINE_THREAD_LOCAL): one instance per thread -/
  | threadLocal
  /-- written only by functions that are reachable only from the library constructor
      (`__attribute__((constructor))`: runs before `main`, hence before any thread draws); read-only
      afterwards -/
  | initOnce
  /-- no function writes it or lets its address escape -/
  | neverWritten
  /-- written only by the named exported set-up entry points, which are not drawing requests
      (the caller must invoke them before threads draw) -/
  | setupApi
  /-- written only by the diagnostic path of erroneous calls (`_pixman_log_error`), value used only to
      stop printing after ten messages -/
  | diagnostic
  deriving DecidableEq, Repr

/-- one row of the hand-written classification table -/
structure Entry where
  name : String
  tu : String
  func : String
  cls : GlobalClass
  /-- `initOnce`: functions the conservative extractor lists as writers because they pass the address
      on, although they only read; `setupApi` / `diagnostic`: the complete list of permitted writers -/
  allowed : List String
  why : String

def Entry.matches (e : Entry) (g : Pixman.Gen.Globals.Global) : Bool :=
  e.name == g.name && e.tu == g.tu && e.func == g.func

/-- the attributes extracted from the source agree with the class claimed for the object -/
def accepts (ctor : Bool) (table : List Entry) (g : Pixman.Gen.Globals.Global) : Bool :=
  g.isConst ||
  match table.find? (·.matches g) with
  | none => false
  | some e =>
    match e.cls with
    | .threadLocal => g.isTLS
    | .initOnce => !g.isTLS && ctor && g.writers.all (fun w => w.2 || e.allowed.contains w.1)
    | .neverWritten => !g.isTLS && g.writers.isEmpty
    | .setupApi => !g.isTLS && g.writers.all (fun w => e.allowed.contains w.1)
    | .diagnostic => !g.isTLS && g.writers.all (fun w => e.allowed.contains w.1)

end Pixman.Spec.Threads

/-!
  Specification used by C12/R6: the Porter-Duff operators 0…12 on one 8-bit channel,
  `result = min (255, s·Fa + d·Fb)` with the exact rounding product `MUL_UN8`
  (`t = a·b + 0x80; ((t >> 8) + t) >> 8`, i.e. round (a·b / 255)).  Short and independent of the
  compositing code; C01 owns the full statement about the combiners.
-/
namespace Pixman.Spec.ZeroSrc

inductive Factor where
  | zero | one | srcA | invSrcA | dstA | invDstA
deriving Repr, DecidableEq

/-- `Fa` of operator `op` (pixman_op_t 0…12) -/
def fa : Nat → Option Factor
  | 0 => some .zero      -- CLEAR
  | 1 => some .one       -- SRC
  | 2 => some .zero      -- DST
  | 3 => some .one       -- OVER
  | 4 => some .invDstA   -- OVER_REVERSE
  | 5 => some .dstA      -- IN
  | 6 => some .zero      -- IN_REVERSE
  | 7 => some .invDstA   -- OUT
  | 8 => some .zero      -- OUT_REVERSE
  | 9 => some .dstA      -- ATOP
  | 10 => some .invDstA  -- ATOP_REVERSE
  | 11 => some .invDstA  -- XOR
  | 12 => some .one      -- ADD
  | _ => none

/-- `Fb` of operator `op` -/
def fb : Nat → Option Factor
  | 0 => some .zero
  | 1 => some .zero
  | 2 => some .one
  | 3 => some .invSrcA
  | 4 => some .one
  | 5 => some .zero
  | 6 => some .srcA
  | 7 => some .zero
  | 8 => some .invSrcA
  | 9 => some .invSrcA
  | 10 => some .srcA
  | 11 => some .invSrcA
  | 12 => some .one
  | _ => none

def mulUn8 (a b : Nat) : Nat := let t := a * b + 128; (t / 256 + t) / 256

def factorVal (f : Factor) (sa da : Nat) : Nat :=
  match f with
  | .zero => 0 | .one => 255 | .srcA => sa | .invSrcA => 255 - sa | .dstA => da | .invDstA => 255 - da

/-- one channel of `op` applied to source `(s, sa)` and destination `(d, da)` -/
def combine (op : Nat) (s sa d da : Nat) : Option Nat :=
  match fa op, fb op with
  | some a, some b => some (min 255 (mulUn8 s (factorVal a sa da) + mulUn8 d (factorVal b sa da)))
  | _, _ => none

end Pixman.Spec.ZeroSrc

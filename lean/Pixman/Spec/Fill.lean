/-! Specification of rectangle fills and copies on a bit-addressed memory (C19).

A buffer is addressed in bits from an origin; a `bpp`-deep pixel with index `p` (counted in units
of `bpp` bits from the origin) occupies bits `[p * bpp, (p + 1) * bpp)`, bit `k` of the pixel value
at bit address `p * bpp + k` (little endian).  `bits` is the word index of the first row, `stride`
the distance between rows in 32-bit words (negative for bottom-up images). -/
namespace Pixman.Spec.Fill

/-- pixel index of the first pixel of row `y + r` of the rectangle -/
def rowStart (bits stride : Int) (bpp : Nat) (x y : Int) (r : Nat) : Int :=
  (bits + (y + r) * stride) * ((32 / bpp : Nat) : Int) + x

/-- pixel index `p` belongs to the `w × h` rectangle at `(x, y)` -/
def InRect (bits stride : Int) (bpp : Nat) (x y : Int) (w h : Nat) (p : Int) : Prop :=
  ∃ r : Nat, r < h ∧ rowStart bits stride bpp x y r ≤ p ∧ p < rowStart bits stride bpp x y r + w

/-- `after` is `before` with exactly the rectangle filled with `value` narrowed to `bpp` bits:
every bit of a pixel of the rectangle is the corresponding bit of `value`, every other bit of the
memory is what it was -/
def FilledExactly (before after : Int → Bool) (bits stride : Int) (bpp : Nat) (x y : Int)
    (w h : Nat) (value : Nat) : Prop :=
  ∀ i : Int,
    (InRect bits stride bpp x y w h (i / bpp) → after i = value.testBit (i % bpp).toNat) ∧
    (¬ InRect bits stride bpp x y w h (i / bpp) → after i = before i)

/-- `after` is the destination `before` with exactly the rectangle copied from `src` (another
buffer): bits outside the destination rectangle are what they were; a bit of destination row `r`
(that no later row of the rectangle overlaps — always so when `|dstride| * 32 ≥ w * bpp`) is the
bit at the same position of source row `r` -/
def CopiedExactly (src before after : Int → Bool) (sbits sstride dbits dstride : Int) (bpp : Nat)
    (sx sy dx dy : Int) (w h : Nat) : Prop :=
  ∀ i : Int,
    (¬ InRect dbits dstride bpp dx dy w h (i / bpp) → after i = before i) ∧
    (∀ r : Nat, r < h →
      (rowStart dbits dstride bpp dx dy r ≤ i / bpp ∧ i / bpp < rowStart dbits dstride bpp dx dy r + w) →
      (∀ r' : Nat, r < r' → r' < h →
        ¬ (rowStart dbits dstride bpp dx dy r' ≤ i / bpp ∧
            i / bpp < rowStart dbits dstride bpp dx dy r' + w)) →
      after i = src (i + (rowStart sbits sstride bpp sx sy r - rowStart dbits dstride bpp dx dy r) * bpp))

/-- byte address `a` belongs to one of `h` rows of `len` bytes starting at `start r` -/
def InByteRows (start : Nat → Int) (len h : Nat) (a : Int) : Prop :=
  ∃ r : Nat, r < h ∧ start r ≤ a ∧ a < start r + len

end Pixman.Spec.Fill

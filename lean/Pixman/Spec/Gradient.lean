/-!
# Specification of gradient colours (C13)

Independent of the model: no sentinels, no search loop, no fixed point.  Positions and channels are
rationals; channels are in `[0, 1]`, not premultiplied.

* `colourAt rep stops t`: apply the repeat mode to `t`, take the two neighbouring stops (last stop
  at or before, first stop strictly after), interpolate linearly in non-premultiplied space,
  premultiply.  Outside the stop range: PAD and REFLECT continue the end colour, NORMAL continues
  periodically (the neighbour is the stop of the adjacent period), NONE is transparent before the
  first stop and at/after the last stop (adopted clarification, DESIGN.md section 7).
* `linearT`: the projection parameter; `IsRadialRoot`, `radialAdmissible`: the two-circle equation
  of PDF type 3 shadings and which of its roots may be used.
-/
namespace Pixman.Spec.Gradient

inductive Repeat where
  | none | normal | pad | reflect
deriving Repr, DecidableEq, Inhabited

/-- non-premultiplied colour -/
structure NColor where
  a : Rat
  r : Rat
  g : Rat
  b : Rat
deriving Repr, DecidableEq, Inhabited

/-- premultiplied colour -/
structure PColor where
  a : Rat
  r : Rat
  g : Rat
  b : Rat
deriving Repr, DecidableEq, Inhabited

def transparent : PColor := ⟨0, 0, 0, 0⟩

structure Stop where
  x : Rat
  c : NColor
deriving Repr, DecidableEq, Inhabited

def premul (c : NColor) : PColor := ⟨c.a, c.a * c.r, c.a * c.g, c.a * c.b⟩

/-- linear interpolation between two stops with `l.x < r.x` -/
def lerp (l r : Stop) (u : Rat) : NColor :=
  let w := (u - l.x) / (r.x - l.x)
  ⟨l.c.a + (r.c.a - l.c.a) * w, l.c.r + (r.c.r - l.c.r) * w,
   l.c.g + (r.c.g - l.c.g) * w, l.c.b + (r.c.b - l.c.b) * w⟩

/-- the last stop at or before `u` -/
def leftOf (stops : List Stop) (u : Rat) : Option Stop := (stops.filter fun s => s.x ≤ u).getLast?
/-- the first stop strictly after `u` -/
def rightOf (stops : List Stop) (u : Rat) : Option Stop := (stops.filter fun s => u < s.x).head?

def shift (s : Stop) (d : Rat) : Stop := { s with x := s.x + d }

/-- the repeat mode applied to the parameter -/
def fold : Repeat → Rat → Rat
  | .normal, t => t - (t.floor : Rat)
  | .reflect, t =>
    let f := t - 2 * ((t / 2).floor : Rat)
    if f ≤ 1 then f else 2 - f
  | _, t => t

/-- the colour of parameter `t` -/
def colourAt (rep : Repeat) (stops : List Stop) (t : Rat) : PColor :=
  let u := fold rep t
  match leftOf stops u, rightOf stops u with
  | some l, some r => premul (lerp l r u)
  | none, some r =>
    match rep with
    | .none => transparent
    | .normal =>
      match stops.getLast? with
      | some last => premul (lerp (shift last (-1)) r u)
      | none => transparent
    | _ => premul r.c
  | some l, none =>
    match rep with
    | .none => transparent
    | .normal =>
      match stops.head? with
      | some first => premul (lerp l (shift first 1) u)
      | none => transparent
    | _ => premul l.c
  | none, none => transparent

/-- non-decreasing positions within `[0, 1]` -/
def WellFormed (stops : List Stop) : Prop :=
  stops ≠ [] ∧ stops.Pairwise (fun s t => s.x ≤ t.x) ∧ ∀ s ∈ stops, 0 ≤ s.x ∧ s.x ≤ 1

/-! ### geometry -/

/-- the parameter of the orthogonal projection of `p` onto the line `p1 p2` (`p1 ≠ p2`) -/
def linearT (p1x p1y p2x p2y px py : Rat) : Rat :=
  ((px - p1x) * (p2x - p1x) + (py - p1y) * (p2y - p1y)) /
    ((p2x - p1x) * (p2x - p1x) + (p2y - p1y) * (p2y - p1y))

/-- `t` solves the two-circle equation for the point `p`: `p` lies on the circle with centre
    `c1 + t (c2 - c1)` and radius `r1 + t (r2 - r1)` (squared form) -/
def IsRadialRoot (c1x c1y r1 c2x c2y r2 px py t : Rat) : Prop :=
  (px - (c1x + t * (c2x - c1x))) * (px - (c1x + t * (c2x - c1x))) +
  (py - (c1y + t * (c2y - c1y))) * (py - (c1y + t * (c2y - c1y))) =
  (r1 + t * (r2 - r1)) * (r1 + t * (r2 - r1))

/-- which parameters may be used: the radius there is not negative; without repeat only `[0, 1]` -/
def radialAdmissible (rep : Repeat) (r1 r2 t : Rat) : Prop :=
  if rep = .none then 0 ≤ t ∧ t ≤ 1 else 0 ≤ r1 + t * (r2 - r1)

instance (rep : Repeat) (r1 r2 t : Rat) : Decidable (radialAdmissible rep r1 r2 t) := by
  unfold radialAdmissible; exact inferInstance

/-- the conical parameter from the angle of the point about the centre: `turn = atan2 (y, x) / 2π`,
    `angle` in degrees; the parameter decreases with the angle and lies in `(0, 1]` -/
def conicalT (turn angleDeg : Rat) : Rat :=
  let t := turn + angleDeg / 360
  1 - (t - (t.floor : Rat))

end Pixman.Spec.Gradient

import Pixman.Model.ImageState
/-!
# Specification of the image property interface: setters are assignments

An image, as the API user sees it, is its creation constants and its current properties; there
is no `dirty` bit and no cached analysis.  A setter call *assigns* (with the documented
normalisation and refusals); drawing changes no property.  What a renderer may use of an image
is `derive` of these properties (`specDerived`).
-/
namespace Pixman.Spec.ImageState
open Pixman.Model.ImageState
open Pixman.Gen.ImageFlags

structure SImage where
  cr : Creation
  props : Props
  alphaCount : Int

abbrev SWorld := Nat → SImage

/-- an identity matrix is the same as no transform -/
def normTransform : Option Transform → Option Transform
  | some t => if t = Transform.id then none else some t
  | none => none

def assign (w : SWorld) (i : Nat) (f : Props → Props) : SWorld :=
  fun k => if k = i then { w i with props := f (w i).props } else w k

/-- documented acceptance of an alpha map: a BITS image, not the image itself, no chains in
either direction -/
def alphaMapAccepted (w : SWorld) (i : Nat) : Option Nat → Prop
  | none => True
  | some j => (w j).cr.kind = .bits ∧ j ≠ i ∧ ¬ (w i).alphaCount > 0 ∧ (w j).props.alphaMap = none

instance (w : SWorld) (i : Nat) (am : Option Nat) : Decidable (alphaMapAccepted w i am) := by
  cases am <;> unfold alphaMapAccepted <;> infer_instance

def sstep (w : SWorld) : Op → SWorld
  | .setTransform i t => assign w i fun p => { p with transform := normTransform t }
  | .setRepeat i r => assign w i fun p => { p with repeat_ := r }
  | .setFilter i f ps n =>
    -- `n_params` counts `params`: a call without parameters that changes neither the filter nor the
    -- (absent) parameters assigns nothing, whatever `n_params` says (nothing reads it without params)
    if ps = none ∧ (w i).props.filterParams = none ∧ f = (w i).props.filter then w
    else if f = PIXMAN_FILTER_SEPARABLE_CONVOLUTION ∧ sepConvParamsOk (ps.getD []) n = false then w
    else assign w i fun p => { p with filter := f, filterParams := ps, nFilterParams := n }
  | .setClipRegion i (some boxes) => assign w i fun p => { p with clipRegion := boxes, haveClip := true }
  | .setClipRegion i none => assign w i fun p => { p with haveClip := false }
  | .setHasClientClip i v => assign w i fun p => { p with clientClip := v }
  | .setSourceClipping i v => assign w i fun p => { p with clipSources := v }
  | .setComponentAlpha i v => assign w i fun p => { p with componentAlpha := v }
  | .setAccessors i r wr =>
    if (w i).cr.kind = .bits ∧ ¬ (fmtBpp (w i).cr.format > 32 ∧ ¬ (r = 0 ∧ wr = 0)) then
      assign w i fun p => { p with readFunc := r, writeFunc := wr }
    else w
  | .setIndexed i pal => assign w i fun p => { p with indexed := pal }
  | .setDither i d => if (w i).cr.kind = .bits then assign w i fun p => { p with dither := d } else w
  | .setDitherOffset i x y =>
    if (w i).cr.kind = .bits then assign w i fun p => { p with ditherOffX := toU32 x, ditherOffY := toU32 y } else w
  | .setAlphaMap i am x y =>
    if alphaMapAccepted w i am then
      let old := (w i).props.alphaMap
      fun k =>
        let im := w k
        let cnt := im.alphaCount - (if old = some k ∧ old ≠ am then 1 else 0) + (if am = some k ∧ old ≠ am then 1 else 0)
        if k = i then { im with props := { im.props with alphaMap := am, alphaOriginX := x, alphaOriginY := y }, alphaCount := cnt }
        else { im with alphaCount := cnt }
    else w
  | .use _ => w

def srun (w : SWorld) : List Op → SWorld
  | [] => w
  | op :: ops => srun (sstep w op) ops

/-- what a renderer may use of image `i` -/
def specDerived (w : SWorld) (i : Nat) : Derived :=
  derive (w i).cr (w i).props ((w i).props.alphaMap.map fun j => (w j).cr.format)

/-- forgetting `dirty` and the cached analysis -/
def toSpec (w : World) : SWorld := fun k => ⟨(w.get k).cr, (w.get k).props, (w.get k).alphaCount⟩

end Pixman.Spec.ImageState

/-! Specification of the Porter-Duff operators and ADD on premultiplied 8-bit channels
(X Render "Compositing Operators" table), independent of the code's packed arithmetic.

* a product of two 8-bit quantities is `x·y/255` rounded to nearest: `rnd x y = ⌊(2xy+255)/510⌋`
  (there is never a tie because 255 is odd);
* every channel (alpha included) of the result is `min 255 (rnd(s·Fa) + rnd(d·Fb))` with the
  factors `Fa` (a function of the destination alpha) and `Fb` (a function of the source alpha)
  from the table below;
* a unified mask multiplies every source channel by the mask's alpha first:
  `s' = rnd(s·mₐ)`;
* a component-alpha mask multiplies channel-wise, `s'_c = rnd(s_c·m_c)`, and the source alpha
  seen by `Fb` becomes per channel `rnd(m_c·sₐ)`.
Core Lean only. -/
namespace Pixman.Spec

/-- `x·y/255` rounded to nearest. -/
def rnd (x y : Nat) : Nat := (2 * (x * y) + 255) / 510

/-- channels of an a8r8g8b8 word -/
inductive Chan | a | r | g | b
  deriving DecidableEq, Repr

/-- channel `c` of a pixel word (alpha in bits 24-31, red 16-23, green 8-15, blue 0-7) -/
def chan (c : Chan) (x : Nat) : Nat :=
  match c with
  | .a => x / 16777216 % 256
  | .r => x / 65536 % 256
  | .g => x / 256 % 256
  | .b => x % 256

/-- the pixel word with the given channels -/
def ofChannels (f : Chan → Nat) : Nat :=
  f .a * 16777216 + f .r * 65536 + f .g * 256 + f .b

/-- The thirteen 8-bit operators, in `pixman_op_t` order. -/
inductive Op
  | clear | src | dst | over | overReverse | in_ | inReverse | out | outReverse
  | atop | atopReverse | xor | add
  deriving DecidableEq, Repr

def Op.code : Op → Nat
  | .clear => 0 | .src => 1 | .dst => 2 | .over => 3 | .overReverse => 4 | .in_ => 5
  | .inReverse => 6 | .out => 7 | .outReverse => 8 | .atop => 9 | .atopReverse => 10
  | .xor => 11 | .add => 12

def Op.all : List Op :=
  [.clear, .src, .dst, .over, .overReverse, .in_, .inReverse, .out, .outReverse,
   .atop, .atopReverse, .xor, .add]

def Op.ofCode? (n : Nat) : Option Op := Op.all.find? (fun o => o.code == n)

/-- a factor of the Render table: 0, 1, the other operand's alpha, or one minus it -/
inductive Factor | zero | one | alpha | invAlpha
  deriving DecidableEq, Repr

/-- value of a factor in units of 1/255, given the other operand's alpha -/
def Factor.eval (f : Factor) (otherAlpha : Nat) : Nat :=
  match f with
  | .zero => 0
  | .one => 255
  | .alpha => otherAlpha
  | .invAlpha => 255 - otherAlpha

/-- `(Fa, Fb)` : `Fa` multiplies the source and depends on the destination alpha,
`Fb` multiplies the destination and depends on the source alpha. -/
def factors : Op → Factor × Factor
  | .clear       => (.zero,     .zero)
  | .src         => (.one,      .zero)
  | .dst         => (.zero,     .one)
  | .over        => (.one,      .invAlpha)
  | .overReverse => (.invAlpha, .one)
  | .in_         => (.alpha,    .zero)
  | .inReverse   => (.zero,     .alpha)
  | .out         => (.invAlpha, .zero)
  | .outReverse  => (.zero,     .invAlpha)
  | .atop        => (.alpha,    .invAlpha)
  | .atopReverse => (.invAlpha, .alpha)
  | .xor         => (.invAlpha, .invAlpha)
  | .add         => (.one,      .one)

/-- one channel for a factor pair: source channel `s` with source alpha `sa`, destination
channel `d` with destination alpha `da`. -/
def channelF (F : Factor × Factor) (s sa d da : Nat) : Nat :=
  min 255 (rnd s (F.1.eval da) + rnd d (F.2.eval sa))

/-- one channel of operator `op`. -/
def channel (op : Op) (s sa d da : Nat) : Nat :=
  min 255 (rnd s ((factors op).1.eval da) + rnd d ((factors op).2.eval sa))

/-- Render factor pairs by `pixman_op_t` number, for every operator whose factors are 0, 1, an
alpha or its complement: the thirteen above and DISJOINT_/CONJOINT_ CLEAR, SRC, DST (which the
Render table defines with the same constant factors as CLEAR, SRC, DST).  `none`: the
operator's factors need a division (SATURATE, the other DISJOINT/CONJOINT operators) or it is
a PDF blend mode. -/
def renderFactors? (code : Nat) : Option (Factor × Factor) :=
  match code with
  | 0x10 | 0x20 => some (.zero, .zero)
  | 0x11 | 0x21 => some (.one, .zero)
  | 0x12 | 0x22 => some (.zero, .one)
  | n => (Op.ofCode? n).map factors

/-- what a factor becomes when the alpha it looks at is known to be 1 -/
def Factor.simplify (f : Factor) (isOpaque : Bool) : Factor :=
  if isOpaque then
    match f with
    | .alpha => .one
    | .invAlpha => .zero
    | f => f
  else f

/-- a factor pair under "source opaque" / "destination opaque": `Fa` looks at the destination
alpha, `Fb` at the source alpha -/
def simplifyPair (F : Factor × Factor) (srcOpaque dstOpaque : Bool) : Factor × Factor :=
  (F.1.simplify dstOpaque, F.2.simplify srcOpaque)

/-- channel `c` of the source after a unified mask (`none`: no mask): `s' = rnd(s·mₐ)`. -/
def maskedU (c : Chan) (s : Nat) (mask : Option Nat) : Nat :=
  match mask with
  | none => chan c s
  | some m => rnd (chan c s) (chan .a m)

/-- unified alpha: channel `c` of the result. -/
def unified (op : Op) (c : Chan) (s : Nat) (mask : Option Nat) (d : Nat) : Nat :=
  channel op (maskedU c s mask) (maskedU .a s mask) (chan c d) (chan .a d)

/-- component alpha: channel `c` of the result. -/
def componentAlpha (op : Op) (c : Chan) (s m d : Nat) : Nat :=
  channel op (rnd (chan c s) (chan c m)) (rnd (chan c m) (chan .a s)) (chan c d) (chan .a d)

/-- PDF blend mode Multiply on premultiplied channels, `(1−dₐ)·s + (1−sₐ)·d + s·d`, each product
rounded to nearest, the sum saturating (the integer rule of the 8-bit pipeline). -/
def multiplyChannel (s sa d da : Nat) : Nat :=
  min 255 (rnd s (255 - da) + rnd d (255 - sa) + rnd d s)

def multiplyUnified (c : Chan) (s : Nat) (mask : Option Nat) (d : Nat) : Nat :=
  multiplyChannel (maskedU c s mask) (maskedU .a s mask) (chan c d) (chan .a d)

def multiplyComponentAlpha (c : Chan) (s m d : Nat) : Nat :=
  multiplyChannel (rnd (chan c s) (chan c m)) (rnd (chan c m) (chan .a s)) (chan c d) (chan .a d)

/-- whole-pixel versions -/
def unifiedPixel (op : Op) (s : Nat) (mask : Option Nat) (d : Nat) : Nat :=
  ofChannels fun c => unified op c s mask d

def componentAlphaPixel (op : Op) (s m d : Nat) : Nat :=
  ofChannels fun c => componentAlpha op c s m d

end Pixman.Spec

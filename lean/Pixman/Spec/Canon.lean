import Pixman.Spec.PointSet
/-! The canonical y-x banded form of C06, as a specification (independent of how it is produced). -/
namespace Pixman.Region

/-- x-order inside a band: every box non-empty in x, consecutive boxes separated by a gap. -/
def SpansSep : List Box → Prop
  | [] => True
  | [a] => a.x1 < a.x2
  | a :: b :: t => a.x1 < a.x2 ∧ a.x2 < b.x1 ∧ SpansSep (b :: t)

/-- `l` is one band with vertical extent `[y1,y2)`. -/
def IsBand (y1 y2 : Int) (l : List Box) : Prop :=
  l ≠ [] ∧ y1 < y2 ∧ (∀ b ∈ l, b.y1 = y1 ∧ b.y2 = y2) ∧ SpansSep l

/-- same x-spans, box by box -/
def SameSpans : List Box → List Box → Prop
  | [], [] => True
  | a :: as, b :: bs => a.x1 = b.x1 ∧ a.x2 = b.x2 ∧ SameSpans as bs
  | _, _ => False

/-- Bands listed top to bottom: each a band, strictly ordered in y, and bands that touch
    vertically have different spans (otherwise they would have been merged). -/
def BandsOK : List (Int × Int × List Box) → Prop
  | [] => True
  | [(y1, y2, l)] => IsBand y1 y2 l
  | (y1, y2, l) :: (y1', y2', l') :: t =>
    IsBand y1 y2 l ∧ y2 ≤ y1' ∧ (y2 = y1' → ¬ SameSpans l l') ∧ BandsOK ((y1', y2', l') :: t)

/-- A rectangle list is canonical iff it is the concatenation of such bands. -/
def CanonList (l : List Box) : Prop :=
  ∃ bs : List (Int × Int × List Box), BandsOK bs ∧ l = (bs.map (·.2.2)).flatten

/-- `e` is the tight bounding box of the non-empty list `l`. -/
def IsBBox (e : Box) (l : List Box) : Prop :=
  (∀ b ∈ l, e.x1 ≤ b.x1 ∧ b.x2 ≤ e.x2 ∧ e.y1 ≤ b.y1 ∧ b.y2 ≤ e.y2) ∧
  (∃ b ∈ l, b.x1 = e.x1) ∧ (∃ b ∈ l, b.x2 = e.x2) ∧ (∃ b ∈ l, b.y1 = e.y1) ∧ (∃ b ∈ l, b.y2 = e.y2)

/-- Canonical region object (C06): single rectangles are stored without a list, lists hold at
    least two rectangles in canonical banded order, extents are the tight bounding box; the
    extents of an empty region are not significant; the broken region is not canonical. -/
def Canon (r : Region) : Prop :=
  match r.data with
  | .single => goodRect r.extents = true
  | .emptyStatic => True
  | .broken => False
  | .heap l => 2 ≤ l.length ∧ CanonList l ∧ IsBBox r.extents l

end Pixman.Region

import Pixman.Model.MatrixQ
import Pixman.Spec.FixedRound
import Pixman.Spec.Matrix
/-! Specification vocabulary for the floating point entry points of C11 (over exact rationals):
    textbook determinant and matrix product, "is the inverse", "nearest 16.16 value".
    Refers to the model only for the data types `FT`, `FV`, `Transform`. -/
namespace Pixman.MatrixQ
open Pixman.Matrix

/-- determinant: cofactor expansion along the first row -/
def detSpec (m : FT) : Rat :=
  m.m00 * (m.m11 * m.m22 - m.m12 * m.m21) - m.m01 * (m.m10 * m.m22 - m.m12 * m.m20) +
  m.m02 * (m.m10 * m.m21 - m.m11 * m.m20)

/-- determinant of a 16.16 matrix in integer arithmetic (units of 2⁻⁴⁸) -/
def detInt (t : Transform) : Int :=
  t.m00 * (t.m11 * t.m22 - t.m12 * t.m21) - t.m01 * (t.m10 * t.m22 - t.m12 * t.m20) +
  t.m02 * (t.m10 * t.m21 - t.m11 * t.m20)

/-- matrix product, row by column -/
def mulSpec (a b : FT) : FT :=
  ⟨a.m00 * b.m00 + a.m01 * b.m10 + a.m02 * b.m20, a.m00 * b.m01 + a.m01 * b.m11 + a.m02 * b.m21,
   a.m00 * b.m02 + a.m01 * b.m12 + a.m02 * b.m22,
   a.m10 * b.m00 + a.m11 * b.m10 + a.m12 * b.m20, a.m10 * b.m01 + a.m11 * b.m11 + a.m12 * b.m21,
   a.m10 * b.m02 + a.m11 * b.m12 + a.m12 * b.m22,
   a.m20 * b.m00 + a.m21 * b.m10 + a.m22 * b.m20, a.m20 * b.m01 + a.m21 * b.m11 + a.m22 * b.m21,
   a.m20 * b.m02 + a.m21 * b.m12 + a.m22 * b.m22⟩

/-- `b` is the two-sided inverse of `a` -/
def IsInverse (a b : FT) : Prop := mulSpec a b = identity ∧ mulSpec b a = identity

/-- the integer `q` (16.16 units) is a nearest 1/65536 to the rational `x`: `|q − 65536·x| ≤ 1/2`
    (written as the half-open interval `floor (· + 1/2)` selects: ties go up) -/
def NearestFixed (q : Int) (x : Rat) : Prop := x * 65536 - 1 / 2 < (q : Rat) ∧ (q : Rat) ≤ x * 65536 + 1 / 2

/-- the range accepted by `pixman_transform_from_pixman_f_transform` -/
def InRange (x : Rat) : Prop := -32767 ≤ x ∧ x ≤ 32767

def FT.All (P : Rat → Prop) (m : FT) : Prop :=
  P m.m00 ∧ P m.m01 ∧ P m.m02 ∧ P m.m10 ∧ P m.m11 ∧ P m.m12 ∧ P m.m20 ∧ P m.m21 ∧ P m.m22

/-- entrywise relation between a 16.16 matrix and a rational matrix -/
def Entrywise (R : Int → Rat → Prop) (t : Transform) (m : FT) : Prop :=
  R t.m00 m.m00 ∧ R t.m01 m.m01 ∧ R t.m02 m.m02 ∧ R t.m10 m.m10 ∧ R t.m11 m.m11 ∧ R t.m12 m.m12 ∧
  R t.m20 m.m20 ∧ R t.m21 m.m21 ∧ R t.m22 m.m22

/-- the box `b` (integer pixel coordinates) contains the rational point `p` -/
def ContainsQ (b : BoxZ) (p : FV) : Prop :=
  (b.x1 : Rat) ≤ p.x ∧ (b.y1 : Rat) ≤ p.y ∧ p.x ≤ (b.x2 : Rat) ∧ p.y ≤ (b.y2 : Rat)

def BoxZ.le (a b : BoxZ) : Prop := b.x1 ≤ a.x1 ∧ b.y1 ≤ a.y1 ∧ a.x2 ≤ b.x2 ∧ a.y2 ≤ b.y2

end Pixman.MatrixQ

/-! Spec of the repeat modes on ℤ (C08): NORMAL = mod, PAD = clamp, REFLECT = mirror. -/
namespace Pixman.Spec.Repeat

/-- NORMAL: Euclidean remainder -/
def normal (c size : Int) : Int := c % size
/-- PAD: clamp into `[0, size-1]` -/
def pad (c size : Int) : Int := if c < 0 then 0 else if c > size - 1 then size - 1 else c
/-- REFLECT: period `2·size`, second half mirrored -/
def reflect (c size : Int) : Int :=
  let m := c % (2 * size)
  if m < size then m else 2 * size - 1 - m

end Pixman.Spec.Repeat

import Pixman.Gen.SampleGrid
/-!
  Specification of trapezoid coverage (C12): an exact sample count.

  * The sample grid of depth `n` has `N_Y_FRAC (n)` rows and `N_X_FRAC (n)` columns per pixel, at
    `Y_FRAC_FIRST + k·STEP_Y_SMALL` and `X_FRAC_FIRST + j·STEP_X_SMALL` (16.16 fixed point).
  * An edge is the straight line through two points with `yTop < yBot`; its abscissa at height `y`
    is the exact rational `xAt y = xTop + (y − yTop)·dx/dy`.
  * Snapping, *as the code defines it*: the edge walker represents the abscissa on the 16.16 lattice
    as `snapX y = ⌊xAt y⌋`, except that an edge running down-right (`dx > 0`) that passes exactly
    through a lattice point at a height where it has made fractional progress is represented by
    `xAt y − 1` (a sample exactly on such an edge is to its right; for all other edges, and at the
    top vertex, a sample exactly on the edge is to its left).  The column test compares the snapped
    abscissa with the column position minus `snapDelta n` (0 for a1, 2 for a4/a8: the
    `+ X_FRAC_FIRST` of `RENDER_SAMPLES_X` moves the thresholds to `X_FRAC_FIRST − 1 + j·STEP`).
  * sample `(col, row)` is inside  ⇔  `top ≤ row < bottom ∧ snapX_l ≤ col − δ < snapX_r`;
    new pixel value = `min (MAX_ALPHA, old + #inside samples of the pixel)`.

  Nothing here refers to the model's algorithm (no stepping, no spans, no clamps).
-/
namespace Pixman.Spec.SampleGrid
open Pixman.Gen.SampleGrid

/-- position of sample row `k` (`k < N_Y_FRAC n`) of pixel row `r` -/
def rowPos (n : Nat) (r : Int) (k : Nat) : Int := r * 65536 + yFracFirst n + (k : Int) * stepYSmall n
/-- nominal position of sample column `j` (`j < N_X_FRAC n`) of pixel column `c` -/
def colPos (n : Nat) (c : Int) (j : Nat) : Int := c * 65536 + xFracFirst n + (j : Int) * stepXSmall n

/-- `y` is a row of the sample grid of depth `n` -/
def IsGridRow (n : Nat) (y : Int) : Prop := ∃ r : Int, ∃ k : Nat, (k : Int) < nYFrac n ∧ y = rowPos n r k

/-- the column snapping offset of the depth -/
def snapDelta (n : Nat) : Int := if n = 1 then 0 else 2

/-- the line through `(xTop, yTop)` and `(xBot, yBot)`, `yTop < yBot` -/
structure EdgeLine where
  xTop : Int
  yTop : Int
  xBot : Int
  yBot : Int
deriving Repr, DecidableEq, Inhabited

/-- exact abscissa of the edge at height `y` -/
def EdgeLine.xAt (l : EdgeLine) (y : Int) : Rat :=
  (l.xTop : Rat) + (((y - l.yTop) * (l.xBot - l.xTop) : Int) : Rat) / ((l.yBot - l.yTop : Int) : Rat)

/-- the abscissa snapped to the 16.16 lattice (see the header) -/
def EdgeLine.snapX (l : EdgeLine) (y : Int) : Int :=
  let dy := l.yBot - l.yTop
  let dx := l.xBot - l.xTop
  let num := (y - l.yTop) * dx
  if dx > 0 ∧ num % dy = 0 ∧ (y - l.yTop) * (dx % dy) ≠ 0 then l.xTop + num / dy - 1
  else l.xTop + num / dy

/-- a trapezoid in image space: rows `top ≤ y < bottom` between two edges -/
structure Shape where
  top : Int
  bottom : Int
  left : EdgeLine
  right : EdgeLine
deriving Repr, DecidableEq, Inhabited

/-- is sample `(c, j)` × `(r, k)` inside the shape? -/
def inside (n : Nat) (s : Shape) (c : Int) (j : Nat) (r : Int) (k : Nat) : Bool :=
  let sy := rowPos n r k
  let sx := colPos n c j - snapDelta n
  decide (s.top ≤ sy ∧ sy < s.bottom ∧ s.left.snapX sy ≤ sx ∧ sx < s.right.snapX sy)

/-- number of samples `j < N_X_FRAC` of pixel column `c` with `lx ≤ col − δ < rx` -/
def rowCount (n : Nat) (lx rx : Int) (c : Int) : Nat :=
  (List.range (nXFrac n).toNat).countP fun j =>
    decide (lx ≤ colPos n c j - snapDelta n ∧ colPos n c j - snapDelta n < rx)

/-- number of grid samples of pixel `(c, r)` inside the shape -/
def pixelCount (n : Nat) (s : Shape) (c r : Int) : Nat :=
  ((List.range (nYFrac n).toNat).map fun k =>
    let sy := rowPos n r k
    if s.top ≤ sy ∧ sy < s.bottom then rowCount n (s.left.snapX sy) (s.right.snapX sy) c else 0).sum

/-- saturating accumulation -/
def pixelValue (n : Nat) (old cnt : Nat) : Nat := min (maxAlpha n).toNat (old + cnt)

/-- the image (rows of pixel values) after adding the coverage of one shape -/
def addShape (n : Nat) (w h : Nat) (img : Array (Array Nat)) (s : Shape) : Array (Array Nat) :=
  (Array.range h).map fun (r : Nat) => (Array.range w).map fun (c : Nat) =>
    pixelValue n ((img[r]?.getD #[])[c]?.getD 0) (pixelCount n s (c : Int) (r : Int))

/-! ### triangles: the triangle's own inside test (no decomposition)

  A sample lies inside the triangle when, on its sample row, it lies between two sides of the
  triangle that cross the row — left inclusive, right exclusive, a side crossing the rows
  `yTop ≤ sy < yBot` (top inclusive, bottom exclusive; a horizontal side crosses none), with the same
  snapped abscissae as for trapezoid edges.  The definition is symmetric in the three vertices. -/

/-- a triangle in image space -/
structure Tri where
  x1 : Int
  y1 : Int
  x2 : Int
  y2 : Int
  x3 : Int
  y3 : Int
deriving Repr, DecidableEq, Inhabited

/-- the side between two vertices as a line oriented downwards (a horizontal one from left to right,
    so that the side does not depend on the order of its end points) -/
def sideOf (ax ay bx by' : Int) : EdgeLine :=
  if ay < by' ∨ (ay = by' ∧ ax ≤ bx) then ⟨ax, ay, bx, by'⟩ else ⟨bx, by', ax, ay⟩

/-- the side crosses the sample row `sy` -/
def EdgeLine.crosses (e : EdgeLine) (sy : Int) : Bool := decide (e.yTop ≤ sy ∧ sy < e.yBot)

/-- the sample at `(sx, sy)` lies between two sides crossing its row -/
def triInside (t : Tri) (sy sx : Int) : Bool :=
  let es := [sideOf t.x1 t.y1 t.x2 t.y2, sideOf t.x2 t.y2 t.x3 t.y3, sideOf t.x3 t.y3 t.x1 t.y1]
  es.any fun a => es.any fun b =>
    a.crosses sy && b.crosses sy && decide (a.snapX sy ≤ sx ∧ sx < b.snapX sy)

/-- number of samples of pixel column `c` on the sample row `sy` inside the triangle -/
def triRowCount (n : Nat) (t : Tri) (sy : Int) (c : Int) : Nat :=
  (List.range (nXFrac n).toNat).countP fun j => triInside t sy (colPos n c j - snapDelta n)

/-- number of grid samples of pixel `(c, r)` inside the triangle -/
def triCount (n : Nat) (t : Tri) (c r : Int) : Nat :=
  ((List.range (nYFrac n).toNat).map fun k => triRowCount n t (rowPos n r k) c).sum

end Pixman.Spec.SampleGrid

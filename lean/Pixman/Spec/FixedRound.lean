/-! Specification vocabulary of C11: exact products and "rounded to the nearest 1/65536".
    Independent of the model (no reference to hi/lo splitting, 128-bit pairs or the C control flow). -/
namespace Pixman.Spec.Fixed
set_option linter.unusedSimpArgs false

def abs (x : Int) : Int := if x < 0 then -x else x

/-- nearest integer to `n / d` for `d > 0`, ties towards +∞ -/
def roundHalfUp (n d : Int) : Int := (2 * n + d) / (2 * d)

/-- nearest integer to `n / d` for `d ≠ 0`, ties away from zero -/
def roundHalfAway (n d : Int) : Int :=
  if (n < 0) = (d < 0) then roundHalfUp (abs n) (abs d) else -roundHalfUp (abs n) (abs d)

/-- `q` is a nearest integer to the rational `n / d` -/
def IsNearest (q n d : Int) : Prop := 2 * abs (n - q * d) ≤ abs d

/-- `q` is within one unit of the rational `n / d` -/
def IsWithinOne (q n d : Int) : Prop := abs (n - q * d) ≤ abs d

/-- `q` is within `1/2 + 2/65536` unit of the rational `n / d`:  `|q − n/d| ≤ 32770/65536`
    (a nearest rounding of a quotient that is itself off by at most 2⁻¹⁵) -/
def IsWithinHalfPlus (q n d : Int) : Prop := 65536 * abs (n - q * d) ≤ 32770 * abs d

/-- the rational `n / d` (`d ≠ 0`) lies in the closed interval `[lo, hi]` -/
def QuotInRange (n d lo hi : Int) : Prop :=
  if 0 < d then lo * d ≤ n ∧ n ≤ hi * d else lo * (-d) ≤ -n ∧ -n ≤ hi * (-d)

/-- representable as `pixman_fixed_t` -/
def Rep32 (x : Int) : Prop := -2147483648 ≤ x ∧ x ≤ 2147483647

theorem roundHalfUp_isNearest (n d : Int) (hd : 0 < d) : IsNearest (roundHalfUp n d) n d := by
  unfold IsNearest roundHalfUp
  have h1 := Int.mul_ediv_add_emod (2 * n + d) (2 * d)
  have h2 := Int.emod_nonneg (2 * n + d) (by omega : 2 * d ≠ 0)
  have h3 := Int.emod_lt_of_pos (2 * n + d) (by omega : 0 < 2 * d)
  generalize (2 * n + d) / (2 * d) = q at *
  generalize (2 * n + d) % (2 * d) = r at *
  have h4 : 2 * d * q = 2 * (q * d) := by rw [Int.mul_assoc, Int.mul_comm d q]
  unfold abs
  split <;> split <;> omega

theorem roundHalfAway_isNearest (n d : Int) (hd : d ≠ 0) : IsNearest (roundHalfAway n d) n d := by
  have h := roundHalfUp_isNearest (abs n) (abs d) (by unfold abs; split <;> omega)
  unfold IsNearest at h ⊢
  unfold roundHalfAway
  generalize roundHalfUp (abs n) (abs d) = q at *
  have e1 : -q * d = -(q * d) := Int.neg_mul _ _
  have e2 : q * -d = -(q * d) := Int.mul_neg _ _
  unfold abs at h ⊢
  by_cases hn : n < 0 <;> by_cases hdn : d < 0 <;>
    simp only [hn, hdn, if_true, if_false, eq_self_iff_true, e1, e2, eq_iff_iff, iff_true, iff_false, true_iff, false_iff,
      not_true_eq_false, not_false_eq_true] at h ⊢ <;>
    (split at h <;> split <;> omega)

/-- exact matrix-vector row: `a·x + b·y + c·z` (product of two 16.16 numbers: 32.32 units) -/
def dot (a b c x y z : Int) : Int := a * x + b * y + c * z

/-- Spec of one entry of a 16.16 matrix product as pixman defines it: the three products, each rounded
    to the nearest 1/65536 (ties up), added (DESIGN 6/C11 M6) -/
def entrySpec (a0 a1 a2 b0 b1 b2 : Int) : Int :=
  roundHalfUp (a0 * b0) 65536 + roundHalfUp (a1 * b1) 65536 + roundHalfUp (a2 * b2) 65536

/-- value and flag produced for an exact quotient `q` by the 48.16 result type: clamped when it does not fit -/
def clamp64 (q : Int) : Int × Bool :=
  if -9223372036854775808 ≤ q ∧ q ≤ 9223372036854775807 then (q, false)
  else (if q ≥ 0 then 9223372036854775807 else -9223372036854775808, true)

end Pixman.Spec.Fixed

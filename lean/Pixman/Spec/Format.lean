/-! Specification vocabulary of C10, independent of the model's algorithm: bit fields, widening by bit
replication written as "the pattern repeated and cut", narrowing as "keep the most significant bits",
and a row of pixels as one little-endian bit stream.  Core Lean only. -/
namespace Pixman.Spec.Format

/-- bits `[s, s+w)` of `p` -/
def field (p s w : Nat) : Nat := (p >>> s) &&& (2 ^ w - 1)

/-- `k` copies of the `n`-bit pattern `c`, most significant first -/
def repeatPattern (c n : Nat) : Nat → Nat
  | 0 => 0
  | k + 1 => (repeatPattern c n k <<< n) ||| c

/-- widening of an `n`-bit level `c` to `m ≥ n` bits by bit replication: enough copies of the pattern,
cut to the `m` most significant bits -/
def widen (c n m : Nat) : Nat :=
  let k := (m + n - 1) / n
  repeatPattern c n k >>> (n * k - m)

/-- narrowing from `n` to `m ≤ n` bits: the `m` most significant bits -/
def narrow (c n m : Nat) : Nat := c >>> (n - m)

/-- pixel `o` of a row of `bpp`-bit pixels; the row's bytes form the little-endian number `row` -/
def pixelAt (row bpp o : Nat) : Nat := field row (o * bpp) bpp

/-- the little-endian number formed by `n` bytes of a memory from address `a` -/
def bytesLE (m : Nat → Nat) (a : Nat) : Nat → Nat
  | 0 => 0
  | n + 1 => m a + 256 * bytesLE m (a + 1) n

/-- channel masks of a pixel layout: shift and width of a, r, g, b -/
structure Chans where
  sa : Nat
  wa : Nat
  sr : Nat
  wr : Nat
  sg : Nat
  wg : Nat
  sb : Nat
  wb : Nat
  deriving Repr, DecidableEq

/-- the bits of a pixel that belong to a channel -/
def Chans.mask (c : Chans) : Nat :=
  ((2 ^ c.wa - 1) <<< c.sa) ||| ((2 ^ c.wr - 1) <<< c.sr) ||| ((2 ^ c.wg - 1) <<< c.sg) ||| ((2 ^ c.wb - 1) <<< c.sb)

/-- two bit ranges do not overlap -/
def disjoint (s w s' w' : Nat) : Bool := decide (s + w ≤ s' ∨ s' + w' ≤ s)

/-- every channel has at most 8 bits, lies inside a 32-bit word, and no two channels overlap -/
def Chans.ok (c : Chans) : Bool :=
  decide (c.wa ≤ 8 ∧ c.wr ≤ 8 ∧ c.wg ≤ 8 ∧ c.wb ≤ 8) &&
  decide (c.sa + c.wa ≤ 32 ∧ c.sr + c.wr ≤ 32 ∧ c.sg + c.wg ≤ 32 ∧ c.sb + c.wb ≤ 32) &&
  disjoint c.sa c.wa c.sr c.wr && disjoint c.sa c.wa c.sg c.wg && disjoint c.sa c.wa c.sb c.wb &&
  disjoint c.sr c.wr c.sg c.wg && disjoint c.sr c.wr c.sb c.wb && disjoint c.sg c.wg c.sb c.wb

/-- the natural layout of a packed format, written independently of `get_shifts`: ARGB counts b, g, r, a upwards
from bit 0; ABGR r, g, b, a upwards; BGRA b, g, r, a downwards from bit `bpp`; RGBA r, g, b, a downwards;
type A has alpha at bit 0.  (types: 1 A, 2 ARGB, 3 ABGR, 8 BGRA, 9 RGBA, 10 ARGB_SRGB) -/
def naturalLayout (type bpp a r g b : Nat) : Chans :=
  if type = 1 then ⟨0, a, 0, r, 0, g, 0, b⟩
  else if type = 2 ∨ type = 10 then ⟨b + g + r, a, b + g, r, b, g, 0, b⟩
  else if type = 3 then ⟨r + g + b, a, 0, r, r, g, r + g, b⟩
  else if type = 8 then ⟨bpp - b - g - r - a, a, bpp - b - g - r, r, bpp - b - g, g, bpp - b, b⟩
  else if type = 9 then ⟨bpp - r - g - b - a, a, bpp - r, r, bpp - r - g, g, bpp - r - g - b, b⟩
  else ⟨0, 0, 0, 0, 0, 0, 0, 0⟩

/-- a8r8g8b8 value of a raw pixel: each channel widened to 8 bits, absent alpha 0xff, absent colour 0 -/
def fetchSpec (c : Chans) (p : Nat) : Nat :=
  ((if c.wa = 0 then 255 else widen (field p c.sa c.wa) c.wa 8) <<< 24) |||
  ((if c.wr = 0 then 0 else widen (field p c.sr c.wr) c.wr 8) <<< 16) |||
  ((if c.wg = 0 then 0 else widen (field p c.sg c.wg) c.wg 8) <<< 8) |||
  ((if c.wb = 0 then 0 else widen (field p c.sb c.wb) c.wb 8) <<< 0)

/-- raw pixel stored for an a8r8g8b8 value: each byte narrowed to the channel's width -/
def storeSpec (c : Chans) (v : Nat) : Nat :=
  (narrow (field v 24 8) 8 c.wa <<< c.sa) ||| (narrow (field v 16 8) 8 c.wr <<< c.sr) |||
  (narrow (field v 8 8) 8 c.wg <<< c.sg) ||| (narrow (field v 0 8) 8 c.wb <<< c.sb)

end Pixman.Spec.Format

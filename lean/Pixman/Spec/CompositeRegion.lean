import Pixman.Model.CompositeRegion
import Pixman.Spec.PointSet
/-! Specification side of C03: the composite region as a point set.

  `R` is the intersection named in the property statement.  `AlphaClips` are the additional
  intersections the code makes with the clip regions of alpha maps (not part of the statement;
  for a destination the code tests `p + origin`, although pixel `p` maps to `p - origin`). -/
namespace Pixman.CompositeRegion
open Pixman.Region

/-- `(x,y)` lies in the rectangle with origin `(x0,y0)` and size `w × h` -/
def InRect (x0 y0 w h : Int) (x y : Int) : Prop := x0 ≤ x ∧ x < x0 + w ∧ y0 ≤ y ∧ y < y0 + h

/-- a clip region counts for a source image only if it was set, source clipping is enabled
    and the clip was set by a client -/
def ImageCore.clipApplies (i : ImageCore) : Prop :=
  i.haveClip = true ∧ i.clipSources = true ∧ i.clientClip = true

/-- request rectangle ∩ destination bounds ∩ destination clip ∩ alpha-map bounds (at its origin)
    ∩ source clip ∩ mask clip (each only if it applies, translated to destination space) -/
def R (src : Image) (mask : Option Image) (dest : Image)
    (srcX srcY maskX maskY destX destY width height : Int) (x y : Int) : Prop :=
  InRect destX destY width height x y ∧
  InRect 0 0 dest.width dest.height x y ∧
  (dest.haveClip = true → dest.clip.Mem x y) ∧
  (∀ a, dest.alphaMap = some a → InRect a.ox a.oy a.img.width a.img.height x y) ∧
  (src.clipApplies → src.clip.Mem (x - (destX - srcX)) (y - (destY - srcY))) ∧
  (∀ m, mask = some m → m.clipApplies → m.clip.Mem (x - (destX - maskX)) (y - (destY - maskY)))

/-- what the code additionally intersects with (clips of alpha maps) -/
def AlphaClips (src : Image) (mask : Option Image) (dest : Image)
    (srcX srcY maskX maskY destX destY : Int) (x y : Int) : Prop :=
  (∀ a, dest.alphaMap = some a → a.img.haveClip = true → a.img.clip.Mem (x + a.ox) (y + a.oy)) ∧
  (∀ a, src.alphaMap = some a → a.img.clipApplies →
    a.img.clip.Mem (x - (destX - (srcX - a.ox))) (y - (destY - (srcY - a.oy)))) ∧
  (∀ m a, mask = some m → m.haveClip = true → m.alphaMap = some a → a.img.clipApplies →
    a.img.clip.Mem (x - (destX - (maskX - a.ox))) (y - (destY - (maskY - a.oy))))

/-- the set the code computes -/
def RCode (src : Image) (mask : Option Image) (dest : Image)
    (srcX srcY maskX maskY destX destY width height : Int) (x y : Int) : Prop :=
  R src mask dest srcX srcY maskX maskY destX destY width height x y ∧
  AlphaClips src mask dest srcX srcY maskX maskY destX destY x y

/-- no alpha map contributes a clip -/
def NoAlphaClips (src : Image) (mask : Option Image) (dest : Image) : Prop :=
  (∀ a, dest.alphaMap = some a → a.img.haveClip = false) ∧
  (∀ a, src.alphaMap = some a → ¬ a.img.clipApplies) ∧
  (∀ m a, mask = some m → m.alphaMap = some a → ¬ a.img.clipApplies)

theorem rcode_eq_r {src : Image} {mask : Option Image} {dest : Image}
    (h : NoAlphaClips src mask dest) (srcX srcY maskX maskY destX destY width height x y : Int) :
    RCode src mask dest srcX srcY maskX maskY destX destY width height x y ↔
      R src mask dest srcX srcY maskX maskY destX destY width height x y := by
  constructor
  · exact fun h => h.1
  · intro hr
    refine ⟨hr, ?_, ?_, ?_⟩
    · intro a ha hc; rw [h.1 a ha] at hc; cases hc
    · intro a ha hc; exact absurd hc (h.2.1 a ha)
    · intro m a hm _ ha hc; exact absurd hc (h.2.2 m a hm ha)

end Pixman.CompositeRegion

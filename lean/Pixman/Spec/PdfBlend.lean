import Pixman.Model.CombineQ
/-! Specification of the operators evaluated in floating point, stated independently of
`pixman-combine-float.c` (only the pixel record `Px` is shared with the model):

* Render protocol (renderproto, "Composite"): `(Fa, Fb)` of SATURATE, the DISJOINT_* and the
  CONJOINT_* operators in terms of the source alpha `Aa` and destination alpha `Ab`, result
  `min 1 (s·Fa + d·Fb)`; a quotient with divisor 0 is +∞ (so `min(1, x/0) = 1`,
  `max(1 − x/0, 0) = 0`).
* PDF 32000-1:2008 §11.3.5 (and the Acrobat 9.1 supplement for ColorDodge / ColorBurn):
  blend functions `B(cb, cs)` on non-premultiplied colours, composited as
  `αr·Cr = (1−αs)·αb·Cb + (1−αb)·αs·Cs + αb·αs·B(Cb, Cs)`, `αr = αs + αb − αs·αb`.
* masks (Render): unified — every source channel is multiplied by the mask alpha; component
  alpha — channel `c` of the source by channel `c` of the mask, the source alpha seen by channel
  `c` is `αs·m_c`.
`sqrt` is a parameter.  Core Lean only. -/
namespace Pixman.Spec.PdfBlend

/-! ### Render: Porter-Duff, disjoint, conjoint -/

/-- `min(1, x / y)` with `x / 0 = +∞` -/
def minOneDiv (x y : Rat) : Rat := if y = 0 then 1 else min 1 (x / y)

/-- `max(1 − x / y, 0)` with `x / 0 = +∞` -/
def maxZeroOneMinusDiv (x y : Rat) : Rat := if y = 0 then 0 else max (1 - x / y) 0

/-- `(Fa, Fb)` of the Render protocol for operator number `op`; `aa` source alpha, `ab` destination alpha -/
def renderFactors (op : Nat) (aa ab : Rat) : Option (Rat × Rat) :=
  match op with
  | 0x00 | 0x10 | 0x20 => some (0, 0)                    -- Clear
  | 0x01 | 0x11 | 0x21 => some (1, 0)                    -- Src
  | 0x02 | 0x12 | 0x22 => some (0, 1)                    -- Dst
  | 0x03 => some (1, 1 - aa)                             -- Over
  | 0x04 => some (1 - ab, 1)                             -- OverReverse
  | 0x05 => some (ab, 0)                                 -- In
  | 0x06 => some (0, aa)                                 -- InReverse
  | 0x07 => some (1 - ab, 0)                             -- Out
  | 0x08 => some (0, 1 - aa)                             -- OutReverse
  | 0x09 => some (ab, 1 - aa)                            -- Atop
  | 0x0a => some (1 - ab, aa)                            -- AtopReverse
  | 0x0b => some (1 - ab, 1 - aa)                        -- Xor
  | 0x0c => some (1, 1)                                  -- Add
  | 0x0d => some (minOneDiv (1 - ab) aa, 1)              -- Saturate
  | 0x13 => some (1, minOneDiv (1 - aa) ab)              -- DisjointOver
  | 0x14 => some (minOneDiv (1 - ab) aa, 1)              -- DisjointOverReverse
  | 0x15 => some (maxZeroOneMinusDiv (1 - ab) aa, 0)     -- DisjointIn
  | 0x16 => some (0, maxZeroOneMinusDiv (1 - aa) ab)     -- DisjointInReverse
  | 0x17 => some (minOneDiv (1 - ab) aa, 0)              -- DisjointOut
  | 0x18 => some (0, minOneDiv (1 - aa) ab)              -- DisjointOutReverse
  | 0x19 => some (maxZeroOneMinusDiv (1 - ab) aa, minOneDiv (1 - aa) ab)   -- DisjointAtop
  | 0x1a => some (minOneDiv (1 - ab) aa, maxZeroOneMinusDiv (1 - aa) ab)   -- DisjointAtopReverse
  | 0x1b => some (minOneDiv (1 - ab) aa, minOneDiv (1 - aa) ab)            -- DisjointXor
  | 0x23 => some (1, maxZeroOneMinusDiv aa ab)           -- ConjointOver
  | 0x24 => some (maxZeroOneMinusDiv ab aa, 1)           -- ConjointOverReverse
  | 0x25 => some (minOneDiv ab aa, 0)                    -- ConjointIn
  | 0x26 => some (0, minOneDiv aa ab)                    -- ConjointInReverse
  | 0x27 => some (maxZeroOneMinusDiv ab aa, 0)           -- ConjointOut
  | 0x28 => some (0, maxZeroOneMinusDiv aa ab)           -- ConjointOutReverse
  | 0x29 => some (minOneDiv ab aa, maxZeroOneMinusDiv aa ab)               -- ConjointAtop
  | 0x2a => some (maxZeroOneMinusDiv ab aa, minOneDiv aa ab)               -- ConjointAtopReverse
  | 0x2b => some (maxZeroOneMinusDiv ab aa, maxZeroOneMinusDiv aa ab)      -- ConjointXor
  | _ => none

/-- one channel of a Render operator: saturating sum of the two weighted operands -/
def renderChannel (fa fb s d : Rat) : Rat := min 1 (s * fa + d * fb)

/-! ### PDF: separable blend functions `B(cb, cs)` (backdrop first, as in the standard) -/

def bMultiply (cb cs : Rat) : Rat := cb * cs
def bScreen (cb cs : Rat) : Rat := cb + cs - cb * cs
def bHardLight (cb cs : Rat) : Rat :=
  if cs ≤ 1 / 2 then bMultiply cb (2 * cs) else bScreen cb (2 * cs - 1)
def bOverlay (cb cs : Rat) : Rat := bHardLight cs cb
def bDarken (cb cs : Rat) : Rat := min cb cs
def bLighten (cb cs : Rat) : Rat := max cb cs
def bColorDodge (cb cs : Rat) : Rat :=
  if cb = 0 then 0 else if cb ≥ 1 - cs then 1 else cb / (1 - cs)
def bColorBurn (cb cs : Rat) : Rat :=
  if cb = 1 then 1 else if 1 - cb ≥ cs then 0 else 1 - (1 - cb) / cs
def bSoftLight (sqrt : Rat → Rat) (cb cs : Rat) : Rat :=
  let dfun (x : Rat) : Rat := if x ≤ 1 / 4 then ((16 * x - 12) * x + 4) * x else sqrt x
  if cs ≤ 1 / 2 then cb - (1 - 2 * cs) * cb * (1 - cb)
  else cb + (2 * cs - 1) * (dfun cb - cb)
def bDifference (cb cs : Rat) : Rat := if cb ≤ cs then cs - cb else cb - cs
def bExclusion (cb cs : Rat) : Rat := cb + cs - 2 * cb * cs

def separable (sqrt : Rat → Rat) : Nat → Option (Rat → Rat → Rat)
  | 0x30 => some bMultiply
  | 0x31 => some bScreen
  | 0x32 => some bOverlay
  | 0x33 => some bDarken
  | 0x34 => some bLighten
  | 0x35 => some bColorDodge
  | 0x36 => some bColorBurn
  | 0x37 => some bHardLight
  | 0x38 => some (bSoftLight sqrt)
  | 0x39 => some bDifference
  | 0x3a => some bExclusion
  | _ => none

/-- §11.3.6 on premultiplied operands `cs = αs·Cs`, `cb = αb·Cb`: the premultiplied result colour.
Where `αs = 0` or `αb = 0` the blend term has weight 0. -/
def pdfChannel (B : Rat → Rat → Rat) (as cs ab cb : Rat) : Rat :=
  (1 - as) * cb + (1 - ab) * cs + (if as = 0 ∨ ab = 0 then 0 else as * ab * B (cb / ab) (cs / as))

def pdfAlpha (as ab : Rat) : Rat := as + ab - as * ab

/-! ### PDF: non-separable blend functions -/

abbrev Color := Rat × Rat × Rat

def cmin (c : Color) : Rat := min (min c.1 c.2.1) c.2.2
def cmax (c : Color) : Rat := max (max c.1 c.2.1) c.2.2
def lum (c : Color) : Rat := 3 / 10 * c.1 + 59 / 100 * c.2.1 + 11 / 100 * c.2.2
def sat (c : Color) : Rat := cmax c - cmin c
def cmap (f : Rat → Rat) (c : Color) : Color := (f c.1, f c.2.1, f c.2.2)

def clipColor (c : Color) : Color :=
  let l := lum c
  let n := cmin c
  let x := cmax c
  let c := if n < 0 then cmap (fun v => l + (v - l) * l / (l - n)) c else c
  if x > 1 then cmap (fun v => l + (v - l) * (1 - l) / (x - l)) c else c

def setLum (c : Color) (l : Rat) : Color :=
  let d := l - lum c
  clipColor (cmap (· + d) c)

/-- `SetSat`: the largest component becomes `s`, the smallest 0, the middle one keeps its
relative position; a colour without hue becomes black.  (Closed form of the standard's
Cmax/Cmid/Cmin pseudo-code: every component `v ↦ (v − Cmin)·s / (Cmax − Cmin)`.) -/
def setSat (c : Color) (s : Rat) : Color :=
  if cmax c > cmin c then cmap (fun v => (v - cmin c) * s / (cmax c - cmin c)) c else (0, 0, 0)

def bHue (cb cs : Color) : Color := setLum (setSat cs (sat cb)) (lum cb)
def bSaturation (cb cs : Color) : Color := setLum (setSat cb (sat cs)) (lum cb)
def bColor (cb cs : Color) : Color := setLum cs (lum cb)
def bLuminosity (cb cs : Color) : Color := setLum cb (lum cs)

def nonSeparable : Nat → Option (Color → Color → Color)
  | 0x3b => some bHue
  | 0x3c => some bSaturation
  | 0x3d => some bColor
  | 0x3e => some bLuminosity
  | _ => none

def cscale (k : Rat) (c : Color) : Color := cmap (k * ·) c

/-- §11.3.6 for a non-separable mode, premultiplied operands -/
def pdfColor (B : Color → Color → Color) (as : Rat) (cs : Color) (ab : Rat) (cb : Color) : Color :=
  let bl : Color := if as = 0 ∨ ab = 0 then (0, 0, 0)
                    else cscale (as * ab) (B (cscale (1 / ab) cb) (cscale (1 / as) cs))
  ((1 - as) * cb.1 + (1 - ab) * cs.1 + bl.1,
   (1 - as) * cb.2.1 + (1 - ab) * cs.2.1 + bl.2.1,
   (1 - as) * cb.2.2 + (1 - ab) * cs.2.2 + bl.2.2)

/-! ### whole pixels (executable; used as the spec oracle by `pixdrv compositeq`) -/

open Pixman.Model.CombineQ (Px)

def unit (v : Rat) : Bool := 0 ≤ v && v ≤ 1

/-- The Spec value of a request, or `none` where the Spec makes no claim: a channel outside [0, 1];
for the PDF modes operands that are not premultiplied colours in [0, 1]; the HSL modes with a
component-alpha mask (not defined by the standard; the library leaves the destination alone).
`gate := false` evaluates the equations without the range test (used only for the perturbed
neighbours of an input that passed the test: a colour equal to its alpha must not lose its
neighbours). -/
def specPixel (sqrt : Rat → Rat) (op : Nat) (ca : Bool) (s : Px) (m : Option Px) (d : Px)
    (gate : Bool := true) : Option Px :=
  -- per channel: (source alpha seen by the channel, masked source channel)
  let ma : Rat := match m with | some mm => mm.a | none => 1
  let mk (mc sc : Rat) : Rat × Rat :=
    match m with
    | none => (s.a, sc)
    | some _ => if ca then (s.a * mc, sc * mc) else (s.a * ma, sc * ma)
  let (aA, sA) := mk ma s.a
  let (aR, sR) := mk (match m with | some mm => mm.r | none => 1) s.r
  let (aG, sG) := mk (match m with | some mm => mm.g | none => 1) s.g
  let (aB, sB) := mk (match m with | some mm => mm.b | none => 1) s.b
  let inRange := unit aA && unit aR && unit aG && unit aB && unit d.a && unit sA && unit sR && unit sG &&
    unit sB && unit d.r && unit d.g && unit d.b
  if gate && !inRange then none
  else
    match renderFactors op aA d.a with
    | some _ =>
      let ch (al sc dc : Rat) : Rat :=
        match renderFactors op al d.a with
        | some (fa, fb) => renderChannel fa fb sc dc
        | none => 0
      some ⟨ch aA sA d.a, ch aR sR d.r, ch aG sG d.g, ch aB sB d.b⟩
    | none =>
      let premult := unit sA && unit sR && unit sG && unit sB && unit d.r && unit d.g && unit d.b &&
        sR ≤ aR && sG ≤ aG && sB ≤ aB && d.r ≤ d.a && d.g ≤ d.a && d.b ≤ d.a
      if gate && !premult then none
      else
        match separable sqrt op with
        | some B =>
          some ⟨pdfAlpha aA d.a, pdfChannel B aR sR d.a d.r, pdfChannel B aG sG d.a d.g,
                pdfChannel B aB sB d.a d.b⟩
        | none =>
          match nonSeparable op with
          | some B =>
            if ca && m.isSome then none
            else
              let c := pdfColor B aA (sR, sG, sB) d.a (d.r, d.g, d.b)
              some ⟨pdfAlpha aA d.a, c.1, c.2.1, c.2.2⟩
          | none => none

end Pixman.Spec.PdfBlend

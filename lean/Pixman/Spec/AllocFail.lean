/-
  Specification of "an allocation failure is survived" for the region code (property C15).
  Short and independent of how the model computes: it only speaks about
    * the designated broken region,
    * the failure-free result `Pixman.Region.<op>` (whose exactness is C05/C06),
    * counts of alloc / free events in the heap log.
-/
import Pixman.Model.RegionAlloc
namespace Pixman.Spec.AllocFail
open Pixman.Region Pixman.Model.RegionAlloc

/-- the designated broken region: `data == pixman_broken_data`, extents without area -/
def Broken (r : RegionA) : Prop :=
  r.data = .broken ∧ r.extents.x1 = r.extents.x2 ∧ r.extents.y1 = r.extents.y2

/-- outcome of an operation with a status result, under some failure schedule, against the
    failure-free result `pure`: FALSE ⇒ the result is the broken region; TRUE ⇒ the result is the
    failure-free one (capacities and block identities forgotten) and that one reports TRUE too -/
def Survives (pure : Region × Bool) (res : Bool × RegionA × Heap) : Prop :=
  (res.1 = false → Broken res.2.1) ∧ (res.1 = true → (res.2.1.erase, true) = pure)

/-- number of times block `id` was handed out / freed in a log -/
def cntA (id : Nat) : List HEv → Nat
  | [] => 0
  | .alloc j :: t => (if j = id then 1 else 0) + cntA id t
  | _ :: t => cntA id t

def cntF (id : Nat) : List HEv → Nat
  | [] => 0
  | .free j :: t => (if j = id then 1 else 0) + cntF id t
  | _ :: t => cntF id t

/-- no block is freed twice, none is freed without having been allocated -/
def NoDoubleFree (h : Heap) : Prop := h.bad = false ∧ ∀ id, cntF id h.log ≤ cntA id h.log ∧ cntF id h.log ≤ 1

/-- nothing leaked: every block ever allocated has been freed exactly once -/
def AllFreedOnce (h : Heap) : Prop := h.live = [] ∧ ∀ id, cntF id h.log = cntA id h.log ∧ cntA id h.log ≤ 1

end Pixman.Spec.AllocFail

import Pixman.Model.Matrix
import Pixman.Spec.FixedRound
/-! Spec-level notions of C11 that mention the data types of the matrix model (types only). -/
namespace Pixman.Matrix
open Pixman.Spec.Fixed

/-- the nine entries of the Spec product -/
def productSpec (l r : Transform) : Transform :=
  ⟨entrySpec l.m00 l.m01 l.m02 r.m00 r.m10 r.m20, entrySpec l.m00 l.m01 l.m02 r.m01 r.m11 r.m21,
   entrySpec l.m00 l.m01 l.m02 r.m02 r.m12 r.m22,
   entrySpec l.m10 l.m11 l.m12 r.m00 r.m10 r.m20, entrySpec l.m10 l.m11 l.m12 r.m01 r.m11 r.m21,
   entrySpec l.m10 l.m11 l.m12 r.m02 r.m12 r.m22,
   entrySpec l.m20 l.m21 l.m22 r.m00 r.m10 r.m20, entrySpec l.m20 l.m21 l.m22 r.m01 r.m11 r.m21,
   entrySpec l.m20 l.m21 l.m22 r.m02 r.m12 r.m22⟩

def Transform.Rep (t : Transform) : Prop :=
  Rep32 t.m00 ∧ Rep32 t.m01 ∧ Rep32 t.m02 ∧ Rep32 t.m10 ∧ Rep32 t.m11 ∧ Rep32 t.m12 ∧
  Rep32 t.m20 ∧ Rep32 t.m21 ∧ Rep32 t.m22

/-- the box (integer pixel coordinates) contains the point `p` (16.16), edges included -/
def Contains (b : Box16) (p : Vec) : Prop :=
  b.x1 * 65536 ≤ p.x ∧ b.y1 * 65536 ≤ p.y ∧ p.x ≤ b.x2 * 65536 ∧ p.y ≤ b.y2 * 65536

def Box16.le (a b : Box16) : Prop := b.x1 ≤ a.x1 ∧ b.y1 ≤ a.y1 ∧ a.x2 ≤ b.x2 ∧ a.y2 ≤ b.y2

end Pixman.Matrix

import Pixman.Model.Region
/-! The specification side of C05–C07: a region is a set of integer points. -/
namespace Pixman.Region

/-- `(x,y)` lies in the half-open box -/
def Box.Mem (b : Box) (x y : Int) : Prop := b.x1 ≤ x ∧ x < b.x2 ∧ b.y1 ≤ y ∧ y < b.y2

instance (b : Box) (x y : Int) : Decidable (b.Mem x y) := by unfold Box.Mem; infer_instance

/-- membership in a rectangle list -/
def MemL (l : List Box) (x y : Int) : Prop := ∃ b ∈ l, b.Mem x y

/-- the point set denoted by a region object -/
def Region.Mem (r : Region) (x y : Int) : Prop := MemL r.rects x y

/-- x-projection of a band: membership in a span list -/
def InSpans (l : List Box) (x : Int) : Prop := ∃ b ∈ l, b.x1 ≤ x ∧ x < b.x2

end Pixman.Region

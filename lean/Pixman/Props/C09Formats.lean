import Pixman.Props.C09Sound
import Pixman.Props.C10
/-! C09: the hypothesis `Presents.pixels` of `Props/C09Sound` ("an alpha-less format fetches alpha 255") discharged from
C10's codec theorems for every packed format of the regenerated format list, and `alphaLess` (what
`compute_image_info` tests on the format code) tied to C10's records. -/
namespace Pixman.Props.C09Formats
open Pixman.Model.Format Pixman.Spec.Format Pixman.Lemmas.FormatCodec Pixman.Lemmas.FormatMem Pixman.Lemmas.FormatWide
open Pixman.Gen.Formats (Rec formats)
open Pixman.Props.C10 Pixman.Props.C09Sound Pixman.Lemmas.FetchBilinear Pixman.Model.Fetch

/-- a fetched pixel of a packed format without alpha field: alpha byte 255, a 32-bit word -/
theorem alpha_less_fetch (r : Rec) (hr : r ∈ formats) (hp : packed r = true) (h0 : r.a = 0) (pal : Palette) (p : Nat) :
    chA (convertPixelToA8r8g8b8 pal r.code p) = 255 ∧ convertPixelToA8r8g8b8 pal r.code p < 4294967296 := by
  have ha := absent_alpha_reads_opaque r hr hp h0 pal p
  obtain ⟨_, ok, _, _⟩ := gen_layouts r hr hp
  obtain ⟨⟨h1, h2, h3, h4⟩, _⟩ := fits_of_ok _ ok
  have hv := fetch_is_bit_replication r hr hp pal p
  have lt : convertPixelToA8r8g8b8 pal r.code p < 4294967296 := by
    rw [hv]
    unfold fetchSpec
    have bA := chanFetch_lt (layout r).wa (layout r).sa 255 p h1 (by decide)
    have bR := chanFetch_lt (layout r).wr (layout r).sr 0 p h2 (by decide)
    have bG := chanFetch_lt (layout r).wg (layout r).sg 0 p h3 (by decide)
    have bB := chanFetch_lt (layout r).wb (layout r).sb 0 p h4 (by decide)
    have e : (4294967296 : Nat) = 2 ^ 32 := by decide
    rw [e]
    refine Nat.or_lt_two_pow (Nat.or_lt_two_pow (Nat.or_lt_two_pow ?_ ?_) ?_) ?_ <;>
      (rw [Nat.shiftLeft_eq]; omega)
  refine ⟨?_, lt⟩
  unfold field at ha
  rw [Nat.shiftRight_eq_div_pow, Nat.and_two_pow_sub_one_eq_mod] at ha
  unfold chA
  simpa using ha

/-- a `Model/Fetch` image whose pixel function is C10's fetch of such a format has `OpaquePixels` -/
theorem c10_opaque_pixels (r : Rec) (hr : r ∈ formats) (hp : packed r = true) (h0 : r.a = 0) (pal : Palette)
    (raw : Int → Int → Nat) (b : Bits) (hb : ∀ x y, b.fetch x y = convertPixelToA8r8g8b8 pal r.code (raw x y)) :
    OpaquePixels b := by
  intro x y _ _ _ _
  rw [hb]
  exact alpha_less_fetch r hr hp h0 pal (raw x y)

/-- what `compute_image_info` tests (`alphaLess` of the format code) is, on the regenerated format list, exactly
"packed-or-planar non-indexed record without alpha field" -/
theorem alphaLess_records :
    formats.all (fun r => !(Pixman.Lemmas.OpacityFlags.alphaLess r.code) || (r.a == 0 && r.type != 4 && r.type != 5)) = true := by
  decide

end Pixman.Props.C09Formats

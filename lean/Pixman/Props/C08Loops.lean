import Pixman.Props.C08Fast
import Pixman.Props.C02Cover
/-!
  C08 (specialised paths, continued): the two-line cache of the bilinear cover iterator, the tile split of the
  rotate blits, the zones of the scaled-bilinear main loops.
-/
set_option linter.unusedSimpArgs false
namespace Pixman.Props.C08Loops
open Pixman.Sample Pixman.Matrix Pixman.Model.Fetch Pixman.Model.FetchFast Pixman.Model.Extent
open Pixman.Props.C08Fast Pixman.Lemmas.FetchFast

/-! ### (1) cache transparency -/

/-- what the cache may hold: every line is either unused (`y = -1`) or the fresh `fetch_horizontal` of its row -/
def CacheOK (b : Bits) (fx ux : Int) (width : Nat) (c : CoverCache) : Prop :=
  (c.l0.y = -1 ∨ c.l0.buffer = fetchHorizontal b c.l0.y ux width fx) ∧
  (c.l1.y = -1 ∨ c.l1.buffer = fetchHorizontal b c.l1.y ux width fx)

theorem cacheOK_init (b : Bits) (fx ux : Int) (width : Nat) : CacheOK b fx ux width CoverCache.init :=
  ⟨Or.inl rfl, Or.inl rfl⟩

theorem ensure_spec (b : Bits) (fx ux : Int) (width : Nat) (c : CoverCache) (y : Int) (hy : 0 ≤ y)
    (hc : CacheOK b fx ux width c) :
    CacheOK b fx ux width (c.ensure b fx ux width y) ∧
    ((c.ensure b fx ux width y).get y).buffer = fetchHorizontal b y ux width fx ∧
    ((c.ensure b fx ux width y).get y).y = y ∧
    (∀ y' : Int, y' % 2 ≠ y % 2 → (c.ensure b fx ux width y).get y' = c.get y') := by
  by_cases hp : y % 2 = 0
  · by_cases he : c.l0.y = y
    · have e : c.ensure b fx ux width y = c := by
        unfold CoverCache.ensure CoverCache.get; simp [hp, he]
      rw [e]
      refine ⟨hc, ?_, ?_, fun _ _ => rfl⟩
      · unfold CoverCache.get; rw [if_pos hp]
        rcases hc.1 with h | h
        · omega
        · rw [h, he]
      · unfold CoverCache.get; rw [if_pos hp]; exact he
    · have e : c.ensure b fx ux width y = { c with l0 := ⟨y, fetchHorizontal b y ux width fx⟩ } := by
        unfold CoverCache.ensure CoverCache.get CoverCache.set; simp [hp, he]
      rw [e]
      refine ⟨⟨Or.inr rfl, hc.2⟩, ?_, ?_, ?_⟩
      · unfold CoverCache.get; rw [if_pos hp]
      · unfold CoverCache.get; rw [if_pos hp]
      · intro y' h
        have : ¬ y' % 2 = 0 := by omega
        unfold CoverCache.get; rw [if_neg this, if_neg this]
  · by_cases he : c.l1.y = y
    · have e : c.ensure b fx ux width y = c := by
        unfold CoverCache.ensure CoverCache.get; simp [hp, he]
      rw [e]
      refine ⟨hc, ?_, ?_, fun _ _ => rfl⟩
      · unfold CoverCache.get; rw [if_neg hp]
        rcases hc.2 with h | h
        · omega
        · rw [h, he]
      · unfold CoverCache.get; rw [if_neg hp]; exact he
    · have e : c.ensure b fx ux width y = { c with l1 := ⟨y, fetchHorizontal b y ux width fx⟩ } := by
        unfold CoverCache.ensure CoverCache.get CoverCache.set; simp [hp, he]
      rw [e]
      refine ⟨⟨hc.1, Or.inr rfl⟩, ?_, ?_, ?_⟩
      · unfold CoverCache.get; rw [if_neg hp]
      · unfold CoverCache.get; rw [if_neg hp]
      · intro y' h
        have : y' % 2 = 0 := by omega
        unfold CoverCache.get; rw [if_pos this, if_pos this]

/-- one call through the cache = the call that fetches both lines fresh, and the cache stays consistent -/
theorem coverCachedRow_eq (b : Bits) (fx ux : Int) (width : Nat) (c : CoverCache) (fy : Int)
    (hy : 0 ≤ fixedToInt fy) (hc : CacheOK b fx ux width c) :
    (coverCachedRow b fx ux width c fy).2 = bilinearCoverRow b fx fy ux width ∧
    CacheOK b fx ux width (coverCachedRow b fx ux width c fy).1 := by
  unfold coverCachedRow bilinearCoverRow
  simp only
  obtain ⟨k1, b1, _, _⟩ := ensure_spec b fx ux width c (fixedToInt fy) hy hc
  obtain ⟨k2, b2, _, o2⟩ := ensure_spec b fx ux width _ (fixedToInt fy + 1) (by omega) k1
  refine ⟨?_, k2⟩
  rw [b2, o2 (fixedToInt fy) (by omega), b1]

/-- (cache transparency) for ANY sequence of scanline requests at non-negative source rows — whatever `unit_y` is,
    rows repeating, advancing by one (the swap case), jumping or going back — the iterator with its two-line cache
    returns what fetching both lines afresh returns -/
theorem coverCachedRows_eq (b : Bits) (fx ux uy : Int) (width : Nat) (n : Nat) (c : CoverCache) (fy : Int)
    (hc : CacheOK b fx ux width c)
    (hy : ∀ k : Nat, k < n → 0 ≤ fixedToInt (stepped fy uy k)) :
    coverCachedRows b fx ux uy width n c fy = bilinearCoverRows b fx ux uy width n fy := by
  induction n generalizing c fy with
  | zero => rfl
  | succ m ih =>
    have h0 := hy 0 (by omega)
    simp only [stepped] at h0
    obtain ⟨e, k⟩ := coverCachedRow_eq b fx ux width c fy h0 hc
    rw [coverCachedRows, bilinearCoverRows]
    rw [e, ih _ _ k (fun j hj => by
      have := hy (j + 1) (by omega)
      have hs : ∀ (x0 u : Int) (i : Nat), stepped (wrapS32 (x0 + u)) u i = stepped x0 u (i + 1) := by
        intro x0 u i
        induction i with
        | zero => simp [stepped]
        | succ q ihq => simp only [stepped] at ihq ⊢; rw [ihq]
      rw [hs]; exact this)]

/-- `fast_bilinear_cover_iter_init` + `fast_fetch_bilinear_cover` AS THEY ARE (two-line cache included) = the
    reference bilinear fetcher.  Guard as in `Props.C02Cover.fast_bilinear_cover_eq`; no caveat left for this iterator. -/
theorem fast_bilinear_cover_cached_eq (b : Bits) (t : Transform) (sx sy : Int) (w h : Nat) (p : Vec)
    (hpix : ∀ x y, b.fetch x y < 4294967296)
    (h0 : transformPoint3d t (pixelCentre sx sy) = some (true, p))
    (hp : isI32 (p.x - 32768) ∧ isI32 (p.y - 32768))
    (hcx : ∀ i : Nat, i < w → 0 ≤ p.x - 32768 + i * t.m00 ∧ fixedToInt (p.x - 32768 + i * t.m00) + 1 < b.width ∧
                               isI32 (p.x - 32768 + i * t.m00))
    (hcy : ∀ j : Nat, j < h → 0 ≤ p.y - 32768 + j * t.m11 ∧ fixedToInt (p.y - 32768 + j * t.m11) + 1 < b.height ∧
                               isI32 (p.y - 32768 + j * t.m11)) :
    fastBilinearCoverCached b t sx sy w h = some ((List.range h).map fun (j : Nat) => (List.range w).map fun (i : Nat) =>
      fetchBilinear b (p.x + i * t.m00) (p.y + j * t.m11)) := by
  rw [← Pixman.Props.C02Cover.fast_bilinear_cover_eq b t sx sy w h p hpix h0 hp hcx hcy]
  unfold fastBilinearCoverCached fastBilinearCover
  simp only [h0]
  congr 1
  apply coverCachedRows_eq _ _ _ _ _ _ _ _ (cacheOK_init b _ _ w)
  intro k hk
  rw [wrapS32_of_range _ hp.2, Pixman.Props.C04Core.stepped_linear _ _ k (fun j hj => (hcy j (by omega)).2.2)]
  have := (hcy k hk).1
  unfold fixedToInt; omega

/-! ### (3) the tile split of blt_rotated_90 / blt_rotated_270 -/

/-- the three parts tile `[0, W)` exactly: their widths add up to `W` and the middle part is a whole number of
    tiles (so the unclipped `TILE_SIZE`-wide middle calls neither overlap the trailing strip nor run past it),
    for every width and every destination alignment -/
theorem tileSplit_exact (tile mis W : Nat) (ht : 0 < tile) (hm : mis < tile) :
    (tileSplit tile mis W).1 + (tileSplit tile mis W).2.1 + (tileSplit tile mis W).2.2 = W ∧
    (tileSplit tile mis W).2.1 % tile = 0 ∧
    tileCount tile (tileSplit tile mis W).2.1 * tile = (tileSplit tile mis W).2.1 := by
  unfold tileSplit tileCount
  simp only
  -- leading
  generalize hL : (if mis ≠ 0 then (if tile - mis > W then W else tile - mis) else 0) = L
  have hLW : L ≤ W := by rw [← hL]; split <;> (try split) <;> omega
  have hal : L = W ∨ (mis + L) % tile = 0 := by
    rw [← hL]
    split
    · split
      · left; rfl
      · right
        have : mis + (tile - mis) = tile := by omega
        rw [this]; exact Nat.mod_self tile
    · rename_i h
      have : mis = 0 := by omega
      right; rw [this]; simp
  generalize hE : (mis + L + (W - L)) % tile = e
  have he : e < tile := by rw [← hE]; exact Nat.mod_lt _ ht
  generalize hT : (if e ≠ 0 then (if e > W - L then W - L else e) else 0) = T
  have hTW : T ≤ W - L := by rw [← hT]; split <;> (try split) <;> omega
  have hmid : (W - L - T) % tile = 0 := by
    rcases hal with h | h
    · have : W - L - T = 0 := by omega
      rw [this]; simp
    · -- W - L ≡ e (mod tile)
      have e1 : (W - L) % tile = e := by
        rw [← hE, Nat.add_mod, h]; simp
      rw [← hT]
      split
      · split
        · have : W - L - (W - L) = 0 := by omega
          rw [this]; simp
        · rename_i h1 h2
          have hd := Nat.div_add_mod (W - L) tile
          rw [e1] at hd
          have : W - L - e = tile * ((W - L) / tile) := by omega
          rw [this]; exact Nat.mul_mod_right _ _
      · rename_i h1
        have : e = 0 := by omega
        rw [Nat.sub_zero, e1, this]
  refine ⟨by omega, hmid, ?_⟩
  generalize W - L - T = M at *
  have hd := Nat.div_add_mod M tile
  rw [hmid, Nat.add_zero] at hd
  have : (M + tile - 1) / tile = M / tile := by
    rw [← hd]
    have : tile * (M / tile) + tile - 1 = (tile - 1) + tile * (M / tile) := by omega
    rw [this, Nat.add_mul_div_left _ _ ht, Nat.div_eq_of_lt (by omega), Nat.zero_add,
        Nat.mul_div_cancel_left _ ht]
  rw [this, Nat.mul_comm]; exact hd

/-- `T` consecutive strips of `tile` columns are one strip of `T·tile` columns -/
theorem flatten_tiles {α : Type} (g : Nat → α) (tile T : Nat) :
    ((List.range T).map fun (k : Nat) => (List.range tile).map fun (x : Nat) => g (k * tile + x)).flatten =
      (List.range (T * tile)).map g := by
  induction T with
  | zero => simp
  | succ m ih =>
    rw [List.range_succ, List.map_append, List.flatten_append, ih, Nat.succ_mul, List.range_add, List.map_append,
        List.map_map]
    simp

/-- `blt_rotated_90` (leading strip, cache-line tiles, trailing strip) copies the same transposed block as
    `blt_rotated_90_trivial` on the whole rectangle — every width, every alignment -/
theorem blt_rotated90_tiled_eq (b : Bits) (sx sy : Int) (tile mis W H : Nat) (ht : 0 < tile) (hm : mis < tile) :
    bltRotated90 b sx sy tile mis W H = bltRotated90Trivial b sx sy W H := by
  unfold bltRotated90 bltRotated90Trivial
  apply List.map_congr_left
  intro y _
  unfold bltRotated90Row
  simp only
  obtain ⟨hsum, _, hcnt⟩ := tileSplit_exact tile mis W ht hm
  generalize tileSplit tile mis W = s at *
  obtain ⟨L, M, T⟩ := s
  simp only at hsum hcnt ⊢
  have tiles := flatten_tiles (fun d => b.fetch (sx + ((H : Int) - y - 1)) (sy + ((L + d : Nat) : Int))) tile (tileCount tile M)
  rw [hcnt] at tiles
  have e : ((List.range (tileCount tile M)).map fun (k : Nat) =>
      (List.range tile).map fun (x : Nat) => b.fetch (sx + ((H : Int) - y - 1)) (sy + ((L + k * tile : Nat) : Int) + x)) =
      ((List.range (tileCount tile M)).map fun (k : Nat) => (List.range tile).map fun (x : Nat) =>
        (fun d => b.fetch (sx + ((H : Int) - y - 1)) (sy + ((L + d : Nat) : Int))) (k * tile + x)) := by
    apply List.map_congr_left; intro k _
    apply List.map_congr_left; intro x _
    simp only [Int.natCast_add, Int.natCast_mul]; congr 1; omega
  rw [e, tiles, ← hsum, ← three_segments L M T (fun d => b.fetch (sx + ((H : Int) - y - 1)) (sy + (d : Int)))]
  congr 1
  · congr 1
    · apply List.map_congr_left; intro x _; simp
  · apply List.map_congr_left; intro x _
    simp only [Int.natCast_add]
    congr 1; omega

/-- `blt_rotated_270` likewise, with its mirrored source offsets (`W - leading`, `W' - x - TILE_SIZE` after
    `src += trailing * src_stride`, and `src - trailing * src_stride`): a wrong offset in any of the three parts
    contradicts this theorem -/
theorem blt_rotated270_tiled_eq (b : Bits) (sx sy : Int) (tile mis W H : Nat) (ht : 0 < tile) (hm : mis < tile) :
    bltRotated270 b sx sy tile mis W H = bltRotated270Trivial b sx sy W H := by
  unfold bltRotated270 bltRotated270Trivial
  apply List.map_congr_left
  intro y _
  unfold bltRotated270Row
  simp only
  obtain ⟨hsum, _, hcnt⟩ := tileSplit_exact tile mis W ht hm
  generalize tileSplit tile mis W = s at *
  obtain ⟨L, M, T⟩ := s
  simp only at hsum hcnt ⊢
  have tiles := flatten_tiles (fun d => b.fetch (sx + y) (sy + ((W : Int) - 1 - ((L + d : Nat) : Int)))) tile (tileCount tile M)
  rw [hcnt] at tiles
  have e : ((List.range (tileCount tile M)).map fun (k : Nat) =>
      (List.range tile).map fun (c : Nat) => b.fetch (sx + y) (sy + ((T : Int) + ((M : Int) - k * tile - tile)) + ((tile : Int) - 1 - c))) =
      ((List.range (tileCount tile M)).map fun (k : Nat) => (List.range tile).map fun (x : Nat) =>
        (fun d => b.fetch (sx + y) (sy + ((W : Int) - 1 - ((L + d : Nat) : Int)))) (k * tile + x)) := by
    apply List.map_congr_left; intro k _
    apply List.map_congr_left; intro x _
    simp only [Int.natCast_add, Int.natCast_mul]
    congr 1
    have : (W : Int) = L + M + T := by omega
    omega
  rw [e, tiles, show List.range W = List.range (L + M + T) by rw [hsum],
      ← three_segments L M T (fun d => b.fetch (sx + y) (sy + ((W : Int) - 1 - (d : Int))))]
  have hW : (W : Int) = L + M + T := by omega
  congr 1
  · congr 1
    · apply List.map_congr_left; intro x _; congr 1; omega
  · apply List.map_congr_left; intro x _
    simp only [Int.natCast_add]
    congr 1; omega

/-! ### (2) FAST_BILINEAR_MAINLOOP_INT: the zones of a PAD / NONE scanline -/

/-- a tap with the weight forgotten where it cannot matter (equal left and right pixel) -/
def normTap (t : HTap) : Nat × Nat × Int := (t.left, t.right, if t.left = t.right then 0 else bilinearWeight t.vx)

/-- the reference's horizontal taps for one source row at the (already `- ½`) coordinate `c`: the pixels at
    `⌊c⌋` and `⌊c⌋ + 1` mapped by the repeat mode (`P`), with the 7-bit weight of `c` -/
def refTap (P : Int → Nat) (c : Int) : Nat × Nat × Int :=
  (P (fixedToInt c), P (fixedToInt c + 1), if P (fixedToInt c) = P (fixedToInt c + 1) then 0 else bilinearWeight c)

def padPixel (W : Int) (row : Int → Nat) (c : Int) : Nat := row (CLIP c 0 (W - 1))
def nonePixel (W : Int) (row : Int → Nat) (c : Int) : Nat := if 0 ≤ c ∧ c < W then row c else 0

theorem scanlineTaps_eq (src : Int → Nat) (ux : Int) (n : Nat) (v : Int) (h : ∀ k : Nat, k < n → isI32 (v + k * ux)) :
    bilinearScanlineTaps src ux n v = (List.range n).map fun (k : Nat) =>
      (⟨src (fixedToInt (v + k * ux)), src (fixedToInt (v + k * ux) + 1), v + k * ux⟩ : HTap) := by
  induction n generalizing v with
  | zero => rfl
  | succ m ih =>
    rw [bilinearScanlineTaps, List.range_succ_eq_map, List.map_cons, List.map_map]
    simp only [Int.natCast_zero, Int.zero_mul, Int.add_zero]
    congr 1
    cases m with
    | zero => rfl
    | succ m' =>
      have h1 := h 1 (by omega)
      simp only [Int.natCast_one, Int.one_mul] at h1
      rw [wrapS32_of_range _ h1, ih (v + ux) (fun k hk => by
        have := h (k + 1) (by omega)
        rw [Int.natCast_add, Int.add_mul] at this
        simp only [Int.natCast_one, Int.one_mul] at this
        have e : v + ux + (k : Int) * ux = v + ((k : Int) * ux + ux) := by omega
        rw [e]; exact this)]
      apply List.map_congr_left
      intro i _
      have e : v + ux + (i : Int) * ux = v + ((i + 1 : Nat) : Int) * ux := by
        rw [Int.natCast_add, Int.add_mul]; simp only [Int.natCast_one, Int.one_mul]; omega
      simp only [Function.comp, Nat.succ_eq_add_one, e]

/-- the pad calls (`vx = 0`, `unit_x = 0` on a two-pixel buffer) -/
theorem scanlineTaps_buf (a c : Nat) (n : Nat) :
    (bilinearScanlineTaps (buf2 a c) 0 n 0).map normTap = List.replicate n (a, c, if a = c then 0 else 0) := by
  rw [scanlineTaps_eq _ _ _ _ (fun k _ => by simp [isI32]), List.map_map]
  apply map_range_eq_replicate
  intro k _
  simp [normTap, buf2, fixedToInt, bilinearWeight]

/-- a PAD scanline (left pad ∪ left transition, middle, right transition ∪ right pad) feeds the scanline
    function, for EVERY destination pixel and either source row, the reference's tap pair with the reference's
    weight (up to the weight of an equal pair, which cannot matter).  The zone facts `hl hm hr` are what
    `bilinear_pad_repeat_get_scanline_bounds` delivers (`bilinear_zones` below). -/
theorem bilinear_pad_row_taps (W : Int) (hW : 0 < W) (row : Int → Nat) (c0 ux : Int) (lp w rp : Nat)
    (hl : ∀ k : Nat, k < lp → c0 + k * ux < 0)
    (hm : ∀ k : Nat, k < w → 0 ≤ c0 + (lp + k : Nat) * ux ∧ c0 + (lp + k : Nat) * ux < (W - 1) * 65536 ∧
                             isI32 (c0 + (lp + k : Nat) * ux))
    (hr : ∀ k : Nat, k < rp → (W - 1) * 65536 ≤ c0 + (lp + w + k : Nat) * ux) :
    (bilinearPadRowTaps W row (c0 + lp * ux) ux lp w rp).map normTap =
      (List.range (lp + w + rp)).map fun (k : Nat) => refTap (padPixel W row) (c0 + k * ux) := by
  unfold bilinearPadRowTaps
  rw [List.map_append, List.map_append, scanlineTaps_buf, scanlineTaps_buf, ← three_segments]
  congr 1
  · congr 1
    · symm; apply map_range_eq_replicate
      intro k hk
      have := hl k hk
      have e1 : CLIP (fixedToInt (c0 + ↑k * ux)) 0 (W - 1) = 0 := by unfold CLIP fixedToInt; split <;> omega
      have e2 : CLIP (fixedToInt (c0 + ↑k * ux) + 1) 0 (W - 1) = 0 := by
        unfold CLIP fixedToInt; split <;> (try split) <;> omega
      simp [refTap, padPixel, e1, e2]
    · rw [scanlineTaps_eq _ _ _ _ (fun k hk => by
        have := (hm k hk).2.2; rw [Int.natCast_add, Int.add_mul] at this
        have e : c0 + ↑lp * ux + ↑k * ux = c0 + (↑lp * ux + ↑k * ux) := by omega
        rw [e]; exact this), List.map_map]
      apply List.map_congr_left
      intro k hk
      have hk' : k < w := by simpa using hk
      obtain ⟨m1, m2, _⟩ := hm k hk'
      have e : c0 + ↑lp * ux + ↑k * ux = c0 + ((lp + k : Nat) : Int) * ux := by
        rw [Int.natCast_add, Int.add_mul]; omega
      have e1 : CLIP (fixedToInt (c0 + ((lp + k : Nat) : Int) * ux)) 0 (W - 1) = fixedToInt (c0 + ((lp + k : Nat) : Int) * ux) := by
        unfold CLIP fixedToInt; split <;> (try split) <;> omega
      have e2 : CLIP (fixedToInt (c0 + ((lp + k : Nat) : Int) * ux) + 1) 0 (W - 1) = fixedToInt (c0 + ((lp + k : Nat) : Int) * ux) + 1 := by
        unfold CLIP fixedToInt; split <;> (try split) <;> omega
      simp only [Function.comp, normTap, refTap, padPixel, e, e1, e2]
  · symm; apply map_range_eq_replicate
    intro k hk
    have := hr k hk
    have e1 : CLIP (fixedToInt (c0 + ((lp + w + k : Nat) : Int) * ux)) 0 (W - 1) = W - 1 := by
      unfold CLIP fixedToInt; split <;> (try split) <;> omega
    have e2 : CLIP (fixedToInt (c0 + ((lp + w + k : Nat) : Int) * ux) + 1) 0 (W - 1) = W - 1 := by
      unfold CLIP fixedToInt; split <;> (try split) <;> omega
    simp only [refTap, padPixel, e1, e2]
    simp

theorem five_segments {α : Type} (a b c d e : Nat) (g : Nat → α) :
    (List.range a).map g ++ (List.range b).map (fun k => g (a + k)) ++ (List.range c).map (fun k => g (a + b + k)) ++
      (List.range d).map (fun k => g (a + b + c + k)) ++ (List.range e).map (fun k => g (a + b + c + d + k)) =
      (List.range (a + b + c + d + e)).map g := by
  rw [← three_segments (a + b + c) d e g, ← three_segments a b c g]

theorem bilinearWeight_shift (v m : Int) : bilinearWeight (v + m * 65536) = bilinearWeight v := by
  unfold bilinearWeight; omega

/-- a transition call: two-pixel buffer, `pixman_fixed_frac (vx)`; all `n` pixels have their pair at buffer index 0
    and the weight of the true coordinate -/
theorem scanlineTaps_transition (a c : Nat) (ux : Int) (n : Nat) (v base : Int)
    (hin : ∀ k : Nat, k < n → base * 65536 ≤ v + k * ux ∧ v + k * ux < (base + 1) * 65536) (hn : 0 < n → isI32 v) :
    (bilinearScanlineTaps (buf2 a c) ux n (fixedFrac v)).map normTap =
      (List.range n).map fun (k : Nat) => (a, c, if a = c then 0 else bilinearWeight (v + k * ux)) := by
  cases n with
  | zero => rfl
  | succ m =>
    have h0 := hin 0 (by omega)
    simp only [Int.natCast_zero, Int.zero_mul, Int.add_zero] at h0
    have ef : fixedFrac v = v - base * 65536 := by unfold fixedFrac; omega
    rw [ef, scanlineTaps_eq _ _ _ _ (fun k hk => by have := hin k hk; unfold isI32; omega), List.map_map]
    apply List.map_congr_left
    intro k hk
    have hk' : k < m + 1 := by simpa using hk
    have := hin k hk'
    have e0 : fixedToInt (v - base * 65536 + ↑k * ux) = 0 := by unfold fixedToInt; omega
    have ew : bilinearWeight (v - base * 65536 + ↑k * ux) = bilinearWeight (v + ↑k * ux) := by
      have : v - base * 65536 + ↑k * ux = v + ↑k * ux + (-base) * 65536 := by omega
      rw [this, bilinearWeight_shift]
    simp [normTap, buf2, e0, ew]

/-- a NONE scanline: zero pad, left transition, middle, right transition, zero pad give the scanline function, for
    EVERY destination pixel and either source row, the reference's tap pair (transparent outside the row) and weight -/
theorem bilinear_none_row_taps (W : Int) (hW : 0 < W) (row : Int → Nat) (c0 ux : Int) (lp ltz w rtz rp : Nat)
    (hi : ∀ k : Nat, k ≤ lp + ltz + w + rtz + rp → isI32 (c0 + k * ux))
    (hl : ∀ k : Nat, k < lp → c0 + k * ux < -65536)
    (hlt : ∀ k : Nat, k < ltz → -65536 ≤ c0 + (lp + k : Nat) * ux ∧ c0 + (lp + k : Nat) * ux < 0)
    (hm : ∀ k : Nat, k < w → 0 ≤ c0 + (lp + ltz + k : Nat) * ux ∧ c0 + (lp + ltz + k : Nat) * ux < (W - 1) * 65536)
    (hrt : ∀ k : Nat, k < rtz → (W - 1) * 65536 ≤ c0 + (lp + ltz + w + k : Nat) * ux ∧
                                 c0 + (lp + ltz + w + k : Nat) * ux < W * 65536)
    (hr : ∀ k : Nat, k < rp → W * 65536 ≤ c0 + (lp + ltz + w + rtz + k : Nat) * ux) :
    (bilinearNoneRowTaps W row (c0 + lp * ux) ux lp ltz w rtz rp).map normTap =
      (List.range (lp + ltz + w + rtz + rp)).map fun (k : Nat) => refTap (nonePixel W row) (c0 + k * ux) := by
  unfold bilinearNoneRowTaps
  simp only
  have cast2 : ∀ a c : Nat, c0 + ((a + c : Nat) : Int) * ux = c0 + (a : Int) * ux + (c : Int) * ux := by
    intro a c; rw [Int.natCast_add, Int.add_mul]; omega
  have e1 : wrapS32 (c0 + ↑lp * ux + ↑ltz * ux) = c0 + ((lp + ltz : Nat) : Int) * ux := by
    rw [cast2]; exact wrapS32_of_range _ (by rw [← cast2]; exact hi _ (by omega))
  rw [e1]
  have e2 : wrapS32 (c0 + ((lp + ltz : Nat) : Int) * ux + ↑w * ux) = c0 + ((lp + ltz + w : Nat) : Int) * ux := by
    rw [cast2 (lp + ltz) w]; exact wrapS32_of_range _ (by rw [← cast2]; exact hi _ (by omega))
  rw [e2, List.map_append, List.map_append, List.map_append, List.map_append, scanlineTaps_buf, scanlineTaps_buf,
      scanlineTaps_transition 0 (row 0) ux ltz _ (-1) (fun k hk => by have := hlt k hk; rw [cast2] at this; omega)
        (fun _ => by have := hi lp (by omega); exact this),
      scanlineTaps_transition (row (W - 1)) 0 ux rtz _ (W - 1) (fun k hk => by
        have := hrt k hk; rw [cast2] at this; omega) (fun _ => hi _ (by omega)),
      ← five_segments]
  congr 1
  · congr 1
    · congr 1
      · congr 1
        · symm; apply map_range_eq_replicate
          intro k hk
          have := hl k hk
          have n1 : ¬ (0 ≤ fixedToInt (c0 + ↑k * ux) ∧ fixedToInt (c0 + ↑k * ux) < W) := by unfold fixedToInt; omega
          have n2 : ¬ (0 ≤ fixedToInt (c0 + ↑k * ux) + 1 ∧ fixedToInt (c0 + ↑k * ux) + 1 < W) := by unfold fixedToInt; omega
          simp [refTap, nonePixel, n1, n2]
        · apply List.map_congr_left
          intro k hk
          have hk' : k < ltz := by simpa using hk
          have := hlt k hk'
          rw [← cast2]
          have n1 : ¬ (0 ≤ fixedToInt (c0 + ((lp + k : Nat) : Int) * ux) ∧ fixedToInt (c0 + ((lp + k : Nat) : Int) * ux) < W) := by unfold fixedToInt; omega
          have x2 : fixedToInt (c0 + ((lp + k : Nat) : Int) * ux) + 1 = 0 := by unfold fixedToInt; omega
          simp only [refTap, nonePixel, n1, x2, ↓reduceIte]
          simp [hW]
      · rw [scanlineTaps_eq _ _ _ _ (fun k hk => by rw [← cast2]; exact hi _ (by omega)), List.map_map]
        apply List.map_congr_left
        intro k hk
        have hk' : k < w := by simpa using hk
        have := hm k hk'
        simp only [Function.comp, ← cast2]
        have i1 : (0 ≤ fixedToInt (c0 + ((lp + ltz + k : Nat) : Int) * ux) ∧ fixedToInt (c0 + ((lp + ltz + k : Nat) : Int) * ux) < W) := by unfold fixedToInt; omega
        have i2 : (0 ≤ fixedToInt (c0 + ((lp + ltz + k : Nat) : Int) * ux) + 1 ∧ fixedToInt (c0 + ((lp + ltz + k : Nat) : Int) * ux) + 1 < W) := by unfold fixedToInt; omega
        simp only [normTap, refTap, nonePixel, i1, i2, and_self, ↓reduceIte]
    · apply List.map_congr_left
      intro k hk
      have hk' : k < rtz := by simpa using hk
      have := hrt k hk'
      rw [← cast2]
      have x1 : fixedToInt (c0 + ((lp + ltz + w + k : Nat) : Int) * ux) = W - 1 := by unfold fixedToInt; omega
      simp only [refTap, nonePixel, x1]
      have a1 : (0 ≤ W - 1 ∧ W - 1 < W) := by omega
      have a2 : ¬ (0 ≤ W - 1 + 1 ∧ W - 1 + 1 < W) := by omega
      simp only [a1, a2, and_self, ↓reduceIte]
  · symm; apply map_range_eq_replicate
    intro k hk
    have := hr k hk
    have n1 : ¬ (0 ≤ fixedToInt (c0 + ((lp + ltz + w + rtz + k : Nat) : Int) * ux) ∧ fixedToInt (c0 + ((lp + ltz + w + rtz + k : Nat) : Int) * ux) < W) := by unfold fixedToInt; omega
    have n2 : ¬ (0 ≤ fixedToInt (c0 + ((lp + ltz + w + rtz + k : Nat) : Int) * ux) + 1 ∧ fixedToInt (c0 + ((lp + ltz + w + rtz + k : Nat) : Int) * ux) + 1 < W) := by unfold fixedToInt; omega
    simp only [refTap, nonePixel, n1, n2, ↓reduceIte]

/-! ### (2) vertical weights of the scaled-bilinear main loops -/

/-- the reference's vertical taps for a column `f` (pixel as a function of the source row): rows `⌊vy⌋`, `⌊vy⌋+1`
    mapped by the repeat mode, weights `128 − wy`, `wy` (7 bit) — as the weighted sum every scanline function forms
    first (`tl·wt + bl·wb`) -/
def refVertical (P : Int → Nat) (vy : Int) : Int :=
  (P (fixedToInt vy) : Int) * (128 - bilinearWeight vy) + (P (fixedToInt vy + 1) : Int) * bilinearWeight vy

def normalPixel (H : Int) (f : Int → Nat) (c : Int) : Nat := f (c % H)

/-- `y1, y2, weight1, weight2` of FAST_BILINEAR_MAINLOOP_INT — including the `weight2 == 0` case that reuses row
    `y1` with weights 64/64 and NONE's zeroed weights for rows outside the image — give for every column the
    reference's weighted row sum, for PAD, NONE, NORMAL and COVER -/
theorem bilinear_vertical_spec (var : NearestVariant) (H : Int) (hH : 0 < H) (f : Int → Nat) (vy : Int) :
    let r := bilinearVertical var H vy
    (f r.1 : Int) * r.2.2.1 + (f r.2.1 : Int) * r.2.2.2 =
      match var with
      | .pad => refVertical (padPixel H f) vy
      | .none => refVertical (nonePixel H f) vy
      | .normal => refVertical (normalPixel H f) vy
      | .cover => refVertical f vy := by
  have hw : 0 ≤ bilinearWeight vy ∧ bilinearWeight vy < 128 := by unfold bilinearWeight; omega
  have hH' : ¬ H ≤ 0 := by omega
  unfold bilinearVertical refVertical
  generalize bilinearWeight vy = wy at *
  generalize fixedToInt vy = y at *
  by_cases h0 : wy = 0
  · subst h0
    cases var
    · simp; omega
    · -- none
      simp only [ne_eq, not_true_eq_false, ↓reduceIte, nonePixel, Int.sub_zero, Int.mul_zero, Int.add_zero]
      by_cases a : y < 0
      · have : ¬ (0 ≤ y ∧ y < H) := by omega
        simp [a, this]; split <;> simp
      · by_cases c : y ≥ H
        · have : ¬ (0 ≤ y ∧ y < H) := by omega
          simp [a, c, this]
        · have : (0 ≤ y ∧ y < H) := by omega
          simp [a, c, this]; omega
    · simp [padPixel, repeatCoord, «repeat»]; omega
    · simp [normalPixel, repeatCoord_normal _ _ hH]; omega
  · cases var
    · simp [h0]
    · simp only [ne_eq, h0, not_false_eq_true, ↓reduceIte, nonePixel]
      by_cases a : y < 0 <;> by_cases c : y ≥ H <;> by_cases a2 : y + 1 < 0 <;> by_cases c2 : y + 1 ≥ H
      all_goals first
        | omega
        | (have i1 : (0 ≤ y ∧ y < H) ∨ ¬ (0 ≤ y ∧ y < H) := by omega
           have i2 : (0 ≤ y + 1 ∧ y + 1 < H) ∨ ¬ (0 ≤ y + 1 ∧ y + 1 < H) := by omega
           rcases i1 with i1 | i1 <;> rcases i2 with i2 | i2 <;> first | omega | simp [a, c, a2, c2, i1, i2, hH'])
    · simp [h0, padPixel, repeatCoord, «repeat»]
    · simp [h0, normalPixel, repeatCoord_normal _ _ hH]

/-! ### (2) bilinear_pad_repeat_get_scanline_bounds delivers the zone facts -/

/-- `pad_repeat_get_scanline_bounds` as a complete three-way classification of the scanline's pixels -/
theorem pad_total (S vx ux width : Int) (hux : 0 < ux) (hw : 0 ≤ width ∧ width ≤ 2147483647) :
    let r := padRepeatGetScanlineBounds S vx ux width
    0 ≤ r.1 ∧ 0 ≤ r.2.1 ∧ 0 ≤ r.2.2 ∧ r.2.1 + r.1 + r.2.2 = width ∧
    (∀ k : Int, 0 ≤ k → k < r.2.1 → vx + k * ux < 0) ∧
    (∀ k : Int, r.2.1 ≤ k → k < r.2.1 + r.1 → 0 ≤ vx + k * ux ∧ vx + k * ux < S * 65536) ∧
    (∀ k : Int, r.2.1 + r.1 ≤ k → k < width → S * 65536 ≤ vx + k * ux) := by
  have pb := Pixman.Props.C04.pad_bounds S vx ux width hux hw
  have po := pad_outside S vx ux width hux hw
  simp only at pb po ⊢
  obtain ⟨p1, p2, p3, p4, p5, _⟩ := pb
  refine ⟨p1, p2, p3, p4, po.1, ?_, po.2⟩
  intro k k1 k2
  have := p5 (k - (padRepeatGetScanlineBounds S vx ux width).2.1) (by omega) (by omega)
  have e : (padRepeatGetScanlineBounds S vx ux width).2.1 + (k - (padRepeatGetScanlineBounds S vx ux width).2.1) = k := by omega
  rw [e] at this
  exact this

/-- the five zones of `bilinear_pad_repeat_get_scanline_bounds`: all non-negative, adding up to the width, and
    classifying every pixel `k` by its coordinate `c_k = vx + k·unit_x` (`vx` already `- ½`): both taps left of the
    image / left tap outside / both inside / right tap outside / both right of it.  These are exactly the hypotheses
    of `bilinear_none_row_taps` (and, merging the transition zones into the pads, of `bilinear_pad_row_taps`). -/
theorem bilinear_zones (W vx ux width : Int) (hW : 1 ≤ W) (hux : 0 < ux) (hw : 0 ≤ width ∧ width ≤ 2147483647)
    (hv : isI32 (vx + 65536)) :
    let z := bilinearPadBounds W vx ux width
    0 ≤ z.1 ∧ 0 ≤ z.2.1 ∧ 0 ≤ z.2.2.1 ∧ 0 ≤ z.2.2.2.1 ∧ 0 ≤ z.2.2.2.2 ∧
    z.1 + z.2.1 + z.2.2.1 + z.2.2.2.1 + z.2.2.2.2 = width ∧
    (∀ k : Int, 0 ≤ k → k < z.1 → vx + k * ux < -65536) ∧
    (∀ k : Int, z.1 ≤ k → k < z.1 + z.2.1 → -65536 ≤ vx + k * ux ∧ vx + k * ux < 0) ∧
    (∀ k : Int, z.1 + z.2.1 ≤ k → k < z.1 + z.2.1 + z.2.2.1 → 0 ≤ vx + k * ux ∧ vx + k * ux < (W - 1) * 65536) ∧
    (∀ k : Int, z.1 + z.2.1 + z.2.2.1 ≤ k → k < z.1 + z.2.1 + z.2.2.1 + z.2.2.2.1 →
        (W - 1) * 65536 ≤ vx + k * ux ∧ vx + k * ux < W * 65536) ∧
    (∀ k : Int, z.1 + z.2.1 + z.2.2.1 + z.2.2.2.1 ≤ k → k < width → W * 65536 ≤ vx + k * ux) := by
  have t1 := pad_total W vx ux width hux hw
  have t2 := pad_total W (vx + 65536) ux width hux hw
  unfold bilinearPadBounds
  simp only at t1 t2 ⊢
  rw [wrapS32_of_range _ hv]
  generalize padRepeatGetScanlineBounds W vx ux width = r1 at *
  generalize padRepeatGetScanlineBounds W (vx + 65536) ux width = r2 at *
  obtain ⟨w1, l1, rr1⟩ := r1
  obtain ⟨w2, l2, rr2⟩ := r2
  simp only at t1 t2 ⊢
  obtain ⟨a1, a2, a3, a4, a5, a6, a7⟩ := t1
  obtain ⟨b1, b2, b3, b4, b5, b6, b7⟩ := t2
  -- the second call sees every coordinate one pixel further right
  have l21 : l2 ≤ l1 := by
    apply Classical.byContradiction; intro h
    have hb := b5 l1 a2 (by omega)
    rcases (by omega : l1 < l1 + w1 ∨ l1 + w1 ≤ l1) with c | c
    · have := a6 l1 (by omega) c; omega
    · have := a7 l1 c (by omega); omega
  have r12 : rr1 ≤ rr2 := by
    apply Classical.byContradiction; intro h
    have ha := a7 (l1 + w1) (by omega) (by omega)
    rcases (by omega : l1 + w1 < l2 ∨ l2 ≤ l1 + w1) with c | c
    · have := b5 (l1 + w1) (by omega) c; omega
    · have := b6 (l1 + w1) c (by omega); omega
  have mid : l1 + rr2 ≤ width := by
    apply Classical.byContradiction; intro h
    have ha := a5 (l1 - 1) (by omega) (by omega)
    have := b7 (l1 - 1) (by omega) (by omega)
    omega
  refine ⟨b2, by omega, by omega, by omega, a3, by omega, ?_, ?_, ?_, ?_, ?_⟩
  · intro k k0 k1
    have := b5 k k0 k1; omega
  · intro k k0 k1
    have ha := a5 k (by omega) (by omega)
    rcases (by omega : k < l2 + w2 ∨ l2 + w2 ≤ k) with c | c
    · have := b6 k k0 c; omega
    · have := b7 k c (by omega); omega
  · intro k k0 k1
    constructor
    · rcases (by omega : k < l1 + w1 ∨ l1 + w1 ≤ k) with c | c
      · have := a6 k (by omega) c; omega
      · have := a7 k c (by omega); omega
    · rcases (by omega : k < l2 ∨ l2 ≤ k) with c | c
      · have := b5 k (by omega) c; omega
      · have := b6 k c (by omega); omega
  · intro k k0 k1
    constructor
    · have := b7 k (by omega) (by omega); omega
    · rcases (by omega : k < l1 ∨ l1 ≤ k) with c | c
      · have := a5 k (by omega) c; omega
      · have := a6 k c (by omega); omega
  · intro k k0 k1
    exact a7 k (by omega) k1

end Pixman.Props.C08Loops

import Pixman.Model.Filter
import Pixman.Spec.Filter
import Pixman.Lemmas.Filter
import Pixman.Lemmas.FilterTable
import Pixman.Lemmas.FilterConv
import Pixman.Gen.FilterTable
/-! # C18 — separable-convolution filter tables are well-formed and sum to 1 (property theorems)

Model: `Pixman.Model.Filter` (integers only).  The double-precision part of `create_1d_filter` — sampling by
`integral()`, normalisation with error diffusion — is NOT modelled: the values it stores, `raw` (sampling loop) and
`pre` (normalisation loop, before the residual is added), are arbitrary parameters of every theorem below.

* W1  width ≥ 1 (and no 32-bit wrap in the running total, `NoWrap`): every phase sums to exactly 65536; a phase and a
      table write only their own cells; in the finished block the header is as announced, every x and every y phase
      sums to 65536, nothing at or behind `n_values` is touched; the two tables are disjoint and fill `[4, n_values)`.
* W2  the header of a block with widths < 32768 and bits ≤ 8 passes `pixman_image_set_filter`'s test; a width
      ≥ 32768 does not fit the 16.16 header (witness: rejected).
* W3  width 0 (IMPULSE reconstruction × IMPULSE sampling — `filterWidth_pos_iff`): the residual write of every
      phase lands on the cell after the phase's (empty) range; for the y table that cell is `params[n_values]`,
      outside the block.  Negation witness of design finding H for the code as it is.
* W4  for tables whose phases sum to 65536 the sum of the rounded products `(fy*fx+0x8000)>>16` is within `w·h/2` of
      65536, hence for `255·w·h < 65536` a constant 8-bit channel value is reproduced exactly by the accumulate /
      reduce arithmetic.  (For larger tables this does NOT follow and is false for real tables: see the check's
      `taps>=258` finding.) -/
namespace Pixman.Props.C18
open Pixman.Model.Filter Pixman.Spec.Filter Pixman.Lemmas.Filter

/-! ## bridges to the regenerated table -/

/-- the kernel widths the model uses are those of `filters[]` in today's pixman-filter.c -/
theorem gen_kernelWidth_eq : ∀ k, k < 8 → Pixman.Gen.FilterTable.kernelWidth k = kernelWidth k := by
  decide

/-- `filter_width` and the residual statement still have the shape the model was written for -/
theorem gen_shapes :
    Pixman.Gen.FilterTable.filterWidthExpr = "intwidth=ceil(filters[reconstruct].width+size*filters[sample].width);returnMAX(width,1);" ∧
    Pixman.Gen.FilterTable.residualStmt = "*(p-width)+=pixman_fixed_1-new_total;" ∧
    Pixman.Gen.FilterTable.kernelWidths.length = 8 := by
  decide

/-! ## filter_width -/

/-- the model's width is the ceiling of the real-valued expression, raised to 1 -/
theorem filterWidth_exact (r s : Nat) (scale : Int) :
    IsCeilWidth (kernelWidth r) (kernelWidth s) scale.natAbs (ceilWidth r s scale) ∧
    filterWidth r s scale = max (ceilWidth r s scale) 1 := by
  refine ⟨?_, rfl⟩
  unfold IsCeilWidth ceilWidth
  generalize scale.natAbs * kernelWidth s = t
  omega

example : filterWidth 6 2 98304 = 9 ∧ IsCeilWidth 6 2 98304 9 := by decide

/-- since the repair of finding H no width is 0: W1 applies to every request, W3 describes an unreachable case -/
theorem filterWidth_pos (r s : Nat) (scale : Int) : 1 ≤ filterWidth r s scale := by
  unfold filterWidth; omega

theorem kernelWidth_zero_iff : ∀ k, k < 8 → (kernelWidth k = 0 ↔ k = 0) := by decide

/-- for the eight kernels and a non-zero scale the ceiling is 0 (and the width raised to 1) exactly for
    IMPULSE × IMPULSE -/
theorem filterWidth_pos_iff (r s : Nat) (scale : Int) (hr : r < 8) (hs : s < 8) (h0 : scale ≠ 0) :
    ceilWidth r s scale = 0 ↔ (r = 0 ∧ s = 0) := by
  have kr := kernelWidth_zero_iff r hr
  have ks := kernelWidth_zero_iff s hs
  have ha : 1 ≤ scale.natAbs := by omega
  unfold ceilWidth
  constructor
  · intro h
    have hsw : kernelWidth s = 0 := by
      rcases Nat.eq_zero_or_pos (kernelWidth s) with h1 | h1
      · exact h1
      · have : 1 ≤ scale.natAbs * kernelWidth s := Nat.mul_pos ha h1
        generalize scale.natAbs * kernelWidth s = t at *
        omega
    rw [hsw] at h
    simp only [Nat.mul_zero, Nat.add_zero] at h
    exact ⟨kr.1 (by omega), ks.1 hsw⟩
  · rintro ⟨rfl, rfl⟩
    simp [kernelWidth]

example : ceilWidth 0 0 65536 = 0 ∧ filterWidth 0 0 65536 = 1 ∧ filterWidth 0 1 1 = 1 ∧ filterWidth 1 0 (-5) = 1 := by decide

/-- the first tap of a phase is the ceiling the C code computes -/
theorem firstTap_exact (w n i : Nat) (hn : 1 ≤ n) : IsFirstTap w n i (firstTap w n i) := by
  unfold IsFirstTap firstTap
  generalize (w : Int) * n = t
  have : (1 : Int) ≤ n := by omega
  generalize (n : Int) = N at *
  constructor
  · have := Int.mul_ediv_self_le (x := t + N - (2 * (i : Int) + 1)) (k := 2 * N) (by omega)
    have e : 2 * N * -((t + N - (2 * (i : Int) + 1)) / (2 * N)) = -(2 * N * ((t + N - (2 * (i : Int) + 1)) / (2 * N))) := by
      rw [Int.mul_neg]
    rw [e]; omega
  · have := Int.lt_mul_ediv_self_add (x := t + N - (2 * (i : Int) + 1)) (k := 2 * N) (by omega)
    have e : 2 * N * (-((t + N - (2 * (i : Int) + 1)) / (2 * N)) - 1) = -(2 * N * ((t + N - (2 * (i : Int) + 1)) / (2 * N))) - 2 * N := by
      rw [Int.mul_sub, Int.mul_neg]; omega
    rw [e]; omega

example : firstTap 6 2 0 = -3 ∧ firstTap 6 2 1 = -2 ∧ firstTap 9 4 3 = -4 := by decide

/-! ## W1 -/

/-- W1 (phase): the cells of a phase of width ≥ 1 sum to exactly 65536 — whatever the sampled and the
    normalised values are -/
theorem W1_phase_sum (w : Nat) (raw pre : Nat → Int) (p : Nat) (m : Mem) (hw : 1 ≤ w) (hs : p + w ≤ m.size)
    (h : NoWrap w pre) : sumCells (phase w raw pre p m).2 p w = one :=
  phase_sum w raw pre p m hw hs h

/-- W1 (phase): all writes of a phase of width ≥ 1 lie in its own `w` cells, and `p` advances by `w` -/
theorem W1_phase_frame (w : Nat) (raw pre : Nat → Int) (p : Nat) (m : Mem) (hw : 1 ≤ w) :
    (phase w raw pre p m).1 = p + w ∧ (phase w raw pre p m).2.size = m.size ∧
    ∀ j, (j < p ∨ p + w ≤ j) → rd (phase w raw pre p m).2 j = rd m j :=
  ⟨phase_fst _ _ _ _ _, phase_size _ _ _ _ _, fun j h => phase_outside _ _ _ _ _ j hw h⟩

/-- a non-trivial instance: error diffusion left 65535, the first tap receives the missing unit -/
example : (phase 3 (fun _ => 7) (fun k => [16384, 32767, 16384].getD k 0) 4 (Array.replicate 8 (-1))).2.toList
    = [-1, -1, -1, -1, 16385, 32767, 16384, -1] := by decide
example : NoWrap 3 (fun k => [16384, 32767, 16384].getD k 0) := by
  refine ⟨?_, by decide, by decide⟩
  intro j hj
  have : j = 0 ∨ j = 1 ∨ j = 2 ∨ j = 3 := by omega
  rcases this with rfl | rfl | rfl | rfl <;> decide

/-- W1 (table): every phase of a table of width ≥ 1 sums to exactly 65536 -/
theorem W1_table_sums (w : Nat) (raw pre : Nat → Nat → Int) (n p : Nat) (m : Mem) (hw : 1 ≤ w)
    (hs : p + n * w ≤ m.size) (h : ∀ a, a < n → NoWrap w (pre a)) (a : Nat) (ha : a < n) :
    sumCells (create1d w raw pre n 0 p m).2 (p + a * w) w = one :=
  create1d_sums w raw pre n 0 p m hw hs (by intro b hb; simpa using h b hb) a ha

/-- W1 (table): `create_1d_filter` with width ≥ 1 writes only inside `[p, p + n·w)` and returns there -/
theorem W1_table_frame (w : Nat) (raw pre : Nat → Nat → Int) (n p : Nat) (m : Mem) (hw : 1 ≤ w) :
    (create1d w raw pre n 0 p m).1 = p + n * w ∧ (create1d w raw pre n 0 p m).2.size = m.size ∧
    ∀ j, (j < p ∨ p + n * w ≤ j) → rd (create1d w raw pre n 0 p m).2 j = rd m j :=
  ⟨create1d_fst _ _ _ _ _ _ _, create1d_size _ _ _ _ _ _ _, fun j h => create1d_outside _ _ _ _ _ _ _ j hw h⟩

/-- W1 (layout): the x table starts at 4, the y table where the x table ends, and the y table ends at
    `n_values`: the tables are disjoint and exactly fill `[4, n_values)` -/
theorem W1_layout (wx bx wy by_ : Nat) (hr : 4 + wx * 2 ^ bx + wy * 2 ^ by_ < 2147483648) :
    xOffset = 4 ∧ xOffset + wx * 2 ^ bx = yOffset wx bx ∧
    ((yOffset wx bx + wy * 2 ^ by_ : Nat) : Int) = nValues wx bx wy by_ := by
  refine ⟨rfl, rfl, ?_⟩
  unfold yOffset nValues
  have ea : ((wx : Int) * 2 ^ bx) = ((wx * 2 ^ bx : Nat) : Int) := by push_cast; rfl
  have eb : ((wy : Int) * 2 ^ by_) = ((wy * 2 ^ by_ : Nat) : Int) := by push_cast; rfl
  rw [ea, eb]
  generalize wx * 2 ^ bx = a at *
  generalize wy * 2 ^ by_ = b at *
  rw [wrap32_id]
  · push_cast; omega
  · unfold InI32; omega

/-- the range hypothesis of `W1_layout` holds for every width the eight kernels can produce (≤ 8 + 8·32768)
    with bits ≤ 8 -/
theorem nValues_in_range (wx bx wy by_ : Nat) (hx : wx ≤ 262152) (hy : wy ≤ 262152) (hbx : bx ≤ 8) (hby : by_ ≤ 8) :
    4 + wx * 2 ^ bx + wy * 2 ^ by_ < 2147483648 := by
  have h1 : 2 ^ bx ≤ 2 ^ 8 := Nat.pow_le_pow_right (by omega) hbx
  have h2 : 2 ^ by_ ≤ 2 ^ 8 := Nat.pow_le_pow_right (by omega) hby
  have a := Nat.mul_le_mul hx h1
  have b := Nat.mul_le_mul hy h2
  generalize wx * 2 ^ bx = u at *
  generalize wy * 2 ^ by_ = v at *
  omega

/-- W1 (block): with both widths ≥ 1 the finished block carries the announced header, every x phase and every
    y phase sums to exactly 65536, and no cell at or behind `n_values` has been written -/
theorem W1_block (wx bx wy by_ : Nat) (rawx prex rawy prey : Nat → Nat → Int) (m : Mem)
    (hwx : 1 ≤ wx) (hwy : 1 ≤ wy) (hs : 4 + wx * 2 ^ bx + wy * 2 ^ by_ ≤ m.size)
    (hx : ∀ a, a < 2 ^ bx → NoWrap wx (prex a)) (hy : ∀ b, b < 2 ^ by_ → NoWrap wy (prey b)) :
    let M := createBlock wx bx wy by_ rawx prex rawy prey m
    M.size = m.size ∧
    [rd M 0, rd M 1, rd M 2, rd M 3] = header wx bx wy by_ ∧
    (∀ a, a < 2 ^ bx → sumCells M (xOffset + a * wx) wx = one) ∧
    (∀ b, b < 2 ^ by_ → sumCells M (yOffset wx bx + b * wy) wy = one) ∧
    (∀ j, 4 + wx * 2 ^ bx + wy * 2 ^ by_ ≤ j → rd M j = rd m j) := by
  intro M
  -- names for the stages
  let m4 := wr (wr (wr (wr m 0 (intToFixed wx)) 1 (intToFixed wy)) 2 (intToFixed bx)) 3 (intToFixed by_)
  have hm4s : m4.size = m.size := by simp only [m4, wr_size]
  let mx := (create1d wx rawx prex (2 ^ bx) 0 xOffset m4).2
  have hMdef : M = (create1d wy rawy prey (2 ^ by_) 0 (yOffset wx bx) mx).2 := rfl
  have hmxs : mx.size = m.size := by simp only [mx, create1d_size, hm4s]
  have hyo : yOffset wx bx = 4 + 2 ^ bx * wx := by unfold yOffset; rw [Nat.mul_comm]
  have hs' : 4 + 2 ^ bx * wx + 2 ^ by_ * wy ≤ m.size := by
    rw [Nat.mul_comm (2 ^ bx), Nat.mul_comm (2 ^ by_)]; exact hs
  -- reads of M below the y table come from mx; reads of mx below 4 come from m4
  have hMlow : ∀ j, j < yOffset wx bx → rd M j = rd mx j := by
    intro j hj; rw [hMdef]; exact create1d_outside _ _ _ _ _ _ _ j hwy (Or.inl hj)
  have hmxlow : ∀ j, j < 4 → rd mx j = rd m4 j := by
    intro j hj; exact create1d_outside _ _ _ _ _ _ _ j hwx (Or.inl (by unfold xOffset; omega))
  have hylow : 4 ≤ yOffset wx bx := by unfold yOffset; omega
  refine ⟨?_, ?_, ?_, ?_, ?_⟩
  · rw [hMdef, create1d_size, hmxs]
  · have r0 : rd M 0 = intToFixed wx := by
      rw [hMlow 0 (by omega), hmxlow 0 (by omega)]
      simp only [m4]
      rw [rd_wr_ne _ _ _ _ (by omega), rd_wr_ne _ _ _ _ (by omega), rd_wr_ne _ _ _ _ (by omega),
        rd_wr_same _ _ _ (by omega)]
    have r1 : rd M 1 = intToFixed wy := by
      rw [hMlow 1 (by omega), hmxlow 1 (by omega)]
      simp only [m4]
      rw [rd_wr_ne _ _ _ _ (by omega), rd_wr_ne _ _ _ _ (by omega), rd_wr_same _ _ _ (by rw [wr_size]; omega)]
    have r2 : rd M 2 = intToFixed bx := by
      rw [hMlow 2 (by omega), hmxlow 2 (by omega)]
      simp only [m4]
      rw [rd_wr_ne _ _ _ _ (by omega), rd_wr_same _ _ _ (by simp only [wr_size]; omega)]
    have r3 : rd M 3 = intToFixed by_ := by
      rw [hMlow 3 (by omega), hmxlow 3 (by omega)]
      simp only [m4]
      rw [rd_wr_same _ _ _ (by simp only [wr_size]; omega)]
    rw [r0, r1, r2, r3]; rfl
  · intro a ha
    have hx' := create1d_sums wx rawx prex (2 ^ bx) 0 xOffset m4 hwx
      (by rw [hm4s]; unfold xOffset; omega) (by intro b hb; simpa using hx b hb) a ha
    rw [sumCells_congr M mx]
    · exact hx'
    · intro j h1 h2
      apply hMlow
      have : a * wx + wx ≤ 2 ^ bx * wx := by
        have := Nat.mul_le_mul_right wx (show a + 1 ≤ 2 ^ bx by omega)
        rw [Nat.succ_mul] at this; exact this
      rw [hyo]; unfold xOffset at h2; omega
  · intro b hb
    rw [hMdef]
    exact create1d_sums wy rawy prey (2 ^ by_) 0 (yOffset wx bx) mx hwy
      (by rw [hmxs, hyo]; omega) (by intro c hc; simpa using hy c hc) b hb
  · intro j hj
    have hj' : 4 + 2 ^ bx * wx + 2 ^ by_ * wy ≤ j := by
      rw [Nat.mul_comm (2 ^ bx), Nat.mul_comm (2 ^ by_)]; exact hj
    rw [hMdef, create1d_outside _ _ _ _ _ _ _ j hwy (Or.inr (by rw [hyo]; omega))]
    show rd (create1d wx rawx prex (2 ^ bx) 0 xOffset m4).2 j = rd m j
    rw [create1d_outside _ _ _ _ _ _ _ j hwx (Or.inr (by unfold xOffset; omega))]
    simp only [m4]
    rw [rd_wr_ne _ _ _ _ (by omega), rd_wr_ne _ _ _ _ (by omega), rd_wr_ne _ _ _ _ (by omega),
      rd_wr_ne _ _ _ _ (by omega)]

/-- a complete small block: widths 2 and 1, one x phase, two y phases, one guard cell (value 7) behind it -/
example : (createBlock 2 0 1 1 (fun _ _ => 0) (fun _ k => [30000, 35535].getD k 0) (fun _ _ => 0) (fun _ _ => 65536)
    (Array.replicate 9 7)).toList = [131072, 65536, 0, 65536, 30001, 35535, 65536, 65536, 7] := by decide

/-! ## W2 -/

theorem intToFixed_small (w : Nat) (h : w < 32768) : intToFixed w = (w : Int) * 65536 := by
  unfold intToFixed; apply wrap32_id; unfold InI32; omega

theorem fixedToInt_intToFixed (w : Nat) (h : w < 32768) : fixedToInt (intToFixed w) = w := by
  rw [intToFixed_small w h]; unfold fixedToInt; omega

/-- W2: the header written by `pixman_filter_create_separable_convolution` satisfies the `n_params` equation of
    `pixman_image_set_filter`, for every width below 32768 and every subsampling depth up to 8 -/
theorem W2_set_filter_accepts (wx bx wy by_ : Nat) (hx : wx < 32768) (hy : wy < 32768) (hbx : bx ≤ 8) (hby : by_ ≤ 8) :
    setFilterAccepts (intToFixed wx) (intToFixed wy) (intToFixed bx) (intToFixed by_) (nValues wx bx wy by_) = true := by
  unfold setFilterAccepts
  simp only [fixedToInt_intToFixed wx hx, fixedToInt_intToFixed wy hy, fixedToInt_intToFixed bx (by omega),
    fixedToInt_intToFixed by_ (by omega)]
  have s1 : shl1 (bx : Int) = ((2 ^ bx : Nat) : Int) := by
    unfold shl1; rw [if_pos (by omega)]; simp
  have s2 : shl1 (by_ : Int) = ((2 ^ by_ : Nat) : Int) := by
    unfold shl1; rw [if_pos (by omega)]; simp
  rw [s1, s2]
  have h1 : 2 ^ bx ≤ 2 ^ 8 := Nat.pow_le_pow_right (by omega) hbx
  have h2 : 2 ^ by_ ≤ 2 ^ 8 := Nat.pow_le_pow_right (by omega) hby
  have a := Nat.mul_le_mul (Nat.le_of_lt hx) h1
  have b := Nat.mul_le_mul (Nat.le_of_lt hy) h2
  unfold nValues
  rw [Int.mul_comm ((2 ^ bx : Nat) : Int), Int.mul_comm ((2 ^ by_ : Nat) : Int)]
  have ea : ((wx : Int) * ((2 ^ bx : Nat) : Int)) = ((wx * 2 ^ bx : Nat) : Int) := by push_cast; rfl
  have eb : ((wy : Int) * ((2 ^ by_ : Nat) : Int)) = ((wy * 2 ^ by_ : Nat) : Int) := by push_cast; rfl
  rw [ea, eb]
  have ec : (4 + (wx : Int) * 2 ^ bx + (wy : Int) * 2 ^ by_) = 4 + ((wx * 2 ^ bx : Nat) : Int) + ((wy * 2 ^ by_ : Nat) : Int) := by
    push_cast; rfl
  rw [ec]
  generalize wx * 2 ^ bx = u at *
  generalize wy * 2 ^ by_ = v at *
  rw [wrap32_id (u : Int) (by unfold InI32; omega), wrap32_id (v : Int) (by unfold InI32; omega)]
  simp

example : setFilterAccepts 589824 524288 131072 196608 104 = true := by decide

/-- a width of 32768 or more does not fit the 16.16 header word: BOX × LANCZOS3_STRETCHED at scale 4096.0 has width
    32769, `params[0]` would read back as −32767 and `pixman_image_set_filter` would reject the block — which is why
    `pixman_filter_create_separable_convolution` now refuses such widths; every block it does return is accepted
    (`W2_set_filter_accepts`, whose width hypotheses are exactly `createRefuses = false`) -/
theorem W2_header_wraps_rejected :
    filterWidth 1 7 268435456 = 32769 ∧ createRefuses 32769 2 = true ∧ fixedToInt (intToFixed 32769) = -32767 ∧
    setFilterAccepts (intToFixed 32769) (intToFixed 2) (intToFixed 0) (intToFixed 0) (nValues 32769 0 2 0) = false := by
  decide

/-! ## W3 — width 0 -/

/-- W3 (phase): with width 0 both loops are empty and `*(p - width) += pixman_fixed_1 - new_total` adds 65536 to the
    cell `p` itself — the first cell AFTER the phase's empty range `[p, p + 0)` -/
theorem W3_width0_phase (raw pre : Nat → Int) (p : Nat) (m : Mem) :
    phase 0 raw pre p m = (p, wr m p (wrap32 (rd m p + 65536))) ∧ ¬ (p < p + 0) ∧ sumCells (phase 0 raw pre p m).2 p 0 = 0 :=
  ⟨phase_width0 raw pre p m, by omega, rfl⟩

/-- W3 (table): a table of width 0 with `n ≥ 1` phases never advances `p`, leaves every other cell alone and adds
    `n · 65536` (mod 2^32) to the cell at `p`, which belongs to whatever follows the table -/
theorem W3_width0_table (raw pre : Nat → Nat → Int) (n p : Nat) (m : Mem) (hp : p < m.size) (hn : 1 ≤ n) :
    (create1d 0 raw pre n 0 p m).1 = p ∧
    (∀ j, j ≠ p → rd (create1d 0 raw pre n 0 p m).2 j = rd m j) ∧
    rd (create1d 0 raw pre n 0 p m).2 p = wrap32 (rd m p + n * 65536) :=
  ⟨create1d_width0_fst _ _ _ _ _ _, fun j h => create1d_width0_outside _ _ _ _ _ _ j h,
   create1d_width0_cell _ _ _ _ _ _ hp hn⟩

/-- W3 (block): when the y table has width 0 its residual writes hit `params[n_values]`: the block has `n_values`
    cells, the written index is `n_values` itself, and the cell changes (here: any in-range cell value `g`) -/
theorem W3_width0_outside_block (wx bx by_ : Nat) (rawx prex rawy prey : Nat → Nat → Int) (m : Mem) (hwx : 1 ≤ wx)
    (hr : 4 + wx * 2 ^ bx < 2147483648) (hs : 4 + wx * 2 ^ bx < m.size) :
    ((yOffset wx bx : Nat) : Int) = nValues wx bx 0 by_ ∧
    rd (createBlock wx bx 0 by_ rawx prex rawy prey m) (yOffset wx bx)
      = wrap32 (rd m (yOffset wx bx) + (2 ^ by_ : Nat) * 65536) := by
  constructor
  · have := (W1_layout wx bx 0 by_ (by simpa using hr)).2.2
    simpa using this
  · unfold createBlock
    have hpos : 1 ≤ 2 ^ by_ := Nat.one_le_two_pow
    rw [create1d_width0_cell _ _ _ _ _ _ (by simp only [create1d_size, wr_size]; unfold yOffset; omega) hpos]
    congr 2
    have hyo : yOffset wx bx = xOffset + 2 ^ bx * wx := by unfold yOffset xOffset; rw [Nat.mul_comm]
    rw [create1d_outside _ _ _ _ _ _ _ _ hwx (Or.inr (by rw [hyo]; omega))]
    have : 4 ≤ yOffset wx bx := by unfold yOffset; omega
    rw [rd_wr_ne _ _ _ _ (by omega), rd_wr_ne _ _ _ _ (by omega), rd_wr_ne _ _ _ _ (by omega),
      rd_wr_ne _ _ _ _ (by omega)]

/-- IMPULSE × IMPULSE on both axes, one phase each: a block of 4 values; the cell behind it (canary −1515870811 in
    the harness) receives both residuals -/
example : (createBlock 0 0 0 0 (fun _ _ => 0) (fun _ _ => 0) (fun _ _ => 0) (fun _ _ => 0)
    (Array.replicate 5 (-1515870811))).toList = [0, 0, 0, 0, -1515739739] := by decide

/-! ## W4 — a constant image stays constant -/

/-- W4 (weights): for coefficient lists that each sum to 65536, the rounded products `(fy*fx+0x8000)>>16` the
    fetchers accumulate sum to 65536 up to half a unit per product -/
theorem W4_weight_sum_bound (fxs fys : List Int) (hx : sumList fxs = one) (hy : sumList fys = one) :
    convAcc 1 fxs fys = allW fxs fys ∧
    -((fxs.length * fys.length : Nat) : Int) ≤ 2 * (allW fxs fys - 65536) ∧
    2 * (allW fxs fys - 65536) ≤ ((fxs.length * fys.length : Nat) : Int) := by
  have hb := allW_bounds fxs fys
  rw [hx, hy] at hb
  unfold one at hb
  refine ⟨by rw [convAcc_eq]; omega, ?_, ?_⟩ <;> omega

/-- W4: with both phases summing to 65536 and `255 · w · h < 65536`, every constant 8-bit channel value `c` comes
    out of the accumulate/reduce arithmetic of `bits_image_fetch_pixel_separable_convolution` (and of the affine
    fast path) unchanged -/
theorem W4_constant_stays_constant (fxs fys : List Int) (c : Int) (hx : sumList fxs = one) (hy : sumList fys = one)
    (hn : 255 * (fxs.length * fys.length) < 65536) (hc0 : 0 ≤ c) (hc1 : c ≤ 255) :
    convConstant c fxs fys = c := by
  obtain ⟨_, hlo, hhi⟩ := W4_weight_sum_bound fxs fys hx hy
  unfold convConstant
  rw [convAcc_eq]
  generalize allW fxs fys = W at *
  generalize fxs.length * fys.length = n at *
  have hN : (n : Int) ≤ 257 := by omega
  generalize (n : Int) = N at *
  -- W = 65536 + d with |d| ≤ 128
  obtain ⟨d, rfl⟩ : ∃ d, W = 65536 + d := ⟨W - 65536, by omega⟩
  have hd1 : -128 ≤ d := by omega
  have hd2 : d ≤ 128 := by omega
  have hcd1 : c * d ≤ 255 * 128 := by
    rcases Int.le_total 0 d with h | h
    · exact Int.mul_le_mul hc1 hd2 h (by omega)
    · have : c * d ≤ 0 := Int.mul_nonpos_of_nonneg_of_nonpos hc0 h
      omega
  have hcd2 : -(255 * 128) ≤ c * d := by
    rcases Int.le_total 0 d with h | h
    · have : 0 ≤ c * d := Int.mul_nonneg hc0 h
      omega
    · have : c * (-d) ≤ 255 * 128 := Int.mul_le_mul hc1 (by omega) (by omega) (by omega)
      rw [Int.mul_neg] at this; omega
  rw [Int.mul_add]
  generalize c * d = e at *
  unfold reduce
  rw [wrap32_id (c * 65536 + e) (by unfold InI32; omega), wrap32_id _ (by unfold InI32; omega)]
  have : (c * 65536 + e + 32768) / 65536 = c := by omega
  rw [this]
  unfold clip255
  rw [if_neg (by omega), if_neg (by omega)]

/-- two real phases (LINEAR × BOX at scale 1, bits 1): colour 200 stays 200 -/
example : sumList [49152, 16384] = one ∧ sumList [16384, 49152] = one ∧
    convConstant 200 [49152, 16384] [16384, 49152] = 200 := by decide

end Pixman.Props.C18

/-
  C15 — any allocation failure is survived (region code, constructors): property theorems.
  Every theorem holds for EVERY failure schedule `s : Nat → Bool` (single, persistent or any
  other pattern), every operand (any capacities), no size bound.

  F1  status FALSE ⇒ the result is the broken region; TRUE ⇒ the result refines the failure-free
      `Pixman.Region` operation (whose exactness is C05/C06).
  F2  broken operands propagate (with the return values the C code really gives).
  F3  heap discipline: every model function transfers ownership correctly (`Own`), hence for every
      operation history no block is freed twice and after fini of all regions every block was
      freed exactly once.
  F4  constructors as allocation sequences: NULL ⇒ nothing stays allocated.

  validate is modelled with the literal quick_sort_rects; `quick_sort_rects_sorts` proves that it
  returns a sorted permutation, hence (canonical forms are unique, C06) validate, init_rects and
  translate refine `Region.validateRects / initRects / translate` although the model there uses an
  insertion sort.  validate (bail paths included), init_rects, translate, init_from_image and the
  16<->32 conversions are commands of `history_heap_discipline`.

  Remaining gap (no `_partial` theorem depends on it): the capacity-event list of the band sweep
  and of the bitmap row scan is tied to the C code by the correspondence check only.
-/
import Pixman.Lemmas.RegionAllocMisc
import Pixman.Lemmas.RegionAllocHistory
import Pixman.Lemmas.RegionAllocValidate
namespace Pixman.Props.C15
open Pixman.Region Pixman.Model.RegionAlloc Pixman.Spec.AllocFail

theorem broken_of_isBroken {r : RegionA} (h : r.isBroken = true) : Broken r := by
  obtain ⟨e, d⟩ := r
  cases d <;> simp_all [RegionA.isBroken, Broken]

theorem broken_brkA : Broken brkA := broken_of_isBroken isBroken_brkA

/-! ## F1 -/

theorem pixmanBreak_broken (r : RegionA) (h : Heap) : Broken (pixmanBreak r h).1 := broken_brkA

theorem rectAlloc_false_broken {c : Cfg} {s : Sched} {r : RegionA} {n : Nat} {h : Heap}
    (hf : (rectAlloc c s r n h).1 = false) : Broken (rectAlloc c s r n h).2.1 := by
  rw [rectAlloc_false hf]; exact broken_brkA

theorem rectAlloc_true_erase {c : Cfg} {s : Sched} {r : RegionA} {n : Nat} {h : Heap}
    (ht : (rectAlloc c s r n h).1 = true) :
    (rectAlloc c s r n h).2.1.extents = r.extents ∧ (rectAlloc c s r n h).2.1.rects = r.rects :=
  rectAlloc_true ht

/-- PIXREGION_SZOF returning 0 breaks the region without an allocation request -/
theorem szof_guard_breaks {c : Cfg} {s : Sched} {e : Box} {n : Nat} {h : Heap} (hz : szof c n = 0) :
    (rectAlloc c s ⟨e, .emptyStatic⟩ n h).1 = false ∧ Broken (rectAlloc c s ⟨e, .emptyStatic⟩ n h).2.1 ∧
    (rectAlloc c s ⟨e, .emptyStatic⟩ n h).2.2.k = h.k := by
  have := szof_guard (c := c) (s := s) (r := ⟨e, .emptyStatic⟩) (h := h) rfl hz
  exact ⟨this.1, by rw [this.2.1]; exact broken_brkA, this.2.2⟩

example : szof c32 (2 ^ 28) = 0 := by decide
example : szof c16 (2 ^ 29) = 0 := by decide
example : szof c32 1000 = 16016 := by decide

theorem copyA_survives {c : Cfg} {s : Sched} {same : Bool} {dst src : RegionA} {h : Heap}
    (hs : same = true → dst = src) (hne : NoEmptyHeap src) :
    Survives (copy dst.erase src.erase, true) (copyA c s same dst src h) :=
  ⟨fun hf => by rw [copyA_false hf]; exact broken_brkA, fun ht => by rw [copyA_true hs hne ht]⟩

theorem pixmanOpA_survives {c : Cfg} {s : Sched} {k : OpKind} {a1 a2 : Bool} {al : Alias}
    {nr r1 r2 : RegionA} {h : Heap} :
    Survives (pixmanOp k a1 a2 nr.erase r1.erase r2.erase) (pixmanOpA c s k a1 a2 al nr r1 r2 h) :=
  ⟨fun hf => by rw [pixmanOpA_false hf]; exact broken_brkA, fun ht => pixmanOpA_true ht⟩

theorem intersectA_survives {c : Cfg} {s : Sched} {same12 : Bool} {al : Alias} {nr r1 r2 : RegionA} {h : Heap}
    (ok : AliasOK al same12 nr r1 r2) (n1 : NoEmptyHeap r1) (n2 : NoEmptyHeap r2) :
    Survives (intersect same12 nr.erase r1.erase r2.erase) (intersectA c s same12 al nr r1 r2 h) :=
  ⟨fun hf => broken_of_isBroken (intersectA_false hf), fun ht => intersectA_true ok n1 n2 ht⟩

theorem unionA_survives {c : Cfg} {s : Sched} {same12 : Bool} {al : Alias} {nr r1 r2 : RegionA} {h : Heap}
    (ok : AliasOK al same12 nr r1 r2) (n1 : NoEmptyHeap r1) (n2 : NoEmptyHeap r2) :
    Survives (union same12 al nr.erase r1.erase r2.erase) (unionA c s same12 al nr r1 r2 h) :=
  ⟨fun hf => broken_of_isBroken (unionA_false hf), fun ht => unionA_true ok n1 n2 ht⟩

theorem subtractA_survives {c : Cfg} {s : Sched} {sameMS : Bool} {al : Alias} {rd rm rs : RegionA} {h : Heap}
    (ok : AliasOK al sameMS rd rm rs) (nm : NoEmptyHeap rm) :
    Survives (subtract sameMS rd.erase rm.erase rs.erase) (subtractA c s sameMS al rd rm rs h) :=
  ⟨fun hf => broken_of_isBroken (subtractA_false hf), fun ht => subtractA_true ok nm ht⟩

theorem inverseA_survives {c : Cfg} {s : Sched} {same : Bool} {nr r1 : RegionA} {b : Box} {h : Heap} :
    Survives (inverse nr.erase r1.erase b) (inverseA c s same nr r1 b h) :=
  ⟨fun hf => broken_of_isBroken (inverseA_false hf), fun ht => inverseA_true ht⟩

theorem erase_rectRegion (e : Box) (b : Bool) :
    (RegionA.mk e (if b then DataA.emptyStatic else DataA.single)).erase =
      ⟨e, if b then Data.emptyStatic else Data.single⟩ := by
  cases b <;> rfl

theorem intersectRectA_survives {c : Cfg} {s : Sched} {same : Bool} {d a : RegionA} {x y : Int} {w hh : Nat}
    {h : Heap} (hs : same = true → d = a) (na : NoEmptyHeap a) :
    Survives (intersectRect c d.erase a.erase x y w hh) (intersectRectA c s same d a x y w hh h) := by
  have ok : AliasOK (if same then Alias.first else Alias.none) false d a
      ⟨rectOf c x y w hh, if !goodRect (rectOf c x y w hh) then .emptyStatic else .single⟩ :=
    ⟨fun h1 => hs (by cases same <;> simp_all), fun h2 => by cases same <;> simp at h2, fun h3 => by cases h3⟩
  have nr : NoEmptyHeap ⟨rectOf c x y w hh, if !goodRect (rectOf c x y w hh) then .emptyStatic else .single⟩ := by
    intro id sz; cases (!goodRect (rectOf c x y w hh)) <;> simp
  have := intersectA_survives (c := c) (s := s) (h := h) ok na nr
  rw [erase_rectRegion] at this
  exact this

theorem unionRectA_survives {c : Cfg} {s : Sched} {same : Bool} {d a : RegionA} {x y : Int} {w hh : Nat}
    {h : Heap} (hs : same = true → d = a) (na : NoEmptyHeap a) :
    Survives (unionRect c (if same then Alias.first else Alias.none) d.erase a.erase x y w hh)
      (unionRectA c s same d a x y w hh h) := by
  unfold unionRectA unionRect
  by_cases hg : (!goodRect (rectOf c x y w hh)) = true
  · have hg' : (!goodRect ⟨wrapS c.bits x, wrapS c.bits y, wrapS c.bits (x + w), wrapS c.bits (y + hh)⟩) = true := hg
    simp only [hg, hg', if_true]
    exact copyA_survives hs na
  · have hg' : ¬ (!goodRect ⟨wrapS c.bits x, wrapS c.bits y, wrapS c.bits (x + w), wrapS c.bits (y + hh)⟩) = true := hg
    simp only [hg, hg', Bool.false_eq_true, if_false]
    have ok : AliasOK (if same then Alias.first else Alias.none) false d a ⟨rectOf c x y w hh, .single⟩ :=
      ⟨fun h1 => hs (by cases same <;> simp_all), fun h2 => by cases same <;> simp at h2, fun h3 => by cases h3⟩
    exact unionA_survives ok na (by intro id sz; simp)

/-- quick_sort_rects (modelled literally: middle pivot, Hoare partition, recursion right / loop left)
    returns a permutation of its input sorted by (y1, x1) -/
theorem quick_sort_rects_sorts (l : List Box) :
    (quickSortRects l).Perm l ∧ (quickSortRects l).Pairwise KeyLe := quickSortRects_spec l

/-- validate on a malloc'ed block of ≥ 1 non-degenerate rectangles: FALSE ⇒ broken;
    TRUE ⇒ exactly `Region.validateRects` (C05: canonical, the union of the rectangles) -/
theorem validateA_survives {c : Cfg} {s : Sched} {id size : Nat} {l : List Box} {h : Heap}
    (hg : ∀ b ∈ l, goodRect b = true) (hne : l ≠ []) :
    Survives (validateRects l, true) (validateA c s id size l h) :=
  ⟨fun hf => by rw [validateA_false hf]; exact broken_brkA,
   fun ht => by rw [validateA_erase c s id size l h ht, validateCore_quickSort l hg hne]⟩

/-- pixman_region_init_rects, any list of boxes (overlapping, degenerate, any order) -/
theorem initRectsA_survives {c : Cfg} {s : Sched} {boxes : List Box} {h : Heap} :
    Survives (initRects c boxes) (initRectsA c s boxes h) :=
  ⟨fun hf => by rw [initRectsA_false hf]; exact broken_brkA, fun ht => initRectsA_true c s boxes h ht⟩

/-- pixman_region_translate (void) on a region with non-degenerate rectangles: the result is the
    broken region (validate's allocation refused) or exactly `Region.translate` -/
theorem translateA_refines_or_broken {c : Cfg} {s : Sched} {r : RegionA} {dx dy : Int} {h : Heap}
    (hg : ∀ b ∈ r.rects, goodRect b = true) :
    Broken (translateA c s r dx dy h).1 ∨ (translateA c s r dx dy h).1.erase = translate c r.erase dx dy := by
  rcases translateA_refines c s r dx dy h hg with hb | hr
  · left; rw [hb]; exact broken_brkA
  · right; exact hr

/-- the 16<->32 conversions of pixman-utils.c: TRUE ⇒ the failure-free conversion; FALSE ⇒ the
    destination is broken or (temporary box array refused) exactly as it was -/
theorem conv16_outcome (s : Sched) (dst src : RegionA) (h : Heap) :
    ((region16From32A s dst src h).1 = true →
      ((region16From32A s dst src h).2.1.erase, true) = region16FromRegion32 src.erase) ∧
    ((region16From32A s dst src h).1 = false →
      Broken (region16From32A s dst src h).2.1 ∨ (region16From32A s dst src h).2.1 = dst) := by
  have := region16From32A_outcome s dst src h
  exact ⟨this.1, fun hf => (this.2 hf).imp (fun e => by rw [e]; exact broken_brkA) id⟩

theorem conv32_outcome (s : Sched) (dst src : RegionA) (h : Heap) :
    ((region32From16A s dst src h).1 = true →
      ((region32From16A s dst src h).2.1.erase, true) = region32FromRegion16 src.erase) ∧
    ((region32From16A s dst src h).1 = false →
      Broken (region32From16A s dst src h).2.1 ∨ (region32From16A s dst src h).2.1 = dst) := by
  have := region32From16A_outcome s dst src h
  exact ⟨this.1, fun hf => (this.2 hf).imp (fun e => by rw [e]; exact broken_brkA) id⟩

/-- init_from_image (void): the broken region, or exactly `Region.initFromImage` -/
theorem initFromImageA_refines_or_broken (c : Cfg) (s : Sched) (w : Nat) (rows : List (List Bool)) (h : Heap) :
    Broken (initFromImageA c s w rows h).1 ∨ (initFromImageA c s w rows h).1.erase = initFromImage w rows := by
  rcases initFromImageA_exact c s w rows h with hb | hr
  · left; rw [hb]; exact broken_brkA
  · right; exact hr

-- non-vacuity: a copy whose one allocation is refused, and the same copy succeeding
example : (copyA c32 (Sched.single 0) false initA ⟨⟨0, 0, 2, 4⟩, .heap 0 2 [⟨0, 0, 2, 2⟩, ⟨0, 2, 1, 4⟩]⟩ Heap.empty).1 = false := by decide
example : (copyA c32 (Sched.single 1) false initA ⟨⟨0, 0, 2, 4⟩, .heap 0 2 [⟨0, 0, 2, 2⟩, ⟨0, 2, 1, 4⟩]⟩ Heap.empty).1 = true := by decide
example : NoEmptyHeap ⟨⟨0, 0, 2, 4⟩, .heap 0 2 [⟨0, 0, 2, 2⟩, ⟨0, 2, 1, 4⟩]⟩ := by intro id sz; simp
example : AliasOK .first false initA initA brkA :=
  { first := fun _ => rfl, second := fun h => by simp at h, same := fun h => by simp at h }

/-! ## F2 -/

theorem pixmanOpA_broken_operand {c : Cfg} {s : Sched} {k : OpKind} {a1 a2 : Bool} {al : Alias}
    {nr r1 r2 : RegionA} {h : Heap} (hn : r1.nar = true ∨ r2.nar = true) :
    (pixmanOpA c s k a1 a2 al nr r1 r2 h).1 = false ∧ Broken (pixmanOpA c s k a1 a2 al nr r1 r2 h).2.1 := by
  have := pixmanOpA_nar (c := c) (s := s) (k := k) (a1 := a1) (a2 := a2) (al := al) (nr := nr) (h := h)
    (r1 := r1) (r2 := r2) (by rcases hn with h | h <;> simp [h])
  exact ⟨this.1, by rw [this.2]; exact broken_brkA⟩

theorem intersectA_broken_operand {c : Cfg} {s : Sched} {same12 : Bool} {al : Alias} {nr r1 r2 : RegionA} {h : Heap}
    (hb : r1.nar = true ∨ r2.nar = true) :
    (intersectA c s same12 al nr r1 r2 h).1 = false ∧ Broken (intersectA c s same12 al nr r1 r2 h).2.1 :=
  ⟨(intersectA_broken hb).1, broken_of_isBroken (intersectA_broken hb).2⟩

theorem inverseA_broken_operand {c : Cfg} {s : Sched} {same : Bool} {nr r1 : RegionA} {b : Box} {h : Heap}
    (hb : r1.nar = true) :
    (inverseA c s same nr r1 b h).1 = false ∧ Broken (inverseA c s same nr r1 b h).2.1 := by
  have := inverseA_broken (c := c) (s := s) (same := same) (nr := nr) (b := b) (h := h) hb
  exact ⟨this.1, by rw [this.2]; exact broken_brkA⟩

theorem subtractA_broken_operand {c : Cfg} {s : Sched} {sameMS : Bool} {al : Alias} {rd rm rs : RegionA} {h : Heap}
    (hb : rs.nar = true) :
    (subtractA c s sameMS al rd rm rs h).1 = false ∧ Broken (subtractA c s sameMS al rd rm rs h).2.1 := by
  have := subtractA_broken_subtrahend (c := c) (s := s) (sameMS := sameMS) (al := al) (rd := rd) (rm := rm) (h := h) hb
  exact ⟨this.1, by rw [this.2]; exact broken_brkA⟩

/-- the C code copies a broken minuend: result broken, but TRUE is returned -/
theorem subtractA_broken_minuend_returns_true {c : Cfg} {s : Sched} {sameMS : Bool} {rd rm rs : RegionA} {h : Heap}
    (hb : rm.data = .broken) (hs : rs.nar = false) :
    (subtractA c s sameMS .none rd rm rs h).1 = true ∧ (subtractA c s sameMS .none rd rm rs h).2.1.data = .broken :=
  subtractA_broken_minuend hb hs

theorem unionA_broken_operand {c : Cfg} {s : Sched} {al : Alias} {nr r1 r2 : RegionA} {h : Heap}
    (hb : r1.nar = true ∨ (r1.nil = false ∧ r2.nar = true)) :
    (unionA c s false al nr r1 r2 h).1 = false ∧ Broken (unionA c s false al nr r1 r2 h).2.1 := by
  rcases hb with hb | ⟨hn, hb⟩
  · have := unionA_broken_first (c := c) (s := s) (al := al) (nr := nr) (r2 := r2) (h := h) hb
    exact ⟨this.1, by rw [this.2]; exact broken_brkA⟩
  · have := unionA_broken_second (c := c) (s := s) (al := al) (nr := nr) (h := h) hn hb
    exact ⟨this.1, by rw [this.2]; exact broken_brkA⟩

/-- union (empty, broken) copies the broken operand: result broken, TRUE returned (as in C) -/
theorem unionA_empty_broken_returns_true {c : Cfg} {s : Sched} {nr r1 r2 : RegionA} {h : Heap}
    (h1 : r1.data = .emptyStatic) (h2 : r2.data = .broken) :
    (unionA c s false .none nr r1 r2 h).1 = true ∧ (unionA c s false .none nr r1 r2 h).2.1.data = .broken :=
  unionA_empty_broken h1 h2

/-- pixman_region_copy of a broken source: destination broken, TRUE returned, no request made -/
theorem copyA_broken_source_propagates {c : Cfg} {s : Sched} {dst src : RegionA} {h : Heap} (hb : src.data = .broken) :
    (copyA c s false dst src h).1 = true ∧ (copyA c s false dst src h).2.1 = ⟨src.extents, .broken⟩ :=
  copyA_broken_source hb

/-- 663c485: translate keeps a broken region broken and touches no block -/
theorem translate_keeps_broken {c : Cfg} {s : Sched} {r : RegionA} {dx dy : Int} {h : Heap}
    (hb : r.isBroken = true) : (translateA c s r dx dy h).1.data = .broken ∧ (translateA c s r dx dy h).2 = h :=
  translateA_keeps_broken hb

/-- fini accepts the static blocks (empty, broken) and a single rectangle: nothing is freed -/
theorem finiA_accepts_static {r : RegionA} {h : Heap} (hd : r.ids = []) : finiA r h = h := by
  obtain ⟨e, d⟩ := r
  cases d <;> simp_all [finiA, freeData, RegionA.ids]

example : (brkA).nar = true := rfl
example : finiA brkA Heap.empty = Heap.empty := finiA_accepts_static rfl

/-! ## F3 -/

theorem own_no_double_free {h : Heap} {ids : List Nat} (o : Own h ids) : NoDoubleFree h :=
  ⟨o.good, fun id => ⟨by have := o.log.bal id; omega, o.log.free_le_one id⟩⟩

theorem own_nil_all_freed {h : Heap} (o : Own h []) : AllFreedOnce h := by
  have hl : h.live = [] := List.Perm.eq_nil o.perm
  exact ⟨hl, fun id => ⟨o.log.balanced hl id, o.log.once id⟩⟩

theorem copyA_own {c : Cfg} {s : Sched} {same : Bool} {dst src : RegionA} {h : Heap} {rest : List Nat}
    (o : Own h (dst.ids ++ rest)) :
    Own (copyA c s same dst src h).2.2 ((copyA c s same dst src h).2.1.ids ++ rest) := o.copyA

theorem pixmanOpA_own {c : Cfg} {s : Sched} {k : OpKind} {app1 app2 : Bool} {al : Alias}
    {newReg reg1 reg2 : RegionA} {h : Heap} {rest : List Nat} (o : Own h (newReg.ids ++ rest)) :
    Own (pixmanOpA c s k app1 app2 al newReg reg1 reg2 h).2.2
      ((pixmanOpA c s k app1 app2 al newReg reg1 reg2 h).2.1.ids ++ rest) := o.pixmanOpA

theorem intersectA_own {c : Cfg} {s : Sched} {same12 : Bool} {al : Alias} {nr r1 r2 : RegionA}
    {h : Heap} {rest : List Nat} (o : Own h (nr.ids ++ rest)) :
    Own (intersectA c s same12 al nr r1 r2 h).2.2 ((intersectA c s same12 al nr r1 r2 h).2.1.ids ++ rest) := o.intersectA

theorem unionA_own {c : Cfg} {s : Sched} {same12 : Bool} {al : Alias} {nr r1 r2 : RegionA}
    {h : Heap} {rest : List Nat} (o : Own h (nr.ids ++ rest)) :
    Own (unionA c s same12 al nr r1 r2 h).2.2 ((unionA c s same12 al nr r1 r2 h).2.1.ids ++ rest) := o.unionA

theorem subtractA_own {c : Cfg} {s : Sched} {sameMS : Bool} {al : Alias} {rd rm rs : RegionA}
    {h : Heap} {rest : List Nat} (o : Own h (rd.ids ++ rest)) :
    Own (subtractA c s sameMS al rd rm rs h).2.2 ((subtractA c s sameMS al rd rm rs h).2.1.ids ++ rest) := o.subtractA

theorem inverseA_own {c : Cfg} {s : Sched} {same : Bool} {nr r1 : RegionA} {b : Box}
    {h : Heap} {rest : List Nat} (o : Own h (nr.ids ++ rest)) :
    Own (inverseA c s same nr r1 b h).2.2 ((inverseA c s same nr r1 b h).2.1.ids ++ rest) := o.inverseA

theorem finiA_own {r : RegionA} {h : Heap} {rest : List Nat} (o : Own h (r.ids ++ rest)) :
    Own (finiA r h) rest := o.finiA

theorem validate_own {c : Cfg} {s : Sched} {id size : Nat} {l : List Box} {h : Heap} {rest : List Nat}
    (hne : l ≠ []) (o : Own h (id :: rest)) :
    Own (validateA c s id size l h).2.2 ((validateA c s id size l h).2.1.ids ++ rest) :=
  validateA_own c s id size l h hne o

theorem initRects_own {c : Cfg} {s : Sched} {boxes : List Box} {h : Heap} {rest : List Nat} (o : Own h rest) :
    Own (initRectsA c s boxes h).2.2 ((initRectsA c s boxes h).2.1.ids ++ rest) := initRectsA_own c s boxes h o

theorem translate_own {c : Cfg} {s : Sched} {r : RegionA} {dx dy : Int} {h : Heap} {rest : List Nat}
    (o : Own h (r.ids ++ rest)) :
    Own (translateA c s r dx dy h).2 ((translateA c s r dx dy h).1.ids ++ rest) := translateA_own c s r dx dy h o

theorem initFromImage_own {c : Cfg} {s : Sched} {w : Nat} {rows : List (List Bool)} {h : Heap} {rest : List Nat}
    (o : Own h rest) :
    Own (initFromImageA c s w rows h).2 ((initFromImageA c s w rows h).1.ids ++ rest) :=
  initFromImageA_own c s w rows h o

theorem conv16_own {s : Sched} {dst src : RegionA} {h : Heap} {rest : List Nat}
    (o : Own h (dst.ids ++ rest)) :
    Own (region16From32A s dst src h).2.2 ((region16From32A s dst src h).2.1.ids ++ rest) :=
  region16From32A_own s dst src h o

theorem conv32_own {s : Sched} {dst src : RegionA} {h : Heap} {rest : List Nat}
    (o : Own h (dst.ids ++ rest)) :
    Own (region32From16A s dst src h).2.2 ((region32From16A s dst src h).2.1.ids ++ rest) :=
  region32From16A_own s dst src h o

/-- F3 for operation histories: any sequence of union / intersect / subtract / inverse /
    union_rect / intersect_rect / copy / fini / init_rects (validate) / translate / init_from_image /
    16<->32 conversion commands on `n` registers (operands are register
    indices, so every aliasing pattern occurs), under any failure schedule: at every point no block
    has been freed twice and the live blocks are exactly those held by the registers; after fini of
    every register every block ever allocated has been freed exactly once. -/
theorem history_heap_discipline (c : Cfg) (s : Sched) (n : Nat) (cmds : List Cmd) :
    let r := runCmds c s cmds (List.replicate n initA) Heap.empty
    NoDoubleFree r.2 ∧ r.2.live.Perm (regIds r.1) ∧ AllFreedOnce (finiAllA r.1 r.2) ∧
    NoDoubleFree (finiAllA r.1 r.2) := by
  have o0 : Own Heap.empty (regIds (List.replicate n initA)) := by
    rw [regIds_replicate_init]; exact Own.empty
  have o := Own.runCmds (c := c) (s := s) cmds _ _ o0
  have of := Own.finiAllA _ _ o
  exact ⟨own_no_double_free o, o.perm, own_nil_all_freed of, own_no_double_free of⟩

-- non-vacuity: a history in which a refused allocation breaks register 0, then everything is finished
example : (runCmds c32 (Sched.single 0) [.unionRect 0 0 0 0 4 4, .unionRect 1 0 9 9 2 2, .copy 2 1, .fini 1]
    (List.replicate 3 initA) Heap.empty).1.length = 3 := by decide

-- validate's bail path inside a history: the 2nd request (a region of step 2) is refused
example : (initRectsA c32 (Sched.single 1) [⟨0, 0, 9, 9⟩, ⟨3, 3, 12, 12⟩, ⟨20, 0, 22, 2⟩] Heap.empty).1 = false := by decide
example : (initRectsA c32 Sched.ok [⟨9, 0, 11, 2⟩, ⟨0, 0, 2, 2⟩, ⟨5, 0, 7, 2⟩] Heap.empty).1 = true := by decide

/-! ## F4 -/

/-- a constructor that returns NULL leaves nothing allocated: the live blocks are as before -/
theorem construct_null_no_leak {s : Sched} {k : Ctor} {h : Heap} {rest : List Nat} (o : Own h rest)
    (hn : (construct s k h).1 = none) : Own (construct s k h).2 rest := by
  have := Own.seqAllocGo (s := s) (rest := rest) k.allocs [] h (by simpa using o)
  unfold construct seqAlloc at hn ⊢
  cases hg : seqAllocGo s k.allocs [] h with
  | mk oids h1 =>
    rw [hg] at this hn
    cases oids with
    | none => exact this
    | some ids => cases hn

/-- a constructor that succeeds owns exactly its `allocs` blocks -/
theorem construct_ok_owns {s : Sched} {k : Ctor} {h : Heap} {rest ids : List Nat} (o : Own h rest)
    (hs : (construct s k h).1 = some ids) : Own (construct s k h).2 (ids ++ rest) ∧ ids.length = k.allocs := by
  have := Own.seqAllocGo (s := s) (rest := rest) k.allocs [] h (by simpa using o)
  unfold construct seqAlloc at hs ⊢
  cases hg : seqAllocGo s k.allocs [] h with
  | mk oids h1 =>
    rw [hg] at this hs
    cases oids with
    | none => cases hs
    | some ids' =>
      simp only at hs; injection hs with hs; subst hs
      exact ⟨this.1, by simpa using this.2⟩

/-- destroying the object frees every block of it exactly once -/
theorem construct_destroy_clean {s : Sched} {k : Ctor} {ids : List Nat}
    (hs : (construct s k Heap.empty).1 = some ids) :
    AllFreedOnce (destroy ids (construct s k Heap.empty).2) := by
  have o := (construct_ok_owns (rest := []) Own.empty hs).1
  exact own_nil_all_freed (Own.freeAll ids _ o)

/-- a refused setter returns FALSE and leaves the object's array as it was -/
theorem setOwned_fail_unchanged {s : Sched} {old : Option Nat} {reuse : Bool} {h : Heap}
    (hf : (setOwned s old reuse h).1 = false) :
    (setOwned s old reuse h).2.1 = old ∧ (setOwned s old reuse h).2.2.live = h.live := by
  revert hf
  unfold setOwned
  cases old <;> cases reuse <;> simp only <;>
    (cases hm : h.malloc s with
     | mk oid h1 =>
       cases oid <;> simp_all [Heap.malloc]
       all_goals (split at hm <;> simp_all)
       all_goals (subst hm; rfl))

theorem setOwned_own {s : Sched} {old : Option Nat} {reuse : Bool} {h : Heap} {rest : List Nat}
    (o : Own h (old.toList ++ rest)) :
    Own (setOwned s old reuse h).2.2 ((setOwned s old reuse h).2.1.toList ++ rest) := by
  unfold setOwned
  cases old with
  | none =>
    simp only
    cases hm : h.malloc s with
    | mk oid h1 =>
      cases oid with
      | none => exact o.malloc_none hm
      | some id => exact o.malloc_some hm
  | some oid0 =>
    cases reuse with
    | true => exact o
    | false =>
      simp only
      cases hm : h.malloc s with
      | mk oid h1 =>
        cases oid with
        | none => exact o.malloc_none hm
        | some id =>
          have o1 : Own h1 (id :: (oid0 :: rest)) := o.malloc_some hm
          have o2 : Own h1 (oid0 :: (id :: rest)) := o1.of_perm (List.Perm.swap _ _ _)
          exact Own.free o2

example : (construct (Sched.single 2) .glyphInsert Heap.empty).1 = none := by decide
example : (construct (Sched.single 2) .glyphInsert Heap.empty).2.live = [] := by decide
example : (construct Sched.ok .glyphInsert Heap.empty).1 = some [2, 1, 0] := by decide

end Pixman.Props.C15

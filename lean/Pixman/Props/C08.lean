import Pixman.Model.Fetch
import Pixman.Spec.Repeat
import Pixman.Spec.Sampling
import Pixman.Props.C04Core
import Pixman.Lemmas.Fetch
import Pixman.Lemmas.FetchBits
import Pixman.Lemmas.FetchBilinear
import Pixman.Lemmas.FetchConv
import Pixman.Lemmas.FetchProj
/-!
  C08 — transformed sources are sampled at the documented position, filter and repeat.

  Model: `Pixman.Model.Fetch` (the reference fetchers of pixman-bits-image.c).  Spec:
  `Pixman.Spec.Sampling`, `Pixman.Spec.Repeat`.  All theorems are for every input (no size bound);
  range hypotheses say where the 16.16 / int32 arithmetic of the code does not wrap.
-/
namespace Pixman.Props.C08
open Pixman.Sample Pixman.Matrix Pixman.Model.Fetch Pixman.Spec.Fixed
open Pixman.Lemmas.Fetch Pixman.Lemmas.FetchBits Pixman.Lemmas.FetchBilinear Pixman.Lemmas.FetchConv
open Pixman.Lemmas.FetchProj
open Pixman.Spec.Sampling

/-! ### repeat = Spec on ℤ -/

/-- the coordinate used is the Spec's (NONE: inside or nothing, NORMAL: mod, PAD: clamp, REFLECT:
    mirror) for every integer coordinate and every size > 0 (REFLECT incl. size 1) -/
theorem repeat_spec (mode : RepeatMode) (c size : Int) (hs : 0 < size) :
    «repeat» mode c size = mapCoord (specMode mode) c size :=
  repeat_eq_mapCoord mode c size hs

theorem repeat_in_range (mode : RepeatMode) (c size : Int) (hs : 0 < size) (hm : mode ≠ .none) :
    0 ≤ repeatCoord mode c size ∧ repeatCoord mode c size < size := by
  obtain ⟨r, e, h⟩ := Pixman.Props.C04Core.repeat_in_range mode c size hs hm
  unfold repeatCoord
  rw [e]
  exact h

example : repeatCoord .reflect (-5) 1 = 0 ∧ repeatCoord .reflect 7 3 = 1 ∧ repeatCoord .pad 9 3 = 2 := by decide

/-- every tap of every filter reads the pixel the Spec denotes: transparent outside under NONE -/
theorem tap_spec (b : Bits) (x y : Int) (hw : 0 < b.width) (hh : 0 < b.height) :
    tap b x y = pixelAt (specMode b.rep) b.width b.height b.fetch x y :=
  tap_eq_pixelAt b x y hw hh

/-! ### NEAREST -/

/-- NEAREST takes the pixel `⌊x − e⌋, ⌊y − e⌋` (then repeat) -/
theorem nearest_spec (b : Bits) (x y : Int) (hw : 0 < b.width) (hh : 0 < b.height)
    (hx : -2147483648 < x ∧ x ≤ 2147483647) (hy : -2147483648 < y ∧ y ≤ 2147483647) :
    fetchNearest b x y =
      pixelAt (specMode b.rep) b.width b.height b.fetch (nearestIndex x) (nearestIndex y) := by
  unfold fetchNearest nearestIndex fixedToInt
  simp only
  rw [wrapS32_of_range _ (by omega), wrapS32_of_range _ (by omega)]
  exact tap_eq_pixelAt b _ _ hw hh

example : nearestIndex 65536 = 0 ∧ nearestIndex 65537 = 1 ∧ nearestIndex 0 = -1 := by decide

/-! ### affine transforms: position = the exact image rounded once, no drift -/

/-- `__bits_image_fetch_affine_no_alpha`: pixel `i` of the scanline starting at `(x, y)` is filtered at
    `round16 (M · centre (x+i, y))` — the exact rational image of the pixel centre rounded ONCE to
    1/65536 (ties up); the per-pixel increments `ux`, `uy` add no error.
    Hypotheses: 16-bit composite coordinates and no `int32_t` wrap along the walk (what
    `analyze_extent` establishes before a request is carried out). -/
theorem affine_positions (b : Bits) (t : Transform) (x y : Int) (n : Nat) (p : Vec)
    (hx : -32768 ≤ x ∧ x ≤ 32767) (hy : -32768 ≤ y ∧ y ≤ 32767)
    (h0 : transformPoint3d t (pixelCentre x y) = some (true, p))
    (hwalk : ∀ k : Nat, k ≤ n → isI32 (p.x + k * t.m00) ∧ isI32 (p.y + k * t.m10)) :
    fetchAffine b (some t) x y n = some ((List.range n).map fun (i : Nat) =>
      fetchFiltered b (round16 (dot t.m00 t.m01 t.m02 (centre (x + i)) (centre y) 65536))
                      (round16 (dot t.m10 t.m11 t.m12 (centre (x + i)) (centre y) 65536))) := by
  unfold fetchAffine
  simp only [h0]
  rw [affineLoop_eq]
  congr 1
  apply List.map_congr_left
  intro i hi
  have hi' : i ≤ n := by have := List.mem_range.mp hi; omega
  obtain ⟨e1, e2⟩ := Pixman.Props.C04Core.affine_stepping_exact t x y i p hx hy h0
    (fun k hk => hwalk k (by omega))
  rw [e1, e2]
  rfl

example : fetchAffine ⟨2, 1, fun x _ => (x + 1).toNat, .none, .nearest, []⟩
    (some ⟨32768, 0, 0, 0, 65536, 0, 0, 0, 65536⟩) 0 0 4 = some [1, 1, 2, 2] := by decide

/-! ### BILINEAR -/

/-- the 7-bit weight is `⌊frac (x − ½) · 128⌋` -/
theorem bilinear_weight_spec (x : Int) :
    Pixman.Model.Fetch.bilinearWeight (x - 32768) = ((x - 32768) % 65536) / 512 ∧
    0 ≤ Pixman.Model.Fetch.bilinearWeight (x - 32768) ∧ Pixman.Model.Fetch.bilinearWeight (x - 32768) < 128 ∧
    2 * Pixman.Model.Fetch.bilinearWeight (x - 32768) = Pixman.Spec.Sampling.bilinearWeight x := by
  unfold Pixman.Model.Fetch.bilinearWeight Pixman.Spec.Sampling.bilinearWeight
  omega

/-- the four weights sum to 2^16 -/
theorem bilinear_weights_sum (dx dy : Nat) (hx : dx < 128) (hy : dy < 128) :
    (256 - 2 * dx) * (256 - 2 * dy) + 2 * dx * (256 - 2 * dy) + (256 - 2 * dx) * (2 * dy) + 2 * dx * (2 * dy) = 65536 :=
  weights_sum (2 * dx) (2 * dy) (by omega) (by omega)

/-- `bilinear_interpolation`: every channel of the result is `(Σ tap·weight) >> 16` of that channel of
    the four taps alone (lanes independent) -/
theorem bilinear_lanes (tl tr bl br dx dy : Nat)
    (htl : tl < 4294967296) (htr : tr < 4294967296) (hbl : bl < 4294967296) (hbr : br < 4294967296)
    (hdx : dx < 128) (hdy : dy < 128) :
    bilinearInterpolation tl tr bl br dx dy =
      pack4 (bilinearChannel (chA tl) (chA tr) (chA bl) (chA br) (2 * dx) (2 * dy))
            (bilinearChannel (chR tl) (chR tr) (chR bl) (chR br) (2 * dx) (2 * dy))
            (bilinearChannel (chG tl) (chG tr) (chG bl) (chG br) (2 * dx) (2 * dy))
            (bilinearChannel (chB tl) (chB tr) (chB bl) (chB br) (2 * dx) (2 * dy)) :=
  bilinearInterpolation_lanes tl tr bl br dx dy htl htr hbl hbr hdx hdy

example : bilinearInterpolation 0xff000000 0xff0000ff 0 0 64 0 = 0xff00007f := by decide

/-- BILINEAR samples the taps `⌊x − ½⌋, ⌊x − ½⌋ + 1` (per axis, then repeat) with the 7-bit weights -/
theorem bilinear_spec (b : Bits) (x y : Int) (hw : 0 < b.width) (hh : 0 < b.height)
    (hx : -2147450880 ≤ x ∧ x ≤ 2147483647) (hy : -2147450880 ≤ y ∧ y ≤ 2147483647) :
    fetchBilinear b x y =
      let px := pixelAt (specMode b.rep) b.width b.height b.fetch
      let ix := bilinearIndex x
      let iy := bilinearIndex y
      bilinearInterpolation (px ix iy) (px (ix + 1) iy) (px ix (iy + 1)) (px (ix + 1) (iy + 1))
        (((x - 32768) % 65536) / 512).toNat (((y - 32768) % 65536) / 512).toNat := by
  unfold fetchBilinear bilinearIndex fixedToInt
  simp only
  rw [wrapS32_of_range _ (by omega), wrapS32_of_range _ (by omega)]
  rw [(bilinear_weight_spec x).1, (bilinear_weight_spec y).1]
  simp only [tap_eq_pixelAt b _ _ hw hh]

/-- a neighbourhood of equal pixels is reproduced exactly, whatever the weights -/
theorem bilinear_constant (p dx dy : Nat) (hp : p < 4294967296) (hdx : dx < 128) (hdy : dy < 128) :
    bilinearInterpolation p p p p dx dy = p :=
  bilinearInterpolation_const p dx dy hp hdx hdy

/-! ### CONVOLUTION / SEPARABLE_CONVOLUTION -/

/-- first pixel under a kernel of integer width `w` (rounding.txt): `k = ⌊x − (w − 1)/2 − e⌋` -/
theorem convolution_window (w x : Int) (hr : isI32 (x - 1 - (w - 1) * 32768)) :
    convOrigin (w * 65536) x = convFirst x w := by
  unfold convOrigin convFirst fixedToInt
  have e : (w * 65536 - 65536) / 2 = (w - 1) * 32768 := by omega
  rw [e, wrapS32_of_range _ hr]

example : convOrigin (4 * 65536) 32768 = -2 ∧ convOrigin (3 * 65536) 32768 = -1 ∧ convOrigin (3 * 65536) 32769 = -1 := by decide

/-- SEPARABLE_CONVOLUTION (rounding.txt): the position is first rounded to the middle of one of
    `2^bits` phases; the phase number selects the kernel -/
theorem separable_phase (x : Int) (bits : Nat)
    (hr : isI32 ((x / 2 ^ (16 - bits)) * 2 ^ (16 - bits) + 2 ^ (16 - bits) / 2)) :
    phaseRound x (16 - bits) = phaseCentre x bits ∧
    phaseIndex (phaseRound x (16 - bits)) (16 - bits) = phase x bits := by
  have e1 : phaseRound x (16 - bits) = phaseCentre x bits := by
    unfold phaseRound phaseCentre
    exact wrapS32_of_range _ hr
  refine ⟨e1, ?_⟩
  rw [e1]
  unfold phaseIndex phaseCentre phase
  have hk : ∃ k : Nat, k ≤ 16 ∧ 16 - bits = k := ⟨16 - bits, by omega, rfl⟩
  obtain ⟨k, hk1, hk2⟩ := hk
  rw [hk2]
  -- every shift 0..16 separately (literal powers of two)
  have : k = 0 ∨ k = 1 ∨ k = 2 ∨ k = 3 ∨ k = 4 ∨ k = 5 ∨ k = 6 ∨ k = 7 ∨ k = 8 ∨ k = 9 ∨ k = 10 ∨ k = 11 ∨
      k = 12 ∨ k = 13 ∨ k = 14 ∨ k = 15 ∨ k = 16 := by omega
  rcases this with h | h | h | h | h | h | h | h | h | h | h | h | h | h | h | h | h <;>
    (subst h; simp only [Int.reducePow]; omega)

/-- `reduce_32`, one channel: the total read as a signed number is rounded to nearest (ties up) and
    clamped to a byte — a negative total gives 0 (repair 151778e), a large one 255 -/
theorem reduce_spec (tot : Int) (h : -2147483648 ≤ tot + 32768 ∧ tot + 32768 ≤ 2147483647) :
    reduceChan (wrapU32 tot) = reduceChannel tot :=
  reduceChan_spec tot h

theorem reduce_negative_is_zero (tot : Int) (h : -2147483648 ≤ tot + 32768 ∧ tot + 32768 < 0) :
    reduceChan (wrapU32 tot) = 0 := by
  rw [reduceChan_spec tot (by omega)]
  unfold reduceChannel
  have : (tot + 32768) / 65536 < 0 := by omega
  simp only [this, ↓reduceIte]

example : reduceChan (wrapU32 (-65536 * 255)) = 0 ∧ reduceChan (wrapU32 (65536 * 300)) = 255 ∧
    reduceChan (wrapU32 (65536 * 7 + 32768)) = 8 := by decide

/-- CONVOLUTION: the result is `reduce_32` of the channel totals over ℤ,
    `Σ_i Σ_j channel (pixel (k_x + j, k_y + i)) · kernel[i][j]` with `k` the window origin of
    `convolution_window` (wrap-around of the `unsigned` accumulators is the only deviation) … -/
theorem convolution_exact (b : Bits) (x y : Int) :
    fetchConvolution b x y = reduce32 (wrapAcc (convTotals b x y)) :=
  fetchConvolution_exact b x y

/-- … and while the totals fit 32 bits each channel is its own total rounded to nearest and clamped -/
theorem convolution_channels (e : Acc)
    (ha : -2147483648 ≤ e.a + 32768 ∧ e.a + 32768 ≤ 2147483647) (hr : -2147483648 ≤ e.r + 32768 ∧ e.r + 32768 ≤ 2147483647)
    (hg : -2147483648 ≤ e.g + 32768 ∧ e.g + 32768 ≤ 2147483647) (hb : -2147483648 ≤ e.b + 32768 ∧ e.b + 32768 ≤ 2147483647) :
    reduce32 (wrapAcc e) =
      pack4 (reduceChannel e.a).toNat (reduceChannel e.r).toNat (reduceChannel e.g).toNat (reduceChannel e.b).toNat :=
  reduce32_channels e ha hr hg hb

/-- a kernel whose coefficients sum to 1.0 leaves a constant image constant (any repeat but NONE,
    any position, coefficients of either sign, after rounding and clamping) -/
theorem convolution_constant (b : Bits) (p : Nat) (x y : Int) (hp : p < 4294967296)
    (hconst : ∀ i j, b.fetch i j = p) (hrep : b.rep ≠ .none) (hsum : kernelSum b.params = 65536) :
    fetchConvolution b x y = p :=
  fetchConvolution_const b p x y hp hconst hrep hsum

example : fetchConvolution ⟨3, 3, fun _ _ => 0x80ff7f01, .pad, .convolution,
    [3 * 65536, 1 * 65536, -16384, 98304, -16384]⟩ 12345 (-99999) = 0x80ff7f01 := by decide

/-- SEPARABLE_CONVOLUTION: if for every phase the products `(fy·fx + 0x8000) >> 16` sum to 1.0 a
    constant image stays constant -/
theorem separable_constant (b : Bits) (p : Nat) (x y : Int) (hp : p < 4294967296)
    (hconst : ∀ i j, b.fetch i j = p) (hrep : b.rep ≠ .none)
    (hsum : ∀ px py, sepKernelSum b.params px py = 65536) :
    fetchSeparable b x y = p :=
  fetchSeparable_const b p x y hp hconst hrep hsum

/-! ### projective transforms -/

/-- `__bits_image_fetch_general`: pixel `i` is filtered at `(x_i / w_i, y_i / w_i)` where
    `(x_i, y_i, w_i) = (x, y, w) + i · (ux, uy, uw)` exactly, while the homogeneous coordinates stay in
    `int32_t` -/
theorem general_positions (b : Bits) (ux uy uw : Int) (n : Nat) (x y w : Int)
    (hwalk : ∀ k : Nat, k ≤ n → isI32 (x + k * ux) ∧ isI32 (y + k * uy) ∧ isI32 (w + k * uw)) :
    generalLoop b ux uy uw n x y w = (List.range n).map fun (i : Nat) =>
      fetchFiltered b (divW (x + i * ux) (w + i * uw)) (divW (y + i * uy) (w + i * uw)) := by
  rw [generalLoop_eq]
  apply List.map_congr_left
  intro i hi
  have hi' : i ≤ n := by have := List.mem_range.mp hi; omega
  rw [Pixman.Props.C04Core.stepped_linear x ux i (fun k hk => (hwalk k (by omega)).1),
      Pixman.Props.C04Core.stepped_linear y uy i (fun k hk => (hwalk k (by omega)).2.1),
      Pixman.Props.C04Core.stepped_linear w uw i (fun k hk => (hwalk k (by omega)).2.2)]

/-- the per-pixel division (as repaired by 0d1b5b1) is the signed quotient rounded towards zero:
    less than one unit away from `x·65536 / w`, never beyond it; `w = 0` gives position 0 -/
theorem division_spec (x w : Int) :
    (w = 0 → divW x w = 0) ∧
    (w ≠ 0 → isI32 (Int.tdiv (x * 65536) w) →
      abs (x * 65536 - divW x w * w) < abs w ∧ 0 ≤ (x * 65536 - divW x w * w) * (x * 65536)) := by
  constructor
  · intro h; unfold divW; simp [h]
  · intro hw hq
    rw [divW_of_range x w hw hq]
    exact ⟨tdiv_error _ _ hw, tdiv_toward_zero _ _⟩

example : divW (-100000) 196608 = -33333 ∧ divW (-100000) 65536 = -100000 ∧ divW 5 0 = 0 := by decide

/-- an affine map pushed through the general fetcher (`w = 1.0`, `uw = 0`) is sampled exactly as by
    the affine fetcher -/
theorem general_affine_agree (x : Int) (hx : isI32 x) : divW x 65536 = x := divW_one x hx

/-- PARTIAL (approximation only): position error of the projective path.  `X`, `Wn` are the exact
    homogeneous numerators of a pixel centre (units 2^-32).  The code rounds both to 16.16 and
    divides; the quotient `x0` (units 1/65536 pixel) satisfies
    `|x0·Wn − 65536·X| ≤ 65536·|w| + 2^31 + 32768·|x0|`, i.e. it is within about
    `1 + 32768·(1 + |position|)/|w|` units of the exact position `X/Wn`.
    Missing for a full Spec equality: the exact position is not reproduced to the unit (three
    roundings: x, w, quotient), so which pixel is hit near a pixel boundary is not determined by the
    Spec; and the bound presupposes that the homogeneous coordinates fit `int32_t` (they need not:
    known finding S2). -/
theorem projective_position_bound_partial (X Wn : Int) (hw : roundHalfUp Wn 65536 ≠ 0) :
    abs (Int.tdiv (roundHalfUp X 65536 * 65536) (roundHalfUp Wn 65536) * Wn - 65536 * X) ≤
      65536 * abs (roundHalfUp Wn 65536) + 2147483648 +
        32768 * abs (Int.tdiv (roundHalfUp X 65536 * 65536) (roundHalfUp Wn 65536)) :=
  position_bound X Wn hw

example : roundHalfUp (3 * 4294967296 + 7) 65536 ≠ 0 := by decide

/-- PARTIAL (approximation only), sharper form for `|w| ≥ 1.0` (every non-degenerate projective map after
    normalising the bottom row): `2·|x0·Wn − 65536·X| ≤ 3·|Wn| + 65536·|x0| + 98304`, i.e. the quotient is within
    `3/2 + |x0|·32768/|Wn| + 49152/|Wn|` units of 1/65536 pixel of the exact position — for a position of `P`
    pixels about `1.5 + P/(2·W)` units, `W = Wn/2^32` the exact homogeneous coordinate.  Gap as for
    `projective_position_bound_partial`. -/
theorem projective_position_units_partial (X Wn : Int) (hw : 65536 ≤ abs (roundHalfUp Wn 65536)) :
    2 * abs (Int.tdiv (roundHalfUp X 65536 * 65536) (roundHalfUp Wn 65536) * Wn - 65536 * X) ≤
      3 * abs Wn + 65536 * abs (Int.tdiv (roundHalfUp X 65536 * 65536) (roundHalfUp Wn 65536)) + 98304 :=
  position_bound_units X Wn hw

/-! ### specialised loops (coordinate arithmetic only) -/

/-- PARTIAL: the scaled-NEAREST main loops (`FAST_NEAREST_MAINLOOP`, COVER/NONE/PAD) subtract
    `pixman_fixed_e` once and then step: pixel `i` gets the index `⌊x_i − e⌋` of the reference fetcher,
    `x_i = v0 + i·unit_x`.  Missing: the loop structure (padding zones of
    `pad_repeat_get_scanline_bounds`, SIMD head/body/tail) is not modelled; it is compared with the
    reference by the correspondence check under every PIXMAN_DISABLE configuration. -/
theorem scaled_nearest_index_partial (v0 unit : Int) (i : Nat) (h0 : isI32 (v0 - 1))
    (hwalk : ∀ k : Nat, k ≤ i → isI32 (v0 - 1 + k * unit)) :
    scaledNearestIndex v0 unit i = nearestIndex (v0 + i * unit) := by
  unfold scaledNearestIndex nearestIndex fixedToInt
  rw [wrapS32_of_range _ h0, Pixman.Props.C04Core.stepped_linear _ _ i hwalk]
  congr 1; omega

/-- PARTIAL: the NORMAL variant keeps `vx` modulo the image width in 16.16; the pixel it reads is the
    Spec's `index mod width`.  Missing: as above. -/
theorem scaled_nearest_normal_partial (vx width : Int) (hw : 0 < width) :
    scaledNearestIndexNormal vx width = Pixman.Spec.Repeat.normal (fixedToInt vx) width := by
  unfold scaledNearestIndexNormal repeatCoord
  rw [Pixman.Props.C04Core.repeat_normal_spec vx (width * 65536) (by omega)]
  unfold Pixman.Spec.Repeat.normal fixedToInt
  exact emod_mul_ediv vx width hw

example : scaledNearestIndex 65536 32768 3 = 2 := by decide
example : scaledNearestIndexNormal (5 * 65536 + 7) 3 = 2 := by
  rw [scaled_nearest_normal_partial _ _ (by omega)]; decide

end Pixman.Props.C08

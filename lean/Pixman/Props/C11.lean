import Pixman.Lemmas.Matrix
import Pixman.Spec.FixedRound
/-! C11 — fixed-point transform arithmetic is exactly rounded and reports overflow: property theorems.
    Model: `Pixman/Model/Matrix.lean`; Spec vocabulary: `Pixman/Spec/FixedRound.lean`. -/
namespace Pixman.Props.C11
open Pixman.Matrix Pixman.Spec.Fixed

/-- (M1, 31.16 entry point) when the exact homogeneous coordinate is `1.0` (every affine matrix with
    `v.z = 1.0`), the result is the exact product rounded to the nearest 1/65536, ties up; TRUE. -/
theorem transformPoint3116_affine (t : Transform) (v : Vec)
    (hv : is3116 v.x ∧ is3116 v.y ∧ is3116 v.z)
    (hw : dot t.m20 t.m21 t.m22 v.x v.y v.z = 4294967296) :
    transformPoint3116 t v = some (true,
      ⟨roundHalfUp (dot t.m00 t.m01 t.m02 v.x v.y v.z) 65536,
       roundHalfUp (dot t.m10 t.m11 t.m12 v.x v.y v.z) 65536, 65536⟩) := by
  have hA : vecAssert v = true := by simp [vecAssert, hv.1, hv.2.1, hv.2.2]
  have r0 := row_exact t.m00 t.m01 t.m02 v
  have r1 := row_exact t.m10 t.m11 t.m12 v
  have r2 := row_exact t.m20 t.m21 t.m22 v
  rw [hw] at r2
  have hdi : rowHi t.m20 t.m21 t.m22 v + rowLo t.m20 t.m21 t.m22 v / 65536 = fixed1 := by unfold fixed1; omega
  have hdf : rowLo t.m20 t.m21 t.m22 v % 65536 = 0 := by omega
  simp only [transformPoint3116, hA, hdi, hdf, Bool.not_true, Bool.false_eq_true, if_false, and_self, if_true,
    roundRow_eq, r0, r1, fixed1]

/-- (M1, public 16.16 entry point) for every matrix/vector whose exact homogeneous coordinate is 1.0:
    TRUE iff both rounded coordinates are representable, and then the vector is exactly the product
    rounded to the nearest 1/65536 (ties up), with third component 1.0. -/
theorem transformPoint_affine (t : Transform) (v : Vec) (hv : v.isI32)
    (hw : dot t.m20 t.m21 t.m22 v.x v.y v.z = 4294967296) :
    ∃ b out, transformPoint t v = some (b, out) ∧
      (b = true ↔ Rep32 (roundHalfUp (dot t.m00 t.m01 t.m02 v.x v.y v.z) 65536) ∧
                  Rep32 (roundHalfUp (dot t.m10 t.m11 t.m12 v.x v.y v.z) 65536)) ∧
      (b = true → out = ⟨roundHalfUp (dot t.m00 t.m01 t.m02 v.x v.y v.z) 65536,
                         roundHalfUp (dot t.m10 t.m11 t.m12 v.x v.y v.z) 65536, 65536⟩) := by
  have h31 : is3116 v.x ∧ is3116 v.y ∧ is3116 v.z := by
    unfold Vec.isI32 isI32 at hv; unfold is3116; omega
  have h := transformPoint3116_affine t v h31 hw
  unfold transformPoint
  rw [h]
  have ts := truncVec_spec ⟨roundHalfUp (dot t.m00 t.m01 t.m02 v.x v.y v.z) 65536,
       roundHalfUp (dot t.m10 t.m11 t.m12 v.x v.y v.z) 65536, 65536⟩
  refine ⟨(truncVec _).1, (truncVec _).2, rfl, ?_, ts.2⟩
  rw [ts.1]
  have : Rep32 65536 := by unfold Rep32; omega
  simp only [this, and_true]

/-- `pixman_transform_point_31_16_affine`: nearest 1/65536 (ties up) of `m00·x + m01·y + m02·1.0` -/
theorem transformPoint3116Affine_spec (t : Transform) (v : Vec) (hv : is3116 v.x ∧ is3116 v.y) :
    transformPoint3116Affine t v = some
      ⟨roundHalfUp (dot t.m00 t.m01 t.m02 v.x v.y 65536) 65536,
       roundHalfUp (dot t.m10 t.m11 t.m12 v.x v.y 65536) 65536, 65536⟩ := by
  have e (a b c : Int) : roundRow (a * hi16 v.x + b * hi16 v.y + c) (a * lo16 v.x + b * lo16 v.y)
      = roundHalfUp (dot a b c v.x v.y 65536) 65536 := by
    rw [roundRow_eq]; unfold dot
    have h1 := split_mul a v.x
    have h2 := split_mul b v.y
    congr 1; omega
  simp only [transformPoint3116Affine, hv.1, hv.2, decide_true, Bool.and_self, Bool.not_true, Bool.false_eq_true,
    if_false, e, fixed1]

/-- `pixman_transform_point_31_16_3d`: each coordinate is the nearest 1/65536 (ties up) of the exact row product -/
theorem transformPoint31163d_spec (t : Transform) (v : Vec) (hv : is3116 v.x ∧ is3116 v.y ∧ is3116 v.z) :
    transformPoint31163d t v = some
      ⟨roundHalfUp (dot t.m00 t.m01 t.m02 v.x v.y v.z) 65536,
       roundHalfUp (dot t.m10 t.m11 t.m12 v.x v.y v.z) 65536,
       roundHalfUp (dot t.m20 t.m21 t.m22 v.x v.y v.z) 65536⟩ := by
  have hA : vecAssert v = true := by simp [vecAssert, hv.1, hv.2.1, hv.2.2]
  simp only [transformPoint31163d, hA, Bool.not_true, Bool.false_eq_true, if_false, roundRow_eq, row_exact]

/-- `pixman_transform_point_3d`: never aborts; TRUE iff the three rounded products are representable,
    and then they are the result. -/
theorem transformPoint3d_spec (t : Transform) (v : Vec) (hv : v.isI32) :
    ∃ b out, transformPoint3d t v = some (b, out) ∧
      (b = true ↔ Rep32 (roundHalfUp (dot t.m00 t.m01 t.m02 v.x v.y v.z) 65536) ∧
                  Rep32 (roundHalfUp (dot t.m10 t.m11 t.m12 v.x v.y v.z) 65536) ∧
                  Rep32 (roundHalfUp (dot t.m20 t.m21 t.m22 v.x v.y v.z) 65536)) ∧
      (b = true → out = ⟨roundHalfUp (dot t.m00 t.m01 t.m02 v.x v.y v.z) 65536,
                         roundHalfUp (dot t.m10 t.m11 t.m12 v.x v.y v.z) 65536,
                         roundHalfUp (dot t.m20 t.m21 t.m22 v.x v.y v.z) 65536⟩) := by
  have h31 : is3116 v.x ∧ is3116 v.y ∧ is3116 v.z := by
    unfold Vec.isI32 isI32 at hv; unfold is3116; omega
  unfold transformPoint3d
  rw [transformPoint31163d_spec t v h31]
  have ts := truncVec_spec ⟨roundHalfUp (dot t.m00 t.m01 t.m02 v.x v.y v.z) 65536,
       roundHalfUp (dot t.m10 t.m11 t.m12 v.x v.y v.z) 65536, roundHalfUp (dot t.m20 t.m21 t.m22 v.x v.y v.z) 65536⟩
  exact ⟨(truncVec _).1, (truncVec _).2, rfl, ts.1, ts.2⟩

/-- the per-term rounded sum is within 3/2 unit of the exact entry -/
theorem entrySpec_error (a0 a1 a2 b0 b1 b2 : Int) :
    abs (entrySpec a0 a1 a2 b0 b1 b2 * 65536 - (a0 * b0 + a1 * b1 + a2 * b2)) ≤ 98304 := by
  unfold entrySpec roundHalfUp abs
  generalize a0 * b0 = p0; generalize a1 * b1 = p1; generalize a2 * b2 = p2
  split <;> omega

/-- ... and is the correctly rounded exact entry when at most one of the three products has a fraction -/
theorem entrySpec_exact (a0 a1 a2 b0 b1 b2 : Int)
    (h : (a0 * b0 % 65536 = 0 ∧ a1 * b1 % 65536 = 0) ∨ (a0 * b0 % 65536 = 0 ∧ a2 * b2 % 65536 = 0) ∨
         (a1 * b1 % 65536 = 0 ∧ a2 * b2 % 65536 = 0)) :
    entrySpec a0 a1 a2 b0 b1 b2 = roundHalfUp (a0 * b0 + a1 * b1 + a2 * b2) 65536 := by
  unfold entrySpec roundHalfUp
  generalize a0 * b0 = p0 at *; generalize a1 * b1 = p1 at *; generalize a2 * b2 = p2 at *
  omega

/-- (M6) `pixman_transform_multiply`: TRUE iff every entry of the per-term rounded product is
    representable; then that product is the result. -/
theorem multiply_spec (l r : Transform) :
    ((productSpec l r).Rep → multiply l r = some (productSpec l r)) ∧
    (¬ (productSpec l r).Rep → multiply l r = none) := by
  unfold Transform.Rep productSpec
  simp only [← mulEntry_eq_spec, ← entryOk_iff]
  unfold multiply
  constructor
  · intro h
    simp only [h, Bool.and_self, if_true]
    simp only [entryOk_iff, ← wrapS32_eq_iff] at h
    simp only [h]
  · intro h
    have h' : ¬ ((entryOk (mulEntry l.m00 l.m01 l.m02 r.m00 r.m10 r.m20) && entryOk (mulEntry l.m00 l.m01 l.m02 r.m01 r.m11 r.m21) &&
        entryOk (mulEntry l.m00 l.m01 l.m02 r.m02 r.m12 r.m22) && entryOk (mulEntry l.m10 l.m11 l.m12 r.m00 r.m10 r.m20) &&
        entryOk (mulEntry l.m10 l.m11 l.m12 r.m01 r.m11 r.m21) && entryOk (mulEntry l.m10 l.m11 l.m12 r.m02 r.m12 r.m22) &&
        entryOk (mulEntry l.m20 l.m21 l.m22 r.m00 r.m10 r.m20) && entryOk (mulEntry l.m20 l.m21 l.m22 r.m01 r.m11 r.m21) &&
        entryOk (mulEntry l.m20 l.m21 l.m22 r.m02 r.m12 r.m22)) = true) := by
      simp only [Bool.and_eq_true, and_assoc]; exact h
    simp only [h', Bool.false_eq_true, if_false]

/-- (M7) `pixman_transform_bounds` returning TRUE: every corner of the input box was transformed
    successfully (`pixman_transform_point` TRUE) and lies inside the returned box (edges included). -/
theorem bounds_contains_corners (t : Transform) (b b' : Box16) (h : bounds t b = some (true, b')) :
    ∀ c ∈ corners b, ∃ p, transformPoint t c = some (true, p) ∧ Contains b' p :=
  (boundsLoop_spec t (corners b) true b b' h).2

/-- regression of defect B (translate by 0.5, box x2 = 32767): the corner x = 32767.5 has no
    representable ceiling: FALSE (the box holds what the first corner wrote) -/
example : bounds ⟨65536, 0, 32768, 0, 65536, 0, 0, 0, 65536⟩ ⟨0, 0, 32767, 10⟩ = some (false, ⟨0, 0, 1, 0⟩) := by
  decide
example : bounds ⟨65536, 0, 32768, 0, 65536, 0, 0, 0, 65536⟩ ⟨0, 0, 3, 4⟩ = some (true, ⟨0, 0, 4, 4⟩) := by
  decide

/-- (M5) `pixman_transform_point_31_16` never aborts for `int32_t` matrices and inputs admitted by
    its own asserts: the divisor handed to `rounded_sdiv_128_by_49` has magnitude at most `2^48`
    (`projDivisor_range`; `-2^48` IS reached), which the assertion `div <= 2^48` admits. -/
theorem transformPoint3116_never_aborts (t : Transform) (v : Vec) (ht : t.isI32)
    (hv : is3116 v.x ∧ is3116 v.y ∧ is3116 v.z) :
    (transformPoint3116 t v).isSome = true := by
  have hA : vecAssert v = true := by simp [vecAssert, hv.1, hv.2.1, hv.2.2]
  unfold Transform.isI32 at ht
  obtain ⟨d1, d2⟩ := div_parts t.m20 t.m21 t.m22 v
  have rng := rows_in_int64 t.m20 t.m21 t.m22 v ht.2.2.2.2.2.2.1 ht.2.2.2.2.2.2.2.1 ht.2.2.2.2.2.2.2.2 hv
  have rng := rng.2.2.2.1; rw [d1] at rng
  simp only [transformPoint3116, hA, d1, d2, Bool.not_true, Bool.false_eq_true, if_false, fixed1]
  generalize dot t.m20 t.m21 t.m22 v.x v.y v.z = W at *
  have pr := projDivisor_range (W / 65536) (W % 65536) rng (by omega)
  have hdI : isI64 (projDivisor (W / 65536) (W % 65536)).1 := by unfold isI64; omega
  have ab : ¬ iabs (projDivisor (W / 65536) (W % 65536)).1 > 281474976710656 := by unfold iabs; split <;> omega
  have n1 := projCoord_none_iff (rowHi t.m00 t.m01 t.m02 v) (rowLo t.m00 t.m01 t.m02 v) _ (projDivisor (W / 65536) (W % 65536)).2 hdI
  have n2 := projCoord_none_iff (rowHi t.m10 t.m11 t.m12 v) (rowLo t.m10 t.m11 t.m12 v) _ (projDivisor (W / 65536) (W % 65536)).2 hdI
  split
  · rfl
  · split
    · rfl
    · split
      · rename_i h1; exact absurd (n1.1 h1) ab
      · split
        · rename_i h2; exact absurd (n2.1 h2) ab
        · rfl

/-- (M5) the public `pixman_transform_point` never aborts, for every `int32_t` matrix and vector -/
theorem transformPoint_never_aborts (t : Transform) (v : Vec) (ht : t.isI32) (hv : v.isI32) :
    (transformPoint t v).isSome = true := by
  have h31 : is3116 v.x ∧ is3116 v.y ∧ is3116 v.z := by
    unfold Vec.isI32 isI32 at hv; unfold is3116; omega
  cases h : transformPoint t v with
  | some _ => rfl
  | none =>
    have := transformPoint3116_never_aborts t v ht h31
    rw [(transformPoint_none_iff t v).1 h] at this
    cases this

/-- (M5) `pixman_transform_bounds` never aborts -/
theorem bounds_never_aborts (t : Transform) (b : Box16) (ht : t.isI32) : (bounds t b).isSome = true := by
  have hc : ∀ c ∈ corners b, c.isI32 := by
    intro c hc
    unfold corners at hc
    simp only [List.mem_cons, List.mem_nil_iff, or_false] at hc
    rcases hc with h | h | h | h <;> subst h <;>
      (unfold Vec.isI32 isI32 intToFixed fixed1 wrapS32; simp only; omega)
  unfold bounds
  suffices h : ∀ (cs : List Vec), (∀ c ∈ cs, c.isI32) → ∀ (first : Bool) (b : Box16),
      (boundsLoop t first b cs).isSome = true from h _ hc _ _
  intro cs
  induction cs with
  | nil => intro _ _ _; rfl
  | cons c rest ih =>
    intro hc first b
    unfold boundsLoop
    have hs := transformPoint_never_aborts t c ht (hc c (List.mem_cons_self))
    split
    · rename_i h; rw [h] at hs; cases hs
    · rfl
    · split
      · rfl
      · exact ih (fun c' h' => hc c' (List.mem_cons_of_mem _ h')) _ _

/-- regression of defect A: `m[2][0] = INT32_MIN`, `v = (2.0, 0, 1.0)`: divisor `-2^48`; the quotient
    `2.0 / -65536.0` rounds to `-2/65536` -/
example : transformPoint ⟨65536, 0, 0, 0, 65536, 0, -2147483648, 0, 0⟩ ⟨131072, 0, 65536⟩
    = some (true, ⟨-2, 0, 65536⟩) := by decide

example : transformPoint ⟨65536, 0, 0, 0, 65536, 0, 3, 0, 65536⟩ ⟨131072, 7, 65536⟩ = some (true, ⟨131060, 7, 65536⟩) := by decide

/-- (M2) `rounded_udiv_128_by_48`: for every 128-bit dividend `hi:lo` and every divisor `0 < d ≤ 2^48`
    the returned pair `result_hi:result_lo` is the quotient rounded to nearest, ties up — including
    `d = 2^48` (reached with `div = -2^48` from the public API). -/
theorem rounded_udiv_128_by_48_nearest (hi lo d : Int) (hhi : isU64 hi) (hlo : isU64 lo) (hd0 : 0 < d)
    (hd : d ≤ 281474976710656) :
    isU64 (udivCore hi lo d).1 ∧ isU64 (udivCore hi lo d).2 ∧
    (udivCore hi lo d).2 * 18446744073709551616 + (udivCore hi lo d).1
      = roundHalfUp (hi * 18446744073709551616 + lo) d :=
  udivCore_spec hi lo d hhi hlo hd0 hd

example : udivCore 5 100 281474976710656 = (327680, 0) := by decide

/-- the assertion of `rounded_udiv_128_by_48` holds iff `div ≤ 2^48` -/
theorem rounded_udiv_128_by_48_assert (hi lo d : Int) :
    (roundedUdiv128By48 hi lo d = some (udivCore hi lo d) ↔ d ≤ 281474976710656) ∧
    (roundedUdiv128By48 hi lo d = none ↔ ¬ d ≤ 281474976710656) := by
  unfold roundedUdiv128By48 udivAssert
  by_cases h : d ≤ 281474976710656 <;> simp [h]

example : roundedSdiv128By49 (-1) 18446744073709551609 2 = some (-4, -1) := by decide

/-- the assertion reached through `rounded_sdiv_128_by_49` fails exactly for `|div| > 2^48` -/
theorem rounded_sdiv_128_by_49_abort_iff (hi lo d : Int) (hd : isI64 d) :
    roundedSdiv128By49 hi lo d = none ↔ abs d > 281474976710656 :=
  sdiv_abort_iff hi lo d hd

/-- (M3, 31.16 entry point) projective case with `0 < |w| < 65536.0` (all divisor bits kept, the
    branch `hi32divbits == 0`): each coordinate is the exact quotient `x/w` rounded to the nearest
    1/65536 (ties away from zero), clamped to the 48.16 result type; FALSE iff something was clamped. -/
theorem transformPoint3116_projective_exact (t : Transform) (v : Vec) (ht : t.isI32)
    (hv : is3116 v.x ∧ is3116 v.y ∧ is3116 v.z)
    (hW : -281474976710656 ≤ dot t.m20 t.m21 t.m22 v.x v.y v.z ∧ dot t.m20 t.m21 t.m22 v.x v.y v.z < 281474976710656)
    (h0 : dot t.m20 t.m21 t.m22 v.x v.y v.z ≠ 0) (h1 : dot t.m20 t.m21 t.m22 v.x v.y v.z ≠ 4294967296) :
    transformPoint3116 t v = some
      (!((clamp64 (roundHalfAway (dot t.m00 t.m01 t.m02 v.x v.y v.z * 65536) (dot t.m20 t.m21 t.m22 v.x v.y v.z))).2 ||
         (clamp64 (roundHalfAway (dot t.m10 t.m11 t.m12 v.x v.y v.z * 65536) (dot t.m20 t.m21 t.m22 v.x v.y v.z))).2),
       ⟨(clamp64 (roundHalfAway (dot t.m00 t.m01 t.m02 v.x v.y v.z * 65536) (dot t.m20 t.m21 t.m22 v.x v.y v.z))).1,
        (clamp64 (roundHalfAway (dot t.m10 t.m11 t.m12 v.x v.y v.z * 65536) (dot t.m20 t.m21 t.m22 v.x v.y v.z))).1,
        65536⟩) := by
  have hA : vecAssert v = true := by simp [vecAssert, hv.1, hv.2.1, hv.2.2]
  unfold Transform.isI32 at ht
  obtain ⟨d1, d2⟩ := div_parts t.m20 t.m21 t.m22 v
  have g0 := (rows_in_int64 t.m00 t.m01 t.m02 v ht.1 ht.2.1 ht.2.2.1 hv).2.2.2.1
  have g1 := (rows_in_int64 t.m10 t.m11 t.m12 v ht.2.2.2.1 ht.2.2.2.2.1 ht.2.2.2.2.2.1 hv).2.2.2.1
  have p0 := projCoord_small _ _ _ g0 ⟨hW.1, Int.le_of_lt hW.2⟩ h0
  have p1 := projCoord_small _ _ _ g1 ⟨hW.1, Int.le_of_lt hW.2⟩ h0
  rw [row_exact] at p0 p1
  simp only [transformPoint3116, hA, d1, d2, Bool.not_true, Bool.false_eq_true, if_false, fixed1]
  generalize dot t.m20 t.m21 t.m22 v.x v.y v.z = W at *
  have c1 : ¬ (W / 65536 = 65536 ∧ W % 65536 = 0) := by omega
  have c2 : ¬ (W / 65536 = 0 ∧ W % 65536 = 0) := by omega
  have ps := projDivisor_small (W / 65536) (W % 65536) (by omega) (by omega)
  have hD : W / 65536 * 65536 + W % 65536 = W := by omega
  rw [hD] at ps
  simp only [c1, c2, if_false, ps, p0, p1]

/-- (M1 + M3, the property's "exactly whenever |w| < 65536") the public `pixman_transform_point`, for
    every `int32_t` matrix and vector whose exact homogeneous coordinate `w` satisfies
    `0 < |w| < 65536.0`: does not abort; there are nearest-1/65536 roundings `qx, qy` of the exact
    quotients `x/w, y/w` such that the call returns TRUE iff both are representable in 16.16, and
    then the vector is `(qx, qy, 1.0)`. -/
theorem transformPoint_exact (t : Transform) (v : Vec) (ht : t.isI32) (hv : v.isI32)
    (hW : -281474976710656 ≤ dot t.m20 t.m21 t.m22 v.x v.y v.z ∧ dot t.m20 t.m21 t.m22 v.x v.y v.z < 281474976710656)
    (h0 : dot t.m20 t.m21 t.m22 v.x v.y v.z ≠ 0) :
    ∃ b out qx qy, transformPoint t v = some (b, out) ∧
      IsNearest qx (dot t.m00 t.m01 t.m02 v.x v.y v.z * 65536) (dot t.m20 t.m21 t.m22 v.x v.y v.z) ∧
      IsNearest qy (dot t.m10 t.m11 t.m12 v.x v.y v.z * 65536) (dot t.m20 t.m21 t.m22 v.x v.y v.z) ∧
      (b = true ↔ Rep32 qx ∧ Rep32 qy) ∧ (b = true → out = ⟨qx, qy, 65536⟩) := by
  by_cases h1 : dot t.m20 t.m21 t.m22 v.x v.y v.z = 4294967296
  · obtain ⟨b, out, e, hb, ho⟩ := transformPoint_affine t v hv h1
    refine ⟨b, out, _, _, e, ?_, ?_, hb, ho⟩ <;> rw [h1] <;> exact affine_isNearest _
  · have h31 : is3116 v.x ∧ is3116 v.y ∧ is3116 v.z := by
      unfold Vec.isI32 isI32 at hv; unfold is3116; omega
    have e := transformPoint3116_projective_exact t v ht h31 hW h0 h1
    have nx := roundHalfAway_isNearest (dot t.m00 t.m01 t.m02 v.x v.y v.z * 65536) _ h0
    have ny := roundHalfAway_isNearest (dot t.m10 t.m11 t.m12 v.x v.y v.z * 65536) _ h0
    generalize roundHalfAway (dot t.m00 t.m01 t.m02 v.x v.y v.z * 65536) (dot t.m20 t.m21 t.m22 v.x v.y v.z) = qx at *
    generalize roundHalfAway (dot t.m10 t.m11 t.m12 v.x v.y v.z * 65536) (dot t.m20 t.m21 t.m22 v.x v.y v.z) = qy at *
    unfold transformPoint
    rw [e]
    have r1 : Rep32 65536 := by unfold Rep32; omega
    rcases clamp64_cases qx with ⟨fx, vx⟩ | ⟨fx, nrx⟩ <;> rcases clamp64_cases qy with ⟨fy, vy⟩ | ⟨fy, nry⟩ <;>
      simp only [fx, fy, Bool.or_false, Bool.or_true, Bool.not_true, Bool.not_false, Bool.or_self]
    · rw [vx, vy]
      have ts := truncVec_spec ⟨qx, qy, 65536⟩
      refine ⟨(truncVec _).1, (truncVec _).2, qx, qy, rfl, nx, ny, ?_, ts.2⟩
      rw [ts.1]; simp only [r1, and_true]
    · exact ⟨false, v, qx, qy, rfl, nx, ny, by simp [nry], by intro h; cases h⟩
    · exact ⟨false, v, qx, qy, rfl, nx, ny, by simp [nrx], by intro h; cases h⟩
    · exact ⟨false, v, qx, qy, rfl, nx, ny, by simp [nrx], by intro h; cases h⟩

/-- No signed 64-bit overflow in the row computations of `pixman_transform_point_31_16{,_3d,_affine}`:
    for `int32_t` matrix entries and inputs admitted by the asserts, `tmp[i][0]`, `tmp[i][1]`,
    `tmp[i][1] + 0x8000`, `divint` and the rounded sum all fit `int64_t` (so the unbounded `Int`
    arithmetic of the model is the C arithmetic). -/
theorem tmp_in_int64 (a b c : Int) (v : Vec) (ha : isI32 a) (hb : isI32 b) (hc : isI32 c)
    (hv : is3116 v.x ∧ is3116 v.y ∧ is3116 v.z) :
    isI64 (rowHi a b c v) ∧ isI64 (rowLo a b c v) ∧ isI64 (rowLo a b c v + 32768) ∧
    isI64 (rowHi a b c v + rowLo a b c v / 65536) ∧ isI64 (roundRow (rowHi a b c v) (rowLo a b c v)) :=
  rows_in_int64 a b c v ha hb hc hv

/-- No signed 64-bit overflow in `pixman_transform_multiply`: products, `partial + 0x8000` and the
    accumulated sum fit `int64_t` for `int32_t` operands. -/
theorem mulEntry_in_int64 (a0 a1 a2 b0 b1 b2 : Int) (h0 : isI32 a0) (h1 : isI32 a1) (h2 : isI32 a2)
    (k0 : isI32 b0) (k1 : isI32 b1) (k2 : isI32 b2) :
    isI64 (a0 * b0) ∧ isI64 (a0 * b0 + 32768) ∧ isI64 (a1 * b1 + 32768) ∧ isI64 (a2 * b2 + 32768) ∧
    isI64 (mulTerm a0 b0 + mulTerm a1 b1) ∧ isI64 (mulEntry a0 a1 a2 b0 b1 b2) :=
  mulEntry_range a0 a1 a2 b0 b1 b2 h0 h1 h2 k0 k1 k2

/-- (M2, signed wrapper) `rounded_sdiv_128_by_49` on a signed 128-bit dividend `hi:lo` and
    `0 < |div| < 2^48`: does not abort and returns, as a 128-bit two's complement pair, the quotient
    rounded to nearest with ties away from zero. -/
theorem rounded_sdiv_128_by_49_nearest (hi lo d : Int) (hhi : isI64 hi) (hlo : isU64 lo)
    (hd : -281474976710656 ≤ d ∧ d ≤ 281474976710656) (hd0 : d ≠ 0)
    (hQ : roundHalfUp (abs (hi * 18446744073709551616 + lo)) (abs d) < 170141183460469231731687303715884105728) :
    ∃ r, roundedSdiv128By49 hi lo d = some r ∧ isI64 r.1 ∧ isI64 r.2 ∧
      r.2 * 18446744073709551616 + r.1 % 18446744073709551616
        = roundHalfAway (hi * 18446744073709551616 + lo) d :=
  sdiv_spec_away hi lo d hhi hlo hd hd0 hQ

theorem multiply_cases (l r : Transform) :
    ((productSpec l r).Rep ∧ multiply l r = some (productSpec l r)) ∨ (¬ (productSpec l r).Rep ∧ multiply l r = none) := by
  by_cases h : (productSpec l r).Rep
  · exact Or.inl ⟨h, (multiply_spec l r).1 h⟩
  · exact Or.inr ⟨h, (multiply_spec l r).2 h⟩

/-- scale/rotate/translate share `applyPair`: TRUE iff every requested product is representable and,
    when a reverse matrix is given, the operand check `revOk` passed; then `forward = t × forward` and
    `reverse = reverse × t'` (per-term rounded products).  On FALSE a forward product that succeeded
    before the reverse part failed has already been stored. -/
theorem applyPair_spec (fwd rev : Option Transform) (tf : Transform) (revOk : Bool) (tr : Transform) :
    ((applyPair fwd rev tf revOk tr).1 = true ↔
       (∀ f, fwd = some f → (productSpec tf f).Rep) ∧
       (∀ r, rev = some r → revOk = true ∧ (productSpec r tr).Rep)) ∧
    ((applyPair fwd rev tf revOk tr).1 = true →
       (applyPair fwd rev tf revOk tr).2.1 = fwd.map (productSpec tf) ∧
       (applyPair fwd rev tf revOk tr).2.2 = rev.map (fun r => productSpec r tr)) := by
  unfold applyPair
  cases revOk <;> cases fwd with
  | none =>
    cases rev with
    | none => simp
    | some r =>
      rcases multiply_cases r tr with ⟨h, e⟩ | ⟨h, e⟩ <;> simp [e, h]
  | some f =>
    rcases multiply_cases tf f with ⟨h, e⟩ | ⟨h, e⟩
    · cases rev with
      | none => simp [e, h]
      | some r => rcases multiply_cases r tr with ⟨h', e'⟩ | ⟨h', e'⟩ <;> simp [e, h, e', h']
    · simp [e, h]

/-- the reverse operand matters only when the operand check passed -/
theorem applyPair_operand (fwd rev : Option Transform) (tf : Transform) (revOk : Bool) (tr tr' : Transform)
    (h : revOk = true → tr = tr') :
    applyPair fwd rev tf revOk tr = applyPair fwd rev tf revOk tr' := by
  cases revOk with
  | true => rw [h rfl]
  | false =>
    unfold applyPair
    cases fwd <;> cases rev <;> simp

/-- `applyPair_spec` with the operand check read as a proposition `P` and the reverse operand replaced
    by its exact value `tr'` (equal to the computed one whenever the check passes) -/
theorem applyPair_exact (fwd rev : Option Transform) (tf : Transform) (revOk : Bool) (tr tr' : Transform)
    (P : Prop) (hP : revOk = true ↔ P) (htr : P → tr = tr') :
    ((applyPair fwd rev tf revOk tr).1 = true ↔
       (∀ f, fwd = some f → (productSpec tf f).Rep) ∧
       (∀ r, rev = some r → P ∧ (productSpec r tr').Rep)) ∧
    ((applyPair fwd rev tf revOk tr).1 = true →
       (applyPair fwd rev tf revOk tr).2.1 = fwd.map (productSpec tf) ∧
       (applyPair fwd rev tf revOk tr).2.2 = rev.map (fun r => productSpec r tr')) := by
  rw [applyPair_operand fwd rev tf revOk tr tr' (fun h => htr (hP.1 h))]
  have := applyPair_spec fwd rev tf revOk tr'
  rw [hP] at this
  exact this

/-- `pixman_transform_translate`: TRUE iff `T(tx,ty) × forward` is representable (when `forward` is
    given) and (when `reverse` is given) `-tx`, `-ty` are representable and `reverse × T(-tx,-ty)` is;
    then these per-term rounded products are the results.  FALSE otherwise (never a wrapped value). -/
theorem translate_spec (fwd rev : Option Transform) (tx ty : Int) (hx : isI32 tx) (hy : isI32 ty) :
    ((translate fwd rev tx ty).1 = true ↔
       (∀ f, fwd = some f → (productSpec (initTranslate tx ty) f).Rep) ∧
       (∀ r, rev = some r → (Rep32 (-tx) ∧ Rep32 (-ty)) ∧ (productSpec r (initTranslate (-tx) (-ty))).Rep)) ∧
    ((translate fwd rev tx ty).1 = true →
       (translate fwd rev tx ty).2.1 = fwd.map (productSpec (initTranslate tx ty)) ∧
       (translate fwd rev tx ty).2.2 = rev.map (fun r => productSpec r (initTranslate (-tx) (-ty)))) := by
  unfold isI32 at hx hy
  unfold translate
  apply applyPair_exact
  · simp only [Bool.and_eq_true, decide_eq_true_eq]; unfold Rep32; omega
  · intro h
    unfold Rep32 at h
    rw [negS32_exact tx (by omega), negS32_exact ty (by omega)]

/-- regression of defect D: translation by `INT32_MIN` with a reverse matrix: FALSE, nothing stored -/
example : translate none (some initIdentity) (-2147483648) 0 = (false, none, some initIdentity) := by decide

/-- `pixman_transform_rotate` with `R = (c -s 0; s c 0; 0 0 1)`: TRUE iff `-s` is representable,
    `R(c,s) × forward` is (when given) and `reverse × R(c,-s)` is (when given); then these per-term
    rounded products are the results.  FALSE otherwise (never a wrapped value). -/
theorem rotate_spec (fwd rev : Option Transform) (c s : Int) (hs : isI32 s) :
    ((rotate fwd rev c s).1 = true ↔ Rep32 (-s) ∧
       (∀ f, fwd = some f → (productSpec ⟨c, -s, 0, s, c, 0, 0, 0, 65536⟩ f).Rep) ∧
       (∀ r, rev = some r → (productSpec r ⟨c, s, 0, -s, c, 0, 0, 0, 65536⟩).Rep)) ∧
    ((rotate fwd rev c s).1 = true →
       (rotate fwd rev c s).2.1 = fwd.map (productSpec ⟨c, -s, 0, s, c, 0, 0, 0, 65536⟩) ∧
       (rotate fwd rev c s).2.2 = rev.map (fun r => productSpec r ⟨c, s, 0, -s, c, 0, 0, 0, 65536⟩)) := by
  unfold isI32 at hs
  unfold rotate
  by_cases h : s = -2147483648
  · have : ¬ Rep32 (-s) := by unfold Rep32; omega
    rw [if_pos h]
    refine ⟨⟨fun hh => (by cases hh), fun hh => absurd hh.1 this⟩, fun hh => (by cases hh)⟩
  · have hr : Rep32 (-s) := by unfold Rep32; omega
    simp only [h, if_false, hr, true_and]
    have e1 : initRotate c s = ⟨c, -s, 0, s, c, 0, 0, 0, 65536⟩ := by
      unfold initRotate fixed1; rw [negS32_exact s (by omega)]
    have e2 : initRotate c (negS32 s) = ⟨c, s, 0, -s, c, 0, 0, 0, 65536⟩ := by
      unfold initRotate fixed1; rw [negS32_exact s (by omega), negS32_exact (-s) (by omega), Int.neg_neg]
    rw [e1, e2]
    have := applyPair_spec fwd rev ⟨c, -s, 0, s, c, 0, 0, 0, 65536⟩ true ⟨c, s, 0, -s, c, 0, 0, 0, 65536⟩
    simpa using this

example : rotate (some initIdentity) none 0 (-2147483648) = (false, some initIdentity, none) := by decide
example : rotate (some initIdentity) (some initIdentity) 0 65536
    = (true, some ⟨0, -65536, 0, 65536, 0, 0, 0, 0, 65536⟩, some ⟨0, 65536, 0, -65536, 0, 0, 0, 0, 65536⟩) := by decide

/-- `fixed_inverse`: the reciprocal `2^32 / x` truncated towards zero: within one unit of the exact
    reciprocal and never larger in magnitude; it does not fit `int32_t` exactly for `x ∈ {1, -1, 2}`
    (the cases `pixman_transform_scale` refuses before calling it). -/
theorem fixedInverse_spec (x : Int) (hx : isI32 x) (h0 : x ≠ 0) :
    (Rep32 (Int.tdiv 4294967296 x) → fixedInverse x = Int.tdiv 4294967296 x) ∧
    abs (4294967296 - Int.tdiv 4294967296 x * x) < abs x ∧
    (¬ Rep32 (Int.tdiv 4294967296 x) ↔ x = 1 ∨ x = -1 ∨ x = 2) := by
  unfold isI32 at hx
  have hq : Int.tdiv 4294967296 x = 4294967296 / x := Int.tdiv_eq_ediv_of_nonneg (by omega)
  rw [hq]
  refine ⟨fun h => ?_, ?_, ?_⟩
  · unfold fixedInverse; rw [hq]; exact wrapS32_of_range _ h
  · by_cases hp : 0 < x
    · obtain ⟨e, r1, r2⟩ := divmod_spec 4294967296 x hp
      rw [Int.mul_comm] at e
      generalize 4294967296 / x * x = p at *
      unfold abs; split <;> split <;> omega
    · have hy : 0 < -x := by omega
      obtain ⟨e, r1, r2⟩ := divmod_spec 4294967296 (-x) hy
      have e2 : 4294967296 / x = -(4294967296 / -x) := by rw [← Int.ediv_neg, Int.neg_neg]
      rw [e2, Int.neg_mul, ← Int.mul_neg, Int.mul_comm]
      generalize -x * (4294967296 / -x) = p at *
      unfold abs; split <;> split <;> omega
  · unfold Rep32
    by_cases hp : 0 < x
    · have a1 : 2147483648 ≤ 4294967296 / x ↔ 2147483648 * x ≤ 4294967296 := Int.le_ediv_iff_mul_le hp
      have a2 : 0 ≤ 4294967296 / x := Int.ediv_nonneg (by omega) (by omega)
      omega
    · have hy : 0 < -x := by omega
      have e2 : 4294967296 / x = -(4294967296 / -x) := by rw [← Int.ediv_neg, Int.neg_neg]
      have a1 : 2147483649 ≤ 4294967296 / -x ↔ 2147483649 * -x ≤ 4294967296 := Int.le_ediv_iff_mul_le hy
      have a2 : 0 ≤ 4294967296 / -x := Int.ediv_nonneg (by omega) (by omega)
      rw [e2]
      omega

/-- `pixman_transform_scale` with `q(s) = 2^32 / s` truncated towards zero: TRUE iff both factors are
    non-zero, `S(sx,sy) × forward` is representable (when given) and (when `reverse` is given) both
    truncated reciprocals are representable and `reverse × S(q(sx),q(sy))` is; then these per-term
    rounded products — with the EXACT truncated reciprocals — are the results.  FALSE otherwise. -/
theorem scale_spec (fwd rev : Option Transform) (sx sy : Int) (hx : isI32 sx) (hy : isI32 sy) :
    ((scale fwd rev sx sy).1 = true ↔ sx ≠ 0 ∧ sy ≠ 0 ∧
       (∀ f, fwd = some f → (productSpec (initScale sx sy) f).Rep) ∧
       (∀ r, rev = some r → (Rep32 (Int.tdiv 4294967296 sx) ∧ Rep32 (Int.tdiv 4294967296 sy)) ∧
          (productSpec r (initScale (Int.tdiv 4294967296 sx) (Int.tdiv 4294967296 sy))).Rep)) ∧
    ((scale fwd rev sx sy).1 = true →
       (scale fwd rev sx sy).2.1 = fwd.map (productSpec (initScale sx sy)) ∧
       (scale fwd rev sx sy).2.2 = rev.map (fun r => productSpec r
          (initScale (Int.tdiv 4294967296 sx) (Int.tdiv 4294967296 sy)))) := by
  unfold scale
  by_cases h0 : sx = 0 ∨ sy = 0
  · simp only [h0, if_true]
    constructor
    · constructor
      · intro h; cases h
      · intro h; rcases h0 with h0 | h0
        · exact absurd h0 h.1
        · exact absurd h0 h.2.1
    · intro h; cases h
  · have hx0 : sx ≠ 0 := fun h => h0 (Or.inl h)
    have hy0 : sy ≠ 0 := fun h => h0 (Or.inr h)
    rw [if_neg h0]
    simp only [ne_eq, hx0, hy0, not_false_eq_true, true_and]
    obtain ⟨fx1, _, fx3⟩ := fixedInverse_spec sx hx hx0
    obtain ⟨fy1, _, fy3⟩ := fixedInverse_spec sy hy hy0
    apply applyPair_exact
    · unfold scaleInverseOverflows
      simp only [Bool.not_eq_true', Bool.or_eq_false_iff, Bool.and_eq_false_iff, decide_eq_false_iff_not]
      constructor
      · intro h
        constructor
        · apply Classical.byContradiction; intro hn; have := fx3.1 hn; omega
        · apply Classical.byContradiction; intro hn; have := fy3.1 hn; omega
      · intro h
        have nx : ¬ (sx = 1 ∨ sx = -1 ∨ sx = 2) := fun hh => (fx3.2 hh) h.1
        have ny : ¬ (sy = 1 ∨ sy = -1 ∨ sy = 2) := fun hh => (fy3.2 hh) h.2
        omega
    · intro h
      rw [fx1 h.1, fy1 h.2]

/-- regression of defect C: scale by 1/65536 with a reverse matrix: FALSE -/
example : scale none (some initIdentity) 1 65536 = (false, none, some initIdentity) := by decide
example : scale (some initIdentity) (some initIdentity) 131072 32768
    = (true, some ⟨131072, 0, 0, 0, 32768, 0, 0, 0, 65536⟩, some ⟨32768, 0, 0, 0, 131072, 0, 0, 0, 65536⟩) := by decide

/-- (M4 step, 31.16 entry point) projective case with `|w| ≥ 65536.0` (`hi32divbits ≠ 0`): with `s` the
    number of bits dropped, each coordinate is `⌊x·2^16/2^s⌋ / ⌊w/2^s⌋` rounded to nearest (ties away
    from zero) and clamped (the reduced divisor has 47 significant bits: `2^47 ≤ |⌊w/2^s⌋| ≤ 2^48`). -/
theorem transformPoint3116_projective_reduced (t : Transform) (v : Vec) (ht : t.isI32)
    (hv : is3116 v.x ∧ is3116 v.y ∧ is3116 v.z)
    (hW : ¬ (-281474976710656 ≤ dot t.m20 t.m21 t.m22 v.x v.y v.z ∧ dot t.m20 t.m21 t.m22 v.x v.y v.z < 281474976710656)) :
    ∃ s : Nat, 1 ≤ s ∧ s ≤ 31 ∧
      140737488355328 ≤ abs (dot t.m20 t.m21 t.m22 v.x v.y v.z / (2 : Int) ^ s) ∧
        transformPoint3116 t v = some
          (!((clamp64 (roundHalfAway (dot t.m00 t.m01 t.m02 v.x v.y v.z * 65536 / (2 : Int) ^ s) (dot t.m20 t.m21 t.m22 v.x v.y v.z / (2 : Int) ^ s))).2 ||
             (clamp64 (roundHalfAway (dot t.m10 t.m11 t.m12 v.x v.y v.z * 65536 / (2 : Int) ^ s) (dot t.m20 t.m21 t.m22 v.x v.y v.z / (2 : Int) ^ s))).2),
           ⟨(clamp64 (roundHalfAway (dot t.m00 t.m01 t.m02 v.x v.y v.z * 65536 / (2 : Int) ^ s) (dot t.m20 t.m21 t.m22 v.x v.y v.z / (2 : Int) ^ s))).1,
            (clamp64 (roundHalfAway (dot t.m10 t.m11 t.m12 v.x v.y v.z * 65536 / (2 : Int) ^ s) (dot t.m20 t.m21 t.m22 v.x v.y v.z / (2 : Int) ^ s))).1,
            65536⟩) := by
  have hA : vecAssert v = true := by simp [vecAssert, hv.1, hv.2.1, hv.2.2]
  unfold Transform.isI32 at ht
  obtain ⟨d1, d2⟩ := div_parts t.m20 t.m21 t.m22 v
  have g0 := tmp_in_int64 t.m00 t.m01 t.m02 v ht.1 ht.2.1 ht.2.2.1 hv
  have g1 := tmp_in_int64 t.m10 t.m11 t.m12 v ht.2.2.2.1 ht.2.2.2.2.1 ht.2.2.2.2.2.1 hv
  have g2 := (tmp_in_int64 t.m20 t.m21 t.m22 v ht.2.2.2.2.2.2.1 ht.2.2.2.2.2.2.2.1 ht.2.2.2.2.2.2.2.2 hv).2.2.2.1
  rw [d1] at g2
  have x0 := row_exact t.m00 t.m01 t.m02 v
  have x1 := row_exact t.m10 t.m11 t.m12 v
  generalize dot t.m20 t.m21 t.m22 v.x v.y v.z = W at *
  obtain ⟨s, s1, s2, e, lo, hi, big⟩ := projDivisor_large (W / 65536) (W % 65536) g2 (by omega) (by omega)
  have hD : W / 65536 * 65536 + W % 65536 = W := by omega
  rw [hD] at e lo hi big
  have hp : (0 : Int) < 2 ^ s := Int.pow_pos (by omega)
  -- range of the reduced divisor
  have r1 : -281474976710656 ≤ W / 2 ^ s := by apply Int.le_ediv_of_mul_le hp; rw [Int.neg_mul]; exact lo
  have r2 : W / 2 ^ s < 281474976710656 := Int.ediv_lt_of_lt_mul hp hi
  have r3 : 140737488355328 ≤ abs (W / 2 ^ s) := by
    unfold abs
    rcases big with b | b
    · have : 140737488355328 ≤ W / 2 ^ s := Int.le_ediv_of_mul_le hp b
      split <;> omega
    · have : W / 2 ^ s < -140737488355328 := by
        apply Int.ediv_lt_of_lt_mul hp; rw [Int.neg_mul]; exact b
      split <;> omega
  refine ⟨s, s1, s2, r3, ?_⟩
  have c1 : ¬ (W / 65536 = 65536 ∧ W % 65536 = 0) := by omega
  have c2 : ¬ (W / 65536 = 0 ∧ W % 65536 = 0) := by omega
  simp only [transformPoint3116, hA, d1, d2, Bool.not_true, Bool.false_eq_true, if_false, fixed1, c1, c2, e]
  have hW' : -281474976710656 ≤ W / 2 ^ s ∧ W / 2 ^ s ≤ 281474976710656 := by omega
  have hW0 : W / 2 ^ s ≠ 0 := by unfold abs at r3; split at r3 <;> omega
  have n0 := to128_reduced _ _ s s1 s2 g0.2.2.2.1
  have n1 := to128_reduced _ _ s s1 s2 g1.2.2.2.1
  rw [x0] at n0; rw [x1] at n1
  have b0 : -79228162514264337593543950336 ≤ dot t.m00 t.m01 t.m02 v.x v.y v.z * 65536 ∧
      dot t.m00 t.m01 t.m02 v.x v.y v.z * 65536 ≤ 79228162514264337593543950336 := by
    have := g0.2.2.2.1; unfold isI64 at this; omega
  have b1 : -79228162514264337593543950336 ≤ dot t.m10 t.m11 t.m12 v.x v.y v.z * 65536 ∧
      dot t.m10 t.m11 t.m12 v.x v.y v.z * 65536 ≤ 79228162514264337593543950336 := by
    have := g1.2.2.2.1; unfold isI64 at this; omega
  have p0 := projCoord_of_value _ _ (W / 2 ^ s) _ _ n0.1 n0.2 (ediv_pow_bounds _ _ s b0 (by omega)) hW' hW0
  have p1 := projCoord_of_value _ _ (W / 2 ^ s) _ _ n1.1 n1.2 (ediv_pow_bounds _ _ s b1 (by omega)) hW' hW0
  simp only [p0, p1]


/-- (M4, sharp form) the public `pixman_transform_point` for `|w| ≥ 65536.0`, every `int32_t` matrix and vector:
    the call does not abort; there are integers `qx, qy` (the roundings the code computes from the
    precision-reduced divisor) with `|qx − x/w| ≤ 1/2 + 2/65536` and `|qy − y/w| ≤ 1/2 + 2/65536` units of
    1/65536 — the final rounding included — such that TRUE is returned iff both are representable in 16.16,
    and then the vector is `(qx, qy, 1.0)`. -/
theorem transformPoint_reduced_sharp (t : Transform) (v : Vec) (ht : t.isI32) (hv : v.isI32)
    (hW : ¬ (-281474976710656 ≤ dot t.m20 t.m21 t.m22 v.x v.y v.z ∧ dot t.m20 t.m21 t.m22 v.x v.y v.z < 281474976710656)) :
    ∃ b out qx qy, transformPoint t v = some (b, out) ∧
      IsWithinHalfPlus qx (dot t.m00 t.m01 t.m02 v.x v.y v.z * 65536) (dot t.m20 t.m21 t.m22 v.x v.y v.z) ∧
      IsWithinHalfPlus qy (dot t.m10 t.m11 t.m12 v.x v.y v.z * 65536) (dot t.m20 t.m21 t.m22 v.x v.y v.z) ∧
      (b = true ↔ Rep32 qx ∧ Rep32 qy) ∧ (b = true → out = ⟨qx, qy, 65536⟩) := by
  have h31 : is3116 v.x ∧ is3116 v.y ∧ is3116 v.z := by
    unfold Vec.isI32 isI32 at hv; unfold is3116; omega
  obtain ⟨s, s1, s2, big, e⟩ := transformPoint3116_projective_reduced t v ht h31 hW
  have hW0 : dot t.m20 t.m21 t.m22 v.x v.y v.z / (2 : Int) ^ s ≠ 0 := by unfold abs at big; split at big <;> omega
  have nx := roundHalfAway_isNearest (dot t.m00 t.m01 t.m02 v.x v.y v.z * 65536 / 2 ^ s) _ hW0
  have ny := roundHalfAway_isNearest (dot t.m10 t.m11 t.m12 v.x v.y v.z * 65536 / 2 ^ s) _ hW0
  have ht' := ht
  unfold Transform.isI32 at ht'
  have bx := dot_bound t.m00 t.m01 t.m02 v ht'.1 ht'.2.1 ht'.2.2.1 hv
  have by' := dot_bound t.m10 t.m11 t.m12 v ht'.2.2.2.1 ht'.2.2.2.2.1 ht'.2.2.2.2.2.1 hv
  have ex := (reduced_error _ _ _ s s1 nx big (by omega)).1
  have ey := (reduced_error _ _ _ s s1 ny big (by omega)).1
  generalize roundHalfAway (dot t.m00 t.m01 t.m02 v.x v.y v.z * 65536 / 2 ^ s) (dot t.m20 t.m21 t.m22 v.x v.y v.z / 2 ^ s) = qx at *
  generalize roundHalfAway (dot t.m10 t.m11 t.m12 v.x v.y v.z * 65536 / 2 ^ s) (dot t.m20 t.m21 t.m22 v.x v.y v.z / 2 ^ s) = qy at *
  unfold transformPoint
  rw [e]
  have r1 : Rep32 65536 := by unfold Rep32; omega
  rcases clamp64_cases qx with ⟨fx, vx⟩ | ⟨fx, nrx⟩ <;> rcases clamp64_cases qy with ⟨fy, vy⟩ | ⟨fy, nry⟩ <;>
    simp only [fx, fy, Bool.or_false, Bool.or_true, Bool.not_true, Bool.not_false, Bool.or_self]
  · rw [vx, vy]
    have ts := truncVec_spec ⟨qx, qy, 65536⟩
    refine ⟨(truncVec _).1, (truncVec _).2, qx, qy, rfl, ex, ey, ?_, ts.2⟩
    rw [ts.1]; simp only [r1, and_true]
  · exact ⟨false, v, qx, qy, rfl, ex, ey, by simp [nry], by intro h; cases h⟩
  · exact ⟨false, v, qx, qy, rfl, ex, ey, by simp [nrx], by intro h; cases h⟩
  · exact ⟨false, v, qx, qy, rfl, ex, ey, by simp [nrx], by intro h; cases h⟩

/-- (M4, full) the property's "within one unit otherwise ... FALSE instead of a wrapped value", for every
    `int32_t` matrix and vector with `|w| ≥ 65536.0`: the call never aborts;
    TRUE ⇒ the stored vector is `(x', y', 1.0)` with `x', y'` representable and each within one unit (in fact
    within `1/2 + 2/65536`, `transformPoint_reduced_sharp`) of the exact quotient;
    FALSE ⇒ at least one of the exact rational quotients `x/w`, `y/w` (in 16.16 units) lies outside the closed
    range `[INT32_MIN, INT32_MAX]` of representable values: FALSE is never returned for a point whose exact
    image is inside the representable range, and a value that does not fit is never returned as TRUE. -/
theorem transformPoint_within_one (t : Transform) (v : Vec) (ht : t.isI32) (hv : v.isI32)
    (hW : ¬ (-281474976710656 ≤ dot t.m20 t.m21 t.m22 v.x v.y v.z ∧ dot t.m20 t.m21 t.m22 v.x v.y v.z < 281474976710656)) :
    ∃ b out, transformPoint t v = some (b, out) ∧
      (b = true → Rep32 out.x ∧ Rep32 out.y ∧ out.z = 65536 ∧
        IsWithinOne out.x (dot t.m00 t.m01 t.m02 v.x v.y v.z * 65536) (dot t.m20 t.m21 t.m22 v.x v.y v.z) ∧
        IsWithinOne out.y (dot t.m10 t.m11 t.m12 v.x v.y v.z * 65536) (dot t.m20 t.m21 t.m22 v.x v.y v.z)) ∧
      (b = false →
        ¬ (QuotInRange (dot t.m00 t.m01 t.m02 v.x v.y v.z * 65536) (dot t.m20 t.m21 t.m22 v.x v.y v.z) (-2147483648) 2147483647 ∧
           QuotInRange (dot t.m10 t.m11 t.m12 v.x v.y v.z * 65536) (dot t.m20 t.m21 t.m22 v.x v.y v.z) (-2147483648) 2147483647)) := by
  obtain ⟨b, out, qx, qy, e, hx, hy, hb, ho⟩ := transformPoint_reduced_sharp t v ht hv hW
  have hW0 : dot t.m20 t.m21 t.m22 v.x v.y v.z ≠ 0 := by omega
  refine ⟨b, out, e, ?_, ?_⟩
  · intro h
    have o := ho h
    have r := hb.1 h
    subst o
    exact ⟨r.1, r.2, rfl, halfPlus_within_one _ _ _ hx, halfPlus_within_one _ _ _ hy⟩
  · intro h hin
    have nr : ¬ (Rep32 qx ∧ Rep32 qy) := by
      intro hr; have := hb.2 hr; rw [h] at this; cases this
    by_cases rx : Rep32 qx
    · have ry : ¬ Rep32 qy := fun hy' => nr ⟨rx, hy'⟩
      exact quot_out_of_range _ _ _ hW0 hy ry hin.2
    · exact quot_out_of_range _ _ _ hW0 hx rx hin.1

/-- "within one unit" cannot be sharpened to "nearest" for `|w| ≥ 65536.0`: here `w = 2^48 + 1` (32.32 units), the
    exact quotient is `3.4999999…` units, its nearest rounding is 3, the code (and the library, replayed through
    the harness: `point 65536 0 0 0 65536 0 0 0 12648641 229376 0 22253377` ⇒ `1 4 0 65536`) returns 4. -/
example : transformPoint ⟨65536, 0, 0, 0, 65536, 0, 0, 0, 12648641⟩ ⟨229376, 0, 22253377⟩ = some (true, ⟨4, 0, 65536⟩) ∧
    ¬ IsNearest 4 (dot 65536 0 0 229376 0 22253377 * 65536) (dot 0 0 12648641 229376 0 22253377) ∧
    IsNearest 3 (dot 65536 0 0 229376 0 22253377 * 65536) (dot 0 0 12648641 229376 0 22253377) := by
  unfold IsNearest; decide

/-- the exact homogeneous coordinate is zero (no quotient exists), every `int32_t` matrix and vector: FALSE, and
    the vector is left untouched -/
theorem transformPoint_w_zero (t : Transform) (v : Vec) (hv : v.isI32)
    (hw : dot t.m20 t.m21 t.m22 v.x v.y v.z = 0) : transformPoint t v = some (false, v) := by
  have h31 : is3116 v.x ∧ is3116 v.y ∧ is3116 v.z := by
    unfold Vec.isI32 isI32 at hv; unfold is3116; omega
  have hA : vecAssert v = true := by simp [vecAssert, h31.1, h31.2.1, h31.2.2]
  have r2 := row_exact t.m20 t.m21 t.m22 v
  rw [hw] at r2
  have hdi : rowHi t.m20 t.m21 t.m22 v + rowLo t.m20 t.m21 t.m22 v / 65536 = 0 := by omega
  have hdf : rowLo t.m20 t.m21 t.m22 v % 65536 = 0 := by omega
  have c1 : ¬ ((0 : Int) = fixed1) := by unfold fixed1; omega
  simp only [transformPoint, transformPoint3116, hA, hdi, hdf, Bool.not_true, Bool.false_eq_true, if_false, c1, and_self, and_true, if_true]

/-! ### the predicates: pixman_transform_is_identity / is_scale / is_int_translate / is_inverse -/

/-- `within_epsilon (a, b, eps)` when the `int32_t` difference does not wrap and is not `INT32_MIN`: `|a - b| ≤ eps` -/
theorem withinEpsilon_spec (a b eps : Int) (hd : -2147483648 < a - b ∧ a - b ≤ 2147483647) :
    withinEpsilon a b eps = true ↔ abs (a - b) ≤ eps := by
  unfold withinEpsilon abs
  have e1 : wrapS32 (a - b) = a - b := wrapS32_of_range _ (by omega)
  simp only [e1]
  split
  · next h => have e2 : wrapS32 (-(a - b)) = -(a - b) := wrapS32_of_range _ (by omega)
              simp only [e2, decide_eq_true_eq]
  · simp only [decide_eq_true_eq]

/-- the quirk of the compiled code: a difference of exactly `INT32_MIN` negates to itself and passes every `eps ≥ INT32_MIN` -/
theorem withinEpsilon_int32min (a b eps : Int) (hd : a - b = -2147483648) (he : -2147483648 ≤ eps) :
    withinEpsilon a b eps = true := by
  unfold withinEpsilon
  rw [hd]
  have : wrapS32 (-2147483648) = -2147483648 := by decide
  simp only [this]
  have : wrapS32 (- -2147483648) = -2147483648 := by decide
  simp only [show ((-2147483648 : Int) < 0) from by decide, if_true, this, decide_eq_true_eq]
  exact he

/-- "is (about) zero", "is (about) one", "differ by at most two units" for entries other than `INT32_MIN` -/
theorem isZero_iff (a : Int) (ha : -2147483648 < a ∧ a ≤ 2147483647) : isZero a = true ↔ -2 ≤ a ∧ a ≤ 2 := by
  unfold isZero; rw [withinEpsilon_spec a 0 2 (by omega)]; unfold abs; split <;> omega
theorem isOne_iff (a : Int) (ha : -2147418112 < a ∧ a ≤ 2147483647) : isOne a = true ↔ 65534 ≤ a ∧ a ≤ 65538 := by
  unfold isOne fixed1; rw [withinEpsilon_spec a 65536 2 (by omega)]; unfold abs; split <;> omega
theorem isSame_iff (a b : Int) (hd : -2147483648 < a - b ∧ a - b ≤ 2147483647) : isSame a b = true ↔ abs (a - b) ≤ 2 := by
  unfold isSame; exact withinEpsilon_spec a b 2 hd
/-- `IS_INT`: the fraction `a & 0xffff` is 0, 1 or 2 (so 1.0 - 1/65536 is NOT an integer for this test, 1.0 + 2/65536 is) -/
theorem isInt_iff (a : Int) : isInt a = true ↔ a % 65536 ≤ 2 := by
  unfold isInt
  rw [isZero_iff _ (by omega)]
  omega

/-- `pixman_transform_is_inverse (a, b)` is literally "the product as `pixman_transform_multiply` computes it exists
    and passes `pixman_transform_is_identity`" -/
theorem isInverse_iff (a b : Transform) :
    isInverse a b = true ↔ ∃ t, multiply a b = some t ∧ isIdentity t = true := by
  unfold isInverse
  cases multiply a b with
  | none => simp
  | some t => simp

/-- ... i.e., with `multiply_spec`: the per-term rounded product is representable and is an "identity" -/
theorem isInverse_spec (a b : Transform) :
    isInverse a b = true ↔ (productSpec a b).Rep ∧ isIdentity (productSpec a b) = true := by
  rw [isInverse_iff]
  have ms := multiply_spec a b
  by_cases hr : (productSpec a b).Rep
  · rw [ms.1 hr]; simp [hr]
  · rw [ms.2 hr]; simp [hr]

/-- `pixman_transform_is_identity` for entries away from `INT32_MIN`: the three diagonal entries agree within two
    units and are not (about) zero, the six others are within two units of zero.  (Any uniform diagonal passes:
    the test is projective, `2.0·I` "is the identity".) -/
theorem isIdentity_spec (t : Transform)
    (hn : ∀ x ∈ [t.m00, t.m01, t.m02, t.m10, t.m12, t.m20, t.m21], -2147483648 < x ∧ x ≤ 2147483647)
    (h1 : -2147483648 < t.m00 - t.m11 ∧ t.m00 - t.m11 ≤ 2147483647)
    (h2 : -2147483648 < t.m00 - t.m22 ∧ t.m00 - t.m22 ≤ 2147483647) :
    isIdentity t = true ↔
      abs (t.m00 - t.m11) ≤ 2 ∧ abs (t.m00 - t.m22) ≤ 2 ∧ ¬ (-2 ≤ t.m00 ∧ t.m00 ≤ 2) ∧
      (-2 ≤ t.m01 ∧ t.m01 ≤ 2) ∧ (-2 ≤ t.m02 ∧ t.m02 ≤ 2) ∧ (-2 ≤ t.m10 ∧ t.m10 ≤ 2) ∧ (-2 ≤ t.m12 ∧ t.m12 ≤ 2) ∧
      (-2 ≤ t.m20 ∧ t.m20 ≤ 2) ∧ (-2 ≤ t.m21 ∧ t.m21 ≤ 2) := by
  simp only [List.mem_cons, List.mem_nil_iff, or_false, forall_eq_or_imp, forall_eq] at hn
  obtain ⟨a0, a1, a2, a3, a4, a5, a6⟩ := hn
  unfold isIdentity
  simp only [Bool.and_eq_true, Bool.not_eq_true', ← Bool.not_eq_true, isSame_iff _ _ h1, isSame_iff _ _ h2,
    isZero_iff _ a0, isZero_iff _ a1, isZero_iff _ a2, isZero_iff _ a3, isZero_iff _ a4, isZero_iff _ a5, isZero_iff _ a6, and_assoc]

/-- `pixman_transform_is_scale` for entries other than `INT32_MIN`: diagonal not (about) zero, the rest (about) zero -/
theorem isScale_spec (t : Transform)
    (hn : ∀ x ∈ [t.m00, t.m01, t.m02, t.m10, t.m11, t.m12, t.m20, t.m21, t.m22], -2147483648 < x ∧ x ≤ 2147483647) :
    isScale t = true ↔
      ¬ (-2 ≤ t.m00 ∧ t.m00 ≤ 2) ∧ (-2 ≤ t.m01 ∧ t.m01 ≤ 2) ∧ (-2 ≤ t.m02 ∧ t.m02 ≤ 2) ∧ (-2 ≤ t.m10 ∧ t.m10 ≤ 2) ∧
      ¬ (-2 ≤ t.m11 ∧ t.m11 ≤ 2) ∧ (-2 ≤ t.m12 ∧ t.m12 ≤ 2) ∧ (-2 ≤ t.m20 ∧ t.m20 ≤ 2) ∧ (-2 ≤ t.m21 ∧ t.m21 ≤ 2) ∧
      ¬ (-2 ≤ t.m22 ∧ t.m22 ≤ 2) := by
  simp only [List.mem_cons, List.mem_nil_iff, or_false, forall_eq_or_imp, forall_eq] at hn
  obtain ⟨a0, a1, a2, a3, a4, a5, a6, a7, a8⟩ := hn
  unfold isScale
  simp only [Bool.and_eq_true, Bool.not_eq_true', ← Bool.not_eq_true, isZero_iff _ a0, isZero_iff _ a1, isZero_iff _ a2,
    isZero_iff _ a3, isZero_iff _ a4, isZero_iff _ a5, isZero_iff _ a6, isZero_iff _ a7, isZero_iff _ a8, and_assoc]

/-- `pixman_transform_is_int_translate` for `int32_t` entries (no entry is near a wrap: the compared constants are
    0 and 1.0): unit diagonal and zero off-diagonal within two units, translation with fraction 0, 1 or 2 -/
theorem isIntTranslate_spec (t : Transform)
    (hn : ∀ x ∈ [t.m00, t.m01, t.m10, t.m11, t.m20, t.m21, t.m22], -2147418112 < x ∧ x ≤ 2147483647) :
    isIntTranslate t = true ↔
      (65534 ≤ t.m00 ∧ t.m00 ≤ 65538) ∧ (-2 ≤ t.m01 ∧ t.m01 ≤ 2) ∧ t.m02 % 65536 ≤ 2 ∧ (-2 ≤ t.m10 ∧ t.m10 ≤ 2) ∧
      (65534 ≤ t.m11 ∧ t.m11 ≤ 65538) ∧ t.m12 % 65536 ≤ 2 ∧ (-2 ≤ t.m20 ∧ t.m20 ≤ 2) ∧ (-2 ≤ t.m21 ∧ t.m21 ≤ 2) ∧
      (65534 ≤ t.m22 ∧ t.m22 ≤ 65538) := by
  simp only [List.mem_cons, List.mem_nil_iff, or_false, forall_eq_or_imp, forall_eq] at hn
  obtain ⟨a0, a1, a3, a4, a6, a7, a8⟩ := hn
  unfold isIntTranslate
  simp only [Bool.and_eq_true, isOne_iff _ a0, isOne_iff _ a4, isOne_iff _ a8, isZero_iff _ (by omega : -2147483648 < t.m01 ∧ t.m01 ≤ 2147483647),
    isZero_iff _ (by omega : -2147483648 < t.m10 ∧ t.m10 ≤ 2147483647), isZero_iff _ (by omega : -2147483648 < t.m20 ∧ t.m20 ≤ 2147483647),
    isZero_iff _ (by omega : -2147483648 < t.m21 ∧ t.m21 ≤ 2147483647), isInt_iff, and_assoc]

example : isScale ⟨131072, 1, 0, -2, -3, 0, 0, 0, 65536⟩ = true := by decide
example : isIntTranslate ⟨65537, 0, 196610, 0, 65536, -65536, 0, 0, 65536⟩ = true := by decide

example : isIdentity ⟨131072, 1, 0, -2, 131073, 0, 0, 0, 131070⟩ = true := by decide
example : isIdentity ⟨65536, 3, 0, 0, 65536, 0, 0, 0, 65536⟩ = false := by decide
example : isZero (-2147483648) = true := by decide   -- the INT32_MIN quirk
example : isInverse ⟨131072, 0, 0, 0, 32768, 0, 0, 0, 65536⟩ ⟨32768, 0, 0, 0, 131072, 0, 0, 0, 65536⟩ = true := by decide
example : isInt 131074 = true ∧ isInt 131071 = false := by decide

/-! ### non-vacuity: every hypothesis set above is satisfiable by a non-trivial value -/

-- transformPoint_affine / transformPoint3116_affine: rotation-like affine matrix with translation, w = 1.0
example :=
  transformPoint_affine ⟨46341, -46341, 98304, 46341, 46341, -3, 0, 0, 65536⟩ ⟨655361, 131071, 65536⟩
    (by unfold Vec.isI32 isI32; decide) (by decide)
-- ... and an affine result that is NOT representable: FALSE
example : transformPoint ⟨65536, 0, 2147483647, 0, 65536, 0, 0, 0, 65536⟩ ⟨65536, 0, 65536⟩ = some (false, ⟨-2147418113, 0, 65536⟩) := by decide
-- transformPoint_exact, projective branch (0 < |w| < 65536.0, w ≠ 1.0), tie rounded away from zero
example :=
  transformPoint_exact ⟨65536, 0, 0, 0, 65536, 0, 0, 0, 131072⟩ ⟨-3, 5, 65536⟩
    (by unfold Transform.isI32 isI32; decide) (by unfold Vec.isI32 isI32; decide) (by decide) (by decide)
example : transformPoint ⟨65536, 0, 0, 0, 65536, 0, 0, 0, 131072⟩ ⟨-3, 5, 65536⟩ = some (true, ⟨-2, 3, 65536⟩) := by decide
-- transformPoint_reduced_sharp / transformPoint_within_one: |w| = 2^17 · 1.0 ≥ 65536.0, TRUE
example :=
  transformPoint_within_one ⟨65536, 0, 0, 0, 65536, 0, 0, 0, 2147483647⟩ ⟨6553600, -65536, 1073741824⟩
    (by unfold Transform.isI32 isI32; decide) (by unfold Vec.isI32 isI32; decide) (by decide)
-- ... and |w| = 2^48 + 2^31 - 131073 (32.32 units) with an exact x/w of about 3·2^30 units: FALSE (the stored vector is the
-- truncated 48.16 result; the return value is what reports the overflow)
example : transformPoint ⟨2147483647, 2147483647, 2147483647, 0, 65536, 0, 131073, 0, 0⟩ ⟨2147483647, 2147483647, 2147483647⟩
    = some (false, ⟨-1073766401, 32768, 65536⟩) := by decide
-- w = 0: FALSE, vector untouched
example : transformPoint ⟨65536, 0, 0, 0, 65536, 0, 65536, 0, -65536⟩ ⟨65536, 7, 65536⟩ = some (false, ⟨65536, 7, 65536⟩) := by decide
-- transformPoint3d_spec
example : transformPoint3d ⟨98304, 0, 0, 0, 32768, 0, 1, 2, 3⟩ ⟨65536, 65537, 3⟩ = some (true, ⟨98304, 32769, 3⟩) := by decide
-- multiply_spec: representable product (per-term rounding visible: 3·(1/65536 · 1/2) terms) and overflow
example : multiply ⟨1, 1, 1, 0, 65536, 0, 0, 0, 65536⟩ ⟨32768, 0, 0, 32768, 0, 0, 32768, 0, 0⟩
    = some ⟨3, 0, 0, 32768, 0, 0, 32768, 0, 0⟩ := by decide
example : multiply ⟨2147483647, 0, 0, 0, 65536, 0, 0, 0, 65536⟩ ⟨131072, 0, 0, 0, 65536, 0, 0, 0, 65536⟩ = none := by decide
-- bounds_contains_corners_partial: a TRUE case with a rotated box
example : bounds ⟨0, -65536, 0, 65536, 0, 0, 0, 0, 65536⟩ ⟨1, 2, 3, 4⟩ = some (true, ⟨-4, 1, -2, 3⟩) := by decide
-- scale_spec: forward and reverse both given
example : scale (some initIdentity) (some initIdentity) 131072 32768
    = (true, some ⟨131072, 0, 0, 0, 32768, 0, 0, 0, 65536⟩, some ⟨32768, 0, 0, 0, 131072, 0, 0, 0, 65536⟩) := by decide
-- scale by 1/65536 without a reverse matrix is fine; with one it is refused (the reciprocal 65536.0 does not fit)
example : scale (some initIdentity) none 1 65536 = (true, some ⟨1, 0, 0, 0, 65536, 0, 0, 0, 65536⟩, none) := by decide
-- fixedInverse_spec: truncation (1/1.5 = 0.66666.. -> 43690, nearest would be 43691)
example : fixedInverse 98304 = 43690 := by decide

end Pixman.Props.C11

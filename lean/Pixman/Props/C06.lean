import Pixman.Spec.PointSet
import Pixman.Spec.Canon
import Pixman.Lemmas.RegionCanon
import Pixman.Props.C05
import Pixman.Props.C07
/-! C06 — property theorems: the canonical banded form is unique for a point set, and
    `pixman_region_equal` decides set equality on canonical regions. -/
namespace Pixman.Props.C06
open Pixman.Region

theorem init_not_mem (x y : Int) : ¬ init.Mem x y := by
  simp [Region.Mem, MemL, init, Region.rects]

/-! ### a decidable checker of the canonical form (non-vacuity of everything below) -/

/-- `canonListB` decides `CanonList`. -/
theorem canonListB_iff (l : List Box) : canonListB l = true ↔ CanonList l :=
  Pixman.Region.canonListB_iff

/-- an L-shaped region with a hole row: two spans, then one span, then (after a gap) one span -/
def exL : List Box := [⟨0, 0, 2, 1⟩, ⟨3, 0, 5, 1⟩, ⟨0, 1, 2, 3⟩, ⟨0, 5, 2, 6⟩]

example : CanonList exL := by decide
example : CanonList [] := by decide
-- not canonical: touching spans in a band
example : ¬ CanonList [⟨0, 0, 2, 1⟩, ⟨2, 0, 5, 1⟩] := by decide
-- not canonical: touching bands with identical spans (should have been coalesced)
example : ¬ CanonList [⟨0, 0, 2, 1⟩, ⟨0, 1, 2, 3⟩] := by decide
-- not canonical: bands out of order, empty box, different y2 in a band
example : ¬ CanonList [⟨0, 1, 2, 3⟩, ⟨0, 0, 2, 1⟩] := by decide
example : ¬ CanonList [⟨0, 0, 0, 1⟩] := by decide
example : ¬ CanonList [⟨0, 0, 2, 1⟩, ⟨3, 0, 5, 2⟩] := by decide

def exR : Region := ⟨⟨0, 0, 5, 6⟩, .heap exL⟩
def exS : Region := ⟨⟨-3, 7, 5, 9⟩, .single⟩
def exE : Region := ⟨⟨4, 4, 9, 9⟩, .emptyStatic⟩   -- empty, with leftover extents

example : Canon exR := by decide
example : Canon exS := by decide
example : Canon exE := by decide
example : ¬ Canon ⟨⟨0, 0, 5, 7⟩, .heap exL⟩ := by decide   -- extents not tight
example : ¬ Canon ⟨⟨0, 0, 2, 1⟩, .heap [⟨0, 0, 2, 1⟩]⟩ := by decide   -- one rect stored in a list

/-! ### constructors yield canonical objects -/

theorem canon_init : Canon init := trivial

theorem canon_clear : Canon clear := trivial

/-- `init_rect` / `init_with_extents`: a good rectangle is stored inline, anything else
    gives the empty region. -/
theorem canon_initWithExtents (e : Box) : Canon (initWithExtents e) := by
  unfold initWithExtents
  cases hg : goodRect e
  · exact trivial
  · exact hg

theorem canon_initRect (c : Cfg) (x y : Int) (w h : Nat) : Canon (initRect c x y w h) := by
  unfold initRect
  simp only
  split
  · exact trivial
  · next hg =>
    simp only [Bool.not_eq_true', Bool.not_eq_false] at hg
    exact hg

theorem canon_copy {dst src : Region} (h : Canon src) : Canon (copy dst src) := h

/-- `reset` (the C code asserts `GOOD_RECT (box)`) -/
theorem canon_reset {b : Box} (h : goodRect b = true) : Canon (reset b) := h

/-- the broken region is not canonical -/
theorem not_canon_brk : ¬ Canon brk := fun h => h

example : initRect c16 3 4 5 6 = ⟨⟨3, 4, 8, 10⟩, .single⟩ ∧ initRect c16 32767 0 5 6 = init := by
  decide

/-! ### uniqueness -/

/-- A separated span list is determined by the set of x it covers. -/
theorem spans_unique {l l' : List Box} (h : SpansSep l) (h' : SpansSep l')
    (hx : ∀ x, InSpans l x ↔ InSpans l' x) : SameSpans l l' :=
  Pixman.Region.spans_unique h h' hx

/-- C06 (2), lists: a point set has at most one canonical rectangle list. -/
theorem canonList_unique {a b : List Box} (ha : CanonList a) (hb : CanonList b)
    (h : ∀ x y, MemL a x y ↔ MemL b x y) : a = b :=
  Pixman.Region.canonList_unique ha hb h

example : CanonList exL ∧ ∃ x y, MemL exL x y := ⟨by decide, 4, 0, by decide⟩

/-- C06 (2), regions: canonical regions denoting the same point set hold the same rectangles. -/
theorem canon_rects_unique {a b : Region} (ha : Canon a) (hb : Canon b)
    (h : ∀ x y, a.Mem x y ↔ b.Mem x y) : a.rects = b.rects :=
  Pixman.Region.canonList_unique (canon_canonList ha) (canon_canonList hb) h

/-- … and, unless they are empty, the same extents. -/
theorem canon_extents_unique {a b : Region} (ha : Canon a) (hb : Canon b)
    (h : ∀ x y, a.Mem x y ↔ b.Mem x y) (hne : ∃ x y, a.Mem x y) : a.extents = b.extents := by
  apply canon_extents_eq ha hb (canon_rects_unique ha hb h)
  intro hn
  obtain ⟨x, y, b, hb, _⟩ := hne
  rw [hn] at hb
  cases hb

/-- … hence they are the same object up to the representation of emptiness. -/
theorem canon_unique {a b : Region} (ha : Canon a) (hb : Canon b)
    (h : ∀ x y, a.Mem x y ↔ b.Mem x y) (hne : ∃ x y, a.Mem x y) : a = b := by
  have hr := canon_rects_unique ha hb h
  have he := canon_extents_unique ha hb h hne
  have hn : a.rects ≠ [] := by
    intro hn
    obtain ⟨x, y, b, hb, _⟩ := hne
    rw [hn] at hb
    cases hb
  obtain ⟨ea, da⟩ := a
  obtain ⟨eb, db⟩ := b
  simp only at he
  subst he
  cases da <;> cases db <;> simp only [Canon, Region.rects] at ha hb hr hn ⊢
  case single.heap => rw [← hr] at hb; simp at hb
  case heap.single => rw [hr] at ha; simp at ha
  case heap.heap => rw [hr]
  all_goals first | rfl | exact absurd rfl hn | exact absurd hr hn | exact absurd hr.symm hn | cases hr

example : Canon exR ∧ ∃ x y, exR.Mem x y := ⟨by decide, 4, 0, by decide⟩

/-! ### `pixman_region_equal` -/

/-- C06 (3): on canonical regions `equal` is equality of point sets.  All empty regions are
    equal, whatever their extents (`exE` above against `init`). -/
theorem equal_iff_mem {a b : Region} (ha : Canon a) (hb : Canon b) :
    equal a b = true ↔ ∀ x y, a.Mem x y ↔ b.Mem x y := by
  have na := canon_nil_iff ha
  have nb := canon_nil_iff hb
  constructor
  · intro h x y
    unfold equal at h
    split at h
    · next hn =>
      simp only [Bool.and_eq_true] at hn
      simp only [Region.Mem, na.1 hn.1, nb.1 hn.2]
    · simp only [bne_iff_ne, ne_eq, ite_not, Bool.if_false_right, Bool.and_eq_true,
        decide_eq_true_eq] at h
      simp only [Region.Mem, boxesEq_iff.1 h.2.2.2.2.2]
  · intro h
    have hr := canon_rects_unique ha hb h
    unfold equal
    split
    · rfl
    · next hn =>
      have hne : a.rects ≠ [] := by
        intro e
        apply hn
        simp only [Bool.and_eq_true]
        exact ⟨na.2 e, nb.2 (hr ▸ e)⟩
      have he := canon_extents_eq ha hb hr hne
      simp only [he, Region.numRects, hr, bne_self_eq_false, Bool.false_eq_true, if_false,
        boxesEq_iff]

example : equal exE init = true := by decide
example : equal exR exR = true ∧ equal exR exS = false := by decide

/-! ### history closure: every region any sequence of operations can produce is canonical -/

/-- truncation to `n ≥ 1` bits lands in the signed `n`-bit range -/
theorem wrapS_range (n : Nat) (hn : 1 ≤ n) (v : Int) :
    -(2 ^ (n - 1) : Int) ≤ wrapS n v ∧ wrapS n v < (2 ^ (n - 1) : Int) := by
  have hm : (2 ^ n : Int) = 2 * 2 ^ (n - 1) := by
    have : n = (n - 1) + 1 := by omega
    conv => lhs; rw [this, Int.pow_succ]
    omega
  have hpos : (0 : Int) < 2 ^ (n - 1) := Int.pow_pos (by decide)
  simp only [wrapS, hm]
  generalize (2 ^ (n - 1) : Int) = H at *
  have hdiv : 2 * H / 2 = H := by omega
  rw [hdiv]
  have h1 := Int.emod_nonneg v (show (2 * H) ≠ 0 by omega)
  have h2 := Int.emod_lt_of_pos v (show 0 < 2 * H by omega)
  generalize v % (2 * H) = r at *
  simp only [ge_iff_le]
  split <;> constructor <;> omega

/-- The regions reachable with the API of the model, instantiated at `c`.  One constructor per
    operation; operands must themselves be reachable; `same`/`al` are the aliasing facts of the
    call and must be consistent with the operands; the old value `d` of the destination object
    only has to be reachable.  Rectangles are given as the C callers give them: any `x y w h`
    (sums truncated), box lists with representable coordinates, non-degenerate boxes for
    `reset`/`inverse` (the documented preconditions).  The 16<->32 conversions take ANY source
    region (for 16->32 with coordinates representable in 32 bits). -/
inductive Reachable (c : Cfg) : Region → Prop
  | init : Reachable c init
  | initRect (x y : Int) (w h : Nat) : Reachable c (initRect c x y w h)
  | initWithExtents (e : Box) : Reachable c (initWithExtents e)
  | initRects (boxes : List Box) (hr : ∀ b ∈ boxes, BoxInRange c b) :
      Reachable c (initRects c boxes).1
  | copy {d s : Region} : Reachable c d → Reachable c s → Reachable c (copy d s)
  | reset (b : Box) (hg : goodRect b = true) : Reachable c (reset b)
  | clear : Reachable c clear
  | union (same : Bool) (al : Alias) {d a b : Region} : Reachable c d → Reachable c a →
      Reachable c b → (same = true → a = b) → (al = .first → d = a) → (al = .second → d = b) →
      Reachable c (union same al d a b).1
  | intersect (same : Bool) {d a b : Region} : Reachable c d → Reachable c a → Reachable c b →
      (same = true → a = b) → Reachable c (intersect same d a b).1
  | subtract (same : Bool) {d m s : Region} : Reachable c d → Reachable c m → Reachable c s →
      (same = true → m = s) → Reachable c (subtract same d m s).1
  | inverse {d a : Region} (invRect : Box) (hg : goodRect invRect = true) : Reachable c d →
      Reachable c a → Reachable c (inverse d a invRect).1
  | unionRect (al : Alias) {d s : Region} (x y : Int) (w h : Nat) : Reachable c d →
      Reachable c s → (al = .first → d = s) → al ≠ .second →
      Reachable c (unionRect c al d s x y w h).1
  | intersectRect {d s : Region} (x y : Int) (w h : Nat) : Reachable c d → Reachable c s →
      Reachable c (intersectRect c d s x y w h).1
  | translate {r : Region} (dx dy : Int) : Reachable c r → Reachable c (translate c r dx dy)
  | initFromImage (w : Nat) (rows : List (List Bool)) (hw : ∀ row ∈ rows, row.length = w) :
      Reachable c (initFromImage w rows)
  | region16FromRegion32 (src : Region) : Reachable c (region16FromRegion32 src).1
  | region32FromRegion16 (src : Region) (hr : ∀ b ∈ src.rects, BoxInRange c32 b) :
      Reachable c (region32FromRegion16 src).1

/-- C06 (1): every reachable region is canonical. -/
theorem reachable_canon (c : Cfg) (hb1 : 1 ≤ c.bits) (hb2 : c.bits ≤ 32) {r : Region}
    (h : Reachable c r) : Canon r := by
  induction h with
  | init => exact canon_init
  | initRect x y w h => exact canon_initRect c x y w h
  | initWithExtents e => exact canon_initWithExtents e
  | initRects boxes hr => exact (Pixman.Props.C05.initRects_exact c hb1 hb2 boxes hr).2.1
  | copy _ _ _ ihs => exact ihs
  | reset b hg => exact canon_reset hg
  | clear => exact canon_clear
  | union same al _ _ _ hs h1 h2 _ iha ihb =>
    exact (Pixman.Props.C05.union_exact same al _ _ _ iha ihb hs h1 h2).2.1
  | intersect same _ _ _ hs _ iha ihb =>
    exact (Pixman.Props.C05.intersect_exact same _ _ _ iha ihb hs).2.1
  | subtract same _ _ _ hs _ ihm ihs =>
    exact (Pixman.Props.C05.subtract_exact same _ _ _ ihm ihs hs).2.1
  | inverse invRect hg _ _ _ iha =>
    exact (Pixman.Props.C05.inverse_exact _ _ invRect iha hg).2.1
  | unionRect al x y w h _ _ h1 h2 _ ihs =>
    exact (Pixman.Props.C05.unionRect_exact c al _ _ x y w h ihs h1 h2).2.1
  | intersectRect x y w h _ _ _ ihs =>
    exact (Pixman.Props.C05.intersectRect_exact c _ _ x y w h ihs).2.1
  | translate dx dy _ ih => exact Pixman.Props.C07.translate_canon c hb1 ih dx dy
  | initFromImage w rows hw => exact Pixman.Props.C07.initFromImage_canon w rows hw
  | region16FromRegion32 src =>
    refine (Pixman.Props.C05.initRects_exact c16 (by decide) (by decide) _ ?_).2.1
    intro b hb
    obtain ⟨q, _, rfl⟩ := List.mem_map.1 hb
    have r1 := wrapS_range 16 (by decide) q.x1
    have r2 := wrapS_range 16 (by decide) q.y1
    have r3 := wrapS_range 16 (by decide) q.x2
    have r4 := wrapS_range 16 (by decide) q.y2
    have e1 : c16.min = -(2 ^ (16 - 1) : Int) := rfl
    have e2 : c16.max = (2 ^ (16 - 1) : Int) - 1 := rfl
    simp only [BoxInRange, e1, e2]
    omega
  | region32FromRegion16 src hr =>
    exact (Pixman.Props.C05.initRects_exact c32 (by decide) (by decide) _ hr).2.1

/-- a reachable history: a heap region built by `init_rects`, translated, united in place with
    a rectangle, and intersected with a region read from a bitmap -/
def exHist : Region :=
  (intersect false init
    (unionRect c16 .first
      (translate c16 (initRects c16 [⟨5, 5, 9, 9⟩, ⟨0, 0, 6, 6⟩, ⟨3, 3, 3, 8⟩]).1 2 (-1))
      (translate c16 (initRects c16 [⟨5, 5, 9, 9⟩, ⟨0, 0, 6, 6⟩, ⟨3, 3, 3, 8⟩]).1 2 (-1))
      4 4 20 3).1
    (initFromImage 3 [[true, false, true], [true, true, true]])).1

theorem exHist_reachable : Reachable c16 exHist := by
  have hI : Reachable c16 (initRects c16 [⟨5, 5, 9, 9⟩, ⟨0, 0, 6, 6⟩, ⟨3, 3, 3, 8⟩]).1 := by
    refine Reachable.initRects _ ?_
    intro b hb
    simp only [List.mem_cons, List.not_mem_nil, or_false] at hb
    rcases hb with rfl | rfl | rfl <;> simp only [BoxInRange] <;> decide
  exact Reachable.intersect false Reachable.init
    (Reachable.unionRect .first 4 4 20 3 (Reachable.translate 2 (-1) hI)
      (Reachable.translate 2 (-1) hI) (fun _ => rfl) (by decide))
    (Reachable.initFromImage 3 _ (by decide)) (fun e => by cases e)

example : Canon exHist := reachable_canon c16 (by decide) (by decide) exHist_reachable

/-- C06 (3) on reachable regions: `pixman_region_equal` is equality of point sets. -/
theorem reachable_equal_iff (c : Cfg) (hb1 : 1 ≤ c.bits) (hb2 : c.bits ≤ 32) {a b : Region}
    (ha : Reachable c a) (hb : Reachable c b) :
    equal a b = true ↔ ∀ x y, a.Mem x y ↔ b.Mem x y :=
  equal_iff_mem (reachable_canon c hb1 hb2 ha) (reachable_canon c hb1 hb2 hb)

example : equal exHist exHist = true ↔ ∀ x y, exHist.Mem x y ↔ exHist.Mem x y :=
  reachable_equal_iff c16 (by decide) (by decide) exHist_reachable exHist_reachable

/-- C06 (2) on reachable regions: the same points by two different histories give the same
    rectangle list (and, when non-empty, the same object). -/
theorem reachable_same_points_same_rects (c : Cfg) (hb1 : 1 ≤ c.bits) (hb2 : c.bits ≤ 32)
    {a b : Region} (ha : Reachable c a) (hb : Reachable c b)
    (h : ∀ x y, a.Mem x y ↔ b.Mem x y) :
    a.rects = b.rects ∧ ((∃ x y, a.Mem x y) → a = b) :=
  ⟨canon_rects_unique (reachable_canon c hb1 hb2 ha) (reachable_canon c hb1 hb2 hb) h,
    fun hne => canon_unique (reachable_canon c hb1 hb2 ha) (reachable_canon c hb1 hb2 hb) h hne⟩

example : exHist.rects = (copy init exHist).rects ∧ ((∃ x y, exHist.Mem x y) → exHist = copy init exHist) :=
  reachable_same_points_same_rects c16 (by decide) (by decide) exHist_reachable
    (Reachable.copy Reachable.init exHist_reachable) (fun _ _ => Iff.rfl)

end Pixman.Props.C06

import Pixman.Spec.PointSet
import Pixman.Spec.Canon
import Pixman.Lemmas.RegionCanon
/-! C06 — property theorems: the canonical banded form is unique for a point set, and
    `pixman_region_equal` decides set equality on canonical regions. -/
namespace Pixman.Props.C06
open Pixman.Region

theorem init_not_mem (x y : Int) : ¬ init.Mem x y := by
  simp [Region.Mem, MemL, init, Region.rects]

/-! ### a decidable checker of the canonical form (non-vacuity of everything below) -/

/-- `canonListB` decides `CanonList`. -/
theorem canonListB_iff (l : List Box) : canonListB l = true ↔ CanonList l :=
  Pixman.Region.canonListB_iff

/-- an L-shaped region with a hole row: two spans, then one span, then (after a gap) one span -/
def exL : List Box := [⟨0, 0, 2, 1⟩, ⟨3, 0, 5, 1⟩, ⟨0, 1, 2, 3⟩, ⟨0, 5, 2, 6⟩]

example : CanonList exL := by decide
example : CanonList [] := by decide
-- not canonical: touching spans in a band
example : ¬ CanonList [⟨0, 0, 2, 1⟩, ⟨2, 0, 5, 1⟩] := by decide
-- not canonical: touching bands with identical spans (should have been coalesced)
example : ¬ CanonList [⟨0, 0, 2, 1⟩, ⟨0, 1, 2, 3⟩] := by decide
-- not canonical: bands out of order, empty box, different y2 in a band
example : ¬ CanonList [⟨0, 1, 2, 3⟩, ⟨0, 0, 2, 1⟩] := by decide
example : ¬ CanonList [⟨0, 0, 0, 1⟩] := by decide
example : ¬ CanonList [⟨0, 0, 2, 1⟩, ⟨3, 0, 5, 2⟩] := by decide

def exR : Region := ⟨⟨0, 0, 5, 6⟩, .heap exL⟩
def exS : Region := ⟨⟨-3, 7, 5, 9⟩, .single⟩
def exE : Region := ⟨⟨4, 4, 9, 9⟩, .emptyStatic⟩   -- empty, with leftover extents

example : Canon exR := by decide
example : Canon exS := by decide
example : Canon exE := by decide
example : ¬ Canon ⟨⟨0, 0, 5, 7⟩, .heap exL⟩ := by decide   -- extents not tight
example : ¬ Canon ⟨⟨0, 0, 2, 1⟩, .heap [⟨0, 0, 2, 1⟩]⟩ := by decide   -- one rect stored in a list

/-! ### constructors yield canonical objects -/

theorem canon_init : Canon init := trivial

theorem canon_clear : Canon clear := trivial

/-- `init_rect` / `init_with_extents`: a good rectangle is stored inline, anything else
    gives the empty region. -/
theorem canon_initWithExtents (e : Box) : Canon (initWithExtents e) := by
  unfold initWithExtents
  cases hg : goodRect e
  · exact trivial
  · exact hg

theorem canon_initRect (c : Cfg) (x y : Int) (w h : Nat) : Canon (initRect c x y w h) := by
  unfold initRect
  simp only
  split
  · exact trivial
  · next hg =>
    simp only [Bool.not_eq_true', Bool.not_eq_false] at hg
    exact hg

theorem canon_copy {dst src : Region} (h : Canon src) : Canon (copy dst src) := h

/-- `reset` (the C code asserts `GOOD_RECT (box)`) -/
theorem canon_reset {b : Box} (h : goodRect b = true) : Canon (reset b) := h

/-- the broken region is not canonical -/
theorem not_canon_brk : ¬ Canon brk := fun h => h

example : initRect c16 3 4 5 6 = ⟨⟨3, 4, 8, 10⟩, .single⟩ ∧ initRect c16 32767 0 5 6 = init := by
  decide

/-! ### uniqueness -/

/-- A separated span list is determined by the set of x it covers. -/
theorem spans_unique {l l' : List Box} (h : SpansSep l) (h' : SpansSep l')
    (hx : ∀ x, InSpans l x ↔ InSpans l' x) : SameSpans l l' :=
  Pixman.Region.spans_unique h h' hx

/-- C06 (2), lists: a point set has at most one canonical rectangle list. -/
theorem canonList_unique {a b : List Box} (ha : CanonList a) (hb : CanonList b)
    (h : ∀ x y, MemL a x y ↔ MemL b x y) : a = b :=
  Pixman.Region.canonList_unique ha hb h

example : CanonList exL ∧ ∃ x y, MemL exL x y := ⟨by decide, 4, 0, by decide⟩

/-- C06 (2), regions: canonical regions denoting the same point set hold the same rectangles. -/
theorem canon_rects_unique {a b : Region} (ha : Canon a) (hb : Canon b)
    (h : ∀ x y, a.Mem x y ↔ b.Mem x y) : a.rects = b.rects :=
  Pixman.Region.canonList_unique (canon_canonList ha) (canon_canonList hb) h

/-- … and, unless they are empty, the same extents. -/
theorem canon_extents_unique {a b : Region} (ha : Canon a) (hb : Canon b)
    (h : ∀ x y, a.Mem x y ↔ b.Mem x y) (hne : ∃ x y, a.Mem x y) : a.extents = b.extents := by
  apply canon_extents_eq ha hb (canon_rects_unique ha hb h)
  intro hn
  obtain ⟨x, y, b, hb, _⟩ := hne
  rw [hn] at hb
  cases hb

/-- … hence they are the same object up to the representation of emptiness. -/
theorem canon_unique {a b : Region} (ha : Canon a) (hb : Canon b)
    (h : ∀ x y, a.Mem x y ↔ b.Mem x y) (hne : ∃ x y, a.Mem x y) : a = b := by
  have hr := canon_rects_unique ha hb h
  have he := canon_extents_unique ha hb h hne
  have hn : a.rects ≠ [] := by
    intro hn
    obtain ⟨x, y, b, hb, _⟩ := hne
    rw [hn] at hb
    cases hb
  obtain ⟨ea, da⟩ := a
  obtain ⟨eb, db⟩ := b
  simp only at he
  subst he
  cases da <;> cases db <;> simp only [Canon, Region.rects] at ha hb hr hn ⊢
  case single.heap => rw [← hr] at hb; simp at hb
  case heap.single => rw [hr] at ha; simp at ha
  case heap.heap => rw [hr]
  all_goals first | rfl | exact absurd rfl hn | exact absurd hr hn | exact absurd hr.symm hn | cases hr

example : Canon exR ∧ ∃ x y, exR.Mem x y := ⟨by decide, 4, 0, by decide⟩

/-! ### `pixman_region_equal` -/

/-- C06 (3): on canonical regions `equal` is equality of point sets.  All empty regions are
    equal, whatever their extents (`exE` above against `init`). -/
theorem equal_iff_mem {a b : Region} (ha : Canon a) (hb : Canon b) :
    equal a b = true ↔ ∀ x y, a.Mem x y ↔ b.Mem x y := by
  have na := canon_nil_iff ha
  have nb := canon_nil_iff hb
  constructor
  · intro h x y
    unfold equal at h
    split at h
    · next hn =>
      simp only [Bool.and_eq_true] at hn
      simp only [Region.Mem, na.1 hn.1, nb.1 hn.2]
    · simp only [bne_iff_ne, ne_eq, ite_not, Bool.if_false_right, Bool.and_eq_true,
        decide_eq_true_eq] at h
      simp only [Region.Mem, boxesEq_iff.1 h.2.2.2.2.2]
  · intro h
    have hr := canon_rects_unique ha hb h
    unfold equal
    split
    · rfl
    · next hn =>
      have hne : a.rects ≠ [] := by
        intro e
        apply hn
        simp only [Bool.and_eq_true]
        exact ⟨na.2 e, nb.2 (hr ▸ e)⟩
      have he := canon_extents_eq ha hb hr hne
      simp only [he, Region.numRects, hr, bne_self_eq_false, Bool.false_eq_true, if_false,
        boxesEq_iff]

example : equal exE init = true := by decide
example : equal exR exR = true ∧ equal exR exS = false := by decide

end Pixman.Props.C06

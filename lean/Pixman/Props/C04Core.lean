import Pixman.Model.Sample
import Pixman.Spec.Repeat
import Pixman.Lemmas.Matrix
import Pixman.Props.C11
/-! C04/C08 — coordinate-arithmetic core: `repeat` stays inside `[0,size)` and equals its Spec on all
    integers (S5); the stepped coordinate of the reference affine fetcher is exact (S1). -/
namespace Pixman.Props.C04Core
open Pixman.Sample Pixman.Matrix Pixman.Spec.Fixed

/-! ### S5: repeat -/

theorem subLoop_spec (c size : Int) (hs : 0 < size) :
    subLoop c size ≤ c ∧ (subLoop c size < size) ∧ (c < size → subLoop c size = c) ∧
    ∃ k, subLoop c size = c - k * size := by
  fun_induction subLoop c size with
  | case1 c h ih =>
    obtain ⟨i1, i2, i3, k, i4⟩ := ih
    refine ⟨by omega, i2, by omega, k + 1, ?_⟩
    rw [i4, Int.add_mul]; omega
  | case2 c h =>
    exact ⟨Int.le_refl _, by omega, fun _ => rfl, 0, by omega⟩

theorem addLoop_spec (c size : Int) (hs : 0 < size) (hc : c < size) :
    0 ≤ addLoop c size ∧ addLoop c size < size ∧ ∃ k, addLoop c size = c + k * size := by
  fun_induction addLoop c size with
  | case1 c h ih =>
    obtain ⟨i1, i2, k, i4⟩ := ih (by omega)
    refine ⟨i1, i2, k + 1, ?_⟩
    rw [i4, Int.add_mul]; omega
  | case2 c h =>
    exact ⟨by omega, hc, 0, by omega⟩

theorem MOD_eq_emod (a b : Int) (hb : 0 < b) : MOD a b = a % b := by
  unfold MOD
  split
  · rename_i ha
    have h1 : Int.tmod (-a - 1) b = (-a - 1) % b := Int.tmod_eq_emod_of_nonneg (by omega)
    rw [h1]
    obtain ⟨e, r1, r2⟩ := divmod_spec (-a - 1) b hb
    have := (div_eq_of_decomp a b (-((-a - 1) / b) - 1) (b - (-a - 1) % b - 1) hb
      (by rw [Int.mul_sub, Int.mul_neg, Int.mul_one]; omega) (by omega)).2
    omega
  · rename_i ha
    exact Int.tmod_eq_emod_of_nonneg (by omega)

/-- (S5) NORMAL/PAD/REFLECT always return TRUE with a coordinate inside `[0, size)`, for every integer
    `c` and every `size > 0` -/
theorem repeat_in_range (mode : RepeatMode) (c size : Int) (hs : 0 < size) (hm : mode ≠ .none) :
    ∃ r, «repeat» mode c size = some r ∧ 0 ≤ r ∧ r < size := by
  cases mode with
  | none => exact absurd rfl hm
  | normal =>
    obtain ⟨_, s2, _, _⟩ := subLoop_spec c size hs
    obtain ⟨a1, a2, _⟩ := addLoop_spec (subLoop c size) size hs s2
    exact ⟨_, rfl, a1, a2⟩
  | pad =>
    refine ⟨_, rfl, ?_, ?_⟩ <;> unfold CLIP <;> split <;> (try split) <;> omega
  | reflect =>
    refine ⟨_, rfl, ?_⟩
    rw [MOD_eq_emod c (size * 2) (by omega)]
    have h1 := Int.emod_nonneg c (by omega : size * 2 ≠ 0)
    have h2 := Int.emod_lt_of_pos c (by omega : 0 < size * 2)
    split <;> omega

/-- REPEAT_NONE: TRUE iff the coordinate is inside, and it is left alone -/
theorem repeat_none (c size : Int) :
    «repeat» .none c size = if 0 ≤ c ∧ c < size then some c else none := by
  unfold «repeat»
  by_cases h : c < 0 ∨ c ≥ size
  · have : ¬ (0 ≤ c ∧ c < size) := by omega
    simp [h, this]
  · have : 0 ≤ c ∧ c < size := by omega
    simp [h, this]

/-- NORMAL is the Euclidean remainder -/
theorem repeat_normal_spec (c size : Int) (hs : 0 < size) :
    «repeat» .normal c size = some (Pixman.Spec.Repeat.normal c size) := by
  obtain ⟨_, s2, _, k1, e1⟩ := subLoop_spec c size hs
  obtain ⟨a1, a2, k2, e2⟩ := addLoop_spec (subLoop c size) size hs s2
  unfold «repeat» Pixman.Spec.Repeat.normal
  simp only
  congr 1
  have : c = size * (k1 - k2) + addLoop (subLoop c size) size := by
    rw [e2, e1, Int.mul_sub, Int.mul_comm size k1, Int.mul_comm size k2]; omega
  exact ((div_eq_of_decomp c size (k1 - k2) _ hs this ⟨a1, a2⟩).2).symm

/-- PAD is the clamp -/
theorem repeat_pad_spec (c size : Int) : «repeat» .pad c size = some (Pixman.Spec.Repeat.pad c size) := by
  unfold «repeat» CLIP Pixman.Spec.Repeat.pad; rfl

/-- REFLECT is the mirror with period `2·size` (including `size = 1`) -/
theorem repeat_reflect_spec (c size : Int) (hs : 0 < size) :
    «repeat» .reflect c size = some (Pixman.Spec.Repeat.reflect c size) := by
  unfold «repeat» Pixman.Spec.Repeat.reflect
  simp only
  rw [MOD_eq_emod c (size * 2) (by omega), Int.mul_comm size 2]
  congr 1
  split <;> split <;> omega

example : «repeat» .reflect (-1) 3 = some 0 ∧ «repeat» .reflect 3 3 = some 2 ∧
    «repeat» .pad 9 3 = some 2 ∧ «repeat» .reflect (-5) 1 = some 0 := by decide
example : «repeat» .normal (-7) 3 = some 2 := by rw [repeat_normal_spec _ _ (by omega)]; decide


/-! ### S1: affine stepping is exact -/

theorem roundHalfUp_add_mul (n k : Int) : roundHalfUp (n + k * 65536) 65536 = roundHalfUp n 65536 + k := by
  unfold roundHalfUp; omega

theorem dot_shift (a b c X Y Z i j : Int) :
    dot a b c (X + i * 65536) (Y + j * 65536) Z = dot a b c X Y Z + (a * i + b * j) * 65536 := by
  unfold dot
  simp only [Int.mul_add, Int.add_mul, ← Int.mul_assoc]
  omega

/-- (S1, Spec level) the rounded image of the centre of pixel `(x+i, y+j)` under a row `(a b c)` is the
    rounded image of the centre of `(x, y)` plus `i·a + j·b` EXACTLY: the single rounding happens at
    the start, the increments are exact multiples of 1/65536. -/
theorem affine_linearity (a b c x y i j : Int) :
    roundHalfUp (dot a b c ((x + i) * 65536 + 32768) ((y + j) * 65536 + 32768) 65536) 65536
      = roundHalfUp (dot a b c (x * 65536 + 32768) (y * 65536 + 32768) 65536) 65536 + i * a + j * b := by
  have e1 : (x + i) * 65536 + 32768 = (x * 65536 + 32768) + i * 65536 := by omega
  have e2 : (y + j) * 65536 + 32768 = (y * 65536 + 32768) + j * 65536 := by omega
  rw [e1, e2, dot_shift, roundHalfUp_add_mul, Int.mul_comm a i, Int.mul_comm b j]
  omega

/-- without `int32_t` wrap the loop `x += ux` is multiplication -/
theorem stepped_linear (x0 ux : Int) (n : Nat) (h : ∀ k : Nat, k ≤ n → isI32 (x0 + k * ux)) :
    stepped x0 ux n = x0 + n * ux := by
  induction n with
  | zero => simp [stepped]
  | succ m ih =>
    have hm := ih (fun k hk => h k (by omega))
    unfold stepped
    rw [hm]
    have := h (m + 1) (by omega)
    have e : x0 + (m : Int) * ux + ux = x0 + ((m + 1 : Nat) : Int) * ux := by
      rw [Int.natCast_add, Int.add_mul]; omega
    rw [e]
    exact wrapS32_of_range _ this

theorem pixelCentre_exact (x y : Int) (hx : -32768 ≤ x ∧ x ≤ 32767) (hy : -32768 ≤ y ∧ y ≤ 32767) :
    pixelCentre x y = ⟨x * 65536 + 32768, y * 65536 + 32768, 65536⟩ := by
  unfold pixelCentre intToFixed fixed1 wrapS32
  congr 1 <;> omega

/-- (S1, model level) reference affine fetcher: if `pixman_transform_point_3d` accepts the centre of
    pixel `(x, y)` and the walk `x += m00` does not leave `int32_t` up to step `i`, the coordinate
    used for pixel `x + i` of the scanline is exactly what `pixman_transform_point_3d` would give for
    the centre of `(x + i, y)` — no drift accumulates along the scanline. -/
theorem affine_stepping_exact (t : Transform) (x y : Int) (i : Nat) (p : Vec)
    (hx : -32768 ≤ x ∧ x ≤ 32767) (hy : -32768 ≤ y ∧ y ≤ 32767)
    (h0 : transformPoint3d t (pixelCentre x y) = some (true, p))
    (hw : ∀ k : Nat, k ≤ i → isI32 (p.x + k * t.m00) ∧ isI32 (p.y + k * t.m10)) :
    stepped p.x t.m00 i = roundHalfUp (dot t.m00 t.m01 t.m02 ((x + i) * 65536 + 32768) (y * 65536 + 32768) 65536) 65536 ∧
    stepped p.y t.m10 i = roundHalfUp (dot t.m10 t.m11 t.m12 ((x + i) * 65536 + 32768) (y * 65536 + 32768) 65536) 65536 := by
  rw [pixelCentre_exact x y hx hy] at h0
  have hv : Vec.isI32 ⟨x * 65536 + 32768, y * 65536 + 32768, 65536⟩ := by unfold Vec.isI32 isI32; simp only; omega
  obtain ⟨b, out, e, _, ho⟩ := Pixman.Props.C11.transformPoint3d_spec t _ hv
  rw [e] at h0
  injection h0 with h0; injection h0 with hb hp
  subst hb; subst hp
  have ho := ho rfl
  rw [ho]
  simp only
  rw [stepped_linear _ _ i (fun k hk => by have := (hw k hk).1; rw [ho] at this; exact this),
      stepped_linear _ _ i (fun k hk => by have := (hw k hk).2; rw [ho] at this; exact this)]
  have l1 := affine_linearity t.m00 t.m01 t.m02 x y i 0
  have l2 := affine_linearity t.m10 t.m11 t.m12 x y i 0
  simp only [Int.add_zero, Int.zero_mul] at l1 l2
  rw [l1, l2]
  exact ⟨rfl, rfl⟩

example : (transformPoint3d ⟨98304, 0, 1000, 0, 65536, 0, 0, 0, 65536⟩ (pixelCentre 3 4)) =
    some (true, ⟨345064, 294912, 65536⟩) := by decide

end Pixman.Props.C04Core

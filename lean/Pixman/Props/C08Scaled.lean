import Pixman.Props.C08Loops
import Pixman.Props.C02Kernels
/-!
  C08 (specialised paths, continued): the scaled-bilinear main loops (FAST_BILINEAR_MAINLOOP_INT with the SSE2
  scanline function, OP_SRC, 8888 -> 8888) from tap level to destination pixels; the NORMAL split at tap level.
-/
set_option linter.unusedSimpArgs false
namespace Pixman.Props.C08Scaled
open Pixman.Sample Pixman.Matrix Pixman.Model.Fetch Pixman.Model.FetchFast Pixman.Model.Extent
open Pixman.Props.C08Fast Pixman.Props.C08Loops Pixman.Lemmas.FetchFast Pixman.Lemmas.FetchBits Pixman.Lemmas.FetchBilinear
open Pixman.Spec.Sampling (bilinearChannel)

/-! ### a lerp of an equal pair does not depend on the weight -/

theorem chan_hpair (a c dx dx' dy : Nat) (h : dx ≤ 256) (h' : dx' ≤ 256) :
    bilinearChannel a a c c dx dy = bilinearChannel a a c c dx' dy := by
  unfold bilinearChannel
  have e : ∀ d : Nat, d ≤ 256 → ∀ (p Y : Nat), p * ((256 - d) * Y) + p * (d * Y) = p * (256 * Y) := by
    intro d hd p Y
    rw [← Nat.mul_add, ← Nat.add_mul]
    have : 256 - d + d = 256 := by omega
    rw [this]
  have r : ∀ d : Nat, d ≤ 256 →
      a * ((256 - d) * (256 - dy)) + a * (d * (256 - dy)) + c * ((256 - d) * dy) + c * (d * dy) =
        a * (256 * (256 - dy)) + c * (256 * dy) := by
    intro d hd
    have := e d hd a (256 - dy)
    have := e d hd c dy
    omega
  rw [r dx h, r dx' h']

theorem chan_vpair (a c dx dy dy' : Nat) (h : dy ≤ 256) (h' : dy' ≤ 256) :
    bilinearChannel a c a c dx dy = bilinearChannel a c a c dx dy' := by
  unfold bilinearChannel
  have e : ∀ d : Nat, d ≤ 256 → ∀ (p X : Nat), p * (X * (256 - d)) + p * (X * d) = p * (X * 256) := by
    intro d hd p X
    rw [← Nat.mul_add, ← Nat.mul_add]
    have : 256 - d + d = 256 := by omega
    rw [this]
  have r : ∀ d : Nat, d ≤ 256 →
      a * ((256 - dx) * (256 - d)) + c * (dx * (256 - d)) + a * ((256 - dx) * d) + c * (dx * d) =
        a * ((256 - dx) * 256) + c * (dx * 256) := by
    intro d hd
    have := e d hd a (256 - dx)
    have := e d hd c dx
    omega
  rw [r dy h, r dy' h']

theorem chan_dy0 (a c e f e' f' dx : Nat) : bilinearChannel a c e f dx 0 = bilinearChannel a c e' f' dx 0 := by
  unfold bilinearChannel; simp

/-- packed `bilinear_interpolation`: an equal left/right pair in both rows makes the horizontal weight irrelevant
    (pad zones pass `vx = 0`; the reference uses the true weight) -/
theorem bilinear_hpair (p q dx dx' dy : Nat) (hp : p < 4294967296) (hq : q < 4294967296)
    (hdx : dx < 128) (hdx' : dx' < 128) (hdy : dy < 128) :
    bilinearInterpolation p p q q dx dy = bilinearInterpolation p p q q dx' dy := by
  rw [bilinearInterpolation_lanes p p q q dx dy hp hp hq hq hdx hdy,
      bilinearInterpolation_lanes p p q q dx' dy hp hp hq hq hdx' hdy]
  simp only [chan_hpair _ _ (2 * dx) (2 * dx') _ (by omega) (by omega)]

/-- … the same row on top and bottom makes the vertical weight irrelevant (`weight2 == 0`: row reused, 64/64) -/
theorem bilinear_vpair (p q dx dy dy' : Nat) (hp : p < 4294967296) (hq : q < 4294967296)
    (hdx : dx < 128) (hdy : dy < 128) (hdy' : dy' < 128) :
    bilinearInterpolation p q p q dx dy = bilinearInterpolation p q p q dx dy' := by
  rw [bilinearInterpolation_lanes p q p q dx dy hp hq hp hq hdx hdy,
      bilinearInterpolation_lanes p q p q dx dy' hp hq hp hq hdx hdy']
  simp only [chan_vpair _ _ _ (2 * dy) (2 * dy') (by omega) (by omega)]

/-- … and weight 0 ignores the bottom row -/
theorem bilinear_dy0 (p q r s r' s' dx : Nat) (hp : p < 4294967296) (hq : q < 4294967296)
    (hr : r < 4294967296) (hs : s < 4294967296) (hr' : r' < 4294967296) (hs' : s' < 4294967296) (hdx : dx < 128) :
    bilinearInterpolation p q r s dx 0 = bilinearInterpolation p q r' s' dx 0 := by
  rw [bilinearInterpolation_lanes p q r s dx 0 hp hq hr hs hdx (by omega),
      bilinearInterpolation_lanes p q r' s' dx 0 hp hq hr' hs' hdx (by omega)]
  simp only [Nat.mul_zero, chan_dy0 _ _ (chA r) (chA s) (chA r') (chA s'), chan_dy0 _ _ (chR r) (chR s) (chR r') (chR s'),
    chan_dy0 _ _ (chG r) (chG s) (chG r') (chG s'), chan_dy0 _ _ (chB r) (chB s) (chB r') (chB s')]

/-! ### from taps to destination pixels (SSE2 `BILINEAR_INTERPOLATE_ONE_PIXEL`) -/

open Pixman.Model.Simd in
/-- a zero vertical weight makes the row's pixels irrelevant (NONE: rows outside the image get weight 0) -/
theorem sse2_zero_top (tl tr bl br wt wb vx : Nat) :
    Sse2.bilinearPixel tl tr bl br 0 wb vx = Sse2.bilinearPixel 0 0 bl br wt wb vx := by
  unfold Sse2.bilinearPixel Sse2.bilinearChannel mullo16
  simp

open Pixman.Model.Simd in
theorem sse2_zero_bottom (tl tr bl br wt wb vx : Nat) :
    Sse2.bilinearPixel tl tr bl br wt 0 vx = Sse2.bilinearPixel tl tr 0 0 wt wb vx := by
  unfold Sse2.bilinearPixel Sse2.bilinearChannel mullo16
  simp

theorem weight_of_vx (v : Int) : ((v % 65536).toNat % 65536 / 512 : Nat) = (bilinearWeight v).toNat := by
  unfold bilinearWeight
  have h1 : 0 ≤ v % 65536 := Int.emod_nonneg _ (by omega)
  have h2 : v % 65536 < 65536 := Int.emod_lt_of_pos _ (by omega)
  omega

/-- one destination pixel: if the top and bottom taps agree with the reference's (pair, and weight unless the pair is
    equal) and the vertical weights sum to 128, the SSE2 pixel is the reference `bilinear_interpolation` -/
theorem pixel_compose (Pt Pb : Int → Nat) (t u : HTap) (c w1 w2 : Int)
    (hpt : ∀ x, Pt x < 4294967296) (hpb : ∀ x, Pb x < 4294967296)
    (ht : normTap t = refTap Pt c) (hu : normTap u = refTap Pb c) (hvx : t.vx = u.vx)
    (hw : w1 + w2 = 128 ∧ 0 ≤ w2 ∧ w2 < 128) :
    Pixman.Model.Simd.Sse2.bilinearPixel t.left t.right u.left u.right w1.toNat w2.toNat (t.vx % 65536).toNat =
      bilinearInterpolation (Pt (fixedToInt c)) (Pt (fixedToInt c + 1)) (Pb (fixedToInt c)) (Pb (fixedToInt c + 1))
        (bilinearWeight c).toNat w2.toNat := by
  rw [Pixman.Props.C02Kernels.sse2_bilinear_pixel_eq _ _ _ _ _ _ _ (by omega) (by omega), weight_of_vx]
  unfold normTap refTap at ht hu
  simp only [Prod.mk.injEq] at ht hu
  obtain ⟨t1, t2, t3⟩ := ht
  obtain ⟨u1, u2, u3⟩ := hu
  rw [t1, t2, u1, u2]
  rw [t1, t2] at t3
  rw [u1, u2, ← hvx] at u3
  have wc : 0 ≤ bilinearWeight c ∧ bilinearWeight c < 128 := by unfold bilinearWeight; omega
  have wv : 0 ≤ bilinearWeight t.vx ∧ bilinearWeight t.vx < 128 := by unfold bilinearWeight; omega
  by_cases e1 : Pt (fixedToInt c) = Pt (fixedToInt c + 1)
  · by_cases e2 : Pb (fixedToInt c) = Pb (fixedToInt c + 1)
    · rw [← e1, ← e2]
      exact bilinear_hpair _ _ (bilinearWeight t.vx).toNat (bilinearWeight c).toNat w2.toNat (hpt _) (hpb _)
        (by omega) (by omega) (by omega)
    · simp only [e2, ↓reduceIte] at u3
      rw [u3]
  · simp only [e1, ↓reduceIte] at t3
    rw [t3]

/-- a whole scanline: tap agreement for both source rows gives the reference pixels -/
theorem row_compose (Pt Pb : Int → Nat) (top bot : List HTap) (n : Nat) (c : Nat → Int) (w1 w2 : Int)
    (hpt : ∀ x, Pt x < 4294967296) (hpb : ∀ x, Pb x < 4294967296)
    (ht : top.map normTap = (List.range n).map fun k => refTap Pt (c k))
    (hb : bot.map normTap = (List.range n).map fun k => refTap Pb (c k))
    (hvx : top.map (·.vx) = bot.map (·.vx))
    (hw : w1 + w2 = 128 ∧ 0 ≤ w2 ∧ w2 < 128) :
    bilinearPixels top bot w1 w2 = (List.range n).map fun k =>
      bilinearInterpolation (Pt (fixedToInt (c k))) (Pt (fixedToInt (c k) + 1)) (Pb (fixedToInt (c k))) (Pb (fixedToInt (c k) + 1))
        (bilinearWeight (c k)).toNat w2.toNat := by
  have lt : top.length = n := by have := congrArg List.length ht; simpa using this
  have lb : bot.length = n := by have := congrArg List.length hb; simpa using this
  unfold bilinearPixels
  apply List.ext_getElem
  · simp [lt, lb]
  · intro i h1 h2
    have hi : i < n := by simpa [lt, lb] using h1
    simp only [List.getElem_zipWith, List.getElem_map, List.getElem_range]
    have e1 : normTap top[i] = refTap Pt (c i) := by
      have := congrArg (fun l => l[i]?) ht
      simp [hi, lt] at this
      exact this
    have e2 : normTap bot[i] = refTap Pb (c i) := by
      have := congrArg (fun l => l[i]?) hb
      simp [hi, lb] at this
      exact this
    have e3 : top[i].vx = bot[i].vx := by
      have := congrArg (fun l => l[i]?) hvx
      simp [hi, lt, lb] at this
      exact this
    exact pixel_compose Pt Pb _ _ _ _ _ hpt hpb e1 e2 e3 hw

/-! ### the NORMAL wrap / plain split at tap level -/

/-- the reference's pixel of the (extended) row under NORMAL repeat -/
def wrapPixel (srcW : Int) (rowE : Int → Nat) (c : Int) : Nat := rowE (c % srcW)

theorem refTap_periodic (srcW : Int) (rowE : Int → Nat) (c m : Int) :
    refTap (wrapPixel srcW rowE) (c + m * (srcW * 65536)) = refTap (wrapPixel srcW rowE) c := by
  have e1 : fixedToInt (c + m * (srcW * 65536)) = fixedToInt c + m * srcW := by
    unfold fixedToInt
    have : c + m * (srcW * 65536) = c + (m * srcW) * 65536 := by rw [Int.mul_assoc]
    rw [this]; omega
  have e2 : bilinearWeight (c + m * (srcW * 65536)) = bilinearWeight c := by
    have : c + m * (srcW * 65536) = c + (m * srcW) * 65536 := by rw [Int.mul_assoc]
    rw [this, bilinearWeight_shift]
  unfold refTap wrapPixel
  rw [e1, e2]
  have p1 : (fixedToInt c + m * srcW) % srcW = fixedToInt c % srcW := Int.add_mul_emod_self_right _ _ _
  have p2 : (fixedToInt c + m * srcW + 1) % srcW = (fixedToInt c + 1) % srcW := by
    have : fixedToInt c + m * srcW + 1 = fixedToInt c + 1 + m * srcW := by omega
    rw [this]; exact Int.add_mul_emod_self_right _ _ _
  rw [p1, p2]

theorem plain_taps (srcW : Int) (hw : 0 < srcW ∧ srcW ≤ 32767) (rowE : Int → Nat) (ux v : Int) (n : Nat)
    (hs : ∀ k : Int, 0 ≤ k → k < n → 0 ≤ fixedToInt (v + k * ux) ∧ fixedToInt (v + k * ux) + 1 ≤ srcW - 1) :
    (bilinearScanlineTaps rowE ux n v).map normTap =
      (List.range n).map fun (k : Nat) => refTap (wrapPixel srcW rowE) (v + k * ux) := by
  rw [scanlineTaps_eq _ _ _ _ (fun k hk => by
    have := hs k (by omega) (by omega); unfold fixedToInt at this; unfold isI32; omega), List.map_map]
  apply List.map_congr_left
  intro k hk
  have hk' : k < n := by simpa using hk
  have := hs k (by omega) (by omega)
  have m1 : fixedToInt (v + ↑k * ux) % srcW = fixedToInt (v + ↑k * ux) := Int.emod_eq_of_lt (by omega) (by omega)
  have m2 : (fixedToInt (v + ↑k * ux) + 1) % srcW = fixedToInt (v + ↑k * ux) + 1 := Int.emod_eq_of_lt (by omega) (by omega)
  simp only [Function.comp, normTap, refTap, wrapPixel, m1, m2]

theorem wrap_taps (srcW : Int) (hw : 0 < srcW ∧ srcW ≤ 32767) (rowE : Int → Nat) (ux v : Int) (n : Nat)
    (hv : 0 ≤ v ∧ v < srcW * 65536) (he : fixedToInt v = srcW - 1)
    (hs : ∀ k : Int, 0 ≤ k → k < n → fixedToInt (fixedFrac v + k * ux) = 0) :
    (bilinearScanlineTaps (buf2 (rowE (srcW - 1)) (rowE 0)) ux n (fixedFrac v)).map normTap =
      (List.range n).map fun (k : Nat) => refTap (wrapPixel srcW rowE) (v + k * ux) := by
  have hin : ∀ k : Nat, k < n → (srcW - 1) * 65536 ≤ v + k * ux ∧ v + k * ux < (srcW - 1 + 1) * 65536 := by
    intro k hk
    have := hs k (by omega) (by omega)
    unfold fixedToInt fixedFrac at *
    omega
  rw [scanlineTaps_transition _ _ ux n v (srcW - 1) hin (fun _ => by unfold isI32; omega)]
  apply List.map_congr_left
  intro k hk
  have hk' : k < n := by simpa using hk
  have := hin k hk'
  have x1 : fixedToInt (v + ↑k * ux) = srcW - 1 := by unfold fixedToInt; omega
  have m1 : (srcW - 1) % srcW = srcW - 1 := Int.emod_eq_of_lt (by omega) (by omega)
  have m2 : (srcW - 1 + 1) % srcW = 0 := by
    have : srcW - 1 + 1 = srcW := by omega
    rw [this]; exact Int.emod_self
  simp only [refTap, wrapPixel, x1, m1, m2]

theorem normVx_cong (vx srcW : Int) (hw : 0 < srcW) : ∃ m : Int, normVx vx (srcW * 65536) = vx + m * (srcW * 65536) := by
  refine ⟨-(vx / (srcW * 65536)), ?_⟩
  have : normVx vx (srcW * 65536) = vx % (srcW * 65536) := by
    unfold normVx
    rw [Pixman.Props.C04Core.repeat_normal_spec _ _ (by omega)]
    rfl
  rw [this]
  have := Int.mul_ediv_add_emod vx (srcW * 65536)
  rw [Int.neg_mul, Int.mul_comm (vx / (srcW * 65536))]
  omega

/-- mapping `refTap` over coordinates that differ from `vx + k·ux` by a fixed multiple of the row length -/
theorem refTap_shift (srcW : Int) (rowE : Int → Nat) (ux v vx m : Int) (off : Int) (hv : v = vx + off * ux + m * (srcW * 65536))
    (n : Nat) :
    ((List.range n).map fun (k : Nat) => refTap (wrapPixel srcW rowE) (v + k * ux)) =
      (List.range n).map fun (k : Nat) => refTap (wrapPixel srcW rowE) (vx + (off + k) * ux) := by
  apply List.map_congr_left
  intro k _
  have : v + ↑k * ux = vx + (off + ↑k) * ux + m * (srcW * 65536) := by
    rw [hv, Int.add_mul]; omega
  rw [this, refTap_periodic]

/-- one iteration of the NORMAL loop: the calls it makes (wrap segment through the two-pixel buffer, plain segment on
    the row) supply the reference's taps for the pixels it consumes, and leave `vx` congruent to the true coordinate -/
theorem normalStep_taps (srcW : Int) (hw : 0 < srcW ∧ srcW ≤ 32767) (rowE : Int → Nat) (ux vx remain : Int)
    (hux : 0 < ux) (hr : 0 < remain) :
    ∃ consumed : Nat, (consumed : Int) = remain - (normalStep srcW ux vx remain).2.2 ∧
      (((normalStep srcW ux vx remain).1.flatMap (segTaps srcW rowE ux)).map normTap =
        (List.range consumed).map fun (k : Nat) => refTap (wrapPixel srcW rowE) (vx + k * ux)) ∧
      ∃ m : Int, (normalStep srcW ux vx remain).2.1 = vx + consumed * ux + m * (srcW * 65536) := by
  have hv := Pixman.Props.C04.normVx_range vx srcW hw.1
  obtain ⟨m0, hm0⟩ := normVx_cong vx srcW hw.1
  unfold normalStep
  simp only
  generalize normVx vx (srcW * 65536) = v at *
  by_cases he : fixedToInt v = srcW - 1
  · obtain ⟨w1, w2, w3⟩ := Pixman.Props.C04.wrap_segment_in_buffer srcW ux v remain hux hv he hr
    simp only [he, if_true]
    generalize clampNum (wrapNumPixels (srcW * 65536) v ux) remain = n at *
    have hv2 := Pixman.Props.C04.normVx_range (v + n * ux) srcW hw.1
    obtain ⟨m2, hm2⟩ := normVx_cong (v + n * ux) srcW hw.1
    generalize normVx (v + n * ux) (srcW * 65536) = v2 at *
    have hn : (n.toNat : Int) = n := Int.toNat_of_nonneg (by omega)
    have wt := wrap_taps srcW hw rowE ux v n.toNat hv he (fun k k0 k1 => w3 k k0 (by omega))
    rw [refTap_shift srcW rowE ux v vx m0 0 (by rw [hm0]; omega)] at wt
    simp only [Int.zero_add] at wt
    by_cases hc : fixedToInt v2 ≠ srcW - 1 ∧ remain - n > 0
    · obtain ⟨p1, p2, p3⟩ := Pixman.Props.C04.plain_segment_in_row srcW ux v2 (remain - n) hux hv2 hc.1 hc.2
      rw [if_pos hc]
      generalize clampNum (plainNumPixels (srcW * 65536) v2 ux) (remain - n) = q at *
      dsimp only
      have hq : (q.toNat : Int) = q := Int.toNat_of_nonneg (by omega)
      have pt := plain_taps srcW hw rowE ux v2 q.toNat (fun k k0 k1 => p3 k k0 (by omega))
      rw [refTap_shift srcW rowE ux v2 vx (m0 + m2) n (by rw [hm2, hm0, Int.add_mul]; omega)] at pt
      refine ⟨n.toNat + q.toNat, by omega, ?_, m0 + m2, ?_⟩
      · simp only [List.nil_append, List.cons_append, List.flatMap_cons, List.flatMap_nil, List.append_nil, segTaps,
          List.map_append]
        rw [wt, pt, List.range_add, List.map_append, List.map_map]
        congr 1
        apply List.map_congr_left
        intro k _
        simp only [Function.comp, Int.natCast_add, hn]
      · rw [hm2, hm0, Int.natCast_add, hn, hq, Int.add_mul, Int.add_mul]; omega
    · rw [if_neg hc]
      dsimp only
      refine ⟨n.toNat, by omega, ?_, m0 + m2, ?_⟩
      · simp only [List.flatMap_cons, List.flatMap_nil, List.append_nil, segTaps]
        exact wt
      · rw [hm2, hm0, hn, Int.add_mul]; omega
  · simp only [he, if_false]
    have hc : fixedToInt v ≠ srcW - 1 ∧ remain > 0 := ⟨he, hr⟩
    obtain ⟨p1, p2, p3⟩ := Pixman.Props.C04.plain_segment_in_row srcW ux v remain hux hv he hr
    rw [if_pos hc]
    generalize clampNum (plainNumPixels (srcW * 65536) v ux) remain = q at *
    dsimp only
    have hq : (q.toNat : Int) = q := Int.toNat_of_nonneg (by omega)
    have pt := plain_taps srcW hw rowE ux v q.toNat (fun k k0 k1 => p3 k k0 (by omega))
    rw [refTap_shift srcW rowE ux v vx m0 0 (by rw [hm0]; omega)] at pt
    simp only [Int.zero_add] at pt
    refine ⟨q.toNat, by omega, ?_, m0, ?_⟩
    · simp only [List.nil_append, List.flatMap_cons, List.flatMap_nil, List.append_nil, segTaps]
      exact pt
    · rw [hm0, hq]; omega

/-- (NORMAL split, tap level) the whole `while (width_remain > 0)` loop: over all the wrap and plain calls it makes,
    destination pixel `k` gets — for the (extended) source row `rowE` of `src_width` pixels — exactly the reference's
    tap pair `rowE[⌊c_k⌋ mod src_width], rowE[(⌊c_k⌋+1) mod src_width]` and 7-bit weight at `c_k = vx + k·unit_x` -/
theorem normalLoop_taps (srcW : Int) (hw : 0 < srcW ∧ srcW ≤ 32767) (rowE : Int → Nat) (ux : Int) (hux : 0 < ux)
    (fuel : Nat) (vx remain : Int) (hf : remain ≤ fuel) (h0 : 0 ≤ remain) :
    ((normalLoop srcW ux fuel vx remain).flatMap (segTaps srcW rowE ux)).map normTap =
      (List.range remain.toNat).map fun (k : Nat) => refTap (wrapPixel srcW rowE) (vx + k * ux) := by
  induction fuel generalizing vx remain with
  | zero =>
    have : remain = 0 := by omega
    subst this
    simp [normalLoop]
  | succ f ih =>
    unfold normalLoop
    by_cases hr : remain > 0
    · simp only [hr, ↓reduceIte]
      obtain ⟨consumed, hc, htaps, m, hm⟩ := normalStep_taps srcW hw rowE ux vx remain hux hr
      obtain ⟨_, s0, s1, _⟩ := Pixman.Props.C04.normalStep_safe srcW ux vx remain hw.1 hux hr
      generalize normalStep srcW ux vx remain = r at *
      rw [List.flatMap_append, List.map_append, htaps, ih r.2.1 r.2.2 (by omega) s0,
          refTap_shift srcW rowE ux r.2.1 vx m consumed hm]
      have e : remain.toNat = consumed + r.2.2.toNat := by omega
      rw [e, List.range_add, List.map_append, List.map_map]
      congr 1
    · have : remain = 0 := by omega
      subst this
      simp

/-- the `weight2 == 0` rows (both pointers on row `y1`, weights 64/64): the pixels are the reference's with bottom
    weight 0, whatever the reference's bottom row `Pb` holds -/
theorem row_compose_same (Pt Pb : Int → Nat) (top : List HTap) (n : Nat) (c : Nat → Int)
    (hpt : ∀ x, Pt x < 4294967296) (hpb : ∀ x, Pb x < 4294967296)
    (ht : top.map normTap = (List.range n).map fun k => refTap Pt (c k)) :
    bilinearPixels top top 64 64 = (List.range n).map fun k =>
      bilinearInterpolation (Pt (fixedToInt (c k))) (Pt (fixedToInt (c k) + 1)) (Pb (fixedToInt (c k))) (Pb (fixedToInt (c k) + 1))
        (bilinearWeight (c k)).toNat 0 := by
  rw [row_compose Pt Pt top top n c 64 64 hpt hpt ht ht rfl (by omega)]
  apply List.map_congr_left
  intro k _
  have wc : 0 ≤ bilinearWeight (c k) ∧ bilinearWeight (c k) < 128 := by unfold bilinearWeight; omega
  rw [bilinear_vpair _ _ _ _ 0 (hpt _) (hpt _) (by omega) (by decide) (by omega),
      bilinear_dy0 _ _ _ _ (Pb (fixedToInt (c k))) (Pb (fixedToInt (c k) + 1)) _ (hpt _) (hpt _) (hpt _) (hpt _) (hpb _) (hpb _) (by omega)]

/-- the taps' `vx` sequence does not depend on the source row (top and bottom rows are walked identically) -/
theorem scanlineTaps_vx (src src' : Int → Nat) (ux : Int) (n : Nat) (v : Int) :
    (bilinearScanlineTaps src ux n v).map (·.vx) = (bilinearScanlineTaps src' ux n v).map (·.vx) := by
  induction n generalizing v with
  | zero => rfl
  | succ m ih => simp only [bilinearScanlineTaps, List.map_cons, ih]

theorem rowTaps_vx (var : NearestVariant) (W : Int) (row row' : Int → Nat) (vx ux : Int) (width : Nat)
    (z : Int × Int × Int × Int × Int) (srcW : Int) :
    (bilinearRowTaps var W row vx ux width z srcW).map (·.vx) = (bilinearRowTaps var W row' vx ux width z srcW).map (·.vx) := by
  cases var
  · exact scanlineTaps_vx _ _ _ _ _
  · simp only [bilinearRowTaps, bilinearNoneRowTaps, List.map_append]
    rw [scanlineTaps_vx (buf2 0 (row 0)) (buf2 0 (row' 0)), scanlineTaps_vx row row',
        scanlineTaps_vx (buf2 (row (W - 1)) 0) (buf2 (row' (W - 1)) 0)]
  · simp only [bilinearRowTaps, bilinearPadRowTaps, List.map_append]
    rw [scanlineTaps_vx (buf2 (row 0) (row 0)) (buf2 (row' 0) (row' 0)), scanlineTaps_vx row row',
        scanlineTaps_vx (buf2 (row (W - 1)) (row (W - 1))) (buf2 (row' (W - 1)) (row' (W - 1)))]
  · simp only [bilinearRowTaps, List.map_flatMap]
    congr 1
    funext sg
    cases sg with
    | wrap f n => exact scanlineTaps_vx _ _ _ _ _
    | plain v n => exact scanlineTaps_vx _ _ _ _ _

/-- PARTIAL (replaces `bilinear_scanline_coords_partial`): one destination scanline of
    `fast_composite_scaled_bilinear_sse2_8888_8888_<cover|none|pad|normal>_SRC`.  Whenever the horizontal taps of the top
    and the bottom source row agree with the reference's (`refTap`; established for every pixel by
    `Props.C08Loops.bilinear_pad_row_taps` + `bilinear_zones` (PAD), `bilinear_none_row_taps` + `bilinear_zones` (NONE),
    `normalLoop_taps` (NORMAL, wrap and plain segments), `Props.C08Loops.scanlineTaps_eq` (COVER)) and the vertical weights sum to
    128 (`Props.C08Loops.bilinear_vertical_spec`; the 64/64 case is `row_compose_same`, zeroed NONE weights are
    `sse2_zero_top/bottom`), the pixels the SSE2 scanline function writes are the reference `bilinear_interpolation` of the
    repeat-mapped four taps with the reference's 7-bit weights, i.e. `bits_image_fetch_pixel_bilinear_32` at that coordinate.
    Gap: the last assembly step into one statement `fastBilinearScaled var … = fetchAffine rows` is not written out: converting
    the `Int` zone widths of `bilinear_zones` to the `Nat` segment lengths, identifying `padPixel/nonePixel/wrapPixel ∘ row`
    with `tap b` (incl. `src_width = extWidth` being a multiple of the image width), and the row loop over `vy`; the whole
    main loop model is compared with the library by the `scaled-bilinear-*` slices of the correspondence. -/
theorem fast_bilinear_scanline_eq_partial (var : NearestVariant) (W : Int) (rowT rowB : Int → Nat) (vx ux : Int) (width : Nat)
    (z : Int × Int × Int × Int × Int) (srcW : Int) (Pt Pb : Int → Nat) (n : Nat) (c : Nat → Int) (w1 w2 : Int)
    (hpt : ∀ x, Pt x < 4294967296) (hpb : ∀ x, Pb x < 4294967296)
    (ht : (bilinearRowTaps var W rowT vx ux width z srcW).map normTap = (List.range n).map fun k => refTap Pt (c k))
    (hb : (bilinearRowTaps var W rowB vx ux width z srcW).map normTap = (List.range n).map fun k => refTap Pb (c k))
    (hw : w1 + w2 = 128 ∧ 0 ≤ w2 ∧ w2 < 128) :
    bilinearPixels (bilinearRowTaps var W rowT vx ux width z srcW) (bilinearRowTaps var W rowB vx ux width z srcW) w1 w2 =
      (List.range n).map fun k =>
        bilinearInterpolation (Pt (fixedToInt (c k))) (Pt (fixedToInt (c k) + 1)) (Pb (fixedToInt (c k))) (Pb (fixedToInt (c k) + 1))
          (bilinearWeight (c k)).toNat w2.toNat :=
  row_compose Pt Pb _ _ n c w1 w2 hpt hpb ht hb (rowTaps_vx var W rowT rowB vx ux width z srcW) hw

end Pixman.Props.C08Scaled

import Pixman.Gen.CFuncs
import Pixman.Model.Region
import Pixman.Lemmas.CSemFacts
/-!
  Bridges (C05–C07): decision conditions of pixman-region.c (region32 instantiation) extracted by position
  (tools/gen_cfuncs.py, kind "step" with `cond_of_if`), = the Boolean tests of `Pixman.Model.Region`:
  `validate`'s placement of a box (same band? merge or append? start a new band? extents updates) = `RI.place`;
  further sections: `pixman_op`, the public operations' shortcuts, `contains_rectangle`.
-/
set_option linter.unusedSimpArgs false
set_option linter.unusedVariables false
set_option linter.unusedSectionVars false
namespace Pixman.Props.Bridges
open Pixman.CSem Pixman.Gen Pixman.Region

/- validate, step 2: where a box goes relative to the last box `rb` of a region under construction -/
theorem region32_validate_place_eq (r : RI) (rb : Box) (rest : List Box) (box : Box) (h : r.cur = rb :: rest) :
    RI.place r box =
      if CFuncs.region32_validate_same_band box.y1 rb.y1 box.y2 rb.y2 = 1 then
        if CFuncs.region32_validate_merge box.x1 rb.x2 = 1 then
          some { r with cur := (if CFuncs.region32_validate_extend box.x2 rb.x2 = 1 then { rb with x2 := box.x2 } else rb) :: rest }
        else some { r with cur := box :: rb :: rest }
      else if CFuncs.region32_validate_new_band box.y1 rb.y2 = 1 then
        let e := r.extents
        let e := if CFuncs.region32_validate_ext_x2 rb.x2 e.x2 = 1 then { e with x2 := rb.x2 } else e
        let e := if CFuncs.region32_validate_ext_x1 box.x1 e.x1 = 1 then { e with x1 := box.x1 } else e
        some { extents := e, out := r.close, cur := [box] }
      else none := by
  unfold RI.place
  rw [h]
  simp only [CFuncs.region32_validate_same_band, CFuncs.region32_validate_merge, CFuncs.region32_validate_extend,
    CFuncs.region32_validate_new_band, CFuncs.region32_validate_ext_x2, CFuncs.region32_validate_ext_x1]
  by_cases a : box.y1 = rb.y1 ∧ box.y2 = rb.y2
  · by_cases b : box.x1 ≤ rb.x2 <;> by_cases c : box.x2 > rb.x2 <;> simp [a.1, a.2, b, c]
  · have a' : (box.y1 == rb.y1 && box.y2 == rb.y2) = false := by
      simp only [Bool.and_eq_false_iff, beq_eq_false_iff_ne]; omega
    by_cases d : box.y1 ≥ rb.y2 <;> by_cases e : r.extents.x2 < rb.x2 <;> simp [a, a', d, e] <;>
      (repeat' split) <;> simp_all

/-! ## shortcut conditions of the public operations

`region->data` as a pointer: NULL for a single rectangle, the two static blocks, or a heap block. -/
def dataPtr (B E H : Nat) : Data → Nat
  | .single => 0
  | .broken => B
  | .emptyStatic => E
  | .heap _ => H

set_option hygiene false in
local macro "dcases" : tactic => `(tactic| (
  cases h1 : r1.data <;> cases h2 : r2.data <;>
    simp [dataPtr, Region.nil, Region.nar, Region.rects, extentCheck, subsumes, h1, h2, *] <;>
    (try omega) <;> (try (constructor <;> intro h <;> omega)) <;> (try grind)))

section shortcuts
variable (B E H : Nat) (hB : B ≠ 0) (hE : E ≠ 0) (hH : H ≠ 0) (hEB : E ≠ B) (hHB : H ≠ B)
include hB hE hH hEB hHB

/- pixman_region_intersect / pixman_region_subtract: `PIXREGION_NIL (a) || PIXREGION_NIL (b) || !EXTENTCHECK (..)` -/
theorem region32_intersect_nil_or_apart_eq (r1 r2 : Region) :
    CFuncs.region32_intersect_nil_or_apart (dataPtr B E H r1.data) ((r1.rects.length : Nat) : Int) r1.extents.x1 r1.extents.y1
      r1.extents.x2 r1.extents.y2 (dataPtr B E H r2.data) ((r2.rects.length : Nat) : Int) r2.extents.x1 r2.extents.y1
      r2.extents.x2 r2.extents.y2 = 1 ↔ (r1.nil || r2.nil || !extentCheck r1.extents r2.extents) = true := by
  unfold CFuncs.region32_intersect_nil_or_apart
  dcases
theorem region32_subtract_nil_or_apart_eq (r1 r2 : Region) :
    CFuncs.region32_subtract_nil_or_apart (dataPtr B E H r1.data) ((r1.rects.length : Nat) : Int) r1.extents.x1 r1.extents.y1
      r1.extents.x2 r1.extents.y2 (dataPtr B E H r2.data) ((r2.rects.length : Nat) : Int) r2.extents.x1 r2.extents.y1
      r2.extents.x2 r2.extents.y2 = 1 ↔ (r1.nil || r2.nil || !extentCheck r1.extents r2.extents) = true := by
  unfold CFuncs.region32_subtract_nil_or_apart
  dcases
theorem region32_intersect_nar_eq (r1 r2 : Region) :
    CFuncs.region32_intersect_nar B (dataPtr B E H r1.data) (dataPtr B E H r2.data) = 1 ↔ (r1.nar || r2.nar) = true := by
  unfold CFuncs.region32_intersect_nar
  dcases
theorem region32_subtract_nar_eq (r2 : Region) :
    CFuncs.region32_subtract_nar B (dataPtr B E H r2.data) = 1 ↔ r2.nar = true := by
  unfold CFuncs.region32_subtract_nar
  cases h2 : r2.data <;> simp [dataPtr, Region.nar, h2, *] <;> omega
theorem region32_intersect_both_single_eq (r1 r2 : Region) :
    CFuncs.region32_intersect_both_single (dataPtr B E H r1.data) (dataPtr B E H r2.data) = 1 ↔
      (r1.data = .single && r2.data = .single) = true := by
  unfold CFuncs.region32_intersect_both_single
  dcases
theorem region32_intersect_reg2_covers_eq (r1 r2 : Region) :
    CFuncs.region32_intersect_reg2_covers r1.extents.x1 r1.extents.y1 r1.extents.x2 r1.extents.y2 (dataPtr B E H r2.data)
      r2.extents.x1 r2.extents.y1 r2.extents.x2 r2.extents.y2 = 1 ↔
      (r2.data = .single && subsumes r2.extents r1.extents) = true := by
  unfold CFuncs.region32_intersect_reg2_covers
  dcases
theorem region32_intersect_reg1_covers_eq (r1 r2 : Region) :
    CFuncs.region32_intersect_reg1_covers (dataPtr B E H r1.data) r1.extents.x1 r1.extents.y1 r1.extents.x2 r1.extents.y2
      r2.extents.x1 r2.extents.y1 r2.extents.x2 r2.extents.y2 = 1 ↔
      (r1.data = .single && subsumes r1.extents r2.extents) = true := by
  unfold CFuncs.region32_intersect_reg1_covers
  dcases
theorem region32_union_reg1_covers_eq (r1 r2 : Region) :
    CFuncs.region32_union_reg1_covers (dataPtr B E H r1.data) r1.extents.x1 r1.extents.y1 r1.extents.x2 r1.extents.y2
      r2.extents.x1 r2.extents.y1 r2.extents.x2 r2.extents.y2 = 1 ↔
      (r1.data = .single && subsumes r1.extents r2.extents) = true := by
  unfold CFuncs.region32_union_reg1_covers
  dcases
theorem region32_union_reg2_covers_eq (r1 r2 : Region) :
    CFuncs.region32_union_reg2_covers r1.extents.x1 r1.extents.y1 r1.extents.x2 r1.extents.y2 (dataPtr B E H r2.data)
      r2.extents.x1 r2.extents.y1 r2.extents.x2 r2.extents.y2 = 1 ↔
      (r2.data = .single && subsumes r2.extents r1.extents) = true := by
  unfold CFuncs.region32_union_reg2_covers
  dcases
theorem region32_union_nil_nar_eq (r1 r2 : Region) :
    (CFuncs.region32_union_reg1_nil (dataPtr B E H r1.data) ((r1.rects.length : Nat) : Int) = 1 ↔ r1.nil = true) ∧
    (CFuncs.region32_union_reg1_nar B (dataPtr B E H r1.data) = 1 ↔ r1.nar = true) ∧
    (CFuncs.region32_union_reg2_nil (dataPtr B E H r2.data) ((r2.rects.length : Nat) : Int) = 1 ↔ r2.nil = true) ∧
    (CFuncs.region32_union_reg2_nar B (dataPtr B E H r2.data) = 1 ↔ r2.nar = true) := by
  unfold CFuncs.region32_union_reg1_nil CFuncs.region32_union_reg1_nar CFuncs.region32_union_reg2_nil
    CFuncs.region32_union_reg2_nar
  refine ⟨?_, ?_, ?_, ?_⟩ <;> dcases
end shortcuts

/- the alias tests `reg1 == reg2` (the model's `same12` / `same` argument) -/
theorem region32_same_tests_eq (p q : Nat) :
    (CFuncs.region32_intersect_same p q = 1 ↔ p = q) ∧ (CFuncs.region32_union_same p q = 1 ↔ p = q) ∧
    (CFuncs.region32_subtract_same p q = 1 ↔ p = q) := by
  unfold CFuncs.region32_intersect_same CFuncs.region32_union_same CFuncs.region32_subtract_same
  refine ⟨?_, ?_, ?_⟩ <;> split <;> simp_all

/- FIND_BAND of pixman_op (both regions): the literal `while` test and advance are one element step of
   `splitBandGo`; the cursor moves by exactly one box when the step continues. -/
theorem region32_find_band_step_eq (y1 : Int) (c : Box) (t : List Box) (cur end_ : Nat)
    (hne : cur ≠ end_) (hlt : cur < 18446744073709551615) :
    (splitBandGo y1 (c :: t) =
      if (CFuncs.region32_find_band_r1_step end_ y1 cur c.y1).1 = 1
      then (c :: (splitBandGo y1 t).1, (splitBandGo y1 t).2) else ([], c :: t)) ∧
    (splitBandGo y1 (c :: t) =
      if (CFuncs.region32_find_band_r2_step end_ y1 cur c.y1).1 = 1
      then (c :: (splitBandGo y1 t).1, (splitBandGo y1 t).2) else ([], c :: t)) ∧
    (CFuncs.region32_find_band_r1_step end_ y1 cur c.y1).2 = (if c.y1 = y1 then cur + 1 else cur) ∧
    (CFuncs.region32_find_band_r2_step end_ y1 cur c.y1).2 = (if c.y1 = y1 then cur + 1 else cur) ∧
    (CFuncs.region32_find_band_r1_step cur y1 cur c.y1).1 = 0 ∧
    (CFuncs.region32_find_band_r2_step cur y1 cur c.y1).1 = 0 := by
  unfold CFuncs.region32_find_band_r1_step CFuncs.region32_find_band_r2_step
  simp only [splitBandGo]
  by_cases h : c.y1 = y1 <;> simp [h, hne] <;> omega

/- the same for the FIND_BANDs of the two tail sections after the main loop -/
theorem region32_find_band_tail_step_eq (y1 : Int) (c : Box) (t : List Box) (cur end_ : Nat)
    (hne : cur ≠ end_) (hlt : cur < 18446744073709551615) :
    (splitBandGo y1 (c :: t) =
      if (CFuncs.region32_find_band_tail_r1_step end_ y1 cur c.y1).1 = 1
      then (c :: (splitBandGo y1 t).1, (splitBandGo y1 t).2) else ([], c :: t)) ∧
    (splitBandGo y1 (c :: t) =
      if (CFuncs.region32_find_band_tail_r2_step end_ y1 cur c.y1).1 = 1
      then (c :: (splitBandGo y1 t).1, (splitBandGo y1 t).2) else ([], c :: t)) ∧
    (CFuncs.region32_find_band_tail_r1_step end_ y1 cur c.y1).2 = (if c.y1 = y1 then cur + 1 else cur) ∧
    (CFuncs.region32_find_band_tail_r2_step end_ y1 cur c.y1).2 = (if c.y1 = y1 then cur + 1 else cur) ∧
    (CFuncs.region32_find_band_tail_r1_step cur y1 cur c.y1).1 = 0 ∧
    (CFuncs.region32_find_band_tail_r2_step cur y1 cur c.y1).1 = 0 := by
  unfold CFuncs.region32_find_band_tail_r1_step CFuncs.region32_find_band_tail_r2_step
  simp only [splitBandGo]
  by_cases h : c.y1 = y1 <;> simp [h, hne] <;> omega

private def b2i (b : Bool) : Int := if b then 1 else 0

/- One iteration of the `for` loop of PREFIX(_contains_rectangle), after the band skipping done with the
   oracle `find_box_for_y` (whose result is the hypothesis `h`): the literal per-box body decides exactly as
   the model's loop - continue with the next box (status 1) or stop (status 0) - with the same
   x / y / part_in / part_out. -/
theorem region32_contains_rectangle_step_eq (prect : Box) (fuel : Nat) (p q : Box) (t t' : List Box)
    (s : CRState) (pbox : Nat)
    (h : (if p.y2 ≤ s.y then
            (p :: t).drop (findBoxForYIdx (p :: t).toArray s.y 0 (p :: t).toArray.size)
          else p :: t) = q :: t') :
    containsRectLoop prect (fuel + 1) (p :: t) s =
      (let r := CFuncs.region32_contains_rectangle_step (b2i s.partIn) (b2i s.partOut) s.x s.y pbox
                  q.y1 q.x2 q.x1 q.y2 prect.x1 prect.x2 prect.y2
       let s' : CRState := ⟨r.2.2.2.1, r.2.2.2.2.1, r.2.1 ≠ 0, r.2.2.1 ≠ 0⟩
       if r.1 = 1 then containsRectLoop prect fuel t' s' else s') := by
  conv => lhs; unfold containsRectLoop
  simp only [h]
  unfold CFuncs.region32_contains_rectangle_step b2i
  obtain ⟨sx, sy, pin, pout⟩ := s
  by_cases h1 : q.y1 > sy <;> by_cases h2 : q.y1 ≥ prect.y2 <;> by_cases h3 : q.x2 ≤ sx <;>
    by_cases h4 : q.x1 > sx <;> by_cases h5 : q.x1 < prect.x2 <;> by_cases h6 : q.x2 ≥ prect.x2 <;>
    by_cases h7 : q.y2 ≥ prect.y2 <;> cases pin <;> cases pout <;>
    simp [h1, h2, h3, h4, h5, h6, h7]

private theorem ite10 (c : Prop) [Decidable c] : ((if c then (1 : Int) else 0) = 1) = c := by
  by_cases h : c <;> simp [h]

/- The band decisions of one iteration of pixman_op's main loop, as literal C tests: which region's band lies
   above (`r1y1 < r2y1` / `r2y1 < r1y1`), whether the non-overlapping strip is non-empty (`top != bot`),
   whether the overlapping strip is non-empty (`ybot > ytop`) and which regions have finished their band
   (`r->y2 == ybot`), drive the model's sweep step. -/
theorem region32_op_band_decisions_eq (k : OpKind) (app1 app2 : Bool) (s : St) :
    sweepStep k app1 app2 s =
      (let r1 := s.r1
       let r2 := s.r2
       let sb1 := splitBand r1
       let sb2 := splitBand r2
       let r1y1 := headY1 r1
       let r2y1 := headY1 r2
       let p : Out × Int :=
         if CFuncs.region32_op_r1_above r1y1 r2y1 = 1 then
           let o := if app1 then
               let top := max r1y1 s.ybot
               let bot := min (headY2 r1) r2y1
               if CFuncs.region32_op_non_o_nonempty top bot = 1
               then coalesce s.out (appendNonO sb1.1 top bot) else s.out
             else s.out
           (o, r2y1)
         else if CFuncs.region32_op_r2_above r1y1 r2y1 = 1 then
           let o := if app2 then
               let top := max r2y1 s.ybot
               let bot := min (headY2 r2) r1y1
               if CFuncs.region32_op_non_o_nonempty top bot = 1
               then coalesce s.out (appendNonO sb2.1 top bot) else s.out
             else s.out
           (o, r1y1)
         else (s.out, r1y1)
       let ytop := p.2
       let ybot' := min (headY2 r1) (headY2 r2)
       let out2 := if CFuncs.region32_op_overlap_nonempty ybot' ytop = 1
         then coalesce p.1 (overlapO k ytop ybot' sb1.1 sb2.1) else p.1
       let r1' := if CFuncs.region32_op_r1_done ybot' (headY2 r1) = 1 then sb1.2 else r1
       let r2' := if CFuncs.region32_op_r2_done ybot' (headY2 r2) = 1 then sb2.2 else r2
       ({ r1 := r1', r2 := r2', ybot := ybot', out := out2 } : St)) := by
  unfold sweepStep CFuncs.region32_op_r1_above CFuncs.region32_op_r2_above CFuncs.region32_op_non_o_nonempty
    CFuncs.region32_op_overlap_nonempty CFuncs.region32_op_r1_done CFuncs.region32_op_r2_done
  simp only [ite10, bne_iff_ne, beq_iff_eq, ne_eq]

/- COALESCE's test `cur_band - prev_band == numRects - cur_band` (previous and current band have the same
   number of boxes) is the model's length test; `d` boxes precede the previous band. -/
theorem region32_op_coalesce_wanted_eq (o : Out) (cur : List Box) (d : Nat) :
    (CFuncs.region32_op_coalesce_wanted (d : Int) ((d + o.prev.length : Nat) : Int)
        ((d + o.prev.length + cur.length : Nat) : Int) = 1) ↔ o.prev.length = cur.length := by
  unfold CFuncs.region32_op_coalesce_wanted
  rw [ite10]; omega

/- The two tail tests after the main loop (`r != r_end && append_non`) and the test that decides whether the
   old rectangle array of an aliased destination must be kept alive while it is still being read. -/
theorem region32_op_tail_tests_eq (app : Bool) (cur end_ : Nat) (dst p1 p2 : Nat) (n1 n2 : Nat) :
    ((CFuncs.region32_op_r1_tail (b2i app) end_ cur = 1) ↔ (cur ≠ end_ ∧ app = true)) ∧
    ((CFuncs.region32_op_r2_tail (b2i app) end_ cur = 1) ↔ (cur ≠ end_ ∧ app = true)) ∧
    ((CFuncs.region32_op_keeps_old_data dst p1 p2 (n1 : Int) (n2 : Int) = 1) ↔
      ((dst = p1 ∧ 1 < n1) ∨ (dst = p2 ∧ 1 < n2))) := by
  unfold CFuncs.region32_op_r1_tail CFuncs.region32_op_r2_tail CFuncs.region32_op_keeps_old_data b2i
  simp only [ite10]
  cases app <;> simp <;> omega

/- PREFIX(_union): when one operand is empty the other one is copied unless the destination already is that
   region (and likewise when one operand covers the other). -/
theorem region32_union_copy_tests_eq (dst p1 p2 : Nat) :
    ((CFuncs.region32_union_copy_reg2 dst p2 = 1) ↔ dst ≠ p2) ∧
    ((CFuncs.region32_union_copy_reg1 dst p1 = 1) ↔ dst ≠ p1) ∧
    ((CFuncs.region32_union_copy_covering_reg1 dst p1 = 1) ↔ dst ≠ p1) ∧
    ((CFuncs.region32_union_copy_covering_reg2 dst p2 = 1) ↔ dst ≠ p2) := by
  unfold CFuncs.region32_union_copy_reg2 CFuncs.region32_union_copy_reg1
    CFuncs.region32_union_copy_covering_reg1 CFuncs.region32_union_copy_covering_reg2
  simp only [ite10, ne_eq, and_self]

end Pixman.Props.Bridges

import Pixman.Spec.PointSet
import Pixman.Spec.Canon
import Pixman.Lemmas.RegionQuery
import Pixman.Lemmas.RegionTranslate
import Pixman.Lemmas.RegionContainsRect
import Pixman.Lemmas.RegionImage
import Pixman.Props.C05
/-! C07 — property theorems: queries, translation, bitmap import. -/
namespace Pixman.Props.C07
open Pixman.Region

theorem init_not_mem (x y : Int) : ¬ init.Mem x y := by
  simp [Region.Mem, MemL, init, Region.rects]

/-- two spans, then one span, then (after a gap) one span -/
def exL : List Box := [⟨0, 0, 2, 1⟩, ⟨3, 0, 5, 1⟩, ⟨0, 1, 2, 3⟩, ⟨0, 5, 2, 6⟩]
def exR : Region := ⟨⟨0, 0, 5, 6⟩, .heap exL⟩

example : Canon exR := by decide

/-! ### find_box_for_y -/

/-- The literal binary search returns the first index of `[b, e)` whose box has `y2 > y`
    (`e` if there is none) whenever the `y2` are non-decreasing on `[b, e)`. -/
theorem findBoxForYIdx_first (a : Array Box) (y : Int) (b e : Nat) (hbe : b ≤ e)
    (mono : ∀ i j, b ≤ i → i ≤ j → j < e → (a.getD i default).y2 ≤ (a.getD j default).y2) :
    b ≤ findBoxForYIdx a y b e ∧ findBoxForYIdx a y b e ≤ e ∧
    (∀ i, b ≤ i → i < findBoxForYIdx a y b e → (a.getD i default).y2 ≤ y) ∧
    (findBoxForYIdx a y b e < e → (a.getD (findBoxForYIdx a y b e) default).y2 > y) :=
  findBoxForYIdx_spec a y b e hbe mono

example : findBoxForYIdx exL.toArray 2 0 4 = 2 ∧ findBoxForYIdx exL.toArray 7 0 4 = 4 := by
  simp [findBoxForYIdx, exL]

/-- … so it computes the suffix `findBoxForY` (first box with `y2 > y` onwards). -/
theorem findBoxForYIdx_eq (l : List Box) (y : Int) (mono : l.Pairwise (fun p q => p.y2 ≤ q.y2)) :
    l.drop (findBoxForYIdx l.toArray y 0 l.toArray.size) = findBoxForY l y :=
  drop_findBoxForYIdx l y mono

/-- Canonical lists have non-decreasing `y2`. -/
theorem findBoxForYIdx_canon {l : List Box} (h : CanonList l) (y : Int) :
    l.drop (findBoxForYIdx l.toArray y 0 l.toArray.size) = findBoxForY l y :=
  drop_findBoxForYIdx l y (banded_y2_mono (canonList_banded h))

example : CanonList exL ∧ findBoxForY exL 1 = [⟨0, 1, 2, 3⟩, ⟨0, 5, 2, 6⟩] := by decide

/-! ### contains_point -/

/-- The box reported by `contains_point` is a rectangle of the region and contains the point. -/
theorem containsPoint_some {r : Region} (h : Canon r) {x y : Int} {b : Box}
    (hb : containsPoint r x y = some b) : b ∈ r.rects ∧ b.Mem x y := by
  have := containsPoint_spec h x y
  rw [hb] at this
  exact this

/-- `contains_point` fails exactly on the points outside the region. -/
theorem containsPoint_none {r : Region} (h : Canon r) (x y : Int) :
    containsPoint r x y = none ↔ ¬ r.Mem x y := by
  have := containsPoint_spec h x y
  constructor
  · intro hn; rw [hn] at this; exact this
  · intro hn
    revert this
    cases containsPoint r x y with
    | none => intro _; rfl
    | some p => intro this; exact absurd ⟨p, this.1, this.2⟩ hn

theorem containsPoint_isSome {r : Region} (h : Canon r) (x y : Int) :
    (containsPoint r x y).isSome = true ↔ r.Mem x y := by
  have := containsPoint_none h x y
  cases hc : containsPoint r x y with
  | none => simp only [hc, true_iff] at this; simp [this]
  | some p =>
    simp only [hc, reduceCtorEq, false_iff, Classical.not_not] at this
    simp [this]

example : containsPoint exR 4 0 = some ⟨3, 0, 5, 1⟩ ∧ containsPoint exR 2 0 = none ∧
    containsPoint exR 1 5 = some ⟨0, 5, 2, 6⟩ ∧ containsPoint exR 1 4 = none := by
  simp [containsPoint, findBoxForYIdx, exL, exR, Region.numRects, Region.rects, inBox,
    containsPointLoop]

/-! ### contains_rectangle -/

/-- IN exactly when every point of the (non-empty) query box is in the region. -/
theorem containsRectangle_inn {r : Region} (h : Canon r) {q : Box} (hq : goodRect q = true) :
    containsRectangle r q = .inn ↔ ∀ x y, q.Mem x y → r.Mem x y :=
  (containsRectangle_spec h hq).1

/-- OUT exactly when no point of the query box is in the region. -/
theorem containsRectangle_out {r : Region} (h : Canon r) {q : Box} (hq : goodRect q = true) :
    containsRectangle r q = .out ↔ ∀ x y, q.Mem x y → ¬ r.Mem x y :=
  (containsRectangle_spec h hq).2

/-- PART otherwise: some point of the query box is in the region and some point is not. -/
theorem containsRectangle_part {r : Region} (h : Canon r) {q : Box} (hq : goodRect q = true) :
    containsRectangle r q = .part ↔
      ((∃ x y, q.Mem x y ∧ r.Mem x y) ∧ (∃ x y, q.Mem x y ∧ ¬ r.Mem x y)) := by
  have h1 := containsRectangle_inn h hq
  have h2 := containsRectangle_out h hq
  constructor
  · intro hp
    rw [hp] at h1 h2
    simp only [reduceCtorEq, false_iff] at h1 h2
    constructor
    · apply Classical.byContradiction
      intro hn
      apply h2
      intro x y m1 m2
      exact hn ⟨x, y, m1, m2⟩
    · apply Classical.byContradiction
      intro hn
      apply h1
      intro x y m1
      apply Classical.byContradiction
      intro m2
      exact hn ⟨x, y, m1, m2⟩
  · rintro ⟨⟨x, y, m1, m2⟩, ⟨x', y', m1', m2'⟩⟩
    cases hc : containsRectangle r q with
    | part => rfl
    | inn => exact absurd (h1.1 hc x' y' m1') m2'
    | out => exact absurd m2 (h2.1 hc x y m1)

example : Canon exR ∧ goodRect ⟨0, 1, 2, 3⟩ = true := by decide
example : containsRectangle exR ⟨0, 1, 2, 3⟩ = .inn ∧ containsRectangle exR ⟨0, 0, 2, 3⟩ = .inn ∧
    containsRectangle exR ⟨0, 0, 3, 1⟩ = .part ∧ containsRectangle exR ⟨0, 2, 2, 6⟩ = .part ∧
    containsRectangle exR ⟨2, 1, 5, 6⟩ = .out ∧ containsRectangle exR ⟨0, 3, 5, 5⟩ = .out := by
  simp [containsRectangle, containsRectLoop, findBoxForYIdx, exL, exR, Region.numRects,
    Region.rects, extentCheck]

/-! ### not_empty, n_rects -/

theorem notEmpty_iff {r : Region} (h : Canon r) : notEmpty r = true ↔ ∃ x y, r.Mem x y := by
  have hn := canon_nil_iff h
  unfold notEmpty
  constructor
  · intro hne
    apply canonList_point (canon_canonList h)
    intro e
    rw [hn.2 e] at hne
    cases hne
  · rintro ⟨x, y, b, hb, _⟩
    cases hnil : r.nil with
    | false => rfl
    | true => rw [hn.1 hnil] at hb; cases hb

/-- `n_rects` is the length of the canonical list; it is 0 exactly for the empty set. -/
theorem numRects_eq (r : Region) : r.numRects = r.rects.length := rfl

theorem numRects_zero_iff {r : Region} (h : Canon r) :
    r.numRects = 0 ↔ ¬ ∃ x y, r.Mem x y := by
  rw [← notEmpty_iff h, notEmpty, Region.numRects, List.length_eq_zero_iff, ← canon_nil_iff h]
  cases r.nil <;> simp

example : notEmpty exR = true ∧ exR.numRects = 4 := by decide

/-! ### translate -/

/-- Conversion to the coordinate type is the identity on representable values
    (`1 ≤ c.bits` covers both instantiations `c16`, `c32`). -/
theorem wrapS_id (c : Cfg) (hc : 1 ≤ c.bits) (v : Int) (h1 : c.min ≤ v) (h2 : v ≤ c.max) :
    wrapS c.bits v = v := Pixman.Region.wrapS_id c hc v h1 h2

example : 1 ≤ c16.bits ∧ 1 ≤ c32.bits ∧ wrapS 16 (-32768) = -32768 ∧ wrapS 16 32768 = -32768 := by
  decide

/-- Fast path (translated extents representable): the region is moved, nothing is lost.
    No assumption on `validate`.  (`FastCond` is the C test on the widened sums.) -/
theorem translate_mem_fast (c : Cfg) (hc : 1 ≤ c.bits) {r : Region} (h : Canon r) (dx dy : Int)
    (hf : FastCond c r dx dy) (x y : Int) :
    (translate c r dx dy).Mem x y ↔
      (r.Mem (x - dx) (y - dy) ∧ c.min ≤ x ∧ x < c.max ∧ c.min ≤ y ∧ y < c.max) :=
  translate_mem_fast' c hc h dx dy hf x y

/-- On the fast path the result is `r` shifted, rectangle by rectangle. -/
theorem translate_fast_rects (c : Cfg) (hc : 1 ≤ c.bits) {r : Region} (h : Canon r) (dx dy : Int)
    (hf : FastCond c r dx dy) :
    (translate c r dx dy).rects = r.rects.map (shiftBox · dx dy) ∧
    (translate c r dx dy).extents = shiftBox r.extents dx dy :=
  translate_fast c hc h dx dy hf

example : Canon exR ∧ FastCond c16 exR 32762 (-32768) := by decide

/-- Empty path (translated extents wholly outside the range): the result is empty, and
    indeed no point of `r` lands in range. -/
theorem translate_mem_out (c : Cfg) {r : Region} (h : Canon r) (dx dy : Int)
    (hf : ¬ FastCond c r dx dy)
    (ho : outOfRange c (r.extents.x1 + dx) (r.extents.y1 + dy) (r.extents.x2 + dx)
      (r.extents.y2 + dy) = true) (x y : Int) :
    (translate c r dx dy).Mem x y ↔
      (r.Mem (x - dx) (y - dy) ∧ c.min ≤ x ∧ x < c.max ∧ c.min ≤ y ∧ y < c.max) :=
  translate_mem_out' c h dx dy hf ho x y

example : Canon exR ∧ ¬ FastCond c16 exR 32767 0 ∧
    outOfRange c16 (exR.extents.x1 + 32767) (exR.extents.y1 + 0) (exR.extents.x2 + 32767)
      (exR.extents.y2 + 0) = true := by decide

/-- Regions of at most one rectangle: every path, no assumption on `validate`. -/
theorem translate_mem_small (c : Cfg) (hc : 1 ≤ c.bits) {r : Region} (h : Canon r)
    (hn : r.numRects ≤ 1) (dx dy : Int) (x y : Int) :
    (translate c r dx dy).Mem x y ↔
      (r.Mem (x - dx) (y - dy) ∧ c.min ≤ x ∧ x < c.max ∧ c.min ≤ y ∧ y < c.max) := by
  by_cases hf : FastCond c r dx dy
  · exact translate_mem_fast' c hc h dx dy hf x y
  · cases ho : outOfRange c (r.extents.x1 + dx) (r.extents.y1 + dy) (r.extents.x2 + dx)
        (r.extents.y2 + dy)
    · apply translate_mem_slow' c h dx dy hf ho
      intro h2
      have : (clampList c dx dy r.rects).length ≤ r.rects.length := List.length_filterMap_le ..
      unfold Region.numRects at hn
      omega
    · exact translate_mem_out' c h dx dy hf ho x y

example : Canon (⟨⟨0, 0, 5, 6⟩, .single⟩ : Region) ∧
    ¬ FastCond c16 ⟨⟨0, 0, 5, 6⟩, .single⟩ 32765 0 := by decide

/-- C07 translate, all paths.  PARTIAL: the slow path with two or more surviving rectangles
    ends in `validate`; its point-set correctness on lists of non-empty rectangles is the
    hypothesis `hvalidate` (to be discharged by the C05 work on `validateRects`).  Everything
    else — the range tests, `wrapS`, dropping and clamping — is proved here.
    The coordinates of `r` need not be assumed in range: the tests of the C code are on exact
    (widened) sums. -/
theorem translate_mem_partial (c : Cfg) (hc : 1 ≤ c.bits) {r : Region} (h : Canon r)
    (dx dy : Int)
    (hvalidate : ∀ l : List Box, (∀ b ∈ l, goodRect b = true) →
      ∀ x y, (validateRects l).Mem x y ↔ MemL l x y)
    (x y : Int) :
    (translate c r dx dy).Mem x y ↔
      (r.Mem (x - dx) (y - dy) ∧ c.min ≤ x ∧ x < c.max ∧ c.min ≤ y ∧ y < c.max) := by
  by_cases hf : FastCond c r dx dy
  · exact translate_mem_fast' c hc h dx dy hf x y
  · cases ho : outOfRange c (r.extents.x1 + dx) (r.extents.y1 + dy) (r.extents.x2 + dx)
        (r.extents.y2 + dy)
    · apply translate_mem_slow' c h dx dy hf ho
      intro _
      exact hvalidate _ (clampList_good c dx dy r.rects (canonList_good (canon_canonList h)))
    · exact translate_mem_out' c h dx dy hf ho x y

-- slow path with three surviving rectangles (the instance the hypothesis is needed for)
example : Canon exR ∧ ¬ FastCond c16 exR 32765 0 ∧
    outOfRange c16 (exR.extents.x1 + 32765) (exR.extents.y1 + 0) (exR.extents.x2 + 32765)
      (exR.extents.y2 + 0) = false ∧ (clampList c16 32765 0 exR.rects).length = 3 := by decide

/-- Fast path: the result is canonical (it is `r` shifted, representation kept). -/
theorem translate_canon_fast (c : Cfg) (hc : 1 ≤ c.bits) {r : Region} (h : Canon r) (dx dy : Int)
    (hf : FastCond c r dx dy) :
    translate c r dx dy = shiftRegion r dx dy ∧ Canon (translate c r dx dy) := by
  have e := translate_fast_eq c hc h dx dy hf
  exact ⟨e, e ▸ canon_shiftRegion h dx dy⟩

/-- Regions of at most one rectangle stay canonical on every path. -/
theorem translate_canon_small (c : Cfg) (hc : 1 ≤ c.bits) {r : Region} (h : Canon r)
    (hn : r.numRects ≤ 1) (dx dy : Int) : Canon (translate c r dx dy) := by
  apply translate_canon' c hc h dx dy
  intro h2
  have : (clampList c dx dy r.rects).length ≤ r.rects.length := List.length_filterMap_le ..
  unfold Region.numRects at hn
  omega

/-- `translate` keeps the canonical form.  PARTIAL: that `validate` returns a canonical
    region on a list of non-empty rectangles (slow path, two or more survivors) is the
    hypothesis `hvalidate`; all other paths are proved. -/
theorem translate_canon_partial (c : Cfg) (hc : 1 ≤ c.bits) {r : Region} (h : Canon r)
    (dx dy : Int)
    (hvalidate : ∀ l : List Box, (∀ b ∈ l, goodRect b = true) → 2 ≤ l.length →
      Canon (validateRects l)) :
    Canon (translate c r dx dy) := by
  apply translate_canon' c hc h dx dy
  intro h2
  exact hvalidate _ (clampList_good c dx dy r.rects (canonList_good (canon_canonList h))) h2

example : translate c16 exR 32762 (-32768) =
    ⟨⟨32762, -32768, 32767, -32762⟩, .heap [⟨32762, -32768, 32764, -32767⟩,
      ⟨32765, -32768, 32767, -32767⟩, ⟨32762, -32767, 32764, -32765⟩,
      ⟨32762, -32763, 32764, -32762⟩]⟩ := by decide

/-! ### init_from_image -/

/-- `rowRuns` yields exactly the maximal runs of set bits of a row: they cover the set bits
    and nothing else, each is non-empty and inside the row, and consecutive runs are separated
    by at least one clear bit (`SpansSep` of the scan line's rectangles). -/
theorem rowRuns_spec (h : Int) (row : List Bool) :
    (∀ u, (∃ p ∈ rowRuns row, p.1 ≤ u ∧ u < p.2) ↔ (0 ≤ u ∧ row[u.toNat]? = some true)) ∧
    SpansSep ((rowRuns row).map fun p => Box.mk p.1 h p.2 (h + 1)) ∧
    (∀ p ∈ rowRuns row, 0 ≤ p.1 ∧ p.1 < p.2 ∧ p.2 ≤ row.length) :=
  ⟨fun u => rowRuns_mem row u, (rowRuns_sep h row).1, (rowRuns_sep h row).2⟩

example : rowRuns [true, true, false, true, false, false, true] = [(0, 2), (3, 4), (6, 7)] := by
  decide

def exImg : List (List Bool) :=
  [[true, true, false, true, false], [true, true, false, true, false],
   [false, false, false, false, false], [false, true, true, true, true]]

/-- C07 init_from_image: the region is the set of set bits. -/
theorem initFromImage_mem (w : Nat) (rows : List (List Bool))
    (hw : ∀ row ∈ rows, row.length = w) (x y : Int) :
    (initFromImage w rows).Mem x y ↔
      (0 ≤ x ∧ 0 ≤ y ∧ ∃ row, rows[y.toNat]? = some row ∧ row[x.toNat]? = some true) := by
  rw [initFromImage_mem' w rows (fun row hr => Nat.le_of_eq (hw row hr))]
  unfold ImgBit Bit
  constructor
  · rintro ⟨hy, row, h1, hx, h2⟩; exact ⟨hx, hy, row, h1, h2⟩
  · rintro ⟨hx, hy, row, h1, h2⟩; exact ⟨hy, row, h1, hx, h2⟩

/-- … and it is canonical (bands coalesced, extents tight, one rectangle stored inline). -/
theorem initFromImage_canon (w : Nat) (rows : List (List Bool))
    (hw : ∀ row ∈ rows, row.length = w) : Canon (initFromImage w rows) :=
  (initFromImage_spec w rows (fun row hr => Nat.le_of_eq (hw row hr))).2

example : (∀ row ∈ exImg, row.length = 5) ∧
    initFromImage 5 exImg =
      ⟨⟨0, 0, 5, 4⟩, .heap [⟨0, 0, 2, 2⟩, ⟨3, 0, 4, 2⟩, ⟨1, 3, 5, 4⟩]⟩ := by decide

/-- translate, full strength: the slow path's re-validation is discharged by
    `Props.C05.validateRects_exact`. -/
theorem translate_mem (c : Cfg) (hc : 1 ≤ c.bits) {r : Region} (h : Canon r) (dx dy x y : Int) :
    (translate c r dx dy).Mem x y ↔
      (r.Mem (x - dx) (y - dy) ∧ c.min ≤ x ∧ x < c.max ∧ c.min ≤ y ∧ y < c.max) :=
  translate_mem_partial c hc h dx dy
    (fun l hg => (Pixman.Props.C05.validateRects_exact l hg).2) x y

theorem translate_canon (c : Cfg) (hc : 1 ≤ c.bits) {r : Region} (h : Canon r) (dx dy : Int) :
    Canon (translate c r dx dy) :=
  translate_canon_partial c hc h dx dy
    (fun l hg _ => (Pixman.Props.C05.validateRects_exact l hg).1)

end Pixman.Props.C07

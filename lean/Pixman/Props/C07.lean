import Pixman.Spec.PointSet
/-! C07 — property theorems. -/
namespace Pixman.Props.C07
open Pixman.Region

theorem init_not_mem (x y : Int) : ¬ init.Mem x y := by
  simp [Region.Mem, MemL, init, Region.rects]

end Pixman.Props.C07

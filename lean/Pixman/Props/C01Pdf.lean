import Pixman.Props.C01
import Pixman.Props.C01Float
import Pixman.Lemmas.BlendQ
/-! C01 — the seven integer separable PDF blend modes (`PDF_SEPARABLE_BLEND_MODE` of
`pixman-combine32.c`) against the rational PDF equation of `Spec/PdfBlend.lean`.

`Props/C01.lean` proves, for ALL inputs, that every result channel is
`rndDiv255 (min 255² num)` of the exact integer numerator `Spec.PdfInt.num`.  Here:

* `num_is_pdf`: `num / 255²` IS the PDF 32000 §11.3.6 value
  `(1−αs)·cb + (1−αb)·cs + αs·αb·B(cb/αb, cs/αs)` at `cb = d/255, αb = da/255, cs = s/255,
  αs = sa/255` — hypothesis only `sa = 0 → s = 0` and `da = 0 → d = 0` (a colour under a zero alpha
  is zero; weaker than premultiplication);
* `pdf_channel_near`: for premultiplied operands (`s ≤ sa`, `d ≤ da`; then the clamp is inactive)
  the stored channel, as a fraction of 255, is within `127/255²` (< half an 8-bit step) of that
  value; both ends are attained (`Props.C01.pdf_channel_nearest_sharp`);
* `pdf_alpha_near`: the alpha channel against the union `αs + αb − αs·αb` (no hypothesis);
* `pdf_unified_near`, `pdf_componentAlpha_near`: the same through the dispatch tables for whole
  pixel words, with premultiplication required of the *unmasked* source and the destination only.
  The source operand of the equation is the masked source as the 8-bit pipeline rounds it
  (`s'_c = rnd(s_c·m)`, `αs' = rnd(αs·m)`): the effect of that earlier rounding relative to an
  exact rational mask product is NOT bounded here;
* `pdf_nomask_specPixel`, `multiply_nomask_specPixel`: without a mask (nothing is rounded before
  the combiner) and for premultiplied words the whole-pixel Spec `Spec.PdfBlend.specPixel` — the
  one the float pipeline is judged by — makes a claim, and every stored channel is within 127/255²
  (Multiply, whose three products are rounded separately: 381/255², sharp) of it. -/
namespace Pixman.Props.C01Pdf
open Pixman.Arith Pixman.Spec Pixman.Combine32 Pixman.Lemmas Pixman.Lemmas.BlendQ
open Pixman.Spec.PdfBlend Pixman.Model
open Pixman.Spec.PdfInt (Mode)

/-- the mode table agrees with the operator tables of the float Spec and float model -/
theorem mode_tables (sqrt : Rat → Rat) (m : Mode) :
    separable sqrt m.code = some (modeB m) ∧ CombineQ.sepBlend sqrt m.code = some (modeBlendQ m) := by
  cases m <;> exact ⟨rfl, rfl⟩

/-- the float model's `blend_<mode>` is `αs·αb·B(cb/αb, cs/αs)` (from `Props.C01Float`) -/
theorem modeBlendQ_pdf (m : Mode) (sa s da d : Rat) (hsa : 0 < sa) (hda : 0 < da) :
    modeBlendQ m sa s da d = sa * da * modeB m (d / da) (s / sa) := by
  cases m
  · exact C01Float.blendScreen_pdf sa s da d hsa hda
  · exact C01Float.blendOverlay_pdf sa s da d hsa hda
  · exact C01Float.blendDarken_pdf sa s da d hsa hda
  · exact C01Float.blendLighten_pdf sa s da d hsa hda
  · exact C01Float.blendHardLight_pdf sa s da d hsa hda
  · exact C01Float.blendDifference_pdf sa s da d hsa hda
  · exact C01Float.blendExclusion_pdf sa s da d hsa hda

private theorem blendNum_zero_src (m : Mode) (d da : Int) : PdfInt.blendNum m d da 0 0 = 0 := by
  cases m <;> simp [PdfInt.blendNum]

private theorem blendNum_zero_dst (m : Mode) (s sa : Int) : PdfInt.blendNum m 0 0 s sa = 0 := by
  cases m <;> simp [PdfInt.blendNum]

private theorem zero_div255 : (0 : Rat) / 255 = 0 := by grind

private theorem q255_pos (n : Nat) (h : 0 < n) : (0 : Rat) < (n : Rat) / 255 := by
  have : (0 : Rat) < (n : Rat) := Rat.natCast_pos.mpr h
  grind

private theorem q255_zero (n : Nat) : (n : Rat) / 255 = 0 ↔ n = 0 := by
  constructor
  · intro h
    have : (n : Rat) = 0 := by grind
    exact Rat.natCast_eq_zero_iff.mp this
  · intro h; subst h; simp [zero_div255]

/-- **the exact integer numerator is the PDF equation** scaled by 255². -/
theorem num_is_pdf (m : Mode) (d da s sa : Nat) (hsz : sa = 0 → s = 0) (hdz : da = 0 → d = 0) :
    ((PdfInt.num m d da s sa : Int) : Rat) =
      65025 * pdfChannel (modeB m) ((sa : Rat) / 255) ((s : Rat) / 255) ((da : Rat) / 255) ((d : Rat) / 255) := by
  unfold PdfInt.num pdfChannel
  have hb : ((PdfInt.blendNum m d da s sa : Int) : Rat) =
      65025 * (if (sa : Rat) / 255 = 0 ∨ (da : Rat) / 255 = 0 then 0
        else (sa : Rat) / 255 * ((da : Rat) / 255) *
          modeB m ((d : Rat) / 255 / ((da : Rat) / 255)) ((s : Rat) / 255 / ((sa : Rat) / 255))) := by
    by_cases h1 : sa = 0
    · have h2 := hsz h1
      subst h1; subst h2
      rw [if_pos (Or.inl (by simp [zero_div255]))]
      simp only [Int.natCast_zero, blendNum_zero_src]; simp
    · by_cases h3 : da = 0
      · have h4 := hdz h3
        subst h3; subst h4
        rw [if_pos (Or.inr (by simp [zero_div255]))]
        simp only [Int.natCast_zero, blendNum_zero_dst]; simp
      · have p1 := q255_pos sa (by omega)
        have p2 := q255_pos da (by omega)
        rw [if_neg (by
          intro h
          rcases h with h | h
          · exact h1 ((q255_zero sa).mp h)
          · exact h3 ((q255_zero da).mp h))]
        rw [← modeBlendQ_pdf m _ _ _ _ p1 p2]
        have := blendNum_cast m d da s sa
        simp only [Rat.intCast_natCast] at this
        exact this
  rw [Rat.intCast_add, hb]
  push_cast
  grind
example : ((PdfInt.num .overlay 0x40 0x80 0x20 0x60 : Int) : Rat) = 18336 ∧
    65025 * pdfChannel bOverlay (0x60 / 255) (0x20 / 255) (0x80 / 255) (0x40 / 255) = 18336 := by
  decide +kernel

/-- **premultiplied operands: the stored channel is within 127/255² of the PDF value.** -/
theorem pdf_channel_near (m : Mode) (d da s sa : Nat) (hda : da ≤ 255) (hsa : sa ≤ 255)
    (hd : d ≤ da) (hs : s ≤ sa) :
    let r : Rat := (PdfInt.channel m d da s sa : Rat) / 255
    let e : Rat := pdfChannel (modeB m) ((sa : Rat) / 255) ((s : Rat) / 255) ((da : Rat) / 255) ((d : Rat) / 255)
    r ≤ e + 127 / 65025 ∧ e ≤ r + 127 / 65025 := by
  intro r e
  have hN := num_is_pdf m d da s sa (by omega) (by omega)
  obtain ⟨n1, n2⟩ := C01.pdf_channel_nearest m d da s sa hda hsa hd hs
  have q1 : ((255 * (PdfInt.channel m d da s sa : Int) : Int) : Rat) ≤ ((PdfInt.num m d da s sa + 127 : Int) : Rat) :=
    Rat.intCast_le_intCast.mpr n1
  have q2 : ((PdfInt.num m d da s sa : Int) : Rat) ≤ ((255 * (PdfInt.channel m d da s sa : Int) + 127 : Int) : Rat) :=
    Rat.intCast_le_intCast.mpr n2
  rw [Rat.intCast_add, Rat.intCast_mul, Rat.intCast_natCast] at q1 q2
  rw [hN] at q1 q2
  simp only [r, e]
  generalize pdfChannel (modeB m) ((sa : Rat) / 255) ((s : Rat) / 255) ((da : Rat) / 255) ((d : Rat) / 255) = E at q1 q2 ⊢
  generalize (PdfInt.channel m d da s sa : Rat) = R at q1 q2 ⊢
  have c1 : ((255 : Int) : Rat) = 255 := rfl
  have c2 : ((127 : Int) : Rat) = 127 := rfl
  rw [c1, c2] at q1 q2
  constructor <;> grind
example : PdfInt.channel .overlay 0x40 0x80 0x20 0x60 = 72 ∧
    pdfChannel bOverlay (0x60 / 255) (0x20 / 255) (0x80 / 255) (0x40 / 255) = 18336 / 65025 := by
  decide +kernel

/-- **alpha channel: the union `αs + αb − αs·αb`, within 127/255².**  No hypothesis beyond 8 bits. -/
theorem pdf_alpha_near (da sa : Nat) (hda : da ≤ 255) (hsa : sa ≤ 255) :
    let r : Rat := (PdfInt.alpha da sa : Rat) / 255
    let e : Rat := pdfAlpha ((sa : Rat) / 255) ((da : Rat) / 255)
    ((PdfInt.numAlpha da sa : Nat) : Rat) = 65025 * e ∧ r ≤ e + 127 / 65025 ∧ e ≤ r + 127 / 65025 := by
  intro r e
  obtain ⟨c, _, n1, n2⟩ := C01.pdf_alpha_nearest da sa hda hsa
  have hN : ((PdfInt.numAlpha da sa : Nat) : Rat) = 65025 * e := by
    have : (((PdfInt.numAlpha da sa : Nat) : Int) : Rat) = ((255 * (da : Int) + 255 * sa - sa * da : Int) : Rat) := by
      rw [c]
    rw [Rat.intCast_natCast] at this
    rw [this]
    simp only [e, pdfAlpha]
    push_cast
    grind
  have q1 : ((255 * PdfInt.alpha da sa : Nat) : Rat) ≤ ((PdfInt.numAlpha da sa + 127 : Nat) : Rat) :=
    Rat.natCast_le_natCast.mpr n1
  have q2 : ((PdfInt.numAlpha da sa : Nat) : Rat) ≤ ((255 * PdfInt.alpha da sa + 127 : Nat) : Rat) :=
    Rat.natCast_le_natCast.mpr n2
  rw [Rat.natCast_add, Rat.natCast_mul] at q1 q2
  rw [hN] at q1 q2
  refine ⟨hN, ?_⟩
  simp only [r]
  generalize (PdfInt.alpha da sa : Rat) = R at q1 q2 ⊢
  generalize e = E at q1 q2 ⊢
  have c1 : ((255 : Nat) : Rat) = 255 := rfl
  have c2 : ((127 : Nat) : Rat) = 127 := rfl
  rw [c1, c2] at q1 q2
  constructor <;> grind
example : PdfInt.alpha 0x80 0x80 = 192 ∧ PdfInt.numAlpha 0x80 0x80 = 48896 := by decide
example : pdfAlpha (0x80 / 255) (0x80 / 255) = 48896 / 65025 := by unfold pdfAlpha; grind

/-! ### Multiply (hand-written combiner, three rounded products) -/

/-- the exact Multiply numerator is the PDF equation with `B(cb, cs) = cb·cs`, scaled by 255² -/
theorem multiply_num_is_pdf (d da s sa : Nat) (hda : da ≤ 255) (hsa : sa ≤ 255)
    (hsz : sa = 0 → s = 0) (hdz : da = 0 → d = 0) :
    ((PdfInt.numMultiply d da s sa : Nat) : Rat) =
      65025 * pdfChannel bMultiply ((sa : Rat) / 255) ((s : Rat) / 255) ((da : Rat) / 255) ((d : Rat) / 255) := by
  unfold PdfInt.numMultiply pdfChannel
  have c1 : ((255 - da : Nat) : Rat) = 255 - (da : Rat) := by
    have : ((255 - da : Nat) : Int) = 255 - (da : Int) := by omega
    have h2 : (((255 - da : Nat) : Int) : Rat) = ((255 - (da : Int) : Int) : Rat) := by rw [this]
    rw [Rat.intCast_natCast, Rat.intCast_sub, Rat.intCast_natCast] at h2
    exact h2
  have c2 : ((255 - sa : Nat) : Rat) = 255 - (sa : Rat) := by
    have : ((255 - sa : Nat) : Int) = 255 - (sa : Int) := by omega
    have h2 : (((255 - sa : Nat) : Int) : Rat) = ((255 - (sa : Int) : Int) : Rat) := by rw [this]
    rw [Rat.intCast_natCast, Rat.intCast_sub, Rat.intCast_natCast] at h2
    exact h2
  rw [Rat.natCast_add, Rat.natCast_add, Rat.natCast_mul, Rat.natCast_mul, Rat.natCast_mul, c1, c2]
  by_cases h1 : sa = 0
  · have h2 := hsz h1
    subst h1; subst h2
    rw [if_pos (Or.inl (by simp [zero_div255]))]
    simp only [Rat.natCast_ofNat]; grind
  · by_cases h3 : da = 0
    · have h4 := hdz h3
      subst h3; subst h4
      rw [if_pos (Or.inr (by simp [zero_div255]))]
      simp only [Rat.natCast_ofNat]; grind
    · have p1 := q255_pos sa (by omega)
      have p2 := q255_pos da (by omega)
      rw [if_neg (by
        intro h
        rcases h with h | h
        · exact h1 ((q255_zero sa).mp h)
        · exact h3 ((q255_zero da).mp h))]
      rw [← C01Float.blendMultiply_pdf _ _ _ _ p1 p2]
      simp only [CombineQ.blendMultiply]
      grind

/-- premultiplied operands: the stored Multiply channel is within 381/255² (< 1.5 steps) of the PDF
value (sharp in the integers: `Props.C01.multiply_channel_nearest_sharp`) -/
theorem multiply_channel_near (d da s sa : Nat) (hda : da ≤ 255) (hsa : sa ≤ 255)
    (hd : d ≤ da) (hs : s ≤ sa) :
    let r : Rat := (multiplyChannel s sa d da : Rat) / 255
    let e : Rat := pdfChannel bMultiply ((sa : Rat) / 255) ((s : Rat) / 255) ((da : Rat) / 255) ((d : Rat) / 255)
    r ≤ e + 381 / 65025 ∧ e ≤ r + 381 / 65025 := by
  intro r e
  have hN := multiply_num_is_pdf d da s sa hda hsa (by omega) (by omega)
  obtain ⟨_, n1, n2⟩ := C01.multiply_channel_nearest d da s sa hda hsa hd hs
  have q1 : ((255 * multiplyChannel s sa d da : Nat) : Rat) ≤ ((PdfInt.numMultiply d da s sa + 381 : Nat) : Rat) :=
    Rat.natCast_le_natCast.mpr n1
  have q2 : ((PdfInt.numMultiply d da s sa : Nat) : Rat) ≤ ((255 * multiplyChannel s sa d da + 381 : Nat) : Rat) :=
    Rat.natCast_le_natCast.mpr n2
  rw [Rat.natCast_add, Rat.natCast_mul] at q1 q2
  rw [hN] at q1 q2
  simp only [r, e]
  generalize pdfChannel bMultiply ((sa : Rat) / 255) ((s : Rat) / 255) ((da : Rat) / 255) ((d : Rat) / 255) = E at q1 q2 ⊢
  generalize (multiplyChannel s sa d da : Rat) = R at q1 q2 ⊢
  have c1 : ((255 : Nat) : Rat) = 255 := rfl
  have c2 : ((381 : Nat) : Rat) = 381 := rfl
  rw [c1, c2] at q1 q2
  constructor <;> grind
example : multiplyChannel 121 134 98 157 = 141 ∧ PdfInt.numMultiply 98 157 121 134 = 35574 := by decide

/-! ### whole pixel words through the dispatch tables -/

private theorem rnd_mono_left (x x' y : Nat) (h : x ≤ x') : rnd x y ≤ rnd x' y := by
  unfold rnd
  have : x * y ≤ x' * y := Nat.mul_le_mul_right y h
  apply Nat.div_le_div_right
  omega

/-- **unified mask.**  Destination and (unmasked) source premultiplied in colour channel `c`: the
channel that `combine_32[op]` leaves is within 127/255² of the PDF equation applied to the masked
source, the alpha channel within 127/255² of the union. -/
theorem pdf_unified_near (m : Mode) (s d : Nat) (mask : Option Nat) (hs : s < 4294967296)
    (hd : d < 4294967296) (hm : ∀ mk, mask = some mk → mk < 4294967296) :
    ∃ f, combineU? m.code = some f ∧
      (let r : Rat := (chan .a (f s mask d) : Rat) / 255
       let e : Rat := pdfAlpha ((maskedU .a s mask : Rat) / 255) ((chan .a d : Rat) / 255)
       r ≤ e + 127 / 65025 ∧ e ≤ r + 127 / 65025) ∧
      ∀ c, c ≠ .a → chan c s ≤ chan .a s → chan c d ≤ chan .a d →
        let r : Rat := (chan c (f s mask d) : Rat) / 255
        let e : Rat := pdfChannel (modeB m) ((maskedU .a s mask : Rat) / 255) ((maskedU c s mask : Rat) / 255)
                        ((chan .a d : Rat) / 255) ((chan c d : Rat) / 255)
        r ≤ e + 127 / 65025 ∧ e ≤ r + 127 / 65025 := by
  refine ⟨pdfSeparableU (modeBlend m), by cases m <;> rfl, ?_, ?_⟩
  · rw [C01.pdfSeparableU_exact m s d mask hs hd hm .a]
    exact (pdf_alpha_near _ _ (chan_le .a d) (maskedU_le .a s mask)).2
  · intro c hc hps hpd
    rw [C01.pdfSeparableU_exact m s d mask hs hd hm c]
    have hmask : maskedU c s mask ≤ maskedU .a s mask := by
      cases mask with
      | none => exact hps
      | some mk => exact rnd_mono_left _ _ _ hps
    cases c
    · exact absurd rfl hc
    all_goals exact pdf_channel_near m _ _ _ _ (chan_le .a d) (maskedU_le .a s mask) hpd hmask

/-- **component-alpha mask.** -/
theorem pdf_componentAlpha_near (m : Mode) (s mk d : Nat) (hs : s < 4294967296)
    (hm : mk < 4294967296) (hd : d < 4294967296) :
    ∃ f, combineCa? m.code = some f ∧
      (let r : Rat := (chan .a (f s mk d) : Rat) / 255
       let e : Rat := pdfAlpha ((rnd (chan .a s) (chan .a mk) : Rat) / 255) ((chan .a d : Rat) / 255)
       r ≤ e + 127 / 65025 ∧ e ≤ r + 127 / 65025) ∧
      ∀ c, c ≠ .a → chan c s ≤ chan .a s → chan c d ≤ chan .a d →
        let r : Rat := (chan c (f s mk d) : Rat) / 255
        let e : Rat := pdfChannel (modeB m) ((rnd (chan c mk) (chan .a s) : Rat) / 255)
                        ((rnd (chan c s) (chan c mk) : Rat) / 255) ((chan .a d : Rat) / 255) ((chan c d : Rat) / 255)
        r ≤ e + 127 / 65025 ∧ e ≤ r + 127 / 65025 := by
  have hr' := fun c => rnd_le _ _ (chan_le c mk) (chan_le .a s)
  refine ⟨pdfSeparableCa (modeBlend m), by cases m <;> rfl, ?_, ?_⟩
  · rw [C01.pdfSeparableCa_exact m s mk d hs hm hd .a]
    exact (pdf_alpha_near _ _ (chan_le .a d) (rnd_le _ _ (chan_le .a s) (chan_le .a mk))).2
  · intro c hc hps hpd
    rw [C01.pdfSeparableCa_exact m s mk d hs hm hd c]
    have hmask : rnd (chan c s) (chan c mk) ≤ rnd (chan c mk) (chan .a s) := by
      have := rnd_mono_left _ _ (chan c mk) hps
      unfold rnd at this ⊢
      rw [Nat.mul_comm (chan c mk) (chan .a s)]
      exact this
    cases c
    · exact absurd rfl hc
    all_goals exact pdf_channel_near m _ _ _ _ (chan_le .a d) (hr' _) hpd hmask

example : chan .r 0x80402010 ≤ chan .a 0x80402010 ∧ chan .r 0xc0102030 ≤ chan .a 0xc0102030 := by decide

/-! ### against the whole-pixel Spec `Spec.PdfBlend.specPixel` (the one the float pipeline is judged by) -/

private theorem chan_le_a (x : Nat) (h : ∀ c, c ≠ Chan.a → chan c x ≤ chan .a x) (c : Chan) :
    chan c x ≤ chan .a x := by
  cases c
  · exact Nat.le_refl _
  all_goals exact h _ (by decide)

/-- for premultiplied words and no mask the Spec makes a claim, and it is the PDF equation per channel -/
theorem specPixel_nomask (sqrt : Rat → Rat) (op : Nat) (B : Rat → Rat → Rat)
    (hB : separable sqrt op = some B) (hR : ∀ x y, renderFactors op x y = none) (s d : Nat)
    (hps : ∀ c, c ≠ Chan.a → chan c s ≤ chan .a s) (hpd : ∀ c, c ≠ Chan.a → chan c d ≤ chan .a d) :
    specPixel sqrt op false (pxOfWord s) none (pxOfWord d) =
      some ⟨pdfAlpha ((chan .a s : Rat) / 255) ((chan .a d : Rat) / 255),
            pdfChannel B ((chan .a s : Rat) / 255) ((chan .r s : Rat) / 255) ((chan .a d : Rat) / 255) ((chan .r d : Rat) / 255),
            pdfChannel B ((chan .a s : Rat) / 255) ((chan .g s : Rat) / 255) ((chan .a d : Rat) / 255) ((chan .g d : Rat) / 255),
            pdfChannel B ((chan .a s : Rat) / 255) ((chan .b s : Rat) / 255) ((chan .a d : Rat) / 255) ((chan .b d : Rat) / 255)⟩ := by
  have u := fun c x => unit_q255 (chan c x) (chan_le c x)
  have ls := fun c => le_q255 _ _ (chan_le_a s hps c)
  have ld := fun c => le_q255 _ _ (chan_le_a d hpd c)
  simp [specPixel, pxOfWord, hB, hR, u]
  exact ⟨⟨⟨⟨⟨ls .r, ls .g⟩, ls .b⟩, ld .r⟩, ld .g⟩, ld .b⟩

/-- **no mask, premultiplied source and destination words: every channel that `combine_32[op]`
leaves is within 127/255² (< half an 8-bit step) of the pixel `Spec.PdfBlend.specPixel` defines.** -/
theorem pdf_nomask_specPixel (sqrt : Rat → Rat) (m : Mode) (s d : Nat) (hs : s < 4294967296)
    (hd : d < 4294967296)
    (hps : ∀ c, c ≠ Chan.a → chan c s ≤ chan .a s) (hpd : ∀ c, c ≠ Chan.a → chan c d ≤ chan .a d) :
    ∃ f p, combineU? m.code = some f ∧
      specPixel sqrt m.code false (pxOfWord s) none (pxOfWord d) = some p ∧
      Within 127 (chan .a (f s none d)) p.a ∧ Within 127 (chan .r (f s none d)) p.r ∧
      Within 127 (chan .g (f s none d)) p.g ∧ Within 127 (chan .b (f s none d)) p.b := by
  obtain ⟨f, hf, ha, hc⟩ := pdf_unified_near m s d none hs hd (by intro mk h; cases h)
  have hR : ∀ x y, renderFactors m.code x y = none := by intro x y; cases m <;> rfl
  refine ⟨f, _, hf, specPixel_nomask sqrt m.code (modeB m) (mode_tables sqrt m).1 hR s d hps hpd, ?_, ?_, ?_, ?_⟩
  · exact ha
  · exact hc .r (by decide) (hps _ (by decide)) (hpd _ (by decide))
  · exact hc .g (by decide) (hps _ (by decide)) (hpd _ (by decide))
  · exact hc .b (by decide) (hps _ (by decide)) (hpd _ (by decide))

/-- Multiply, no mask, premultiplied words: within 381/255² of `specPixel` -/
theorem multiply_nomask_specPixel (sqrt : Rat → Rat) (s d : Nat) (hs : s < 4294967296)
    (hd : d < 4294967296)
    (hps : ∀ c, c ≠ Chan.a → chan c s ≤ chan .a s) (hpd : ∀ c, c ≠ Chan.a → chan c d ≤ chan .a d) :
    ∃ f p, combineU? 0x30 = some f ∧
      specPixel sqrt 0x30 false (pxOfWord s) none (pxOfWord d) = some p ∧
      Within 381 (chan .a (f s none d)) p.a ∧ Within 381 (chan .r (f s none d)) p.r ∧
      Within 381 (chan .g (f s none d)) p.g ∧ Within 381 (chan .b (f s none d)) p.b := by
  have hR : ∀ x y, renderFactors 0x30 x y = none := by intro x y; rfl
  have key : ∀ c, Within 381 (chan c (combineMultiplyU s none d))
      (pdfChannel bMultiply ((chan .a s : Rat) / 255) ((chan c s : Rat) / 255) ((chan .a d : Rat) / 255) ((chan c d : Rat) / 255)) := by
    intro c
    rw [C01.combineMultiplyU_spec s d none hs hd (by intro mk h; cases h) c]
    exact multiply_channel_near _ _ _ _ (chan_le .a d) (chan_le .a s) (chan_le_a d hpd c) (chan_le_a s hps c)
  refine ⟨combineMultiplyU, _, rfl, specPixel_nomask sqrt 0x30 bMultiply rfl hR s d hps hpd, ?_, key .r, key .g, key .b⟩
  -- alpha: the PDF equation at cs = αs, cb = αb is the union
  have k := key .a
  have e : pdfChannel bMultiply ((chan .a s : Rat) / 255) ((chan .a s : Rat) / 255) ((chan .a d : Rat) / 255) ((chan .a d : Rat) / 255)
      = pdfAlpha ((chan .a s : Rat) / 255) ((chan .a d : Rat) / 255) := by
    unfold pdfChannel pdfAlpha bMultiply
    generalize (chan .a s : Rat) / 255 = x
    generalize (chan .a d : Rat) / 255 = y
    by_cases h : x = 0 ∨ y = 0
    · rw [if_pos h]; rcases h with h | h <;> subst h <;> grind
    · rw [if_neg h]
      have hx : x ≠ 0 := fun h' => h (Or.inl h')
      have hy : y ≠ 0 := fun h' => h (Or.inr h')
      rw [CombineQ.div_self' hx, CombineQ.div_self' hy]; grind
  rw [e] at k
  exact k
example : ∃ f p, combineU? 0x37 = some f ∧
    specPixel (fun _ => 0) 0x37 false (pxOfWord 0x80402010) none (pxOfWord 0xc0102030) = some p ∧
    Within 127 (chan .a (f 0x80402010 none 0xc0102030)) p.a ∧ Within 127 (chan .r (f 0x80402010 none 0xc0102030)) p.r ∧
    Within 127 (chan .g (f 0x80402010 none 0xc0102030)) p.g ∧ Within 127 (chan .b (f 0x80402010 none 0xc0102030)) p.b :=
  pdf_nomask_specPixel _ .hardLight _ _ (by decide) (by decide)
    (by intro c hc; cases c <;> first | exact absurd rfl hc | decide)
    (by intro c hc; cases c <;> first | exact absurd rfl hc | decide)

end Pixman.Props.C01Pdf

import Pixman.Props.C09
import Pixman.Props.C09Flags
/-! C09, the property's first sentence at model level (O1/O2 glue).

* `looked_up_operator_sound` / `_ca`: the operator `pixman_image_composite32` LOOKS UP (`Opacity.composite32`: literal
  flags, `analyze_extent`, regenerated promotion block, regenerated `optimize_operator` and table) computes, for every
  Porter-Duff/ADD operator and all pixel values, the same 8-bit pixel as the REQUESTED operator — provided the values
  fetched for an image whose looked-up word carries IS_OPAQUE have alpha 255, which is what `Props/C09Sound`
  (bits, solid) and `Props/C09Gradient` prove of the fetchers.  Transforms, filters and repeat modes enter only through
  that proviso: this is the statement for "every operator, transform, repeat mode and filter" of the 8-bit pipeline.
* `presentation_invariance` (+ `_mask`, `_dest`): in the one-pixel request model `compositePixel` (untransformed,
  samples covering: x8r8g8b8-like / a8r8g8b8-like / solid presentations) two presentations that fetch the same
  a8r8g8b8 pixel give the same destination, although one is flagged opaque (reduced operator, elided mask) and the
  other is not. -/
namespace Pixman.Props.C09Headline
open Pixman.Arith Pixman.Lanes Pixman.Spec Pixman.Combine32 Pixman.Lemmas Pixman.CompositePixel
open Pixman.Gen.OperatorTable Pixman.Model.Opacity

private theorem bit13 (x : Nat) : x / 8192 % 2 = (x.testBit 13).toNat := by
  rw [Nat.testBit_eq_decide_div_mod_eq]
  have : (2 : Nat) ^ 13 = 8192 := by decide
  rw [this]
  by_cases h : x / 8192 % 2 = 1
  · simp [h]
  · have : x / 8192 % 2 = 0 := by omega
    simp [this]

/-- the looked-up operator is the table cell selected by bit 13 of the three looked-up words -/
theorem decision_op (r : Request) (d : Decision) (h : composite32 r = .run d) :
    d.op = cell r.op (2 * (d.destFlags.testBit 13).toNat + (d.srcFlags.testBit 13 && d.maskFlags.testBit 13).toNat) := by
  unfold composite32 at h
  simp only [] at h
  split at h <;> try cases h
  split at h <;> try cases h
  simp only []
  rw [Pixman.Props.C09.optimizeOperator_cell, bit13, bit13, Nat.testBit_and]

/-- unified alpha (no mask, or a mask whose alpha multiplies every channel) -/
theorem looked_up_operator_sound (r : Request) (d : Decision) (h : composite32 r = .run d) (op : Op) (hop : r.op = op.code)
    (s32 d32 : Nat) (mask : Option Nat)
    (hs : d.srcFlags.testBit 13 = true → chan .a s32 = 255)
    (hm : d.maskFlags.testBit 13 = true → ∀ m, mask = some m → chan .a m = 255)
    (hd : d.destFlags.testBit 13 = true → chan .a d32 = 255) :
    ∃ op' : Op, op'.code = d.op ∧ unifiedPixel op s32 mask d32 = unifiedPixel op' s32 mask d32 := by
  rw [decision_op r d h, hop]
  apply Pixman.Props.C09.optimized_unified_pixel op _ _ s32 d32 mask
  · intro hso
    simp only [Bool.and_eq_true] at hso
    cases mask with
    | none => exact hs hso.1
    | some m =>
      rw [Pixman.Props.C09.maskedU_opaque .a s32 m (hm hso.2 m rfl)]
      exact hs hso.1
  · exact hd

/-- component alpha: a component-alpha mask is never passed on as opaque, only the destination column applies -/
theorem looked_up_operator_sound_ca (r : Request) (d : Decision) (h : composite32 r = .run d) (op : Op) (hop : r.op = op.code)
    (s32 m32 d32 : Nat) (hm : d.maskFlags.testBit 13 = false)
    (hd : d.destFlags.testBit 13 = true → chan .a d32 = 255) :
    ∃ op' : Op, op'.code = d.op ∧ componentAlphaPixel op s32 m32 d32 = componentAlphaPixel op' s32 m32 d32 := by
  rw [decision_op r d h, hop, hm, Bool.and_false]
  exact Pixman.Props.C09.optimized_componentAlpha_pixel op _ s32 m32 d32 hd

/-! ## the one-pixel request model -/

/-- SOURCE: two presentations fetching the same a8r8g8b8 pixel (e.g. x8r8g8b8 with any junk byte / a8r8g8b8 with alpha
255 / a solid colour) give the same destination for every operator, mask kind, destination format and pixel value -/
theorem presentation_invariance (op : Op) (ca : Bool) (P Q mask : Pres) (df : Fmt) (rep : Bool) (s s' m d : Nat)
    (hP : P ≠ .none) (hQ : Q ≠ .none) (hf : P.fetch s = Q.fetch s') :
    compositePixel op.code ca P mask (.bits df rep) s m d = compositePixel op.code ca Q mask (.bits df rep) s' m d := by
  rw [Pixman.Props.C09.compositePixel_spec op ca P mask df rep s m d hP,
      Pixman.Props.C09.compositePixel_spec op ca Q mask df rep s' m d hQ, hf]

/-- MASK: an absent mask, and any unified mask presentation that fetches alpha 255, give the same destination -/
theorem presentation_invariance_mask (op : Op) (src M : Pres) (df : Fmt) (rep : Bool) (s m d : Nat)
    (hS : src ≠ .none) (hM : M ≠ .none) (ha : chan .a (M.fetch m) = 255) :
    compositePixel op.code false src M (.bits df rep) s m d = compositePixel op.code false src .none (.bits df rep) s 0 d := by
  rw [Pixman.Props.C09.compositePixel_spec op false src M df rep s m d hS,
      Pixman.Props.C09.compositePixel_spec op false src .none df rep s 0 d hS]
  cases M with
  | none => exact absurd rfl hM
  | solid => simp only [Bool.false_eq_true, if_false]; rw [Pixman.Props.C09.unifiedPixel_mask_elision op _ _ _ ha]
  | bits f r => simp only [Bool.false_eq_true, if_false]; rw [Pixman.Props.C09.unifiedPixel_mask_elision op _ _ _ ha]

/-- DESTINATION: two destination presentations (any formats, with or without a repeat mode, i.e. flagged opaque or not)
fetching the same a8r8g8b8 pixel receive the same a8r8g8b8 result, each stored in its own format -/
theorem presentation_invariance_dest (op : Op) (ca : Bool) (src mask : Pres) (f1 f2 : Fmt) (r1 r2 : Bool) (s m d1 d2 : Nat)
    (hS : src ≠ .none) (hf : f1.fetch d1 = f2.fetch d2) :
    ∃ v, compositePixel op.code ca src mask (.bits f1 r1) s m d1 = .pixel (f1.store v) ∧
         compositePixel op.code ca src mask (.bits f2 r2) s m d2 = .pixel (f2.store v) := by
  rw [Pixman.Props.C09.compositePixel_spec op ca src mask f1 r1 s m d1 hS,
      Pixman.Props.C09.compositePixel_spec op ca src mask f2 r2 s m d2 hS, hf]
  exact ⟨_, rfl, rfl⟩

/- non-vacuity: x8r8g8b8 (junk 0x12 in x) / a8r8g8b8 alpha 255 / solid fetch the same pixel; OVER onto r5g6b5 and
onto a8r8g8b8: one source is flagged opaque (OVER → SRC), the others' alpha is only known per pixel -/
example : (Pres.bits ⟨"x8r8g8b8", 32, .argb, 0, 8, 8, 8⟩ false).fetch 0x12804020 = (Pres.bits argb32 false).fetch 0xff804020 ∧
    (Pres.bits argb32 false).fetch 0xff804020 = Pres.solid.fetch 0xff804020 := by decide
example : compositePixel 3 false (.bits ⟨"x8r8g8b8", 32, .argb, 0, 8, 8, 8⟩ false) .none (.bits argb32 false) 0x12804020 0 0x80112233 =
    compositePixel 3 false (.bits argb32 false) .none (.bits argb32 false) 0xff804020 0 0x80112233 :=
  presentation_invariance .over false _ _ _ _ _ _ _ _ _ (fun h => by cases h) (fun h => by cases h) (by decide)

end Pixman.Props.C09Headline

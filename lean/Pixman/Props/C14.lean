import Pixman.Model.ImageState
import Pixman.Model.DispatchCache
import Pixman.Spec.ImageState
import Pixman.Lemmas.ImageState
import Pixman.Lemmas.ImageStateWF
import Pixman.Lemmas.DispatchCache
/-!
# C14 — rendering depends only on an image's current properties, never on its history

All theorems quantify over every world (pool of images of any kind, any creation constants, any
uninitialised `junk`), every history of setters and uses, with no bound on length.
-/
namespace Pixman.Props.C14
open Pixman.Model.ImageState
open Pixman.Model.DispatchCache
open Pixman.Spec.ImageState

/-! ## H1 — the invariant: what is not dirty carries `derive` of the current properties -/

/-- Every setter of pixman-image.c that acts on one image either returns the image unchanged in
every field `compute_image_info` / the hooks read (the early returns, and `set_has_client_clip`
which writes a field they do not read) or leaves `dirty = TRUE`; none writes creation constants
or derived state. -/
theorem setters_early_return_or_dirty (im : Image) :
    (∀ t, SetterOK (fun im => setTransformI im t)) ∧ (∀ r, SetterOK (fun im => setRepeatI im r)) ∧
    (∀ f p n, SetterOK (fun im => setFilterI im f p n)) ∧ (∀ r, SetterOK (fun im => setClipRegionI im r)) ∧
    (∀ v, SetterOK (fun im => setHasClientClipI im v)) ∧ (∀ v, SetterOK (fun im => setSourceClippingI im v)) ∧
    (∀ v, SetterOK (fun im => setComponentAlphaI im v)) ∧ (∀ r w, SetterOK (fun im => setAccessorsI im r w)) ∧
    (∀ p, SetterOK (fun im => setIndexedI im p)) ∧ (∀ d, SetterOK (fun im => setDitherI im d)) ∧
    (∀ x y, SetterOK (fun im => setDitherOffsetI im x y)) ∧
    -- and the early returns really are returns: a setter given the current value changes nothing
    setRepeatI im im.props.repeat_ = im ∧ setComponentAlphaI im im.props.componentAlpha = im ∧
    setSourceClippingI im im.props.clipSources = im ∧ setIndexedI im im.props.indexed = im ∧
    (∀ t, im.props.transform = some t → t ≠ Transform.id → setTransformI im (some t) = im) ∧
    (im.props.transform = none → setTransformI im none = im) :=
  ⟨setTransformI_ok, setRepeatI_ok, setFilterI_ok, setClipRegionI_ok, setHasClientClipI_ok, setSourceClippingI_ok,
   setComponentAlphaI_ok, setAccessorsI_ok, setIndexedI_ok, setDitherI_ok, setDitherOffsetI_ok,
   by simp [setRepeatI], by simp [setComponentAlphaI], by simp [setSourceClippingI], by simp [setIndexedI],
   by intro t h hne; simp [setTransformI, h, hne], by intro h; simp [setTransformI, h]⟩

example : (setRepeatI (freshImage { kind := .solid } ⟨1, 2, .none⟩) 3).dirty = true := by decide

/-- a pool of freshly created images satisfies the invariant (everything is dirty) -/
theorem inv_fresh (crs : Nat → Creation) (junk : Nat → Derived) : Inv (fresh crs junk) := by
  intro i h; simp [fresh, freshImage] at h

theorem stable_setAlphaMap (w : World) (i : Nat) (am : Option Nat) (x y : Int) : Stable w (setAlphaMap w i am x y) := by
  unfold setAlphaMap
  have hset : ∀ (w1 : World) (a : Option Nat), Stable w1 (upd w1 i (fun im => imagePropertyChanged
      { im with props := { im.props with alphaMap := a, alphaOriginX := x, alphaOriginY := y } })) :=
    fun w1 a => stable_upd w1 i _ (dirtying_ok _ (fun _ => rfl) (fun _ => rfl))
  have hdec : Stable w (match (w.get i).props.alphaMap with
      | some o => upd w o (fun im => { im with alphaCount := im.alphaCount - 1 })
      | none => w) := by
    split
    · exact stable_upd _ _ _ alphaCountDec_ok
    · exact Stable.refl w
  cases am with
  | none => exact Stable.trans hdec (hset _ _)
  | some j =>
    show Stable w (if ((w.get j).cr.kind != Kind.bits) = true then w else if j = i then w else
      if (w.get i).alphaCount > 0 then w else if (w.get j).props.alphaMap.isSome = true then w else
      upd (if ((w.get i).props.alphaMap != some j) = true then
            upd (match (w.get i).props.alphaMap with
                 | some o => upd w o (fun im => { im with alphaCount := im.alphaCount - 1 })
                 | none => w) j (fun im => { im with alphaCount := im.alphaCount + 1 })
           else w) i (fun im => imagePropertyChanged
             { im with props := { im.props with alphaMap := some j, alphaOriginX := x, alphaOriginY := y } }))
    split
    · exact Stable.refl w
    · split
      · exact Stable.refl w
      · split
        · exact Stable.refl w
        · split
          · exact Stable.refl w
          · by_cases c5 : ((w.get i).props.alphaMap != some j) = true
            · rw [if_pos c5]
              exact Stable.trans (Stable.trans hdec (stable_upd _ _ _ alphaCountInc_ok)) (hset _ _)
            · rw [if_neg c5]
              exact hset _ _

/-- every setter call is stable (H1, second half): derived fields and creation constants are not
written, and an image that is clean afterwards was clean before with the same core -/
theorem stable_step (w : World) (op : Op) (h : ∀ ids, op ≠ .use ids) : Stable w (step w op) := by
  cases op with
  | setTransform i t => exact (stable_upd w i (fun im => setTransformI im t) (setTransformI_ok t) : Stable w (upd w i (fun im => setTransformI im t)))
  | setRepeat i r => exact (stable_upd w i (fun im => setRepeatI im r) (setRepeatI_ok r) : Stable w (upd w i (fun im => setRepeatI im r)))
  | setFilter i f p n => exact (stable_upd w i (fun im => setFilterI im f p n) (setFilterI_ok f p n) : Stable w (upd w i (fun im => setFilterI im f p n)))
  | setClipRegion i r => exact (stable_upd w i (fun im => setClipRegionI im r) (setClipRegionI_ok r) : Stable w (upd w i (fun im => setClipRegionI im r)))
  | setHasClientClip i v => exact (stable_upd w i (fun im => setHasClientClipI im v) (setHasClientClipI_ok v) : Stable w (upd w i (fun im => setHasClientClipI im v)))
  | setSourceClipping i v => exact (stable_upd w i (fun im => setSourceClippingI im v) (setSourceClippingI_ok v) : Stable w (upd w i (fun im => setSourceClippingI im v)))
  | setAlphaMap i am x y => exact stable_setAlphaMap w i am x y
  | setComponentAlpha i v => exact (stable_upd w i (fun im => setComponentAlphaI im v) (setComponentAlphaI_ok v) : Stable w (upd w i (fun im => setComponentAlphaI im v)))
  | setAccessors i r wr => exact (stable_upd w i (fun im => setAccessorsI im r wr) (setAccessorsI_ok r wr) : Stable w (upd w i (fun im => setAccessorsI im r wr)))
  | setIndexed i p => exact (stable_upd w i (fun im => setIndexedI im p) (setIndexedI_ok p) : Stable w (upd w i (fun im => setIndexedI im p)))
  | setDither i d => exact (stable_upd w i (fun im => setDitherI im d) (setDitherI_ok d) : Stable w (upd w i (fun im => setDitherI im d)))
  | setDitherOffset i x y => exact (stable_upd w i (fun im => setDitherOffsetI im x y) (setDitherOffsetI_ok x y) : Stable w (upd w i (fun im => setDitherOffsetI im x y)))
  | use ids => exact absurd rfl (h ids)

/-- the invariant survives every setter and every use -/
theorem inv_step (w : World) (op : Op) (hI : Inv w) : Inv (step w op) := by
  cases op with
  | use ids => exact inv_useAll ids w hI
  | _ => exact inv_of_stable hI (stable_step w _ (fun ids h => by cases h))

/-- ... hence every history -/
theorem inv_run : ∀ (h : List Op) (w : World), Inv w → Inv (run w h) := by
  intro h
  induction h with
  | nil => intro w hI; exact hI
  | cons op ops ih => intro w hI; exact ih _ (inv_step w op hI)

/-- after `_pixman_image_validate` the image and its alpha map are clean -/
theorem validate_clean (w : World) (i : Nat) :
    ((validate w i).get i).dirty = false ∧
    (∀ j, (w.get i).props.alphaMap = some j → ((validate w i).get j).dirty = false) :=
  ⟨validateFuel_self_clean 1 w i, fun j h => validateFuel_map_clean 0 w i j h⟩

/-- ... and carry exactly `derive` of their current properties, whatever happened before -/
theorem validate_derived (w : World) (i : Nat) (hI : Inv w) :
    ((validate w i).get i).derived = deriveAt w i ∧
    (∀ j, (w.get i).props.alphaMap = some j → ((validate w i).get j).derived = deriveAt w j) := by
  have hI' := inv_validateFuel 2 w i hI
  have hcong : ∀ k, deriveAt (validate w i) k = deriveAt w k := fun k =>
    deriveAt_congr w (validate w i) k (fun j => (validateFuel_get 2 w i j).1) (by
      show ((validateFuel 2 w i).get k).props.core = _
      rw [(validateFuel_get 2 w i k).2.1])
  exact ⟨(hI' i (validate_clean w i).1).trans (hcong i),
         fun j h => (hI' j ((validate_clean w i).2 j h)).trans (hcong j)⟩

/-- validation writes no property, creation constant or reference count -/
theorem validate_keeps_props (w : World) (i k : Nat) :
    ((validate w i).get k).cr = (w.get k).cr ∧ ((validate w i).get k).props = (w.get k).props ∧
    ((validate w i).get k).alphaCount = (w.get k).alphaCount := validateFuel_get 2 w i k

/-! ## H2 — history irrelevance -/

/-- The properties as far as any reader may look at them: the content of `common.clip_region` is
only meaningful under `have_clip_region`, the alpha origin only with an alpha map (the library
leaves the former stale after a clip reset and the latter uninitialised in a new image). -/
def effective (p : Props) : Props :=
  { p with clipRegion := if p.haveClip then p.clipRegion else [],
           alphaOriginX := if p.alphaMap.isSome then p.alphaOriginX else 0,
           alphaOriginY := if p.alphaMap.isSome then p.alphaOriginY else 0 }

/-- everything of an image that rendering and dispatch may depend on -/
structure View where
  cr : Creation
  props : Props
  derived : Derived
  dirty : Bool
  deriving DecidableEq

def view (w : World) (k : Nat) : View := ⟨(w.get k).cr, effective (w.get k).props, (w.get k).derived, (w.get k).dirty⟩

theorem core_effective (p : Props) : (effective p).core = p.core := rfl

/-- Two pools with the same creation constants and the same effective properties — whatever
their pasts, whatever stale or uninitialised derived state they carry (`Inv` is all that is
known) — are indistinguishable after a use, on every image the use validated. -/
theorem use_determined_by_props (w w' : World) (hI : Inv w) (hI' : Inv w')
    (hp : ∀ k, (w'.get k).cr = (w.get k).cr ∧ effective (w'.get k).props = effective (w.get k).props)
    (ids : List Nat) (k : Nat) (hk : touched w ids k) :
    view (useAll w ids) k = view (useAll w' ids) k ∧ ((useAll w ids).get k).dirty = false := by
  have hcore : ∀ j, (w'.get j).props.core = (w.get j).props.core := fun j => by
    rw [← core_effective (w'.get j).props, (hp j).2, core_effective]
  have hk' : touched w' ids k := by
    rcases hk with h | ⟨i, hi, ham⟩
    · exact Or.inl h
    · exact Or.inr ⟨i, hi, by rw [← ham]; exact congrArg Core.alphaMap (hcore i)⟩
  have c1 := useAll_touched_clean ids w k hk
  have c2 := useAll_touched_clean ids w' k hk'
  have d1 : ((useAll w ids).get k).derived = deriveAt w k :=
    (inv_useAll ids w hI k c1).trans (deriveAt_congr w _ k (fun j => (useAll_get ids w j).1) (by rw [(useAll_get ids w k).2.1]))
  have d2 : ((useAll w' ids).get k).derived = deriveAt w' k :=
    (inv_useAll ids w' hI' k c2).trans (deriveAt_congr w' _ k (fun j => (useAll_get ids w' j).1) (by rw [(useAll_get ids w' k).2.1]))
  have d12 : deriveAt w' k = deriveAt w k := deriveAt_congr w w' k (fun j => (hp j).1) (hcore k)
  refine ⟨?_, c1⟩
  unfold view
  rw [(useAll_get ids w k).1, (useAll_get ids w k).2.1, (useAll_get ids w' k).1, (useAll_get ids w' k).2.1,
      d1, d2, d12, c1, c2, (hp k).1, (hp k).2]

/-- H2: two arbitrary histories (of any length, over pools created with arbitrary uninitialised
memory) that end in the same properties give identical images at the next use. In particular a
long-lived image equals a freshly created one that was given the final properties directly. -/
theorem history_irrelevant (crs : Nat → Creation) (junk1 junk2 : Nat → Derived) (h1 h2 : List Op)
    (hp : ∀ k, effective ((run (fresh crs junk2) h2).get k).props = effective ((run (fresh crs junk1) h1).get k).props)
    (hcr : ∀ k, ((run (fresh crs junk2) h2).get k).cr = ((run (fresh crs junk1) h1).get k).cr)
    (ids : List Nat) (k : Nat) (hk : touched (run (fresh crs junk1) h1) ids k) :
    view (useAll (run (fresh crs junk1) h1) ids) k = view (useAll (run (fresh crs junk2) h2) ids) k :=
  (use_determined_by_props _ _ (inv_run h1 _ (inv_fresh crs junk1)) (inv_run h2 _ (inv_fresh crs junk2))
    (fun j => ⟨hcr j, hp j⟩) ids k hk).1

/-- ... so any renderer that reads only validated images (their creation constants, effective
properties and derived state) and the pixel contents draws the same thing. -/
theorem render_history_irrelevant {Pixels Out : Type} (render : (Nat → Option View) → Pixels → Out)
    (w w' : World) (hI : Inv w) (hI' : Inv w')
    (hp : ∀ k, (w'.get k).cr = (w.get k).cr ∧ effective (w'.get k).props = effective (w.get k).props)
    (ids : List Nat) (px : Pixels) [∀ k, Decidable (touched w ids k)] [∀ k, Decidable (touched w' ids k)] :
    render (fun k => if touched w ids k then some (view (useAll w ids) k) else none) px =
    render (fun k => if touched w' ids k then some (view (useAll w' ids) k) else none) px := by
  have hcore : ∀ j, (w'.get j).props.core = (w.get j).props.core := fun j => by
    rw [← core_effective (w'.get j).props, (hp j).2, core_effective]
  have ht : ∀ k, touched w ids k ↔ touched w' ids k := fun k => by
    unfold touched
    constructor
    · rintro (h | ⟨i, hi, ham⟩)
      · exact Or.inl h
      · exact Or.inr ⟨i, hi, by rw [← ham]; exact congrArg Core.alphaMap (hcore i)⟩
    · rintro (h | ⟨i, hi, ham⟩)
      · exact Or.inl h
      · exact Or.inr ⟨i, hi, by rw [← ham]; exact (congrArg Core.alphaMap (hcore i)).symm⟩
  congr 1
  funext k
  by_cases h : touched w ids k
  · rw [if_pos h, if_pos ((ht k).mp h), (use_determined_by_props w w' hI hI' hp ids k h).1]
  · rw [if_neg h, if_neg (fun h' => h ((ht k).mpr h'))]

/-- non-vacuity: a history with early returns, a re-attached alpha map and two uses ends with the
derived state of a brand-new pool that got the final properties in two calls -/
example :
    let crs : Nat → Creation := fun k => if k = 0 then { kind := .bits, format := 0x20028888, width := 4, height := 4 }
                                          else { kind := .bits, format := 0x08018000, width := 4, height := 4 }
    let long := run (fresh crs (fun _ => ⟨7, 7, .none⟩))
      [.setRepeat 0 1, .use [0], .setRepeat 0 1, .setAlphaMap 0 (some 1) 1 1, .use [0], .setRepeat 0 2,
       .setAlphaMap 0 none 0 0, .setAlphaMap 0 (some 1) 2 3, .setAccessors 1 1 1, .use [0]]
    let short := run (fresh crs (fun _ => ⟨0, 0, .bits true⟩))
      [.setAccessors 1 1 1, .setRepeat 0 2, .setAlphaMap 0 (some 1) 2 3, .use [0]]
    view long 0 = view short 0 ∧ view long 1 = view short 1 ∧ (long.get 0).dirty = false := by decide

/-! ## alpha-map links: no chains, so the C recursion of `_pixman_image_validate` has depth ≤ 2 -/

/-- the links of a new pool are well formed -/
theorem wf_fresh (n : Nat) (crs : Nat → Creation) (junk : Nat → Derived) : WF n (fresh crs junk) :=
  Pixman.Model.ImageState.wf_fresh n crs junk

/-- every call on images of the pool keeps them well formed: `alpha_count` is exactly the number
of images using the image as alpha map, and no alpha map has an alpha map -/
theorem wf_step (n : Nat) (w : World) (op : Op) (hr : OpInRange n op) (h : WF n w) : WF n (step w op) :=
  Pixman.Model.ImageState.wf_step n w op hr h

theorem wf_run (n : Nat) : ∀ (h : List Op) (w : World), (∀ op, op ∈ h → OpInRange n op) → WF n w → WF n (run w h) := by
  intro h
  induction h with
  | nil => intro w _ hw; exact hw
  | cons op ops ih =>
    intro w hr hw
    exact ih _ (fun o ho => hr o (List.mem_cons_of_mem _ ho)) (wf_step n w op (hr op List.mem_cons_self) hw)

/-- the unbounded C recursion `_pixman_image_validate (alpha_map)` stops after the alpha map:
any larger fuel gives the same world as the model's `validate` (fuel 2) -/
theorem validate_fuel_enough (n : Nat) (w : World) (hw : WF n w) (i fuel : Nat) :
    validateFuel (fuel + 2) w i = validate w i :=
  Pixman.Model.ImageState.validateFuel_enough n w hw i fuel

example : WF 2 (run (fresh (fun _ => { kind := .bits, format := 0x08018000 }) (fun _ => ⟨0, 0, .none⟩))
    [.setAlphaMap 0 (some 1) 0 0, .setAlphaMap 1 (some 0) 0 0]) :=
  wf_run 2 _ _ (by intro op h; simp at h; rcases h with h | h <;> subst h <;> simp [OpInRange]) (wf_fresh 2 _ _)

/-! ## setters are assignments (refinement of the Spec) -/

/-- each call changes the properties exactly as the assignment semantics of `Spec.ImageState`
says: no early return ever loses an update, no setter writes a property it is not about -/
theorem step_refines_spec (w : World) (op : Op) : toSpec (step w op) = sstep (toSpec w) op :=
  Pixman.Spec.ImageState.step_refines w op

theorem run_refines_spec : ∀ (h : List Op) (w : World), toSpec (run w h) = srun (toSpec w) h := by
  intro h
  induction h with
  | nil => intro w; rfl
  | cons op ops ih => intro w; show toSpec (run (step w op) ops) = srun (sstep (toSpec w) op) ops; rw [ih, step_refines_spec]

/-- Spec ↔ Model, end to end: after ANY history, what a use leaves in a validated image is
`derive` of the properties the assignment semantics says the image has — early returns, the dirty
bit and stale or uninitialised cached state are invisible. -/
theorem use_derived_is_spec (crs : Nat → Creation) (junk : Nat → Derived) (h : List Op) (ids : List Nat) (k : Nat)
    (hk : touched (run (fresh crs junk) h) ids k) :
    ((useAll (run (fresh crs junk) h) ids).get k).derived = specDerived (srun (toSpec (fresh crs junk)) h) k ∧
    ((useAll (run (fresh crs junk) h) ids).get k).dirty = false := by
  have hI := inv_run h _ (inv_fresh crs junk)
  have c1 := useAll_touched_clean ids _ k hk
  refine ⟨?_, c1⟩
  rw [← run_refines_spec]
  exact (inv_useAll ids _ hI k c1).trans
    (deriveAt_congr _ _ k (fun j => (useAll_get ids _ j).1) (by rw [(useAll_get ids _ k).2.1]))

/-! ## H3 — cache transparency -/

theorem cache_inv_empty (W : Wild) (table : List Entry) : CacheInv W table emptyCache := by
  intro s hs hf
  have : s = emptySlot := List.eq_of_mem_replicate hs
  subst this
  exact absurd rfl hf

/-- a cached lookup returns exactly what the table scan returns -/
theorem lookupCached_eq_table (W : Wild) (table : List Entry) (c : Cache) (k : Key) (hc : CacheInv W table c) :
    (lookupCached W table c k).1 = lookupTable W table k := by
  unfold lookupCached
  split
  · rename_i i s hfs
    obtain ⟨hm, hk, hf, _⟩ := findSlot_spec c k 0 (i, s) hfs
    rw [← hk]; exact (hc s hm hf).symm
  · split
    · rename_i imp fn h; exact h.symm
    · rename_i h; exact h.symm

/-- ... and leaves a cache in which every slot is again the table's answer for its key -/
theorem lookupCached_inv (W : Wild) (table : List Entry) (c : Cache) (k : Key) (hc : CacheInv W table c) :
    CacheInv W table (lookupCached W table c k).2 := by
  unfold lookupCached
  split
  · rename_i i s hfs
    obtain ⟨hm, hk, hf, _⟩ := findSlot_spec c k 0 (i, s) hfs
    intro x hx hxf
    rcases mem_moveToFront c i ⟨s.imp, k, s.func⟩ x hx with h | h
    · subst h; show lookupTable W table k = _; rw [← hk]; exact hc s hm hf
    · exact hc x h hxf
  · split
    · rename_i imp fn h
      intro x hx hxf
      rcases mem_moveToFront c (Pixman.Gen.ImageFlags.N_CACHED_FAST_PATHS - 1) ⟨imp, k, fn⟩ x hx with h' | h'
      · subst h'; exact h
      · exact hc x h' hxf
    · exact hc

/-- H3: over any sequence of lookups, starting from the empty cache (or any cache satisfying the
invariant), cached dispatch is the table scan: it carries no history -/
theorem runLookups_eq_table (W : Wild) (table : List Entry) : ∀ (ks : List Key) (c : Cache), CacheInv W table c →
    runLookups W table c ks = ks.map (lookupTable W table) := by
  intro ks
  induction ks with
  | nil => intro c _; rfl
  | cons k ks ih =>
    intro c hc
    show (lookupCached W table c k).1 :: runLookups W table (lookupCached W table c k).2 ks = _
    rw [lookupCached_eq_table W table c k hc, ih _ (lookupCached_inv W table c k hc)]
    rfl

/-- the cache keeps its `N_CACHED_FAST_PATHS` slots -/
theorem cache_length (W : Wild) (table : List Entry) (c : Cache) (k : Key)
    (h : c.length = Pixman.Gen.ImageFlags.N_CACHED_FAST_PATHS) (hpos : 0 < Pixman.Gen.ImageFlags.N_CACHED_FAST_PATHS) :
    (lookupCached W table c k).2.length = Pixman.Gen.ImageFlags.N_CACHED_FAST_PATHS := by
  unfold lookupCached
  split
  · rename_i i s hfs
    obtain ⟨_, _, _, _, hlt⟩ := findSlot_spec c k 0 (i, s) hfs
    rw [length_moveToFront _ _ _ (by simpa using hlt)]; exact h
  · split
    · rw [length_moveToFront _ _ _ (by omega)]; exact h
    · exact h

example :
    let W : Wild := ⟨64, 327680⟩
    let table : List Entry := [⟨0, ⟨3, 1, 1, 0, 0, 2, 0⟩, 7⟩, ⟨1, ⟨64, 327680, 0, 327680, 0, 327680, 0⟩, 9⟩]
    let k1 : Key := ⟨3, 1, 3, 0, 0, 2, 0⟩
    let k2 : Key := ⟨3, 1, 2, 0, 0, 2, 0⟩
    runLookups W table emptyCache [k1, k2, k1, k1, k2] = [some (0, 7), some (1, 9), some (0, 7), some (0, 7), some (1, 9)] := by
  decide

end Pixman.Props.C14

import Pixman.Model.FetchFast
import Pixman.Props.C08
import Pixman.Props.C04
import Pixman.Lemmas.FetchFast
/-!
  C08 (specialised paths) — on its guard, every specialised fetcher / whole-operation loop modelled in
  `Model/FetchFast.lean` produces, for every destination pixel, exactly what the reference fetcher
  (`Model/Fetch.lean`) produces.  All statements are for every input; range hypotheses say where the
  `pixman_fixed_t` arithmetic of the C code does not wrap.
-/
set_option linter.unusedSimpArgs false
namespace Pixman.Props.C08Fast
open Pixman.Sample Pixman.Matrix Pixman.Model.Fetch Pixman.Model.FetchFast Pixman.Model.Extent
open Pixman.Lemmas.Fetch Pixman.Lemmas.FetchBits Pixman.Lemmas.FetchBilinear Pixman.Lemmas.FetchConv
open Pixman.Lemmas.FetchFast

/-! ### (d) the affine iterators of pixman-fast-path.c = the reference affine fetcher, unconditionally -/

theorem affineIterLoop_eq (b : Bits) (ux uy : Int) (n : Nat) (x y : Int) :
    affineIterLoop (fetchFiltered b) ux uy n x y = affineLoop b ux uy n x y := by
  induction n generalizing x y with
  | zero => rfl
  | succ m ih => simp only [affineIterLoop, affineLoop, ih]

theorem affineIter_eq (b : Bits) (pix : Int → Int → Nat) (h : ∀ x y, pix x y = fetchFiltered b x y)
    (t : Transform) (offset line : Int) (width : Nat) :
    affineIter pix t offset line width = fetchAffine b (some t) offset line width := by
  have : pix = fetchFiltered b := funext fun x => funext fun y => h x y
  subst this
  unfold affineIter fetchAffine
  simp only
  split <;> simp_all [affineIterLoop_eq]

theorem nearestAffinePixel_eq (b : Bits) (x y : Int) : nearestAffinePixel b x y = fetchNearest b x y := by
  unfold nearestAffinePixel fetchNearest tap getPixel
  simp only
  generalize fixedToInt (wrapS32 (x - 1)) = x0
  generalize fixedToInt (wrapS32 (y - 1)) = y0
  by_cases hr : b.rep = .none
  · by_cases ho : y0 < 0 ∨ y0 ≥ b.height ∨ x0 < 0 ∨ x0 ≥ b.width
    · have ho' : x0 < 0 ∨ x0 ≥ b.width ∨ y0 < 0 ∨ y0 ≥ b.height := by omega
      simp [hr, ho, ho']
    · have ho' : ¬ (x0 < 0 ∨ x0 ≥ b.width ∨ y0 < 0 ∨ y0 ≥ b.height) := by omega
      simp [hr, ho, ho']
  · simp [hr]

/-- `bits_image_fetch_nearest_affine_<repeat>_<format>` = `__bits_image_fetch_affine_no_alpha` with the
    NEAREST filter: same scanline for every transform, offset, width, repeat mode and image (including
    the early return when `pixman_transform_point_3d` fails) -/
theorem nearest_affine_iter_eq (b : Bits) (hf : b.filter = .nearest) (t : Transform) (offset line : Int) (width : Nat) :
    fetchNearestAffine b t offset line width = fetchAffine b (some t) offset line width :=
  affineIter_eq b _ (fun x y => by rw [nearestAffinePixel_eq]; unfold fetchFiltered; rw [hf]) t offset line width

theorem bilinear_zero (dx dy : Nat) (hx : dx < 128) (hy : dy < 128) : bilinearInterpolation 0 0 0 0 dx dy = 0 :=
  bilinearInterpolation_const 0 dx dy (by omega) hx hy

theorem bilinearAffinePixel_eq (b : Bits) (x y : Int) : bilinearAffinePixel b x y = fetchBilinear b x y := by
  unfold bilinearAffinePixel fetchBilinear tap getPixel
  simp only
  have wx : 0 ≤ bilinearWeight (wrapS32 (x - 32768)) ∧ bilinearWeight (wrapS32 (x - 32768)) < 128 := by
    unfold bilinearWeight; omega
  have wy : 0 ≤ bilinearWeight (wrapS32 (y - 32768)) ∧ bilinearWeight (wrapS32 (y - 32768)) < 128 := by
    unfold bilinearWeight; omega
  have hdx : (bilinearWeight (wrapS32 (x - 32768))).toNat < 128 := by omega
  have hdy : (bilinearWeight (wrapS32 (y - 32768))).toNat < 128 := by omega
  generalize (bilinearWeight (wrapS32 (x - 32768))).toNat = dx at *
  generalize (bilinearWeight (wrapS32 (y - 32768))).toNat = dy at *
  generalize fixedToInt (wrapS32 (x - 32768)) = x1
  generalize fixedToInt (wrapS32 (y - 32768)) = y1
  by_cases hr : b.rep = .none
  · simp only [hr, ne_eq, not_true_eq_false, ↓reduceIte, true_and]
    by_cases hout : x1 ≥ b.width ∨ x1 + 1 < 0 ∨ y1 ≥ b.height ∨ y1 + 1 < 0
    · -- entirely outside: all four taps are transparent
      have t1 : (x1 < 0 ∨ x1 ≥ b.width ∨ y1 < 0 ∨ y1 ≥ b.height) := by omega
      have t2 : (x1 + 1 < 0 ∨ x1 + 1 ≥ b.width ∨ y1 < 0 ∨ y1 ≥ b.height) := by omega
      have t3 : (x1 < 0 ∨ x1 ≥ b.width ∨ y1 + 1 < 0 ∨ y1 + 1 ≥ b.height) := by omega
      have t4 : (x1 + 1 < 0 ∨ x1 + 1 ≥ b.width ∨ y1 + 1 < 0 ∨ y1 + 1 ≥ b.height) := by omega
      simp only [hout, t1, t2, t3, t4, ↓reduceIte]
      exact (bilinear_zero dx dy hdx hdy).symm
    · simp only [hout, ↓reduceIte]
      congr 1
      · -- tl
        by_cases h1 : x1 + 1 = 0 <;> by_cases h2 : y1 + 1 = 0
        all_goals (
          first
          | (have c : (x1 < 0 ∨ x1 ≥ b.width ∨ y1 < 0 ∨ y1 ≥ b.height) := by omega
             simp [h1, h2, c, rowPixel])
          | (have c : ¬ (x1 < 0 ∨ x1 ≥ b.width ∨ y1 < 0 ∨ y1 ≥ b.height) := by omega
             simp [h1, h2, c, rowPixel]))
      · -- tr
        by_cases h1 : x1 = b.width - 1 <;> by_cases h2 : y1 + 1 = 0
        all_goals (
          first
          | (have c : (x1 + 1 < 0 ∨ x1 + 1 ≥ b.width ∨ y1 < 0 ∨ y1 ≥ b.height) := by omega
             simp [h1, h2, c, rowPixel])
          | (have c : ¬ (x1 + 1 < 0 ∨ x1 + 1 ≥ b.width ∨ y1 < 0 ∨ y1 ≥ b.height) := by omega
             simp [h1, h2, c, rowPixel]))
      · -- bl
        by_cases h1 : x1 + 1 = 0 <;> by_cases h2 : y1 = b.height - 1
        all_goals (
          first
          | (have c : (x1 < 0 ∨ x1 ≥ b.width ∨ y1 + 1 < 0 ∨ y1 + 1 ≥ b.height) := by omega
             simp [h1, h2, c, rowPixel])
          | (have c : ¬ (x1 < 0 ∨ x1 ≥ b.width ∨ y1 + 1 < 0 ∨ y1 + 1 ≥ b.height) := by omega
             simp [h1, h2, c, rowPixel]))
      · -- br
        by_cases h1 : x1 = b.width - 1 <;> by_cases h2 : y1 = b.height - 1
        all_goals (
          first
          | (have c : (x1 + 1 < 0 ∨ x1 + 1 ≥ b.width ∨ y1 + 1 < 0 ∨ y1 + 1 ≥ b.height) := by omega
             simp [h1, h2, c, rowPixel])
          | (have c : ¬ (x1 + 1 < 0 ∨ x1 + 1 ≥ b.width ∨ y1 + 1 < 0 ∨ y1 + 1 ≥ b.height) := by omega
             simp [h1, h2, c, rowPixel]))
  · simp [hr]

/-- `bits_image_fetch_bilinear_affine_<repeat>_<format>` = the reference fetcher with the BILINEAR filter,
    including the NONE variant's edge handling (`zero` row, `x2 == 0`, `x1 == width - 1`) -/
theorem bilinear_affine_iter_eq (b : Bits) (hf : b.filter = .bilinear) (t : Transform) (offset line : Int) (width : Nat) :
    fetchBilinearAffine b t offset line width = fetchAffine b (some t) offset line width :=
  affineIter_eq b _ (fun x y => by rw [bilinearAffinePixel_eq]; unfold fetchFiltered; rw [hf]) t offset line width

theorem wrapU32_wrapS32 (z : Int) : wrapU32 (wrapS32 z) = wrapU32 z := by
  unfold wrapU32 wrapS32; omega

theorem wrapS32_wrapU32_add (a c : Int) : wrapS32 (wrapU32 a + c) = wrapS32 (a + c) := by
  unfold wrapU32 wrapS32; omega

theorem accumS_rel (s : Acc) (p : Nat) (f : Int) : wrapAcc (accumS s p f) = accum32 (wrapAcc s) p f := by
  unfold accumS accum32 wrapAcc
  simp only [wrapU32_wrapS32, wrapU32_add]

theorem reduceS_rel (s : Acc) : reduceS s = reduce32 (wrapAcc s) := by
  unfold reduceS reduce32 reduceChanS reduceChan wrapAcc
  simp only [wrapS32_wrapU32_add]

theorem sepTap_eq (b : Bits) (rx ry : Int) : sepTap b rx ry = tap b rx ry := by
  unfold sepTap tap getPixel
  by_cases hr : b.rep = .none
  · by_cases ho : rx < 0 ∨ ry < 0 ∨ rx ≥ b.width ∨ ry ≥ b.height
    · have ho' : rx < 0 ∨ rx ≥ b.width ∨ ry < 0 ∨ ry ≥ b.height := by omega
      simp [hr, ho, ho']
    · have ho' : ¬ (rx < 0 ∨ rx ≥ b.width ∨ ry < 0 ∨ ry ≥ b.height) := by omega
      simp [hr, ho, ho']
  · simp [hr]

theorem sepWeight_comm (a c : Int) : sepWeight a c = sepWeight c a := by
  unfold sepWeight; rw [Int.mul_comm]

theorem separableAffinePixel_eq (b : Bits) (x y : Int) : separableAffinePixel b x y = fetchSeparable b x y := by
  unfold separableAffinePixel fetchSeparable
  simp only
  rw [reduceS_rel]
  congr 1
  refine foldl_rel (fun (s u : Acc) => wrapAcc s = u) _ _ _ ?_ _ _ (by unfold wrapAcc wrapU32; simp)
  intro s u i hR
  split
  · refine foldl_rel (fun (s u : Acc) => wrapAcc s = u) _ _ _ ?_ s u hR
    intro s u j hR
    split
    · rw [accumS_rel, hR, sepTap_eq, sepWeight_comm]
      rfl
    · exact hR
  · exact hR

/-- `bits_image_fetch_separable_convolution_affine_<repeat>_<format>` = the reference fetcher with the
    SEPARABLE_CONVOLUTION filter: same phase rounding, window, products, and — the `int` accumulators
    wrapping like the reference's `unsigned` ones — the same rounding and clamping -/
theorem separable_affine_iter_eq (b : Bits) (hf : b.filter = .separable) (t : Transform) (offset line : Int) (width : Nat) :
    fetchSeparableAffine b t offset line width = fetchAffine b (some t) offset line width :=
  affineIter_eq b _ (fun x y => by rw [separableAffinePixel_eq]; unfold fetchFiltered; rw [hf]) t offset line width

/-! ### (a) FAST_NEAREST_MAINLOOP: rows -/

theorem map_range_eq_replicate {α : Type} (n : Nat) (g : Nat → α) (v : α) (h : ∀ k, k < n → g k = v) :
    (List.range n).map g = List.replicate n v := by
  apply List.ext_getElem
  · simp
  · intro i h1 h2
    simp only [List.getElem_map, List.getElem_range, List.getElem_replicate]
    exact h i (by simpa using h1)

theorem three_segments {α : Type} (l w r : Nat) (g : Nat → α) :
    (List.range l).map g ++ (List.range w).map (fun k => g (l + k)) ++ (List.range r).map (fun k => g (l + w + k)) =
      (List.range (l + w + r)).map g := by
  rw [List.range_add, List.range_add, List.map_append, List.map_append, List.map_map, List.map_map]
  rfl

theorem intToFixed_width (W : Int) (hW : 0 < W ∧ W ≤ 32767) : intToFixed W = W * 65536 := by
  unfold intToFixed; exact wrapS32_of_range _ (by omega)

/-- one NONE row = the reference taps of its pixels (transparent pads, transparent rows) -/
theorem nearestRow_none (b : Bits) (hr : b.rep = .none) (hW : 0 < b.width ∧ b.width ≤ 32767)
    (y c0 ux : Int) (l w r : Nat)
    (hl : ∀ k : Nat, k < l → c0 + k * ux < 0)
    (hm : ∀ k : Nat, k < w → 0 ≤ c0 + (l + k : Nat) * ux ∧ c0 + (l + k : Nat) * ux < b.width * 65536)
    (hrt : ∀ k : Nat, k < r → b.width * 65536 ≤ c0 + (l + w + k : Nat) * ux) :
    nearestRow .none b y (c0 + l * ux) ux l w r =
      (List.range (l + w + r)).map fun (k : Nat) => tap b (fixedToInt (c0 + k * ux)) y := by
  unfold nearestRow
  simp only
  by_cases hy : y < 0 ∨ y ≥ b.height
  · simp only [hy, ↓reduceIte]
    rw [scanline_const, List.map_replicate]
    symm
    apply map_range_eq_replicate
    intro k _
    rw [tap_none b hr]
    have : ¬ (0 ≤ fixedToInt (c0 + ↑k * ux) ∧ fixedToInt (c0 + ↑k * ux) < b.width ∧ 0 ≤ y ∧ y < b.height) := by omega
    simp only [this, ↓reduceIte]
  · simp only [hy, ↓reduceIte]
    rw [← three_segments]
    congr 1
    · congr 1
      · rw [scanline_const, List.map_replicate]
        symm
        apply map_range_eq_replicate
        intro k hk
        rw [tap_none b hr]
        have := hl k hk
        have : ¬ (0 ≤ fixedToInt (c0 + ↑k * ux) ∧ fixedToInt (c0 + ↑k * ux) < b.width ∧ 0 ≤ y ∧ y < b.height) := by
          unfold fixedToInt; omega
        simp only [this, ↓reduceIte]
      · rw [middle_plain b hW y (c0 + l * ux) ux w (fun k hk => by
          have := hm k hk
          rw [Int.natCast_add, Int.add_mul] at this
          omega)]
        apply List.map_congr_left
        intro k hk
        have hk' : k < w := by simpa using hk
        have hmk := hm k hk'
        rw [tap_none b hr]
        have e : c0 + ↑l * ux + ↑k * ux = c0 + ((l + k : Nat) : Int) * ux := by
          rw [Int.natCast_add, Int.add_mul]; omega
        rw [e]
        have : (0 ≤ fixedToInt (c0 + ((l + k : Nat) : Int) * ux) ∧ fixedToInt (c0 + ((l + k : Nat) : Int) * ux) < b.width ∧ 0 ≤ y ∧ y < b.height) := by
          unfold fixedToInt; omega
        simp only [this, and_self, ↓reduceIte]
    · rw [scanline_const, List.map_replicate]
      symm
      apply map_range_eq_replicate
      intro k hk
      rw [tap_none b hr]
      have := hrt k hk
      have : ¬ (0 ≤ fixedToInt (c0 + ((l + w + k : Nat) : Int) * ux) ∧ fixedToInt (c0 + ((l + w + k : Nat) : Int) * ux) < b.width ∧ 0 ≤ y ∧ y < b.height) := by
        unfold fixedToInt; omega
      simp only [this, ↓reduceIte]

/-- one PAD row = the reference taps of its pixels (edge pixels replicated on both sides, row clamped) -/
theorem nearestRow_pad (b : Bits) (hr : b.rep = .pad) (hW : 0 < b.width ∧ b.width ≤ 32767)
    (y c0 ux : Int) (l w r : Nat)
    (hl : ∀ k : Nat, k < l → c0 + k * ux < 0)
    (hm : ∀ k : Nat, k < w → 0 ≤ c0 + (l + k : Nat) * ux ∧ c0 + (l + k : Nat) * ux < b.width * 65536)
    (hrt : ∀ k : Nat, k < r → b.width * 65536 ≤ c0 + (l + w + k : Nat) * ux) :
    nearestRow .pad b y (c0 + l * ux) ux l w r =
      (List.range (l + w + r)).map fun (k : Nat) => tap b (fixedToInt (c0 + k * ux)) y := by
  unfold nearestRow
  simp only
  have hy : repeatCoord .pad y b.height = CLIP y 0 (b.height - 1) := by
    unfold repeatCoord «repeat»; rfl
  rw [hy, ← three_segments]
  congr 1
  · congr 1
    · rw [scanline_const, List.map_replicate]
      symm
      apply map_range_eq_replicate
      intro k hk
      rw [tap_pad b hr]
      have := hl k hk
      have e : CLIP (fixedToInt (c0 + ↑k * ux)) 0 (b.width - 1) = 0 := by
        unfold CLIP fixedToInt; split <;> omega
      rw [e]
      congr 1; omega
    · rw [middle_plain b hW _ (c0 + l * ux) ux w (fun k hk => by
        have := hm k hk
        rw [Int.natCast_add, Int.add_mul] at this
        omega)]
      apply List.map_congr_left
      intro k hk
      have hk' : k < w := by simpa using hk
      have hmk := hm k hk'
      rw [tap_pad b hr]
      have e : c0 + ↑l * ux + ↑k * ux = c0 + ((l + k : Nat) : Int) * ux := by
        rw [Int.natCast_add, Int.add_mul]; omega
      rw [e]
      have e2 : CLIP (fixedToInt (c0 + ((l + k : Nat) : Int) * ux)) 0 (b.width - 1) = fixedToInt (c0 + ((l + k : Nat) : Int) * ux) := by
        unfold CLIP fixedToInt; split <;> (try split) <;> omega
      rw [e2]
  · rw [scanline_const, List.map_replicate]
    symm
    apply map_range_eq_replicate
    intro k hk
    rw [tap_pad b hr]
    have := hrt k hk
    have e : CLIP (fixedToInt (c0 + ((l + w + k : Nat) : Int) * ux)) 0 (b.width - 1) = b.width - 1 := by
      unfold CLIP fixedToInt; split <;> (try split) <;> omega
    rw [e]
    congr 1

/-- one COVER row: every sample inside the image, so any repeat mode reads the pixel itself -/
theorem nearestRow_cover (b : Bits) (hW : 0 < b.width ∧ b.width ≤ 32767)
    (y c0 ux : Int) (w : Nat) (hy : 0 ≤ y ∧ y < b.height)
    (hm : ∀ k : Nat, k < w → 0 ≤ c0 + k * ux ∧ c0 + k * ux < b.width * 65536) :
    nearestRow .cover b y c0 ux 0 w 0 =
      (List.range w).map fun (k : Nat) => tap b (fixedToInt (c0 + k * ux)) y := by
  unfold nearestRow
  simp only
  rw [middle_plain b hW y c0 ux w hm]
  apply List.map_congr_left
  intro k hk
  have hmk := hm k (by simpa using hk)
  rw [tap_inside b _ _ (by unfold fixedToInt; omega) hy]

theorem fixedToInt_emod (c d W : Int) (hW : 0 < W) :
    fixedToInt (c % (W * 65536) + d) % W = fixedToInt (c + d) % W := by
  unfold fixedToInt
  rw [← Pixman.Lemmas.FetchProj.emod_mul_ediv _ _ hW, ← Pixman.Lemmas.FetchProj.emod_mul_ediv _ _ hW,
      Int.emod_add_emod]

/-- one NORMAL row (`vx` reduced modulo the width, `y` already inside) -/
theorem nearestRow_normal (b : Bits) (hr : b.rep = .normal) (hW : 0 < b.width ∧ b.width ≤ 32767)
    (hH : 0 < b.height) (y c0 ux : Int) (w : Nat) (hux : 0 < ux ∧ ux ≤ 2147483647) :
    nearestRow .normal b (y % b.height) (c0 % (b.width * 65536)) ux 0 w 0 =
      (List.range w).map fun (k : Nat) => tap b (fixedToInt (c0 + k * ux)) y := by
  unfold nearestRow
  simp only
  have h1 := Int.emod_nonneg c0 (by omega : b.width * 65536 ≠ 0)
  have h2 := Int.emod_lt_of_pos c0 (by omega : 0 < b.width * 65536)
  rw [middle_normal b hW _ _ ux w hux ⟨h1, h2⟩]
  apply List.map_congr_left
  intro k _
  rw [tap_normal b hr hW.1 hH, fixedToInt_emod _ _ _ hW.1]

/-! ### (a) FAST_NEAREST_MAINLOOP: the row loop -/

theorem nearestRows_plain (var : NearestVariant) (hv : var ≠ .normal) (b : Bits) (vx ux uy : Int) (l w r n : Nat) (vy : Int)
    (h : ∀ k : Nat, k < n → isI32 (vy + k * uy)) :
    nearestRows var b vx ux uy l w r n vy =
      (List.range n).map fun (j : Nat) => nearestRow var b (fixedToInt (vy + j * uy)) vx ux l w r := by
  induction n generalizing vy with
  | zero => rfl
  | succ m ih =>
    rw [nearestRows, List.range_succ_eq_map, List.map_cons, List.map_map]
    simp only [hv, ↓reduceIte, Int.natCast_zero, Int.zero_mul, Int.add_zero]
    congr 1
    cases m with
    | zero => rfl
    | succ m' =>
      have h1 := h 1 (by omega)
      simp only [Int.natCast_one, Int.one_mul] at h1
      rw [wrapS32_of_range _ h1, ih (vy + uy) (fun k hk => by
        have := h (k + 1) (by omega)
        rw [Int.natCast_add, Int.add_mul] at this
        simp only [Int.natCast_one, Int.one_mul] at this
        have e : vy + uy + (k : Int) * uy = vy + ((k : Int) * uy + uy) := by omega
        rw [e]; exact this)]
      apply List.map_congr_left
      intro i _
      simp only [Function.comp, Nat.succ_eq_add_one, Int.natCast_add, Int.natCast_one, Int.add_mul, Int.one_mul]
      congr 2; omega

theorem nearestRows_normal (b : Bits) (hH : 0 < b.height ∧ b.height ≤ 32767) (vx ux uy : Int) (w n : Nat) (vy0 : Int)
    (huy : -2147483648 ≤ uy ∧ uy + b.height * 65536 ≤ 2147483647) :
    nearestRows .normal b vx ux uy 0 w 0 n (vy0 % (b.height * 65536)) =
      (List.range n).map fun (j : Nat) =>
        nearestRow .normal b (fixedToInt ((vy0 + j * uy) % (b.height * 65536))) vx ux 0 w 0 := by
  induction n generalizing vy0 with
  | zero => rfl
  | succ m ih =>
    rw [nearestRows, List.range_succ_eq_map, List.map_cons, List.map_map]
    simp only [↓reduceIte, Int.natCast_zero, Int.zero_mul, Int.add_zero]
    congr 1
    have h1 := Int.emod_nonneg vy0 (by omega : b.height * 65536 ≠ 0)
    have h2 := Int.emod_lt_of_pos vy0 (by omega : 0 < b.height * 65536)
    rw [wrapS32_of_range _ (by omega), intToFixed_width _ hH]
    have e : repeatCoord .normal (vy0 % (b.height * 65536) + uy) (b.height * 65536) = (vy0 + uy) % (b.height * 65536) := by
      unfold repeatCoord
      rw [Pixman.Props.C04Core.repeat_normal_spec _ _ (by omega)]
      simp only [Option.getD_some, Pixman.Spec.Repeat.normal]
      exact Int.emod_add_emod _ _ _
    rw [e, ih (vy0 + uy)]
    apply List.map_congr_left
    intro i _
    simp only [Function.comp, Nat.succ_eq_add_one, Int.natCast_add, Int.natCast_one, Int.add_mul, Int.one_mul]
    congr 3; omega

/-! ### (a) FAST_NEAREST_MAINLOOP = the reference NEAREST fetch of every destination pixel -/

/-- what the reference produces for the rectangle: pixel `(i, j)` is `bits_image_fetch_pixel_nearest` at
    `(p.x + i·m00, p.y + j·m11)`, `p` the transformed centre of the first pixel (for a scale transform
    these are the coordinates `__bits_image_fetch_affine_no_alpha` visits, see `scale_reference_rows`) -/
def refNearestRows (b : Bits) (p : Vec) (ux uy : Int) (w h : Nat) : List (List Nat) :=
  (List.range h).map fun (j : Nat) => (List.range w).map fun (i : Nat) => fetchNearest b (p.x + i * ux) (p.y + j * uy)

theorem fetchNearest_tap (b : Bits) (X Y : Int) (hx : isI32 (X - 1)) (hy : isI32 (Y - 1)) :
    fetchNearest b X Y = tap b (fixedToInt (X - 1)) (fixedToInt (Y - 1)) := by
  unfold fetchNearest
  simp only
  rw [wrapS32_of_range _ hx, wrapS32_of_range _ hy]

/-- `fast_composite_scaled_nearest_*_cover_SRC`.  Guard: every sample index inside the image
    (FAST_PATH_SAMPLES_COVER_CLIP_NEAREST); then for any repeat mode every destination pixel is the
    reference NEAREST fetch. -/
theorem fast_nearest_cover_eq (b : Bits) (t : Transform) (sx sy : Int) (w h : Nat) (p : Vec)
    (h0 : transformPoint3d t (pixelCentre sx sy) = some (true, p))
    (hW : 0 < b.width ∧ b.width ≤ 32767) (hH : 0 < b.height ∧ b.height ≤ 32767)
    (hp : isI32 (p.x - 1) ∧ isI32 (p.y - 1))
    (hcx : ∀ i : Nat, i < w → 0 ≤ p.x - 1 + i * t.m00 ∧ p.x - 1 + i * t.m00 < b.width * 65536)
    (hcy : ∀ j : Nat, j < h → 0 ≤ p.y - 1 + j * t.m11 ∧ p.y - 1 + j * t.m11 < b.height * 65536) :
    fastNearest .cover b t sx sy w h = some (refNearestRows b p t.m00 t.m11 w h) := by
  unfold fastNearest refNearestRows
  simp only [h0, reduceCtorEq, ↓reduceIte, or_self]
  rw [wrapS32_of_range _ hp.1, wrapS32_of_range _ hp.2,
      nearestRows_plain .cover (by decide) b _ _ _ 0 w 0 h _ (fun k hk => by
        have := hcy k hk; unfold isI32; omega)]
  congr 1
  apply List.map_congr_left
  intro j hj
  have hj' : j < h := by simpa using hj
  have hyj := hcy j hj'
  rw [nearestRow_cover b hW _ _ _ w (by unfold fixedToInt; omega) hcx]
  apply List.map_congr_left
  intro i hi
  have hi' : i < w := by simpa using hi
  have hxi := hcx i hi'
  rw [fetchNearest_tap b _ _ (by unfold isI32; omega) (by unfold isI32; omega)]
  congr 2 <;> omega

/-- the split of `pad_repeat_get_scanline_bounds` as natural numbers with everything the row theorems need -/
theorem pad_split (W c0 ux : Int) (w : Nat) (hux : 0 < ux) (hw : (w : Int) ≤ 2147483647) :
    ∃ l m r : Nat, padRepeatGetScanlineBounds W c0 ux w = ((m : Int), (l : Int), (r : Int)) ∧ l + m + r = w ∧
      (∀ k : Nat, k < l → c0 + k * ux < 0) ∧
      (∀ k : Nat, k < m → 0 ≤ c0 + (l + k : Nat) * ux ∧ c0 + (l + k : Nat) * ux < W * 65536) ∧
      (∀ k : Nat, k < r → W * 65536 ≤ c0 + (l + m + k : Nat) * ux) := by
  have pb := Pixman.Props.C04.pad_bounds W c0 ux w hux ⟨by omega, hw⟩
  have po := pad_outside W c0 ux w hux ⟨by omega, hw⟩
  simp only at pb po
  generalize padRepeatGetScanlineBounds W c0 ux w = res at *
  obtain ⟨m, l, r⟩ := res
  simp only at pb po
  obtain ⟨p1, p2, p3, p4, p5, _⟩ := pb
  obtain ⟨o1, o2⟩ := po
  refine ⟨l.toNat, m.toNat, r.toNat, ?_, ?_, ?_, ?_, ?_⟩
  · rw [Int.toNat_of_nonneg p1, Int.toNat_of_nonneg p2, Int.toNat_of_nonneg p3]
  · omega
  · intro k hk
    exact o1 k (by omega) (by omega)
  · intro k hk
    have := p5 k (by omega) (by omega)
    rw [Int.natCast_add, Int.toNat_of_nonneg p2]
    exact this
  · intro k hk
    have := o2 (l + m + k) (by omega) (by omega)
    rw [Int.natCast_add, Int.natCast_add, Int.toNat_of_nonneg p2, Int.toNat_of_nonneg p1]
    exact this

/-- `fast_composite_scaled_nearest_*_none_SRC` and `*_pad_SRC`.  Guard: `unit_x > 0`
    (FAST_PATH_X_UNIT_POSITIVE), the image's repeat is the variant's, no `int32_t` wrap of the reference walk.
    Left pad, middle and right pad of `pad_repeat_get_scanline_bounds` together give, for every destination
    pixel, the reference NEAREST fetch (transparent resp. edge pixel outside). -/
theorem fast_nearest_none_pad_eq (var : NearestVariant) (b : Bits) (t : Transform) (sx sy : Int) (w h : Nat) (p : Vec)
    (hvar : (var = .none ∧ b.rep = .none) ∨ (var = .pad ∧ b.rep = .pad))
    (h0 : transformPoint3d t (pixelCentre sx sy) = some (true, p))
    (hW : 0 < b.width ∧ b.width ≤ 32767) (hux : 0 < t.m00) (hw : (w : Int) ≤ 2147483647)
    (hwx : ∀ k : Nat, k ≤ w → isI32 (p.x - 1 + k * t.m00))
    (hwy : ∀ j : Nat, j ≤ h → isI32 (p.y - 1 + j * t.m11)) :
    fastNearest var b t sx sy w h = some (refNearestRows b p t.m00 t.m11 w h) := by
  have hx0 := hwx 0 (by omega)
  have hy0 := hwy 0 (by omega)
  simp only [Int.natCast_zero, Int.zero_mul, Int.add_zero] at hx0 hy0
  obtain ⟨l, m, r, hsplit, hsum, hl, hm, hr⟩ := pad_split b.width (p.x - 1) t.m00 w hux hw
  have hvn : var ≠ .normal := by rcases hvar with h | h <;> (rw [h.1]; decide)
  have hvpn : var = .pad ∨ var = .none := by rcases hvar with h | h <;> simp [h.1]
  unfold fastNearest refNearestRows
  simp only [h0, hvn, hvpn, ↓reduceIte]
  rw [wrapS32_of_range _ hx0, wrapS32_of_range _ hy0, hsplit]
  simp only [Int.toNat_natCast]
  rw [wrapS32_of_range _ (hwx l (by omega)),
      nearestRows_plain var hvn b _ _ _ l m r h _ (fun k hk => hwy k (by omega))]
  congr 1
  apply List.map_congr_left
  intro j hj
  have hj' : j < h := by simpa using hj
  have rowEq : nearestRow var b (fixedToInt (p.y - 1 + ↑j * t.m11)) (p.x - 1 + ↑l * t.m00) t.m00 l m r =
      (List.range (l + m + r)).map fun (k : Nat) => tap b (fixedToInt (p.x - 1 + k * t.m00)) (fixedToInt (p.y - 1 + ↑j * t.m11)) := by
    rcases hvar with hv | hv
    · rw [hv.1]; exact nearestRow_none b hv.2 hW _ _ _ l m r hl hm hr
    · rw [hv.1]; exact nearestRow_pad b hv.2 hW _ _ _ l m r hl hm hr
  rw [rowEq, hsum]
  apply List.map_congr_left
  intro i hi
  have hi' : i < w := by simpa using hi
  have e1 : p.x + ↑i * t.m00 - 1 = p.x - 1 + ↑i * t.m00 := by omega
  have e2 : p.y + ↑j * t.m11 - 1 = p.y - 1 + ↑j * t.m11 := by omega
  rw [fetchNearest_tap b _ _ (by rw [e1]; exact hwx i (by omega)) (by rw [e2]; exact hwy j (by omega)), e1, e2]

theorem repeatCoord_normal (c size : Int) (hs : 0 < size) : repeatCoord .normal c size = c % size := by
  unfold repeatCoord
  rw [Pixman.Props.C04Core.repeat_normal_spec _ _ hs]
  rfl

/-- `fast_composite_scaled_nearest_*_normal_SRC`.  Guard: `unit_x > 0`, NORMAL repeat, `unit_y` small
    enough that `vy + unit_y` cannot leave `int32_t` from inside `[0, height·65536)`, no wrap of the reference
    walk.  Keeping `vx`/`vy` reduced modulo the image size (`repeat (NORMAL, …)`, `while (vx >= 0) vx -=
    src_width_fixed`) yields for every destination pixel the reference NEAREST fetch. -/
theorem fast_nearest_normal_eq (b : Bits) (t : Transform) (sx sy : Int) (w h : Nat) (p : Vec)
    (hr : b.rep = .normal)
    (h0 : transformPoint3d t (pixelCentre sx sy) = some (true, p))
    (hW : 0 < b.width ∧ b.width ≤ 32767) (hH : 0 < b.height ∧ b.height ≤ 32767)
    (hux : 0 < t.m00 ∧ t.m00 ≤ 2147483647)
    (huy : -2147483648 ≤ t.m11 ∧ t.m11 + b.height * 65536 ≤ 2147483647)
    (hwx : ∀ k : Nat, k ≤ w → isI32 (p.x - 1 + k * t.m00))
    (hwy : ∀ j : Nat, j ≤ h → isI32 (p.y - 1 + j * t.m11)) :
    fastNearest .normal b t sx sy w h = some (refNearestRows b p t.m00 t.m11 w h) := by
  have hx0 := hwx 0 (by omega)
  have hy0 := hwy 0 (by omega)
  simp only [Int.natCast_zero, Int.zero_mul, Int.add_zero] at hx0 hy0
  unfold fastNearest refNearestRows
  simp only [h0, reduceCtorEq, ↓reduceIte, or_self]
  rw [wrapS32_of_range _ hx0, wrapS32_of_range _ hy0, intToFixed_width _ hW, intToFixed_width _ hH,
      repeatCoord_normal _ _ (by omega), repeatCoord_normal _ _ (by omega),
      nearestRows_normal b hH _ _ _ w h _ huy]
  congr 1
  apply List.map_congr_left
  intro j hj
  have hj' : j < h := by simpa using hj
  have ey : fixedToInt ((p.y - 1 + ↑j * t.m11) % (b.height * 65536)) = fixedToInt (p.y - 1 + ↑j * t.m11) % b.height := by
    unfold fixedToInt
    exact Pixman.Lemmas.FetchProj.emod_mul_ediv _ _ hH.1
  rw [ey, nearestRow_normal b hr hW hH.1 _ _ _ w hux]
  apply List.map_congr_left
  intro i hi
  have hi' : i < w := by simpa using hi
  have e1 : p.x + ↑i * t.m00 - 1 = p.x - 1 + ↑i * t.m00 := by omega
  have e2 : p.y + ↑j * t.m11 - 1 = p.y - 1 + ↑j * t.m11 := by omega
  rw [fetchNearest_tap b _ _ (by rw [e1]; exact hwx i (by omega)) (by rw [e2]; exact hwy j (by omega)), e1, e2]

/-- what `pixman_transform_point_3d` returns for a pixel centre, when it succeeds -/
theorem point3d_centre (t : Transform) (x y : Int) (p : Vec)
    (hx : -32768 ≤ x ∧ x ≤ 32767) (hy : -32768 ≤ y ∧ y ≤ 32767)
    (h0 : transformPoint3d t (pixelCentre x y) = some (true, p)) :
    p.x = Spec.Fixed.roundHalfUp (Spec.Fixed.dot t.m00 t.m01 t.m02 (x * 65536 + 32768) (y * 65536 + 32768) 65536) 65536 ∧
    p.y = Spec.Fixed.roundHalfUp (Spec.Fixed.dot t.m10 t.m11 t.m12 (x * 65536 + 32768) (y * 65536 + 32768) 65536) 65536 ∧
    isI32 p.x ∧ isI32 p.y := by
  rw [Pixman.Props.C04Core.pixelCentre_exact x y hx hy] at h0
  have hv : Vec.isI32 ⟨x * 65536 + 32768, y * 65536 + 32768, 65536⟩ := by unfold Vec.isI32 isI32; simp only; omega
  obtain ⟨bb, out, e, hiff, ho⟩ := Pixman.Props.C11.transformPoint3d_spec t _ hv
  rw [e] at h0
  injection h0 with h0; injection h0 with hb hp
  subst hb; subst hp
  have r := hiff.mp rfl
  rw [ho rfl]
  unfold Spec.Fixed.Rep32 at r
  exact ⟨rfl, rfl, r.1, r.2.1⟩

theorem stepped_zero (y : Int) (hy : isI32 y) (i : Nat) : stepped y 0 i = y := by
  rw [Pixman.Props.C04Core.stepped_linear y 0 i (fun k _ => by rw [Int.mul_zero, Int.add_zero]; exact hy)]
  omega

/-- for a scale transform (`m01 = m10 = 0`) the reference `__bits_image_fetch_affine_no_alpha` visits, in
    row `j`, exactly the coordinates `(p.x + i·m00, p.y + j·m11)` the main loops use (`p` = transformed
    centre of the FIRST pixel of the rectangle): the rows of `refNearestRows` ARE the reference scanlines
    (16-bit composite coordinates, no wrap of the x walk) -/
theorem scale_reference_rows (b : Bits) (hf : b.filter = .nearest) (t : Transform) (sx sy : Int) (w : Nat) (j : Nat) (p pj : Vec)
    (hs : t.m01 = 0 ∧ t.m10 = 0)
    (hx : -32768 ≤ sx ∧ sx ≤ 32767) (hy : -32768 ≤ sy ∧ sy + j ≤ 32767)
    (h0 : transformPoint3d t (pixelCentre sx sy) = some (true, p))
    (hj : transformPoint3d t (pixelCentre sx (sy + j)) = some (true, pj))
    (hwx : ∀ k : Nat, k ≤ w → isI32 (p.x + k * t.m00)) :
    fetchAffine b (some t) sx (sy + j) w =
      some ((List.range w).map fun (i : Nat) => fetchNearest b (p.x + i * t.m00) (p.y + j * t.m11)) := by
  obtain ⟨px, py, _, _⟩ := point3d_centre t sx sy p hx (by omega) h0
  obtain ⟨qx, qy, _, qyr⟩ := point3d_centre t sx (sy + j) pj hx (by omega) hj
  have lx := Pixman.Props.C04Core.affine_linearity t.m00 t.m01 t.m02 sx sy 0 j
  have ly := Pixman.Props.C04Core.affine_linearity t.m10 t.m11 t.m12 sx sy 0 j
  simp only [Int.add_zero, Int.zero_mul] at lx ly
  rw [← qx, ← px, hs.1, Int.mul_zero, Int.add_zero] at lx
  rw [← qy, ← py] at ly
  unfold fetchAffine
  simp only [hj]
  rw [affineLoop_eq]
  congr 1
  apply List.map_congr_left
  intro i hi
  have hi' : i ≤ w := by have := List.mem_range.mp hi; omega
  unfold fetchFiltered
  rw [hf, hs.2, stepped_zero pj.y qyr, lx,
      Pixman.Props.C04Core.stepped_linear p.x t.m00 i (fun k hk => hwx k (by omega)), ly]

/-! ### (b) fast_composite_rotate_90 / _270 -/

/-- exact source position (16.16) of destination pixel `(i, j)` under the quarter turn `[0 -1 m02; 1 0 m12]`:
    all products are whole multiples of 1/65536, nothing is rounded -/
def rot90X (t : Transform) (sy : Int) (j : Nat) : Int := t.m02 - ((sy + j) * 65536 + 32768)
def rot90Y (t : Transform) (sx : Int) (i : Nat) : Int := (sx + i) * 65536 + 32768 + t.m12
/-- … and under `[0 1 m02; -1 0 m12]` -/
def rot270X (t : Transform) (sy : Int) (j : Nat) : Int := (sy + j) * 65536 + 32768 + t.m02
def rot270Y (t : Transform) (sx : Int) (i : Nat) : Int := t.m12 - ((sx + i) * 65536 + 32768)

/-- the reference fetcher's coordinates for row `j` of a 90° source: `x` constant, `y` stepping by one pixel -/
theorem rotate90_reference_row (b : Bits) (hf : b.filter = .nearest) (t : Transform) (sx sy : Int) (w j : Nat) (pj : Vec)
    (hm : t.m00 = 0 ∧ t.m01 = -65536 ∧ t.m10 = 65536 ∧ t.m11 = 0)
    (hx : -32768 ≤ sx ∧ sx + w ≤ 32767) (hy : -32768 ≤ sy + j ∧ sy + j ≤ 32767)
    (hj : transformPoint3d t (pixelCentre sx (sy + j)) = some (true, pj))
    (hwy : ∀ k : Nat, k ≤ w → isI32 (rot90Y t sx k)) :
    fetchAffine b (some t) sx (sy + j) w =
      some ((List.range w).map fun (i : Nat) => fetchNearest b (rot90X t sy j) (rot90Y t sx i)) := by
  obtain ⟨qx, qy, qxr, _⟩ := point3d_centre t sx (sy + j) pj (by omega) hy hj
  have ex : pj.x = rot90X t sy j := by
    rw [qx, hm.1, hm.2.1]; unfold rot90X Spec.Fixed.roundHalfUp Spec.Fixed.dot; omega
  have ey : pj.y = rot90Y t sx 0 := by
    rw [qy, hm.2.2.1, hm.2.2.2]; unfold rot90Y Spec.Fixed.roundHalfUp Spec.Fixed.dot; omega
  unfold fetchAffine
  simp only [hj]
  rw [affineLoop_eq]
  congr 1
  apply List.map_congr_left
  intro i hi
  have hi' : i ≤ w := by have := List.mem_range.mp hi; omega
  unfold fetchFiltered
  rw [hf, hm.1, hm.2.2.1, stepped_zero pj.x qxr,
      Pixman.Props.C04Core.stepped_linear pj.y 65536 i (fun k hk => by
        have := hwy k (by omega); rw [ey]; unfold rot90Y at this ⊢; simp only [Int.natCast_zero, Int.add_zero]
        have e : sx * 65536 + 32768 + t.m12 + ↑k * 65536 = (sx + ↑k) * 65536 + 32768 + t.m12 := by omega
        rw [e]; exact this), ex, ey]
  simp only
  congr 1
  unfold rot90Y; simp only [Int.natCast_zero, Int.add_zero]; omega

/-- `fast_composite_rotate_90_*`.  Guard: exact quarter-turn matrix (FAST_PATH_ROTATE_90_TRANSFORM), samples
    cover the image.  `src_x_t`, `src_y_t` (with their `+ ½ - e`) and the transposing blit put into destination
    pixel `(i, j)` the reference NEAREST fetch at the exact source position. -/
theorem fast_rotate90_eq (b : Bits) (t : Transform) (sx sy : Int) (w h : Nat)
    (hr1 : isI32 (t.m02 + 32768 - 1)) (hr2 : isI32 (t.m12 + 32768 - 1))
    (hrx : ∀ j : Nat, j < h → isI32 (rot90X t sy j - 1)) (hry : ∀ i : Nat, i < w → isI32 (rot90Y t sx i - 1))
    (hcx : ∀ j : Nat, j < h → 0 ≤ fixedToInt (rot90X t sy j - 1) ∧ fixedToInt (rot90X t sy j - 1) < b.width)
    (hcy : ∀ i : Nat, i < w → 0 ≤ fixedToInt (rot90Y t sx i - 1) ∧ fixedToInt (rot90Y t sx i - 1) < b.height) :
    fastRotate90 b t sx sy w h =
      (List.range h).map fun (j : Nat) => (List.range w).map fun (i : Nat) => fetchNearest b (rot90X t sy j) (rot90Y t sx i) := by
  unfold fastRotate90 bltRotated90Trivial rotate90Origin
  simp only
  rw [wrapS32_of_range _ hr1, wrapS32_of_range _ hr2]
  apply List.map_congr_left
  intro j hj
  have hj' : j < h := by simpa using hj
  apply List.map_congr_left
  intro i hi
  have hi' : i < w := by simpa using hi
  rw [fetchNearest_tap b _ _ (hrx j hj') (hry i hi'), tap_inside b _ _ (hcx j hj') (hcy i hi')]
  congr 1
  · unfold rot90X fixedToInt; omega
  · unfold rot90Y fixedToInt; omega

theorem rotate270_reference_row (b : Bits) (hf : b.filter = .nearest) (t : Transform) (sx sy : Int) (w j : Nat) (pj : Vec)
    (hm : t.m00 = 0 ∧ t.m01 = 65536 ∧ t.m10 = -65536 ∧ t.m11 = 0)
    (hx : -32768 ≤ sx ∧ sx + w ≤ 32767) (hy : -32768 ≤ sy + j ∧ sy + j ≤ 32767)
    (hj : transformPoint3d t (pixelCentre sx (sy + j)) = some (true, pj))
    (hwy : ∀ k : Nat, k ≤ w → isI32 (rot270Y t sx k)) :
    fetchAffine b (some t) sx (sy + j) w =
      some ((List.range w).map fun (i : Nat) => fetchNearest b (rot270X t sy j) (rot270Y t sx i)) := by
  obtain ⟨qx, qy, qxr, _⟩ := point3d_centre t sx (sy + j) pj (by omega) hy hj
  have ex : pj.x = rot270X t sy j := by
    rw [qx, hm.1, hm.2.1]; unfold rot270X Spec.Fixed.roundHalfUp Spec.Fixed.dot; omega
  have ey : pj.y = rot270Y t sx 0 := by
    rw [qy, hm.2.2.1, hm.2.2.2]; unfold rot270Y Spec.Fixed.roundHalfUp Spec.Fixed.dot; omega
  unfold fetchAffine
  simp only [hj]
  rw [affineLoop_eq]
  congr 1
  apply List.map_congr_left
  intro i hi
  have hi' : i ≤ w := by have := List.mem_range.mp hi; omega
  unfold fetchFiltered
  rw [hf, hm.1, hm.2.2.1, stepped_zero pj.x qxr,
      Pixman.Props.C04Core.stepped_linear pj.y (-65536) i (fun k hk => by
        have := hwy k (by omega); rw [ey]; unfold rot270Y at this ⊢; simp only [Int.natCast_zero, Int.add_zero]
        have e : t.m12 - (sx * 65536 + 32768) + ↑k * -65536 = t.m12 - ((sx + ↑k) * 65536 + 32768) := by omega
        rw [e]; exact this), ex, ey]
  simp only
  congr 1
  unfold rot270Y; simp only [Int.natCast_zero, Int.add_zero]; omega

/-- `fast_composite_rotate_270_*`, as above for `[0 1 m02; -1 0 m12]` -/
theorem fast_rotate270_eq (b : Bits) (t : Transform) (sx sy : Int) (w h : Nat)
    (hr1 : isI32 (t.m02 + 32768 - 1)) (hr2 : isI32 (t.m12 + 32768 - 1))
    (hrx : ∀ j : Nat, j < h → isI32 (rot270X t sy j - 1)) (hry : ∀ i : Nat, i < w → isI32 (rot270Y t sx i - 1))
    (hcx : ∀ j : Nat, j < h → 0 ≤ fixedToInt (rot270X t sy j - 1) ∧ fixedToInt (rot270X t sy j - 1) < b.width)
    (hcy : ∀ i : Nat, i < w → 0 ≤ fixedToInt (rot270Y t sx i - 1) ∧ fixedToInt (rot270Y t sx i - 1) < b.height) :
    fastRotate270 b t sx sy w h =
      (List.range h).map fun (j : Nat) => (List.range w).map fun (i : Nat) => fetchNearest b (rot270X t sy j) (rot270Y t sx i) := by
  unfold fastRotate270 bltRotated270Trivial rotate270Origin
  simp only
  rw [wrapS32_of_range _ hr1, wrapS32_of_range _ hr2]
  apply List.map_congr_left
  intro j hj
  have hj' : j < h := by simpa using hj
  apply List.map_congr_left
  intro i hi
  have hi' : i < w := by simpa using hi
  rw [fetchNearest_tap b _ _ (hrx j hj') (hry i hi'), tap_inside b _ _ (hcx j hj') (hcy i hi')]
  congr 1
  · unfold rot270X fixedToInt; omega
  · unfold rot270Y fixedToInt; omega

/-! ### (c) the bilinear cover iterator (fast_bilinear_cover_iter_init / fast_fetch_bilinear_cover) -/

/-- `fetch_horizontal`: entry `k` is built from the pixel pair at `⌊x_k⌋, ⌊x_k⌋ + 1` with the 7-bit weight of
    `x_k = x + k·ux` (no `int32_t` wrap at the pixels produced) -/
theorem fetchHorizontal_eq (b : Bits) (y ux : Int) (n : Nat) (x : Int) (h : ∀ k : Nat, k < n → isI32 (x + k * ux)) :
    fetchHorizontal b y ux n x = (List.range n).map fun (k : Nat) =>
      horizEntry (b.fetch (fixedToInt (x + k * ux)) y) (b.fetch (fixedToInt (x + k * ux) + 1) y)
        ((bilinearWeight (x + k * ux)).toNat <<< 1) := by
  induction n generalizing x with
  | zero => rfl
  | succ m ih =>
    rw [fetchHorizontal, List.range_succ_eq_map, List.map_cons, List.map_map]
    simp only [Int.natCast_zero, Int.zero_mul, Int.add_zero]
    congr 1
    cases m with
    | zero => rfl
    | succ m' =>
      have h1 := h 1 (by omega)
      simp only [Int.natCast_one, Int.one_mul] at h1
      rw [wrapS32_of_range _ h1, ih (x + ux) (fun k hk => by
        have := h (k + 1) (by omega)
        rw [Int.natCast_add, Int.add_mul] at this
        simp only [Int.natCast_one, Int.one_mul] at this
        have e : x + ux + (k : Int) * ux = x + ((k : Int) * ux + ux) := by omega
        rw [e]; exact this)]
      apply List.map_congr_left
      intro i _
      have e : x + ux + (i : Int) * ux = x + ((i + 1 : Nat) : Int) * ux := by
        rw [Int.natCast_add, Int.add_mul]; simp only [Int.natCast_one, Int.one_mul]; omega
      simp only [Function.comp, Nat.succ_eq_add_one, e]

/-- the packed two-pass interpolation of the cover iterator agrees with `bilinear_interpolation`:
    the ONLY part of the iterator not proved here (64-bit lane arithmetic of `fetch_horizontal` and of the
    vertical pass); it is compared with the library by the `bilinear-cover-iter` slice of the correspondence -/
def PackedLerpExact : Prop :=
  ∀ tl tr bl br dx dy : Nat, tl < 4294967296 → tr < 4294967296 → bl < 4294967296 → br < 4294967296 →
    dx < 128 → dy < 128 →
    vertEntry (horizEntry tl tr (dx <<< 1)) (horizEntry bl br (dx <<< 1)) (dy <<< 1) =
      bilinearInterpolation tl tr bl br dx dy

theorem zipWith_map_range {α β γ : Type} (f : α → β → γ) (g : Nat → α) (h : Nat → β) (n : Nat) :
    List.zipWith f ((List.range n).map g) ((List.range n).map h) = (List.range n).map fun k => f (g k) (h k) := by
  apply List.ext_getElem
  · simp
  · intro i h1 h2
    simp

/-- PARTIAL (complete up to `PackedLerpExact`): `fast_fetch_bilinear_cover`.  Guard: scale transform,
    samples and their right/lower neighbours inside the image (FAST_PATH_SAMPLES_COVER_CLIP_BILINEAR), no wrap.
    The iterator reads, for destination pixel `(i, j)`, the four pixels at `⌊x − ½⌋, ⌊x − ½⌋ + 1` ×
    `⌊y − ½⌋, ⌊y − ½⌋ + 1` with the 7-bit weights of `x − ½`, `y − ½` — exactly the taps and weights of
    `bits_image_fetch_pixel_bilinear_32` at `(p.x + i·m00, p.y + j·m11)`; given the packed arithmetic identity the
    pixels are equal.  Gap: `PackedLerpExact` itself (lane arithmetic), and the two-line cache (the model refetches
    both lines on every call). -/
theorem fast_bilinear_cover_eq_partial (hpl : PackedLerpExact) (b : Bits) (t : Transform) (sx sy : Int) (w h : Nat) (p : Vec)
    (hpix : ∀ x y, b.fetch x y < 4294967296)
    (h0 : transformPoint3d t (pixelCentre sx sy) = some (true, p))
    (hp : isI32 (p.x - 32768) ∧ isI32 (p.y - 32768))
    (hcx : ∀ i : Nat, i < w → 0 ≤ p.x - 32768 + i * t.m00 ∧ fixedToInt (p.x - 32768 + i * t.m00) + 1 < b.width ∧
                               isI32 (p.x - 32768 + i * t.m00))
    (hcy : ∀ j : Nat, j < h → 0 ≤ p.y - 32768 + j * t.m11 ∧ fixedToInt (p.y - 32768 + j * t.m11) + 1 < b.height ∧
                               isI32 (p.y - 32768 + j * t.m11)) :
    fastBilinearCover b t sx sy w h = some ((List.range h).map fun (j : Nat) => (List.range w).map fun (i : Nat) =>
      fetchBilinear b (p.x + i * t.m00) (p.y + j * t.m11)) := by
  unfold fastBilinearCover
  simp only [h0]
  rw [wrapS32_of_range _ hp.1, wrapS32_of_range _ hp.2]
  congr 1
  -- the row loop
  have rows : ∀ (n : Nat) (fy : Int), (∀ k : Nat, k < n → isI32 (fy + k * t.m11)) →
      bilinearCoverRows b (p.x - 32768) t.m00 t.m11 w n fy =
        (List.range n).map fun (j : Nat) => bilinearCoverRow b (p.x - 32768) (fy + j * t.m11) t.m00 w := by
    intro n
    induction n with
    | zero => intro fy _; rfl
    | succ m ih =>
      intro fy hk
      rw [bilinearCoverRows, List.range_succ_eq_map, List.map_cons, List.map_map]
      simp only [Int.natCast_zero, Int.zero_mul, Int.add_zero]
      congr 1
      cases m with
      | zero => rfl
      | succ m' =>
        have h1 := hk 1 (by omega)
        simp only [Int.natCast_one, Int.one_mul] at h1
        rw [wrapS32_of_range _ h1, ih (fy + t.m11) (fun k hk' => by
          have := hk (k + 1) (by omega)
          rw [Int.natCast_add, Int.add_mul] at this
          simp only [Int.natCast_one, Int.one_mul] at this
          have e : fy + t.m11 + (k : Int) * t.m11 = fy + ((k : Int) * t.m11 + t.m11) := by omega
          rw [e]; exact this)]
        apply List.map_congr_left
        intro i _
        have e : fy + t.m11 + (i : Int) * t.m11 = fy + ((i + 1 : Nat) : Int) * t.m11 := by
          rw [Int.natCast_add, Int.add_mul]; simp only [Int.natCast_one, Int.one_mul]; omega
        simp only [Function.comp, Nat.succ_eq_add_one, e]
  rw [rows h _ (fun k hk => (hcy k hk).2.2)]
  apply List.map_congr_left
  intro j hj
  have hj' : j < h := by simpa using hj
  obtain ⟨y0, y1, y2⟩ := hcy j hj'
  unfold bilinearCoverRow
  simp only
  rw [fetchHorizontal_eq b _ _ w _ (fun k hk => (hcx k hk).2.2),
      fetchHorizontal_eq b _ _ w _ (fun k hk => (hcx k hk).2.2), zipWith_map_range]
  apply List.map_congr_left
  intro i hi
  have hi' : i < w := by simpa using hi
  obtain ⟨x0, x1, x2⟩ := hcx i hi'
  have wx : 0 ≤ bilinearWeight (p.x - 32768 + ↑i * t.m00) ∧ bilinearWeight (p.x - 32768 + ↑i * t.m00) < 128 := by
    unfold bilinearWeight; omega
  have wy : 0 ≤ bilinearWeight (p.y - 32768 + ↑j * t.m11) ∧ bilinearWeight (p.y - 32768 + ↑j * t.m11) < 128 := by
    unfold bilinearWeight; omega
  rw [hpl _ _ _ _ _ _ (hpix _ _) (hpix _ _) (hpix _ _) (hpix _ _) (by omega) (by omega)]
  -- the reference at the same position
  unfold fetchBilinear
  simp only
  have ex : p.x + ↑i * t.m00 - 32768 = p.x - 32768 + ↑i * t.m00 := by omega
  have ey : p.y + ↑j * t.m11 - 32768 = p.y - 32768 + ↑j * t.m11 := by omega
  rw [ex, ey, wrapS32_of_range _ x2, wrapS32_of_range _ y2]
  have fx0 : 0 ≤ fixedToInt (p.x - 32768 + ↑i * t.m00) := by unfold fixedToInt; omega
  have fy0 : 0 ≤ fixedToInt (p.y - 32768 + ↑j * t.m11) := by unfold fixedToInt; omega
  rw [tap_inside b _ _ ⟨fx0, by omega⟩ ⟨fy0, by omega⟩, tap_inside b _ _ ⟨by omega, x1⟩ ⟨fy0, by omega⟩,
      tap_inside b _ _ ⟨fx0, by omega⟩ ⟨by omega, y1⟩, tap_inside b _ _ ⟨by omega, x1⟩ ⟨by omega, y1⟩]

/-- PARTIAL: the scaled-bilinear main loops (C / MMX / SSE2 scanline functions of FAST_BILINEAR_MAINLOOP):
    after the single `vx -= ½` pixel `k` uses the pixel pair starting at the Spec's `bilinearIndex` and the Spec's
    7-bit weight of the reference position `X_k = v0 + k·unit_x` (so the taps and horizontal weights are those of
    `bits_image_fetch_pixel_bilinear_32`).  Gap: the PAD/NONE zones and the NORMAL wrap/plain split (only their
    memory safety is proved: `Props.C04.pad_bounds`, `normalLoop_safe`), the vertical weights `wt/wb`, and the SIMD
    arithmetic; these are compared with the reference by the correspondence under every configuration. -/
theorem bilinear_scanline_coords_partial (v0 ux : Int) (n : Nat)
    (h : ∀ k : Nat, k < n → isI32 (v0 - 32768 + k * ux)) :
    bilinearScanlineCoords ux n (v0 - 32768) = (List.range n).map fun (k : Nat) =>
      (Pixman.Spec.Sampling.bilinearIndex (v0 + k * ux), Pixman.Spec.Sampling.bilinearWeight (v0 + k * ux) / 2) := by
  have gen : ∀ (n : Nat) (v : Int), (∀ k : Nat, k < n → isI32 (v + k * ux)) →
      bilinearScanlineCoords ux n v = (List.range n).map fun (k : Nat) =>
        (fixedToInt (v + k * ux), bilinearWeight (v + k * ux)) := by
    intro n
    induction n with
    | zero => intro v _; rfl
    | succ m ih =>
      intro v hk
      rw [bilinearScanlineCoords, List.range_succ_eq_map, List.map_cons, List.map_map]
      simp only [Int.natCast_zero, Int.zero_mul, Int.add_zero]
      congr 1
      cases m with
      | zero => rfl
      | succ m' =>
        have h1 := hk 1 (by omega)
        simp only [Int.natCast_one, Int.one_mul] at h1
        rw [wrapS32_of_range _ h1, ih (v + ux) (fun k hk' => by
          have := hk (k + 1) (by omega)
          rw [Int.natCast_add, Int.add_mul] at this
          simp only [Int.natCast_one, Int.one_mul] at this
          have e : v + ux + (k : Int) * ux = v + ((k : Int) * ux + ux) := by omega
          rw [e]; exact this)]
        apply List.map_congr_left
        intro i _
        have e : v + ux + (i : Int) * ux = v + ((i + 1 : Nat) : Int) * ux := by
          rw [Int.natCast_add, Int.add_mul]; simp only [Int.natCast_one, Int.one_mul]; omega
        simp only [Function.comp, Nat.succ_eq_add_one, e]
  rw [gen n _ h]
  apply List.map_congr_left
  intro k _
  unfold Pixman.Spec.Sampling.bilinearIndex Pixman.Spec.Sampling.bilinearWeight fixedToInt bilinearWeight
  have e : v0 - 32768 + ↑k * ux = v0 + ↑k * ux - 32768 := by omega
  rw [e]
  congr 1
  omega

end Pixman.Props.C08Fast

import Pixman.Model.Opacity
import Pixman.Props.C02
import Pixman.Props.C04
/-!
  C17 — which composite function the glyph loops look up, against what `pixman_image_composite32`
  looks up for the reference request "composite this glyph image at (x - origin_x, y - origin_y)".

  Both go through `_pixman_implementation_lookup_composite` (C02: cache + table walk, a function of
  the 7-word key).  `pixman_image_composite32` builds its key as `Model/Opacity.composite32` says
  (C14's `compute_image_info` flags, C04's `analyze_extent`, the regenerated promotion block and
  `optimize_operator`).  The glyph code builds it by hand:

  * pixman_composite_glyphs_no_mask: `(op, src->extended_format_code, src->common.flags,
    glyph_format, glyph_flags | FAST_PATH_SAMPLES_COVER_CLIP_NEAREST, dest_format, dest_flags)` —
    no `analyze_extent`, no opaque-promotion, no `optimize_operator`, no mask elision;
  * add_glyphs, glyph format ≠ mask format: `(ADD, PIXMAN_solid, white flags, glyph_format,
    glyph_flags | COVER_CLIP_NEAREST, mask format, mask flags)`;
  * add_glyphs, same format: `(ADD, glyph_format, glyph_flags | COVER_CLIP_NEAREST, PIXMAN_null,
    FAST_PATH_IS_OPAQUE, …)`.

  Result: the keys coincide — hence the SAME function is looked up, whatever the cache holds —
  exactly when composite32's extra steps are no-ops: the source gains no cover flag (solid source,
  gradient, …), nothing is promoted to opaque, the operator is not rewritten, the glyph has alpha.
  Outside that, composite32's key has MORE flags (`admits_mono`: it may pick an earlier, more
  special entry) or a rewritten operator: known findings F2a/F2b are such a case
  (`saturate_opaque_glyph_keys_differ`).
-/
namespace Pixman.Props.C17Dispatch
open Pixman.Model.Opacity Pixman.Model.Dispatch Pixman.Model.Extent Pixman.Gen.ImageFlags
open Pixman.Gen.OperatorTable (optimizeOperator cell)
open Pixman.Gen.OpacityBlock (promotionBlock NEAREST_OPAQUE BILINEAR_OPAQUE)
open Pixman.Lemmas.Dispatch

/-- the seven lookup arguments of a composite32 decision -/
def keyOf (d : Decision) : Key :=
  ⟨d.op, d.srcFormat, d.srcFlags, d.maskFormat, d.maskFlags, d.destFormat, d.destFlags⟩

/-- the flag word the glyph loops build for the glyph image: its own flags with the cover flag forced -/
def glyphFlags (glyph : Img) : Nat := glyph.flags ||| FAST_PATH_SAMPLES_COVER_CLIP_NEAREST

/-- lookup arguments of pixman_composite_glyphs_no_mask; also of add_glyphs with a glyph format
    different from the mask's (`op = ADD`, `src` = the white solid image, `dest` = the mask image) -/
def glyphKey (op : Nat) (src glyph dest : Img) : Key :=
  ⟨op, src.code, src.flags, glyph.code, glyphFlags glyph, dest.code, dest.flags⟩

/-- lookup arguments of add_glyphs for a glyph in the mask's own format -/
def addSameKey (glyph maskImg : Img) : Key :=
  ⟨12, glyph.code, glyphFlags glyph, PIXMAN_null, FAST_PATH_IS_OPAQUE, maskImg.code, maskImg.flags⟩

/-! ## the forced cover flag is what analyze_extent computes, and it is true (C04) -/

/-- For a glyph image (bits, identity transform) and extents inside the image — the composite box
    lies inside the glyph box — `analyze_extent` sets exactly FAST_PATH_SAMPLES_COVER_CLIP_NEAREST -/
theorem glyph_analyze (g : Img) (e : Box32) (hk : g.cr.kind = .bits)
    (hid : ((g.flags &&& FAST_PATH_ID_TRANSFORM) == FAST_PATH_ID_TRANSFORM) = true)
    (h16 : is16Bit (e.x1 - 1) = true ∧ is16Bit (e.y1 - 1) = true ∧ is16Bit (e.x2 + 1) = true ∧ is16Bit (e.y2 + 1) = true)
    (hw : g.cr.width < 32767) (hh : g.cr.height < 32767)
    (hin : 0 ≤ e.x1 ∧ 0 ≤ e.y1 ∧ e.x2 ≤ g.cr.width ∧ e.y2 ≤ g.cr.height) :
    analyzeExtent g.extentImage e = .ok (true, ⟨true, false⟩) := by
  have hb : g.extentImage.isBits = true := by simp [Img.extentImage, hk]
  have hi : g.extentImage.idTransform = true := by simp only [Img.extentImage]; exact hid
  have hwd : g.extentImage.width = g.cr.width := rfl
  have hht : g.extentImage.height = g.cr.height := rfl
  have hr : g.extentImage.repeatMode = 0 := rfl
  unfold analyzeExtent
  rw [if_neg (by simp [h16.1, h16.2.1, h16.2.2.1, h16.2.2.2])]
  rw [if_neg (by rw [hwd, hht]; omega)]
  rw [if_neg (by rw [hr]; simp)]
  rw [if_pos ⟨hb, hi, by omega, by omega, by rw [hwd]; omega, by rw [hht]; omega⟩]

/-- … and the forced flag tells the truth (C04 S2): every pixel of the composite box samples a
    pixel of the glyph image -/
theorem forced_cover_flag_sound (g : Img) (e : Box32) (hk : g.cr.kind = .bits) (ht : g.props.transform = none)
    (hid : ((g.flags &&& FAST_PATH_ID_TRANSFORM) == FAST_PATH_ID_TRANSFORM) = true)
    (h16 : is16Bit (e.x1 - 1) = true ∧ is16Bit (e.y1 - 1) = true ∧ is16Bit (e.x2 + 1) = true ∧ is16Bit (e.y2 + 1) = true)
    (hw : g.cr.width < 32767) (hh : g.cr.height < 32767)
    (hin : 0 ≤ e.x1 ∧ 0 ≤ e.y1 ∧ e.x2 ≤ g.cr.width ∧ e.y2 ≤ g.cr.height)
    (i j : Int) (hi : e.x1 ≤ i ∧ i < e.x2) (hj : e.y1 ≤ j ∧ j < e.y2) :
    0 ≤ nearestIndex (sampleX none i j) ∧ nearestIndex (sampleX none i j) < g.cr.width ∧
    0 ≤ nearestIndex (sampleY none i j) ∧ nearestIndex (sampleY none i j) < g.cr.height := by
  have htr : g.extentImage.transform = none := by simp [Img.extentImage, ht]
  have := Pixman.Props.C04.cover_nearest_sound g.extentImage e true ⟨true, false⟩
    (by rw [htr]; trivial) (fun _ => htr) (glyph_analyze g e hk hid h16 hw hh hin) rfl i j hi hj
  rw [htr] at this
  exact this

/-! ## when composite32's extra steps are no-ops the keys coincide -/

/-- The decision of `pixman_image_composite32 (op, src, glyph_img, dest, …)` when
    * `hs`  the source gains no cover flag from analyze_extent (any non-bits source: solid, gradients),
    * `hg`  the mask extents lie inside the glyph image (`glyph_analyze`),
    * `hel` the glyph image is not opaque by its own flags (no mask elision),
    * `hprom` nothing is promoted to opaque,
    * `hop` `optimize_operator` leaves the operator alone:
    the lookup arguments are exactly those the glyph loop builds by hand. -/
theorem composite32_decision_is_glyph_key (op : Nat) (src glyph dest : Img) (se me : Box32)
    (hs : analyzeExtent src.extentImage se = .ok (true, ⟨false, false⟩))
    (hg : analyzeExtent glyph.extentImage me = .ok (true, ⟨true, false⟩))
    (hel : ((glyph.flags &&& FAST_PATH_IS_OPAQUE) == 0) = true)
    (hprom : promotionBlock src.flags (glyphFlags glyph) dest.flags = (src.flags, glyphFlags glyph, dest.flags))
    (hop : optimizeOperator op src.flags (glyphFlags glyph) dest.flags = op) :
    ∃ d, composite32 ⟨op, src, some glyph, dest, se, me⟩ = .run d ∧ keyOf d = glyphKey op src glyph dest := by
  have hme : maskEntry (some glyph) = (glyph.code, glyph.flags) := by
    simp only [maskEntry]; rw [if_pos hel]
  have hcs : src.flags ||| coverBits ⟨false, false⟩ = src.flags := by simp [coverBits]
  have hcm : glyph.flags ||| coverBits ⟨true, false⟩ = glyphFlags glyph := by simp [coverBits, glyphFlags]
  unfold composite32
  simp only [hs, Option.map_some, analyzeExtentOpt, hg, hme, hcs, hcm, hprom, hop]
  exact ⟨_, rfl, rfl⟩

/-! ### sufficient conditions for `hprom` and `hop` -/

private theorem and_ne_of_bit {x M : Nat} (k : Nat) (hM : M.testBit k = true) (hx : x.testBit k = false) :
    ((x &&& M) == M) = false := by
  apply beq_false_of_ne
  intro h
  have := congrArg (fun n => n.testBit k) h
  simp only [Nat.testBit_and, hM, hx, Bool.false_and] at this
  cases this

/-- nothing is promoted when neither word has FAST_PATH_SAMPLES_OPAQUE (bit 7): a source that is
    not an alpha-less bits image, a glyph format with alpha (a1, a4, a8, a8r8g8b8) -/
theorem no_promotion (s m d : Nat) (hs : s.testBit 7 = false) (hm : m.testBit 7 = false) :
    promotionBlock s m d = (s, m, d) := by
  unfold promotionBlock
  have n1 : NEAREST_OPAQUE.testBit 7 = true := by decide
  have n2 : BILINEAR_OPAQUE.testBit 7 = true := by decide
  simp only [and_ne_of_bit 7 n1 hs, and_ne_of_bit 7 n2 hs, and_ne_of_bit 7 n1 hm, and_ne_of_bit 7 n2 hm,
    Bool.or_self, Bool.false_eq_true, if_false]

/-- a solid source is never promoted either (promotion needs a SAMPLES_COVER_CLIP flag, which only
    analyze_extent sets): source word without bits 23 and 24 -/
theorem no_promotion_solid (s m d : Nat) (hs1 : s.testBit 23 = false) (hs2 : s.testBit 24 = false)
    (hm : m.testBit 7 = false) : promotionBlock s m d = (s, m, d) := by
  unfold promotionBlock
  have n1 : NEAREST_OPAQUE.testBit 23 = true := by decide
  have n2 : BILINEAR_OPAQUE.testBit 24 = true := by decide
  have n3 : NEAREST_OPAQUE.testBit 7 = true := by decide
  have n4 : BILINEAR_OPAQUE.testBit 7 = true := by decide
  simp only [and_ne_of_bit 23 n1 hs1, and_ne_of_bit 24 n2 hs2, and_ne_of_bit 7 n3 hm, and_ne_of_bit 7 n4 hm,
    Bool.or_self, Bool.false_eq_true, if_false]

/-- `optimize_operator` leaves the 14 Render operators alone when neither "source·mask" nor the
    destination is opaque (bit 13) -/
theorem operator_kept (op s m d : Nat) (hop : op ≤ 13) (hm : m.testBit 13 = false) (hd : d.testBit 13 = false) :
    optimizeOperator op s m d = op := by
  have z : ∀ x : Nat, x.testBit 13 = false → x &&& Pixman.Gen.OperatorTable.FAST_PATH_IS_OPAQUE = 0 := by
    intro x hx
    apply Nat.eq_of_testBit_eq
    intro i
    rw [Nat.testBit_and, Nat.zero_testBit]
    by_cases hi : i = 13
    · subst hi; rw [hx]; rfl
    · have : Pixman.Gen.OperatorTable.FAST_PATH_IS_OPAQUE.testBit i = false := by
        show (1 <<< 13).testBit i = false
        rw [Nat.one_shiftLeft, Nat.testBit_two_pow]; exact decide_eq_false (fun e => hi e.symm)
      rw [this, Bool.and_false]
  have hsm : (s &&& m).testBit 13 = false := by rw [Nat.testBit_and, hm, Bool.and_false]
  unfold optimizeOperator
  simp only [z d hd, z (s &&& m) hsm, Nat.zero_shiftRight, Nat.or_self]
  have : ∀ o, o ≤ 13 → cell o 0 = o := by decide
  exact this op hop

/-! ## same key ⇒ same function, whatever the fast-path caches hold (C02 D1) -/

/-- the function looked up by the glyph loop IS the function `pixman_image_composite32` looks up for
    the same glyph image, for every delegate chain and every state of the (thread-local) cache -/
theorem glyph_loop_looks_up_composite32_function (c : Chain) (cache cache' : Cache)
    (hc : CacheInv c cache) (hc' : CacheInv c cache')
    (op : Nat) (src glyph dest : Img) (se me : Box32)
    (hs : analyzeExtent src.extentImage se = .ok (true, ⟨false, false⟩))
    (hg : analyzeExtent glyph.extentImage me = .ok (true, ⟨true, false⟩))
    (hel : ((glyph.flags &&& FAST_PATH_IS_OPAQUE) == 0) = true)
    (hprom : promotionBlock src.flags (glyphFlags glyph) dest.flags = (src.flags, glyphFlags glyph, dest.flags))
    (hop : optimizeOperator op src.flags (glyphFlags glyph) dest.flags = op) :
    ∃ d, composite32 ⟨op, src, some glyph, dest, se, me⟩ = .run d ∧
      (lookupCached c cache (glyphKey op src glyph dest)).1 = (lookupCached c cache' (keyOf d)).1 := by
  obtain ⟨d, h1, h2⟩ := composite32_decision_is_glyph_key op src glyph dest se me hs hg hel hprom hop
  refine ⟨d, h1, ?_⟩
  rw [Pixman.Props.C02.lookupCached_eq_tableWalk c cache _ hc,
    Pixman.Props.C02.lookupCached_eq_tableWalk c cache' _ hc', h2]

/-! ## outside the hypotheses: composite32's key only has MORE flags (or another operator) -/

/-- flag words: `a ⊆ b` bitwise -/
def FlagsLe (a b : Nat) : Prop := a &&& b = a

theorem flagsLe_or (a b : Nat) : FlagsLe a (a ||| b) := by
  unfold FlagsLe
  apply Nat.eq_of_testBit_eq
  intro i
  rw [Nat.testBit_and, Nat.testBit_or]
  cases a.testBit i <;> simp

/-- an entry that admits a key admits every key with the same operator and formats and more flags:
    with a bits source that covers the clip, or words promoted to opaque, composite32 can only find
    an EARLIER (more special) entry than the glyph loop — never miss the one the glyph loop found -/
theorem admits_mono (e : Entry) (k k' : Key) (ho : k.op = k'.op) (hs : k.srcFormat = k'.srcFormat)
    (hm : k.maskFormat = k'.maskFormat) (hd : k.destFormat = k'.destFormat)
    (fs : FlagsLe k.srcFlags k'.srcFlags) (fm : FlagsLe k.maskFlags k'.maskFlags)
    (fd : FlagsLe k.destFlags k'.destFlags) (h : admits e k = true) : admits e k' = true := by
  have sub : ∀ p a b : Nat, (p &&& a == p) = true → FlagsLe a b → (p &&& b == p) = true := by
    intro p a b h1 h2
    have e1 : p &&& a = p := by simpa using h1
    have : p &&& b = p := by
      rw [← e1, Nat.and_assoc, h2]
    simp [this]
  unfold admits at h ⊢
  simp only [Bool.and_eq_true] at h ⊢
  obtain ⟨⟨⟨⟨⟨⟨a1, a2⟩, a3⟩, a4⟩, a5⟩, a6⟩, a7⟩ := h
  refine ⟨⟨⟨⟨⟨⟨by rw [← ho]; exact a1, by rw [← hs]; exact a2⟩, by rw [← hm]; exact a3⟩, by rw [← hd]; exact a4⟩,
    sub _ _ _ a5 fs⟩, sub _ _ _ a6 fm⟩, sub _ _ _ a7 fd⟩

/-- The general relation (any source, e.g. a bits source that covers the clip — composite32 then adds
    SAMPLES_COVER_CLIP flags the glyph loop does not have): with no opaque promotion and the operator
    kept, composite32's key has the glyph loop's operator and formats and, word by word, at least
    its flags. -/
theorem composite32_key_subsumes_glyph_key (op : Nat) (src glyph dest : Img) (se me : Box32) (fs : Flags)
    (hs : analyzeExtent src.extentImage se = .ok (true, fs))
    (hg : analyzeExtent glyph.extentImage me = .ok (true, ⟨true, false⟩))
    (hel : ((glyph.flags &&& FAST_PATH_IS_OPAQUE) == 0) = true)
    (hprom : promotionBlock (src.flags ||| coverBits fs) (glyphFlags glyph) dest.flags =
      (src.flags ||| coverBits fs, glyphFlags glyph, dest.flags))
    (hop : optimizeOperator op (src.flags ||| coverBits fs) (glyphFlags glyph) dest.flags = op) :
    ∃ d, composite32 ⟨op, src, some glyph, dest, se, me⟩ = .run d ∧
      (keyOf d).op = op ∧ (keyOf d).srcFormat = src.code ∧ (keyOf d).maskFormat = glyph.code ∧
      (keyOf d).destFormat = dest.code ∧ FlagsLe src.flags (keyOf d).srcFlags ∧
      (keyOf d).maskFlags = glyphFlags glyph ∧ (keyOf d).destFlags = dest.flags ∧
      ∀ e, admits e (glyphKey op src glyph dest) = true → admits e (keyOf d) = true := by
  have hme : maskEntry (some glyph) = (glyph.code, glyph.flags) := by
    simp only [maskEntry]; rw [if_pos hel]
  have hcm : glyph.flags ||| coverBits ⟨true, false⟩ = glyphFlags glyph := by simp [coverBits, glyphFlags]
  unfold composite32
  simp only [hs, Option.map_some, analyzeExtentOpt, hg, hme, hcm, hprom, hop]
  refine ⟨_, rfl, rfl, rfl, rfl, rfl, flagsLe_or _ _, rfl, rfl, fun e he => ?_⟩
  exact admits_mono e (glyphKey op src glyph dest) _ rfl rfl rfl rfl (flagsLe_or _ _)
    (by unfold FlagsLe; exact Nat.and_self _) (by unfold FlagsLe; exact Nat.and_self _) he

/-- When the keys differ but the operator is the same, the two lookups may return different
    functions; they render the same picture if every table entry refines the general path on what it
    admits. `_partial`: `EntrySound` is C02's hypothesis (validated per entry by C02's sweep, not
    proved); `general` is one function of the request, so this does not cover a rewritten operator
    (F2a/F2b). -/
theorem glyph_and_composite32_render_same_partial {Req Pic : Type} (run : Nat → Req → Pic)
    (general : Req → Pic) (glyphKeyOf compositeKeyOf : Req → Key) (c : Chain)
    (h1 : EntrySound run general glyphKeyOf c) (h2 : EntrySound run general compositeKeyOf c)
    (hc : HasCatchAll c) (r : Req) :
    dispatch run glyphKeyOf c r = dispatch run compositeKeyOf c r := by
  rw [Pixman.Props.C02.render_eq_general run general glyphKeyOf c h1 hc r,
    Pixman.Props.C02.render_eq_general run general compositeKeyOf c h2 hc r]

/-- add_glyphs, same format: the key differs from the one of `pixman_image_composite32 (ADD, glyph,
    NULL, mask)` only by FAST_PATH_NO_ALPHA_MAP in the (absent) mask's word — `IS_OPAQUE` versus
    `IS_OPAQUE | NO_ALPHA_MAP`; every entry admitting add_glyphs' key admits composite32's.
    `_partial`: the converse needs "no table entry asks NO_ALPHA_MAP of a null mask", true of the
    FAST_PATH macros (null mask ⇒ mask flags 0) but the tables are not regenerated into Lean. -/
theorem add_same_key_partial (glyph maskImg : Img) (e : Entry)
    (h : admits e (addSameKey glyph maskImg) = true) :
    admits e ⟨12, glyph.code, glyphFlags glyph, PIXMAN_null, FAST_PATH_IS_OPAQUE ||| FAST_PATH_NO_ALPHA_MAP,
      maskImg.code, maskImg.flags⟩ = true :=
  admits_mono e (addSameKey glyph maskImg) _ rfl rfl rfl rfl (by unfold FlagsLe; exact Nat.and_self _)
    (flagsLe_or FAST_PATH_IS_OPAQUE FAST_PATH_NO_ALPHA_MAP) (by unfold FlagsLe; exact Nat.and_self _) h

/-! ## the boundary, concretely: known findings F2a / F2b -/

private def solidWhite : Img := ⟨{ kind := .solid, solidAlpha := 0xffff }, {}, none⟩
private def x8Glyph : Img := ⟨{ kind := .bits, format := 0x20020888, width := 5, height := 11 }, {}, none⟩
private def a8Glyph : Img := ⟨{ kind := .bits, format := 134316032, width := 5, height := 11 }, {}, none⟩
private def argbDest : Img := ⟨{ kind := .bits, format := 0x20028888, width := 20, height := 20 }, {}, none⟩

/-- F2a/F2b as a dispatch difference: SATURATE (13), opaque solid source, alpha-less x8r8g8b8 glyph.
    `pixman_image_composite32` promotes the glyph (mask) to opaque and REWRITES the operator
    (13 ↦ 4 = OVER_REVERSE); the glyph loop looks up SATURATE with the unpromoted glyph word.
    Different keys, different operator: outside `composite32_decision_is_glyph_key` (its `hprom`
    and `hop` fail), and the library's two results differ by 1 LSB there. -/
theorem saturate_opaque_glyph_keys_differ :
    ∃ d, composite32 ⟨13, solidWhite, some x8Glyph, argbDest, ⟨0, 0, 5, 11⟩, ⟨0, 0, 5, 11⟩⟩ = .run d ∧
      d.op = 4 ∧ (glyphKey 13 solidWhite x8Glyph argbDest).op = 13 ∧
      d.maskFlags.testBit 13 = true ∧ (glyphFlags x8Glyph).testBit 13 = false ∧
      promotionBlock solidWhite.flags (glyphFlags x8Glyph) argbDest.flags ≠
        (solidWhite.flags, glyphFlags x8Glyph, argbDest.flags) := by
  refine ⟨_, rfl, ?_⟩
  decide

private def r565Src : Img :=
  ⟨{ kind := .bits, format := 268567909, width := 45, height := 1 }, { repeat_ := 1 }, none⟩

/-- F2b: the same with an opaque BITS source (r5g6b5, REPEAT_NORMAL): operator rewritten by
    composite32 (13 ↦ 4), not by the glyph loop -/
theorem saturate_opaque_bits_source_keys_differ :
    ∃ d, composite32 ⟨13, r565Src, some x8Glyph, argbDest, ⟨0, 0, 5, 1⟩, ⟨0, 0, 5, 1⟩⟩ = .run d ∧
      d.op = 4 ∧ (glyphKey 13 r565Src x8Glyph argbDest).op = 13 := by
  refine ⟨_, rfl, ?_⟩
  decide

/-- non-vacuity of the positive theorem: an a8 glyph through an opaque solid source with OVER — all
    five hypotheses hold and the keys coincide -/
example : ∃ d, composite32 ⟨3, solidWhite, some a8Glyph, argbDest, ⟨3, 4, 8, 15⟩, ⟨0, 0, 5, 11⟩⟩ = .run d ∧
    keyOf d = glyphKey 3 solidWhite a8Glyph argbDest :=
  composite32_decision_is_glyph_key 3 solidWhite a8Glyph argbDest ⟨3, 4, 8, 15⟩ ⟨0, 0, 5, 11⟩
    (by decide)
    (glyph_analyze a8Glyph ⟨0, 0, 5, 11⟩ rfl (by decide) (by decide) (by decide) (by decide) (by decide))
    (by decide)
    (no_promotion_solid _ _ _ (by decide) (by decide) (by decide))
    (by decide)

example : solidWhite.code = PIXMAN_solid ∧ (glyphFlags a8Glyph).testBit 7 = false ∧
    (glyphFlags a8Glyph).testBit 13 = false ∧ argbDest.flags.testBit 13 = false := by decide

end Pixman.Props.C17Dispatch

import Pixman.Spec.MatrixQ
/-! C11 — the floating point entry points (`pixman_f_transform_invert`, `pixman_transform_invert`, the
    fixed/float conversions, `pixman_f_transform_multiply/point/point_3d/bounds`): property theorems about
    the EXACT-RATIONAL model `Pixman/Model/MatrixQ.lean`.

    The theorems named `_partial` are about an idealisation: the model replaces each `double` operation by the exact
    rational operation; IEEE-754 rounding (53-bit significands) is not modelled.  They establish that the ALGORITHM
    (adjugate / determinant form, products, quotients) is right; how far the library's doubles may stray from it is
    bounded a posteriori, per request, by the correspondence check (checks/C11.py, harness/matrix.c).
    The theorems about the double -> 16.16 conversion (`entryToFixed*`, `toFixed*`, the round trips) are NOT partial:
    since /repo 50296f6 that conversion performs no inexact operation on an in-range `double` (`Model/MatrixQ.entryToFixed`). -/
namespace Pixman.Props.C11Float
open Pixman.Matrix Pixman.MatrixQ

/-- the determinant accumulated by the first loop of `pixman_f_transform_invert` (expansion along the
    first COLUMN, with the index tables `a`, `b`) is the determinant -/
theorem det_eq_detSpec_partial (m : FT) : det m = detSpec m := by
  simp only [det, detTerm, FT.get, ta, tb, detSpec]
  grind

/-- `pixman_f_transform_invert` returns FALSE iff the matrix is singular -/
theorem fInvert_none_iff_partial (m : FT) : fInvert m = none ↔ detSpec m = 0 := by
  rw [← det_eq_detSpec_partial]
  unfold fInvert
  by_cases h : det m = 0 <;> simp [h]

/-- `pixman_f_transform_invert` returning TRUE: the result is exactly the two-sided inverse -/
theorem fInvert_inverse_partial (m d : FT) (h : fInvert m = some d) : IsInverse m d := by
  unfold fInvert at h
  by_cases h0 : det m = 0
  · simp [h0] at h
  · simp only [h0, if_false, Option.some.injEq] at h
    subst h
    simp only [det, detTerm, FT.get, ta, tb] at h0
    simp only [IsInverse, mulSpec, identity, cofactor, det, detTerm, FT.get, ta, tb, FT.mk.injEq]
    refine ⟨⟨?_, ?_, ?_, ?_, ?_, ?_, ?_, ?_, ?_⟩, ⟨?_, ?_, ?_, ?_, ?_, ?_, ?_, ?_, ?_⟩⟩ <;> grind

example : fInvert ⟨2, 0, 1, 0, 4, 0, 0, 0, 1⟩ = some ⟨1/2, 0, -1/2, 0, 1/4, 0, 0, 0, 1⟩ := by decide +kernel
example : fInvert ⟨1, 2, 3, 2, 4, 6, 0, 1, 5⟩ = none := by decide +kernel

/-- `pixman_f_transform_multiply` is the matrix product -/
theorem fMultiply_eq_mulSpec_partial (l r : FT) : fMultiply l r = mulSpec l r := by
  simp only [fMultiply, MatrixQ.mulEntry, FT.get, mulSpec, FT.mk.injEq]
  refine ⟨?_, ?_, ?_, ?_, ?_, ?_, ?_, ?_, ?_⟩ <;> grind

/-- one entry of `pixman_transform_from_pixman_f_transform`: FALSE iff outside `[-32767, 32767]` -/
theorem entryToFixed_none_iff (d : Rat) : entryToFixed d = none ↔ ¬ InRange d := by
  unfold entryToFixed InRange
  by_cases h : d < -32767 ∨ d > 32767
  · simp only [h, if_true, true_iff]; grind
  · simp only [h, if_false, reduceCtorEq, false_iff, Classical.not_not]; grind

/-- ... otherwise the stored value is THE nearest 1/65536, ties up (conversion error ≤ 1/2 unit: `65536·d - 1/2 < q ≤
    65536·d + 1/2`), and fits `int32_t` (the cast `(pixman_fixed_t)` of the C code is value-preserving) -/
theorem entryToFixed_some (d : Rat) (q : Int) (h : entryToFixed d = some q) :
    InRange d ∧ NearestFixed q d ∧ Pixman.Spec.Fixed.Rep32 q := by
  unfold entryToFixed at h
  by_cases hr : d < -32767 ∨ d > 32767
  · simp [hr] at h
  · simp only [hr, if_false, Option.some.injEq] at h
    have f1 := Rat.floor_le (d * 65536)
    have f2 := Rat.lt_floor_add_one (d * 65536)
    rw [Rat.intCast_add] at f2
    simp only [Rat.intCast_one] at f2
    have r1 : -32767 ≤ d := by grind
    have r2 : d ≤ 32767 := by grind
    have near : NearestFixed q d := by
      unfold NearestFixed
      split at h
      · next hge => rw [← h, Rat.intCast_add]; simp only [Rat.intCast_one]; constructor <;> grind
      · next hlt => rw [← h]; constructor <;> grind
    refine ⟨⟨r1, r2⟩, near, ?_⟩
    unfold NearestFixed at near
    have u1 : (q : Rat) < ((2147418113 : Int) : Rat) := by
      have : ((2147418113 : Int) : Rat) = 2147418113 := by simp
      grind
    have u2 : ((-2147418113 : Int) : Rat) < (q : Rat) := by
      have : ((-2147418113 : Int) : Rat) = -2147418113 := by simp
      grind
    have v1 := Rat.intCast_lt_intCast.mp u1
    have v2 := Rat.intCast_lt_intCast.mp u2
    unfold Pixman.Spec.Fixed.Rep32; omega

example : entryToFixed (3 / 131072) = some 2 := by decide +kernel     -- a tie (1.5 units) goes up
example : entryToFixed (-3 / 131072) = some (-1) := by decide +kernel  -- ... also for negative values (floor (x + 1/2))
example : entryToFixed (32767 + 1 / 65536) = none := by decide +kernel

/-- `pixman_transform_from_pixman_f_transform`: TRUE iff every entry lies in `[-32767, 32767]` ("overflow ⇒ FALSE") -/
theorem toFixed_isSome_iff (m : FT) : (toFixed m).isSome = true ↔ FT.All InRange m := by
  have e := fun d => entryToFixed_none_iff d
  unfold toFixed FT.All
  constructor
  · intro h
    split at h
    · next a b c d e' f g h' i h0 h1 h2 h3 h4 h5 h6 h7 h8 =>
      exact ⟨(entryToFixed_some _ _ h0).1, (entryToFixed_some _ _ h1).1, (entryToFixed_some _ _ h2).1,
             (entryToFixed_some _ _ h3).1, (entryToFixed_some _ _ h4).1, (entryToFixed_some _ _ h5).1,
             (entryToFixed_some _ _ h6).1, (entryToFixed_some _ _ h7).1, (entryToFixed_some _ _ h8).1⟩
    · cases h
  · intro ⟨h0, h1, h2, h3, h4, h5, h6, h7, h8⟩
    have g : ∀ d, InRange d → ∃ q, entryToFixed d = some q := by
      intro d hd
      cases hq : entryToFixed d with
      | none => exact absurd hd ((e d).mp hq)
      | some q => exact ⟨q, rfl⟩
    obtain ⟨_, e0⟩ := g _ h0; obtain ⟨_, e1⟩ := g _ h1; obtain ⟨_, e2⟩ := g _ h2
    obtain ⟨_, e3⟩ := g _ h3; obtain ⟨_, e4⟩ := g _ h4; obtain ⟨_, e5⟩ := g _ h5
    obtain ⟨_, e6⟩ := g _ h6; obtain ⟨_, e7⟩ := g _ h7; obtain ⟨_, e8⟩ := g _ h8
    simp only [e0, e1, e2, e3, e4, e5, e6, e7, e8, Option.isSome_some]

/-- ... and then every stored entry is a nearest 1/65536 of the rational entry and fits `int32_t` -/
theorem toFixed_some (m : FT) (t : Transform) (h : toFixed m = some t) :
    Entrywise NearestFixed t m ∧ t.Rep := by
  unfold toFixed at h
  split at h
  · next a b c d e f g h' i h0 h1 h2 h3 h4 h5 h6 h7 h8 =>
    simp only [Option.some.injEq] at h
    subst h
    have s0 := entryToFixed_some _ _ h0; have s1 := entryToFixed_some _ _ h1
    have s2 := entryToFixed_some _ _ h2; have s3 := entryToFixed_some _ _ h3
    have s4 := entryToFixed_some _ _ h4; have s5 := entryToFixed_some _ _ h5
    have s6 := entryToFixed_some _ _ h6; have s7 := entryToFixed_some _ _ h7
    have s8 := entryToFixed_some _ _ h8
    exact ⟨⟨s0.2.1, s1.2.1, s2.2.1, s3.2.1, s4.2.1, s5.2.1, s6.2.1, s7.2.1, s8.2.1⟩,
           ⟨s0.2.2, s1.2.2, s2.2.2, s3.2.2, s4.2.2, s5.2.2, s6.2.2, s7.2.2, s8.2.2⟩⟩
  · cases h

/-- the determinant of the converted matrix is the integer determinant scaled by 2⁻⁴⁸: a 16.16 matrix is
    singular over the rationals iff its integer determinant vanishes -/
theorem detSpec_fromFixed_partial (t : Transform) : detSpec (fromFixed t) = (detInt t : Rat) / 281474976710656 := by
  simp only [detSpec, fromFixed, fixedToRat, detInt, Rat.intCast_add, Rat.intCast_sub, Rat.intCast_mul]
  grind

theorem detSpec_fromFixed_zero_iff_partial (t : Transform) : detSpec (fromFixed t) = 0 ↔ detInt t = 0 := by
  rw [detSpec_fromFixed_partial]
  constructor
  · intro h
    have : (detInt t : Rat) = ((0 : Int) : Rat) := by simp only [Rat.intCast_zero]; grind
    exact Rat.intCast_inj.mp this
  · intro h; rw [h]; simp only [Rat.intCast_zero]; grind

/-- `pixman_transform_invert`: singular input (integer determinant 0) ⇒ FALSE -/
theorem invert_singular_partial (t : Transform) (h : detInt t = 0) : invert t = none := by
  unfold invert
  rw [(fInvert_none_iff_partial _).mpr ((detSpec_fromFixed_zero_iff_partial t).mpr h)]

/-- `pixman_transform_invert` returning TRUE: the input is regular, and the result is, entry by entry, a
    nearest 1/65536 (error ≤ 1/2 unit, the only rounding of the idealised computation) of THE exact rational
    inverse `d` of the input (`A·d = d·A = I` exactly), all of whose entries lie in `[-32767, 32767]`. -/
theorem invert_some_partial (t r : Transform) (h : invert t = some r) :
    detInt t ≠ 0 ∧ ∃ d : FT, IsInverse (fromFixed t) d ∧ FT.All InRange d ∧ Entrywise NearestFixed r d ∧ r.Rep := by
  unfold invert at h
  cases hf : fInvert (fromFixed t) with
  | none => rw [hf] at h; cases h
  | some d =>
    rw [hf] at h; simp only at h
    refine ⟨?_, d, fInvert_inverse_partial _ _ hf, ?_, toFixed_some _ _ h⟩
    · intro h0
      have := invert_singular_partial t h0
      unfold invert at this; rw [hf] at this; simp only at this
      rw [this] at h; cases h
    · exact (toFixed_isSome_iff d).mp (by rw [h]; rfl)

/-- `pixman_transform_invert` returns FALSE exactly when the input is singular or an entry of the exact
    inverse lies outside `[-32767, 32767]` ("overflow ⇒ FALSE") -/
theorem invert_none_iff_partial (t : Transform) :
    invert t = none ↔ detInt t = 0 ∨ ∃ d, fInvert (fromFixed t) = some d ∧ ¬ FT.All InRange d := by
  unfold invert
  cases hf : fInvert (fromFixed t) with
  | none =>
    simp only [true_iff]
    left
    exact (detSpec_fromFixed_zero_iff_partial t).mp ((fInvert_none_iff_partial _).mp hf)
  | some d =>
    simp only
    have hne : detInt t ≠ 0 := by
      intro h0
      have := (fInvert_none_iff_partial _).mpr ((detSpec_fromFixed_zero_iff_partial t).mpr h0)
      rw [this] at hf; cases hf
    have key := toFixed_isSome_iff d
    constructor
    · intro hn
      right
      refine ⟨d, rfl, ?_⟩
      intro hall
      have := key.mpr hall
      rw [hn] at this; cases this
    · intro h
      rcases h with h | ⟨d', hd', hnot⟩
      · exact absurd h hne
      · simp only [Option.some.injEq] at hd'
        subst hd'
        cases ht : toFixed d with
        | none => rfl
        | some r => exact absurd (key.mp (by rw [ht]; rfl)) hnot

/-- the rational inverse is unique: whatever satisfies `A·b = I` is the matrix `fInvert` computes -/
theorem fInvert_unique_partial (m d b : FT) (h : fInvert m = some d) (hb : mulSpec m b = identity) : b = d := by
  have hi := (fInvert_inverse_partial m d h).2
  cases m; cases d; cases b
  simp only [mulSpec, identity, FT.mk.injEq] at hi hb ⊢
  refine ⟨?_, ?_, ?_, ?_, ?_, ?_, ?_, ?_, ?_⟩ <;> grind

-- non-vacuity: a regular 16.16 matrix (scale 2, 4 and a translation), an exactly singular one, an overflowing one
example : invert ⟨131072, 0, 65536, 0, 262144, 0, 0, 0, 65536⟩ = some ⟨32768, 0, -32768, 0, 16384, 0, 0, 0, 65536⟩ := by decide +kernel
example : invert ⟨98304, 0, 0, 0, 65536, 0, 0, 0, 65536⟩ = some ⟨43691, 0, 0, 0, 65536, 0, 0, 0, 65536⟩ := by decide +kernel
example : invert ⟨65536, 131072, 196608, 131072, 262144, 393216, 0, 65536, 327680⟩ = none := by decide +kernel
example : detInt ⟨65536, 131072, 196608, 131072, 262144, 393216, 0, 65536, 327680⟩ = 0 := by decide
example : invert ⟨1, 0, 0, 0, 65536, 0, 0, 0, 65536⟩ = none := by decide +kernel    -- 1/m00 = 65536.0 > 32767
example : detInt ⟨1, 0, 0, 0, 65536, 0, 0, 0, 65536⟩ ≠ 0 := by decide

/-! ### pixman_f_transform_point_3d, point, bounds -/

/-- `pixman_f_transform_point_3d`: the matrix-vector product -/
theorem fPoint3d_spec_partial (t : FT) (v : FV) :
    fPoint3d t v = ⟨t.m00 * v.x + t.m01 * v.y + t.m02 * v.z, t.m10 * v.x + t.m11 * v.y + t.m12 * v.z,
                    t.m20 * v.x + t.m21 * v.y + t.m22 * v.z⟩ := by
  simp only [fPoint3d, rowDot, FT.get, FV.mk.injEq]
  refine ⟨?_, ?_, ?_⟩ <;> grind

/-- `pixman_f_transform_point`: FALSE iff the homogeneous coordinate `w` is zero -/
theorem fPoint_none_iff_partial (t : FT) (v : FV) :
    fPoint t v = none ↔ t.m20 * v.x + t.m21 * v.y + t.m22 * v.z = 0 := by
  unfold fPoint
  rw [fPoint3d_spec_partial]
  simp only
  split <;> simp_all

/-- ... otherwise the result is the exact quotient `(x/w, y/w, 1)` -/
theorem fPoint_some_partial (t : FT) (v p : FV) (h : fPoint t v = some p) :
    p.x * (t.m20 * v.x + t.m21 * v.y + t.m22 * v.z) = t.m00 * v.x + t.m01 * v.y + t.m02 * v.z ∧
    p.y * (t.m20 * v.x + t.m21 * v.y + t.m22 * v.z) = t.m10 * v.x + t.m11 * v.y + t.m12 * v.z ∧ p.z = 1 := by
  unfold fPoint at h
  rw [fPoint3d_spec_partial] at h
  simp only at h
  split at h
  · cases h
  · next hw =>
    simp only [Option.some.injEq] at h
    subst h
    refine ⟨?_, ?_, rfl⟩ <;> simp only <;> grind

theorem le_ceil (x : Rat) : x ≤ (MatrixQ.ceil x : Rat) := by
  unfold MatrixQ.ceil
  have := Rat.floor_le (-x)
  rw [Rat.intCast_neg]
  grind

theorem fBoundsStep_spec (first : Bool) (b : BoxZ) (p : FV) :
    ContainsQ (fBoundsStep first b p) p ∧ (first = false → b.le (fBoundsStep first b p)) := by
  have f1 := Rat.floor_le p.x
  have f2 := Rat.floor_le p.y
  have c1 := le_ceil p.x
  have c2 := le_ceil p.y
  unfold fBoundsStep ContainsQ BoxZ.le
  cases first
  · simp only [Bool.false_eq_true, if_false, forall_const]
    refine ⟨⟨?_, ?_, ?_, ?_⟩, ?_, ?_, ?_, ?_⟩
    · split
      · exact f1
      · next h => exact Rat.le_trans (Rat.intCast_le_intCast.mpr (by omega)) f1
    · split
      · exact f2
      · next h => exact Rat.le_trans (Rat.intCast_le_intCast.mpr (by omega)) f2
    · split
      · exact c1
      · next h => exact Rat.le_trans c1 (Rat.intCast_le_intCast.mpr (by omega))
    · split
      · exact c2
      · next h => exact Rat.le_trans c2 (Rat.intCast_le_intCast.mpr (by omega))
    all_goals (split <;> omega)
  · simp only [if_true]
    exact ⟨⟨f1, f2, c1, c2⟩, by intro h; cases h⟩

theorem containsQ_mono (a b : BoxZ) (p : FV) (h : a.le b) (hc : ContainsQ a p) : ContainsQ b p := by
  unfold BoxZ.le at h; unfold ContainsQ at *
  exact ⟨Rat.le_trans (Rat.intCast_le_intCast.mpr h.1) hc.1, Rat.le_trans (Rat.intCast_le_intCast.mpr h.2.1) hc.2.1,
         Rat.le_trans hc.2.2.1 (Rat.intCast_le_intCast.mpr h.2.2.1), Rat.le_trans hc.2.2.2 (Rat.intCast_le_intCast.mpr h.2.2.2)⟩

theorem boxLe_refl (a : BoxZ) : a.le a := by unfold BoxZ.le; omega
theorem boxLe_trans (a b c : BoxZ) (h1 : a.le b) (h2 : b.le c) : a.le c := by unfold BoxZ.le at *; omega

theorem fBoundsLoop_spec (t : FT) (cs : List FV) :
    ∀ (first : Bool) (b b' : BoxZ), fBoundsLoop t first b cs = some b' →
      (first = false → b.le b') ∧ ∀ c ∈ cs, ∃ p, fPoint t c = some p ∧ ContainsQ b' p := by
  induction cs with
  | nil =>
    intro first b b' h
    simp only [fBoundsLoop, Option.some.injEq] at h
    subst h
    exact ⟨fun _ => boxLe_refl _, by intro c hc; cases hc⟩
  | cons c rest ih =>
    intro first b b' h
    unfold fBoundsLoop at h
    cases hp : fPoint t c with
    | none => rw [hp] at h; cases h
    | some p =>
      rw [hp] at h; simp only at h
      obtain ⟨hle, hall⟩ := ih false _ b' h
      have st := fBoundsStep_spec first b p
      refine ⟨fun hf => boxLe_trans _ _ _ (st.2 hf) (hle rfl), ?_⟩
      intro c' hc'
      rcases List.mem_cons.mp hc' with e | e
      · subst e
        exact ⟨p, hp, containsQ_mono _ _ _ (hle rfl) st.1⟩
      · exact hall c' e

/-- `pixman_f_transform_bounds` returning TRUE: every corner of the input box has `w ≠ 0` and its exact image
    lies in the returned box -/
theorem fBounds_contains_corners_partial (t : FT) (b b' : BoxZ) (h : fBounds t b = some b') :
    ∀ c ∈ fCorners b, ∃ p, fPoint t c = some p ∧ ContainsQ b' p :=
  (fBoundsLoop_spec t (fCorners b) true b b' h).2

example : fPoint ⟨1, 0, 0, 0, 1, 0, 0, 0, 2⟩ ⟨3, 5, 1⟩ = some ⟨3 / 2, 5 / 2, 1⟩ := by decide +kernel
example : fPoint ⟨1, 0, 0, 0, 1, 0, 1, 0, -1⟩ ⟨1, 7, 1⟩ = none := by decide +kernel
example : fBounds ⟨1 / 2, 0, 1 / 4, 0, 3, 0, 0, 0, 1⟩ ⟨0, 0, 3, 1⟩ = some ⟨0, 0, 2, 3⟩ := by decide +kernel

/-! ### the fixed/float round trips (`pixman_f_transform_from_pixman_transform` ∘/∘ `pixman_transform_from_pixman_f_transform`)

Since 50296f6 the conversion from `double` contains no inexact operation (see `entryToFixed`), so these are statements
about the library's function on every finite `double` (`entryFromDouble x = entryToFixed (toRat x)`), tied by the literal
`f_from` / `f_to` correspondence. -/

/-- on a finite `double` the conversion is the rational function of its exact value -/
theorem entryFromDouble_finite (x : Pixman.Model.Binary64.F64)
    (h1 : Pixman.Model.Binary64.isNaN x = false) (h2 : Pixman.Model.Binary64.isInf x = false) :
    entryFromDouble x = (entryToFixed (Pixman.Model.Binary64.toRat x)).map some := by
  unfold entryFromDouble
  simp only [h1, h2, Bool.false_eq_true, if_false]
  cases entryToFixed (Pixman.Model.Binary64.toRat x) <;> rfl

/-- `from (to (t)) = t` entry by entry: a 16.16 value of magnitude at most 32767.0 survives the round trip through `double` -/
theorem from_to_roundtrip (t : Int) (hr : -2147418112 ≤ t ∧ t ≤ 2147418112) : entryToFixed (fixedToRat t) = some t := by
  unfold entryToFixed fixedToRat
  have h1 : ((-2147418112 : Int) : Rat) ≤ (t : Rat) := Rat.intCast_le_intCast.mpr hr.1
  have h2 : (t : Rat) ≤ ((2147418112 : Int) : Rat) := Rat.intCast_le_intCast.mpr hr.2
  have e1 : ((-2147418112 : Int) : Rat) = -2147418112 := by simp
  have e2 : ((2147418112 : Int) : Rat) = 2147418112 := by simp
  rw [e1] at h1; rw [e2] at h2
  have hin : ¬ ((t : Rat) / 65536 < -32767 ∨ (t : Rat) / 65536 > 32767) := by grind
  have hx : (t : Rat) / 65536 * 65536 = (t : Rat) := by grind
  simp only [hin, if_false, hx, Rat.floor_intCast, Option.some.injEq]
  have : ¬ ((t : Rat) - (t : Rat) ≥ 1 / 2) := by grind
  simp only [this, if_false]

/-- ... and a 16.16 value beyond ±32767.0 (representable: up to ±32768.0) is REFUSED by the conversion back:
    `pixman_transform_from_pixman_f_transform (pixman_f_transform_from_pixman_transform (t))` is FALSE for such a matrix
    (the range check is `[-32767.0, 32767.0]`, not the range of `pixman_fixed_t`) -/
theorem from_to_refused (t : Int) (hr : t < -2147418112 ∨ 2147418112 < t) : entryToFixed (fixedToRat t) = none := by
  unfold entryToFixed fixedToRat
  have hout : (t : Rat) / 65536 < -32767 ∨ (t : Rat) / 65536 > 32767 := by
    rcases hr with h | h
    · left
      have : (t : Rat) < ((-2147418112 : Int) : Rat) := Rat.intCast_lt_intCast.mpr h
      have e1 : ((-2147418112 : Int) : Rat) = -2147418112 := by simp
      grind
    · right
      have : ((2147418112 : Int) : Rat) < (t : Rat) := Rat.intCast_lt_intCast.mpr h
      have e2 : ((2147418112 : Int) : Rat) = 2147418112 := by simp
      grind
  simp only [hout, if_true]

/-- the matrix-level round trip: TRUE with the same matrix when every entry is within ±32767.0 -/
theorem toFixed_fromFixed (t : Transform)
    (h : ∀ x ∈ [t.m00, t.m01, t.m02, t.m10, t.m11, t.m12, t.m20, t.m21, t.m22], -2147418112 ≤ x ∧ x ≤ 2147418112) :
    toFixed (fromFixed t) = some t := by
  have g : ∀ x, (-2147418112 ≤ x ∧ x ≤ 2147418112) → entryToFixed (fixedToRat x) = some x := from_to_roundtrip
  simp only [List.mem_cons, List.mem_nil_iff, or_false, forall_eq_or_imp, forall_eq] at h
  obtain ⟨h0, h1, h2, h3, h4, h5, h6, h7, h8⟩ := h
  simp only [toFixed, fromFixed, g _ h0, g _ h1, g _ h2, g _ h3, g _ h4, g _ h5, g _ h6, g _ h7, g _ h8]

/-- `to (from (v))` is within 2⁻¹⁷ of `v` (half a unit of 1/65536; nearest, ties up), with NO further slack:
    `-2⁻¹⁷ < r/65536 - v ≤ 2⁻¹⁷` for every in-range `v` -/
theorem to_from_within (v : Rat) (r : Int) (h : entryToFixed v = some r) :
    InRange v ∧ -(1 / 131072) < fixedToRat r - v ∧ fixedToRat r - v ≤ 1 / 131072 := by
  obtain ⟨hr, hn, _⟩ := entryToFixed_some v r h
  unfold NearestFixed at hn
  unfold fixedToRat
  refine ⟨hr, ?_, ?_⟩ <;> grind

-- non-vacuity on concrete `double`s (kernel evaluation of `Binary64.toRat` / `roundBits`)
example : entryFromDouble 4530621225134718975 = some (some 0) := by decide +kernel   -- (1/2 - 2^-54)/65536: was 1 before 50296f6
example : entryFromDouble 4530621225134718976 = some (some 1) := by decide +kernel   -- 0.5/65536: the tie goes up
example : entryFromDouble 13753993261989494784 = some (some 0) := by decide +kernel  -- -0.5/65536: the tie goes up
example : entryFromDouble (fixedToDoubleBits (-98304)) = some (some (-98304)) := by decide +kernel
example : entryFromDouble (fixedToDoubleBits 2147450880) = none := by decide +kernel   -- 32767.5 is refused
example : fixedToDoubleBits (-98304) = 0xbff8000000000000 := by decide +kernel         -- -1.5

/-! ### pixman_f_transform_scale / rotate / translate -/

theorem mulSpec_assoc (a b c : FT) : mulSpec (mulSpec a b) c = mulSpec a (mulSpec b c) := by
  simp only [mulSpec, FT.mk.injEq]
  refine ⟨?_, ?_, ?_, ?_, ?_, ?_, ?_, ?_, ?_⟩ <;> grind
theorem mulSpec_id_left (a : FT) : mulSpec identity a = a := by
  cases a; simp only [mulSpec, identity, FT.mk.injEq]
  refine ⟨?_, ?_, ?_, ?_, ?_, ?_, ?_, ?_, ?_⟩ <;> grind
theorem mulSpec_id_right (a : FT) : mulSpec a identity = a := by
  cases a; simp only [mulSpec, identity, FT.mk.injEq]
  refine ⟨?_, ?_, ?_, ?_, ?_, ?_, ?_, ?_, ?_⟩ <;> grind

/-- the purpose of the forward/reverse pair: if `reverse` is the inverse of `forward` and `tr` the inverse of `tf`,
    then after `forward := tf·forward`, `reverse := reverse·tr` they are still inverse to each other -/
theorem pair_stays_inverse_partial (f r tf tr : FT) (h : IsInverse f r) (ht : IsInverse tf tr) :
    IsInverse (fMultiply tf f) (fMultiply r tr) := by
  rw [fMultiply_eq_mulSpec_partial, fMultiply_eq_mulSpec_partial]
  unfold IsInverse at *
  constructor
  · rw [mulSpec_assoc, ← mulSpec_assoc f r tr, h.1, mulSpec_id_left, ht.1]
  · rw [mulSpec_assoc, ← mulSpec_assoc tr tf f, ht.2, mulSpec_id_left, h.2]

/-- `pixman_f_transform_scale`: FALSE (nothing stored) iff a factor is zero; otherwise `forward := S(sx,sy)·forward`,
    `reverse := reverse·S(1/sx,1/sy)`, and the two operand matrices are exact inverses -/
theorem fScale_spec_partial (fwd rev : Option FT) (sx sy : Rat) :
    ((sx = 0 ∨ sy = 0) → fScale fwd rev sx sy = (false, fwd, rev)) ∧
    (¬ (sx = 0 ∨ sy = 0) →
      fScale fwd rev sx sy = (true, fwd.map (mulSpec (fInitScale sx sy)), rev.map (fun r => mulSpec r (fInitScale (1 / sx) (1 / sy)))) ∧
      IsInverse (fInitScale sx sy) (fInitScale (1 / sx) (1 / sy))) := by
  constructor
  · intro h; simp only [fScale, h, if_true]
  · intro h
    refine ⟨?_, ?_⟩
    · simp only [fScale, h, if_false, fApplyPair, fMultiply_eq_mulSpec_partial]
    · have h1 : sx ≠ 0 := fun e => h (Or.inl e)
      have h2 : sy ≠ 0 := fun e => h (Or.inr e)
      simp only [IsInverse, mulSpec, fInitScale, identity, FT.mk.injEq]
      refine ⟨⟨?_, ?_, ?_, ?_, ?_, ?_, ?_, ?_, ?_⟩, ⟨?_, ?_, ?_, ?_, ?_, ?_, ?_, ?_, ?_⟩⟩ <;> grind

/-- `pixman_f_transform_translate`: always TRUE; `forward := T(tx,ty)·forward`, `reverse := reverse·T(-tx,-ty)`,
    exact inverses -/
theorem fTranslate_spec_partial (fwd rev : Option FT) (tx ty : Rat) :
    fTranslate fwd rev tx ty = (true, fwd.map (mulSpec (fInitTranslate tx ty)), rev.map (fun r => mulSpec r (fInitTranslate (-tx) (-ty)))) ∧
    IsInverse (fInitTranslate tx ty) (fInitTranslate (-tx) (-ty)) := by
  refine ⟨?_, ?_⟩
  · simp only [fTranslate, fApplyPair, fMultiply_eq_mulSpec_partial]
  · simp only [IsInverse, mulSpec, fInitTranslate, identity, FT.mk.injEq]
    refine ⟨⟨?_, ?_, ?_, ?_, ?_, ?_, ?_, ?_, ?_⟩, ⟨?_, ?_, ?_, ?_, ?_, ?_, ?_, ?_, ?_⟩⟩ <;> grind

/-- `pixman_f_transform_rotate`: always TRUE; `forward := R(c,s)·forward`, `reverse := reverse·R(c,-s)`; the operand
    matrices multiply to `diag (c²+s², c²+s², 1)`: exact inverses iff `(c, s)` is a unit vector (the function does not check) -/
theorem fRotate_spec_partial (fwd rev : Option FT) (c s : Rat) :
    fRotate fwd rev c s = (true, fwd.map (mulSpec (fInitRotate c s)), rev.map (fun r => mulSpec r (fInitRotate c (-s)))) ∧
    mulSpec (fInitRotate c s) (fInitRotate c (-s)) = ⟨c * c + s * s, 0, 0, 0, c * c + s * s, 0, 0, 0, 1⟩ ∧
    (c * c + s * s = 1 → IsInverse (fInitRotate c s) (fInitRotate c (-s))) := by
  refine ⟨?_, ?_, ?_⟩
  · simp only [fRotate, fApplyPair, fMultiply_eq_mulSpec_partial]
  · simp only [mulSpec, fInitRotate, FT.mk.injEq]
    refine ⟨?_, ?_, ?_, ?_, ?_, ?_, ?_, ?_, ?_⟩ <;> grind
  · intro h
    simp only [IsInverse, mulSpec, fInitRotate, identity, FT.mk.injEq]
    refine ⟨⟨?_, ?_, ?_, ?_, ?_, ?_, ?_, ?_, ?_⟩, ⟨?_, ?_, ?_, ?_, ?_, ?_, ?_, ?_, ?_⟩⟩ <;> grind

example : fScale (some identity) (some identity) 2 (1 / 4) = (true, some ⟨2, 0, 0, 0, 1 / 4, 0, 0, 0, 1⟩, some ⟨1 / 2, 0, 0, 0, 4, 0, 0, 0, 1⟩) := by decide +kernel
example : fScale (some identity) none 0 1 = (false, some identity, none) := by decide +kernel
example : fRotate (some identity) none (3 / 5) (4 / 5) = (true, some ⟨3 / 5, -4 / 5, 0, 4 / 5, 3 / 5, 0, 0, 0, 1⟩, none) := by decide +kernel

end Pixman.Props.C11Float

import Pixman.Spec.MatrixQ
/-! C11 — the floating point entry points (`pixman_f_transform_invert`, `pixman_transform_invert`, the
    fixed/float conversions, `pixman_f_transform_multiply/point/point_3d/bounds`): property theorems about
    the EXACT-RATIONAL model `Pixman/Model/MatrixQ.lean`.

    Every theorem here is `_partial`: the model replaces each `double` operation by the exact rational
    operation; IEEE-754 rounding (53-bit significands) is not modelled.  What the theorems establish is that
    the ALGORITHM (adjugate / determinant form, range check, `floor (v * 65536 + 0.5)`) is right; how far
    the library's doubles may stray from it is bounded a posteriori, per request, by the correspondence
    check (checks/C11.py, harness/matrix.c `invert_bound`). -/
namespace Pixman.Props.C11Float
open Pixman.Matrix Pixman.MatrixQ

/-- the determinant accumulated by the first loop of `pixman_f_transform_invert` (expansion along the
    first COLUMN, with the index tables `a`, `b`) is the determinant -/
theorem det_eq_detSpec_partial (m : FT) : det m = detSpec m := by
  simp only [det, detTerm, FT.get, ta, tb, detSpec]
  grind

/-- `pixman_f_transform_invert` returns FALSE iff the matrix is singular -/
theorem fInvert_none_iff_partial (m : FT) : fInvert m = none ↔ detSpec m = 0 := by
  rw [← det_eq_detSpec_partial]
  unfold fInvert
  by_cases h : det m = 0 <;> simp [h]

/-- `pixman_f_transform_invert` returning TRUE: the result is exactly the two-sided inverse -/
theorem fInvert_inverse_partial (m d : FT) (h : fInvert m = some d) : IsInverse m d := by
  unfold fInvert at h
  by_cases h0 : det m = 0
  · simp [h0] at h
  · simp only [h0, if_false, Option.some.injEq] at h
    subst h
    simp only [det, detTerm, FT.get, ta, tb] at h0
    simp only [IsInverse, mulSpec, identity, cofactor, det, detTerm, FT.get, ta, tb, FT.mk.injEq]
    refine ⟨⟨?_, ?_, ?_, ?_, ?_, ?_, ?_, ?_, ?_⟩, ⟨?_, ?_, ?_, ?_, ?_, ?_, ?_, ?_, ?_⟩⟩ <;> grind

example : fInvert ⟨2, 0, 1, 0, 4, 0, 0, 0, 1⟩ = some ⟨1/2, 0, -1/2, 0, 1/4, 0, 0, 0, 1⟩ := by decide +kernel
example : fInvert ⟨1, 2, 3, 2, 4, 6, 0, 1, 5⟩ = none := by decide +kernel

/-- `pixman_f_transform_multiply` is the matrix product -/
theorem fMultiply_eq_mulSpec_partial (l r : FT) : fMultiply l r = mulSpec l r := by
  simp only [fMultiply, MatrixQ.mulEntry, FT.get, mulSpec, FT.mk.injEq]
  refine ⟨?_, ?_, ?_, ?_, ?_, ?_, ?_, ?_, ?_⟩ <;> grind

/-- one entry of `pixman_transform_from_pixman_f_transform`: FALSE iff outside `[-32767, 32767]` -/
theorem entryToFixed_none_iff_partial (d : Rat) : entryToFixed d = none ↔ ¬ InRange d := by
  unfold entryToFixed InRange
  by_cases h : d < -32767 ∨ d > 32767
  · simp only [h, if_true, true_iff]; grind
  · simp only [h, if_false, reduceCtorEq, false_iff, Classical.not_not]; grind

/-- ... otherwise the stored value is a nearest 1/65536 (conversion error ≤ 1/2 unit) and fits `int32_t`
    (the cast `(pixman_fixed_t)` of the C code is value-preserving) -/
theorem entryToFixed_some_partial (d : Rat) (q : Int) (h : entryToFixed d = some q) :
    InRange d ∧ NearestFixed q d ∧ Pixman.Spec.Fixed.Rep32 q := by
  unfold entryToFixed at h
  by_cases hr : d < -32767 ∨ d > 32767
  · simp [hr] at h
  · simp only [hr, if_false, Option.some.injEq] at h
    have f1 := Rat.floor_le (d * 65536 + 1 / 2)
    have f2 := Rat.lt_floor_add_one (d * 65536 + 1 / 2)
    rw [h] at f1 f2
    rw [Rat.intCast_add] at f2
    have r1 : -32767 ≤ d := by grind
    have r2 : d ≤ 32767 := by grind
    refine ⟨⟨r1, r2⟩, ⟨by grind, by grind⟩, ?_⟩
    -- q ≤ 32767·65536 + 1/2 and q > −32767·65536 − 1/2
    have u1 : (q : Rat) < ((2147418113 : Int) : Rat) := by
      have : ((2147418113 : Int) : Rat) = 2147418113 := by simp
      grind
    have u2 : ((-2147418113 : Int) : Rat) < (q : Rat) := by
      have : ((-2147418113 : Int) : Rat) = -2147418113 := by simp
      grind
    have v1 := Rat.intCast_lt_intCast.mp u1
    have v2 := Rat.intCast_lt_intCast.mp u2
    unfold Pixman.Spec.Fixed.Rep32; omega

example : entryToFixed (3 / 131072) = some 2 := by decide +kernel     -- a tie (1.5 units) goes up
example : entryToFixed (-3 / 131072) = some (-1) := by decide +kernel  -- ... also for negative values (floor (x + 1/2))
example : entryToFixed (32767 + 1 / 65536) = none := by decide +kernel

/-- `pixman_transform_from_pixman_f_transform`: TRUE iff every entry lies in `[-32767, 32767]` ("overflow ⇒ FALSE") -/
theorem toFixed_isSome_iff_partial (m : FT) : (toFixed m).isSome = true ↔ FT.All InRange m := by
  have e := fun d => entryToFixed_none_iff_partial d
  unfold toFixed FT.All
  constructor
  · intro h
    split at h
    · next a b c d e' f g h' i h0 h1 h2 h3 h4 h5 h6 h7 h8 =>
      exact ⟨(entryToFixed_some_partial _ _ h0).1, (entryToFixed_some_partial _ _ h1).1, (entryToFixed_some_partial _ _ h2).1,
             (entryToFixed_some_partial _ _ h3).1, (entryToFixed_some_partial _ _ h4).1, (entryToFixed_some_partial _ _ h5).1,
             (entryToFixed_some_partial _ _ h6).1, (entryToFixed_some_partial _ _ h7).1, (entryToFixed_some_partial _ _ h8).1⟩
    · cases h
  · intro ⟨h0, h1, h2, h3, h4, h5, h6, h7, h8⟩
    have g : ∀ d, InRange d → ∃ q, entryToFixed d = some q := by
      intro d hd
      cases hq : entryToFixed d with
      | none => exact absurd hd ((e d).mp hq)
      | some q => exact ⟨q, rfl⟩
    obtain ⟨_, e0⟩ := g _ h0; obtain ⟨_, e1⟩ := g _ h1; obtain ⟨_, e2⟩ := g _ h2
    obtain ⟨_, e3⟩ := g _ h3; obtain ⟨_, e4⟩ := g _ h4; obtain ⟨_, e5⟩ := g _ h5
    obtain ⟨_, e6⟩ := g _ h6; obtain ⟨_, e7⟩ := g _ h7; obtain ⟨_, e8⟩ := g _ h8
    simp only [e0, e1, e2, e3, e4, e5, e6, e7, e8, Option.isSome_some]

/-- ... and then every stored entry is a nearest 1/65536 of the rational entry and fits `int32_t` -/
theorem toFixed_some_partial (m : FT) (t : Transform) (h : toFixed m = some t) :
    Entrywise NearestFixed t m ∧ t.Rep := by
  unfold toFixed at h
  split at h
  · next a b c d e f g h' i h0 h1 h2 h3 h4 h5 h6 h7 h8 =>
    simp only [Option.some.injEq] at h
    subst h
    have s0 := entryToFixed_some_partial _ _ h0; have s1 := entryToFixed_some_partial _ _ h1
    have s2 := entryToFixed_some_partial _ _ h2; have s3 := entryToFixed_some_partial _ _ h3
    have s4 := entryToFixed_some_partial _ _ h4; have s5 := entryToFixed_some_partial _ _ h5
    have s6 := entryToFixed_some_partial _ _ h6; have s7 := entryToFixed_some_partial _ _ h7
    have s8 := entryToFixed_some_partial _ _ h8
    exact ⟨⟨s0.2.1, s1.2.1, s2.2.1, s3.2.1, s4.2.1, s5.2.1, s6.2.1, s7.2.1, s8.2.1⟩,
           ⟨s0.2.2, s1.2.2, s2.2.2, s3.2.2, s4.2.2, s5.2.2, s6.2.2, s7.2.2, s8.2.2⟩⟩
  · cases h

/-- the determinant of the converted matrix is the integer determinant scaled by 2⁻⁴⁸: a 16.16 matrix is
    singular over the rationals iff its integer determinant vanishes -/
theorem detSpec_fromFixed_partial (t : Transform) : detSpec (fromFixed t) = (detInt t : Rat) / 281474976710656 := by
  simp only [detSpec, fromFixed, fixedToRat, detInt, Rat.intCast_add, Rat.intCast_sub, Rat.intCast_mul]
  grind

theorem detSpec_fromFixed_zero_iff_partial (t : Transform) : detSpec (fromFixed t) = 0 ↔ detInt t = 0 := by
  rw [detSpec_fromFixed_partial]
  constructor
  · intro h
    have : (detInt t : Rat) = ((0 : Int) : Rat) := by simp only [Rat.intCast_zero]; grind
    exact Rat.intCast_inj.mp this
  · intro h; rw [h]; simp only [Rat.intCast_zero]; grind

/-- `pixman_transform_invert`: singular input (integer determinant 0) ⇒ FALSE -/
theorem invert_singular_partial (t : Transform) (h : detInt t = 0) : invert t = none := by
  unfold invert
  rw [(fInvert_none_iff_partial _).mpr ((detSpec_fromFixed_zero_iff_partial t).mpr h)]

/-- `pixman_transform_invert` returning TRUE: the input is regular, and the result is, entry by entry, a
    nearest 1/65536 (error ≤ 1/2 unit, the only rounding of the idealised computation) of THE exact rational
    inverse `d` of the input (`A·d = d·A = I` exactly), all of whose entries lie in `[-32767, 32767]`. -/
theorem invert_some_partial (t r : Transform) (h : invert t = some r) :
    detInt t ≠ 0 ∧ ∃ d : FT, IsInverse (fromFixed t) d ∧ FT.All InRange d ∧ Entrywise NearestFixed r d ∧ r.Rep := by
  unfold invert at h
  cases hf : fInvert (fromFixed t) with
  | none => rw [hf] at h; cases h
  | some d =>
    rw [hf] at h; simp only at h
    refine ⟨?_, d, fInvert_inverse_partial _ _ hf, ?_, toFixed_some_partial _ _ h⟩
    · intro h0
      have := invert_singular_partial t h0
      unfold invert at this; rw [hf] at this; simp only at this
      rw [this] at h; cases h
    · exact (toFixed_isSome_iff_partial d).mp (by rw [h]; rfl)

/-- `pixman_transform_invert` returns FALSE exactly when the input is singular or an entry of the exact
    inverse lies outside `[-32767, 32767]` ("overflow ⇒ FALSE") -/
theorem invert_none_iff_partial (t : Transform) :
    invert t = none ↔ detInt t = 0 ∨ ∃ d, fInvert (fromFixed t) = some d ∧ ¬ FT.All InRange d := by
  unfold invert
  cases hf : fInvert (fromFixed t) with
  | none =>
    simp only [true_iff]
    left
    exact (detSpec_fromFixed_zero_iff_partial t).mp ((fInvert_none_iff_partial _).mp hf)
  | some d =>
    simp only
    have hne : detInt t ≠ 0 := by
      intro h0
      have := (fInvert_none_iff_partial _).mpr ((detSpec_fromFixed_zero_iff_partial t).mpr h0)
      rw [this] at hf; cases hf
    have key := toFixed_isSome_iff_partial d
    constructor
    · intro hn
      right
      refine ⟨d, rfl, ?_⟩
      intro hall
      have := key.mpr hall
      rw [hn] at this; cases this
    · intro h
      rcases h with h | ⟨d', hd', hnot⟩
      · exact absurd h hne
      · simp only [Option.some.injEq] at hd'
        subst hd'
        cases ht : toFixed d with
        | none => rfl
        | some r => exact absurd (key.mp (by rw [ht]; rfl)) hnot

/-- the rational inverse is unique: whatever satisfies `A·b = I` is the matrix `fInvert` computes -/
theorem fInvert_unique_partial (m d b : FT) (h : fInvert m = some d) (hb : mulSpec m b = identity) : b = d := by
  have hi := (fInvert_inverse_partial m d h).2
  cases m; cases d; cases b
  simp only [mulSpec, identity, FT.mk.injEq] at hi hb ⊢
  refine ⟨?_, ?_, ?_, ?_, ?_, ?_, ?_, ?_, ?_⟩ <;> grind

-- non-vacuity: a regular 16.16 matrix (scale 2, 4 and a translation), an exactly singular one, an overflowing one
example : invert ⟨131072, 0, 65536, 0, 262144, 0, 0, 0, 65536⟩ = some ⟨32768, 0, -32768, 0, 16384, 0, 0, 0, 65536⟩ := by decide +kernel
example : invert ⟨98304, 0, 0, 0, 65536, 0, 0, 0, 65536⟩ = some ⟨43691, 0, 0, 0, 65536, 0, 0, 0, 65536⟩ := by decide +kernel
example : invert ⟨65536, 131072, 196608, 131072, 262144, 393216, 0, 65536, 327680⟩ = none := by decide +kernel
example : detInt ⟨65536, 131072, 196608, 131072, 262144, 393216, 0, 65536, 327680⟩ = 0 := by decide
example : invert ⟨1, 0, 0, 0, 65536, 0, 0, 0, 65536⟩ = none := by decide +kernel    -- 1/m00 = 65536.0 > 32767
example : detInt ⟨1, 0, 0, 0, 65536, 0, 0, 0, 65536⟩ ≠ 0 := by decide

/-! ### pixman_f_transform_point_3d, point, bounds -/

/-- `pixman_f_transform_point_3d`: the matrix-vector product -/
theorem fPoint3d_spec_partial (t : FT) (v : FV) :
    fPoint3d t v = ⟨t.m00 * v.x + t.m01 * v.y + t.m02 * v.z, t.m10 * v.x + t.m11 * v.y + t.m12 * v.z,
                    t.m20 * v.x + t.m21 * v.y + t.m22 * v.z⟩ := by
  simp only [fPoint3d, rowDot, FT.get, FV.mk.injEq]
  refine ⟨?_, ?_, ?_⟩ <;> grind

/-- `pixman_f_transform_point`: FALSE iff the homogeneous coordinate `w` is zero -/
theorem fPoint_none_iff_partial (t : FT) (v : FV) :
    fPoint t v = none ↔ t.m20 * v.x + t.m21 * v.y + t.m22 * v.z = 0 := by
  unfold fPoint
  rw [fPoint3d_spec_partial]
  simp only
  split <;> simp_all

/-- ... otherwise the result is the exact quotient `(x/w, y/w, 1)` -/
theorem fPoint_some_partial (t : FT) (v p : FV) (h : fPoint t v = some p) :
    p.x * (t.m20 * v.x + t.m21 * v.y + t.m22 * v.z) = t.m00 * v.x + t.m01 * v.y + t.m02 * v.z ∧
    p.y * (t.m20 * v.x + t.m21 * v.y + t.m22 * v.z) = t.m10 * v.x + t.m11 * v.y + t.m12 * v.z ∧ p.z = 1 := by
  unfold fPoint at h
  rw [fPoint3d_spec_partial] at h
  simp only at h
  split at h
  · cases h
  · next hw =>
    simp only [Option.some.injEq] at h
    subst h
    refine ⟨?_, ?_, rfl⟩ <;> simp only <;> grind

theorem le_ceil (x : Rat) : x ≤ (MatrixQ.ceil x : Rat) := by
  unfold MatrixQ.ceil
  have := Rat.floor_le (-x)
  rw [Rat.intCast_neg]
  grind

theorem fBoundsStep_spec (first : Bool) (b : BoxZ) (p : FV) :
    ContainsQ (fBoundsStep first b p) p ∧ (first = false → b.le (fBoundsStep first b p)) := by
  have f1 := Rat.floor_le p.x
  have f2 := Rat.floor_le p.y
  have c1 := le_ceil p.x
  have c2 := le_ceil p.y
  unfold fBoundsStep ContainsQ BoxZ.le
  cases first
  · simp only [Bool.false_eq_true, if_false, forall_const]
    refine ⟨⟨?_, ?_, ?_, ?_⟩, ?_, ?_, ?_, ?_⟩
    · split
      · exact f1
      · next h => exact Rat.le_trans (Rat.intCast_le_intCast.mpr (by omega)) f1
    · split
      · exact f2
      · next h => exact Rat.le_trans (Rat.intCast_le_intCast.mpr (by omega)) f2
    · split
      · exact c1
      · next h => exact Rat.le_trans c1 (Rat.intCast_le_intCast.mpr (by omega))
    · split
      · exact c2
      · next h => exact Rat.le_trans c2 (Rat.intCast_le_intCast.mpr (by omega))
    all_goals (split <;> omega)
  · simp only [if_true]
    exact ⟨⟨f1, f2, c1, c2⟩, by intro h; cases h⟩

theorem containsQ_mono (a b : BoxZ) (p : FV) (h : a.le b) (hc : ContainsQ a p) : ContainsQ b p := by
  unfold BoxZ.le at h; unfold ContainsQ at *
  exact ⟨Rat.le_trans (Rat.intCast_le_intCast.mpr h.1) hc.1, Rat.le_trans (Rat.intCast_le_intCast.mpr h.2.1) hc.2.1,
         Rat.le_trans hc.2.2.1 (Rat.intCast_le_intCast.mpr h.2.2.1), Rat.le_trans hc.2.2.2 (Rat.intCast_le_intCast.mpr h.2.2.2)⟩

theorem boxLe_refl (a : BoxZ) : a.le a := by unfold BoxZ.le; omega
theorem boxLe_trans (a b c : BoxZ) (h1 : a.le b) (h2 : b.le c) : a.le c := by unfold BoxZ.le at *; omega

theorem fBoundsLoop_spec (t : FT) (cs : List FV) :
    ∀ (first : Bool) (b b' : BoxZ), fBoundsLoop t first b cs = some b' →
      (first = false → b.le b') ∧ ∀ c ∈ cs, ∃ p, fPoint t c = some p ∧ ContainsQ b' p := by
  induction cs with
  | nil =>
    intro first b b' h
    simp only [fBoundsLoop, Option.some.injEq] at h
    subst h
    exact ⟨fun _ => boxLe_refl _, by intro c hc; cases hc⟩
  | cons c rest ih =>
    intro first b b' h
    unfold fBoundsLoop at h
    cases hp : fPoint t c with
    | none => rw [hp] at h; cases h
    | some p =>
      rw [hp] at h; simp only at h
      obtain ⟨hle, hall⟩ := ih false _ b' h
      have st := fBoundsStep_spec first b p
      refine ⟨fun hf => boxLe_trans _ _ _ (st.2 hf) (hle rfl), ?_⟩
      intro c' hc'
      rcases List.mem_cons.mp hc' with e | e
      · subst e
        exact ⟨p, hp, containsQ_mono _ _ _ (hle rfl) st.1⟩
      · exact hall c' e

/-- `pixman_f_transform_bounds` returning TRUE: every corner of the input box has `w ≠ 0` and its exact image
    lies in the returned box -/
theorem fBounds_contains_corners_partial (t : FT) (b b' : BoxZ) (h : fBounds t b = some b') :
    ∀ c ∈ fCorners b, ∃ p, fPoint t c = some p ∧ ContainsQ b' p :=
  (fBoundsLoop_spec t (fCorners b) true b b' h).2

example : fPoint ⟨1, 0, 0, 0, 1, 0, 0, 0, 2⟩ ⟨3, 5, 1⟩ = some ⟨3 / 2, 5 / 2, 1⟩ := by decide +kernel
example : fPoint ⟨1, 0, 0, 0, 1, 0, 1, 0, -1⟩ ⟨1, 7, 1⟩ = none := by decide +kernel
example : fBounds ⟨1 / 2, 0, 1 / 4, 0, 3, 0, 0, 0, 1⟩ ⟨0, 0, 3, 1⟩ = some ⟨0, 0, 2, 3⟩ := by decide +kernel

end Pixman.Props.C11Float

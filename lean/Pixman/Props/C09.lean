import Pixman.Props.C01
import Pixman.Gen.OperatorTable
import Pixman.Lemmas.Format
/-! C09 — opacity-based operator simplification never changes the picture: property theorems.

(O1) if two operators have the same factor pair once "the alpha this factor looks at is 1" is
     used, they produce identical channels for all pixel values with that alpha equal to 255;
(O2) `table_sound_partial`: every cell of the REGENERATED `operator_table` is such a
     replacement (rows whose factors are 0/1/alpha/1−alpha), or the operator itself; the
     SATURATE row is the gap;
(O2') `optimizeOperator` (regenerated) picks cell `2·dstOpaque + srcOpaque`;
(O4) a unified mask whose alpha is 255 leaves the source unchanged.
(O3, soundness of the opacity *flags*, belongs to the image-state model and is not here.) -/
namespace Pixman.Props.C09
open Pixman.Arith Pixman.Lanes Pixman.Spec Pixman.Combine32 Pixman.Lemmas
open Pixman.Gen.OperatorTable

/-! ## O1 -/

theorem simplify_eval (f : Factor) (a : Nat) (h : a = 255) :
    (f.simplify true).eval a = f.eval a := by
  subst h; cases f <;> rfl
example : (Factor.invAlpha.simplify true).eval 255 = 0 ∧ Factor.invAlpha.eval 255 = 0 := by decide

/-- (O1) equal simplified factor pairs ⇒ identical channels, for all channel values. -/
theorem equiv_of_simplified (F G : Factor × Factor) (so dop : Bool)
    (h : simplifyPair F so dop = simplifyPair G so dop)
    (s sa d da : Nat) (hso : so = true → sa = 255) (hdo : dop = true → da = 255) :
    channelF F s sa d da = channelF G s sa d da := by
  unfold simplifyPair at h
  obtain ⟨ha, hb⟩ := Prod.mk.inj h
  have h1 : (F.1.simplify dop).eval da = (G.1.simplify dop).eval da := by rw [ha]
  have h2 : (F.2.simplify so).eval sa = (G.2.simplify so).eval sa := by rw [hb]
  have e1 : F.1.eval da = G.1.eval da := by
    cases dop with
    | false => exact h1
    | true => rw [← simplify_eval F.1 da (hdo rfl), ← simplify_eval G.1 da (hdo rfl)]; exact h1
  have e2 : F.2.eval sa = G.2.eval sa := by
    cases so with
    | false => exact h2
    | true => rw [← simplify_eval F.2 sa (hso rfl), ← simplify_eval G.2 sa (hso rfl)]; exact h2
  unfold channelF
  rw [e1, e2]
/- non-vacuity: OVER and SRC under "source opaque" -/
example : simplifyPair (factors .over) true false = simplifyPair (factors .src) true false := by
  decide
example : channelF (factors .over) 0x40 255 0x80 0x33 = channelF (factors .src) 0x40 255 0x80 0x33 :=
  equiv_of_simplified _ _ true false (by decide) _ _ _ _ (fun _ => rfl) (fun h => by cases h)

/-! ## O2: the regenerated table -/

/-- cell `i` (bit 0 = source opaque, bit 1 = destination opaque) of row `op` is fine: the row's
operator has Render factors `F`, the replacement has Render factors `G`, and they agree after
simplification — or the operator has no such factors and the replacement is the operator itself
— or the row is a filler between the operator groups — or the row is SATURATE (the gap). -/
def cellOk (op i : Nat) : Bool :=
  match renderFactors? op with
  | some F =>
    match renderFactors? (cell op i) with
    | some G => decide (simplifyPair F (i % 2 == 1) (i / 2 == 1) = simplifyPair G (i % 2 == 1) (i / 2 == 1))
    | none => false
  | none =>
    cell op i == op || !(opCodes.any (fun p => p.2 == op)) || op == 13

theorem table_size : operatorTable.length = 63 ∧ operatorTable.all (fun r => r.length == 4) = true := by
  decide

/-- (O2) every cell of every row of the regenerated `operator_table`.
PARTIAL: row 13 (SATURATE → OVER_REVERSE / DST / DST) is accepted without proof — its factor
`min(1,(1−dₐ)/sₐ)` needs the rational Spec of the float pipeline. -/
theorem table_sound_partial : ∀ op, op < 63 → ∀ i, i < 4 → cellOk op i = true := by decide

/-- the rows that `table_sound_partial` decides by factor comparison: all 8-bit Porter-Duff /
ADD operators and the six DISJOINT_/CONJOINT_ CLEAR/SRC/DST aliases -/
theorem table_rows_with_factors :
    ((List.range 63).filter (fun op => (renderFactors? op).isSome))
      = [0, 1, 2, 3, 4, 5, 6, 7, 8, 9, 10, 11, 12, 16, 17, 18, 32, 33, 34] := by decide

/-- the table never leaves the 8-bit Porter-Duff/ADD family when it starts inside it -/
theorem cell_closed (op : Op) (i : Nat) (hi : i < 4) : ∃ op' : Op, op'.code = cell op.code i := by
  have h : ∀ c, c < 13 → ∀ i, i < 4 → (Op.ofCode? (cell c i)).isSome = true := by decide
  have hc : op.code < 13 := by cases op <;> decide
  have := h op.code hc i hi
  cases hq : Op.ofCode? (cell op.code i) with
  | none => rw [hq] at this; cases this
  | some op' =>
    refine ⟨op', ?_⟩
    unfold Op.ofCode? at hq
    have := List.find?_some hq
    simpa using this

private theorem renderFactors_op (op : Op) : renderFactors? op.code = some (factors op) := by
  cases op <;> rfl

private theorem channel_eq_channelF (op : Op) (s sa d da : Nat) :
    channel op s sa d da = channelF (factors op) s sa d da := rfl

/-- (O2 lifted by O1) replacing an 8-bit operator by its table cell does not change any channel,
for all channel values, when the alphas the cell assumes opaque are 255. -/
theorem table_cell_equiv (op : Op) (so dop : Bool) (s sa d da : Nat)
    (hso : so = true → sa = 255) (hdo : dop = true → da = 255) :
    ∃ op' : Op, op'.code = cell op.code (2 * dop.toNat + so.toNat) ∧
      channel op s sa d da = channel op' s sa d da := by
  have hi : 2 * dop.toNat + so.toNat < 4 := by cases dop <;> cases so <;> decide
  obtain ⟨op', hop'⟩ := cell_closed op _ hi
  refine ⟨op', hop', ?_⟩
  have hc : op.code < 63 := by cases op <;> decide
  have ok := table_sound_partial op.code hc _ hi
  unfold cellOk at ok
  rw [renderFactors_op op, ← hop', renderFactors_op op'] at ok
  simp only [decide_eq_true_eq] at ok
  have e1 : ((2 * dop.toNat + so.toNat) % 2 == 1) = so := by cases dop <;> cases so <;> rfl
  have e2 : ((2 * dop.toNat + so.toNat) / 2 == 1) = dop := by cases dop <;> cases so <;> rfl
  rw [e1, e2] at ok
  rw [channel_eq_channelF, channel_eq_channelF]
  exact equiv_of_simplified _ _ so dop ok s sa d da hso hdo

/-- whole pixels, unified alpha: "source opaque" means the masked source alpha is 255 (source
alpha 255 and no mask or mask alpha 255), "destination opaque" that the destination alpha is. -/
theorem optimized_unified_pixel (op : Op) (so dop : Bool) (s d : Nat) (mask : Option Nat)
    (hso : so = true → maskedU .a s mask = 255) (hdo : dop = true → chan .a d = 255) :
    ∃ op' : Op, op'.code = cell op.code (2 * dop.toNat + so.toNat) ∧
      unifiedPixel op s mask d = unifiedPixel op' s mask d := by
  obtain ⟨op', hop', _⟩ := table_cell_equiv op so dop 0 (maskedU .a s mask) 0 (chan .a d) hso hdo
  refine ⟨op', hop', ?_⟩
  unfold unifiedPixel unified
  have key : ∀ c, channel op (maskedU c s mask) (maskedU .a s mask) (chan c d) (chan .a d)
      = channel op' (maskedU c s mask) (maskedU .a s mask) (chan c d) (chan .a d) := by
    intro c
    obtain ⟨op'', hop'', h⟩ := table_cell_equiv op so dop (maskedU c s mask) (maskedU .a s mask)
      (chan c d) (chan .a d) hso hdo
    have : op'' = op' := by
      have hcode : op''.code = op'.code := by rw [hop'', hop']
      cases op'' <;> cases op' <;> first | rfl | (exfalso; revert hcode; decide)
    rw [← this]; exact h
  simp only [key]
example : unifiedPixel .over 0xff402010 none 0x80102030 = unifiedPixel .src 0xff402010 none 0x80102030 := by
  decide

/-- whole pixels, component alpha (a component-alpha mask is never flagged opaque, so only the
destination column applies). -/
theorem optimized_componentAlpha_pixel (op : Op) (dop : Bool) (s m d : Nat)
    (hdo : dop = true → chan .a d = 255) :
    ∃ op' : Op, op'.code = cell op.code (2 * dop.toNat) ∧
      componentAlphaPixel op s m d = componentAlphaPixel op' s m d := by
  obtain ⟨op', hop', _⟩ := table_cell_equiv op false dop 0 0 0 (chan .a d) (fun h => by cases h) hdo
  refine ⟨op', hop', ?_⟩
  unfold componentAlphaPixel componentAlpha
  have key : ∀ c, channel op (rnd (chan c s) (chan c m)) (rnd (chan c m) (chan .a s)) (chan c d)
        (chan .a d)
      = channel op' (rnd (chan c s) (chan c m)) (rnd (chan c m) (chan .a s)) (chan c d)
        (chan .a d) := by
    intro c
    obtain ⟨op'', hop'', h⟩ := table_cell_equiv op false dop (rnd (chan c s) (chan c m))
      (rnd (chan c m) (chan .a s)) (chan c d) (chan .a d) (fun h => by cases h) hdo
    have : op'' = op' := by
      have hcode : op''.code = op'.code := by rw [hop'', hop']
      cases op'' <;> cases op' <;> first | rfl | (exfalso; revert hcode; decide)
    rw [← this]; exact h
  simp only [key]

/-- through the model: the 8-bit combiner of the replacement operator computes the same pixel as
the combiner of the requested operator (C01 ∘ O2). -/
theorem optimized_combiner_pixel (op : Op) (so dop : Bool) (s d : Nat) (mask : Option Nat)
    (hs : s < 4294967296) (hd : d < 4294967296) (hm : ∀ m, mask = some m → m < 4294967296)
    (hso : so = true → maskedU .a s mask = 255) (hdo : dop = true → chan .a d = 255) :
    ∃ f g, combineU? op.code = some f ∧
      combineU? (cell op.code (2 * dop.toNat + so.toNat)) = some g ∧
      f s mask d = g s mask d := by
  obtain ⟨op', hop', he⟩ := optimized_unified_pixel op so dop s d mask hso hdo
  obtain ⟨f, hf, hfe⟩ := C01.unified_correct op s d mask hs hd hm
  obtain ⟨g, hg, hge⟩ := C01.unified_correct op' s d mask hs hd hm
  exact ⟨f, g, hf, hop' ▸ hg, by rw [hfe, hge, he]⟩

/-! ## O2': `optimize_operator` -/

private theorem and_8192 (x : Nat) : x &&& 8192 = (x / 8192 % 2) * 8192 := by
  have hd : (x &&& 8192) / 2^13 = (x / 2^13) &&& 1 := by rw [Nat.and_div_two_pow]
  have hm : (x &&& 8192) % 2^13 = (x % 2^13) &&& 0 := by rw [Nat.and_mod_two_pow]
  have e1 : (x / 2^13) &&& 1 = x / 2^13 % 2 := Nat.and_two_pow_sub_one_eq_mod _ 1
  have e2 : (x % 2^13) &&& 0 = 0 := Nat.and_zero _
  have := Nat.div_add_mod (x &&& 8192) (2^13)
  rw [hd, hm, e1, e2] at this
  omega

/-- `optimize_operator` reads bit 13 (`FAST_PATH_IS_OPAQUE`) of `dst_flags` and of
`src_flags & mask_flags` and returns cell `2·dst + src` of the operator's row. -/
theorem optimizeOperator_cell (op sf mf df : Nat) :
    optimizeOperator op sf mf df = cell op (2 * (df / 8192 % 2) + (sf &&& mf) / 8192 % 2) := by
  unfold optimizeOperator
  simp only [FAST_PATH_IS_OPAQUE, OPAQUE_SHIFT, Nat.shiftLeft_eq, Nat.shiftRight_eq_div_pow,
    Nat.reducePow, Nat.one_mul, Nat.reduceSub]
  rw [and_8192 df, and_8192 (sf &&& mf)]
  have a : df / 8192 % 2 < 2 := Nat.mod_lt _ (by decide)
  have b : (sf &&& mf) / 8192 % 2 < 2 := Nat.mod_lt _ (by decide)
  generalize df / 8192 % 2 = x at a ⊢
  generalize (sf &&& mf) / 8192 % 2 = y at b ⊢
  have hx : x = 0 ∨ x = 1 := by omega
  have hy : y = 0 ∨ y = 1 := by omega
  rcases hx with rfl | rfl <;> rcases hy with rfl | rfl <;> rfl
example : optimizeOperator 3 0x2000 0x2000 0 = 1 ∧ optimizeOperator 9 0x2000 0x2000 0x2000 = 1 ∧
    optimizeOperator 11 0 0x2000 0x2000 = 8 := by decide

/-! ## O4: an opaque unified mask leaves the source unchanged -/

theorem mulUn8_opaque (x : Nat) (hx : x ≤ 255) : mulUn8 x 255 = x := C01.mulUn8_255 x hx

theorem maskedU_opaque (c : Chan) (s m : Nat) (h : chan .a m = 255) :
    maskedU c s (some m) = maskedU c s none := by
  simp only [maskedU, h, rnd_255]

/-- Spec level: a unified mask with alpha 255 can be dropped, for every operator. -/
theorem unified_mask_elision (op : Op) (c : Chan) (s m d : Nat) (h : chan .a m = 255) :
    unified op c s (some m) d = unified op c s none d := by
  unfold unified
  rw [maskedU_opaque c s m h, maskedU_opaque .a s m h]

/-- model level: `combine_mask` with an opaque mask pixel returns the source pixel. -/
theorem combineMask_opaque (s m : Nat) (hs : s < 4294967296) (hm : m < 4294967296)
    (h : chan .a m = 255) : combineMask s (some m) = s := by
  apply eq_of_chan_eq _ _ (lt_combineMask s (some m) hs (by intro m' e; cases e; exact hm)) hs
  intro c
  rw [chan_combineMask c s m hm, h, rnd_255]
example : combineMask 0x80402010 (some 0xff123456) = 0x80402010 := by decide

/-! ## the whole request (C01 ∘ C09): `compositePixel` = store ∘ Spec ∘ fetch

`compositePixel` is what the driver evaluates for a correspondence line: opacity flags from the
presentations, the regenerated `optimize_operator`, mask elision, fetch, the 8-bit combiner of the
*replacement* operator, store.  For every Porter-Duff/ADD operator, every presentation of source,
mask and destination and all raw pixel values it returns the stored Spec pixel of the *requested*
operator. -/

open Pixman.CompositePixel

/-- component-alpha counterpart of `optimized_combiner_pixel` -/
theorem optimized_combinerCa_pixel (op : Op) (dop : Bool) (s m d : Nat)
    (hs : s < 4294967296) (hm : m < 4294967296) (hd : d < 4294967296)
    (hdo : dop = true → chan .a d = 255) :
    ∃ f g, combineCa? op.code = some f ∧ combineCa? (cell op.code (2 * dop.toNat)) = some g ∧
      f s m d = g s m d := by
  obtain ⟨op', hop', he⟩ := optimized_componentAlpha_pixel op dop s m d hdo
  obtain ⟨f, hf, hfe⟩ := C01.componentAlpha_correct op s m d hs hm hd
  obtain ⟨g, hg, hge⟩ := C01.componentAlpha_correct op' s m d hs hm hd
  exact ⟨f, g, hf, hop' ▸ hg, by rw [hfe, hge, he]⟩

private theorem flag_bit (b : Bool) : flag b / 8192 % 2 = b.toNat := by cases b <;> decide
private theorem flag_and_bit (a b : Bool) : (flag a &&& flag b) / 8192 % 2 = (a && b).toNat := by
  cases a <;> cases b <;> decide

/-- pixel-level mask elision -/
theorem unifiedPixel_mask_elision (op : Op) (s m d : Nat) (h : chan .a m = 255) :
    unifiedPixel op s (some m) d = unifiedPixel op s none d := by
  unfold unifiedPixel
  simp only [unified_mask_elision op _ s m d h]

theorem compositePixel_spec (op : Op) (ca : Bool) (src mask : Pres) (df : Fmt) (rep : Bool)
    (s m d : Nat) (hsrc : src ≠ .none) :
    compositePixel op.code ca src mask (.bits df rep) s m d =
      .pixel (df.store (match mask with
        | .none => unifiedPixel op (src.fetch s) none (df.fetch d)
        | _ => if ca then componentAlphaPixel op (src.fetch s) (mask.fetch m) (df.fetch d)
               else unifiedPixel op (src.fetch s) (some (mask.fetch m)) (df.fetch d))) := by
  have hs := presFetch_lt src s
  have hm := presFetch_lt mask m
  have hd := fetch_lt df d
  have hdo : (Pres.bits df rep).dstOpaque = true → chan .a (df.fetch d) = 255 := by
    intro h
    simp only [Pres.dstOpaque, Bool.and_eq_true, beq_iff_eq] at h
    exact fetch_alpha_opaque df d h.1
  have hso : src.srcOpaque s false = true → chan .a (src.fetch s) = 255 :=
    srcOpaque_alpha src s false hsrc
  unfold compositePixel
  simp only []
  rw [optimizeOperator_cell, flag_bit, flag_and_bit]
  generalize hS : src.fetch s = s32 at *
  generalize hD : df.fetch d = d32 at *
  generalize hdop : (Pres.bits df rep).dstOpaque = dop at *
  generalize hsop : src.srcOpaque s false = sop at *
  rcases mask with _ | _ | ⟨mf, mr⟩
  · -- no mask image
    have hmo : Pres.none.srcOpaque m ca = true := rfl
    rw [hmo, Bool.and_true]
    obtain ⟨f, g, hf, hg, he⟩ := optimized_combiner_pixel op sop dop s32 d32 none hs hd
      (by intro m' e; cases e) (by intro h; exact hso h) hdo
    obtain ⟨f', hf', hfe⟩ := C01.unified_correct op s32 d32 none hs hd (by intro m' e; cases e)
    have : f' = f := Option.some.inj (hf'.symm.trans hf)
    subst this
    simp only [hg, Option.map_some, if_true, ← he, hfe]
  all_goals
    simp only []
    generalize hmop : Pres.srcOpaque _ m ca = mop
    generalize hM : Pres.fetch _ m = m32 at hm ⊢
    cases mop with
    | true =>
      -- opaque unified mask: elided
      have hca : ca = false := by
        simp only [Pres.srcOpaque, Bool.and_eq_true, Bool.not_eq_true'] at hmop; exact hmop.1
      have hma : chan .a m32 = 255 := by
        rw [← hM]; exact srcOpaque_alpha _ m ca (by intro h; cases h) hmop
      obtain ⟨f, g, hf, hg, he⟩ := optimized_combiner_pixel op (sop && true) dop s32 d32 none hs hd
        (by intro m' e; cases e) (by intro h; rw [Bool.and_true] at h; exact hso h) hdo
      obtain ⟨f', hf', hfe⟩ := C01.unified_correct op s32 d32 none hs hd (by intro m' e; cases e)
      have : f' = f := Option.some.inj (hf'.symm.trans hf)
      subst this
      simp only [hg, Option.map_some, if_true, ← he, hfe, hca, Bool.false_eq_true, if_false,
        unifiedPixel_mask_elision op s32 m32 d32 hma]
    | false =>
      rw [Bool.and_false]
      simp only [Bool.false_eq_true, if_false, Bool.toNat_false, Nat.add_zero]
      cases ca with
      | true =>
        obtain ⟨f, g, hf, hg, he⟩ := optimized_combinerCa_pixel op dop s32 m32 d32 hs hm hd hdo
        obtain ⟨f', hf', hfe⟩ := C01.componentAlpha_correct op s32 m32 d32 hs hm hd
        have : f' = f := Option.some.inj (hf'.symm.trans hf)
        subst this
        simp only [hg, Option.map_some, if_true, ← he, hfe]
      | false =>
        obtain ⟨f, g, hf, hg, he⟩ := optimized_combiner_pixel op false dop s32 d32 (some m32) hs hd
          (by intro m' e; cases e; exact hm) (by intro h; cases h) hdo
        obtain ⟨f', hf', hfe⟩ := C01.unified_correct op s32 d32 (some m32) hs hd
          (by intro m' e; cases e; exact hm)
        have : f' = f := Option.some.inj (hf'.symm.trans hf)
        subst this
        simp only [Bool.toNat_false, Nat.add_zero] at hg
        simp only [hg, Option.map_some, Bool.false_eq_true, if_false, ← he, hfe]

example : compositePixel 3 false (.bits ⟨"x8r8g8b8", 32, .argb, 0, 8, 8, 8⟩ false) .solid
    (.bits ⟨"r5g6b5", 16, .argb, 0, 5, 6, 5⟩ false) 0x12804020 0x80000000 0x1234 = .pixel 18956 ∧
    (⟨"r5g6b5", 16, .argb, 0, 5, 6, 5⟩ : Fmt).store (unifiedPixel .over
      ((⟨"x8r8g8b8", 32, .argb, 0, 8, 8, 8⟩ : Fmt).fetch 0x12804020) (some 0x80000000)
      ((⟨"r5g6b5", 16, .argb, 0, 5, 6, 5⟩ : Fmt).fetch 0x1234)) = 18956 := by decide

/-- (O3, PARTIAL) the opacity flags the request model computes are sound: a source or mask it
flags opaque (bits image whose format has no alpha field, or a solid colour with alpha 255, not
component alpha) fetches alpha 255 for every raw pixel value; a destination it flags opaque
likewise.  Missing: `compute_image_info` itself (gradients, alpha maps, convolution filters,
transformed/partly-outside sources) is not modelled here. -/
theorem opaque_flag_sound_partial (pr : Pres) (v : Nat) (ca : Bool) (hp : pr ≠ .none) :
    (pr.srcOpaque v ca = true → chan .a (pr.fetch v) = 255) ∧
    (pr.dstOpaque = true → chan .a (pr.fetch v) = 255) := by
  refine ⟨srcOpaque_alpha pr v ca hp, ?_⟩
  intro h
  cases pr with
  | none => exact absurd rfl hp
  | solid => cases h
  | bits f rep =>
    simp only [Pres.dstOpaque, Bool.and_eq_true, beq_iff_eq] at h
    exact fetch_alpha_opaque f v h.1
example : (Pres.bits ⟨"x8r8g8b8", 32, .argb, 0, 8, 8, 8⟩ false).srcOpaque 0x12345678 false = true ∧
    chan .a ((Pres.bits ⟨"x8r8g8b8", 32, .argb, 0, 8, 8, 8⟩ false).fetch 0x12345678) = 255 := by decide

end Pixman.Props.C09

import Pixman.Model.FilterKernels
import Pixman.Lemmas.FilterKernels
/-! # C18 (deepening) — the sampling and normalisation arithmetic of pixman-filter.c over exact rationals

Model: `Pixman.Model.FilterKernels` — kernels IMPULSE, BOX, LINEAR, CUBIC, `integral()` (special cases, LINEAR
splits, 12-segment Simpson rule), the tap positions and the sampling / normalisation loops of `create_1d_filter`,
every `double` operation replaced by the exact operation on `Rat`.  The tie to the library is numerical
(checks/C18.py, request `exact`): every double that reaches one of the two `floor` calls is compared with the model's
exact value.  GAUSSIAN and the LANCZOS kernels (`exp`, `sin`) are outside this model.

* K  the sample is the exact Simpson sum; every kernel is even, hence `integral()` is reflection symmetric, a
     coefficient depends on |pos| only, and the samples of phase `n-1-i` are those of phase `i` in reverse order;
     closed forms for BOX×BOX and LINEAR×IMPULSE at scale 1; non-negativity (partial).
* N  normalisation with error diffusion: for ANY roundings the sum telescopes to `65536 − e_w`; with the code's
     `floor (v + 0.5)` the exact sum is 65536 — the residual added to the first tap is 0 in exact arithmetic (65536 for
     an all-zero phase); without diffusion it would only be within `width/2`. -/
namespace Pixman.Props.C18K
open Pixman.Model.Filter Pixman.Model.FilterKernels Pixman.Lemmas.FilterKernels

/-! ## K — kernels and sampling -/

/-- every modelled kernel is an even function -/
theorem K_kernel_even (k : Nat) (x : Rat) : kernel k (-x) = kernel k x := kernel_even k x

example : kernel 3 (-(3 / 2)) = kernel 3 (3 / 2) ∧ kernel 2 (1 / 4) = 3 / 4 := by
  refine ⟨kernel_even 3 _, ?_⟩
  simp [kernel, linear, Rat.abs]; grind

/-- the Simpson branch of `integral()` as the code's loops compute it IS the composite Simpson sum with 12 segments:
    `h/3 · (f₀ + 4(f₁+f₃+…+f₁₁) + 2(f₂+…+f₁₀) + f₁₂)`, `fᵢ = k1(x1 + i·h) · k2((x2 + i·h)·scale)`, `h = width/12` -/
theorem K_simpson_exact (k1 : Nat) (x1 : Rat) (k2 : Nat) (scale x2 width : Rat) :
    simpson k1 x1 k2 scale x2 width =
      width / 12 * (1 / 3) *
        (sampleAt k1 k2 scale x1 x2
          + 4 * (sampleAt k1 k2 scale (x1 + width / 12 * 1) (x2 + width / 12 * 1) + sampleAt k1 k2 scale (x1 + width / 12 * 3) (x2 + width / 12 * 3)
               + sampleAt k1 k2 scale (x1 + width / 12 * 5) (x2 + width / 12 * 5) + sampleAt k1 k2 scale (x1 + width / 12 * 7) (x2 + width / 12 * 7)
               + sampleAt k1 k2 scale (x1 + width / 12 * 9) (x2 + width / 12 * 9) + sampleAt k1 k2 scale (x1 + width / 12 * 11) (x2 + width / 12 * 11))
          + 2 * (sampleAt k1 k2 scale (x1 + width / 12 * 2) (x2 + width / 12 * 2) + sampleAt k1 k2 scale (x1 + width / 12 * 4) (x2 + width / 12 * 4)
               + sampleAt k1 k2 scale (x1 + width / 12 * 6) (x2 + width / 12 * 6) + sampleAt k1 k2 scale (x1 + width / 12 * 8) (x2 + width / 12 * 8)
               + sampleAt k1 k2 scale (x1 + width / 12 * 10) (x2 + width / 12 * 10))
          + sampleAt k1 k2 scale (x1 + width) (x2 + width)) := by
  unfold simpson
  simp only [List.foldl]
  push_cast
  grind

/-- `integral()` (all branches, any recursion depth) gives the same value on the reflected interval -/
theorem K_integral_mirror (fuel k1 k2 : Nat) (sc x1 x2 w : Rat) :
    integralF fuel k1 (-(x1 + w)) k2 sc (-(x2 + w)) w = integralF fuel k1 x1 k2 sc x2 w :=
  integralF_mirror fuel k1 k2 sc x1 x2 w

/-- the coefficient of a tap depends on `|pos|` only -/
theorem K_coeff_even (r s : Nat) (scale p : Rat) : coeff r s scale (-p) = coeff r s scale p := coeff_even r s scale p

/-- tap `w-1-k` of phase `n-1-i` sits at the negated position of tap `k` of phase `i` — except for a single phase
    (`n = 1`) with an even number of taps, whose support `[-w/2, w/2 - 1]` is not symmetric -/
theorem K_pos_mirror (w n i j k l : Nat) (hij : i + j + 1 = n) (hkl : k + l + 1 = w)
    (h : n % 2 = 0 ∨ (n = 1 ∧ w % 2 = 1)) : pos w n j l = -pos w n i k := pos_mirror w n i j k l hij hkl h

/-- hence the sampled integers of phase `n-1-i` are those of phase `i` in reverse order (exact model) -/
theorem K_phase_mirror (r s : Nat) (fixed : Int) (w n i j k l : Nat) (hij : i + j + 1 = n) (hkl : k + l + 1 = w)
    (h : n % 2 = 0 ∨ (n = 1 ∧ w % 2 = 1)) :
    coeff r s (scaleOf fixed) (pos w n j l) = coeff r s (scaleOf fixed) (pos w n i k) ∧
    (coeff r s (scaleOf fixed) (pos w n j l)).map rawOf = (coeff r s (scaleOf fixed) (pos w n i k)).map rawOf := by
  have e : coeff r s (scaleOf fixed) (pos w n j l) = coeff r s (scaleOf fixed) (pos w n i k) := by
    rw [pos_mirror w n i j k l hij hkl h, coeff_even]
  exact ⟨e, by rw [e]⟩

example : pos 3 4 3 2 = -pos 3 4 0 0 := pos_mirror 3 4 0 3 0 2 rfl rfl (Or.inl rfl)

theorem integralF_boxbox (f : Nat) (x1 sc x2 w : Rat) : integralF (f + 1) 1 x1 1 sc x2 w = some w := by
  simp [integralF]

theorem integralF_impulse2 (f k1 : Nat) (x1 sc x2 : Rat) (hk : k1 = 2 ∨ k1 = 3) :
    integralF (f + 1) k1 x1 0 sc x2 0 = some (kernel k1 x1) := by
  rcases hk with rfl | rfl <;> simp [integralF] <;> grind

/-- closed form, BOX reconstruction × BOX sampling at scale 1: the overlap of two unit boxes, `max (0, 1 − |pos|)` -/
theorem K_box_box_scale1 (p : Rat) : coeff 1 1 1 p = some (if p.abs ≤ 1 then 1 - p.abs else 0) := by
  unfold coeff
  simp only [kw1]
  unfold integral
  by_cases h : p.abs ≤ 1
  · rw [if_pos h, if_pos (by grind [Rat.abs]), integralF_boxbox]
    congr 1
    grind [Rat.abs]
  · rw [if_neg h, if_neg (by grind [Rat.abs])]

/-- closed form, LINEAR reconstruction × IMPULSE sampling (any scale multiplies a zero width; here scale 1): the tent
    `max (0, 1 − |pos|)` — bilinear interpolation -/
theorem K_linear_impulse_scale1 (p : Rat) : coeff 2 0 1 p = some (if p.abs ≤ 1 then 1 - p.abs else 0) := by
  unfold coeff
  simp only [kw2, kw0]
  unfold integral
  by_cases h : p.abs ≤ 1
  · rw [if_pos h, if_pos (by grind [Rat.abs])]
    have hm : max (p - 1 * 0 / 2) (-2 / 2) = p := by grind [Rat.abs]
    have hn : min (p - 1 * 0 / 2 + 1 * 0) (-2 / 2 + 2) = p := by grind [Rat.abs]
    rw [hm, hn]
    have hz : p - p = 0 := by grind
    rw [hz, integralF_impulse2 _ _ _ _ _ (Or.inl rfl)]
    simp [kernel, linear]
  · rw [if_neg h, if_neg (by grind [Rat.abs])]

/-- the two closed forms agree: at scale 1 BOX×BOX and LINEAR×IMPULSE give the same table -/
theorem K_boxbox_eq_linear_impulse (p : Rat) : coeff 1 1 1 p = coeff 2 0 1 p := by
  rw [K_box_box_scale1, K_linear_impulse_scale1]

/-- IMPULSE, BOX and LINEAR kernels (any combination, any positive scale, any position): every sampled coefficient is
    non-negative — through all branches of `integral()`, because `create_1d_filter` clips the integration interval to
    the supports of both kernels (CUBIC has negative lobes; the run counts them) -/
theorem K_coeff_nonneg (r s : Nat) (scale p c : Rat) (hr : r ≤ 2) (hs : s ≤ 2) (hsc : 0 < scale)
    (h : coeff r s scale p = some c) : 0 ≤ c ∧ 0 ≤ rawOf c := by
  have hc := coeff_nonneg r s scale p c hr hs hsc h
  refine ⟨hc, ?_⟩
  unfold rawOf rawArg
  have h1 := Rat.lt_floor_add_one (c * 65536 + 1 / 2)
  have h2 : (0 : Rat) ≤ c * 65536 := Rat.mul_nonneg hc (by grind)
  have h3 : ((-1 : Int) : Rat) < (((c * 65536 + 1 / 2).floor : Int) : Rat) := by push_cast at h1 ⊢; grind
  have := Rat.intCast_lt_intCast.mp h3
  omega

example : coeff 2 1 (3 / 2) (1 / 4) = some (7 / 8) := by decide +kernel

/-! ## N — normalisation with error diffusion -/

/-- whatever integers `ts` the loop stores, their sum is `c · Σ raw + e₀ − e_w` (`e_w` = error carried out) -/
theorem N_telescope (c : Rat) (raws ts : List Int) (e0 : Rat) (h : raws.length = ts.length) :
    ((sumInts ts : Int) : Rat) = c * ((sumInts raws : Int) : Rat) + e0 - followErr c raws ts e0 :=
  followErr_telescope c raws ts e0 h

/-- the error carried from tap to tap stays in `[-1/2, 1/2)` -/
theorem N_error_bounded (c : Rat) (raws : List Int) :
    -(1 / 2 : Rat) ≤ normErr c raws 0 ∧ normErr c raws 0 < 1 / 2 :=
  normErr_bounds c raws 0 (by grind) (by grind)

/-- exact arithmetic: a phase whose samples do not add up to 0 is normalised to EXACTLY 65536 by the loop alone —
    `new_total = 65536`, the residual `pixman_fixed_1 - new_total` is 0 -/
theorem N_exact_total (raws : List Int) (hT : sumInts raws ≠ 0) : sumInts (normalise raws) = 65536 := by
  unfold normalise
  have hlen := (normLoop_length (normFactor (sumInts raws)) raws 0).symm
  have tel := followErr_telescope (normFactor (sumInts raws)) raws (normLoop (normFactor (sumInts raws)) raws 0) 0 hlen
  rw [follow_normLoop] at tel
  have hb := normErr_bounds (normFactor (sumInts raws)) raws 0 (by grind) (by grind)
  have hc : normFactor (sumInts raws) * ((sumInts raws : Int) : Rat) = 65536 := by
    unfold normFactor
    rw [if_pos hT]
    have : ((sumInts raws : Int) : Rat) ≠ 0 := by exact_mod_cast hT
    grind
  rw [hc] at tel
  generalize normErr (normFactor (sumInts raws)) raws 0 = e at *
  generalize sumInts (normLoop (normFactor (sumInts raws)) raws 0) = S at *
  have hz : (65536 - S : Int) = 0 := by
    apply int_of_small
    · push_cast; grind
    · push_cast; grind
  omega

/-- a phase whose samples add up to 0 (after the repair ab45f14 the factor is 0): every normalised value is 0,
    `new_total = 0`, the residual gives the first tap the whole weight 65536 -/
theorem N_zero_total (raws : List Int) (hT : sumInts raws = 0) :
    normalise raws = raws.map (fun _ => 0) ∧ sumInts (normalise raws) = 0 := by
  unfold normalise normFactor
  rw [if_neg (by simpa using hT), normLoop_zero]
  exact ⟨rfl, sumInts_zeros raws⟩

/-- for comparison — WITHOUT error diffusion the rounded normalised values would add up to 65536 only within
    `width/2`; the diffusion is what makes the residual correction at most the double-rounding unit -/
theorem N_plain_rounding_bound (raws : List Int) (hT : sumInts raws ≠ 0) :
    -((raws.length : Nat) : Rat) / 2 ≤ ((sumInts (plainRound (normFactor (sumInts raws)) raws) : Int) : Rat) - 65536 ∧
    ((sumInts (plainRound (normFactor (sumInts raws)) raws) : Int) : Rat) - 65536 ≤ ((raws.length : Nat) : Rat) / 2 := by
  have hb := plain_bound (normFactor (sumInts raws)) raws
  have hc : normFactor (sumInts raws) * ((sumInts raws : Int) : Rat) = 65536 := by
    unfold normFactor
    rw [if_pos hT]
    have : ((sumInts raws : Int) : Rat) ≠ 0 := by exact_mod_cast hT
    grind
  rw [hc] at hb
  exact hb

example : plainRound (normFactor 3) [1, 1, 1] = [21845, 21845, 21845] := by decide +kernel

example : normalise [1, 1, 1] = [21845, 21846, 21845] ∧ sumInts (normalise [1, 1, 1]) = 65536 := by
  constructor
  · decide +kernel
  · exact N_exact_total [1, 1, 1] (by decide)

end Pixman.Props.C18K

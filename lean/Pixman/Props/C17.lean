import Pixman.Model.Glyph
/-! C17 — glyph cache: property theorems (under construction). -/
namespace Pixman.Props.C17
open Pixman.Glyph

end Pixman.Props.C17

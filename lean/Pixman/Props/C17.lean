import Pixman.Lemmas.GlyphStep
import Pixman.Lemmas.GlyphRefine
import Pixman.Lemmas.GlyphDup
/-!
  C17 — glyph cache: property theorems.

  All theorems hold for every table size `p.hashSize > 0`, every pair of water marks, every hash
  function `h` and every history (list of `Op`) starting from `create p`.

  `Counted p c` (Lemmas/GlyphInv.lean) is the accounting invariant; `counted_spec` spells it out.
  `HasEmpty p c` is `nGlyphs + nTomb ≤ hashSize - 1`; under `Counted` it says that some table slot
  is empty (`hasEmpty_iff_empty_slot`).  Results `.hang` of the model stand for a C loop that does
  not terminate (probe loops of lookup_glyph / insert_glyph / remove_glyph) or for the eviction loop
  reading the tail of an empty MRU list.
-/
namespace Pixman.Props.C17
open Pixman.Glyph

/-! ## accounting -/

/-- what `Counted` says, in plain terms -/
theorem counted_spec {p : Params} {c : Cache} (hc : Counted p c) :
    c.table.length = p.hashSize ∧
    c.nGlyphs = (c.table.countP Slot.isEntry : Nat) ∧
    c.nTomb = (c.table.countP Slot.isTomb : Nat) ∧
    (c.table.countP Slot.isEntry + c.table.countP Slot.isTomb + c.table.countP Slot.isEmpty = p.hashSize) ∧
    (∀ g, g ∈ c.mru ↔ Slot.entry g ∈ c.table) ∧
    c.mru.Nodup ∧
    (c.mru.length : Int) = c.nGlyphs ∧
    (∀ i j (hi : i < c.table.length) (hj : j < c.table.length) g,
        c.table[i] = .entry g → c.table[j] = .entry g → i = j) ∧
    (∀ g, Slot.entry g ∈ c.table → g.id < c.clock) := by
  have hlenE : (entries c.table).length = c.table.countP Slot.isEntry := by
    generalize c.table = t
    induction t with
    | nil => rfl
    | cons s t ih => rw [entries_cons, List.countP_cons]; cases s <;> simp [Slot.gl, Slot.isEntry, ih]
  have htot := count_total c.table
  rw [hlenE] at htot
  refine ⟨hc.tab.len, by rw [hc.tab.glyphs, hlenE], hc.tab.tombs, ?_, ?_, ?_, ?_, ?_, ?_⟩
  · rw [← hc.tab.len]; exact htot
  · intro g; rw [hc.mru.mem_iff, mem_entries]
  · exact hc.mru.nodup_iff.mpr hc.tab.nodup
  · rw [hc.mru.length_eq, hc.tab.glyphs]
  · intro i j hi hj g h1 h2
    exact entries_nodup_index c.table i j hi hj g hc.tab.nodup h1 h2
  · intro g hg; exact hc.tab.ids g (mem_entries.mpr hg)

/-- (C1) the fresh cache is counted -/
theorem create_accounting (p : Params) : Counted p (create p) := create_counted p

/-- (C1) every API call preserves the accounting invariant (whatever its result) -/
theorem step_accounting {p : Params} (hp : 0 < p.hashSize) (h : Nat → Nat → Nat) {c : Cache}
    (hc : Counted p c) (o : Op) : Counted p (step p h c o).1 :=
  (step_ok hp hc o).1

/-- (C1) the accounting invariant holds after every history -/
theorem run_accounting {p : Params} (hp : 0 < p.hashSize) (h : Nat → Nat → Nat) (ops : List Op) :
    Counted p (run p h (create p) ops).1 :=
  (run_ok hp ops _ (create_counted p) (create_hasEmpty hp)).1

/-! ## an empty slot always exists -/

theorem hasEmpty_iff_empty_slot {p : Params} {c : Cache} (hc : Counted p c) :
    HasEmpty p c ↔ Slot.empty ∈ c.table := hasEmpty_iff hc.tab

/-- (C4) with the capacity test `n_glyphs + n_tombstones ≥ HASH_SIZE - 1 ⇒ refuse`, every API call
    keeps at least one table slot empty -/
theorem step_keeps_empty_slot {p : Params} (hp : 0 < p.hashSize) (h : Nat → Nat → Nat) {c : Cache}
    (hc : Counted p c) (he : Slot.empty ∈ c.table) (o : Op) :
    Slot.empty ∈ (step p h c o).1.table :=
  (hasEmpty_iff_empty_slot (step_accounting hp h hc o)).mp
    (((step_ok hp hc o).2 ((hasEmpty_iff_empty_slot hc).mpr he)).2)

/-- (C4) after every history at least one slot is empty -/
theorem run_keeps_empty_slot {p : Params} (hp : 0 < p.hashSize) (h : Nat → Nat → Nat) (ops : List Op) :
    Slot.empty ∈ (run p h (create p) ops).1.table :=
  let r := run_ok (h := h) hp ops _ (create_counted p) (create_hasEmpty hp)
  (hasEmpty_iff_empty_slot r.1).mp r.2.1

/-! ## termination -/

/-- (C2) if some slot is empty, lookup_glyph terminates within `hashSize` probes: the probe sequence
    from any start index visits every slot -/
theorem lookup_terminates {p : Params} (hp : 0 < p.hashSize) (h : Nat → Nat → Nat) {c : Cache}
    (hl : c.table.length = p.hashSize) (he : Slot.empty ∈ c.table) (font key : Nat) :
    lookup p h c font key ≠ none :=
  lookupFrom_ne_none p c font key _ _ (mem_probe hl hp he _)

/-- (C2) insert_glyph's probe loop terminates if some slot is empty or a tombstone -/
theorem findFree_terminates {p : Params} (hp : 0 < p.hashSize) {c : Cache}
    (hl : c.table.length = p.hashSize) {s : Slot} (hs : s ∈ c.table) (hne : s.isEntry = false) (idx : Nat) :
    findFree p c p.hashSize idx ≠ none := by
  apply findFree_ne_none
  obtain ⟨j, hj, hg⟩ := mem_probe hl hp hs idx
  exact ⟨j, hj, by rw [hg]; exact hne⟩

/-- (C2) remove_glyph's probe loop finds every glyph object that is in the table, from any start -/
theorem findGlyph_terminates {p : Params} (hp : 0 < p.hashSize) {c : Cache}
    (hl : c.table.length = p.hashSize) {g : G} (hg : Slot.entry g ∈ c.table) (idx : Nat) :
    ∃ i, findGlyph p c g p.hashSize idx = some i ∧ c.get p i = .entry g := by
  cases hf : findGlyph p c g p.hashSize idx with
  | none => exact absurd hf (findGlyph_ne_none p c g _ _ (mem_probe hl hp hg idx))
  | some i => exact ⟨i, rfl, findGlyph_some p c g _ _ _ hf⟩

/-- one API call on a counted cache with an empty slot terminates -/
theorem step_never_hangs {p : Params} (hp : 0 < p.hashSize) (h : Nat → Nat → Nat) {c : Cache}
    (hc : Counted p c) (he : Slot.empty ∈ c.table) (o : Op) : (step p h c o).2 ≠ .hang :=
  ((step_ok hp hc o).2 ((hasEmpty_iff_empty_slot hc).mpr he)).1

/-- every operation of every history terminates: no probe loop runs out of slots, the eviction
    loop never finds the MRU list empty while `n_glyphs > LOW_WATER`, remove_glyph always finds
    its glyph -/
theorem run_never_hangs {p : Params} (hp : 0 < p.hashSize) (h : Nat → Nat → Nat) (ops : List Op) :
    Res.hang ∉ (run p h (create p) ops).2 :=
  (run_ok hp ops _ (create_counted p) (create_hasEmpty hp)).2.2

/-- consequently `run` never stops early: one result per operation -/
theorem run_length {p : Params} (hp : 0 < p.hashSize) (h : Nat → Nat → Nat) (ops : List Op) :
    (run p h (create p) ops).2.length = ops.length := by
  have gen : ∀ (ops : List Op) (c : Cache), Res.hang ∉ (run p h c ops).2 →
      (run p h c ops).2.length = ops.length := by
    intro ops
    induction ops with
    | nil => intro c _; rfl
    | cons o os ih =>
      intro c hn
      unfold run at hn ⊢
      simp only at hn ⊢
      split at hn
      · simp at hn
      · simp only [List.length_cons, Nat.add_right_cancel_iff]
        exact ih _ (fun hm => hn (List.mem_cons_of_mem _ hm))
  exact gen ops _ (run_never_hangs hp h ops)

/-! ## the capacity test -/

/-- a full cache refuses insertion and is left untouched (only the history clock ticks) -/
theorem insert_refused_when_full (p : Params) (h : Nat → Nat → Nat) (c : Cache) (font key : Nat)
    (hf : full p c = true) :
    (step p h c (.insert font key)).2 = .refused ∧
      (step p h c (.insert font key)).1 = { c with clock := c.clock + 1 } := by
  unfold step stepCore
  simp only [hf]
  split <;> exact ⟨rfl, rfl⟩

/-- insertion into a frozen cache that is not full succeeds (given the invariants) -/
theorem insert_succeeds_when_not_full {p : Params} (hp : 0 < p.hashSize) (h : Nat → Nat → Nat)
    {c : Cache} (hc : Counted p c) (hfz : 0 < c.freeze) (hf : full p c = false) (font key : Nat) :
    (step p h c (.insert font key)).2 = .inserted ⟨c.clock, font, key⟩ := by
  have he : HasEmpty p c := by
    simp only [full, ge_iff_le, decide_eq_false_iff_not] at hf
    unfold HasEmpty; omega
  have hnh := ((step_ok (h := h) hp hc (.insert font key)).2 he).1
  unfold step stepCore at hnh ⊢
  simp only [hf] at hnh ⊢
  rw [if_neg (by omega)] at hnh ⊢
  simp only [Bool.false_eq_true, if_false] at hnh ⊢
  split at hnh
  · rfl
  · exact absurd rfl hnh

/-! ## failed insertion (the cache cannot allocate its private copy of the image) -/

/-- an insertion whose image copy cannot be allocated returns NULL and leaves table, counters,
    freeze count and MRU list exactly as they were (only the history clock ticks) — for EVERY cache
    state, no invariant needed -/
theorem failed_insert_changes_nothing (p : Params) (h : Nat → Nat → Nat) (c : Cache) (font key : Nat) :
    step p h c (.insertFail font key) = ({ c with clock := c.clock + 1 }, .refused) := by
  unfold step; rw [stepCore_insertFail]

/-- on a cache with the invariants a failed insertion has exactly the effect of a lookup of the same
    key: none (a lookup is read-only) -/
theorem failed_insert_eq_lookup_state {p : Params} (hp : 0 < p.hashSize) (h : Nat → Nat → Nat) {c : Cache}
    (hc : Counted p c) (he : Slot.empty ∈ c.table) (font key : Nat) :
    (step p h c (.insertFail font key)).1 = (step p h c (.lookup font key)).1 := by
  rw [failed_insert_changes_nothing]
  have hn := lookup_ne_none (h := h) hp hc.tab ((hasEmpty_iff hc.tab).mpr he) font key
  unfold step
  simp only [stepCore]
  cases hl : lookup p h c font key with
  | none => exact absurd hl hn
  | some r => rfl

/-- read a failed insertion as a lookup -/
def failAsLookup : Op → Op
  | .insertFail f k => .lookup f k
  | o => o

/-- in ANY history from the fresh cache, failed insertions can be replaced by lookups without
    changing the final cache (table, counters, freeze count, MRU list, object names) -/
theorem run_failed_inserts_change_nothing {p : Params} (hp : 0 < p.hashSize) (h : Nat → Nat → Nat)
    (ops : List Op) :
    (run p h (create p) ops).1 = (run p h (create p) (ops.map failAsLookup)).1 := by
  have gen : ∀ (ops : List Op) (c : Cache), Counted p c → HasEmpty p c →
      (run p h c ops).1 = (run p h c (ops.map failAsLookup)).1 := by
    intro ops
    induction ops with
    | nil => intro c _ _; rfl
    | cons o os ih =>
      intro c hc he
      have hem := (hasEmpty_iff hc.tab).mp he
      have hst : (step p h c (failAsLookup o)).1 = (step p h c o).1 := by
        cases o <;> first | rfl | exact (failed_insert_eq_lookup_state hp h hc hem _ _).symm
      obtain ⟨s1, s2⟩ := step_ok (h := h) hp hc o
      obtain ⟨n1, s3⟩ := s2 he
      obtain ⟨_, s2'⟩ := step_ok (h := h) hp hc (failAsLookup o)
      obtain ⟨n2, _⟩ := s2' he
      simp only [List.map_cons]
      unfold run
      simp only
      -- (`simp only` resolves both `match`es of `run` with `n1`, `n2`: neither step hangs)
      rw [hst]; exact ih _ s1 s3
  exact gen ops _ (create_counted p) (create_hasEmpty hp)

/-- lookup_glyph reads the table only -/
theorem lookup_of_table (p : Params) (h : Nat → Nat → Nat) {c c' : Cache} (ht : c'.table = c.table)
    (f k : Nat) : lookup p h c' f k = lookup p h c f k := by
  unfold lookup
  generalize p.hashSize = fuel
  generalize h f k = idx
  induction fuel generalizing idx with
  | zero => rfl
  | succ n ih => unfold lookupFrom; rw [get_of_table ht, ih]

/-- a failed insertion is a no-op on the abstract map (the recency-ordered list of live glyphs) and
    preserves the refinement invariant — including reachability of every entry stored behind a
    tombstone on the failing key's probe path -/
theorem failed_insert_refines {p : Params} (hp : 0 < p.hashSize) {h : Nat → Nat → Nat} {c : Cache}
    (hi : Inv p h c) (font key : Nat) :
    Inv p h (step p h c (.insertFail font key)).1 ∧
      (step p h c (.insertFail font key)).1.mru = c.mru ∧
      (step p h c (.insertFail font key)).2 = .refused ∧
      ∀ f k, lookup p h (step p h c (.insertFail font key)).1 f k = lookup p h c f k := by
  have hs := step_refines hp hi (.insertFail font key) trivial
  refine ⟨hs.1, ?_, ?_, ?_⟩
  · rw [failed_insert_changes_nothing]
  · rw [failed_insert_changes_nothing]
  · intro f k; rw [failed_insert_changes_nothing]; exact lookup_of_table p h (c := c) (c' := { c with clock := c.clock + 1 }) rfl f k

/-! ## eviction reaches the low-water mark -/

/-- the fuel `hashSize + 1` of the eviction loop is never the reason it stops: after a thaw that
    reaches freeze count 0 above the high-water mark at most `low` glyphs remain -/
theorem thaw_evicts_to_low {p : Params} (hp : 0 < p.hashSize) (h : Nat → Nat → Nat) {c : Cache}
    (hc : Counted p c) (hfz : c.freeze = 1) (hhi : c.nGlyphs + c.nTomb > (p.high : Int)) :
    (step p h c .thaw).1.nGlyphs ≤ (p.low : Int) := by
  have hc0 : CountedB p c.clock ({ c with freeze := c.freeze - 1 } : Cache) := hc.congr rfl rfl rfl rfl
  unfold step stepCore
  simp only
  rw [if_pos ⟨by omega, hhi⟩]
  generalize hc1e : (if c.nTomb > (p.high : Int) then clearTable p ({ c with freeze := c.freeze - 1 } : Cache)
      else ({ c with freeze := c.freeze - 1 } : Cache)) = c1
  have hc1 : CountedB p c.clock c1 := by
    split at hc1e
    · subst hc1e; exact clearTable_counted _ _ _
    · subst hc1e; exact hc0
  obtain ⟨c', e1, e2, e3, e4, e5, e6, e7⟩ := evict_ok (h := h) hp (p.hashSize + 1) c1 hc1
  rw [e1]
  show c'.nGlyphs ≤ _
  apply e7
  have := count_total c1.table
  have := hc1.tab.len
  have := hc1.tab.glyphs
  omega

/-! ## refinement to a finite map with recency order (C3)

`Inv p h c` = `Counted` + `HasEmpty` + `Reach` (every live entry is reachable from its hash slot
without crossing an empty slot) + `KeysUnique` (at most one live entry per key).  The abstract
state is the MRU list `c.mru` (most recently used first): by `counted_spec` it lists exactly the
glyph objects stored in the table.  `Disciplined` histories insert a key only while it is absent
(`Fresh`; equivalently the preceding lookup answered NULL, `fresh_iff_lookup_absent`). -/

/-- lookup returns the live entry for the key, or NULL: it is `find?` on the abstract map -/
theorem lookup_is_map_lookup {p : Params} (hp : 0 < p.hashSize) {h : Nat → Nat → Nat} {c : Cache}
    (hi : Inv p h c) (font key : Nat) :
    lookup p h c font key = some (c.mru.find? (fun g => g.font = font ∧ g.key = key)) :=
  lookup_refines hp hi font key

/-- a live entry is found, and it is the entry that was inserted under that key -/
theorem lookup_finds_live {p : Params} (hp : 0 < p.hashSize) {h : Nat → Nat → Nat} {c : Cache}
    (hi : Inv p h c) {g : G} (hg : Slot.entry g ∈ c.table) :
    lookup p h c g.font g.key = some (some g) := by
  have hgm : g ∈ c.mru := ((counted_spec hi.counted).2.2.2.2.1 g).mpr hg
  rw [lookup_refines hp hi]
  cases hf : absFind c.mru g.font g.key with
  | none =>
    have := List.find?_eq_none.mp hf g hgm
    simp [keyMatch] at this
  | some g' =>
    have hm : keyMatch g.font g.key g' = true := List.find?_some hf
    simp only [keyMatch, decide_eq_true_eq] at hm
    have hg'm : g' ∈ c.mru := List.mem_of_find?_eq_some hf
    obtain ⟨y, hy⟩ := (mem_mru_iff_get hp hi.counted g).mp hgm
    obtain ⟨y', hy'⟩ := (mem_mru_iff_get hp hi.counted g').mp hg'm
    rw [hi.keys y' y g' g hy' hy hm.1 hm.2]

/-- a key without live entry is reported absent -/
theorem lookup_absent {p : Params} (hp : 0 < p.hashSize) {h : Nat → Nat → Nat} {c : Cache}
    (hi : Inv p h c) (font key : Nat)
    (hn : ∀ g, Slot.entry g ∈ c.table → ¬(g.font = font ∧ g.key = key)) :
    lookup p h c font key = some none := by
  rw [lookup_refines hp hi]
  congr 1
  apply List.find?_eq_none.mpr
  intro g hg
  have := hn g (((counted_spec hi.counted).2.2.2.2.1 g).mp hg)
  simpa [keyMatch] using this

theorem fresh_iff_lookup_absent {p : Params} (hp : 0 < p.hashSize) {h : Nat → Nat → Nat} {c : Cache}
    (hi : Inv p h c) (font key : Nat) :
    Fresh c (.insert font key) ↔ lookup p h c font key = some none := by
  rw [lookup_refines hp hi]
  simp only [Fresh, Option.some.injEq, absFind]
  rw [List.find?_eq_none]
  simp [keyMatch]

/-- every API call of a disciplined client preserves the invariant and acts on the abstract map
    as `absStep` says: freeze/lookup leave it alone, an accepted insert puts the new glyph in front,
    a drawn glyph moves to the front, remove deletes the entry of the key, and thaw — only when it
    brings the freeze count to 0 with `nGlyphs + nTomb > HIGH` — keeps the `LOW` most recently used
    glyphs (none if more than `HIGH` tombstones made it dump the table) -/
theorem step_refines_map {p : Params} (hp : 0 < p.hashSize) {h : Nat → Nat → Nat} {c : Cache}
    (hi : Inv p h c) (o : Op) (hf : Fresh c o) :
    Inv p h (step p h c o).1 ∧ ((step p h c o).1.mru, (step p h c o).2) = absStep p c o :=
  step_refines hp hi o hf

theorem create_refines {p : Params} (hp : 0 < p.hashSize) (h : Nat → Nat → Nat) : Inv p h (create p) :=
  create_inv hp h

/-- the invariant holds after every disciplined history -/
theorem run_refines_map {p : Params} (hp : 0 < p.hashSize) (h : Nat → Nat → Nat) (ops : List Op)
    (hd : Disciplined p h (create p) ops) : Inv p h (run p h (create p) ops).1 :=
  run_refines hp ops _ (create_inv hp h) hd

/-- entries disappear only through `remove` of their key, or through a thaw that reaches freeze
    count 0 above the high-water mark — and then least recently used first: a glyph among the `LOW`
    most recently used survives unless the table is dumped because of its tombstones -/
theorem entry_disappears_only_by_remove_or_thaw {p : Params} (hp : 0 < p.hashSize)
    {h : Nat → Nat → Nat} {c : Cache} (hi : Inv p h c) (o : Op) (hf : Fresh c o) (g : G)
    (hg : g ∈ c.mru) (hgone : g ∉ (step p h c o).1.mru) :
    o = .remove g.font g.key ∨
      (o = .thaw ∧ c.freeze = 1 ∧ c.nGlyphs + c.nTomb > (p.high : Int) ∧
        (c.nTomb > (p.high : Int) ∨ g ∉ c.mru.take p.low)) := by
  have habs := (step_refines hp hi o hf).2
  have hm : (step p h c o).1.mru = (absStep p c o).1 := by rw [← habs]
  rw [hm] at hgone
  cases o with
  | freeze => exact absurd hg hgone
  | lookup f k => exact absurd hg hgone
  | insertFail f k => exact absurd hg hgone
  | insert f k =>
    simp only [absStep] at hgone
    split at hgone
    · exact absurd hg hgone
    · exact absurd (List.mem_cons_of_mem _ hg) hgone
  | touch f k =>
    simp only [absStep] at hgone
    split at hgone
    · rename_i g0 _
      by_cases hgg : g = g0
      · subst hgg; exact absurd List.mem_cons_self hgone
      · exact absurd (List.mem_cons_of_mem _ (List.mem_filter.mpr ⟨hg, by simpa using hgg⟩)) hgone
    · exact absurd hg hgone
  | remove f k =>
    left
    simp only [absStep, List.mem_filter, not_and, Bool.not_eq_true, Bool.not_eq_false'] at hgone
    have := hgone hg
    simp only [keyMatch, decide_eq_true_eq] at this
    rw [this.1, this.2]
  | thaw =>
    right
    simp only [absStep] at hgone
    split at hgone
    · rename_i hcond
      refine ⟨rfl, by omega, hcond.2, ?_⟩
      split at hgone
      · rename_i ht; exact Or.inl ht
      · exact Or.inr hgone
    · exact absurd hg hgone

/-! ## histories that insert a key already present (no discipline)

The API calls this a caller error; the code does not check.  What it does: the new object goes into
the first NULL-or-TOMBSTONE slot of the key's probe sequence, both objects stay live, and `lookup`
/ `remove` / drawing act on the *visible* one — the first entry with the key in probe order.  The
invariant `Inv0` (= `Inv` without `KeysUnique`: accounting, an empty slot, reachability) holds after
EVERY history, and the cache is a faithful *multimap*; the map view of `run_refines_map` holds
exactly under the discipline (`duplicate_insert_breaks_map_view`). -/

/-- `Inv0` after every history whatsoever (duplicate insertions, failed insertions, …) -/
theorem run_any_history_inv {p : Params} (hp : 0 < p.hashSize) (h : Nat → Nat → Nat) (ops : List Op) :
    Inv0 p h (run p h (create p) ops).1 :=
  run_general hp ops _ (create_inv0 hp h)

/-- what lookup returns in any state reached by any history: NULL iff no live object has the key;
    otherwise a live object `g` with the key, stored `d < HASH_SIZE` probes after the key's hash
    slot, such that none of the `d` slots before it is empty or holds an object with the key
    (`FirstAt`) — hence every other live object with the key comes strictly later in probe order -/
theorem lookup_any_history {p : Params} (hp : 0 < p.hashSize) {h : Nat → Nat → Nat} {c : Cache}
    (hi : Inv0 p h c) (font key : Nat) :
    (lookup p h c font key = some none ∧ ∀ g, g ∈ c.mru → ¬(g.font = font ∧ g.key = key)) ∨
    (∃ g d, lookup p h c font key = some (some g) ∧ g ∈ c.mru ∧ d < p.hashSize ∧
        FirstAt p c font key (h font key) d g ∧
        ∀ g' d', g' ≠ g → g'.font = font → g'.key = key → d' < p.hashSize →
          c.get p (h font key + d') = .entry g' → d < d') := by
  rcases lookup_general hp hi font key with hl | ⟨g, d, hl, hg, hd, hf⟩
  · exact Or.inl hl
  · refine Or.inr ⟨g, d, hl, hg, hd, hf, fun g' d' hne hf' hk' _ hget => ?_⟩
    rcases Nat.lt_trichotomy d d' with hlt | heq | hgt
    · exact hlt
    · subst heq; rw [hf.1] at hget; exact absurd (by simpa using hget.symm) hne
    · exact absurd ⟨hf', hk'⟩ ((hf.2.2.2 d' hgt).2 g' hget)

/-- every API call in any history: `Inv0` is preserved and the list of live objects changes as
    `absStepG` says — an accepted insert ALWAYS adds a new object (present key or not); `remove`
    deletes exactly the visible object of the key (other objects with the key stay, the next in
    probe order becomes visible); a failed insert changes nothing -/
theorem step_any_history {p : Params} (hp : 0 < p.hashSize) {h : Nat → Nat → Nat} {c : Cache}
    (hi : Inv0 p h c) (o : Op) :
    Inv0 p h (step p h c o).1 ∧ ((step p h c o).1.mru, (step p h c o).2) = absStepG p h c o :=
  step_general hp hi o

/-- under the full invariant (unique keys) the multimap step is the map step -/
theorem absStepG_eq_absStep {p : Params} (hp : 0 < p.hashSize) {h : Nat → Nat → Nat} {c : Cache}
    (hi : Inv p h c) (o : Op) (hf : Fresh c o) : absStepG p h c o = absStep p c o := by
  rw [← (step_general hp hi.toInv0 o).2, (step_refines hp hi o hf).2]

/-- which object is visible after inserting a present key (see `duplicate_insert_lookup`) -/
theorem duplicate_insert_shadowing {p : Params} (hp : 0 < p.hashSize) {h : Nat → Nat → Nat} {c : Cache}
    (hi : Inv0 p h c) {font key d : Nat} {gOld : G}
    (hold : FirstAt p c font key (h font key) d gOld)
    (hfz : 0 < c.freeze) (hnf : full p c = false) :
    (step p h c (.insert font key)).1.mru = ⟨c.clock, font, key⟩ :: c.mru ∧
    ((∃ j, j < d ∧ c.get p (h font key + j) = .tomb) →
      lookup p h (step p h c (.insert font key)).1 font key = some (some ⟨c.clock, font, key⟩)) ∧
    ((∀ j, j < d → c.get p (h font key + j) ≠ .tomb) →
      lookup p h (step p h c (.insert font key)).1 font key = some (some gOld)) :=
  duplicate_insert_lookup hp hi hold hfz hnf

/-- the discipline is exactly what the map view needs: an accepted insertion of a present key
    leaves two live objects with one key -/
theorem duplicate_insert_breaks_map_view {p : Params} (hp : 0 < p.hashSize) {h : Nat → Nat → Nat}
    {c : Cache} (hi : Inv0 p h c) {font key : Nat} {g : G} (hg : g ∈ c.mru)
    (hk : g.font = font ∧ g.key = key) (hfz : 0 < c.freeze) (hnf : full p c = false) :
    ¬ KeysUnique p (step p h c (.insert font key)).1 :=
  duplicate_insert_not_unique hp hi hg hk hfz hnf

/-- in ANY history an object disappears only through a `remove` of its key that finds it visible,
    or through an evicting thaw (least recently used first) -/
theorem entry_disappears_only_by_remove_or_thaw_any_history {p : Params} (hp : 0 < p.hashSize)
    {h : Nat → Nat → Nat} {c : Cache} (hi : Inv0 p h c) (o : Op) (g : G)
    (hg : g ∈ c.mru) (hgone : g ∉ (step p h c o).1.mru) :
    (o = .remove g.font g.key ∧ lookup p h c g.font g.key = some (some g)) ∨
      (o = .thaw ∧ c.freeze = 1 ∧ c.nGlyphs + c.nTomb > (p.high : Int) ∧
        (c.nTomb > (p.high : Int) ∨ g ∉ c.mru.take p.low)) := by
  have habs := (step_general hp hi o).2
  have hm : (step p h c o).1.mru = (absStepG p h c o).1 := by rw [← habs]
  rw [hm] at hgone
  cases o with
  | freeze => exact absurd hg hgone
  | lookup f k => exact absurd hg hgone
  | insertFail f k => exact absurd hg hgone
  | insert f k =>
    simp only [absStepG] at hgone
    split at hgone
    · exact absurd hg hgone
    · exact absurd (List.mem_cons_of_mem _ hg) hgone
  | touch f k =>
    simp only [absStepG] at hgone
    split at hgone
    · rename_i g0 _
      by_cases hgg : g = g0
      · subst hgg; exact absurd List.mem_cons_self hgone
      · exact absurd (List.mem_cons_of_mem _ (List.mem_filter.mpr ⟨hg, by simpa using hgg⟩)) hgone
    · exact absurd hg hgone
  | remove f k =>
    left
    simp only [absStepG] at hgone
    split at hgone
    · rename_i g0 hv
      have hgg : g = g0 := by
        by_cases hgg : g = g0
        · exact hgg
        · exact absurd (List.mem_filter.mpr ⟨hg, by simpa using hgg⟩) hgone
      subst hgg
      rcases lookup_general hp hi f k with ⟨hl, _⟩ | ⟨g1, d, hl, _, _, hf⟩
      · simp [visible, hl] at hv
      · have : g1 = g := by simpa [visible, hl] using hv
        subst this
        rw [hf.2.1, hf.2.2.1]
        exact ⟨rfl, hl⟩
    · exact absurd hg hgone
  | thaw =>
    right
    simp only [absStepG] at hgone
    split at hgone
    · rename_i hcond
      refine ⟨rfl, by omega, hcond.2, ?_⟩
      split at hgone
      · rename_i ht; exact Or.inl ht
      · exact Or.inr hgone
    · exact absurd hg hgone

/-! ## non-vacuity: concrete histories on a 4-slot table (HIGH 2, LOW 1), hash = key -/

private def p4 : Params := ⟨4, 2, 1⟩
private def h4 : Nat → Nat → Nat := fun _ k => k

/-- fill the table up to the capacity limit (keys 0 and 4 collide); the third insertion is refused;
    the thaw evicts down to LOW = 1, least recently used first -/
example : (run p4 h4 (create p4) [.freeze, .insert 0 0, .insert 0 4, .insert 0 1, .lookup 0 4,
      .remove 0 0, .lookup 0 4, .insert 0 8, .thaw, .lookup 0 4, .lookup 0 8]).2 =
    [.unit, .inserted ⟨1, 0, 0⟩, .inserted ⟨2, 0, 4⟩, .inserted ⟨3, 0, 1⟩, .found (some ⟨2, 0, 4⟩),
      .unit, .found (some ⟨2, 0, 4⟩), .refused, .unit, .found none, .found none] := by decide

example : full p4 (run p4 h4 (create p4) [.freeze, .insert 0 0, .insert 0 4, .insert 0 1]).1 = true := by
  decide

example : Slot.empty ∈ (run p4 h4 (create p4) [.freeze, .insert 0 0, .insert 0 4, .insert 0 1]).1.table := by
  decide

/-- the hypotheses of `thaw_evicts_to_low` are satisfiable -/
example : (run p4 h4 (create p4) [.freeze, .insert 0 0, .insert 0 4, .insert 0 1]).1.freeze = 1 ∧
    (run p4 h4 (create p4) [.freeze, .insert 0 0, .insert 0 4, .insert 0 1]).1.nGlyphs = 3 := by decide

/-- a disciplined history (hypothesis of `run_refines_map`) with colliding keys, a removal in the
    middle of a probe chain, and an evicting thaw -/
example : Disciplined p4 h4 (create p4) [.freeze, .insert 0 0, .insert 0 4, .lookup 0 4,
    .remove 0 0, .lookup 0 4, .insert 0 1, .touch 0 4, .thaw, .lookup 0 1] := by
  simp only [Disciplined, Fresh]
  decide

example : (run p4 h4 (create p4) [.freeze, .insert 0 0, .insert 0 4, .remove 0 0, .insert 0 1,
    .touch 0 4, .thaw]).1.mru = [⟨2, 0, 4⟩] := by decide

/-- the hypothesis `Inv` of the refinement theorems holds in a state with a tombstone in the
    middle of a probe chain (key 4 hashes to slot 0, sits in slot 1 behind the tombstone of key 0) -/
example : Inv p4 h4 (run p4 h4 (create p4) [.freeze, .insert 0 0, .insert 0 4, .remove 0 0]).1 :=
  run_refines_map (by decide) h4 _ (by simp only [Disciplined, Fresh]; decide)

example : (run p4 h4 (create p4) [.freeze, .insert 0 0, .insert 0 4, .remove 0 0]).1.table =
    [.tomb, .entry ⟨2, 0, 4⟩, .empty, .empty] := by decide

/-- a failed insertion over that tombstone (the seeded regression turned it into an empty slot,
    making key 4 unreachable): nothing changes, key 4 is still found -/
example : (run p4 h4 (create p4) [.freeze, .insert 0 0, .insert 0 4, .remove 0 0, .insertFail 0 0,
      .lookup 0 4]).2 = [.unit, .inserted ⟨1, 0, 0⟩, .inserted ⟨2, 0, 4⟩, .unit, .refused,
      .found (some ⟨2, 0, 4⟩)] ∧
    (run p4 h4 (create p4) [.freeze, .insert 0 0, .insert 0 4, .remove 0 0, .insertFail 0 0]).1.table =
      [.tomb, .entry ⟨2, 0, 4⟩, .empty, .empty] := by decide

/-- duplicate insertion, no tombstone before the old object: the new object (id 2) is shadowed;
    `remove` deletes the old one and the new one becomes visible; a second `remove` deletes it -/
example : (run p4 h4 (create p4) [.freeze, .insert 0 0, .insert 0 0, .lookup 0 0, .remove 0 0,
      .lookup 0 0, .remove 0 0, .lookup 0 0]).2 =
    [.unit, .inserted ⟨1, 0, 0⟩, .inserted ⟨2, 0, 0⟩, .found (some ⟨1, 0, 0⟩), .unit,
      .found (some ⟨2, 0, 0⟩), .unit, .found none] := by decide

/-- duplicate insertion with a tombstone before the old object (key 4 lives in slot 1 behind the
    tombstone of key 0): insert_glyph reuses the tombstone, the NEW object (id 4) shadows the old -/
example : (run p4 h4 (create p4) [.freeze, .insert 0 0, .insert 0 4, .remove 0 0, .insert 0 4,
      .lookup 0 4, .remove 0 4, .lookup 0 4]).2 =
    [.unit, .inserted ⟨1, 0, 0⟩, .inserted ⟨2, 0, 4⟩, .unit, .inserted ⟨4, 0, 4⟩,
      .found (some ⟨4, 0, 4⟩), .unit, .found (some ⟨2, 0, 4⟩)] := by decide

/-- hypotheses of `duplicate_insert_shadowing` (both branches) are satisfiable -/
example : FirstAt p4 (run p4 h4 (create p4) [.freeze, .insert 0 0, .insert 0 4, .remove 0 0]).1
    0 4 (h4 0 4) 1 ⟨2, 0, 4⟩ ∧
    (run p4 h4 (create p4) [.freeze, .insert 0 0, .insert 0 4, .remove 0 0]).1.get p4 (h4 0 4 + 0) = .tomb := by
  refine ⟨⟨by decide, rfl, rfl, fun j hj => ?_⟩, by decide⟩
  have : j = 0 := by omega
  subst this
  have ht : (run p4 h4 (create p4) [.freeze, .insert 0 0, .insert 0 4, .remove 0 0]).1.get p4 (h4 0 4 + 0) = .tomb := by
    decide
  exact ⟨by rw [ht]; simp, fun g' hg' => by rw [ht] at hg'; cases hg'⟩

end Pixman.Props.C17

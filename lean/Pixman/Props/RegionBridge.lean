import Pixman.Gen.RegionMacros
/-! Bridge between the REGENERATED box predicates / limits of pixman-region*.c and the hand-written
    model: a source change to one of these macros or limits breaks one of these obligations
    (shared by C05, C06, C07). -/
namespace Pixman.Props.RegionBridge
open Pixman.Region

/-- Boolean combination of linear integer comparisons: decided semantically (robust against a
    harmless reordering of the macro's conjuncts; fails when the truth table changes). -/
macro "bool_lin" : tactic => `(tactic| first
  | rfl
  | (rw [Bool.eq_iff_iff]
     first
     | done
     | (simp only [Bool.or_eq_true, Bool.and_eq_true, Bool.not_eq_true', Bool.not_eq_eq_eq_not, Bool.not_true,
          Bool.or_eq_false_iff, decide_eq_true_eq, decide_eq_false_iff_not, ge_iff_le, gt_iff_lt]
        first
        | done
        | omega)))

theorem extentCheck_bridge (r1 r2 : Box) :
    Pixman.Gen.RegionMacros.extentCheck r1 r2 = extentCheck r1 r2 := by
  unfold Pixman.Gen.RegionMacros.extentCheck extentCheck; bool_lin

theorem inBox_bridge (r : Box) (x y : Int) :
    Pixman.Gen.RegionMacros.inBox r x y = inBox r x y := by
  unfold Pixman.Gen.RegionMacros.inBox inBox; bool_lin

theorem subsumes_bridge (r1 r2 : Box) :
    Pixman.Gen.RegionMacros.subsumes r1 r2 = subsumes r1 r2 := by
  unfold Pixman.Gen.RegionMacros.subsumes subsumes; bool_lin

theorem goodRect_bridge (r : Box) : Pixman.Gen.RegionMacros.goodRect r = goodRect r := by
  unfold Pixman.Gen.RegionMacros.goodRect goodRect; bool_lin

theorem badRect_bridge (r : Box) : Pixman.Gen.RegionMacros.badRect r = badRect r := by
  unfold Pixman.Gen.RegionMacros.badRect badRect; bool_lin

theorem limits_bridge :
    Pixman.Gen.RegionMacros.regionMin16 = c16.min ∧ Pixman.Gen.RegionMacros.regionMax16 = c16.max ∧
    Pixman.Gen.RegionMacros.regionMin32 = c32.min ∧ Pixman.Gen.RegionMacros.regionMax32 = c32.max ∧
    Pixman.Gen.RegionMacros.overflowBits16 = 64 ∧ Pixman.Gen.RegionMacros.overflowBits32 = 64 := by
  decide

end Pixman.Props.RegionBridge

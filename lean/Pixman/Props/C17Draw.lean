import Pixman.Lemmas.GlyphDraw
import Pixman.Props.C01
import Pixman.Model.CompositePixel
/-!
  C17 — glyph drawing: per-glyph decomposition at the model level, on top of C03's composite
  region (`computeCompositeRegion32`, `compositeBoxes`, `R`) and an arbitrary per-pixel combiner
  (C01's `compositePixel` is the instance of the examples; C01's `combineAddU` for the a8 mask).

  Model: `Model/GlyphDraw.lean` mirrors pixman_composite_glyphs_no_mask, add_glyphs and
  pixman_composite_glyphs box by box.  Range hypotheses (`NoMaskOK`, `AddOK`) are C03's `RangeOK`
  for each region computation involved (`int` arithmetic exact, clips canonical).  Not covered
  here: that the composite function looked up per glyph format is the one pixman_image_composite32
  would pick (dispatch: C02/C14 and the drawing correspondence of checks/C17.py).
-/
namespace Pixman.Props.C17Draw
open Pixman.GlyphDraw Pixman.Region Pixman.CompositeRegion Pixman.Spec Pixman.Combine32

/-- C01 × C03: the box loop of pixman_image_composite32 applies the per-pixel combiner exactly once
    to every pixel of `R` (C03) and to nothing else, sampling source and mask at the request's
    offsets -/
theorem image_composite_paints_R {src : Image} {mask : Option Image} {dest : Image}
    {sx sy mx my dx dy w h : Int} (comb : Comb) (sA mA : Sampler)
    (H : RangeOK src mask dest sx sy mx my dx dy w h) (na : NoAlphaClips src mask dest)
    (ho : OffsetsOK dest.width dest.height sx sy mx my dx dy) (d : Canvas) :
    imageComposite comb src sA mask mA dest sx sy mx my dx dy w h d =
      paintSet comb sA mA (R src mask dest sx sy mx my dx dy w h) (sx - dx) (sy - dy) (mx - dx) (my - dy) d :=
  imageComposite_eq_paint comb sA mA H na ho d

/-- pixman_composite_glyphs_no_mask = fold, in glyph order, of
    `pixman_image_composite32 (op, src, glyph_img, dest, src_x + X, src_y + Y, 0, 0, dest_x + X,
    dest_y + Y, glyph_w, glyph_h)` with `(X, Y) = (x - origin_x, y - origin_y)`; for every
    per-pixel combiner, every clip of source and destination, every glyph list -/
theorem composite_glyphs_no_mask_is_per_glyph (comb : Nat → Comb) {src dest : Image} (sA : Sampler)
    {sx sy dx dy : Int} {glyphs : List Placed} (ok : NoMaskOK src dest sx sy dx dy glyphs)
    (d : Canvas) :
    compositeGlyphsNoMask comb src sA dest sx sy dx dy glyphs d =
      glyphs.foldl (perGlyphComposite comb src sA dest sx sy dx dy) d :=
  compositeGlyphsNoMask_eq_fold comb sA ok d

/-- each glyph paints `composite region ∩ glyph box`, glyph pixel `(x - (dest_x + X), y - (dest_y + Y))`
    onto destination pixel `(x, y)` -/
theorem glyph_paints_its_box (comb : Nat → Comb) {src dest : Image} (sA : Sampler)
    {sx sy dx dy : Int} {glyphs : List Placed} (ok : NoMaskOK src dest sx sy dx dy glyphs)
    (g : Placed) (hg : g ∈ glyphs) (d : Canvas) :
    perGlyphComposite comb src sA dest sx sy dx dy d g =
      paintSet (comb g.img.fmt) sA g.img.pix
        (fun x y => R src none dest (sx - dx) (sy - dy) 0 0 0 0 dest.width dest.height x y ∧
          (glyphBox dx dy g).Mem x y)
        (sx - dx) (sy - dy) (0 - (dx + (g.x - g.originX))) (0 - (dy + (g.y - g.originY))) d :=
  perGlyphComposite_eq_paint comb sA ok g hg d

/-- add_glyphs = fold, in glyph order, of `pixman_image_composite32 (ADD, white, glyph_img, mask,
    0, 0, 0, 0, X + off_x, Y + off_y, glyph_w, glyph_h)`.  Hypothesis `hsame` (same-format
    shortcut of add_glyphs = masked white ADD) is discharged for the a8 combiner of C01 below. -/
theorem add_glyphs_is_per_glyph_add (addSame : Comb) (addWhite : Nat → Comb) (maskFmt : Nat)
    (hsame : ∀ v d, addSame v 0 d = addWhite maskFmt 0xffffffff v d)
    {maskW maskH offX offY : Int} {glyphs : List Placed}
    (ok : AddOK maskW maskH offX offY glyphs) (m : Canvas) :
    addGlyphs addSame addWhite maskFmt maskW maskH offX offY glyphs m =
      glyphs.foldl (perGlyphAdd addWhite maskW maskH offX offY) m :=
  addGlyphs_eq_fold addSame addWhite maskFmt hsame ok m

/-- pixman_composite_glyphs = ADD-accumulate the glyphs into a zeroed `width × height` mask at
    `(X - mask_x, Y - mask_y)`, then `pixman_image_composite32 (op, src, mask, dest, src_x, src_y,
    0, 0, dest_x, dest_y, width, height)` -/
theorem composite_glyphs_is_accumulate_then_composite (comb addSame : Comb) (addWhite : Nat → Comb)
    (maskFmt : Nat) (hsame : ∀ v d, addSame v 0 d = addWhite maskFmt 0xffffffff v d)
    (src : Image) (sA : Sampler) (dest : Image) (sx sy mx my dx dy w h : Int) {glyphs : List Placed}
    (ok : AddOK w h (-mx) (-my) glyphs) (d : Canvas) :
    compositeGlyphs comb addSame addWhite maskFmt src sA dest sx sy mx my dx dy w h glyphs d =
      imageComposite comb src sA (some (maskImage w h))
        (glyphs.foldl (perGlyphAdd addWhite w h (-mx) (-my)) (fun _ _ => 0))
        dest sx sy 0 0 dx dy w h d :=
  compositeGlyphs_eq comb addSame addWhite maskFmt hsame src sA dest sx sy mx my dx dy w h ok d

/-! ## the a8 mask: ADD saturates, so the accumulated coverage is `min 255 (sum)` — independent of
    the glyph order -/

/-- C01's 8-bit ADD combiner on a8 pixels (a8 fetch puts the value in the alpha byte, a8 store
    takes the alpha byte): white source, a8 glyph as mask -/
def addWhiteA8 : Comb := fun s mk d => chan .a (combineAddU s (some (mk * 16777216)) (d * 16777216))
/-- … and the same-format shortcut of add_glyphs: the a8 glyph as the unmasked source -/
def addSameA8 : Comb := fun v _ d => chan .a (combineAddU (v * 16777216) none (d * 16777216))

theorem addWhiteA8_sat (m d : Nat) (hm : m ≤ 255) (hd : d ≤ 255) :
    addWhiteA8 0xffffffff m d = min 255 (d + m) := by
  unfold addWhiteA8
  rw [Pixman.Props.C01.combineAddU_spec 0xffffffff (d * 16777216) (some (m * 16777216))
    (fun mk hmk => by cases hmk; omega) .a]
  simp only [unified, channel, factors, Factor.eval, maskedU, chan, Pixman.Lemmas.rnd_255]
  have h1 : m * 16777216 / 16777216 % 256 = m := by
    rw [Nat.mul_div_cancel _ (by decide : 0 < 16777216)]; exact Nat.mod_eq_of_lt (by omega)
  have h2 : d * 16777216 / 16777216 % 256 = d := by
    rw [Nat.mul_div_cancel _ (by decide : 0 < 16777216)]; exact Nat.mod_eq_of_lt (by omega)
  rw [h1, h2]
  have h3 : 4294967295 / 16777216 % 256 = 255 := by omega
  rw [h3, Pixman.Lemmas.rnd_255_left]
  omega

theorem addSameA8_sat (v d : Nat) (hv : v ≤ 255) (hd : d ≤ 255) :
    addSameA8 v 0 d = min 255 (d + v) := by
  unfold addSameA8
  rw [Pixman.Props.C01.combineAddU_spec (v * 16777216) (d * 16777216) none
    (fun mk hmk => by cases hmk) .a]
  simp only [unified, channel, factors, Factor.eval, maskedU, chan, Pixman.Lemmas.rnd_255]
  have h1 : v * 16777216 / 16777216 % 256 = v := by
    rw [Nat.mul_div_cancel _ (by decide : 0 < 16777216)]; exact Nat.mod_eq_of_lt (by omega)
  have h2 : d * 16777216 / 16777216 % 256 = d := by
    rw [Nat.mul_div_cancel _ (by decide : 0 < 16777216)]; exact Nat.mod_eq_of_lt (by omega)
  rw [h1, h2]
  omega

/-- the same-format hypothesis of `add_glyphs_is_per_glyph_add` holds for a8 pixels -/
theorem a8_same_format (v d : Nat) (hv : v ≤ 255) (hd : d ≤ 255) :
    addSameA8 v 0 d = addWhiteA8 0xffffffff v d := by
  rw [addSameA8_sat v d hv hd, addWhiteA8_sat v d hv hd]

/-- accumulating coverages `ms` onto an a8 mask pixel `d` with saturating ADD, in any order -/
theorem a8_accumulate_sum (ms : List Nat) : ∀ d, d ≤ 255 → (∀ m ∈ ms, m ≤ 255) →
    ms.foldl (fun d m => addWhiteA8 0xffffffff m d) d = min 255 (d + ms.sum) := by
  induction ms with
  | nil => intro d hd _; simp only [List.foldl_nil, List.sum_nil]; omega
  | cons m t ih =>
    intro d hd hm
    rw [List.foldl_cons, addWhiteA8_sat m d (hm m List.mem_cons_self) hd,
      ih _ (by omega) (fun x hx => hm x (List.mem_cons_of_mem _ hx)), List.sum_cons]
    omega

/-- order independence of the a8 accumulation (saturation makes ADD non-associative on raw sums,
    but the fold depends on the multiset of coverages only) -/
theorem a8_accumulate_order_independent {ms ms' : List Nat} (hp : ms.Perm ms') (d : Nat) (hd : d ≤ 255)
    (hm : ∀ m ∈ ms, m ≤ 255) :
    ms.foldl (fun d m => addWhiteA8 0xffffffff m d) d =
      ms'.foldl (fun d m => addWhiteA8 0xffffffff m d) d := by
  rw [a8_accumulate_sum ms d hd hm, a8_accumulate_sum ms' d hd (fun m h => hm m (hp.mem_iff.2 h)),
    hp.sum_nat]

/-! ## non-vacuity -/

private def exDest : Image :=
  { width := 8, height := 6, clip := ⟨⟨1, 0, 7, 6⟩, .single⟩, haveClip := true, clipSources := false,
    clientClip := true, alphaMap := none }
private def exSrc : Image :=
  { width := 1, height := 1, clip := ⟨⟨0, 0, 0, 0⟩, .emptyStatic⟩, haveClip := false,
    clipSources := false, clientClip := false, alphaMap := none }
private def exGlyph : Placed :=
  { x := 2, y := 3, originX := 1, originY := 2, img := ⟨3, 2, 0, fun x y => (40 * (x + 3 * y)).toNat % 256⟩ }
private def exGlyph2 : Placed :=
  { x := 6, y := 1, originX := 0, originY := 0, img := ⟨4, 4, 0, fun _ _ => 200⟩ }

private theorem exRange (X Y w h : Int) (hX : -100 ≤ X ∧ X ≤ 100) (hY : -100 ≤ Y ∧ Y ≤ 100)
    (hw : 0 ≤ w ∧ w ≤ 100) (hh : 0 ≤ h ∧ h ≤ 100) (m : Option Image)
    (hm : ∀ i, m = some i → i.haveClip = false ∧ i.alphaMap = none) :
    RangeOK exSrc m exDest (0 + X) (0 + Y) 0 0 (0 + X) (0 + Y) w h where
  dest_w := by decide
  dest_h := by decide
  req_x := by rw [c32_min, c32_max]; omega
  req_y := by rw [c32_min, c32_max]; omega
  dest_clip := fun _ => ⟨by decide, by decide⟩
  dest_alpha := fun a ha => by cases ha
  src_clip := fun hc => by cases hc.1
  src_alpha := fun a ha => by cases ha
  mask_clip := fun i hi hc => by have h1 := hc.1; rw [(hm i hi).1] at h1; cases h1
  mask_alpha := fun i a hi hc ha => by rw [(hm i hi).2] at ha; cases ha

/-- the hypotheses of `composite_glyphs_no_mask_is_per_glyph` hold for a clipped 8×6 destination
    and two glyphs, one straddling the clip and the right edge -/
example : NoMaskOK exSrc exDest 0 0 0 0 [exGlyph, exGlyph2] where
  region := by
    have := exRange 0 0 8 6 (by omega) (by omega) (by omega) (by omega) none (fun i hi => by cases hi)
    exact this
  na := ⟨fun a ha => (by cases ha), fun a ha => (by cases ha), fun m a hm => (by cases hm)⟩
  perGlyph := by
    intro g hg
    simp only [List.mem_cons, List.not_mem_nil, or_false] at hg
    rcases hg with rfl | rfl
    · exact exRange 1 1 3 2 (by omega) (by omega) (by omega) (by omega) _
        (fun i hi => by cases hi; exact ⟨rfl, rfl⟩)
    · exact exRange 6 1 4 4 (by omega) (by omega) (by omega) (by omega) _
        (fun i hi => by cases hi; exact ⟨rfl, rfl⟩)
  offsets := by
    intro g hg t u ht0 ht hu0 hu
    simp only [List.mem_cons, List.not_mem_nil, or_false] at hg
    have hw : exDest.width = 8 := rfl
    have hh : exDest.height = 6 := rfl
    rw [hw] at ht; rw [hh] at hu
    rw [c32_min, c32_max]
    rcases hg with rfl | rfl <;> simp only [exGlyph, exGlyph2] <;> omega

/-- … and the drawing is not trivial: with C01's 8-bit OVER on a8 through a white source the two
    glyphs change destination pixels inside the clip only -/
example :
    let comb : Nat → Comb := fun _ s m d =>
      match Pixman.CompositePixel.compositePixel 3 false .solid
        (.bits ⟨"a8", 8, .a, 8, 0, 0, 0⟩ false) (.bits ⟨"a8", 8, .a, 8, 0, 0, 0⟩ false) s m d with
      | .pixel v => v
      | _ => d
    let out := compositeGlyphsNoMask comb exSrc (fun _ _ => 0xffffffff) exDest 0 0 0 0
      [exGlyph, exGlyph2] (fun _ _ => 16)
    (out 1 1, out 2 1, out 3 2, out 6 1, out 7 1, out 0 0) = (16, 53, 203, 203, 16, 16) := by
  decide +kernel


example : AddOK 8 6 (-1) (-1) [exGlyph, exGlyph2] where
  w := by decide
  h := by decide
  glyph := by
    intro g hg
    simp only [List.mem_cons, List.not_mem_nil, or_false] at hg
    rw [c32_min, c32_max]
    rcases hg with rfl | rfl <;> simp only [exGlyph, exGlyph2] <;> omega

/-- saturation is reached and the order does not matter: 200 + 100 + 30 on an a8 mask pixel -/
example : [200, 100, 30].foldl (fun d m => addWhiteA8 0xffffffff m d) 0 = 255 ∧
    [30, 200, 100].foldl (fun d m => addWhiteA8 0xffffffff m d) 0 = 255 ∧
    [100, 30].foldl (fun d m => addWhiteA8 0xffffffff m d) 7 = 137 := by decide

end Pixman.Props.C17Draw

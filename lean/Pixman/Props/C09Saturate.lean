import Pixman.Props.C01Float
import Pixman.Gen.OperatorTable
/-! C09, the SATURATE row of the REGENERATED `operator_table` (the exception of `C09.table_sound_partial`), over `Rat`
with the float pipeline's factor model (`Model/CombineQ`): SATURATE = `min (1, s·Fa + d)` with
`Fa = sa = 0 ? 1 : clamp ((1 − da)/sa)`.  Every cell of the row (neither / source / destination / both opaque) names an
operator whose float combiner computes the same channel for all channel values, given the alphas the cell assumes to
be 1, a destination alpha in [0, 1] and — for the "destination opaque" cell only — a source that is zero where its
alpha is zero (premultiplied; with `sa = 0`, `s ≠ 0` SATURATE adds `s`, DST does not). -/
namespace Pixman.Props.C09Saturate
open Pixman.Model.CombineQ Pixman.Gen.OperatorTable

theorem saturate_opaque_dest_is_dst (sa s d : Rat) (hp : sa = 0 → s = 0) :
    pdCombine .invDaOverSa .one sa s 1 d = pdCombine .zero .one sa s 1 d := by
  simp only [pdCombine, getFactor]
  by_cases h : sa = 0
  · rw [if_pos h, hp h]; grind
  · rw [if_neg h]
    have : clamp ((1 - 1) / sa) = 0 := by
      have : ((1 : Rat) - 1) / sa = 0 := by grind
      rw [this]; unfold clamp; grind
    rw [this]

theorem saturate_row_sound (i : Nat) (hi : i < 4) :
    ∃ F G, pdFactors 13 = some F ∧ pdFactors (cell 13 i) = some G ∧
      ∀ sa s da d : Rat, 0 ≤ da → da ≤ 1 → (i % 2 = 1 → sa = 1) → (i / 2 = 1 → da = 1) → (i = 2 → sa = 0 → s = 0) →
        pdCombine F.1 F.2 sa s da d = pdCombine G.1 G.2 sa s da d := by
  have h4 : i = 0 ∨ i = 1 ∨ i = 2 ∨ i = 3 := by omega
  rcases h4 with rfl | rfl | rfl | rfl
  · exact ⟨_, _, rfl, rfl, fun _ _ _ _ _ _ _ _ _ => rfl⟩
  · refine ⟨_, _, rfl, rfl, fun sa s da d h0 h1 hs _ _ => ?_⟩
    rw [hs rfl]
    exact Pixman.Props.C01Float.saturate_opaque_source_is_over_reverse s da d h0 h1
  · refine ⟨_, _, rfl, rfl, fun sa s da d _ _ _ hd hp => ?_⟩
    rw [hd rfl]
    exact saturate_opaque_dest_is_dst sa s d (hp rfl)
  · refine ⟨_, _, rfl, rfl, fun sa s da d _ _ hs hd _ => ?_⟩
    rw [hd rfl, hs rfl]
    exact saturate_opaque_dest_is_dst 1 s d (fun h => absurd h (by decide))
/- non-vacuity: the row as regenerated today, and one evaluation per simplified cell -/
example : (List.range 4).map (cell 13) = [13, 4, 2, 2] := by decide
example : ∃ F G, pdFactors 13 = some F ∧ pdFactors (cell 13 1) = some G ∧
    pdCombine F.1 F.2 1 (1/2) (1/4) (1/8) = pdCombine G.1 G.2 1 (1/2) (1/4) (1/8) := by
  obtain ⟨F, G, hF, hG, h⟩ := saturate_row_sound 1 (by decide)
  exact ⟨F, G, hF, hG, h 1 (1/2) (1/4) (1/8) (by grind) (by grind) (fun _ => rfl) (fun h => by cases h) (fun h => by cases h)⟩

end Pixman.Props.C09Saturate

import Pixman.Props.C17Draw
import Pixman.Lemmas.FillColor
/-!
  C17 — the ADD accumulation of glyph drawing, bridged to C01's pixel model (`compositePixel`) and
  C10's codec (`convertPixelToA8r8g8b8` / `convertPixelFromA8r8g8b8`), for the glyph formats of the
  cache: a1, a4, a8 (alpha only) and a8r8g8b8 (component alpha).

  * the fetch / store used by `compositePixel` for these formats ARE C10's codec (`*_codec_is_C10`,
    by `rfl`), fetch of an n-bit level is bit replication (×255, ×17, ×1) into the alpha byte,
    store keeps the top n bits of the alpha byte;
  * `white ADD (glyph as mask)` on an n-bit alpha mask is the saturating sum `min (2^n-1) (d + m)`
    (so in a4 the sum IS `min 15 (a + b)`, in a1 it is OR), per channel `min 255` for a8r8g8b8 CA;
  * the same-format shortcut of add_glyphs (glyph as unmasked SOURCE) gives the same pixel:
    hypothesis `hsame` of `C17Draw.add_glyphs_is_per_glyph_add` holds for all four formats;
  * accumulation is order independent when glyphs and mask have the same format; it is NOT when an
    a8 glyph is accumulated into an a4 mask (`mixed_format_order_matters`).

  Raw pixel values are `bpp`-bit numbers (C10 `pixelAt`); the combiners below read them `% 2^bpp`.
-/
namespace Pixman.Props.C17Add
open Pixman.CompositePixel Pixman.Spec Pixman.Combine32 Pixman.GlyphDraw Pixman.Lemmas
open Pixman.Props.C17Draw

def fa8 : Fmt := ⟨"a8", 8, .a, 8, 0, 0, 0⟩
def fa4 : Fmt := ⟨"a4", 4, .a, 4, 0, 0, 0⟩
def fa1 : Fmt := ⟨"a1", 1, .a, 1, 0, 0, 0⟩

/-! ## (2) the codec of C01's pixel model is C10's, for the glyph formats -/

/-- the format codes are those of the regenerated table -/
theorem glyph_format_codes :
    (∃ r ∈ Pixman.Gen.Formats.formats, r.name = "a8" ∧ r.code = 134316032) ∧
    (∃ r ∈ Pixman.Gen.Formats.formats, r.name = "a4" ∧ r.code = 67190784) ∧
    (∃ r ∈ Pixman.Gen.Formats.formats, r.name = "a1" ∧ r.code = 16846848) ∧
    (∃ r ∈ Pixman.Gen.Formats.formats, r.name = "a8r8g8b8" ∧ r.code = 537036936) := by decide

open Pixman.Model.Format in
/-- `Fmt.fetch` / `Fmt.store` of C01's `compositePixel` are literally C10's `convert_pixel` model -/
theorem fetch_store_codec_is_C10 (pal : Palette) (p : Nat) :
    fa8.fetch p = convertPixelToA8r8g8b8 pal 134316032 p ∧
    fa8.store p = convertPixelFromA8r8g8b8 pal 134316032 p ∧
    fa4.fetch p = convertPixelToA8r8g8b8 pal 67190784 p ∧
    fa4.store p = convertPixelFromA8r8g8b8 pal 67190784 p ∧
    fa1.fetch p = convertPixelToA8r8g8b8 pal 16846848 p ∧
    fa1.store p = convertPixelFromA8r8g8b8 pal 16846848 p ∧
    argb32.fetch p = convertPixelToA8r8g8b8 pal 537036936 p ∧
    argb32.store p = convertPixelFromA8r8g8b8 pal 537036936 p :=
  ⟨rfl, rfl, rfl, rfl, rfl, rfl, rfl, rfl⟩

/-- a8 fetch: the value goes into the alpha byte (what `addWhiteA8` of C17Draw assumed) -/
theorem a8_fetch : ∀ p, p < 256 → fa8.fetch p = p * 16777216 := by decide +kernel
/-- a4 fetch: bit replication `×17` into the alpha byte -/
theorem a4_fetch : ∀ p, p < 16 → fa4.fetch p = p * 17 * 16777216 := by decide
/-- a1 fetch: `×255` -/
theorem a1_fetch : ∀ p, p < 2 → fa1.fetch p = p * 255 * 16777216 := by decide

private theorem and255 (x : Nat) : x &&& 255 = x % 256 := Nat.and_two_pow_sub_one_eq_mod x 8
private theorem and15 (x : Nat) : x &&& 15 = x % 16 := Nat.and_two_pow_sub_one_eq_mod x 4
private theorem and1 (x : Nat) : x &&& 1 = x % 2 := Nat.and_two_pow_sub_one_eq_mod x 1

/-- a8 store: the alpha byte -/
theorem a8_store (v : Nat) (hv : v < 4294967296) : fa8.store v = chan .a v := by
  unfold Fmt.store convertPixel
  simp [Fmt.shifts, argb32, fa8, convertChannel, unormToUnorm, and255, Nat.shiftRight_eq_div_pow, chan]
  omega

/-- a4 store: the top 4 bits of the alpha byte -/
theorem a4_store (v : Nat) (hv : v < 4294967296) : fa4.store v = chan .a v / 16 := by
  unfold Fmt.store convertPixel
  simp [Fmt.shifts, argb32, fa4, convertChannel, unormToUnorm, and255, and15, Nat.shiftRight_eq_div_pow, chan]
  omega

/-- a1 store: the top bit of the alpha byte -/
theorem a1_store (v : Nat) (hv : v < 4294967296) : fa1.store v = chan .a v / 128 := by
  unfold Fmt.store convertPixel
  simp [Fmt.shifts, argb32, fa1, convertChannel, unormToUnorm, and255, and1, Nat.shiftRight_eq_div_pow, chan]
  omega

theorem argb32_store_id (v : Nat) (hv : v < 4294967296) : argb32.store v = v :=
  Pixman.Lemmas.FillColor.argb32_fetch_id v hv

/-! ## white ADD through `compositePixel`, alpha-only formats -/

private theorem opt_add_white :
    Pixman.Gen.OperatorTable.optimizeOperator 12 (flag true) (flag false) (flag false) = 12 := by decide
private theorem opt_add_same :
    Pixman.Gen.OperatorTable.optimizeOperator 12 (flag false) (flag true) (flag false) = 12 := by decide

/-- `pixman_image_composite32 (ADD, white, glyph (format g) as mask, mask image (format f))` on one
    pixel, for alpha-only formats: fetch, C01's `combineAddU`, store -/
theorem white_add_unfold (g f : Fmt) (hg : (g.a == 0) = false) (hf : (f.a == 0) = false) (m d : Nat) :
    compositePixel 12 false .solid (.bits g false) (.bits f false) 0xffffffff m d =
      .pixel (f.store (combineAddU 0xffffffff (some (g.fetch m)) (f.fetch d))) := by
  unfold compositePixel
  have h1 : Pres.solid.srcOpaque 0xffffffff false = true := by decide
  have h2 : (Pres.bits g false).srcOpaque m false = false := by simp [Pres.srcOpaque, hg]
  have h3 : (Pres.bits f false).dstOpaque = false := by simp [Pres.dstOpaque, hf]
  simp only [h1, h2, h3, opt_add_white, combineU?]
  rfl

/-- the same-format shortcut of add_glyphs: glyph as the unmasked source -/
theorem same_add_unfold (f : Fmt) (hf : (f.a == 0) = false) (v d : Nat) :
    compositePixel 12 false (.bits f false) .none (.bits f false) v 0 d =
      .pixel (f.store (combineAddU (f.fetch v) none (f.fetch d))) := by
  unfold compositePixel
  have h1 : (Pres.bits f false).srcOpaque v false = false := by simp [Pres.srcOpaque, hf]
  have h2 : Pres.none.srcOpaque 0 false = true := rfl
  have h3 : (Pres.bits f false).dstOpaque = false := by simp [Pres.dstOpaque, hf]
  simp only [h1, h2, h3, opt_add_same, combineU?]
  rfl

private theorem addU_lt (s d : Nat) (mask : Option Nat) (hs : s < 4294967296) (hd : d < 4294967296)
    (hm : ∀ m, mask = some m → m < 4294967296) : combineAddU s mask d < 4294967296 :=
  Pixman.Props.C01.combineU_lt .add s d mask hs hd hm combineAddU rfl

/-- the alpha byte after `white IN (M in the alpha byte) ADD (D in the alpha byte)` -/
private theorem white_alpha (M D : Nat) (hM : M ≤ 255) (hD : D ≤ 255) :
    chan .a (combineAddU 0xffffffff (some (M * 16777216)) (D * 16777216)) = min 255 (D + M) :=
  addWhiteA8_sat M D hM hD

private theorem same_alpha (V D : Nat) (hV : V ≤ 255) (hD : D ≤ 255) :
    chan .a (combineAddU (V * 16777216) none (D * 16777216)) = min 255 (D + V) :=
  addSameA8_sat V D hV hD

/-- **a8**: `compositePixel` ADD with a white source and an a8 glyph on an a8 mask pixel is the
    saturating sum — the combiner `addWhiteA8` of C17Draw is what C01's pixel model computes -/
theorem a8_white_add (m d : Nat) (hm : m < 256) (hd : d < 256) :
    compositePixel 12 false .solid (.bits fa8 false) (.bits fa8 false) 0xffffffff m d =
      .pixel (min 255 (d + m)) ∧
    compositePixel 12 false .solid (.bits fa8 false) (.bits fa8 false) 0xffffffff m d =
      .pixel (addWhiteA8 0xffffffff m d) := by
  rw [white_add_unfold fa8 fa8 rfl rfl, a8_fetch m hm, a8_fetch d hd,
    a8_store _ (addU_lt _ _ _ (by omega) (by omega) (fun x hx => by cases hx; omega)),
    white_alpha m d (by omega) (by omega), addWhiteA8_sat m d (by omega) (by omega)]
  exact ⟨rfl, rfl⟩

theorem a8_same_add (v d : Nat) (hv : v < 256) (hd : d < 256) :
    compositePixel 12 false (.bits fa8 false) .none (.bits fa8 false) v 0 d = .pixel (min 255 (d + v)) := by
  rw [same_add_unfold fa8 rfl, a8_fetch v hv, a8_fetch d hd,
    a8_store _ (addU_lt _ _ _ (by omega) (by omega) (fun x hx => by cases hx)),
    same_alpha v d (by omega) (by omega)]

/-- the same-format combiner `addSameA8` assumed in C17Draw is what C01's pixel model computes -/
theorem a8_same_is_addSameA8 (v d : Nat) (hv : v < 256) (hd : d < 256) :
    compositePixel 12 false (.bits fa8 false) .none (.bits fa8 false) v 0 d = .pixel (addSameA8 v 0 d) := by
  rw [a8_same_add v d hv hd, addSameA8_sat v d (by omega) (by omega)]

/-- **a4**: the sum of two a4 coverages is `min 15 (a + b)`: widen ×17, saturating byte add, keep
    the top 4 bits (`min 255 (17a + 17b) / 16`) -/
theorem a4_white_add (m d : Nat) (hm : m < 16) (hd : d < 16) :
    compositePixel 12 false .solid (.bits fa4 false) (.bits fa4 false) 0xffffffff m d =
      .pixel (min 15 (d + m)) := by
  rw [white_add_unfold fa4 fa4 rfl rfl, a4_fetch m hm, a4_fetch d hd,
    a4_store _ (addU_lt _ _ _ (by omega) (by omega) (fun x hx => by cases hx; omega)),
    white_alpha (m * 17) (d * 17) (by omega) (by omega)]
  congr 1
  omega

theorem a4_same_add (v d : Nat) (hv : v < 16) (hd : d < 16) :
    compositePixel 12 false (.bits fa4 false) .none (.bits fa4 false) v 0 d = .pixel (min 15 (d + v)) := by
  rw [same_add_unfold fa4 rfl, a4_fetch v hv, a4_fetch d hd,
    a4_store _ (addU_lt _ _ _ (by omega) (by omega) (fun x hx => by cases hx)),
    same_alpha (v * 17) (d * 17) (by omega) (by omega)]
  congr 1
  omega

/-- **a1**: ADD is OR (`min 1 (a + b)`), as `fast_composite_add_1_1` computes it -/
theorem a1_white_add (m d : Nat) (hm : m < 2) (hd : d < 2) :
    compositePixel 12 false .solid (.bits fa1 false) (.bits fa1 false) 0xffffffff m d =
      .pixel (min 1 (d + m)) := by
  rw [white_add_unfold fa1 fa1 rfl rfl, a1_fetch m hm, a1_fetch d hd,
    a1_store _ (addU_lt _ _ _ (by omega) (by omega) (fun x hx => by cases hx; omega)),
    white_alpha (m * 255) (d * 255) (by omega) (by omega)]
  congr 1
  omega

theorem a1_same_add (v d : Nat) (hv : v < 2) (hd : d < 2) :
    compositePixel 12 false (.bits fa1 false) .none (.bits fa1 false) v 0 d = .pixel (min 1 (d + v)) := by
  rw [same_add_unfold fa1 rfl, a1_fetch v hv, a1_fetch d hd,
    a1_store _ (addU_lt _ _ _ (by omega) (by omega) (fun x hx => by cases hx)),
    same_alpha (v * 255) (d * 255) (by omega) (by omega)]
  congr 1
  omega

/-! ## a8r8g8b8 glyphs: component-alpha ADD -/

private theorem opt_add_white_ca :
    Pixman.Gen.OperatorTable.optimizeOperator 12 (flag true) (flag false) (flag false) = 12 := by decide

/-- white ADD with the a8r8g8b8 glyph as COMPONENT-ALPHA mask: per channel `min 255 (d + m)` -/
theorem ca_white_add (m d : Nat) (hm : m < 4294967296) (hd : d < 4294967296) :
    ∃ v, compositePixel 12 true .solid (.bits argb32 false) (.bits argb32 false) 0xffffffff m d = .pixel v ∧
      v < 4294967296 ∧ ∀ c, chan c v = min 255 (chan c d + chan c m) := by
  have hu : compositePixel 12 true .solid (.bits argb32 false) (.bits argb32 false) 0xffffffff m d =
      .pixel (argb32.store (combineAddCa 0xffffffff (argb32.fetch m) (argb32.fetch d))) := by
    unfold compositePixel
    have h1 : Pres.solid.srcOpaque 0xffffffff false = true := by decide
    have h2 : (Pres.bits argb32 false).srcOpaque m true = false := rfl
    have h3 : (Pres.bits argb32 false).dstOpaque = false := rfl
    simp only [h1, h2, h3, opt_add_white_ca, combineCa?]
    rfl
  have hlt : combineAddCa 0xffffffff m d < 4294967296 :=
    Pixman.Props.C01.combineCa_lt .add 0xffffffff m d (by omega) hm hd combineAddCa rfl
  refine ⟨combineAddCa 0xffffffff m d, ?_, hlt, fun c => ?_⟩
  · rw [hu, Pixman.Lemmas.FillColor.argb32_fetch_id m hm, Pixman.Lemmas.FillColor.argb32_fetch_id d hd,
      argb32_store_id _ hlt]
  · rw [Pixman.Props.C01.combineAddCa_spec 0xffffffff m d c]
    simp only [componentAlpha, channel, factors, Factor.eval, rnd_255, chan_ones, rnd_255_left]
    have := chan_le c d; have := chan_le c m
    omega

/-- the same-format shortcut for a8r8g8b8: the glyph as unmasked source, per channel `min 255 (d + v)` -/
theorem ca_same_add (v d : Nat) (hv : v < 4294967296) (hd : d < 4294967296) :
    ∃ w, compositePixel 12 false (.bits argb32 false) .none (.bits argb32 false) v 0 d = .pixel w ∧
      w < 4294967296 ∧ ∀ c, chan c w = min 255 (chan c d + chan c v) := by
  have hlt : combineAddU v none d < 4294967296 := addU_lt v d none hv hd (fun x hx => by cases hx)
  refine ⟨combineAddU v none d, ?_, hlt, fun c => ?_⟩
  · rw [same_add_unfold argb32 rfl, Pixman.Lemmas.FillColor.argb32_fetch_id v hv,
      Pixman.Lemmas.FillColor.argb32_fetch_id d hd, argb32_store_id _ hlt]
  · rw [Pixman.Props.C01.combineAddU_spec v d none (fun x hx => by cases hx) c]
    simp only [unified, channel, factors, Factor.eval, maskedU, rnd_255]
    have := chan_le c d; have := chan_le c v
    omega

/-- **(1) a8r8g8b8**: same-format shortcut = white component-alpha ADD, as pixels of `compositePixel` -/
theorem ca_same_format (v d : Nat) (hv : v < 4294967296) (hd : d < 4294967296) :
    compositePixel 12 false (.bits argb32 false) .none (.bits argb32 false) v 0 d =
      compositePixel 12 true .solid (.bits argb32 false) (.bits argb32 false) 0xffffffff v d := by
  obtain ⟨w, h1, l1, c1⟩ := ca_same_add v d hv hd
  obtain ⟨w', h2, l2, c2⟩ := ca_white_add v d hv hd
  rw [h1, h2, eq_of_chan_eq w w' l1 l2 (fun c => by rw [c1, c2])]

/-! ## the combiners of add_glyphs as instances of `compositePixel`; `hsame` discharged -/

def pixOr (r : Result) (d : Nat) : Nat := match r with | .pixel v => v | _ => d

/-- `addWhite`: white source, glyph of format `g` as mask (`ca`: component alpha), mask image of format `f` -/
def addWhiteOf (ca : Bool) (g f : Fmt) : Comb := fun s m d =>
  pixOr (compositePixel 12 ca .solid (.bits g false) (.bits f false) s (m % 2 ^ g.bpp) (d % 2 ^ f.bpp)) d
/-- `addSame`: glyph of the mask's own format as unmasked source -/
def addSameOf (f : Fmt) : Comb := fun v _ d =>
  pixOr (compositePixel 12 false (.bits f false) .none (.bits f false) (v % 2 ^ f.bpp) 0 (d % 2 ^ f.bpp)) d

/-- hypothesis `hsame` of `add_glyphs_is_per_glyph_add`, for each glyph format of the cache -/
theorem hsame_a8 (v d : Nat) : addSameOf fa8 v 0 d = addWhiteOf false fa8 fa8 0xffffffff v d := by
  unfold addSameOf addWhiteOf
  have h1 : v % 2 ^ fa8.bpp < 256 := Nat.mod_lt _ (by decide)
  have h2 : d % 2 ^ fa8.bpp < 256 := Nat.mod_lt _ (by decide)
  rw [a8_same_add _ _ h1 h2, (a8_white_add _ _ h1 h2).1]

theorem hsame_a4 (v d : Nat) : addSameOf fa4 v 0 d = addWhiteOf false fa4 fa4 0xffffffff v d := by
  unfold addSameOf addWhiteOf
  have h1 : v % 2 ^ fa4.bpp < 16 := Nat.mod_lt _ (by decide)
  have h2 : d % 2 ^ fa4.bpp < 16 := Nat.mod_lt _ (by decide)
  rw [a4_same_add _ _ h1 h2, a4_white_add _ _ h1 h2]

theorem hsame_a1 (v d : Nat) : addSameOf fa1 v 0 d = addWhiteOf false fa1 fa1 0xffffffff v d := by
  unfold addSameOf addWhiteOf
  have h1 : v % 2 ^ fa1.bpp < 2 := Nat.mod_lt _ (by decide)
  have h2 : d % 2 ^ fa1.bpp < 2 := Nat.mod_lt _ (by decide)
  rw [a1_same_add _ _ h1 h2, a1_white_add _ _ h1 h2]

theorem hsame_a8r8g8b8 (v d : Nat) :
    addSameOf argb32 v 0 d = addWhiteOf true argb32 argb32 0xffffffff v d := by
  unfold addSameOf addWhiteOf
  have h1 : v % 2 ^ argb32.bpp < 4294967296 := Nat.mod_lt _ (by decide)
  have h2 : d % 2 ^ argb32.bpp < 4294967296 := Nat.mod_lt _ (by decide)
  rw [ca_same_format _ _ h1 h2]

/-- add_glyphs = per-glyph ADD composites with C01's pixel model as the combiner, when the mask is
    a4 (glyphs of any format index: `fmtOf` maps the model's format index to a `Fmt`, index `k4`
    is a4) — instance of `add_glyphs_is_per_glyph_add` with `hsame` discharged; likewise for the
    other three formats via `hsame_a8`, `hsame_a1`, `hsame_a8r8g8b8` -/
theorem add_glyphs_a4_mask (fmtOf : Nat → Fmt) (k4 : Nat) (h4 : fmtOf k4 = fa4)
    {maskW maskH offX offY : Int} {glyphs : List Placed}
    (ok : AddOK maskW maskH offX offY glyphs) (m : Canvas) :
    addGlyphs (addSameOf fa4) (fun k => addWhiteOf false (fmtOf k) fa4) k4 maskW maskH offX offY glyphs m =
      glyphs.foldl (perGlyphAdd (fun k => addWhiteOf false (fmtOf k) fa4) maskW maskH offX offY) m :=
  add_glyphs_is_per_glyph_add (addSameOf fa4) (fun k => addWhiteOf false (fmtOf k) fa4) k4
    (fun v d => by rw [h4]; exact hsame_a4 v d) ok m

/-- the same instance for any mask format whose `hsame` is known (`hsame_a8`, `hsame_a1`,
    `hsame_a8r8g8b8` with `caOf kf = true`): `caOf k` says whether glyph format `k` is a
    component-alpha mask (alpha and colour: the cache sets component_alpha on such glyph images) -/
theorem add_glyphs_mask_of (f : Fmt) (fmtOf : Nat → Fmt) (caOf : Nat → Bool) (kf : Nat) (hk : fmtOf kf = f)
    (hs : ∀ v d, addSameOf f v 0 d = addWhiteOf (caOf kf) f f 0xffffffff v d)
    {maskW maskH offX offY : Int} {glyphs : List Placed}
    (ok : AddOK maskW maskH offX offY glyphs) (m : Canvas) :
    addGlyphs (addSameOf f) (fun k => addWhiteOf (caOf k) (fmtOf k) f) kf maskW maskH offX offY glyphs m =
      glyphs.foldl (perGlyphAdd (fun k => addWhiteOf (caOf k) (fmtOf k) f) maskW maskH offX offY) m :=
  add_glyphs_is_per_glyph_add (addSameOf f) (fun k => addWhiteOf (caOf k) (fmtOf k) f) kf
    (fun v d => by rw [hk]; exact hs v d) ok m

/-! ## order independence -/

private theorem sat_fold (B : Nat) (f : Nat → Nat → Nat) (hf : ∀ m d, m ≤ B → d ≤ B → f m d = min B (d + m))
    (ms : List Nat) : ∀ d, d ≤ B → (∀ m ∈ ms, m ≤ B) →
    ms.foldl (fun d m => f m d) d = min B (d + ms.sum) := by
  induction ms with
  | nil => intro d hd _; simp only [List.foldl_nil, List.sum_nil]; omega
  | cons m t ih =>
    intro d hd hm
    rw [List.foldl_cons, hf m d (hm m List.mem_cons_self) hd,
      ih _ (by omega) (fun x hx => hm x (List.mem_cons_of_mem _ hx)), List.sum_cons]
    omega

theorem addWhiteOf_a4 (m d : Nat) (hm : m ≤ 15) (hd : d ≤ 15) :
    addWhiteOf false fa4 fa4 0xffffffff m d = min 15 (d + m) := by
  unfold addWhiteOf
  have e1 : m % 2 ^ fa4.bpp = m := Nat.mod_eq_of_lt (by show m < 16; omega)
  have e2 : d % 2 ^ fa4.bpp = d := Nat.mod_eq_of_lt (by show d < 16; omega)
  rw [e1, e2, a4_white_add m d (by omega) (by omega)]
  rfl

theorem addWhiteOf_a1 (m d : Nat) (hm : m ≤ 1) (hd : d ≤ 1) :
    addWhiteOf false fa1 fa1 0xffffffff m d = min 1 (d + m) := by
  unfold addWhiteOf
  have e1 : m % 2 ^ fa1.bpp = m := Nat.mod_eq_of_lt (by show m < 2; omega)
  have e2 : d % 2 ^ fa1.bpp = d := Nat.mod_eq_of_lt (by show d < 2; omega)
  rw [e1, e2, a1_white_add m d (by omega) (by omega)]
  rfl

/-- a4 glyph coverages accumulated into an a4 mask pixel: `min 15 (d + sum)`, in any order -/
theorem a4_accumulate_sum (ms : List Nat) (d : Nat) (hd : d ≤ 15) (hm : ∀ m ∈ ms, m ≤ 15) :
    ms.foldl (fun d m => addWhiteOf false fa4 fa4 0xffffffff m d) d = min 15 (d + ms.sum) :=
  sat_fold 15 _ addWhiteOf_a4 ms d hd hm

theorem a4_accumulate_order_independent {ms ms' : List Nat} (hp : ms.Perm ms') (d : Nat) (hd : d ≤ 15)
    (hm : ∀ m ∈ ms, m ≤ 15) :
    ms.foldl (fun d m => addWhiteOf false fa4 fa4 0xffffffff m d) d =
      ms'.foldl (fun d m => addWhiteOf false fa4 fa4 0xffffffff m d) d := by
  rw [a4_accumulate_sum ms d hd hm, a4_accumulate_sum ms' d hd (fun m h => hm m (hp.mem_iff.2 h)), hp.sum_nat]

/-- a1: the accumulated bit is the OR of the glyph bits -/
theorem a1_accumulate_sum (ms : List Nat) (d : Nat) (hd : d ≤ 1) (hm : ∀ m ∈ ms, m ≤ 1) :
    ms.foldl (fun d m => addWhiteOf false fa1 fa1 0xffffffff m d) d = min 1 (d + ms.sum) :=
  sat_fold 1 _ addWhiteOf_a1 ms d hd hm

theorem a1_accumulate_order_independent {ms ms' : List Nat} (hp : ms.Perm ms') (d : Nat) (hd : d ≤ 1)
    (hm : ∀ m ∈ ms, m ≤ 1) :
    ms.foldl (fun d m => addWhiteOf false fa1 fa1 0xffffffff m d) d =
      ms'.foldl (fun d m => addWhiteOf false fa1 fa1 0xffffffff m d) d := by
  rw [a1_accumulate_sum ms d hd hm, a1_accumulate_sum ms' d hd (fun m h => hm m (hp.mem_iff.2 h)), hp.sum_nat]

/-- a8r8g8b8 component alpha: every channel of the accumulated mask pixel is `min 255 (d_c + Σ m_c)`;
    hence the accumulated WORD does not depend on the glyph order -/
theorem ca_accumulate_channels (ms : List Nat) : ∀ d, d < 4294967296 → (∀ m ∈ ms, m < 4294967296) →
    ms.foldl (fun d m => addWhiteOf true argb32 argb32 0xffffffff m d) d < 4294967296 ∧
    ∀ c, chan c (ms.foldl (fun d m => addWhiteOf true argb32 argb32 0xffffffff m d) d) =
      min 255 (chan c d + (ms.map (chan c)).sum) := by
  induction ms with
  | nil => intro d hd _; exact ⟨hd, fun c => by have := chan_le c d; simp only [List.foldl_nil, List.map_nil, List.sum_nil]; omega⟩
  | cons m t ih =>
    intro d hd hm
    have hm0 := hm m List.mem_cons_self
    obtain ⟨v, hv, hl, hc⟩ := ca_white_add m d hm0 hd
    have e : addWhiteOf true argb32 argb32 0xffffffff m d = v := by
      unfold addWhiteOf
      have e1 : m % 2 ^ argb32.bpp = m := Nat.mod_eq_of_lt hm0
      have e2 : d % 2 ^ argb32.bpp = d := Nat.mod_eq_of_lt hd
      rw [e1, e2, hv]; rfl
    rw [List.foldl_cons, e]
    obtain ⟨i1, i2⟩ := ih v hl (fun x hx => hm x (List.mem_cons_of_mem _ hx))
    refine ⟨i1, fun c => ?_⟩
    rw [i2 c, hc c, List.map_cons, List.sum_cons]
    omega

theorem ca_accumulate_order_independent {ms ms' : List Nat} (hp : ms.Perm ms') (d : Nat)
    (hd : d < 4294967296) (hm : ∀ m ∈ ms, m < 4294967296) :
    ms.foldl (fun d m => addWhiteOf true argb32 argb32 0xffffffff m d) d =
      ms'.foldl (fun d m => addWhiteOf true argb32 argb32 0xffffffff m d) d := by
  have hm' : ∀ m ∈ ms', m < 4294967296 := fun m h => hm m (hp.mem_iff.2 h)
  obtain ⟨l1, c1⟩ := ca_accumulate_channels ms d hd hm
  obtain ⟨l2, c2⟩ := ca_accumulate_channels ms' d hd hm'
  apply eq_of_chan_eq _ _ l1 l2
  intro c
  rw [c1 c, c2 c, (hp.map (chan c)).sum_nat]

/-! ## boundary: mixed formats -/

/-- an a8 glyph accumulated into an a4 mask truncates after every glyph: the result depends on the
    glyph order (coverages 15/255 and 16/255 onto an empty a4 pixel) — what the library does, and
    what the per-glyph reference does too (both in glyph order), so drawing equivalence holds but
    "the mask is the sum" does not -/
example : [15, 16].foldl (fun d m => addWhiteOf false fa8 fa4 0xffffffff m d) 0 = 1 ∧
    [16, 15].foldl (fun d m => addWhiteOf false fa8 fa4 0xffffffff m d) 0 = 2 := by decide +kernel

/-! ## non-vacuity -/
example : addWhiteOf false fa4 fa4 0xffffffff 9 9 = 15 ∧ addWhiteOf false fa4 fa4 0xffffffff 3 9 = 12 ∧
    addSameOf fa4 3 0 9 = 12 ∧ addWhiteOf false fa1 fa1 0xffffffff 1 1 = 1 := by decide +kernel
example : addWhiteOf true argb32 argb32 0xffffffff 0x80ff0102 0x90010203 = 0xffff0305 ∧
    addSameOf argb32 0x80ff0102 0 0x90010203 = 0xffff0305 := by decide +kernel

end Pixman.Props.C17Add

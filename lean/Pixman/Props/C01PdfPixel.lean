import Pixman.Props.C01
import Pixman.Props.C09
/-! C01 ∘ C09 for the eight integer PDF blend modes: the whole request `compositePixel`
(what the driver evaluates for a correspondence line: opacity flags from the presentations, the
REGENERATED `optimize_operator`, mask elision, fetch, 8-bit combiner, store) returns, for every
presentation of source, mask and destination and ALL raw pixel values, the stored integer Spec
pixel (`Spec.PdfInt.unifiedPixel` / `componentAlphaPixel`; Multiply: `Spec.multiplyUnified` /
`multiplyComponentAlpha` per channel).  The regenerated `operator_table` never replaces a blend
mode (`blend_modes_not_replaced`, re-checked against today's table). -/
namespace Pixman.Props.C01Pdf
open Pixman.Arith Pixman.Spec Pixman.Combine32 Pixman.Lemmas Pixman.CompositePixel
open Pixman.Gen.OperatorTable
open Pixman.Spec.PdfInt (Mode)

/-- `operator_table[op].opaque_info[i] = op` for the eight integer blend modes -/
theorem blend_modes_not_replaced :
    ∀ op ∈ [0x30, 0x31, 0x32, 0x33, 0x34, 0x37, 0x39, 0x3a], ∀ i ∈ [0, 1, 2, 3], cell op i = op := by
  decide

private theorem cell_mode (m : Mode) (a b : Bool) : cell m.code (2 * a.toNat + b.toNat) = m.code := by
  cases m <;> cases a <;> cases b <;> decide

private theorem flag_bit (b : Bool) : flag b / 8192 % 2 = b.toNat := by cases b <;> decide
private theorem flag_and_bit (a b : Bool) : (flag a &&& flag b) / 8192 % 2 = (a && b).toNat := by
  cases a <;> cases b <;> decide

/-- a unified mask whose alpha is 255 does not change the blend-mode Spec pixel -/
theorem pdf_unifiedPixel_mask_elision (m : Mode) (s mk d : Nat) (h : chan .a mk = 255) :
    PdfInt.unifiedPixel m s (some mk) d = PdfInt.unifiedPixel m s none d := by
  unfold PdfInt.unifiedPixel PdfInt.unified
  simp only [maskedU, h, rnd_255]

/-- **the whole request, seven separable blend modes.** -/
theorem compositePixel_pdf (m : Mode) (ca : Bool) (src mask : Pres) (df : Fmt) (rep : Bool)
    (s mk d : Nat) :
    compositePixel m.code ca src mask (.bits df rep) s mk d =
      .pixel (df.store (match mask with
        | .none => PdfInt.unifiedPixel m (src.fetch s) none (df.fetch d)
        | _ => if ca then PdfInt.componentAlphaPixel m (src.fetch s) (mask.fetch mk) (df.fetch d)
               else PdfInt.unifiedPixel m (src.fetch s) (some (mask.fetch mk)) (df.fetch d))) := by
  have hs := presFetch_lt src s
  have hm := presFetch_lt mask mk
  have hd := fetch_lt df d
  unfold compositePixel
  simp only []
  rw [C09.optimizeOperator_cell, flag_bit, flag_and_bit, cell_mode]
  generalize hS : src.fetch s = s32 at *
  generalize hD : df.fetch d = d32 at *
  rcases mask with _ | _ | ⟨mf, mr⟩
  · obtain ⟨f, hf, hfe⟩ := C01.pdf_unified_correct m s32 d32 none hs hd (by intro m' e; cases e)
    simp only [hf, Option.map_some, if_true, hfe]
  all_goals
    simp only []
    generalize hmop : Pres.srcOpaque _ mk ca = mop
    generalize hM : Pres.fetch _ mk = m32 at hm ⊢
    cases mop with
    | true =>
      have hca : ca = false := by
        simp only [Pres.srcOpaque, Bool.and_eq_true, Bool.not_eq_true'] at hmop; exact hmop.1
      have hma : chan .a m32 = 255 := by
        rw [← hM]; exact srcOpaque_alpha _ mk ca (by intro h; cases h) hmop
      obtain ⟨f, hf, hfe⟩ := C01.pdf_unified_correct m s32 d32 none hs hd (by intro m' e; cases e)
      simp only [hf, Option.map_some, if_true, hfe, hca, Bool.false_eq_true, if_false,
        pdf_unifiedPixel_mask_elision m s32 m32 d32 hma]
    | false =>
      simp only [Bool.false_eq_true, if_false]
      cases ca with
      | true =>
        obtain ⟨f, hf, hfe⟩ := C01.pdf_componentAlpha_correct m s32 m32 d32 hs hm hd
        simp only [hf, Option.map_some, if_true, hfe]
      | false =>
        obtain ⟨f, hf, hfe⟩ := C01.pdf_unified_correct m s32 d32 (some m32) hs hd
          (by intro m' e; cases e; exact hm)
        simp only [hf, Option.map_some, Bool.false_eq_true, if_false, hfe]

example : compositePixel 0x31 false (.bits ⟨"x8r8g8b8", 32, .argb, 0, 8, 8, 8⟩ false) .solid
    (.bits ⟨"r5g6b5", 16, .argb, 0, 5, 6, 5⟩ false) 0x12804020 0x80000000 0x1234 =
    .pixel ((⟨"r5g6b5", 16, .argb, 0, 5, 6, 5⟩ : Fmt).store (PdfInt.unifiedPixel .screen
      ((⟨"x8r8g8b8", 32, .argb, 0, 8, 8, 8⟩ : Fmt).fetch 0x12804020) (some 0x80000000)
      ((⟨"r5g6b5", 16, .argb, 0, 5, 6, 5⟩ : Fmt).fetch 0x1234))) :=
  compositePixel_pdf .screen false _ _ _ _ _ _ _

/-! ### Multiply -/

private theorem multiplyChannel_le (s sa d da : Nat) : multiplyChannel s sa d da ≤ 255 := by
  unfold multiplyChannel; omega

/-- `combine_32[MULTIPLY]` leaves the Spec pixel -/
theorem multiply_unified_correct (s d : Nat) (mask : Option Nat) (hs : s < 4294967296)
    (hd : d < 4294967296) (hm : ∀ mk, mask = some mk → mk < 4294967296) :
    ∃ f, combineU? 0x30 = some f ∧ f s mask d = PdfInt.multiplyUnifiedPixel s mask d := by
  refine ⟨combineMultiplyU, rfl, ?_⟩
  have hle : ∀ c, multiplyUnified c s mask d ≤ 255 := fun c => multiplyChannel_le _ _ _ _
  have hlt : combineMultiplyU s mask d < 4294967296 := lt_addUn8x4 _ _
  apply eq_of_chan_eq _ _ hlt (ofChannels_lt _ hle)
  intro c
  rw [C01.combineMultiplyU_spec s d mask hs hd hm c]
  exact (chan_ofChannels (fun c => multiplyUnified c s mask d) hle c).symm

theorem multiply_componentAlpha_correct (s mk d : Nat) (hs : s < 4294967296)
    (hm : mk < 4294967296) (hd : d < 4294967296) :
    ∃ f, combineCa? 0x30 = some f ∧ f s mk d = PdfInt.multiplyComponentAlphaPixel s mk d := by
  refine ⟨combineMultiplyCa, rfl, ?_⟩
  have hle : ∀ c, multiplyComponentAlpha c s mk d ≤ 255 := fun c => multiplyChannel_le _ _ _ _
  have hlt : combineMultiplyCa s mk d < 4294967296 := by
    unfold combineMultiplyCa
    generalize combineMaskCa s mk = p
    obtain ⟨s', m'⟩ := p
    exact lt_addUn8x4 _ _
  apply eq_of_chan_eq _ _ hlt (ofChannels_lt _ hle)
  intro c
  rw [C01.combineMultiplyCa_spec s mk d hs hm hd c]
  exact (chan_ofChannels (fun c => multiplyComponentAlpha c s mk d) hle c).symm

private theorem cell_multiply (a b : Bool) : cell 0x30 (2 * a.toNat + b.toNat) = 0x30 := by
  cases a <;> cases b <;> decide

theorem multiplyUnifiedPixel_mask_elision (s mk d : Nat) (h : chan .a mk = 255) :
    PdfInt.multiplyUnifiedPixel s (some mk) d = PdfInt.multiplyUnifiedPixel s none d := by
  unfold PdfInt.multiplyUnifiedPixel multiplyUnified
  simp only [maskedU, h, rnd_255]

/-- **the whole request, Multiply.** -/
theorem compositePixel_multiply (ca : Bool) (src mask : Pres) (df : Fmt) (rep : Bool) (s mk d : Nat) :
    compositePixel 0x30 ca src mask (.bits df rep) s mk d =
      .pixel (df.store (match mask with
        | .none => PdfInt.multiplyUnifiedPixel (src.fetch s) none (df.fetch d)
        | _ => if ca then PdfInt.multiplyComponentAlphaPixel (src.fetch s) (mask.fetch mk) (df.fetch d)
               else PdfInt.multiplyUnifiedPixel (src.fetch s) (some (mask.fetch mk)) (df.fetch d))) := by
  have hs := presFetch_lt src s
  have hm := presFetch_lt mask mk
  have hd := fetch_lt df d
  unfold compositePixel
  simp only []
  rw [C09.optimizeOperator_cell, flag_bit, flag_and_bit, cell_multiply]
  generalize hS : src.fetch s = s32 at *
  generalize hD : df.fetch d = d32 at *
  rcases mask with _ | _ | ⟨mf, mr⟩
  · obtain ⟨f, hf, hfe⟩ := multiply_unified_correct s32 d32 none hs hd (by intro m' e; cases e)
    simp only [hf, Option.map_some, if_true, hfe]
  all_goals
    simp only []
    generalize hmop : Pres.srcOpaque _ mk ca = mop
    generalize hM : Pres.fetch _ mk = m32 at hm ⊢
    cases mop with
    | true =>
      have hca : ca = false := by
        simp only [Pres.srcOpaque, Bool.and_eq_true, Bool.not_eq_true'] at hmop; exact hmop.1
      have hma : chan .a m32 = 255 := by
        rw [← hM]; exact srcOpaque_alpha _ mk ca (by intro h; cases h) hmop
      obtain ⟨f, hf, hfe⟩ := multiply_unified_correct s32 d32 none hs hd (by intro m' e; cases e)
      simp only [hf, Option.map_some, if_true, hfe, hca, Bool.false_eq_true, if_false,
        multiplyUnifiedPixel_mask_elision s32 m32 d32 hma]
    | false =>
      simp only [Bool.false_eq_true, if_false]
      cases ca with
      | true =>
        obtain ⟨f, hf, hfe⟩ := multiply_componentAlpha_correct s32 m32 d32 hs hm hd
        simp only [hf, Option.map_some, if_true, hfe]
      | false =>
        obtain ⟨f, hf, hfe⟩ := multiply_unified_correct s32 d32 (some m32) hs hd
          (by intro m' e; cases e; exact hm)
        simp only [hf, Option.map_some, Bool.false_eq_true, if_false, hfe]

example : compositePixel 0x30 true .solid (.bits ⟨"a8r8g8b8", 32, .argb, 8, 8, 8, 8⟩ false)
    (.bits ⟨"a8r8g8b8", 32, .argb, 8, 8, 8, 8⟩ false) 0x80402010 0xff80407f 0xc0102030 =
    .pixel ((⟨"a8r8g8b8", 32, .argb, 8, 8, 8, 8⟩ : Fmt).store (PdfInt.multiplyComponentAlphaPixel 0x80402010
      ((⟨"a8r8g8b8", 32, .argb, 8, 8, 8, 8⟩ : Fmt).fetch 0xff80407f)
      ((⟨"a8r8g8b8", 32, .argb, 8, 8, 8, 8⟩ : Fmt).fetch 0xc0102030))) :=
  compositePixel_multiply true _ _ _ _ _ _ _

end Pixman.Props.C01Pdf

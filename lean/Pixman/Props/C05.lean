import Pixman.Spec.PointSet
import Pixman.Spec.Canon
import Pixman.Lemmas.RegionBand
import Pixman.Lemmas.RegionSweep
import Pixman.Lemmas.RegionOps
import Pixman.Lemmas.RegionValidate
/-! C05 — region operations are exact set algebra: property theorems. -/
namespace Pixman.Props.C05
open Pixman.Region

/-- FIND_BAND loses and invents nothing. -/
theorem splitBand_append (l : List Box) : (splitBand l).1 ++ (splitBand l).2 = l := by
  have go : ∀ (y : Int) (l : List Box), (splitBandGo y l).1 ++ (splitBandGo y l).2 = l := by
    intro y l
    induction l with
    | nil => simp [splitBandGo]
    | cons c t ih =>
      simp only [splitBandGo]
      split
      · simp [ih]
      · simp
  cases l with
  | nil => simp [splitBand]
  | cons b t => simp [splitBand, go]

/-! ## 1. band procedures (1-D) -/

/-- two concrete separated span lists used by the non-vacuity examples -/
def exA : List Box := [⟨0, 0, 4, 1⟩, ⟨6, 0, 9, 1⟩, ⟨12, 0, 13, 1⟩]
def exB : List Box := [⟨2, 0, 7, 1⟩, ⟨9, 0, 12, 1⟩]
theorem exA_sep : SpansSep exA := by simp [exA, SpansSep]
theorem exB_sep : SpansSep exB := by simp [exB, SpansSep]

/-- pixman_region_intersect_o computes the intersection of the x-projections. -/
theorem interO_inSpans (y1 y2 : Int) (a b : List Box) (ha : SpansSep a) (hb : SpansSep b) (x : Int) :
    InSpans (interO y1 y2 a b) x ↔ InSpans a x ∧ InSpans b x := by
  obtain ⟨v, hv⟩ := (spansSep_iff a).1 ha
  obtain ⟨w, hw⟩ := (spansSep_iff b).1 hb
  exact Pixman.Region.interO_inSpans y1 y2 a b v w hv hw x

example (x : Int) : InSpans (interO 5 8 exA exB) x ↔ InSpans exA x ∧ InSpans exB x :=
  interO_inSpans 5 8 exA exB exA_sep exB_sep x
example : interO 5 8 exA exB = [⟨2, 5, 4, 8⟩, ⟨6, 5, 7, 8⟩] := by simp [interO, exA, exB]; decide

/-- every box produced by intersect_o has the vertical extent `(y1,y2)`. -/
theorem interO_yExtent (y1 y2 : Int) (a b : List Box) :
    ∀ r ∈ interO y1 y2 a b, r.y1 = y1 ∧ r.y2 = y2 := interO_allY y1 y2 a b

/-- the output of intersect_o is again separated. -/
theorem interO_spansSep (y1 y2 : Int) (a b : List Box) (ha : SpansSep a) (hb : SpansSep b) :
    SpansSep (interO y1 y2 a b) := by
  obtain ⟨v, hv⟩ := (spansSep_iff a).1 ha
  obtain ⟨w, hw⟩ := (spansSep_iff b).1 hb
  exact (interO_sep y1 y2 a b v w hv hw).spansSep

example : SpansSep (interO 5 8 exA exB) := interO_spansSep 5 8 exA exB exA_sep exB_sep

/-- pixman_region_union_o computes the union of the x-projections. -/
theorem unionO_inSpans (y1 y2 : Int) (a b : List Box) (ha : SpansSep a) (hb : SpansSep b)
    (hna : a ≠ []) (hnb : b ≠ []) (x : Int) :
    InSpans (unionO y1 y2 a b) x ↔ InSpans a x ∨ InSpans b x :=
  Pixman.Region.unionO_inSpans y1 y2 a b ha hb hna hnb x

example (x : Int) : InSpans (unionO 5 8 exA exB) x ↔ InSpans exA x ∨ InSpans exB x :=
  unionO_inSpans 5 8 exA exB exA_sep exB_sep (by simp [exA]) (by simp [exB]) x
example : unionO 5 8 exA exB = [⟨0, 5, 13, 8⟩] := by simp [unionO, mergeAll, exA, exB]

theorem unionO_yExtent (y1 y2 : Int) (a b : List Box) :
    ∀ r ∈ unionO y1 y2 a b, r.y1 = y1 ∧ r.y2 = y2 := unionO_allY y1 y2 a b

/-- the output of union_o is maximal: consecutive boxes are separated by a gap. -/
theorem unionO_spansSep (y1 y2 : Int) (a b : List Box) (ha : SpansSep a) (hb : SpansSep b)
    (hna : a ≠ []) (hnb : b ≠ []) : SpansSep (unionO y1 y2 a b) :=
  overlapO_sep .union y1 y2 a b ha hb hna hnb

example : SpansSep (unionO 5 8 exA exB) :=
  unionO_spansSep 5 8 exA exB exA_sep exB_sep (by simp [exA]) (by simp [exB])

/-- pixman_region_subtract_o (as called by pixman_op: the fence starts at the first minuend
    box) computes the difference of the x-projections. -/
theorem subO_inSpans (y1 y2 : Int) (a0 : Box) (as b : List Box) (ha : SpansSep (a0 :: as))
    (hb : SpansSep b) (x : Int) :
    InSpans (subO y1 y2 a0.x1 (a0 :: as) b) x ↔ InSpans (a0 :: as) x ∧ ¬ InSpans b x := by
  obtain ⟨w, hw⟩ := (spansSep_iff b).1 hb
  have ⟨h1, h2⟩ := (spansSep_cons' _ _).1 ha
  rw [Pixman.Region.subO_inSpans y1 y2 a0.x1 (a0 :: as) b w ⟨h1, h2⟩ hw x]
  simp only [SubSem, inSpans_cons']

example (x : Int) : InSpans (subO 5 8 0 exA exB) x ↔ InSpans exA x ∧ ¬ InSpans exB x :=
  subO_inSpans 5 8 ⟨0, 0, 4, 1⟩ _ exB exA_sep exB_sep x
example : subO 5 8 0 exA exB = [⟨0, 5, 2, 8⟩, ⟨7, 5, 9, 8⟩, ⟨12, 5, 13, 8⟩] := by simp [subO, exA, exB]

theorem subO_yExtent (y1 y2 x1 : Int) (a b : List Box) :
    ∀ r ∈ subO y1 y2 x1 a b, r.y1 = y1 ∧ r.y2 = y2 := subO_allY y1 y2 x1 a b

theorem subO_spansSep (y1 y2 : Int) (a0 : Box) (as b : List Box) (ha : SpansSep (a0 :: as))
    (hb : SpansSep b) : SpansSep (subO y1 y2 a0.x1 (a0 :: as) b) := by
  obtain ⟨w, hw⟩ := (spansSep_iff b).1 hb
  have ⟨h1, h2⟩ := (spansSep_cons' _ _).1 ha
  exact (subO_sep y1 y2 a0.x1 (a0 :: as) b (a0.x1 - 1) w (by omega) ⟨h1, h2⟩ hw).spansSep

example : SpansSep (subO 5 8 0 exA exB) := subO_spansSep 5 8 ⟨0, 0, 4, 1⟩ _ exB exA_sep exB_sep

/-- the overlap procedure dispatched by `overlapO`, all three operations at once -/
theorem overlapO_inSpans (k : OpKind) (y1 y2 : Int) (a b : List Box) (ha : SpansSep a)
    (hb : SpansSep b) (hna : a ≠ []) (hnb : b ≠ []) (x : Int) :
    InSpans (overlapO k y1 y2 a b) x ↔ k.sem (InSpans a x) (InSpans b x) :=
  Pixman.Region.overlapO_inSpans k y1 y2 a b ha hb hna hnb x

example (x : Int) : InSpans (overlapO .sub 5 8 exA exB) x ↔ InSpans exA x ∧ ¬ InSpans exB x :=
  overlapO_inSpans .sub 5 8 exA exB exA_sep exB_sep (by simp [exA]) (by simp [exB]) x

theorem overlapO_yExtent (k : OpKind) (y1 y2 : Int) (a b : List Box) :
    ∀ r ∈ overlapO k y1 y2 a b, r.y1 = y1 ∧ r.y2 = y2 := overlapO_allY k y1 y2 a b

theorem overlapO_spansSep (k : OpKind) (y1 y2 : Int) (a b : List Box) (ha : SpansSep a)
    (hb : SpansSep b) (hna : a ≠ []) (hnb : b ≠ []) : SpansSep (overlapO k y1 y2 a b) :=
  overlapO_sep k y1 y2 a b ha hb hna hnb

/-! ## 2. the sweep of pixman_op -/

/-- two concrete canonical lists (two and three bands) used by the non-vacuity examples -/
def exL1 : List Box := [⟨0, 0, 10, 5⟩, ⟨0, 5, 4, 9⟩, ⟨6, 5, 10, 9⟩]
def exL2 : List Box := [⟨2, 3, 8, 7⟩, ⟨2, 7, 5, 12⟩, ⟨20, 12, 30, 13⟩]
theorem exL1_canon : CanonList exL1 :=
  ⟨[(0, 5, [⟨0, 0, 10, 5⟩]), (5, 9, [⟨0, 5, 4, 9⟩, ⟨6, 5, 10, 9⟩])],
    by simp [BandsOK, IsBand, SpansSep, SameSpans], rfl⟩
theorem exL2_canon : CanonList exL2 :=
  ⟨[(3, 7, [⟨2, 3, 8, 7⟩]), (7, 12, [⟨2, 7, 5, 12⟩]), (12, 13, [⟨20, 12, 30, 13⟩])],
    by simp [BandsOK, IsBand, SpansSep, SameSpans], rfl⟩

/-- pixman_op with union_o: the points of the result are the union. -/
theorem pixmanOpRects_union (a b : List Box) (ha : CanonList a) (hb : CanonList b)
    (hna : a ≠ []) (hnb : b ≠ []) (x y : Int) :
    MemL (pixmanOpRects .union true true a b) x y ↔ MemL a x y ∨ MemL b x y :=
  (pixmanOpRects_spec .union true true (Or.inl ⟨rfl, rfl, rfl⟩) a b ha hb hna hnb).2 x y

example (x y : Int) :
    MemL (pixmanOpRects .union true true exL1 exL2) x y ↔ MemL exL1 x y ∨ MemL exL2 x y :=
  pixmanOpRects_union exL1 exL2 exL1_canon exL2_canon (by simp [exL1]) (by simp [exL2]) x y

/-- pixman_op with intersect_o: the points of the result are the intersection. -/
theorem pixmanOpRects_inter (a b : List Box) (ha : CanonList a) (hb : CanonList b)
    (hna : a ≠ []) (hnb : b ≠ []) (x y : Int) :
    MemL (pixmanOpRects .inter false false a b) x y ↔ MemL a x y ∧ MemL b x y :=
  (pixmanOpRects_spec .inter false false (Or.inr (Or.inl ⟨rfl, rfl, rfl⟩)) a b ha hb hna hnb).2 x y

example (x y : Int) :
    MemL (pixmanOpRects .inter false false exL1 exL2) x y ↔ MemL exL1 x y ∧ MemL exL2 x y :=
  pixmanOpRects_inter exL1 exL2 exL1_canon exL2_canon (by simp [exL1]) (by simp [exL2]) x y

/-- pixman_op with subtract_o: the points of the result are the difference. -/
theorem pixmanOpRects_sub (a b : List Box) (ha : CanonList a) (hb : CanonList b)
    (hna : a ≠ []) (hnb : b ≠ []) (x y : Int) :
    MemL (pixmanOpRects .sub true false a b) x y ↔ MemL a x y ∧ ¬ MemL b x y :=
  (pixmanOpRects_spec .sub true false (Or.inr (Or.inr ⟨rfl, rfl, rfl⟩)) a b ha hb hna hnb).2 x y

example (x y : Int) :
    MemL (pixmanOpRects .sub true false exL1 exL2) x y ↔ MemL exL1 x y ∧ ¬ MemL exL2 x y :=
  pixmanOpRects_sub exL1 exL2 exL1_canon exL2_canon (by simp [exL1]) (by simp [exL2]) x y

/-- the output of pixman_op is canonical (COALESCE merges exactly the vertically touching bands
    with identical spans; the tail is appended as is). -/
theorem pixmanOpRects_canon (k : OpKind) (app1 app2 : Bool) (hk : Compat k app1 app2)
    (a b : List Box) (ha : CanonList a) (hb : CanonList b) (hna : a ≠ []) (hnb : b ≠ []) :
    CanonList (pixmanOpRects k app1 app2 a b) :=
  (pixmanOpRects_spec k app1 app2 hk a b ha hb hna hnb).1

example : CanonList (pixmanOpRects .sub true false exL1 exL2) :=
  pixmanOpRects_canon .sub true false (Or.inr (Or.inr ⟨rfl, rfl, rfl⟩)) exL1 exL2 exL1_canon
    exL2_canon (by simp [exL1]) (by simp [exL2])

/-- the fuel given to the loop of pixman_op in `pixmanOpRects` is enough: the loop ends because
    one of the two lists is exhausted, not because the fuel ran out. -/
theorem sweep_fuel_enough (k : OpKind) (app1 app2 : Bool) (hk : Compat k app1 app2)
    (a b : List Box) (ha : CanonList a) (hb : CanonList b) (hna : a ≠ []) (hnb : b ≠ []) :
    let s := sweep k app1 app2 (2 * (a.length + b.length) + 2)
      ⟨a, b, min (headY1 a) (headY1 b), ⟨[], []⟩⟩
    s.r1 = [] ∨ s.r2 = [] := by
  obtain ⟨bsa, hBa, ea⟩ := ha
  obtain ⟨bsb, hBb, eb⟩ := hb
  cases bsa with
  | nil => exact absurd ea hna
  | cons ba ta =>
  cases bsb with
  | nil => exact absurd eb hnb
  | cons bb tb =>
  have ea' : a = flat' (ba :: ta) := ea
  have eb' : b = flat' (bb :: tb) := eb
  have e1 : headY1 a = ba.1 := by rw [ea']; exact headY1_flat hBa
  have e2 : headY1 b = bb.1 := by rw [eb']; exact headY1_flat hBb
  have hla := ((bandsOK_cons' _ _).1 hBa).1.lt
  have hlb := ((bandsOK_cons' _ _).1 hBb).1.lt
  have hI0 : SInv ⟨a, b, min ba.1 bb.1, ⟨[], []⟩⟩ :=
    ⟨ba :: ta, bb :: tb, ea', hBa, eb', hBb,
      fun b t e => by cases e; simp only; omega, fun b t e => by cases e; simp only; omega,
      fun b1 t1 b2 t2 e1 e2 => by cases e1; cases e2; simp only; omega, OutOK.init _⟩
  have := (sweep_spec k app1 app2 hk (2 * (a.length + b.length) + 2) _ hI0 (by
    show a.length + b.length ≤ _; omega)).2.1
  rw [← e1, ← e2] at this
  exact this

example : (sweep .union true true (2 * (exL1.length + exL2.length) + 2)
    ⟨exL1, exL2, min (headY1 exL1) (headY1 exL2), ⟨[], []⟩⟩).r1 = [] ∨
    (sweep .union true true (2 * (exL1.length + exL2.length) + 2)
    ⟨exL1, exL2, min (headY1 exL1) (headY1 exL2), ⟨[], []⟩⟩).r2 = [] :=
  sweep_fuel_enough .union true true (Or.inl ⟨rfl, rfl, rfl⟩) exL1 exL2 exL1_canon exL2_canon
    (by simp [exL1]) (by simp [exL2])


/-! ## 3. the public operations on canonical region objects

Each theorem: the call succeeds (no-failure world), the result is canonical (in particular its
extents are the tight bounding box), and its points are exactly the set-algebra result.
`same` says that both operands are the same object; `al` which operand the destination is. -/

/-- two concrete canonical multi-rectangle regions used by the non-vacuity examples -/
def exR1 : Region := ⟨⟨0, 0, 10, 9⟩, .heap exL1⟩
def exR2 : Region := ⟨⟨2, 3, 30, 13⟩, .heap exL2⟩
theorem exR1_canon : Canon exR1 :=
  ⟨by decide, exL1_canon, by simp [IsBBox, exL1, exR1]⟩
theorem exR2_canon : Canon exR2 :=
  ⟨by decide, exL2_canon, by simp [IsBBox, exL2, exR2]⟩

/-- pixman_region_union -/
theorem union_exact (same : Bool) (al : Alias) (d a b : Region) (ha : Canon a) (hb : Canon b)
    (hs : same = true → a = b) (h1 : al = .first → d = a) (h2 : al = .second → d = b) :
    (union same al d a b).2 = true ∧ Canon (union same al d a b).1 ∧
    ∀ x y, (union same al d a b).1.Mem x y ↔ a.Mem x y ∨ b.Mem x y :=
  union_spec same al d a b ha hb hs h1 h2

example : (union false .first exR1 exR1 exR2).2 = true ∧ Canon (union false .first exR1 exR1 exR2).1 ∧
    ∀ x y, (union false .first exR1 exR1 exR2).1.Mem x y ↔ exR1.Mem x y ∨ exR2.Mem x y :=
  union_exact false .first exR1 exR1 exR2 exR1_canon exR2_canon (fun e => by cases e) (fun _ => rfl)
    (fun e => by cases e)

/-- pixman_region_intersect -/
theorem intersect_exact (same : Bool) (d a b : Region) (ha : Canon a) (hb : Canon b)
    (hs : same = true → a = b) :
    (intersect same d a b).2 = true ∧ Canon (intersect same d a b).1 ∧
    ∀ x y, (intersect same d a b).1.Mem x y ↔ a.Mem x y ∧ b.Mem x y :=
  intersect_spec same d a b ha hb hs

example : (intersect false exR2 exR1 exR2).2 = true ∧ Canon (intersect false exR2 exR1 exR2).1 ∧
    ∀ x y, (intersect false exR2 exR1 exR2).1.Mem x y ↔ exR1.Mem x y ∧ exR2.Mem x y :=
  intersect_exact false exR2 exR1 exR2 exR1_canon exR2_canon (fun e => by cases e)

/-- pixman_region_subtract (`same`: minuend and subtrahend are the same object, result empty) -/
theorem subtract_exact (same : Bool) (d m s : Region) (hm : Canon m) (hs : Canon s)
    (hsame : same = true → m = s) :
    (subtract same d m s).2 = true ∧ Canon (subtract same d m s).1 ∧
    ∀ x y, (subtract same d m s).1.Mem x y ↔ m.Mem x y ∧ ¬ s.Mem x y :=
  subtract_spec same d m s hm hs hsame

example : (subtract false init exR1 exR2).2 = true ∧ Canon (subtract false init exR1 exR2).1 ∧
    ∀ x y, (subtract false init exR1 exR2).1.Mem x y ↔ exR1.Mem x y ∧ ¬ exR2.Mem x y :=
  subtract_exact false init exR1 exR2 exR1_canon exR2_canon (fun e => by cases e)
example : ∀ x y, ¬ (subtract true exR1 exR1 exR1).1.Mem x y := fun x y h =>
  absurd ((subtract_exact true exR1 exR1 exR1 exR1_canon exR1_canon (fun _ => rfl)).2.2 x y |>.1 h).1
    ((subtract_exact true exR1 exR1 exR1 exR1_canon exR1_canon (fun _ => rfl)).2.2 x y |>.1 h).2

/-- pixman_region_inverse: `invRect` minus the region (for a non-degenerate `invRect`) -/
theorem inverse_exact (d a : Region) (invRect : Box) (ha : Canon a)
    (hg : goodRect invRect = true) :
    (inverse d a invRect).2 = true ∧ Canon (inverse d a invRect).1 ∧
    ∀ x y, (inverse d a invRect).1.Mem x y ↔ invRect.Mem x y ∧ ¬ a.Mem x y :=
  inverse_spec d a invRect ha hg

example : (inverse init exR1 ⟨-3, 2, 8, 20⟩).2 = true ∧ Canon (inverse init exR1 ⟨-3, 2, 8, 20⟩).1 ∧
    ∀ x y, (inverse init exR1 ⟨-3, 2, 8, 20⟩).1.Mem x y ↔
      (Box.mk (-3) 2 8 20).Mem x y ∧ ¬ exR1.Mem x y :=
  inverse_exact init exR1 ⟨-3, 2, 8, 20⟩ exR1_canon (by decide)

/-- pixman_region_union_rect (the rectangle is `rectBox`: `x + width` truncated as in C;
    the destination may be the source) -/
theorem unionRect_exact (c : Cfg) (al : Alias) (d s : Region) (x y : Int) (w h : Nat)
    (hs : Canon s) (h1 : al = .first → d = s) (h2 : al ≠ .second) :
    (unionRect c al d s x y w h).2 = true ∧ Canon (unionRect c al d s x y w h).1 ∧
    ∀ px py, (unionRect c al d s x y w h).1.Mem px py ↔
      s.Mem px py ∨ (rectBox c x y w h).Mem px py :=
  unionRect_spec c al d s x y w h hs h1 h2

example : ∀ px py, (unionRect c32 .first exR1 exR1 4 4 20 3).1.Mem px py ↔
    exR1.Mem px py ∨ (Box.mk 4 4 24 7).Mem px py := by
  have h := (unionRect_exact c32 .first exR1 exR1 4 4 20 3 exR1_canon (fun _ => rfl) (by decide)).2.2
  rw [rectBox_inRange c32 (by decide) 4 4 20 3 (by decide) (by decide) (by decide) (by decide)] at h
  exact h

/-- pixman_region_intersect_rect -/
theorem intersectRect_exact (c : Cfg) (d s : Region) (x y : Int) (w h : Nat) (hs : Canon s) :
    (intersectRect c d s x y w h).2 = true ∧ Canon (intersectRect c d s x y w h).1 ∧
    ∀ px py, (intersectRect c d s x y w h).1.Mem px py ↔
      s.Mem px py ∧ (rectBox c x y w h).Mem px py :=
  intersectRect_spec c d s x y w h hs

example : ∀ px py, (intersectRect c16 exR2 exR1 4 4 20 3).1.Mem px py ↔
    exR1.Mem px py ∧ (Box.mk 4 4 24 7).Mem px py := by
  have h := (intersectRect_exact c16 exR2 exR1 4 4 20 3 exR1_canon).2.2
  rw [rectBox_inRange c16 (by decide) 4 4 20 3 (by decide) (by decide) (by decide) (by decide)] at h
  exact h

/-- inside the coordinate range `rectBox` is the rectangle itself -/
theorem rectBox_exact (c : Cfg) (hb : 1 ≤ c.bits) (x y : Int) (w h : Nat) (hx : c.min ≤ x)
    (hy : c.min ≤ y) (hx2 : x + w ≤ c.max) (hy2 : y + h ≤ c.max) :
    rectBox c x y w h = ⟨x, y, x + w, y + h⟩ :=
  rectBox_inRange c hb x y w h hx hy hx2 hy2

example : rectBox c16 (-5) 7 100 2 = ⟨-5, 7, 95, 9⟩ :=
  rectBox_exact c16 (by decide) (-5) 7 100 2 (by decide) (by decide) (by decide) (by decide)

/-- pixman_region_copy -/
theorem copy_exact (d s : Region) (hs : Canon s) :
    Canon (copy d s) ∧ ∀ x y, (copy d s).Mem x y ↔ s.Mem x y :=
  ⟨hs, fun _ _ => Iff.rfl⟩

example : Canon (copy exR2 exR1) ∧ ∀ x y, (copy exR2 exR1).Mem x y ↔ exR1.Mem x y :=
  copy_exact exR2 exR1 exR1_canon

/-- pixman_region_reset -/
theorem reset_exact (b : Box) (hg : goodRect b = true) :
    Canon (reset b) ∧ ∀ x y, (reset b).Mem x y ↔ b.Mem x y :=
  reset_spec b hg

example : Canon (reset ⟨1, 2, 3, 4⟩) ∧ ∀ x y, (reset ⟨1, 2, 3, 4⟩).Mem x y ↔ (Box.mk 1 2 3 4).Mem x y :=
  reset_exact ⟨1, 2, 3, 4⟩ (by decide)

/-- pixman_region_clear / pixman_region_init -/
theorem clear_exact : Canon clear ∧ ∀ x y, ¬ clear.Mem x y :=
  ⟨canon_init, not_mem_init⟩

/-- pixman_region_init_rect (degenerate rectangles give the empty region) -/
theorem initRect_exact (c : Cfg) (x y : Int) (w h : Nat) :
    Canon (initRect c x y w h) ∧
    ∀ px py, (initRect c x y w h).Mem px py ↔ (rectBox c x y w h).Mem px py :=
  initRect_spec c x y w h

example : ∀ px py, (initRect c32 3 4 10 0).Mem px py ↔ (rectBox c32 3 4 10 0).Mem px py :=
  (initRect_exact c32 3 4 10 0).2

/-- pixman_region_init_with_extents -/
theorem initWithExtents_exact (e : Box) :
    Canon (initWithExtents e) ∧ ∀ x y, (initWithExtents e).Mem x y ↔ e.Mem x y :=
  initWithExtents_spec e

example : Canon (initWithExtents ⟨5, 5, 1, 9⟩) ∧
    ∀ x y, (initWithExtents ⟨5, 5, 1, 9⟩).Mem x y ↔ (Box.mk 5 5 1 9).Mem x y :=
  initWithExtents_exact ⟨5, 5, 1, 9⟩

/-- pixman_set_extents computes the tight bounding box of canonical rectangle data and keeps the
    rectangles. -/
theorem setExtents_exact (r : Region) (h : CanonData r) :
    Canon (setExtents r) ∧ (setExtents r).rects = r.rects :=
  ⟨setExtents_canon h, setExtents_rects r⟩

example : Canon (setExtents ⟨⟨7, 7, 7, 7⟩, .heap exL1⟩) ∧
    (setExtents ⟨⟨7, 7, 7, 7⟩, .heap exL1⟩).rects = exL1 :=
  setExtents_exact ⟨⟨7, 7, 7, 7⟩, .heap exL1⟩ ⟨by decide, exL1_canon⟩


/-! ## 4. validate / pixman_region_init_rects -/

/-- step 1 of validate: the sort keeps the rectangles and orders them by (y1, x1).  Only this is
    used of the sort, so the result of validate does not depend on which sort is used. -/
theorem sortRects_spec (l : List Box) :
    (∀ q, q ∈ sortRects l ↔ q ∈ l) ∧ (sortRects l).Pairwise KeyLe :=
  ⟨fun q => mem_sortRects q l, sortRects_sorted l⟩

/-- an unsorted, overlapping list with a degenerate member, for the non-vacuity examples -/
def exBoxes : List Box := [⟨5, 5, 9, 9⟩, ⟨0, 0, 6, 6⟩, ⟨3, 3, 3, 8⟩, ⟨7, 2, 12, 4⟩, ⟨0, 0, 6, 6⟩]
def exGood : List Box := [⟨5, 5, 9, 9⟩, ⟨0, 0, 6, 6⟩, ⟨7, 2, 12, 4⟩, ⟨0, 0, 6, 6⟩]

/-- validate (steps 1–3: sort, scatter into regions under construction, pairwise union) on ANY
    list of non-degenerate rectangles — any order, overlapping, repeated: the result is canonical
    and has exactly the points of the list. -/
theorem validateRects_exact (l : List Box) (hg : ∀ b ∈ l, goodRect b = true) :
    Canon (validateRects l) ∧ ∀ x y, (validateRects l).Mem x y ↔ MemL l x y :=
  validateRects_spec l hg

example : Canon (validateRects exGood) ∧ ∀ x y, (validateRects exGood).Mem x y ↔ MemL exGood x y :=
  validateRects_exact exGood (by decide)

/-- pixman_region_init_rects on ANY list of boxes with representable coordinates (any order,
    overlapping, degenerate): succeeds, the result is canonical, and its points are the union of
    the boxes (degenerate boxes have no points). -/
theorem initRects_exact (c : Cfg) (hb1 : 1 ≤ c.bits) (hb2 : c.bits ≤ 32) (boxes : List Box)
    (hr : ∀ b ∈ boxes, BoxInRange c b) :
    (initRects c boxes).2 = true ∧ Canon (initRects c boxes).1 ∧
    ∀ x y, (initRects c boxes).1.Mem x y ↔ MemL boxes x y :=
  initRects_spec c hb1 hb2 boxes hr

/-- the same, spelled as "the union of the non-degenerate boxes" -/
theorem initRects_union_of_good (c : Cfg) (hb1 : 1 ≤ c.bits) (hb2 : c.bits ≤ 32)
    (boxes : List Box) (hr : ∀ b ∈ boxes, BoxInRange c b) (x y : Int) :
    (initRects c boxes).1.Mem x y ↔ ∃ b ∈ boxes, goodRect b = true ∧ b.Mem x y := by
  rw [(initRects_spec c hb1 hb2 boxes hr).2.2 x y]
  constructor
  · rintro ⟨b, hb, hm⟩
    refine ⟨b, hb, ?_, hm⟩
    rw [goodRect_iff]; simp only [Box.Mem] at hm; omega
  · rintro ⟨b, hb, _, hm⟩; exact ⟨b, hb, hm⟩

theorem exBoxes_inRange : ∀ b ∈ exBoxes, BoxInRange c16 b := by
  intro b hb
  simp only [exBoxes, List.mem_cons, List.not_mem_nil, or_false] at hb
  rcases hb with rfl | rfl | rfl | rfl | rfl <;> simp only [BoxInRange] <;> decide

example : (initRects c16 exBoxes).2 = true ∧ Canon (initRects c16 exBoxes).1 ∧
    ∀ x y, (initRects c16 exBoxes).1.Mem x y ↔ MemL exBoxes x y :=
  initRects_exact c16 (by decide) (by decide) exBoxes exBoxes_inRange

end Pixman.Props.C05

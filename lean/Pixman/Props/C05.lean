import Pixman.Spec.PointSet
/-! C05 — region operations are exact set algebra: property theorems. -/
namespace Pixman.Props.C05
open Pixman.Region

/-- FIND_BAND loses and invents nothing. -/
theorem splitBand_append (l : List Box) : (splitBand l).1 ++ (splitBand l).2 = l := by
  have go : ∀ (y : Int) (l : List Box), (splitBandGo y l).1 ++ (splitBandGo y l).2 = l := by
    intro y l
    induction l with
    | nil => simp [splitBandGo]
    | cons c t ih =>
      simp only [splitBandGo]
      split
      · simp [ih]
      · simp
  cases l with
  | nil => simp [splitBand]
  | cons b t => simp [splitBand, go]

end Pixman.Props.C05

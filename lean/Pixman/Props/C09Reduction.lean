import Pixman.Props.C09Sound
/-! C09: `compute_image_info`'s BILINEAR → NEAREST reduction.  A BILINEAR/GOOD/BEST filter gets FAST_PATH_NEAREST_FILTER
when there is no transform, or the affine matrix passes the integer-translation test (`reducible`).  The reference
fetcher (`bits_image_fetch_pixel_filtered`, `Model/Fetch.fetchFiltered`) still dispatches on the FILTER and runs the
bilinear fetcher; under the reduction every sample position has fraction exactly 1/2, both bilinear weights are 0 and
the value is the top-left tap, which is the NEAREST sample — so the nearest soundness argument applies to it. -/
namespace Pixman.Props.C09Reduction
open Pixman.Model Pixman.Model.Opacity Pixman.Model.ImageState Pixman.Gen.ImageFlags Pixman.Lemmas.OpacityFlags
open Pixman.Model.Extent Pixman.Model.Fetch Pixman.Lemmas.FetchBilinear Pixman.Matrix Pixman.Sample
open Pixman.Props.C09Flags Pixman.Props.C09Sound

private theorem or_and_zero (a b m : Nat) (h : (a ||| b) &&& m = 0) : a &&& m = 0 ∧ b &&& m = 0 := by
  rw [Nat.and_or_distrib_right] at h
  exact Nat.or_eq_zero_iff.mp h

private theorem u32_low (x : Int) (h : toU32 x &&& 0xffff = 0) : x % 65536 = 0 := by
  unfold toU32 at h
  have e : (0xffff : Nat) = 2 ^ 16 - 1 := by decide
  rw [e, Nat.and_two_pow_sub_one_eq_mod] at h
  omega

private theorem tmod_odd (z : Int) (h : Int.tmod z 2 = 1) : 0 ≤ z ∧ z % 2 = 1 := by
  rw [Int.tmod_eq_emod] at h
  split at h
  · rename_i hc
    rcases hc with hc | hc
    · simp at h; exact ⟨hc, h⟩
    · simp at h; omega
  · simp at h; omega

private theorem bit16 (A B : Nat) (hA : A < 4294967296) (h : Int.tmod (toS32 (A &&& B) / 65536) 2 = 1) :
    A / 65536 % 2 = 1 ∧ B / 65536 % 2 = 1 := by
  have hN : A &&& B ≤ A := Nat.and_le_left
  obtain ⟨h0, h1⟩ := tmod_odd _ h
  unfold toS32 at h0 h1
  have hlt : (A &&& B) % 4294967296 = A &&& B := Nat.mod_eq_of_lt (by omega)
  rw [hlt] at h0 h1
  split at h0
  · have : (A &&& B) / 65536 % 2 = 1 := by omega
    have tb : (A &&& B).testBit 16 = true := by
      rw [Nat.testBit_eq_decide_div_mod_eq]; simpa using this
    rw [Nat.testBit_and, Bool.and_eq_true] at tb
    rw [Nat.testBit_eq_decide_div_mod_eq, Nat.testBit_eq_decide_div_mod_eq] at tb
    simpa using tb
  · omega

/-- what `reducible` says about the matrix: the first two rows are whole numbers and `m00 + m01`, `m10 + m11` are odd -/
theorem reducible_matrix (t : ImageState.Transform) (h : reducible t = true) :
    t.m00 % 65536 = 0 ∧ t.m01 % 65536 = 0 ∧ t.m02 % 65536 = 0 ∧ t.m10 % 65536 = 0 ∧ t.m11 % 65536 = 0 ∧ t.m12 % 65536 = 0 ∧
    (t.m00 + t.m01) / 65536 % 2 = 1 ∧ (t.m10 + t.m11) / 65536 % 2 = 1 := by
  unfold reducible at h
  simp only [Bool.and_eq_true, beq_iff_eq] at h
  obtain ⟨h0, h1⟩ := h
  obtain ⟨h0, e12⟩ := or_and_zero _ _ _ h0
  obtain ⟨h0, e11⟩ := or_and_zero _ _ _ h0
  obtain ⟨h0, e10⟩ := or_and_zero _ _ _ h0
  obtain ⟨h0, e02⟩ := or_and_zero _ _ _ h0
  obtain ⟨e00, e01⟩ := or_and_zero _ _ _ h0
  have a00 := u32_low _ e00; have a01 := u32_low _ e01; have a02 := u32_low _ e02
  have a10 := u32_low _ e10; have a11 := u32_low _ e11; have a12 := u32_low _ e12
  have hA : toU32 (t.m00 + t.m01) < 4294967296 := by unfold toU32; omega
  obtain ⟨b1, b2⟩ := bit16 _ _ hA h1
  refine ⟨a00, a01, a02, a10, a11, a12, ?_, ?_⟩
  · unfold toU32 at b1; omega
  · unfold toU32 at b2; omega

/-- such a row maps every pixel centre to a position of fraction exactly 1/2 -/
theorem half_position (a b c i j : Int) (ha : a % 65536 = 0) (hb : b % 65536 = 0) (hc : c % 65536 = 0)
    (hodd : (a + b) / 65536 % 2 = 1) : (sampleCoord a b c i j - 32768) % 65536 = 0 := by
  obtain ⟨a', rfl⟩ : ∃ a', a = 65536 * a' := ⟨a / 65536, by omega⟩
  obtain ⟨b', rfl⟩ : ∃ b', b = 65536 * b' := ⟨b / 65536, by omega⟩
  obtain ⟨c', rfl⟩ : ∃ c', c = 65536 * c' := ⟨c / 65536, by omega⟩
  unfold sampleCoord Pixman.Spec.Fixed.roundHalfUp Pixman.Spec.Fixed.dot
  have e : 65536 * a' * (i * 65536 + 32768) + 65536 * b' * (j * 65536 + 32768) + 65536 * c' * 65536 =
      65536 * (65536 * (a' * i) + 65536 * (b' * j) + 32768 * (a' + b') + 65536 * c') := by grind
  rw [e]
  generalize a' * i = P
  generalize b' * j = Q
  omega


theorem tap_lt (b : Bits) (hp : OpaquePixels b) (hw : 0 < b.width) (hh : 0 < b.height) (x y : Int) : tap b x y < 4294967296 := by
  by_cases hr : b.rep = .none
  · by_cases hin : 0 ≤ x ∧ x < b.width ∧ 0 ≤ y ∧ y < b.height
    · exact (tap_opaque b hp hw hh x y (Or.inr hin)).2
    · unfold tap
      simp only [hr, ne_eq, not_true_eq_false, if_false, getPixel]
      rw [if_pos ⟨trivial, by omega⟩]; decide
  · exact (tap_opaque b hp hw hh x y (Or.inl hr)).2

/-- both weights 0: the interpolated alpha is the top-left tap's -/
theorem bilinear_zero_weights_alpha (tl tr bl br : Nat)
    (htl : tl < 4294967296) (htr : tr < 4294967296) (hbl : bl < 4294967296) (hbr : br < 4294967296) :
    chA (bilinearInterpolation tl tr bl br 0 0) = chA tl := by
  rw [Pixman.Props.C08.bilinear_lanes tl tr bl br 0 0 htl htr hbl hbr (by decide) (by decide)]
  have z : ∀ c1 c2 c3 c4 : Nat, Pixman.Spec.Sampling.bilinearChannel c1 c2 c3 c4 (2 * 0) (2 * 0) = c1 := by
    intro c1 c2 c3 c4; unfold Pixman.Spec.Sampling.bilinearChannel; omega
  simp only [z]
  obtain ⟨a1, r1, g1, b1⟩ := ch_le tl
  exact chA_pack4 _ _ _ _ a1 r1 g1 b1

/-- BILINEAR at a position of fraction exactly 1/2 on both axes: the value has the alpha of the NEAREST sample -/
theorem bilinear_half_value_opaque (b : Bits) (hp : OpaquePixels b) (hw : 0 < b.width ∧ b.width ≤ 32767) (hh : 0 < b.height ∧ b.height ≤ 32767)
    (x y : Int) (hx : (x - 32768) % 65536 = 0) (hy : (y - 32768) % 65536 = 0)
    (h : 0 ≤ nearestIndex x ∧ nearestIndex x < b.width ∧ 0 ≤ nearestIndex y ∧ nearestIndex y < b.height) :
    chA (fetchBilinear b x y) = 255 := by
  obtain ⟨h1, h2, h3, h4⟩ := h
  simp only [nearestIndex, fixedE, fixedToInt] at h1 h2 h3 h4
  unfold fetchBilinear
  simp only []
  have ex : wrapS32 (x - 32768) = x - 32768 := wrapS32_of_range _ (by omega)
  have ey : wrapS32 (y - 32768) = y - 32768 := wrapS32_of_range _ (by omega)
  have wx : (bilinearWeight (x - 32768)).toNat = 0 := by unfold bilinearWeight; omega
  have wy : (bilinearWeight (y - 32768)).toNat = 0 := by unfold bilinearWeight; omega
  simp only [ex, ey, wx, wy]
  rw [bilinear_zero_weights_alpha _ _ _ _ (tap_lt b hp hw.1 hh.1 _ _) (tap_lt b hp hw.1 hh.1 _ _) (tap_lt b hp hw.1 hh.1 _ _) (tap_lt b hp hw.1 hh.1 _ _)]
  apply (tap_opaque b hp hw.1 hh.1 _ _ (Or.inr ?_)).1
  unfold fixedToInt
  omega

/-- the sample positions of an image whose BILINEAR-family filter was reduced to NEAREST have fraction 1/2 -/
theorem reduced_positions (i : Img) (h11 : i.flags.testBit 11 = true) (hb : bilinearFam i.props.filter = true) (x y : Int) :
    (sampleX i.extentImage.transform x y - 32768) % 65536 = 0 ∧ (sampleY i.extentImage.transform x y - 32768) % 65536 = 0 := by
  have hn : nearestFam i.props.filter = false := by
    unfold nearestFam; unfold bilinearFam at hb
    simp only [Bool.or_eq_true, beq_iff_eq] at hb
    rcases hb with (e | e) | e <;> rw [e] <;> decide
  unfold Img.flags at h11
  rcases flags_11 _ _ _ h11 with hnf | ⟨_, hnone | ⟨t, ht, _, hred⟩⟩
  · rw [hn] at hnf; cases hnf
  · unfold Img.extentImage; simp only [hnone, Option.map_none, sampleX, sampleY]; omega
  · obtain ⟨a00, a01, a02, a10, a11, a12, o1, o2⟩ := reducible_matrix t hred
    unfold Img.extentImage; simp only [ht, Option.map_some, sampleX, sampleY, toMatrix]
    exact ⟨half_position _ _ _ x y a00 a01 a02 o1, half_position _ _ _ x y a10 a11 a12 o2⟩

/-- `opaque_values` without the bilinear proviso: EVERY value the reference fetcher returns has alpha 255 -/
theorem opaque_values_full (i : Img) (b : Bits) (hb : Presents i b) (hk : i.cr.kind = .bits)
    (hI : ∀ t, i.props.transform = some t → (toMatrix t).isI32)
    (e : Box32) (fl : Extent.Flags) (ha : analyzeExtent i.extentImage e = .ok (true, fl))
    (h : (i.flags ||| coverBits fl).testBit 13 = true ∨
        ((i.flags ||| coverBits fl).testBit 7 = true ∧ (i.flags ||| coverBits fl).testBit 11 = true ∧
          (i.flags ||| coverBits fl).testBit 17 = true ∧ (i.flags ||| coverBits fl).testBit 23 = true) ∨
        ((i.flags ||| coverBits fl).testBit 7 = true ∧ (i.flags ||| coverBits fl).testBit 19 = true ∧
          (i.flags ||| coverBits fl).testBit 17 = true ∧ (i.flags ||| coverBits fl).testBit 24 = true))
    (x y : Int) (hx : e.x1 ≤ x ∧ x < e.x2) (hy : e.y1 ≤ y ∧ y < e.y2) :
    (b.filter = .nearest ∨ b.filter = .bilinear) ∧
    chA (fetchFiltered b (sampleX i.extentImage.transform x y) (sampleY i.extentImage.transform x y)) = 255 := by
  obtain ⟨g1, g2, g3⟩ := opaque_values i b hb hk hI e fl ha h x y hx hy
  refine ⟨g1, ?_⟩
  rcases g1 with hf | hf
  · exact g2 hf
  · obtain ⟨c23, c24, c7, c13, c17⟩ := coverBits_tb fl
    obtain ⟨f23, f24⟩ := cover_bits_clear i
    have c11 : (coverBits fl).testBit 11 = false := by unfold coverBits; cases fl.nearest <;> cases fl.bilinear <;> decide
    simp only [Nat.testBit_or, c23, c24, c7, c13, c17, c11, f23, f24, Bool.or_false, Bool.false_or] at h
    rcases h with h13 | ⟨h7, h11, h17, hn⟩ | ⟨_, _, _, hbl⟩
    · exact g3 hf (Or.inl h13)
    · -- the reduction: NEAREST_FILTER on a BILINEAR-family filter
      have hbf : bilinearFam i.props.filter = true := by
        unfold bilinearFam
        rcases hb.bilinear.mp hf with e | e | e <;> rw [e] <;> decide
      obtain ⟨px, py⟩ := reduced_positions i h11 hbf x y
      have hin : 0 ≤ nearestIndex (sampleX i.extentImage.transform x y) ∧ nearestIndex (sampleX i.extentImage.transform x y) < b.width ∧
          0 ≤ nearestIndex (sampleY i.extentImage.transform x y) ∧ nearestIndex (sampleY i.extentImage.transform x y) < b.height := by
        have := Pixman.Props.C04.cover_nearest_sound i.extentImage e true fl (optAffine_of_flag i h17 hI) (id_flag_no_transform i) ha hn x y hx hy
        rw [hb.width, hb.height]; exact this
      have hal : alphaLess i.cr.format = true := by
        rw [samples_opaque_flag] at h7; simp at h7; exact h7.1.2
      obtain ⟨w0, w1, h0, h1⟩ := hb.size
      unfold fetchFiltered; rw [hf]
      exact bilinear_half_value_opaque b (hb.pixels hal) ⟨w0, w1⟩ ⟨h0, h1⟩ _ _ px py hin
    · exact g3 hf (Or.inr hbl)

/-- (O3) end to end, SOURCE, bits image — no gap left: bit 13 of the looked-up source word ⇒ for EVERY pixel of the
request the reference fetcher (NEAREST/FAST or BILINEAR/GOOD/BEST; convolution cannot occur) returns alpha 255.
Hypotheses: `Presents` (size, repeat, filter as set; an alpha-less format fetches alpha 255: `C09Formats`), int32 matrix
entries.  The cover flags come from `analyze_extent` — literal model `Extent.analyzeExtent`, C04 `cover_*_sound`,
bridged to the regenerated source by `Props.BridgesExtent.analyze_extent_eq`. -/
theorem source_opaque_sound (r : Request) (d : Decision) (b : Bits) (hb : Presents r.src b) (hk : r.src.cr.kind = .bits)
    (hI : ∀ t, r.src.props.transform = some t → (toMatrix t).isI32)
    (h : composite32 r = .run d) (ho : d.srcFlags.testBit 13 = true)
    (x y : Int) (hx : r.srcExtents.x1 ≤ x ∧ x < r.srcExtents.x2) (hy : r.srcExtents.y1 ≤ y ∧ y < r.srcExtents.y2) :
    (b.filter = .nearest ∨ b.filter = .bilinear) ∧
    chA (fetchFiltered b (sampleX r.src.extentImage.transform x y) (sampleY r.src.extentImage.transform x y)) = 255 := by
  obtain ⟨fs, fm, hs, _, e1, _⟩ := run_inv r d h
  rw [e1] at ho
  have hp := (promotion_sound (r.src.flags ||| coverBits fs) ((maskEntry r.mask).2 ||| coverBits fm) r.dest.flags).1 ho
  exact opaque_values_full r.src b hb hk hI r.srcExtents fs hs hp x y hx hy

/-- (O3) end to end, MASK (kept or elided), bits image — no gap left -/
theorem mask_opaque_sound (r : Request) (d : Decision) (mk : Img) (hmk : r.mask = some mk) (b : Bits) (hb : Presents mk b)
    (hk : mk.cr.kind = .bits) (hI : ∀ t, mk.props.transform = some t → (toMatrix t).isI32)
    (h : composite32 r = .run d) (ho : d.maskFlags.testBit 13 = true)
    (x y : Int) (hx : r.maskExtents.x1 ≤ x ∧ x < r.maskExtents.x2) (hy : r.maskExtents.y1 ≤ y ∧ y < r.maskExtents.y2) :
    (b.filter = .nearest ∨ b.filter = .bilinear) ∧
    chA (fetchFiltered b (sampleX mk.extentImage.transform x y) (sampleY mk.extentImage.transform x y)) = 255 := by
  obtain ⟨fs, fm, _, hm, _, e2⟩ := run_inv r d h
  rw [hmk] at hm
  simp only [Option.map_some, analyzeExtentOpt] at hm
  by_cases hel : (mk.flags &&& FAST_PATH_IS_OPAQUE) == 0
  · have eme : (maskEntry r.mask).2 = mk.flags := by rw [hmk]; simp only [maskEntry, hel, if_true]
    rw [e2, eme] at ho
    have hp := (promotion_sound (r.src.flags ||| coverBits fs) (mk.flags ||| coverBits fm) r.dest.flags).2.1 ho
    exact opaque_values_full mk b hb hk hI r.maskExtents fm hm hp x y hx hy
  · obtain ⟨g1, _, g3⟩ := mask_opaque_sound_partial r d mk hmk b hb hk hI h ho x y hx hy
    have h13 : mk.flags.testBit 13 = true := by
      cases hq : mk.flags.testBit 13 with
      | true => rfl
      | false =>
        exfalso; apply hel
        have : mk.flags &&& FAST_PATH_IS_OPAQUE = 0 := by
          apply Nat.eq_of_testBit_eq; intro j
          rw [Nat.testBit_and, Nat.zero_testBit]
          by_cases hj : j = 13
          · subst hj; rw [hq]; rfl
          · have : FAST_PATH_IS_OPAQUE.testBit j = false := by
              show (2 ^ 13).testBit j = false
              rw [Nat.testBit_two_pow]; exact decide_eq_false (fun e => hj e.symm)
            rw [this, Bool.and_false]
        rw [this]; rfl
    have hp : (mk.flags ||| coverBits fm).testBit 13 = true := by rw [Nat.testBit_or, h13]; rfl
    exact opaque_values_full mk b hb hk hI r.maskExtents fm hm (Or.inl hp) x y hx hy

end Pixman.Props.C09Reduction

import Pixman.Props.C03
import Pixman.Lemmas.CompositeRegionBridge
/-! C03 — the theorems of Props/C03 with the `RegionAlgebra` bundle discharged from C05/C07:
    these are the unconditional statements (only the no-overflow range `RangeOK` remains). -/
namespace Pixman.Props.C03
open Pixman.Region Pixman.CompositeRegion

variable {src : Image} {mask : Option Image} {dest : Image} {sx sy mx my dx dy w h : Int}

/-- pixman_compute_composite_region reports exactly the intersection `R` of the property. -/
theorem composite_region_exact (H : RangeOK src mask dest sx sy mx my dx dy w h)
    (na : NoAlphaClips src mask dest)
    (ht : (computeCompositeRegion32 src mask dest sx sy mx my dx dy w h).2 = true) (x y : Int) :
    (computeCompositeRegion32 src mask dest sx sy mx my dx dy w h).1.Mem x y ↔
      R src mask dest sx sy mx my dx dy w h x y :=
  compute_points regionAlgebra H na ht x y

/-- … and returns FALSE exactly when that intersection is empty. -/
theorem composite_region_false_iff_empty (H : RangeOK src mask dest sx sy mx my dx dy w h)
    (na : NoAlphaClips src mask dest) :
    (computeCompositeRegion32 src mask dest sx sy mx my dx dy w h).2 = false ↔
      ∀ x y, ¬ R src mask dest sx sy mx my dx dy w h x y :=
  compute_false_iff_empty regionAlgebra H na

/-- The reported region is canonical. -/
theorem composite_region_canon (H : RangeOK src mask dest sx sy mx my dx dy w h)
    (ht : (computeCompositeRegion32 src mask dest sx sy mx my dx dy w h).2 = true) :
    Canon (computeCompositeRegion32 src mask dest sx sy mx my dx dy w h).1 :=
  compute_canon regionAlgebra H ht

/-- With alpha-map clips the reported region is still inside `R`. -/
theorem composite_region_subset (H : RangeOK src mask dest sx sy mx my dx dy w h)
    (ht : (computeCompositeRegion32 src mask dest sx sy mx my dx dy w h).2 = true) (x y : Int)
    (hm : (computeCompositeRegion32 src mask dest sx sy mx my dx dy w h).1.Mem x y) :
    R src mask dest sx sy mx my dx dy w h x y :=
  compute_subset_R regionAlgebra H ht x y hm

/-- The boxes handed to the composite function by `pixman_image_composite32` cover exactly `R`. -/
theorem composite_boxes_cover_R (H : RangeOK src mask dest sx sy mx my dx dy w h)
    (na : NoAlphaClips src mask dest)
    (ht : (computeCompositeRegion32 src mask dest sx sy mx my dx dy w h).2 = true) (x y : Int) :
    (∃ i ∈ compositeBoxes (computeCompositeRegion32 src mask dest sx sy mx my dx dy w h).1
        sx sy mx my dx dy, InRect i.destX i.destY i.width i.height x y) ↔
      R src mask dest sx sy mx my dx dy w h x y :=
  loop_covers_R regionAlgebra H na ht x y

end Pixman.Props.C03
